(* C18, stream storage: the Publish (with history) step of the simulation. *)
From Coq Require Import List NArith ZArith Bool String Ascii Lia.
From Cfg Require Import Model.RStr Model.LuaNum Model.Redis Model.RedisScripts Model.BrokerApi18
                        Model.RedisBroker Model.MemBroker18 Proofs.C18Lib Proofs.C18Redis Proofs.C18Stream
                        Proofs.C18StreamH.
Import ListNotations.
Open Scope string_scope.

(* ================= decoding of the PUB/SUB payloads built by the scripts ================= *)
Lemma nonce_ok_chars e : nonce_ok e = true -> has_char ":" e = false /\ has_char "_" e = false.
Proof. unfold nonce_ok. intros H. apply andb_true_iff in H as [A B]. apply negb_true_iff in A, B. split; assumption. Qed.

Lemma sindex_cons p x s :
  sindex p (String x s) = if is_prefix p (String x s) then Some O
                          else match sindex p s with Some k => Some (S k) | None => None end.
Proof. reflexivity. Qed.

Lemma sindex_sep (a b : string) : has_char "_" a = false -> sindex "__" (a ++ "__" ++ b) = Some (String.length a).
Proof.
  induction a as [|x a IH]; intros H.
  - reflexivity.
  - cbn [has_char] in H. apply orb_false_iff in H as [H1 H2].
    change (String x a ++ "__" ++ b) with (String x (a ++ "__" ++ b)). rewrite sindex_cons.
    change (is_prefix "__" (String x (a ++ "__" ++ b))) with (Ascii.eqb "_" x && is_prefix "_" (a ++ "__" ++ b)).
    rewrite (Ascii.eqb_sym "_" x), H1. cbn [andb]. rewrite (IH H2). reflexivity.
Qed.

Lemma slen_small_num s : (N.of_nat (String.length s) < 2147483648)%N ->
  lua_num2str (Z.of_N (slen s)) = dec (slen s).
Proof. intros H. apply lua_num2str_small. unfold slen. lia. Qed.

Lemma atoi_dec n : (n < 9223372036854775808)%N -> atoi (dec n) = Some (Z.of_N n).
Proof.
  intros H. unfold atoi, parse_int64. rewrite parse_goint_dec. unfold int64_ok.
  replace (-9223372036854775808 <=? Z.of_N n)%Z with true by (symmetry; apply Z.leb_le; lia).
  replace (Z.of_N n <=? 9223372036854775807)%Z with true by (symmetry; apply Z.leb_le; lia). reflexivity.
Qed.

Lemma extract_p1 top e msg :
  nonce_ok e = true -> (top < BOUND)%N ->
  extract_push_data (p1_payload (Z.of_N top) e msg) = PushPub msg top e false "".
Proof.
  intros He Ht. apply nonce_ok_chars in He as [Hc Hu]. unfold BOUND in Ht.
  unfold p1_payload. rewrite lua_num2str_small by assumption.
  unfold extract_push_data.
  change (is_prefix "__" ("__" ++ "p1:" ++ dec top ++ ":" ++ e ++ "__" ++ msg)) with true. cbn [negb].
  change (sdrop 2 ("__" ++ "p1:" ++ dec top ++ ":" ++ e ++ "__" ++ msg))
    with (String "p" ("1:" ++ dec top ++ ":" ++ e ++ "__" ++ msg)).
  cbn iota. change (Ascii.eqb "p" "j") with false. change (Ascii.eqb "p" "l") with false. cbn [orb].
  change (Ascii.eqb "p" "p") with true. cbn iota.
  change (String "p" ("1:" ++ dec top ++ ":" ++ e ++ "__" ++ msg)) with (("p1:" ++ dec top ++ ":" ++ e) ++ "__" ++ msg)
    || replace (String "p" ("1:" ++ dec top ++ ":" ++ e ++ "__" ++ msg)) with (("p1:" ++ dec top ++ ":" ++ e) ++ "__" ++ msg)
       by (cbn [append]; rewrite !append_assoc; reflexivity).
  rewrite sindex_sep.
  2:{ cbn [append has_char]. change (Ascii.eqb "p" "_") with false. change (Ascii.eqb "1" "_") with false.
      change (Ascii.eqb ":" "_") with false. cbn [orb]. rewrite has_char_app, (dec_no_char "_"%char top) by reflexivity.
      cbn [orb append has_char]. change (Ascii.eqb ":" "_") with false. cbn [orb]. assumption. }
  set (hdr := "p1:" ++ dec top ++ ":" ++ e).
  assert (Hl : String.length hdr = S (S (S (String.length (dec top ++ ":" ++ e))))) by reflexivity.
  rewrite Hl. rewrite <- Hl. rewrite stake_app.
  replace (String.length hdr + 2)%nat with (String.length (hdr ++ "__")) by (rewrite length_append; reflexivity).
  replace (hdr ++ "__" ++ msg) with ((hdr ++ "__") ++ msg) by (rewrite append_assoc; reflexivity).
  pose proof (sdrop_app (hdr ++ "__") msg) as E. rewrite E. clear E.
  assert (Eh : sdrop 3 hdr = dec top ++ ":" ++ e) by reflexivity. rewrite Eh.
  rewrite Hl. cbn [Nat.ltb Nat.leb].
  change (dec top ++ ":" ++ e) with (dec top ++ String ":" e).
  rewrite (sindex_char_app ":" (dec top) e) by (apply dec_no_char; reflexivity).
  pose proof (dec_nonempty top) as Hne. destruct (String.length (dec top)) as [|d'] eqn:El.
  { destruct (dec top); [congruence|discriminate]. }
  rewrite <- El. rewrite stake_app. rewrite parse_u64go_dec by (unfold two64; lia).
  change (dec top ++ String ":" e) with (dec top ++ ":" ++ e).
  replace (S (String.length (dec top))) with (String.length (dec top ++ ":")) by (rewrite length_append; cbn; lia).
  replace (dec top ++ ":" ++ e) with ((dec top ++ ":") ++ e) by (rewrite append_assoc; reflexivity).
  rewrite sdrop_app. reflexivity.
Qed.

Lemma cut_idx (a b : string) : has_char ":" a = false -> sindex_char ":" (a ++ ":" ++ b) = Some (String.length a).
Proof. intros H. change (a ++ ":" ++ b) with (a ++ String ":" b). apply sindex_char_app. assumption. Qed.
Lemma cut_take (a b : string) : stake (String.length a) (a ++ ":" ++ b) = a.
Proof. apply stake_app. Qed.
Lemma cut_drop (a b : string) : sdrop (S (String.length a)) (a ++ ":" ++ b) = b.
Proof.
  replace (S (String.length a)) with (String.length (a ++ ":")) by (rewrite length_append; cbn; lia).
  replace (a ++ ":" ++ b) with ((a ++ ":") ++ b) by (rewrite append_assoc; reflexivity). apply sdrop_app.
Qed.

Lemma parse_delta_d1 top e prev msg :
  nonce_ok e = true -> (top < BOUND)%N ->
  (N.of_nat (String.length prev) < 2147483648)%N -> (N.of_nat (String.length msg) < 2147483648)%N ->
  parse_delta_push ("d1:" ++ dec top ++ ":" ++ e ++ ":" ++ dec (slen prev) ++ ":" ++ prev ++ ":" ++ dec (slen msg) ++ ":" ++ msg)
  = PushPub msg top e true prev.
Proof.
  intros He Ht Hp Hm. apply nonce_ok_chars in He as [Hc _]. unfold BOUND in Ht.
  unfold parse_delta_push.
  change (is_prefix "d1:" ("d1:" ++ dec top ++ ":" ++ e ++ ":" ++ dec (slen prev) ++ ":" ++ prev ++ ":" ++ dec (slen msg) ++ ":" ++ msg)) with true.
  cbn [negb].
  change (sdrop 3 ("d1:" ++ dec top ++ ":" ++ e ++ ":" ++ dec (slen prev) ++ ":" ++ prev ++ ":" ++ dec (slen msg) ++ ":" ++ msg))
    with (dec top ++ ":" ++ e ++ ":" ++ dec (slen prev) ++ ":" ++ prev ++ ":" ++ dec (slen msg) ++ ":" ++ msg).
  rewrite cut_idx by (apply dec_no_char; reflexivity).
  rewrite cut_take, parse_u64go_dec by (unfold two64; lia).
  rewrite cut_drop.
  rewrite cut_idx by assumption. rewrite cut_take, cut_drop.
  rewrite cut_idx by (apply dec_no_char; reflexivity).
  rewrite cut_take, atoi_dec by (unfold slen; lia). rewrite cut_drop.
  replace (Z.of_N (slen prev) <? 0)%Z with false by (symmetry; apply Z.ltb_ge; lia).
  replace (Z.of_nat (String.length (prev ++ ":" ++ dec (slen msg) ++ ":" ++ msg)) <=? Z.of_N (slen prev))%Z with false
    by (symmetry; apply Z.leb_gt; rewrite length_append; unfold slen; cbn [String.length append]; lia).
  replace (Z.to_nat (Z.of_N (slen prev))) with (String.length prev) by (unfold slen; lia).
  rewrite cut_take, cut_drop.
  rewrite cut_idx by (apply dec_no_char; reflexivity).
  rewrite cut_take, atoi_dec by (unfold slen; lia). rewrite cut_drop.
  replace (Z.of_N (slen msg) <? 0)%Z with false by (symmetry; apply Z.ltb_ge; lia).
  replace (Z.of_nat (String.length msg) <? Z.of_N (slen msg))%Z with false by (symmetry; apply Z.ltb_ge; unfold slen; lia).
  cbn [orb]. replace (Z.to_nat (Z.of_N (slen msg))) with (String.length msg) by (unfold slen; lia).
  rewrite stake_all. reflexivity.
Qed.

Lemma extract_d1 top e prev msg :
  nonce_ok e = true -> (top < BOUND)%N ->
  (N.of_nat (String.length prev) < 2147483648)%N -> (N.of_nat (String.length msg) < 2147483648)%N ->
  extract_push_data (d1_payload (Z.of_N top) e prev msg) = PushPub msg top e true prev.
Proof.
  intros He Ht Hp Hm. unfold d1_payload. unfold BOUND in Ht.
  rewrite lua_num2str_small by assumption. rewrite !slen_small_num by assumption.
  rewrite <- (parse_delta_d1 top e prev msg He Ht Hp Hm). reflexivity.
Qed.

(* the HandlePublication call produced by one script publish *)
Lemma handle_p1 c data top e :
  c <> "" -> nonce_ok e = true -> (top < BOUND)%N ->
  handle_message (message_channel c) (p1_payload (Z.of_N top) e (marshal data false))
  = Some (mkDel c data top e false None).
Proof.
  intros Hc He Ht. unfold handle_message. rewrite extract_p1 by assumption. rewrite channel_of_message.
  apply String.eqb_neq in Hc. rewrite Hc. reflexivity.
Qed.

Lemma handle_d1 c data top e (prev : option string) :
  c <> "" -> nonce_ok e = true -> (top < BOUND)%N ->
  (N.of_nat (String.length data) < 2147483647)%N ->
  (forall p, prev = Some p -> (N.of_nat (String.length p) < 2147483647)%N) ->
  handle_message (message_channel c)
    (d1_payload (Z.of_N top) e (match prev with Some p => marshal p false | None => "" end) (marshal data false))
  = Some (mkDel c data top e true prev).
Proof.
  intros Hc He Ht Hd Hp. unfold handle_message. rewrite extract_d1; try assumption.
  - rewrite channel_of_message. apply String.eqb_neq in Hc. rewrite Hc. cbn [unmarshal marshal Ascii.eqb Bool.eqb orb].
    destruct prev as [p|]; reflexivity.
  - destruct prev as [p|]; cbn [marshal String.length]; [specialize (Hp p eq_refl)|]; lia.
  - cbn [marshal String.length]. lia.
Qed.

(* ================= broker_history_add_stream.lua, decomposed ================= *)
Definition version_block (meta_key version vepoch epoch : string) : M unit :=
  if String.eqb version "0" then ret tt else
  dom pv <- rc ["hmget"; meta_key; "v"; "ve"; "s"] ;;
  match pv with
  | RArr [pver; pve; cur] =>
      dom _ <- match pver with
           | RBulk pvs =>
               let epoch_ok := (String.eqb vepoch "" ||
                                match pve with RBulk s => String.eqb vepoch s | _ => false end)%bool in
               if epoch_ok then
                 match str2number pvs, str2number version with
                 | TNum a, TNum b =>
                     if (b <=? a)%Z then
                       match cur with
                       | RBulk cs => match str2number cs with
                                     | TNum o => finish (RArr [RInt o; RBulk epoch; RBulk "0"; RBulk "1"])
                                     | _ => unreachable
                                     end
                       | _ => finish (RArr [RInt 0; RBulk epoch; RBulk "0"; RBulk "1"])
                       end
                     else ret tt
                 | _, _ => unreachable
                 end
               else ret tt
           | _ => ret tt
           end ;;
      dom _ <- rc ["hset"; meta_key; "v"; version; "ve"; vepoch] ;; ret tt
  | _ => unreachable
  end.

Definition add_tail (stream_key meta_key result_key msg size ttl channel meta_expire pubcmd rexp use_delta epoch : string)
                    (topr : reply) : M reply :=
  match topr with
  | RInt topz =>
      let top := round53 topz in
      dom _ <- when_ (negb (String.eqb meta_expire "0")) (rc ["expire"; meta_key; meta_expire]) ;;
      dom prev <- (if (String.eqb use_delta "1" && negb (top =? 1)%Z)%bool then
                 dom pe <- rc ["xrevrange"; stream_key; "+"; "-"; "COUNT"; "1"] ;;
                 match pe with
                 | RArr [] => ret ""
                 | RArr (RArr [_; RArr fv] :: _) =>
                     match find_d fv with Some v => ret v | None => unreachable end
                 | _ => unreachable
                 end
               else ret "") ;;
      dom prev <- (if (top =? 1)%Z then dom _ <- rc ["del"; stream_key] ;; ret "" else ret prev) ;;
      dom tops <- num_arg top ;;
      dom _ <- rc ["xadd"; stream_key; "MAXLEN"; size; tops; "d"; msg] ;;
      dom _ <- rc ["expire"; stream_key; ttl] ;;
      dom _ <- when_ (negb (String.eqb channel ""))
             (rc [pubcmd; channel;
                  if String.eqb use_delta "1" then d1_payload top epoch prev msg else p1_payload top epoch msg]) ;;
      dom _ <- save_result result_key rexp epoch top ;;
      finish (RArr [RInt top; RBulk epoch; RBulk "0"; RBulk "0"])
  | _ => unreachable
  end.

Lemma sh_add_stream_eq sk mk rk msg size ttl channel meta_expire nonce pubcmd rexp use_delta version vepoch :
  sh_add_stream [sk; mk; rk] [msg; size; ttl; channel; meta_expire; nonce; pubcmd; rexp; use_delta; version; vepoch] =
  (dom c <- cached_result rk rexp ;;
   match c with
   | Some (ro, re) => finish (RArr [ro; RBulk re; RBulk "1"; RBulk "0"])
   | None =>
       dom epoch <- current_epoch mk nonce ;;
       dom _ <- version_block mk version vepoch epoch ;;
       dom topr <- rc ["hincrby"; mk; "s"; "1"] ;;
       add_tail sk mk rk msg size ttl channel meta_expire pubcmd rexp use_delta epoch topr
   end).
Proof. reflexivity. Qed.

(* ================= fragments ================= *)
Definition hash_ok (h : list (string * string)) (e : string) (top ver : N) (vep : string) : Prop :=
  sfind "e" h = Some e /\
  sfind "s" h = (if (top =? 0)%N then None else Some (dec top)) /\
  sfind "v" h = (if (ver =? 0)%N then None else Some (dec ver)) /\
  sfind "ve" h = (if (ver =? 0)%N then None else Some vep).

Lemma meta_rel_hash rs c e top ver vep :
  meta_rel rs c e top ver vep <->
  exists h x, getk rs (meta_key false c) = Some (mkKey (VHash h) x) /\ hash_ok h e top ver vep.
Proof. unfold meta_rel, hash_ok. split; intros (h & x & H); exists h, x; tauto. Qed.

Lemma cached_none rk st : cached_result rk "" st = (st, inl None).
Proof. reflexivity. Qed.

Lemma cached_miss rk rexp st :
  rexp <> "" -> getk st rk = None -> cached_result rk rexp st = (st, inl None).
Proof.
  intros Hr Hk. unfold cached_result. apply String.eqb_neq in Hr. rewrite Hr.
  rewrite bind_rc, (hmget2_none _ _ _ _ Hk). reflexivity.
Qed.

Lemma cached_hit rk rexp st h x ep :
  rexp <> "" -> getk st rk = Some (mkKey (VHash h) x) -> sfind "e" h = Some ep ->
  cached_result rk rexp st = (st, inl (Some (bulk_opt (sfind "s" h), ep))).
Proof.
  intros Hr Hk He. unfold cached_result. apply String.eqb_neq in Hr. rewrite Hr.
  rewrite bind_rc, (hmget2_some _ _ _ _ _ _ Hk), He. reflexivity.
Qed.

Lemma cur_epoch_some mk nonce st h x e :
  getk st mk = Some (mkKey (VHash h) x) -> sfind "e" h = Some e -> current_epoch mk nonce st = (st, inl e).
Proof. intros Hk He. unfold current_epoch. rewrite bind_rc, (hget_some _ _ _ _ _ Hk), He. reflexivity. Qed.

Lemma cur_epoch_none mk nonce st :
  getk st mk = None -> current_epoch mk nonce st = (setval st mk (VHash [("e", nonce)]), inl nonce).
Proof.
  intros Hk. unfold current_epoch. rewrite bind_rc, (hget_none _ _ _ Hk). cbn iota beta.
  rewrite bind_rc, (hset1_none _ _ _ _ Hk). reflexivity.
Qed.

Lemma hash_ok_new nonce : hash_ok [("e", nonce)] nonce 0 0 "".
Proof. repeat split. Qed.

(* version string sent by Publish *)
Definition vstr (v : N) : string := if (0 <? v)%N then itoa (int_of_u64 v) else "0".

Lemma vstr_pos v : (0 < v < 9007199254740992)%N -> vstr v = dec v.
Proof.
  intros H. unfold vstr, int_of_u64, itoa.
  replace (0 <? v)%N with true by (symmetry; apply N.ltb_lt; lia).
  replace (v <? 9223372036854775808)%N with true by (symmetry; apply N.ltb_lt; lia).
  apply zdec_of_N.
Qed.

Definition mem_skip (v : N) (vepn : string) (ver : N) (vep : string) : bool :=
  ((String.eqb vepn "" || String.eqb vepn vep) && (v <=? ver)%N)%bool.

Lemma sfind_lit_other {A} (k k' : string) (v : A) l : String.eqb k' k = false -> sfind k' (sput k v l) = sfind k' l.
Proof. intros H. apply sfind_sput_other. apply String.eqb_neq. assumption. Qed.

Lemma version_block_spec st mk h x e top ver vep v vepn :
  getk st mk = Some (mkKey (VHash h) x) -> hash_ok h e top ver vep ->
  (top < BOUND)%N -> (ver < 9007199254740992)%N -> (v < 9007199254740992)%N ->
  (v = 0%N /\ version_block mk (vstr v) vepn e st = (st, inl tt)) \/
  ((0 < v)%N /\ mem_skip v vepn ver vep = true /\
   version_block mk (vstr v) vepn e st = (st, inr (RArr [RInt (Z.of_N top); RBulk e; RBulk "0"; RBulk "1"]))) \/
  ((0 < v)%N /\ mem_skip v vepn ver vep = false /\
   exists h', version_block mk (vstr v) vepn e st = (setval st mk (VHash h'), inl tt) /\ hash_ok h' e top v vepn).
Proof.
  intros Hk (He & Hs & Hv & Hve) Ht Hver Hvb. unfold BOUND in Ht.
  destruct (v =? 0)%N eqn:Ev0.
  { apply N.eqb_eq in Ev0. subst v. left. split; reflexivity. }
  apply N.eqb_neq in Ev0. right.
  assert (Hvpos : (0 < v < 9007199254740992)%N) by lia.
  unfold version_block. rewrite (vstr_pos _ Hvpos). rewrite dec_eqb_0.
  replace (v =? 0)%N with false by (symmetry; apply N.eqb_neq; lia).
  rewrite bind_rc, (hmget3_some _ _ _ _ _ _ _ Hk), Hs, Hv, Hve. cbn iota beta.
  destruct (hset2_some st mk "v" (dec v) "ve" vepn h x Hk) as [n Hset].
  assert (Hh' : hash_ok (sput "ve" vepn (sput "v" (dec v) h)) e top v vepn).
  { unfold hash_ok. replace (v =? 0)%N with false by (symmetry; apply N.eqb_neq; lia).
    rewrite !sfind_lit_other by reflexivity. rewrite !sfind_sput_same. repeat split; assumption. }
  destruct (ver =? 0)%N eqn:Ever.
  - (* no version stored yet *)
    right. apply N.eqb_eq in Ever. subst ver. split; [lia|]. split.
    { unfold mem_skip. replace (v <=? 0)%N with false by (symmetry; apply N.leb_gt; lia). apply andb_false_r. }
    cbn [bulk_opt]. exists (sput "ve" vepn (sput "v" (dec v) h)). split; [|exact Hh'].
    rewrite bind_ret, bind_rc, Hset. reflexivity.
  - apply N.eqb_neq in Ever. cbn [bulk_opt].
    rewrite !str2number_dec. rewrite !round53_small by lia.
    replace (Z.of_N v <=? Z.of_N ver)%Z with (v <=? ver)%N
      by (destruct (v <=? ver)%N eqn:E; symmetry; [apply Z.leb_le; apply N.leb_le in E | apply Z.leb_gt; apply N.leb_gt in E]; lia).
    unfold mem_skip.
    destruct ((String.eqb vepn "" || String.eqb vepn vep)%bool) eqn:Eep; cbn [andb].
    + destruct (v <=? ver)%N eqn:Ecmp.
      * left. split; [lia|]. split; [reflexivity|].
        destruct (top =? 0)%N eqn:Etop.
        -- apply N.eqb_eq in Etop. subst top. reflexivity.
        -- cbn [bulk_opt]. rewrite str2number_dec, round53_small by lia. reflexivity.
      * right. split; [lia|]. split; [reflexivity|].
        exists (sput "ve" vepn (sput "v" (dec v) h)). split; [|exact Hh'].
        rewrite bind_ret, bind_rc, Hset. reflexivity.
    + right. split; [lia|]. split; [reflexivity|].
      exists (sput "ve" vepn (sput "v" (dec v) h)). split; [|exact Hh'].
      rewrite bind_ret, bind_rc, Hset. reflexivity.
Qed.

Lemma hincrby_spec st mk h x e top ver vep :
  getk st mk = Some (mkKey (VHash h) x) -> hash_ok h e top ver vep -> (top + 1 < BOUND)%N ->
  exists h', redis_call st ["hincrby"; mk; "s"; "1"] = (setval st mk (VHash h'), RInt (Z.of_N (top + 1)))
             /\ hash_ok h' e (top + 1) ver vep.
Proof.
  intros Hk (He & Hs & Hv & Hve) Ht. unfold BOUND in Ht.
  destruct (top =? 0)%N eqn:E.
  - apply N.eqb_eq in E. subst top. exists (sput "s" "1" h). split.
    + apply (hincrby1_absent _ _ _ _ _ Hk Hs).
    + unfold hash_ok. rewrite (sfind_lit_other "s" "e"), (sfind_lit_other "s" "v"), (sfind_lit_other "s" "ve") by reflexivity.
      rewrite sfind_sput_same. repeat split; try assumption; reflexivity.
  - exists (sput "s" (dec (top + 1)) h). split.
    + apply (hincrby1_present _ _ _ _ _ _ Hk Hs). lia.
    + unfold hash_ok. rewrite (sfind_lit_other "s" "e"), (sfind_lit_other "s" "v"), (sfind_lit_other "s" "ve") by reflexivity.
      rewrite sfind_sput_same.
      replace (top + 1 =? 0)%N with false by (symmetry; apply N.eqb_neq; lia). repeat split; assumption.
Qed.

(* previous publication lookup: xrevrange key + - COUNT 1 *)
Definition last_data (items : list (N * string)) : option string :=
  match rev items with (_, d) :: _ => Some d | [] => None end.

Lemma prev_lookup st c items top :
  strm_rel st c items top -> (forall it, In it items -> (fst it <= u64max)%N) ->
  (dom pe <- rc ["xrevrange"; stream_key c; "+"; "-"; "COUNT"; "1"] ;;
   match pe with
   | RArr [] => ret ""
   | RArr (RArr [_; RArr fv] :: _) => match find_d fv with Some v => ret v | None => unreachable end
   | _ => unreachable
   end) st = (st, inl (match last_data items with Some d => marshal d false | None => "" end)).
Proof.
  intros Hs Hb. rewrite bind_rc, xrevrange_call.
  rewrite (xrange_gen true st _ _ _ _ (0, 0)%N (u64max, u64max) (Some 1%Z)); try reflexivity.
  rewrite (strm_rel_get _ _ _ _ Hs). unfold last_data.
  destruct items as [|it items]; [reflexivity|].
  unfold xrange_sel. rewrite (sel_fwd _ 0%N Hb).
  rewrite filter_all by (intros; apply N.leb_le; lia).
  rewrite <- map_rev. destruct (rev (it :: items)) as [|[o d] r] eqn:Er.
  - apply (f_equal (@List.length _)) in Er. rewrite rev_length in Er. discriminate.
  - reflexivity.
Qed.

Lemma save_result_none rk e top st : save_result rk "" e top st = (st, inl tt).
Proof. reflexivity. Qed.

Lemma save_result_some rk rz e top st :
  (0 < rz < 2147483648)%Z -> (top < BOUND)%N ->
  (getk st rk = None \/ exists h x, getk st rk = Some (mkKey (VHash h) x)) ->
  exists st' hr, save_result rk (itoa rz) e (Z.of_N top) st = (st', inl tt) /\
    upd1 st st' rk (VHash hr) /\ sfind "e" hr = Some e /\ sfind "s" hr = Some (dec top).
Proof.
  intros Hrz Ht Hk. unfold BOUND in Ht. unfold save_result.
  assert (Hne : String.eqb (itoa rz) "" = false).
  { rewrite itoa_nonneg by lia. apply dec_neq_lit. exact I. }
  rewrite Hne. unfold num_arg. rewrite redis_arg_of_num_small by lia. rewrite bind_ret.
  assert (Hset : exists hr n, redis_call st ["hset"; rk; "e"; e; "s"; dec top] = (setval st rk (VHash hr), RInt n)
                              /\ sfind "e" hr = Some e /\ sfind "s" hr = Some (dec top)).
  { destruct Hk as [Hk|(h & x & Hk)].
    - destruct (hset2_none st rk "e" e "s" (dec top) Hk) as [n Hn]. do 2 eexists. split; [exact Hn|].
      split; reflexivity.
    - destruct (hset2_some st rk "e" e "s" (dec top) h x Hk) as [n Hn]. do 2 eexists. split; [exact Hn|].
      rewrite (sfind_lit_other "s" "e") by reflexivity. rewrite !sfind_sput_same. split; reflexivity. }
  destruct Hset as (hr & n & Hn & He & Hs).
  rewrite bind_rc, Hn. cbn iota beta.
  pose proof (getk_setval_same st rk (VHash hr)) as Hg.
  destruct (expire_pos _ rk rz _ _ Hrz Hg) as (st' & Hex & Hu).
  exists st', hr. split; [|split; [|split; assumption]].
  - rewrite bind_rc, Hex. reflexivity.
  - eapply upd1_trans; [|exact Hu].
    split; [eexists; exact Hg|]. split; [intros k' Hne'; apply getk_setval_other; assumption|]. split; reflexivity.
Qed.

Definition items_after (items0 : list (N * string)) (top : N) (data : string) (sz : Z) : list (N * string) :=
  let items := (items0 ++ [(top, data)])%list in skipn (List.length items - Z.to_nat sz) items.

Lemma xadd_step st c items0 top0 sz data :
  strm_rel st c items0 top0 -> (top0 + 1 < BOUND)%N -> (0 < sz < 2147483648)%Z ->
  redis_call st ["xadd"; stream_key c; "MAXLEN"; itoa sz; dec (top0 + 1); "d"; marshal data false] =
    (setval st (stream_key c) (VStream (map enc_item (items_after items0 (top0 + 1) data sz)) ((top0 + 1)%N, 0%N)),
     RBulk (sid_str ((top0 + 1)%N, 0%N))).
Proof.
  intros Hs Ht Hsz. unfold BOUND in Ht. rewrite itoa_nonneg by lia.
  rewrite xadd_call by (unfold u64max; lia).
  rewrite (strm_rel_get _ _ _ _ Hs).
  assert (E : forall es, es = map enc_item items0 ->
            xadd_result es (Z.of_N (Z.to_N sz)) (top0 + 1) (marshal data false)
            = VStream (map enc_item (items_after items0 (top0 + 1) data sz)) ((top0 + 1)%N, 0%N)).
  { intros es ->. unfold xadd_result, trim_maxlen, items_after. cbn zeta. f_equal.
    change (mkEntry ((top0 + 1)%N, 0%N) ["d"; marshal data false]) with (enc_item ((top0 + 1)%N, data)).
    change [enc_item ((top0 + 1)%N, data)] with (map enc_item [((top0 + 1)%N, data)]).
    rewrite <- map_app, map_length, Z2N.id by lia. apply skipn_map. }
  destruct items0 as [|it items0].
  - cbn iota beta. rewrite sid_le_lo. replace (top0 + 1 <=? 0)%N with false by (symmetry; apply N.leb_gt; lia).
    rewrite (E [] eq_refl). reflexivity.
  - cbn iota beta. rewrite sid_le_lo. replace (top0 + 1 <=? top0)%N with false by (symmetry; apply N.leb_gt; lia).
    rewrite (E _ eq_refl). reflexivity.
Qed.

Lemma items_after_nonempty items0 top data sz : (0 < sz)%Z -> items_after items0 top data sz <> [].
Proof.
  intros Hsz. unfold items_after. cbn zeta. intros E.
  apply (f_equal (@List.length _)) in E. rewrite skipn_length, app_length in E. cbn in E. lia.
Qed.

(* the memory side appends the same way *)
Lemma stream_add_items s data sz v vep :
  ms_items (fst (stream_add s data sz v vep)) = items_after (ms_items s) (ms_top s + 1) data sz.
Proof. reflexivity. Qed.

Lemma contig_after items0 lo top0 data sz :
  contig items0 lo top0 -> (0 < sz)%Z ->
  exists lo', (lo <= lo')%N /\ contig (items_after items0 (top0 + 1) data sz) lo' (top0 + 1).
Proof.
  intros Hc Hsz. unfold items_after. cbn zeta.
  pose proof (contig_snoc _ _ _ data Hc) as Hc'.
  set (items := (items0 ++ [((top0 + 1)%N, data)])%list) in *.
  exists (lo + N.of_nat (List.length items - Z.to_nat sz))%N. split; [lia|].
  apply contig_skipn; [assumption|lia].
Qed.

Lemma message_channel_nonempty c : String.eqb (message_channel c) "" = false.
Proof. reflexivity. Qed.

Definition prev_str (delta : bool) (items0 : list (N * string)) : string :=
  if delta then match last_data items0 with Some d => marshal d false | None => "" end else "".

Definition pub_payload (delta : bool) (top : N) (e : string) (items0 : list (N * string)) (data : string) : string :=
  if delta then d1_payload (Z.of_N top) e (prev_str delta items0) (marshal data false)
  else p1_payload (Z.of_N top) e (marshal data false).

Lemma add_tail_spec st c h xm items0 top0 e data sz ttl mz (rzo : option Z) (delta : bool) rk :
  let mk := meta_key false c in let sk := stream_key c in
  let rexp := match rzo with Some rz => itoa rz | None => "" end in
  getk st mk = Some (mkKey (VHash h) xm) ->
  strm_rel st c items0 top0 ->
  (forall it, In it items0 -> (fst it <= u64max)%N) ->
  (top0 + 1 < BOUND)%N -> (top0 = 0%N -> items0 = []) ->
  (0 < sz < 2147483648)%Z -> (0 < ttl < 2147483648)%Z -> small mz = true ->
  (forall rz, rzo = Some rz -> (0 < rz < 2147483648)%Z /\
                               (getk st rk = None \/ exists hr x, getk st rk = Some (mkKey (VHash hr) x))) ->
  sk <> mk -> rk <> mk -> rk <> sk ->
  exists st',
    add_tail sk mk rk (marshal data false) (itoa sz) (itoa ttl) (message_channel c) (itoa mz) "publish" rexp
             (if delta then "1" else "") e (RInt (Z.of_N (top0 + 1))) st
      = (st', inr (RArr [RInt (Z.of_N (top0 + 1)); RBulk e; RBulk "0"; RBulk "0"])) /\
    (exists x, getk st' mk = Some (mkKey (VHash h) x)) /\
    (exists x, getk st' sk = Some (mkKey (VStream (map enc_item (items_after items0 (top0 + 1) data sz)) ((top0 + 1)%N, 0%N)) x)) /\
    (rzo = None -> getk st' rk = getk st rk) /\
    (rzo <> None -> exists hr x, getk st' rk = Some (mkKey (VHash hr) x) /\ sfind "e" hr = Some e
                                 /\ sfind "s" hr = Some (dec (top0 + 1))) /\
    (forall k, k <> mk -> k <> sk -> k <> rk -> getk st' k = getk st k) /\
    now st' = now st /\
    outbox st' = (outbox st ++ [(message_channel c, pub_payload delta (top0 + 1) e items0 data)])%list.
Proof.
  intros mk sk rexp Hmk Hs Hb Ht Hz Hsz Httl Hmz Hrk Hsm Hrm Hrs.
  assert (Htb : (top0 + 1 < 9007199254740992)%N) by (unfold BOUND in Ht; lia).
  unfold add_tail. rewrite round53_small by lia.
  (* expire meta *)
  destruct (when_expire st mk mz _ _ Hmz Hmk) as (st1 & Hw1 & (Hg1 & Hf1 & Hn1 & Ho1)).
  unfold bindM at 1. rewrite Hw1.
  assert (Hs1 : strm_rel st1 c items0 top0).
  { unfold strm_rel in *. fold sk. rewrite (Hf1 sk Hsm). exact Hs. }
  (* previous publication *)
  assert (Hprev : forall (k : string -> M reply),
     bindM (if ((if delta then "1" else "") =? "1")%string && negb (Z.of_N (top0 + 1) =? 1)%Z
            then dom pe <- rc ["xrevrange"; sk; "+"; "-"; "COUNT"; "1"] ;;
                 match pe with
                 | RArr [] => ret ""
                 | RArr (RArr [_; RArr fv] :: _) => match find_d fv with Some v => ret v | None => unreachable end
                 | _ => unreachable
                 end
            else ret "") k st1 = k (prev_str delta items0) st1).
  { intros k. unfold prev_str.
    destruct delta; cbn [String.eqb Ascii.eqb Bool.eqb andb].
    - destruct (Z.of_N (top0 + 1) =? 1)%Z eqn:E1; cbn [negb].
      + apply Z.eqb_eq in E1. assert (top0 = 0%N) by lia. rewrite (Hz H). reflexivity.
      + unfold bindM at 1. unfold sk. rewrite (prev_lookup st1 c items0 top0 Hs1 Hb). reflexivity.
    - reflexivity. }
  rewrite Hprev. clear Hprev.
  (* del when a new epoch starts *)
  assert (Hdel : exists st2, (forall (k : string -> M reply),
     bindM (if (Z.of_N (top0 + 1) =? 1)%Z then dom _ <- rc ["del"; sk] ;; ret "" else ret (prev_str delta items0)) k st1
       = k (prev_str delta items0) st2) /\
     strm_rel st2 c items0 top0 /\ (forall k', k' <> sk -> getk st2 k' = getk st1 k') /\ now st2 = now st1 /\ outbox st2 = outbox st1).
  { destruct (Z.of_N (top0 + 1) =? 1)%Z eqn:E1.
    - apply Z.eqb_eq in E1. assert (H0 : top0 = 0%N) by lia. pose proof (Hz H0) as Hnil.
      destruct (del1 st1 sk) as [n Hd]. exists (delk st1 sk). split; [|split; [|split; [|split]]].
      + intros k. rewrite bind_assoc, bind_rc, Hd. cbn iota beta. rewrite bind_ret.
        unfold prev_str. rewrite Hnil. destruct delta; reflexivity.
      + rewrite Hnil. unfold strm_rel. apply getk_delk_same.
      + intros k' Hne. apply getk_delk_other. assumption.
      + reflexivity.
      + reflexivity.
    - exists st1. split; [intros k; reflexivity|]. split; [assumption|]. split; [reflexivity|]. split; reflexivity. }
  destruct Hdel as (st2 & Hd & Hs2 & Hf2 & Hn2 & Ho2). rewrite Hd. clear Hd.
  (* xadd + expire *)
  unfold num_arg. rewrite redis_arg_of_num_small by (unfold BOUND in Ht; lia). rewrite bind_ret.
  rewrite bind_rc. unfold sk at 1. rewrite (xadd_step st2 c items0 top0 sz data Hs2 Ht Hsz). cbn iota beta.
  set (V := VStream (map enc_item (items_after items0 (top0 + 1) data sz)) ((top0 + 1)%N, 0%N)).
  pose proof (getk_setval_same st2 (stream_key c) V) as Hg3.
  destruct (expire_pos _ (stream_key c) ttl _ _ Httl Hg3) as (st4 & Hex4 & (Hg4 & Hf4 & Hn4 & Ho4)).
  rewrite bind_rc. fold sk. fold sk in Hex4. rewrite Hex4. cbn iota beta.
  (* publish *)
  rewrite message_channel_nonempty. cbn [negb when_].
  rewrite bind_assoc, bind_rc, publish_call. cbn iota beta. rewrite bind_ret.
  set (st5 := mkR (store st4) (now st4)
                  (outbox st4 ++ [(message_channel c,
                                   if ((if delta then "1" else "") =? "1")%string
                                   then d1_payload (Z.of_N (top0 + 1)) e (prev_str delta items0) (marshal data false)
                                   else p1_payload (Z.of_N (top0 + 1)) e (marshal data false))])%list).
  assert (Hg5 : forall k, getk st5 k = getk st4 k) by reflexivity.
  assert (Hpay : (if ((if delta then "1" else "") =? "1")%string
                  then d1_payload (Z.of_N (top0 + 1)) e (prev_str delta items0) (marshal data false)
                  else p1_payload (Z.of_N (top0 + 1)) e (marshal data false)) = pub_payload delta (top0 + 1) e items0 data).
  { unfold pub_payload. destruct delta; reflexivity. }
  (* frames so far: for keys other than mk, sk *)
  assert (Hfr5 : forall k, k <> mk -> k <> sk -> getk st5 k = getk st k).
  { intros k H1 H2. rewrite Hg5, (Hf4 k H2). rewrite getk_setval_other by exact H2. rewrite (Hf2 k H2). apply Hf1. exact H1. }
  assert (Hmk5 : exists x, getk st5 mk = Some (mkKey (VHash h) x)).
  { destruct Hg1 as [x1 Hg1]. exists x1. rewrite Hg5, (Hf4 mk (not_eq_sym Hsm)).
    rewrite getk_setval_other by exact (not_eq_sym Hsm). rewrite (Hf2 mk (not_eq_sym Hsm)). exact Hg1. }
  assert (Hsk5 : exists x, getk st5 sk = Some (mkKey V x)).
  { destruct Hg4 as [x4 Hg4]. exists x4. rewrite Hg5. exact Hg4. }
  assert (Hnow5 : now st5 = now st).
  { unfold st5. cbn [now]. rewrite Hn4. cbn [now setval putk]. congruence. }
  assert (Hout5 : outbox st5 = (outbox st ++ [(message_channel c, pub_payload delta (top0 + 1) e items0 data)])%list).
  { unfold st5. cbn [outbox]. rewrite Hpay, Ho4. cbn [outbox setval putk]. rewrite Ho2, Ho1. reflexivity. }
  (* idempotency result *)
  destruct rzo as [rz|].
  - destruct (Hrk rz eq_refl) as [Hrz Hrkst].
    assert (Hrk5 : getk st5 rk = None \/ exists hr x, getk st5 rk = Some (mkKey (VHash hr) x)).
    { rewrite (Hfr5 rk Hrm Hrs). exact Hrkst. }
    destruct (save_result_some rk rz e (top0 + 1) st5 Hrz Ht Hrk5) as (st6 & hr & Hsv & ((x6 & Hg6) & Hf6 & Hn6 & Ho6) & He6 & Hs6).
    exists st6. unfold rexp. unfold bindM at 1. rewrite Hsv. cbn iota beta.
    split; [reflexivity|].
    split; [destruct Hmk5 as [x Hx]; exists x; rewrite (Hf6 mk (not_eq_sym Hrm)); exact Hx|].
    split; [destruct Hsk5 as [x Hx]; exists x; rewrite (Hf6 sk (not_eq_sym Hrs)); exact Hx|].
    split; [intros X; discriminate X|].
    split; [intros _; exists hr, x6; repeat split; assumption|].
    split; [intros k H1 H2 H3; rewrite (Hf6 k H3); apply Hfr5; assumption|].
    split; [congruence|]. congruence.
  - exists st5. subst rexp. cbn iota.
    split; [reflexivity|].
    split; [exact Hmk5|]. split; [exact Hsk5|].
    split; [intros _; apply Hfr5; assumption|].
    split; [intros X; congruence|].
    split; [intros k H1 H2 _; apply Hfr5; assumption|].
    split; assumption.
Qed.

(* ================= the memory side of a publish with history ================= *)
Definition s1_of (m : mstate) (c nonce : string) : mstream :=
  match sfind c (m_streams m) with Some s => s | None => stream_new nonce end.

Lemma take_lim_1 {A} (l : list A) : take_lim 1 l = firstn 1 l.
Proof. reflexivity. Qed.

Lemma hub_add_spec cfg m c data o nonce :
  let s1 := s1_of m c nonce in
  let skip := ((0 <? po_version o)%N && mem_skip (po_version o) (po_vepoch o) (ms_ver s1) (ms_vepoch s1))%bool in
  exists m',
    m_cache m' = m_cache m /\ m_now m' = m_now m /\
    if skip then
      hub_add cfg m c data o nonce = (m', (position s1, None, true)) /\
      (forall ch, sfind ch (m_streams m') = if String.eqb ch c then Some s1 else sfind ch (m_streams m))
    else
      let s' := fst (stream_add s1 data (po_size o) (po_version o) (po_vepoch o)) in
      hub_add cfg m c data o nonce =
        (m', (((ms_top s1 + 1)%N, ms_epoch s1), (if po_delta o then last_data (ms_items s1) else None), false)) /\
      (forall ch, sfind ch (m_streams m') = if String.eqb ch c then Some s' else sfind ch (m_streams m)).
Proof.
  cbn zeta. unfold s1_of, hub_add.
  (* state after the optional delta lookup *)
  set (mp := if po_delta o
             then let '(m', (pubs, _)) := hub_get cfg m c (mkHF None 1 true) (po_meta_ttl o) nonce in
                  (m', match pubs with (_, d) :: _ => Some d | [] => None end)
             else (m, None)).
  assert (Hmp : m_cache (fst mp) = m_cache m /\ m_now (fst mp) = m_now m /\
                snd mp = (if po_delta o then last_data (ms_items (s1_of m c nonce)) else None) /\
                (forall ch, sfind ch (m_streams (fst mp)) =
                   if (po_delta o && String.eqb ch c)%bool then Some (s1_of m c nonce) else sfind ch (m_streams m))).
  { unfold mp, s1_of. destruct (po_delta o); [|cbn; repeat split; reflexivity].
    rewrite hub_get_eq. cbn zeta.
    destruct (sfind c (m_streams m)) as [s|] eqn:Es.
    - cbn [fst snd]. rewrite set_removes_cache, set_removes_now. repeat split.
      + unfold hist_pubs. cbn [hf_since hf_limit hf_reverse Z.eqb].
        rewrite get_all by reflexivity. unfold last_data, take_lim. cbn [Z.ltb Z.compare Z.to_nat Pos.to_nat Pos.iter_op Nat.add].
        destruct (rev (ms_items s)) as [|[o0 d0] r]; reflexivity.
      + intros ch. rewrite set_removes_streams. cbn [andb].
        destruct (String.eqb ch c) eqn:E; [apply String.eqb_eq in E; subst; assumption|reflexivity].
    - cbn [fst snd]. unfold set_stream. cbn [m_cache m_now m_streams]. rewrite set_removes_cache, set_removes_now.
      repeat split.
      intros ch. rewrite set_removes_streams. cbn [andb].
      destruct (String.eqb ch c) eqn:E.
      + apply String.eqb_eq in E; subst. apply sfind_sput_same.
      + apply String.eqb_neq in E. apply sfind_sput_other. assumption. }
  destruct mp as [m1 prev]. cbn [fst snd] in Hmp. destruct Hmp as (Hc1 & Hn1 & Hprev & Hst1).
  pose proof (Hst1 c) as Hsc. rewrite String.eqb_refl, andb_true_r in Hsc.
  (* the skip decision only depends on the existing stream *)
  assert (Hskip : (if (0 <? po_version o)%N
                   then match sfind c (m_streams m1) with
                        | Some s => if ((String.eqb (po_vepoch o) "" || String.eqb (po_vepoch o) (ms_vepoch s))
                                        && (po_version o <=? ms_ver s)%N)%bool then Some (position s) else None
                        | None => None
                        end
                   else None) =
                  (if ((0 <? po_version o)%N && mem_skip (po_version o) (po_vepoch o) (ms_ver (s1_of m c nonce)) (ms_vepoch (s1_of m c nonce)))%bool
                   then Some (position (s1_of m c nonce)) else None)).
  { destruct (0 <? po_version o)%N eqn:Ev; [|reflexivity]. cbn [andb]. unfold mem_skip.
    rewrite Hsc. unfold s1_of. destruct (po_delta o); cbn iota.
    - destruct (sfind c (m_streams m)); reflexivity.
    - destruct (sfind c (m_streams m)) as [s|]; [reflexivity|].
      cbn [ms_ver ms_vepoch stream_new]. apply N.ltb_lt in Ev.
      replace (po_version o <=? 0)%N with false by (symmetry; apply N.leb_gt; lia). rewrite andb_false_r. reflexivity. }
  fold (s1_of m c nonce). rewrite Hskip.
  destruct ((0 <? po_version o)%N && mem_skip _ _ _ _)%bool eqn:Esk.
  - exists m1. split; [assumption|]. split; [assumption|]. split; [reflexivity|].
    intros ch. rewrite Hst1.
    (* skipping implies the stream existed *)
    assert (Hex : sfind c (m_streams m) = Some (s1_of m c nonce)).
    { unfold s1_of in *. destruct (sfind c (m_streams m)) as [s|]; [reflexivity|].
      apply andb_true_iff in Esk as [A B]. unfold mem_skip in B. cbn [ms_ver stream_new] in B.
      apply N.ltb_lt in A. apply andb_true_iff in B as [_ B]. apply N.leb_le in B. lia. }
    destruct (String.eqb ch c) eqn:E.
    + apply String.eqb_eq in E. subst. rewrite andb_true_r. destruct (po_delta o); [reflexivity|assumption].
    + rewrite andb_false_r. reflexivity.
  - set (m2 := mkM (m_streams m1) (sput c (now_s m1 + Z.to_N (po_ttl o))%N (m_expires m1)) (m_removes m1) (m_cache m1) (m_now m1)).
    set (m3 := set_removes cfg m2 c (po_meta_ttl o)).
    assert (Hst3 : m_streams m3 = m_streams m1) by (unfold m3; rewrite set_removes_streams; reflexivity).
    assert (Hc3 : m_cache m3 = m_cache m) by (unfold m3; rewrite set_removes_cache; exact Hc1).
    assert (Hn3 : m_now m3 = m_now m) by (unfold m3; rewrite set_removes_now; exact Hn1).
    rewrite Hst3.
    assert (Hs1 : match sfind c (m_streams m1) with Some s => s | None => stream_new nonce end = s1_of m c nonce).
    { rewrite Hsc. unfold s1_of. destruct (po_delta o); [reflexivity|]. destruct (sfind c (m_streams m)); reflexivity. }
    rewrite Hs1.
    destruct (stream_add (s1_of m c nonce) data (po_size o) (po_version o) (po_vepoch o)) as [s' off] eqn:Eadd.
    exists (set_stream m3 c s'). unfold set_stream. cbn [m_cache m_now m_streams fst].
    split; [assumption|]. split; [assumption|]. split.
    + unfold stream_add in Eadd. injection Eadd as <- <-. cbn [ms_epoch]. rewrite Hprev. reflexivity.
    + intros ch. rewrite Hst3. destruct (String.eqb ch c) eqn:E.
      * apply String.eqb_eq in E. subst. apply sfind_sput_same.
      * apply String.eqb_neq in E. rewrite sfind_sput_other by assumption. rewrite Hst1.
        apply String.eqb_neq in E. rewrite E, andb_false_r. reflexivity.
Qed.

(* ================= Go side: parsing the script reply ================= *)
Lemma parse_pub_ok top e : (top < BOUND)%N ->
  parse_publish_reply (RArr [RInt (Z.of_N top); RBulk e; RBulk "0"; RBulk "0"]) = ResPublish top e false 0.
Proof. intros H. unfold parse_publish_reply. cbn. rewrite wrap64_small by (unfold BOUND, two64 in *; lia). reflexivity. Qed.
Lemma parse_pub_skip top e : (top < BOUND)%N ->
  parse_publish_reply (RArr [RInt (Z.of_N top); RBulk e; RBulk "0"; RBulk "1"]) = ResPublish top e true 2.
Proof. intros H. unfold parse_publish_reply. cbn. rewrite wrap64_small by (unfold BOUND, two64 in *; lia). reflexivity. Qed.
Lemma parse_pub_cached off ep : (off < BOUND)%N ->
  parse_publish_reply (RArr [RBulk (dec off); RBulk ep; RBulk "1"; RBulk "0"]) = ResPublish off ep true 1.
Proof.
  intros H. unfold parse_publish_reply. cbn [as_array List.length Nat.eqb orb negb nth as_int64 to_string Nat.leb].
  unfold parse_int64. rewrite parse_goint_dec. unfold int64_ok, BOUND in *.
  replace (-9223372036854775808 <=? Z.of_N off)%Z with true by (symmetry; apply Z.leb_le; lia).
  replace (Z.of_N off <=? 9223372036854775807)%Z with true by (symmetry; apply Z.leb_le; lia).
  cbn. rewrite wrap64_small by (unfold two64; lia). reflexivity.
Qed.

(* ================= state after ensuring the meta hash exists ================= *)
Lemma pre_state U P rs ms c nonce :
  keys_ok U P -> In c U -> R U P rs ms -> nonce_ok nonce = true ->
  let s1 := s1_of ms c nonce in
  let st0 := clear_outbox rs in
  exists st1 h1 x1,
    current_epoch (meta_key false c) nonce st0 = (st1, inl (ms_epoch s1)) /\
    getk st1 (meta_key false c) = Some (mkKey (VHash h1) x1) /\
    hash_ok h1 (ms_epoch s1) (ms_top s1) (ms_ver s1) (ms_vepoch s1) /\
    strm_rel st1 c (ms_items s1) (ms_top s1) /\
    (forall k, k <> meta_key false c -> getk st1 k = getk rs k) /\
    now st1 = now rs /\ outbox st1 = [] /\ stream_inv s1.
Proof.
  intros HK Hc HR Hn. cbn zeta. unfold s1_of.
  pose proof (R_chan _ _ _ _ HR c Hc) as Hrel.
  assert (Hsm : stream_key c <> meta_key false c) by (apply (K_sm _ _ HK); assumption).
  destruct (sfind c (m_streams ms)) as [s|] eqn:Es.
  - destruct Hrel as [Hm Hs]. apply meta_rel_hash in Hm as (h & x & Hg & Hh).
    exists (clear_outbox rs), h, x.
    split; [destruct Hh as (He & _); apply (cur_epoch_some (meta_key false c) nonce (clear_outbox rs) h x _ Hg He)|].
    split; [exact Hg|]. split; [exact Hh|]. split; [exact Hs|]. split; [reflexivity|].
    split; [reflexivity|]. split; [reflexivity|]. apply (R_inv _ _ _ _ HR c). assumption.
  - destruct Hrel as [Hm Hs].
    exists (setval (clear_outbox rs) (meta_key false c) (VHash [("e", nonce)])), [("e", nonce)], None.
    split; [apply cur_epoch_none; assumption|].
    split; [rewrite getk_setval_same; change (getk (clear_outbox rs) (meta_key false c)) with (getk rs (meta_key false c)); rewrite Hm; reflexivity|].
    split; [apply hash_ok_new|].
    split; [unfold strm_rel; cbn [ms_items stream_new]; rewrite getk_setval_other by assumption; exact Hs|].
    split; [intros k Hk; rewrite getk_setval_other by assumption; reflexivity|].
    split; [reflexivity|]. split; [reflexivity|]. apply stream_inv_new. assumption.
Qed.

(* ================= idempotency bookkeeping ================= *)
Definition rzo_of (o : popts) : option Z :=
  if String.eqb (po_idem o) "" then None
  else Some (if (po_idem_ttl o =? 0)%Z then default_idem_ttl else po_idem_ttl o).

Lemma result_expire_rzo o : result_expire o = match rzo_of o with Some rz => itoa rz | None => "" end.
Proof. unfold result_expire, rzo_of. destruct (String.eqb (po_idem o) ""); [reflexivity|]. destruct (po_idem_ttl o =? 0)%Z; reflexivity. Qed.

Lemma rzo_range o rz : small (po_idem_ttl o) = true -> rzo_of o = Some rz -> (0 < rz < 2147483648)%Z.
Proof.
  intros Hs. apply small_range in Hs. unfold rzo_of. destruct (String.eqb (po_idem o) ""); [discriminate|].
  destruct (po_idem_ttl o =? 0)%Z eqn:E; intros X; injection X as <-; [unfold default_idem_ttl; lia|].
  apply Z.eqb_neq in E. lia.
Qed.

Lemma cache_save_none m c o pos : po_idem o = "" -> cache_save m c o pos = m.
Proof. intros H. unfold cache_save. rewrite H. reflexivity. Qed.

Lemma cache_get_save_same m c o pos rz :
  m_now m = 0%N -> rzo_of o = Some rz -> (0 < rz)%Z ->
  cache_get (cache_save m c o pos) c (po_idem o) = Some pos.
Proof.
  intros Hn Hr Hrz. unfold rzo_of in Hr. unfold cache_save, cache_get.
  destruct (String.eqb (po_idem o) "") eqn:E; [discriminate|]. injection Hr as Hr.
  cbn [m_cache m_now]. rewrite sfind_sput_same. rewrite Hn. rewrite Hr.
  replace (Z.to_N (Z.of_N 0 + rz * 1000) <=? 0)%N with false by (symmetry; apply N.leb_gt; lia).
  destruct pos; reflexivity.
Qed.

Lemma cache_get_save_other m c o pos ch' k' :
  cache_key ch' k' <> cache_key c (po_idem o) -> cache_get (cache_save m c o pos) ch' k' = cache_get m ch' k'.
Proof.
  intros Hne. unfold cache_save, cache_get. destruct (String.eqb (po_idem o) ""); [reflexivity|].
  cbn [m_cache m_now]. rewrite sfind_sput_other by assumption. reflexivity.
Qed.

Lemma publish_args_eq cfg c data o nonce :
  c_lists cfg = false ->
  publish_args cfg c data o nonce =
    [marshal data false; itoa (po_size o); itoa (po_ttl o); message_channel c;
     itoa (meta_ttl_of cfg (po_meta_ttl o)); nonce; "publish"; result_expire o;
     if po_delta o then "1" else ""; vstr (po_version o); po_vepoch o].
Proof. intros H. unfold publish_args. rewrite H. reflexivity. Qed.
