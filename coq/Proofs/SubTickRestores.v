(* C06, direction "no missing entry": from a state at rest (not closed), one presence tick that
   runs alone and whose AddPresence calls succeed brings the presence sets in line with the
   subscriptions; together with SubPresInv: afterwards  in presence <-> subscribed with presence. *)
From Coq Require Import List NArith ZArith Bool Lia.
From Cfg Require Import Model.SubLifecycle Proofs.SubLifecycleLib Proofs.SubRoute Proofs.SubRouteStep
  Proofs.SubRouteSettled Proofs.SubPresInv Proofs.SubFlags.
Import ListNotations.
Open Scope N_scope.

Ltac coret :=
  unfold spawn_int, submit_job, thr_set, thr_del, log, set_gst1 in *;
  cbn [thr chans pres status closing pinfl pmu authed hreg next_int next_ext
       set_status set_authed set_closing set_chans set_genctr set_gclosed set_cmu set_pmu set_pinfl
       set_kstarted set_slock set_hub set_others set_reg set_pres set_bsub set_jobs set_gconn set_gsub
       set_trace set_thr set_next_ext set_next_int set_panicked set_wclosed set_hreg set_shut set_gst] in *.

Definition stp (t : tid) : label := LStep t true.

Record Tk (s0 σ : st) (t : tid) (k : trec) : Prop := {
  tk_thr : thr σ t = Some (TTck k);
  tk_oth : forall t0, t0 <> t -> thr σ t0 = None;
  tk_chans : chans σ = chans s0;
  tk_closing : closing σ = false;
  tk_status : status σ = status s0
}.

Lemma exec_app a b s : exec (a ++ b) s = match exec a s with Some s1 => exec b s1 | None => None end.
Proof. revert s. induction a as [|x a IH]; intros s; cbn; auto. destruct (astep s x); auto. Qed.

Lemma no_timeout_app a b : no_timeout (a ++ b) = no_timeout a && no_timeout b.
Proof. unfold no_timeout. apply forallb_app. Qed.

(* one tick thread step, given its record *)
Lemma tk_step s0 σ t k σ' :
  Tk s0 σ t k -> tck_step σ t k true = Some σ' -> forall rest, exec (stp t :: rest) σ = exec rest σ'.
Proof.
  intros T H rest. cbn [exec astep stp]. unfold step_thread. rewrite (tk_thr _ _ _ _ T), H. reflexivity.
Qed.

Lemma two_steps s0 σ t c r added :
  Tk s0 σ t (mkT TCheck (c :: r) added []) -> lookup (fst c) (chans s0) <> None ->
  exists σ', (forall rest, exec (stp t :: stp t :: rest) σ = exec rest σ') /\
             Tk s0 σ' t (mkT TCheck r (c :: added) []) /\
             (forall c0, pres σ' c0 = true <-> pres σ c0 = true \/ c0 = fst c).
Proof.
  intros T L.
  destruct (lookup (fst c) (chans s0)) as [x|] eqn:EL; [|congruence].
  set (σ1 := thr_set t (TTck (mkT TAdd (c :: r) added [])) σ).
  assert (S1 : tck_step σ t (mkT TCheck (c :: r) added []) true = Some σ1).
  { unfold tck_step. cbn [t_pc t_todo t_added]. rewrite (tk_closing _ _ _ _ T), (tk_chans _ _ _ _ T), EL. reflexivity. }
  assert (T1 : Tk s0 σ1 t (mkT TAdd (c :: r) added [])).
  { destruct T. constructor; unfold σ1; coret; auto.
    - apply upd_same.
    - intros t0 NE. rewrite upd_other; auto. }
  set (σ2 := thr_set t (TTck (mkT TCheck r (c :: added) [])) (set_pres (upd (pres σ1) (fst c) true) σ1)).
  assert (S2 : tck_step σ1 t (mkT TAdd (c :: r) added []) true = Some σ2) by reflexivity.
  exists σ2. split; [|split].
  - intros rest. rewrite (tk_step _ _ _ _ _ T S1), (tk_step _ _ _ _ _ T1 S2). reflexivity.
  - destruct T1. constructor; unfold σ2; coret; auto.
    + apply upd_same.
    + intros t0 NE. rewrite upd_other; auto.
  - intros c0. unfold σ2, σ1. coret. unfold upd. destruct (N.eqb_spec c0 (fst c)); intuition.
Qed.

Fixpoint loop_sched (t : tid) (n : nat) : list label :=
  match n with O => [] | S n => stp t :: stp t :: loop_sched t n end.

Lemma loop_run s0 t : forall todo added σ,
  Tk s0 σ t (mkT TCheck todo added []) ->
  (forall p, In p todo -> lookup (fst p) (chans s0) <> None) ->
  exists σ', (forall rest, exec (loop_sched t (length todo) ++ rest) σ = exec rest σ') /\
             Tk s0 σ' t (mkT TCheck [] (rev todo ++ added) []) /\
             (forall c0, pres σ' c0 = true <-> pres σ c0 = true \/ In c0 (map fst todo)).
Proof.
  induction todo as [|c r IH]; intros added σ T L.
  - exists σ. cbn. split; [auto|split; [auto|]]. intros c0. tauto.
  - destruct (two_steps _ _ _ _ _ _ T (L c (or_introl eq_refl))) as (σ1 & E1 & T1 & P1).
    destruct (IH (c :: added) σ1 T1 (fun p I => L p (or_intror I))) as (σ2 & E2 & T2 & P2).
    exists σ2. split; [|split].
    + intros rest. cbn [length loop_sched app]. rewrite E1. apply E2.
    + cbn [rev]. rewrite <- app_assoc. exact T2.
    + intros c0. rewrite P2, P1. cbn. intuition.
Qed.

Lemma raced_none σ l :
  (forall p, In p l -> exists x, lookup (fst p) (chans σ) = Some x /\ c_gen x = snd p) -> raced_items σ l = [].
Proof.
  unfold raced_items. induction l as [|p l IH]; intros H; [reflexivity|]. cbn [filter].
  destruct (H p (or_introl eq_refl)) as (x & L & G).
  match goal with |- context [lookup ?a ?b] =>
    assert (L' : lookup a b = Some x) by exact L; rewrite L' end.
  match goal with |- context [c_gen x =? ?b] =>
    assert (G' : c_gen x = b) by exact G; rewrite G' end.
  rewrite N.eqb_refl. cbn [negb].
  apply IH. intros q I. apply H. right. auto.
Qed.

Lemma pres_items_in m p : NoDup (keys m) -> In p (pres_items m) ->
  exists x, lookup (fst p) m = Some x /\ c_gen x = snd p /\ c_sub x = true /\ o_pres (c_opts x) = true.
Proof.
  unfold pres_items. intros ND IN. apply in_map_iff in IN. destruct IN as ([c y] & <- & F).
  apply filter_In in F. destruct F as [IN F]. cbn in *. apply andb_true_iff in F.
  exists y. split; [apply in_lookup; auto|tauto].
Qed.

Lemma lookup_in {V} c (x : V) m : lookup c m = Some x -> In (c, x) m.
Proof.
  induction m as [|[a v] m IH]; cbn; [discriminate|]. destruct (N.eqb_spec c a).
  - intros E. inv E. auto.
  - auto.
Qed.

Lemma live_in_items s c : live_pres s c -> In c (map fst (pres_items (chans s))).
Proof.
  intros (x & L & S & P). unfold pres_items. rewrite map_map. cbn. apply in_map_iff. exists (c, x). split; auto.
  apply filter_In. split; [apply lookup_in; auto|]. cbn. rewrite S, P. reflexivity.
Qed.

Definition tick_sched (t : tid) (n : nat) : list label :=
  [LSpawn OTick; stp t; stp t; stp t; stp t] ++ loop_sched t n ++ [stp t; stp t; stp t; stp t].

Lemma loop_no_timeout t n : no_timeout (loop_sched t n) = true.
Proof. induction n; cbn; auto. Qed.

Theorem tick_restores sched s :
  no_timeout sched = true -> exec sched init = Some s -> settled s ->
  authed s = true -> status s <> Closed ->
  exists tick s', no_timeout tick = true /\ exec tick s = Some s' /\ settled s' /\ chans s' = chans s /\
                  forall c, pres s' c = true <-> live_pres s' c.
Proof.
  intros NT E ST AU NC.
  destruct (settled_flags _ _ E ST) as (PM & PF & CL).
  assert (CLF : closing s = false) by (destruct (closing s); auto; destruct (NC (CL eq_refl))).
  assert (PI : PInv s) by (eapply exec_P; eauto; [apply Inv_init|apply PInv_init]).
  assert (NCL : is_closed (status s) = false) by (destruct (status s); auto; congruence).
  set (t := 2 * next_ext s).
  set (n := length (pres_items (chans s))).
  exists (tick_sched t n).
  (* prefix *)
  set (s1 := thr_set t (TTck (mkT TCas [] [] [])) (set_next_ext (next_ext s + 1) s)).
  assert (E1 : astep s (LSpawn OTick) = Some s1) by (cbn; rewrite AU; reflexivity).
  assert (T1 : Tk s s1 t (mkT TCas [] [] [])).
  { constructor; unfold s1; coret; auto. apply upd_same. intros t0 NE. rewrite upd_other; auto. }
  set (s2 := thr_set t (TTck (mkT TLock [] [] [])) (set_pinfl true s1)).
  assert (S2 : tck_step s1 t (mkT TCas [] [] []) true = Some s2)
    by (unfold tck_step; cbn [t_pc]; unfold s1 at 1; coret; rewrite PF; reflexivity).
  assert (T2 : Tk s s2 t (mkT TLock [] [] [])).
  { destruct T1. constructor; unfold s2; coret; auto. apply upd_same. intros t0 NE. rewrite upd_other; auto. }
  set (s3 := thr_set t (TTck (mkT TSnap [] [] [])) (set_pmu true s2)).
  assert (S3 : tck_step s2 t (mkT TLock [] [] []) true = Some s3)
    by (unfold tck_step; cbn [t_pc]; unfold s2 at 1, s1 at 1; coret; rewrite PM; reflexivity).
  assert (T3 : Tk s s3 t (mkT TSnap [] [] [])).
  { destruct T2. constructor; unfold s3; coret; auto. apply upd_same. intros t0 NE. rewrite upd_other; auto. }
  set (s4 := thr_set t (TTck (mkT TAlive (pres_items (chans s3)) [] [])) s3).
  assert (S4 : tck_step s3 t (mkT TSnap [] [] []) true = Some s4)
    by (unfold tck_step; cbn [t_pc]; rewrite (tk_status _ _ _ _ T3), NCL; reflexivity).
  assert (T4 : Tk s s4 t (mkT TAlive (pres_items (chans s)) [] [])).
  { unfold s4. rewrite (tk_chans _ _ _ _ T3). destruct T3.
    constructor; coret; auto. apply upd_same. intros t0 NE. rewrite upd_other; auto. }
  set (s5 := thr_set t (TTck (mkT TCheck (pres_items (chans s)) [] [])) (if hreg s4 then log EvAliveCb s4 else s4)).
  assert (S5 : tck_step s4 t (mkT TAlive (pres_items (chans s)) [] []) true = Some s5) by reflexivity.
  assert (T5 : Tk s s5 t (mkT TCheck (pres_items (chans s)) [] [])).
  { destruct T4. unfold s5. destruct (hreg s4); constructor; coret; auto;
      try apply upd_same; intros t0 NE; rewrite upd_other; auto. }
  assert (P5 : forall c, pres s5 c = pres s c).
  { intros c. unfold s5. destruct (hreg s4); unfold s4, s3, s2, s1; coret; reflexivity. }
  (* loop *)
  assert (ITEMS : forall p, In p (pres_items (chans s)) ->
            exists x, lookup (fst p) (chans s) = Some x /\ c_gen x = snd p /\ c_sub x = true /\ o_pres (c_opts x) = true).
  { intros p IN. apply pres_items_in; auto. apply PI. }
  destruct (loop_run s t (pres_items (chans s)) [] s5 T5) as (s6 & E6 & T6 & P6).
  { intros p IN. destruct (ITEMS p IN) as (x & L & _). congruence. }
  rewrite app_nil_r in T6.
  (* suffix *)
  set (added := rev (pres_items (chans s))) in *.
  set (s7 := thr_set t (TTck (mkT TComp [] added [])) s6).
  assert (S7 : tck_step s6 t (mkT TCheck [] added []) true = Some s7) by reflexivity.
  assert (T7 : Tk s s7 t (mkT TComp [] added [])).
  { destruct T6. constructor; unfold s7; coret; auto. apply upd_same. intros t0 NE. rewrite upd_other; auto. }
  assert (RC : raced_items s7 added = []).
  { apply raced_none. intros p IN. rewrite (tk_chans _ _ _ _ T7).
    destruct (ITEMS p) as (x & L & G & _); [apply in_rev; exact IN|]. eauto. }
  set (s8 := thr_set t (TTck (mkT TCompRem [] [] [])) s7).
  assert (S8 : tck_step s7 t (mkT TComp [] added []) true = Some s8)
    by (unfold tck_step; cbn [t_pc t_added]; rewrite RC; reflexivity).
  assert (T8 : Tk s s8 t (mkT TCompRem [] [] [])).
  { destruct T7. constructor; unfold s8; coret; auto. apply upd_same. intros t0 NE. rewrite upd_other; auto. }
  set (s9 := thr_set t (TTck (mkT TEnd [] [] [])) s8).
  assert (S9 : tck_step s8 t (mkT TCompRem [] [] []) true = Some s9) by reflexivity.
  assert (T9 : Tk s s9 t (mkT TEnd [] [] [])).
  { destruct T8. constructor; unfold s9; coret; auto. apply upd_same. intros t0 NE. rewrite upd_other; auto. }
  set (s10 := thr_del t (set_pinfl false (set_pmu false s9))).
  assert (S10 : tck_step s9 t (mkT TEnd [] [] []) true = Some s10) by reflexivity.
  exists s10.
  assert (RUN : exec (tick_sched t n) s = Some s10).
  { unfold tick_sched. cbn [app].
    assert (EC : forall x l s0, exec (x :: l) s0 = match astep s0 x with Some s' => exec l s' | None => None end)
      by reflexivity.
    rewrite EC, E1.
    rewrite (tk_step _ _ _ _ _ T1 S2), (tk_step _ _ _ _ _ T2 S3), (tk_step _ _ _ _ _ T3 S4), (tk_step _ _ _ _ _ T4 S5).
    unfold n. rewrite E6.
    rewrite (tk_step _ _ _ _ _ T6 S7), (tk_step _ _ _ _ _ T7 S8), (tk_step _ _ _ _ _ T8 S9), (tk_step _ _ _ _ _ T9 S10).
    reflexivity. }
  assert (ST' : settled s10).
  { intros t0. unfold s10. coret. unfold upd. destruct (N.eqb_spec t0 t); auto. apply (tk_oth _ _ _ _ T9). auto. }
  assert (CH : chans s10 = chans s) by (unfold s10; coret; apply (tk_chans _ _ _ _ T9)).
  assert (NTT : no_timeout (tick_sched t n) = true).
  { unfold tick_sched. rewrite !no_timeout_app, loop_no_timeout. reflexivity. }
  split; [exact NTT|]. split; [exact RUN|]. split; [exact ST'|]. split; [exact CH|].
  intros c. split.
  - intros PR. eapply (presence_settled (sched ++ tick_sched t n)); eauto.
    + rewrite no_timeout_app, NT, NTT. reflexivity.
    + rewrite exec_app, E. exact RUN.
  - intros LV. assert (LV0 : live_pres s c) by (eapply live_same; [|exact LV]; symmetry; exact CH).
    assert (P10 : pres s10 c = pres s6 c) by (unfold s10, s9, s8, s7; coret; reflexivity).
    rewrite P10. apply P6. right. apply live_in_items. auto.
Qed.
