(* Proofs about CRC16 (Model/Crc16.v): both Go algorithms equal the bit-serial
   CRC-16/XMODEM specification on ALL byte strings. *)
From Coq Require Import List NArith Bool Lia ZifyN ZifyBool.
From Cfg Require Import Model.Crc16.
Import ListNotations.
Open Scope N_scope.

(* ---------------- finite ranges ---------------- *)
Fixpoint nrange_from (k : nat) (s : N) : list N :=
  match k with O => [] | S k' => s :: nrange_from k' (s + 1) end.
Definition nrange (k : N) : list N := nrange_from (N.to_nat k) 0.

Lemma in_nrange_from : forall k s c, s <= c -> c < s + N.of_nat k -> In c (nrange_from k s).
Proof.
  induction k as [|k IH]; intros s c H1 H2; [lia|]. cbn [nrange_from].
  destruct (N.eq_dec s c); [left; assumption|right]. apply IH; lia.
Qed.

Lemma in_nrange : forall k c, c < k -> In c (nrange k).
Proof. intros k c H. apply in_nrange_from; [lia|]. rewrite N2Nat.id. lia. Qed.

Lemma forall_below : forall (P : N -> bool) k,
  forallb P (nrange k) = true -> forall c, c < k -> P c = true.
Proof. intros P k H c Hc. rewrite forallb_forall in H. apply H, in_nrange, Hc. Qed.

(* ---------------- xor algebra ---------------- *)
Lemma land_lxor_l : forall a b m, N.land (N.lxor a b) m = N.lxor (N.land a m) (N.land b m).
Proof.
  intros. apply N.bits_inj. intro n.
  rewrite N.land_spec, !N.lxor_spec, !N.land_spec.
  destruct (N.testbit a n), (N.testbit b n), (N.testbit m n); reflexivity.
Qed.

Lemma lxor_4 : forall a b p q, N.lxor (N.lxor a b) (N.lxor p q) = N.lxor (N.lxor a p) (N.lxor b q).
Proof.
  intros. rewrite !N.lxor_assoc. f_equal. rewrite <- !N.lxor_assoc. f_equal. apply N.lxor_comm.
Qed.

Lemma lxor_lt_pow2 : forall a b n, a < 2 ^ n -> b < 2 ^ n -> N.lxor a b < 2 ^ n.
Proof.
  intros a b n Ha Hb.
  destruct (N.eq_dec (N.lxor a b) 0) as [Z|NZ]; [rewrite Z; lia|].
  apply N.log2_lt_pow2; [lia|].
  pose proof (N.log2_lxor a b) as L.
  assert (forall x, x < 2 ^ n -> x <> 0 -> N.log2 x < n) as LG
    by (intros x Hx Hx0; apply N.log2_lt_pow2; lia).
  destruct (N.eq_dec a 0) as [A0|A0]; destruct (N.eq_dec b 0) as [B0|B0]; subst;
    rewrite ?N.lxor_0_l, ?N.lxor_0_r in *; try lia.
  - apply LG; assumption.
  - apply LG; assumption.
  - pose proof (LG a Ha A0). pose proof (LG b Hb B0). lia.
Qed.

(* ---------------- the shift register step is linear over xor ---------------- *)
Definition sh (x : N) : N := N.land (N.shiftl x 1) mask16.
Definition pick (t : bool) : N := if t then poly else 0.

Lemma sh_lxor : forall a b, sh (N.lxor a b) = N.lxor (sh a) (sh b).
Proof. intros. unfold sh. rewrite N.shiftl_lxor. apply land_lxor_l. Qed.

Lemma go_shift_eq : forall c, go_shift c = N.lxor (sh c) (pick (N.testbit c 15)).
Proof.
  intro c. unfold go_shift, sh, pick. destruct (N.testbit c 15); [reflexivity|].
  now rewrite N.lxor_0_r.
Qed.

Lemma pick_xorb : forall x y, pick (xorb x y) = N.lxor (pick x) (pick y).
Proof. intros [] []; reflexivity. Qed.

Lemma go_shift_lin : forall a b, go_shift (N.lxor a b) = N.lxor (go_shift a) (go_shift b).
Proof.
  intros. rewrite !go_shift_eq, sh_lxor, N.lxor_spec, pick_xorb. apply lxor_4.
Qed.

Lemma iter_lin : forall k a b,
  Nat.iter k go_shift (N.lxor a b) = N.lxor (Nat.iter k go_shift a) (Nat.iter k go_shift b).
Proof.
  induction k as [|k IH]; intros; [reflexivity|].
  change (Nat.iter (S k) go_shift (N.lxor a b)) with (go_shift (Nat.iter k go_shift (N.lxor a b))).
  rewrite IH. apply go_shift_lin.
Qed.

Lemma iter_S_inner : forall k c, Nat.iter (S k) go_shift c = Nat.iter k go_shift (go_shift c).
Proof.
  induction k as [|k IH]; intro c; [reflexivity|].
  change (Nat.iter (S (S k)) go_shift c) with (go_shift (Nat.iter (S k) go_shift c)).
  rewrite IH. reflexivity.
Qed.

(* one specification step = one register step after injecting the message
   bit at the top *)
Definition inj (m : bool) : N := if m then 32768 else 0.

Lemma spec_bit_eq : forall c m, spec_bit c m = go_shift (N.lxor c (inj m)).
Proof.
  intros c m. rewrite go_shift_lin. unfold spec_bit.
  change (N.land (N.shiftl c 1) mask16) with (sh c).
  replace (go_shift (inj m)) with (pick m) by (destruct m; reflexivity).
  rewrite go_shift_eq, N.lxor_assoc, <- pick_xorb.
  destruct (xorb (N.testbit c 15) m); cbn [pick]; [reflexivity|now rewrite N.lxor_0_r].
Qed.

Lemma spec_bits_lin : forall ms c,
  spec_bits c ms = N.lxor (Nat.iter (length ms) go_shift c) (spec_bits 0 ms).
Proof.
  induction ms as [|m ms IH]; intro c; cbn [spec_bits fold_left length].
  - cbn. now rewrite N.lxor_0_r.
  - change (fold_left spec_bit ms (spec_bit c m)) with (spec_bits (spec_bit c m) ms).
    change (fold_left spec_bit ms (spec_bit 0 m)) with (spec_bits (spec_bit 0 m) ms).
    rewrite (IH (spec_bit c m)), (IH (spec_bit 0 m)).
    rewrite !spec_bit_eq, N.lxor_0_l, go_shift_lin, iter_lin, iter_S_inner.
    now rewrite N.lxor_assoc.
Qed.

(* the byte xored into the high half: 256 cases *)
Definition byte0_check : bool :=
  forallb (fun b => Nat.iter 8 go_shift (N.shiftl b 8) =? spec_bits 0 (bits_of_byte b)) (nrange 256).

Lemma byte0_ok : byte0_check = true.
Proof. vm_compute. reflexivity. Qed.

Lemma byte0 : forall b, b < 256 -> Nat.iter 8 go_shift (N.shiftl b 8) = spec_bits 0 (bits_of_byte b).
Proof. intros b H. apply N.eqb_eq. exact (forall_below _ _ byte0_ok b H). Qed.

Lemma go_byte_spec : forall c b, b < 256 -> go_byte c b = spec_bits c (bits_of_byte b).
Proof.
  intros c b H. unfold go_byte. rewrite iter_lin, byte0 by assumption.
  rewrite (spec_bits_lin (bits_of_byte b) c). reflexivity.
Qed.

Lemma spec_bits_app : forall a b c, spec_bits c (a ++ b) = spec_bits (spec_bits c a) b.
Proof. intros. unfold spec_bits. apply fold_left_app. Qed.

Lemma loop_spec_from : forall bs c,
  Forall (fun b => b < 256) bs ->
  fold_left go_byte bs c = spec_bits c (concat (map bits_of_byte bs)).
Proof.
  induction bs as [|b bs IH]; intros c F; [reflexivity|].
  inversion F; subst. cbn [fold_left map concat].
  rewrite spec_bits_app, <- go_byte_spec by assumption. apply IH; assumption.
Qed.

Theorem crc16_loop_spec : forall bs, Forall (fun b => b < 256) bs -> crc16_loop bs = crc16_spec bs.
Proof. intros. apply loop_spec_from; assumption. Qed.

(* ---------------- 16-bit range ---------------- *)
Definition word_check : bool :=
  forallb (fun c =>
    (c =? N.lxor (N.shiftl (N.shiftr c 8) 8) (N.land c 255)) &&
    (N.land (N.shiftl c 8) mask16 =? N.shiftl (N.land c 255) 8) &&
    (go_shift c <? 65536) &&
    (N.land (N.shiftr c 8) 255 =? N.shiftr c 8) && (N.shiftr c 8 <? 256) && (N.land c 255 <? 256))
  (nrange 65536).

Lemma word_ok : word_check = true.
Proof. vm_compute. reflexivity. Qed.

Lemma word_facts : forall c, c < 65536 ->
  c = N.lxor (N.shiftl (N.shiftr c 8) 8) (N.land c 255) /\
  N.land (N.shiftl c 8) mask16 = N.shiftl (N.land c 255) 8 /\
  go_shift c < 65536 /\
  N.land (N.shiftr c 8) 255 = N.shiftr c 8 /\ N.shiftr c 8 < 256 /\ N.land c 255 < 256.
Proof.
  intros c H. pose proof (forall_below _ _ word_ok c H) as W. cbv beta in W.
  repeat (apply andb_prop in W; destruct W as [W ?]).
  repeat split; try (apply N.eqb_eq; assumption); try (apply N.ltb_lt; assumption).
Qed.

Lemma iter_lt : forall k c, c < 65536 -> Nat.iter k go_shift c < 65536.
Proof.
  induction k as [|k IH]; intros c H; cbn [Nat.iter]; [assumption|].
  apply word_facts, IH, H.
Qed.

Lemma go_byte_lt : forall c b, c < 65536 -> b < 256 -> go_byte c b < 65536.
Proof.
  intros c b Hc Hb. unfold go_byte. apply iter_lt.
  change 65536 with (2 ^ 16). apply lxor_lt_pow2; [exact Hc|].
  rewrite N.shiftl_mul_pow2. change (2 ^ 16) with (256 * 2 ^ 8). apply N.mul_lt_mono_pos_r; lia.
Qed.

Lemma fold_go_byte_lt : forall bs c, c < 65536 -> Forall (fun b => b < 256) bs ->
  fold_left go_byte bs c < 65536.
Proof.
  induction bs as [|b bs IH]; intros c Hc F; cbn [fold_left]; [assumption|].
  inversion F; subst. apply IH; [apply go_byte_lt|]; assumption.
Qed.

Theorem crc16_loop_lt : forall bs, Forall (fun b => b < 256) bs -> crc16_loop bs < 65536.
Proof. intros. apply fold_go_byte_lt; [lia|assumption]. Qed.

(* ---------------- the table walk ---------------- *)
Definition low_check : bool :=
  forallb (fun x => Nat.iter 8 go_shift x =? N.shiftl x 8) (nrange 256).
Lemma low_ok : low_check = true.
Proof. vm_compute. reflexivity. Qed.

(* a table is right when entry x is the register after clocking byte x through *)
Definition tab_check (tab : list N) : bool :=
  (N.of_nat (length tab) =? 256) &&
  forallb (fun x => nth (N.to_nat x) tab 0 =? Nat.iter 8 go_shift (N.shiftl x 8)) (nrange 256).

Lemma tab_byte_go : forall tab c b, tab_check tab = true -> c < 65536 -> b < 256 ->
  tab_byte tab c b = go_byte c b.
Proof.
  intros tab c b T Hc Hb. apply andb_prop in T. destruct T as [_ T].
  destruct (word_facts c Hc) as (D & S8 & _ & HB & Hhi & Hlo).
  unfold tab_byte, go_byte. rewrite HB, S8.
  assert (X : N.lxor (N.shiftr c 8) b < 256)
    by (change 256 with (2 ^ 8); apply lxor_lt_pow2; assumption).
  pose proof (forall_below _ _ T _ X) as E. cbv beta in E. apply N.eqb_eq in E. rewrite E.
  rewrite D at 3.
  rewrite N.lxor_assoc, (N.lxor_comm (N.land c 255)), <- N.lxor_assoc, <- N.shiftl_lxor.
  rewrite iter_lin.
  pose proof (forall_below _ _ low_ok _ Hlo) as L. cbv beta in L. apply N.eqb_eq in L. rewrite L.
  apply N.lxor_comm.
Qed.

Lemma fold_tab_go : forall tab bs c, tab_check tab = true -> c < 65536 ->
  Forall (fun b => b < 256) bs -> fold_left (tab_byte tab) bs c = fold_left go_byte bs c.
Proof.
  induction bs as [|b bs IH]; intros c T Hc F; [reflexivity|].
  inversion F; subst. cbn [fold_left]. rewrite tab_byte_go by assumption.
  apply IH; [assumption|apply go_byte_lt; assumption|assumption].
Qed.

Theorem crc16_tab_spec : forall tab bs, tab_check tab = true ->
  Forall (fun b => b < 256) bs -> crc16_tab tab bs = crc16_spec bs.
Proof.
  intros. unfold crc16_tab. rewrite fold_tab_go by (assumption || lia).
  apply crc16_loop_spec; assumption.
Qed.

(* known answer: CRC-16/XMODEM("123456789") = 0x31C3 *)
Example crc16_check_value : crc16_spec [49; 50; 51; 52; 53; 54; 55; 56; 57] = 12739.
Proof. vm_compute. reflexivity. Qed.
