(* C01 / C10: once the subscription has been ended on the wire (unsubscribe reply or push,
   disconnect) no positioned publication push follows -- for all schedules.  Plus the
   "detection spawns the end" lemmas for the insufficient-state branches. *)
From Coq Require Import List NArith Bool Lia ZifyN ZifyNat ZifyBool Sorting.Sorted.
From Cfg Require Import Model.Merge Model.MergeSpec Proofs.Merge Model.Positioned Model.PositionedSpec
  Model.BracketSpec Proofs.PositionedLib Proofs.Positioned.
Import ListNotations.
Open Scope N_scope.

Definition has_end (l : list frame) : bool := existsb is_end l.

Definition sub_committed (p : spc) : bool :=
  match p with SCommitted | SSrvCommitted _ | SSrvStop | SDone => true | _ => false end.
Definition in_flight (p : spc) : bool :=
  match p with
  | SReserved | SBuffering | SHubAdded | SHist _ | SMerged _ | SReplied _ | SFailStop | SFailRollback => true
  | _ => false
  end.
Definition finished (p : spc) : bool := match p with SDone | SFailed => true | _ => false end.
Definition quiet (p : spc) : bool := match p with SIdle | SDone | SFailed => true | _ => false end.

Record EInv (c : cfg) (s : st) : Prop := {
  e_up_out : forall k, up s = UOut k -> hub s = false;
  e_up : up s <> UIdle -> finished (pc s) = true;
  e_noch : ch s = NoCh -> hub s = true -> exists k, up s = UHub k;
  e_flight : in_flight (pc s) = true -> ch s = Reserved;
  e_sub : forall pos pep, ch s = Sub pos pep -> sub_committed (pc s) = true;
  e_pending : pending s <> 0%nat -> pc s = SDone;
  e_cleanup : cleanup s = true -> quiet (pc s) = true /\ closed s = true;
  e_end : has_end (log s) = true -> closed s = true \/ (hub s = false /\ finished (pc s) = true);
  e_ok : no_push_after_end (log s) = true
}.

Lemma einv_init : forall c, EInv c init.
Proof.
  intros c. constructor; cbn; intros; try discriminate; try congruence; auto.
Qed.

Lemma has_end_app : forall a b, has_end (a ++ b) = (has_end a || has_end b)%bool.
Proof. intros. unfold has_end. apply existsb_app. Qed.

Lemma npae_app_nopub : forall l fs, no_push_after_end l = true -> existsb is_push fs = false ->
  no_push_after_end (l ++ fs) = true.
Proof.
  induction l as [|f l IH]; intros fs H Hp; cbn [app no_push_after_end] in *.
  - induction fs as [|g fs IHf]; [reflexivity|]. cbn [no_push_after_end].
    cbn [existsb] in Hp. apply orb_false_iff in Hp. destruct Hp as [_ Hp'].
    destruct (is_end g); [rewrite Hp'; reflexivity|apply IHf; exact Hp'].
  - destruct (is_end f).
    + rewrite existsb_app, Hp, orb_false_r. exact H.
    + apply IH; assumption.
Qed.

Lemma npae_app_noend : forall l fs, has_end l = false -> has_end fs = false ->
  no_push_after_end (l ++ fs) = true.
Proof.
  intros l fs H1 H2.
  assert (H : has_end (l ++ fs) = false) by (rewrite has_end_app, H1, H2; reflexivity).
  revert H. generalize (l ++ fs). induction l0 as [|f l0 IH]; intros H; [reflexivity|].
  cbn [has_end existsb] in H. apply orb_false_iff in H. destruct H as [Hf Hl].
  cbn [no_push_after_end]. rewrite Hf. apply IH. exact Hl.
Qed.

Lemma pub_offs_nil_of_nopush : forall l, existsb is_push l = false -> pub_offs l = [].
Proof.
  induction l as [|f l IH]; intros H; [reflexivity|].
  cbn [existsb] in H. apply orb_false_iff in H. destruct H as [Hf Hl].
  destruct f; cbn [pub_offs]; try (apply IH; exact Hl). discriminate.
Qed.

Lemma no_push_no_pub : forall l, no_push_after_end l = true -> no_pub_after_end l = true.
Proof.
  induction l as [|f l IH]; intros H; [reflexivity|]. cbn [no_push_after_end no_pub_after_end] in *.
  destruct (is_end f); [|apply IH; exact H].
  apply negb_true_iff in H. rewrite (pub_offs_nil_of_nopush _ H). reflexivity.
Qed.

Lemma has_end_map_FPub : forall l, has_end (map FPub l) = false.
Proof. induction l as [|a l IH]; [reflexivity|]. cbn. exact IH. Qed.

Lemma check_pub_pending : forall c s p lag,
  pending (check_pub c s p lag) = pending s \/
  (pending (check_pub c s p lag) = S (pending s) /\ c_pos c = true /\ exists pos pep, ch s = Sub pos pep).
Proof.
  intros c s p lag. unfold check_pub.
  destruct (ch s) as [| |pos pep] eqn:Hch; [left; reflexivity|left; reflexivity|].
  destruct (c_pos c) eqn:Hpos; cbn [negb];
  repeat match goal with |- context [if ?x then _ else _] => destruct x eqn:? end;
    unf; cbn; try (left; reflexivity); right; (split; [reflexivity|split; [reflexivity|eauto]]).
Qed.

Lemma check_pub_ch : forall c s p lag,
  match ch s with
  | Sub _ _ => exists pos pep, ch (check_pub c s p lag) = Sub pos pep
  | x => ch (check_pub c s p lag) = x
  end.
Proof.
  intros c s p lag. unfold check_pub.
  destruct (ch s) as [| |pos pep] eqn:Hch; [unf; cbn; exact Hch|unf; cbn; exact Hch|].
  repeat match goal with |- context [if ?x then _ else _] => destruct x eqn:? end;
    unf; cbn; rewrite ?Hch; eauto.
Qed.

Lemma pub_offs_unsub_out : forall k, existsb is_push [unsub_out_frame k] = false.
Proof. destruct k; reflexivity. Qed.

Ltac sce :=
  try assumption; intros;
  repeat match goal with
   | H : In _ (_ ++ _) |- _ => apply in_app_or in H; destruct H
   | H : In _ [_] |- _ => destruct H as [H|[]]
   | H : In _ [] |- _ => destruct H
   | H : Sub _ _ = Sub _ _ |- _ => inversion H; subst; clear H
   | H : UOut _ = UOut _ |- _ => inversion H; subst; clear H
   end;
  subst;
  try discriminate; try congruence; eauto 3.

Ltac nb H Hnb Hcw :=
  unfold step, emit_push in H; rewrite ?Hnb in H; rewrite ?Hcw in H; cbn [app emits] in H; cbv iota in H.

Lemma einv_step : forall c s l s', c_batch c = false -> SInv c s -> EInv c s -> step c s l = Some s' -> EInv c s'.
Proof.
  intros c s l s' Hnb IS IE H.
  assert (Hcw : cw s = []) by (apply (i_cw_nil c s IS); exact Hnb).
  destruct l; nb H Hnb Hcw; break_step H; inv_some H; boolfix.
  all: destruct IE as [Euo Eup Enoch Efl Esub Epend Ecl Eend Eok].
  all: try match goal with E : pc _ = _ |- _ =>
         rewrite E in Eup, Efl, Esub, Epend, Ecl, Eend;
         cbn [finished in_flight sub_committed quiet] in Eup, Efl, Esub, Epend, Ecl, Eend end.
  all: try rewrite !emits_eq; try rewrite !emit_eq.
  all: repeat match goal with |- context [if closed ?s then _ else _] => destruct (closed s) eqn:? end.
  all: try match goal with |- EInv _ (check_pub _ _ _ _) => idtac | _ =>
    constructor; unf; unfold with_log;
    cbn [b_ep b_top b_items b_fresh g_log fl ps_entry ps_insub ps_locked ps_buf hub ch closed pc dl up pending cleanup g_pos log cw
         finished in_flight sub_committed quiet] in * end.
  all: try (sce; fail).
  all: try (intros; exfalso; congruence).
  (* pending / cleanup facts *)
  all: try (intros Hp; exfalso; specialize (Epend Hp); discriminate).
  all: try (intros Hp; apply Epend; congruence).
  all: try (intros Hp; match goal with H : pending ?s0 = S _ |- _ => assert (Hq : pc s0 = SDone) by (apply Epend; congruence); rewrite Hq; reflexivity end).
  all: try (intros Hc; destruct (Ecl Hc) as [Hq Hcl]; try discriminate; split; congruence).
  all: try (intros _; split; [|reflexivity];
            first [ match goal with H : pending ?s0 = S _ |- _ => assert (Hq : pc s0 = SDone) by (apply Epend; congruence); rewrite Hq; reflexivity end
                  | match goal with H : sub_quiet _ = true |- _ => exact H end ]).
  (* in_flight of a finished / quiet thread *)
  all: try (intros Hf; exfalso;
            first [ match goal with H : sub_finished ?s0 = true |- _ => unfold sub_finished in H; destruct (pc s0); discriminate end
                  | match goal with H : pending ?s0 = S _ |- _ => assert (Hq : pc s0 = SDone) by (apply Epend; congruence); rewrite Hq in Hf; discriminate end
                  | match goal with H : cleanup ?s0 = true |- _ => destruct (Ecl H) as [Hq _]; destruct (pc s0); discriminate end
                  | discriminate ]).
  (* has_end of an extended log *)
  all: try (rewrite !has_end_app; cbn [has_end existsb is_end orb];
            try (match goal with k : ukind |- _ => destruct k; cbn [unsub_out_frame is_end orb] end);
            rewrite ?orb_false_r; rewrite ?has_end_map_FPub; rewrite ?orb_false_r;
            first [ exact Eend
                  | intros He; destruct (Eend He) as [X|[X Y]]; [left; congruence|try discriminate; right; split; congruence]
                  | intros _; right; split; [eapply Euo; eassumption | apply Eup; congruence] ]).
  (* no publication after the end *)
  all: try (apply npae_app_nopub; [exact Eok|reflexivity]).
  all: try (match goal with k : ukind |- _ => destruct k end; apply npae_app_nopub; [exact Eok|reflexivity]).
  all: try (apply npae_app_nopub; [exact Eok|apply pub_offs_unsub_out]).
  (* LEnqueue of a publication / LSrvPush with recovered publications: nothing ended yet *)
  all: try (match goal with IS0 : SInv _ ?s0 |- _ =>
            assert (Hne : has_end (log s0) = false);
            [ destruct (has_end (log s0)) eqn:He; [|reflexivity]; exfalso;
              destruct (Eend eq_refl) as [X|[X Y]]; try congruence; try discriminate;
              match goal with Hd : dl s0 = _ |- _ =>
                assert (Hh : hub s0 = true) by (apply (i_dl_hub c s0 IS0); congruence); congruence end
            | rewrite <- ?app_assoc; apply npae_app_noend; [exact Hne|cbn; rewrite ?has_end_map_FPub; reflexivity] ] end).
  (* has_end obligations where the thread is not finished or the hub entry is gone *)
  all: try (intros He; destruct (Eend He) as [X|[X Y]]; [left; exact X|try discriminate; right; split; congruence]).
  all: try (intros He; right; split; [reflexivity|apply Eup; congruence]).
  (* up / ch / hub bookkeeping *)
  all: try (intros k0 Hk; exfalso; match goal with IS0 : SInv _ ?s0 |- _ => assert (Hn : up s0 <> UIdle) by congruence end; specialize (Eup Hn); discriminate).
  all: try (intros Hc; rewrite (Efl eq_refl) in Hc; discriminate).
  all: try (intros Hn; apply Eup; congruence).
  all: try (intros k0 _; match goal with IS0 : SInv _ ?s0 |- _ => destruct (hub s0) eqn:Hh; [|reflexivity]; exfalso;
            match goal with Hc : ch s0 = NoCh |- _ => destruct (Enoch Hc eq_refl) as [k' Hk'] end; congruence end).
  all: try (intros Hc Hh; exfalso;
            first [ destruct (Enoch Hc Hh) as [k' Hk']; congruence
                  | match goal with Hu : up _ = UOut ?k1 |- _ => rewrite (Euo k1 Hu) in Hh; discriminate end ]).
  (* LCheck on the medium's marker: only after the subscribe window *)
  all: try (intros _;
            match goal with IS0 : SInv _ ?s0, Hm : dl ?s0 = DMark, Hp : c_pos _ = true, Hs : ch ?s0 = Sub _ _ |- _ =>
              assert (Hcm : sub_committed (pc s0) = true) by (eapply Esub; exact Hs);
              assert (Hw : in_window (pc s0) = false) by
                (destruct (in_window (pc s0)) eqn:Ew; [|reflexivity]; exfalso;
                 pose proof (i_entry_pc c s0 IS0 Hp Ew) as X; rewrite (i_mark c s0 IS0 Hm) in X; discriminate);
              destruct (pc s0); try discriminate; reflexivity end).
  (* LCheck on a publication *)
  pose proof (check_pub_fields c s p lag) as F. cbv zeta in F.
  destruct F as (F1 & F2 & F3 & F4 & F5 & F6 & F7 & F8 & F9 & F10 & F11 & F12 & F13 & F14 & F15 & F16).
  pose proof (check_pub_ch c s p lag) as Fch.
  constructor; rewrite ?F9, ?F10, ?F11, ?F12, ?F13, ?F14; try assumption.
  - intros Hc. destruct (ch s) eqn:E; try (destruct Fch as (? & ? & Fch); congruence); try congruence.
    apply Enoch. reflexivity.
  - intros Hf. specialize (Efl Hf). rewrite Efl in Fch. exact Fch.
  - intros pos' pep' Hc. destruct (ch s) eqn:E; try congruence. eapply Esub. reflexivity.
  - intros Hp. destruct (check_pub_pending c s p lag) as [Ep|[Ep (Hpos & pos0 & pep0 & Hs)]].
    + apply Epend. congruence.
    + pose proof (Esub _ _ Hs) as Hcm.
      match goal with Hd : dl s = DPub _ _ PCheck |- _ =>
        assert (Hw : in_window (pc s) = false);
        [ destruct (in_window (pc s)) eqn:Ew; [|reflexivity]; exfalso;
          pose proof (i_entry_pc c s IS Hpos Ew) as Hen;
          destruct (i_entry_dl c s IS Hen _ _ _ Hd) as [X|[X _]]; discriminate | ] end.
      destruct (pc s); try discriminate; reflexivity.
Qed.

(* ------------------------------------------------------------------ *)

Record FInv (c : cfg) (s : st) : Prop := { f_s : SInv c s; f_e : EInv c s }.

Lemma finv_run : forall c ls s s', c_batch c = false -> FInv c s -> run c s ls = Some s' -> FInv c s'.
Proof.
  induction ls as [|l ls IH]; intros s s' Hp I H; cbn [run] in H.
  - inv_some H. exact I.
  - destruct (step c s l) as [s1|] eqn:E; [|discriminate].
    eapply IH; [exact Hp| |exact H]. destruct I as [IS IE]. constructor.
    + eapply sinv_step; eauto.
    + eapply einv_step; eauto.
Qed.

(* For every positioned subscription (patched or not) and every schedule: no positioned
   publication is written after the frame that ended the subscription. *)
Theorem c01_no_pub_after_end : forall c ls s,
  c_batch c = false -> run c init ls = Some s -> no_pub_after_end (log s) = true.
Proof.
  intros c ls s Hp H.
  assert (I : FInv c s).
  { eapply finv_run; eauto. constructor; [apply sinv_init|apply einv_init]. }
  apply no_push_no_pub. apply (e_ok c s (f_e c s I)).
Qed.

Theorem c10_no_push_after_end : forall c ls s,
  c_batch c = false -> run c init ls = Some s -> no_push_after_end (log s) = true.
Proof.
  intros c ls s Hp H.
  assert (I : FInv c s).
  { eapply finv_run; eauto. constructor; [apply sinv_init|apply einv_init]. }
  apply (e_ok c s (f_e c s I)).
Qed.

(* Detection: each insufficient-state branch of the position check leaves the position
   and the transport untouched and spawns the goroutine that ends the subscription. *)
Theorem c01_detect_spawns : forall c s p lag pos pep,
  c_pos c = true -> ch s = Sub pos pep -> dl s = DPub p lag PCheck ->
  (lag = true \/ (pe p <> pep /\ pep <> 0) \/ (lag = false /\ pe p = pep /\ pos + 1 < po p)) ->
  exists s', step c s LCheck = Some s' /\ pending s' = S (pending s) /\ log s' = log s /\
             ch s' = ch s /\ dl s' = DIdle.
Proof.
  intros c s p lag pos pep Hp Hch Hd Hcase.
  unfold step. rewrite Hd. eexists. split; [reflexivity|].
  unfold check_pub. rewrite Hch, Hp. cbn [negb].
  destruct Hcase as [->|[[Hne Hnz]|(-> & He & Hgt)]].
  - unf; cbn. auto.
  - destruct lag; [unf; cbn; auto|].
    assert (E1 : (pe p =? pep) = false) by (apply N.eqb_neq; exact Hne).
    assert (E2 : (pep =? 0) = false) by (apply N.eqb_neq; exact Hnz).
    rewrite E1, E2. cbn [negb andb]. unf; cbn. auto.
  - assert (E1 : (pe p =? pep) = true) by (apply N.eqb_eq; exact He).
    rewrite E1. cbn [negb andb].
    assert (E3 : (pos + 1 <? po p) = true) by (apply N.ltb_lt; exact Hgt).
    rewrite E3. unf; cbn. auto.
Qed.

(* Client-side subscription: a spawned insufficient-state goroutine ends the subscription
   with the insufficient-state unsubscribe push. *)
Theorem c01_pending_ends_client : forall c s n pos pep,
  c_var c = VClient -> pending s = S n -> up s = UIdle -> dl s = DIdle -> closed s = false ->
  ch s = Sub pos pep -> cw s = [] ->
  exists s', run c s [LUnsub UInsuff; LUnsubHub; LUnsubOut] = Some s' /\
             log s' = log s ++ [FUnsubPush code_unsub_insufficient] /\
             ch s' = NoCh /\ hub s' = false /\ pending s' = n.
Proof.
  intros c s n pos pep Hv Hp Hu Hd Hc Hch Hcw.
  set (s1 := set_up (set_ch (set_cw (set_pending s n) []) NoCh (g_pos s)) (UHub UInsuff)).
  assert (S1 : step c s (LUnsub UInsuff) = Some s1).
  { unfold step, up_idle, insuff_disc. rewrite Hu, Hp, Hv, Hch, Hcw. destruct (c_fix_delw c); reflexivity. }
  set (s2 := set_up (set_hub (if c_fix_delw c then set_cw s1 [] else s1) false) (UOut UInsuff)).
  assert (S2 : step c s1 LUnsubHub = Some s2).
  { unfold step, dl_idle. change (up s1) with (UHub UInsuff). change (dl s1) with (dl s). rewrite Hd. reflexivity. }
  set (s3 := set_up (emit s2 (unsub_out_frame UInsuff)) UIdle).
  assert (S3 : step c s2 LUnsubOut = Some s3).
  { unfold step. change (up s2) with (UOut UInsuff). reflexivity. }
  exists s3. cbn [run]. rewrite S1, S2, S3. split; [reflexivity|].
  unfold s3. rewrite emit_eq.
  assert (E2 : closed s2 = closed s) by (unfold s2; destruct (c_fix_delw c); reflexivity).
  rewrite E2, Hc. unfold s2. destruct (c_fix_delw c); cbn; auto.
Qed.

(* Server-side subscription: it closes the connection with the insufficient-state code. *)
Theorem c01_pending_ends_server : forall c s n,
  insuff_disc c = true -> pending s = S n -> closed s = false -> cw s = [] ->
  exists s', step c s LAsyncDisc = Some s' /\
             log s' = log s ++ [FDisconnect code_disc_insufficient] /\ closed s' = true.
Proof.
  intros c s n Hv Hp Hc Hcw. unfold step. rewrite Hp, Hv, Hc, Hcw. cbn [negb app emits].
  rewrite emit_eq. change (closed (set_pending s n)) with (closed s). rewrite Hc.
  eexists. split; [reflexivity|]. cbn. auto.
Qed.
