(* C22: the recovery merge (C39's model) on two overlapping contiguous ranges of
   unfiltered publications yields exactly the union range. *)
From Coq Require Import List Arith Bool NArith Lia Sorting.Sorted.
From Cfg Require Import Model.Merge Model.MergeSpec Proofs.Merge.
Import ListNotations.
Close Scope N_scope.
Open Scope nat_scope.

Definition mk (o : nat) : pub := mkPub (N.of_nat o) false (N.of_nat o).

Lemma sorted_lt_eq : forall l1 l2 : list N,
  StronglySorted N.lt l1 -> StronglySorted N.lt l2 ->
  (forall x, In x l1 <-> In x l2) -> l1 = l2.
Proof.
  induction l1 as [|a t IH]; intros l2 S1 S2 H.
  - destruct l2 as [|b u]; auto. exfalso. apply (proj2 (H b)). left; reflexivity.
  - destruct l2 as [|b u]; [exfalso; apply (proj1 (H a)); left; reflexivity|].
    inversion S1 as [|? ? S1t F1]; subst. inversion S2 as [|? ? S2t F2]; subst.
    rewrite Forall_forall in F1, F2.
    assert (a = b).
    { destruct (proj1 (H a) (or_introl eq_refl)) as [E|E]; [auto|].
      destruct (proj2 (H b) (or_introl eq_refl)) as [E'|E']; [auto|].
      pose proof (F2 _ E). pose proof (F1 _ E'). lia. }
    subst b. f_equal. apply IH; auto. intros x. split; intros Hx.
    + destruct (proj1 (H x) (or_intror Hx)) as [E|E]; auto. subst. pose proof (F1 _ Hx). lia.
    + destruct (proj2 (H x) (or_intror Hx)) as [E|E]; auto. subst. pose proof (F2 _ Hx). lia.
Qed.

Lemma seq_sorted : forall n s, StronglySorted N.lt (map N.of_nat (seq s n)).
Proof.
  induction n as [|n IH]; intros s; cbn; constructor; auto.
  apply Forall_forall. intros x Hx. apply in_map_iff in Hx. destruct Hx as [y [<- Hy]].
  apply in_seq in Hy. lia.
Qed.

Lemma max_off_le : forall (l : list pub) m, (forall p, In p l -> (p_off p <= m)%N) -> (max_off l <= m)%N.
Proof.
  induction l as [|p t IH]; intros m H; unfold max_off in *; cbn; [lia|].
  apply N.max_lub; [apply H; left; auto | apply IH; intros q Hq; apply H; right; auto].
Qed.

Lemma max_off_ge : forall (l : list pub) p, In p l -> (p_off p <= max_off l)%N.
Proof.
  induction l as [|q t IH]; intros p H; [destruct H|]. unfold max_off in *; cbn.
  destruct H as [->|H]; [apply N.le_max_l|]. etransitivity; [apply IH; exact H|apply N.le_max_r].
Qed.

Lemma merge_contig : forall rec buf lo hi,
  lo <= hi ->
  (forall p, In p (rec ++ buf) -> exists o, lo < o <= hi /\ p = mk o) ->
  (forall o, lo < o <= hi -> In (mk o) (rec ++ buf)) ->
  merge rec buf = (map mk (seq (S lo) (hi - lo)), N.of_nat (if Nat.ltb lo hi then hi else 0), true).
Proof.
  intros rec buf lo hi Hle Hall Hcov.
  pose proof (merge_meets_spec rec buf) as S.
  destruct (merge rec buf) as [[out maxo] ok].
  destruct S as [Hok Hspec].
  assert (Hreal : forall x, In x (real_offs (rec ++ buf)) <-> exists o, lo < o <= hi /\ x = N.of_nat o).
  { intros x. rewrite real_offs_In. split.
    - intros [p [Hp [_ Hx]]]. destruct (Hall p Hp) as [o [Ho ->]]. exists o. split; auto.
    - intros [o [Ho ->]]. exists (mk o). split; [apply Hcov; auto|split; reflexivity]. }
  assert (Hnomark : forall x, ~ In x (marker_offs (rec ++ buf))).
  { intros x Hx. apply marker_offs_In in Hx. destruct Hx as [p [Hp [Hf _]]].
    destruct (Hall p Hp) as [o [_ ->]]. discriminate. }
  assert (Etrue : ok = true).
  { destruct ok; auto. exfalso. destruct (proj1 Hok eq_refl) as [_ [a [b [o [Ha [Hb [Hao [Hob [Hnone _]]]]]]]]].
    apply Hreal in Ha. apply Hreal in Hb. destruct Ha as [na [Hna ->]]. destruct Hb as [nb [Hnb ->]].
    apply (Hnone o); [|lia].
    apply Hreal. exists (N.to_nat o). split; [lia|]. rewrite N2Nat.id. reflexivity. }
  subst ok. destruct (Hspec eq_refl) as [Hsorted [Hnd [Hmem [Hoffs Hmax]]]].
  assert (Eoffs : map p_off out = map N.of_nat (seq (S lo) (hi - lo))).
  { apply sorted_lt_eq; auto; [apply seq_sorted|]. intros x. rewrite Hoffs, Hreal. rewrite in_map_iff. split.
    - intros [o [Ho ->]]. exists o. split; auto. apply in_seq. lia.
    - intros [o [<- Ho]]. apply in_seq in Ho. exists o. split; auto. lia. }
  assert (Eout : out = map mk (seq (S lo) (hi - lo))).
  { assert (G : forall (l : list pub) (ns : list nat),
               (forall p, In p l -> exists o, p = mk o) -> map p_off l = map N.of_nat ns -> l = map mk ns).
    { induction l as [|p t IH]; intros ns Hf He; destruct ns as [|n ns']; try discriminate; auto.
      cbn in He. inversion He as [[E1 E2]]. cbn. f_equal.
      - destruct (Hf p (or_introl eq_refl)) as [o ->]. cbn in E1. apply Nat2N.inj in E1. subst. reflexivity.
      - apply IH; auto. intros q Hq. apply Hf. right; auto. }
    apply G; auto. intros p Hp. destruct (Hmem p Hp) as [_ Hin]. destruct (Hall p Hin) as [o [_ ->]]. eauto. }
  subst out. f_equal. f_equal. rewrite Hmax.
  destruct (Nat.ltb lo hi) eqn:E.
  - apply Nat.ltb_lt in E. apply N.le_antisymm.
    + apply max_off_le. intros p Hp. destruct (Hall p Hp) as [o [Ho ->]]. cbn. lia.
    + pose proof (max_off_ge _ _ (Hcov hi ltac:(lia))) as G. cbn in G. exact G.
  - apply Nat.ltb_ge in E. assert (hi = lo) by lia. subst.
    destruct (rec ++ buf) as [|p t] eqn:El; [reflexivity|].
    destruct (Hall p (or_introl eq_refl)) as [o [Ho _]]. lia.
Qed.
