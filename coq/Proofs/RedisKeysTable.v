(* The parts of C34 that depend on tables generated from /repo on every run:
   crc16tab of redis_cluster_slot.go and the partition tags of precomputed.go. *)
From Coq Require Import String List NArith Bool.
From Cfg Require Import Model.Crc16 Model.Partition Model.RedisKeys Proofs.Crc16 Proofs.RedisKeys
                        Gen.CrcTab Gen.Precomputed.
Import ListNotations.
Open Scope N_scope.

(* all 256 entries of the Go table are the register after clocking the byte through *)
Lemma crc16tab_ok : tab_check crc16tab = true.
Proof. vm_compute. reflexivity. Qed.

Theorem redis_slot_go_is_hash_slot : forall key,
  Forall (fun b => b < 256) key -> redis_slot_go crc16tab key = redis_slot_spec key.
Proof. intros. apply redis_slot_go_spec; [exact crc16tab_ok|assumption]. Qed.

(* every bundled partition tag is non-empty and contains neither '}' nor '.' *)
Definition all_tags : list (list N) := concat (map snd precomputed).

Lemma precomputed_tags_ok_b : forallb tag_ok all_tags = true.
Proof. vm_compute. reflexivity. Qed.

Theorem precomputed_tag_ok : forall p tags idx,
  find_tags precomputed p = Some tags -> (idx < length tags)%nat -> tag_ok (nth idx tags []) = true.
Proof.
  intros p tags idx F L.
  pose proof precomputed_tags_ok_b as H. rewrite forallb_forall in H. apply H.
  unfold all_tags. apply in_concat. exists tags. split; [|apply nth_In; assumption].
  apply in_map_iff. exists (p, tags). split; [reflexivity|].
  clear H L. induction precomputed as [|[q t] tbl IH]; cbn [find_tags] in F; [discriminate|].
  destruct (q =? p) eqn:E.
  - inversion F; subst. apply N.eqb_eq in E. subst. left. reflexivity.
  - right. apply IH. assumption.
Qed.

(* ---- the full statement is false without tag_safe: witnesses ---- *)
Definition cfg0 : cfg := mkCfg (s2b "centrifuge") true 0 false.

(* channel "}x": Redis sees an EMPTY tag in "...{}x}" and hashes the whole key *)
Theorem emptytag_refuted :
  exists c ch, c_cluster c = true /\ c_parts c = 0 /\ lacks LB (c_prefix c) = true /\
    redis_slot_spec (b_stream c [] ch) <> redis_slot_spec (b_meta c [] ch) /\
    redis_slot_spec (b_stream c [] ch) <> redis_slot_spec (b_message c [] ch).
Proof.
  exists cfg0, (s2b "}x"). repeat split; vm_compute; discriminate.
Qed.

(* a '{' inside the configured prefix captures the tag *)
Theorem prefix_brace_refuted :
  exists c ch, c_cluster c = true /\ ch_safe ch = true /\
    redis_slot_spec (b_stream c [] ch) <> redis_slot_spec (b_meta c [] ch).
Proof.
  exists (mkCfg (s2b "a{b") true 0 false), (s2b "news"). repeat split; vm_compute; discriminate.
Qed.
