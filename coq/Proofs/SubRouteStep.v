(* Every non-timeout action of Model/SubLifecycle.v preserves the routing invariant. *)
From Coq Require Import List NArith ZArith Bool Lia.
From Cfg Require Import Model.SubLifecycle Proofs.SubLifecycleLib Proofs.SubRoute.
Import ListNotations.
Open Scope N_scope.

Ltac core :=
  unfold Inv, spawn_int, submit_job, thr_set, thr_del, log, set_gst1;
  cbn [chans genctr gclosed gst hub thr next_ext next_int
       set_status set_authed set_closing set_chans set_genctr set_gclosed set_cmu set_pmu set_pinfl
       set_kstarted set_slock set_hub set_others set_reg set_pres set_bsub set_jobs set_gconn set_gsub
       set_trace set_thr set_next_ext set_next_int set_panicked set_wclosed set_hreg set_shut set_gst].

(* components of close_gate / close_cap / hubrem *)
Lemma close_gate_core g s :
  let s' := close_gate g s in
  chans s' = chans s /\ genctr s' = genctr s /\ gst s' = gst s /\ hub s' = hub s /\ thr s' = thr s /\
  next_ext s' = next_ext s /\ next_int s' = next_int s /\ status s' = status s /\ slock s' = slock s /\
  (gclosed s' = gclosed s \/ gclosed s' = upd (gclosed s) g true).
Proof. unfold close_gate. destruct (gclosed s g); cbn; intuition. Qed.

Lemma Inv_close_gate g s : Inv s -> post_commit (gst s g) -> Inv (close_gate g s).
Proof.
  intros I P. unfold Inv, close_gate. destruct (gclosed s g); cbn; auto. apply P_gcl; auto.
Qed.

Lemma Inv_close_cap c s : Inv s -> (forall g, c = Some g -> post_commit (gst s g)) -> Inv (close_cap c s).
Proof. intros I P. destruct c; cbn; auto. apply Inv_close_gate; auto. Qed.

Lemma close_cap_core c s :
  let s' := close_cap c s in
  chans s' = chans s /\ genctr s' = genctr s /\ gst s' = gst s /\ hub s' = hub s /\ thr s' = thr s /\
  next_ext s' = next_ext s /\ next_int s' = next_int s /\ status s' = status s /\ slock s' = slock s.
Proof. destruct c; cbn; [|intuition]. pose proof (close_gate_core g s). cbn in *. intuition. Qed.

Lemma hubrem_core c g s :
  let s' := hubrem c g s in
  chans s' = chans s /\ genctr s' = genctr s /\ gclosed s' = gclosed s /\ gst s' = gst s /\ thr s' = thr s /\
  next_ext s' = next_ext s /\ next_int s' = next_int s /\
  hub s' = (if match hub s c with Some g' => g' =? g | None => false end then upd (hub s) c None else hub s).
Proof.
  unfold hubrem. destruct (hub s c) as [g'|]; [destruct (g' =? g); [destruct (others s c =? 0)|]|];
    cbn; intuition.
Qed.

(* hub removal by a thread that owns the teardown of g (or of a generation that is already dead) *)
Lemma Inv_hubrem c g s :
  Inv s ->
  (forall c', gst s g <> GLive c') ->
  (forall t c', gst s g = GRes t c' -> ~ hub_added (thr s t)) ->
  Inv (hubrem c g s).
Proof.
  intros I NL NR. pose proof (hubrem_core c g s) as H. cbn in H.
  destruct H as (E1 & E2 & E3 & E4 & E5 & E6 & E7 & E8).
  unfold Inv. rewrite E1, E2, E3, E4, E5, E6, E7, E8.
  destruct (hub s c) as [g'|] eqn:EH; auto. destruct (N.eqb_spec g' g); auto. subst g'.
  eapply P_hubclear; eauto.
Qed.

Section AttStep.
  Variables (s : st) (t : tid) (a : att).
  Hypothesis I : Inv s.
  Hypothesis ET : thr s t = Some (TAtt a).

  Lemma att_ne : thr s t <> None. Proof. congruence. Qed.

  Lemma att_ok : thread_ok (gst s) t (Some (TAtt a)).
  Proof. rewrite <- ET. apply (i_thr _ _ _ _ _ _ _ _ I). Qed.

  (* what the ghost state can say about thread t *)
  Lemma att_res g c : gst s g = GRes t c -> att_resv a g c.
  Proof. intros H. destruct (i_res _ _ _ _ _ _ _ _ I _ _ _ H) as (_ & _ & C). rewrite ET in C. exact C. Qed.
  Lemma att_tear g c : gst s g = GTear t c -> tearing (Some (TAtt a)) g c.
  Proof. intros H. rewrite <- ET. apply (i_tear _ _ _ _ _ _ _ _ I _ _ _ H). Qed.
End AttStep.

(* a step that only changes the attempt record: obligations for P_thread in terms of the old record *)
Lemma att_thread_only s t a a' :
  Inv s -> thr s t = Some (TAtt a) ->
  thread_ok (gst s) t (Some (TAtt a')) ->
  (forall g c, att_resv a g c -> gst s g = GRes t c ->
     att_resv a' g c /\ (hub_added (Some (TAtt a')) -> hub s c = Some g)) ->
  (forall g c, tearing (Some (TAtt a)) g c -> gst s g = GTear t c ->
     tearing (Some (TAtt a')) g c /\ (hub s c = Some g -> pre_hubrem (Some (TAtt a')) g)) ->
  InvC (chans s) (genctr s) (gclosed s) (gst s) (hub s) (upd (thr s) t (Some (TAtt a')))
       (next_ext s) (next_int s).
Proof.
  intros I ET OK R T. apply P_thread; auto; try congruence.
  - intros g c Hg. apply R; auto. eapply att_res; eauto.
  - intros g c Hg. apply T; auto. eapply att_tear; eauto.
Qed.

Lemma att_end s t a :
  Inv s -> thr s t = Some (TAtt a) ->
  (forall g c, att_resv a g c -> gst s g = GRes t c -> False) ->
  (forall g c, tearing (Some (TAtt a)) g c -> gst s g = GTear t c -> False) ->
  InvC (chans s) (genctr s) (gclosed s) (gst s) (hub s) (upd (thr s) t None)
       (next_ext s) (next_int s).
Proof.
  intros I ET R T. apply P_thread; auto; try congruence; cbn; auto.
  - intros g c Hg. exfalso. eapply R; eauto. eapply att_res; eauto.
  - intros g c Hg. exfalso. eapply T; eauto. eapply att_tear; eauto.
Qed.

Lemma att_res_hub s t a g c :
  Inv s -> thr s t = Some (TAtt a) -> gst s g = GRes t c -> hub_added (Some (TAtt a)) -> hub s c = Some g.
Proof. intros I ET H A. eapply (i_res_hub _ _ _ _ _ _ _ _ I); eauto. rewrite ET. exact A. Qed.

Lemma att_hub_tear s t a g c :
  Inv s -> thr s t = Some (TAtt a) -> gst s g = GTear t c -> hub s c = Some g -> pre_hubrem (Some (TAtt a)) g.
Proof.
  intros I ET H Hh. pose proof (i_hub _ _ _ _ _ _ _ _ I _ _ Hh) as P. rewrite H in P.
  destruct P as [_ P]. rewrite ET in P. exact P.
Qed.

Ltac simp_att EPC :=
  cbn; unfold att_resv; cbn; unfold fail_pc; cbn; rewrite ?EPC; cbn;
  repeat match goal with |- context [a_padded ?a] => destruct (a_padded a); cbn end;
  repeat match goal with |- context [is_srv ?k] => destruct (is_srv k); cbn end.
Ltac fin_att := intuition (try congruence; try discriminate; eauto).
Ltac obl EPC := intros ? ?; simp_att EPC; fin_att.
Ltac okk EPC := simp_att EPC; fin_att.
Ltac thread_only a EPC := apply att_thread_only with (a := a); [assumption|assumption|okk EPC|obl EPC|obl EPC].
Ltac thread_end a EPC := apply att_end with (a := a); [assumption|assumption|obl EPC|obl EPC].

Lemma att_step_inv s t a b s' :
  Inv s -> thr s t = Some (TAtt a) -> att_step s t a b = Some s' -> Inv s'.
Proof.
  intros I ET H. unfold att_step in H.
  pose proof (att_ok s t a I ET) as OK. cbn in OK.
  destruct (a_pc a) eqn:EPC.
  - (* PReserve *)
    destruct (is_srv (a_kind a) && is_closed (status s)).
    { inv H. core. thread_end a EPC. }
    destruct (lookup (a_ch a) (chans s)) eqn:EL.
    { inv H. core. thread_end a EPC. }
    destruct (a_kind a); inv H; core; cbv zeta; core;
      (eapply P_reserve with (a := a); eauto; cbn; auto).
  - (* PHandler *)
    destruct b; inv H; core; thread_only a EPC.
  - (* PGenStamp *)
    destruct (att_res s t a I ET _ _ OK) as (Eo & Ec & _).
    destruct (i_res _ _ _ _ _ _ _ _ I _ _ _ OK) as ((x & L & Gx & Sx) & _ & _).
    rewrite L in H. inv H. core. thread_only a EPC.
  - (* PPreAdd *)
    destruct (lookup (a_ch a) (chans s)); [destruct (is_closed (status s))|]; inv H; core;
      thread_only a EPC.
  - (* PHubAdd1 *)
    destruct (slock s (a_ch a)); [discriminate|].
    destruct (att_res s t a I ET _ _ OK) as (Eo & Ec & Eu). rewrite EPC in Eu.
    assert (I1 : InvC (chans s) (genctr s) (gclosed s) (gst s) (upd (hub s) (a_ch a) (Some (a_use a)))
                      (thr s) (next_ext s) (next_int s)).
    { eapply P_hubset; eauto. rewrite Eu. exact OK. }
    destruct (negb (subscribers s (a_ch a))); inv H; core;
      (apply P_thread;
       [ exact I1 | congruence | okk EPC
       | intros g c Hg; pose proof (att_res s t a I ET _ _ Hg) as (A1 & A2 & A3); rewrite EPC in A3;
         split; [okk EPC | intros _; subst; rewrite A3, upd_same; reflexivity]
       | intros g c Hg; exfalso; pose proof (att_tear s t a I ET _ _ Hg) as T; cbn in T; rewrite EPC in T; tauto ]).
  - (* PHubAdd2 *)
    destruct (att_res s t a I ET _ _ OK) as (Eo & Ec & Eu). rewrite EPC in Eu.
    assert (HH : hub s (a_ch a) = Some (a_own a)).
    { eapply att_res_hub; eauto. cbn. rewrite EPC. exact Logic.I. }
    destruct b; inv H; core.
    + apply att_thread_only with (a := a); [assumption|assumption|okk EPC| |obl EPC].
      intros ? ?; simp_att EPC; fin_att; subst; auto.
    + (* broker subscribe failed: first to the failure pc, then the hub entry is removed *)
      rewrite HH, Eu, N.eqb_refl. core.
      assert (I1 : InvC (chans s) (genctr s) (gclosed s) (gst s) (hub s)
                        (upd (thr s) t (Some (TAtt (with_fail a)))) (next_ext s) (next_int s)).
      { thread_only a EPC. }
      eapply P_hubclear; eauto.
      * intros c'. rewrite OK. congruence.
      * intros t0 c' Hg. rewrite OK in Hg. inv Hg. rewrite upd_same. okk EPC.
  - (* PPostAdd *)
    assert (HH : hub s (a_ch a) = Some (a_own a)).
    { eapply att_res_hub; eauto. cbn. rewrite EPC. exact Logic.I. }
    destruct (lookup (a_ch a) (chans s)); [destruct (is_closed (status s))|]; inv H; core;
      (apply att_thread_only with (a := a); [assumption|assumption|okk EPC| |obl EPC]);
      intros ? ?; simp_att EPC; fin_att; subst; auto.
  - (* PPresAdd *)
    assert (HH : hub s (a_ch a) = Some (a_own a)).
    { eapply att_res_hub; eauto. cbn. rewrite EPC. exact Logic.I. }
    destruct (o_pres (a_opts a)); [destruct b|]; inv H; core;
      (apply att_thread_only with (a := a); [assumption|assumption|okk EPC| |obl EPC]);
      intros ? ?; simp_att EPC; fin_att; subst; auto.
  - (* PCommit *)
    destruct (att_res s t a I ET _ _ OK) as (Eo & Ec & Eu). rewrite EPC in Eu.
    destruct (i_res _ _ _ _ _ _ _ _ I _ _ _ OK) as ((x & L & Gx & Sx) & GC & _).
    rewrite L, Gx, Eu, N.eqb_refl in H.
    assert (CG : c_gate x = true) by (pose proof (i_chans _ _ _ _ _ _ _ _ I _ _ L) as P; rewrite Sx in P; tauto).
    destruct (is_closed (status s)); inv H; core.
    + (* closed: roll back *)
      rewrite ?Eu. eapply P_delete with (x := x);
        [exact I|exact L|exact Gx|right; exact OK|congruence| | | | |].
      * cbn. rewrite CG. repeat split; auto. rewrite upd_same; auto. intros y [= <-]. auto.
      * cbn. auto.
      * cbn. auto.
      * intros g' c' Hne Hg. destruct (att_res s t a I ET _ _ Hg). congruence.
      * intros g' c' Hg. pose proof (att_tear s t a I ET _ _ Hg) as T. cbn in T. rewrite EPC in T. tauto.
    + (* install *)
      rewrite ?Eu. eapply P_commit; [exact I|exact OK| |reflexivity|reflexivity|reflexivity|].
      * rewrite ET. cbn. rewrite EPC. exact Logic.I.
      * cbn. rewrite Eu, upd_same. split; cbn; auto. rewrite CG. intros y [= <-]. auto.
  - (* PLostHubRem *) destruct OK.
  - (* PLostPresRem *) destruct OK.
  - (* PClosedHubRem *)
    destruct (slock s (a_ch a)); [discriminate|]. inv H. destruct OK as (Eu & Hg & Cap).
    assert (I1 : Inv (hubrem (a_ch a) (a_use a) s)).
    { apply Inv_hubrem; auto; rewrite Eu, Hg; congruence. }
    pose proof (hubrem_core (a_ch a) (a_use a) s) as HC. cbn in HC.
    destruct HC as (E1 & E2 & E3 & E4 & E5 & E6 & E7 & E8).
    core. unfold Inv in I1. rewrite E1, E2, E3, E4, E6, E7 in *. rewrite E5 in I1 |- *.
    apply P_thread; [exact I1|congruence| | |].
    + cbn. auto.
    + intros g c Hg'. exfalso. destruct (att_res s t a I ET _ _ Hg') as (_ & _ & A). rewrite EPC in A. auto.
    + intros g c Hg'. pose proof (att_tear s t a I ET _ _ Hg') as T. cbn in T. rewrite EPC in T.
      destruct T as (T1 & T2 & T3). split; [cbn; auto|].
      rewrite E8. subst g c.
      destruct (hub s (a_ch a)) as [g'|] eqn:EH.
      * destruct (N.eqb_spec g' (a_use a)); [rewrite upd_same; discriminate|].
        rewrite EH. intros [= ->]. congruence.
      * rewrite EH. discriminate.
  - (* PClosedPresRem *)
    inv H. destruct OK as (Eu & Hg & Cap).
    assert (NH : hub s (a_ch a) <> Some (a_own a)).
    { intros Hh. pose proof (att_hub_tear s t a _ _ I ET Hg Hh) as P. cbn in P. rewrite EPC in P. auto. }
    destruct (o_pres (a_opts a)); core;
      (apply att_thread_only with (a := a); [assumption|assumption|okk EPC|obl EPC|]);
      intros ? ?; simp_att EPC; fin_att; subst; tauto.
  - (* PClosedGate *)
    destruct OK as (Eu & Hg & Cap).
    assert (NP : ~ pre_hubrem (thr s t) (a_own a)) by (rewrite ET; cbn; rewrite EPC; auto).
    pose proof (close_cap_core (a_cap a) s) as HC. cbn in HC.
    destruct HC as (E1 & E2 & E4 & E5 & E6 & E7 & E8 & _).
    assert (I1 : Inv (close_cap (a_cap a) s)).
    { apply Inv_close_cap; auto. intros g Hc. rewrite (Cap _ Hc), Hg. exact Logic.I. }
    unfold Inv in I1. rewrite E1, E2, E4, E5, E6, E7, E8 in I1.
    destruct (is_srv (a_kind a)); inv H; core; rewrite E1, E2, E4, E5, E6, E7, E8, Eu;
      (eapply P_dead;
       [ exact I1 | exact Hg | exact NP
       | simp_att EPC; rewrite ?upd_same; auto ]).
  - (* PRelease *)
    destruct OK as (PC & Cap).
    pose proof (close_cap_core (a_cap a) s) as HC. cbn in HC.
    destruct HC as (E1 & E2 & E4 & E5 & E6 & E7 & E8 & _).
    assert (I1 : Inv (close_cap (a_cap a) s)).
    { apply Inv_close_cap; auto. intros g Hc. rewrite (Cap _ Hc). exact PC. }
    unfold Inv in I1. rewrite E1, E2, E4, E5, E6, E7, E8 in I1.
    inv H. core. rewrite E1, E2, E4, E5, E6, E7, E8.
    apply P_thread; auto; try congruence.
    + okk EPC.
    + intros g c Hg. exfalso. destruct (att_res s t a I ET _ _ Hg) as (_ & _ & A). rewrite EPC in A. auto.
    + intros g c Hg. exfalso. pose proof (att_tear s t a I ET _ _ Hg) as T. cbn in T. rewrite EPC in T. tauto.
  - (* PPush *)
    destruct (wclosed s); [destruct (o_jl (a_opts a))|]; inv H; core.
    + thread_end a EPC.
    + thread_end a EPC.
    + thread_only a EPC.
  - (* PJoin *)
    inv H. destruct (o_jl (a_opts a)); core; thread_end a EPC.
  - (* PFailPres *)
    inv H. core. thread_only a EPC.
  - (* PErrDelete *)
    destruct OK as [Hg|Hg].
    + destruct (att_res s t a I ET _ _ Hg) as (Eo & Ec & _).
      destruct (i_res _ _ _ _ _ _ _ _ I _ _ _ Hg) as ((x & L & Gx & Sx) & GC & _).
      rewrite L, Gx, N.eqb_refl in H. inv H. core.
      eapply P_delete with (x := x);
        [exact I|exact L|exact Gx|right; exact Hg|congruence| | | | |].
      * cbn. rewrite upd_same. split; auto. intros y. destruct (c_gate x); intros [= <-]; auto.
      * cbn. auto.
      * cbn. auto.
      * intros g' c' Hne Hg'. destruct (att_res s t a I ET _ _ Hg'). congruence.
      * intros g' c' Hg'. pose proof (att_tear s t a I ET _ _ Hg') as T. cbn in T. rewrite EPC in T. tauto.
    + assert (NO : forall x, lookup (a_ch a) (chans s) = Some x -> c_gen x <> a_own a).
      { intros x L E. destruct (chans_gen_state _ _ _ _ _ _ _ _ _ _ I L) as [P|(t1 & P)];
          rewrite E in P; congruence. }
      assert (NR : forall g c, gst s g = GRes t c -> False).
      { intros g c Hg'. destruct (att_res s t a I ET _ _ Hg') as (A & _). congruence. }
      assert (NT : forall g c, gst s g = GTear t c -> False).
      { intros g c Hg'. pose proof (att_tear s t a I ET _ _ Hg') as T. cbn in T. rewrite EPC in T. tauto. }
      destruct (lookup (a_ch a) (chans s)) as [x|] eqn:L.
      * destruct (N.eqb_spec (c_gen x) (a_own a)); [exfalso; eapply NO; eauto|].
        inv H. core. apply P_thread; auto; try congruence; [cbn; auto| |];
          intros g c Hg'; exfalso; eauto.
      * inv H. core. apply P_thread; auto; try congruence; [cbn; auto| |];
          intros g c Hg'; exfalso; eauto.
  - (* PErrHubRem *)
    destruct (slock s (a_ch a)); [discriminate|]. inv H.
    assert (ST : (a_owned a = true /\ gst s (a_own a) = GTear t (a_ch a)) \/ gst s (a_own a) = GDead).
    { destruct (a_owned a); [left|right]; tauto. }
    assert (I1 : Inv (hubrem (a_ch a) (a_own a) s)).
    { apply Inv_hubrem; auto; destruct ST as [[_ E]|E]; rewrite E; congruence. }
    pose proof (hubrem_core (a_ch a) (a_own a) s) as HC. cbn in HC.
    destruct HC as (E1 & E2 & E3 & E4 & E5 & E6 & E7 & E8).
    core. unfold Inv in I1. rewrite E1, E2, E3, E4, E6, E7 in *. rewrite E5 in I1 |- *.
    apply P_thread; [exact I1|congruence| | |].
    + cbn. exact OK.
    + intros g c Hg'. exfalso. destruct (att_res s t a I ET _ _ Hg') as (_ & _ & A). rewrite EPC in A. auto.
    + intros g c Hg'. pose proof (att_tear s t a I ET _ _ Hg') as T. cbn in T. rewrite EPC in T.
      destruct T as (T1 & T2 & T3). split; [cbn; auto|].
      rewrite E8. subst g c.
      destruct (hub s (a_ch a)) as [g'|] eqn:EH.
      * destruct (N.eqb_spec g' (a_own a)); [rewrite upd_same; discriminate|].
        rewrite EH. intros [= ->]. congruence.
      * rewrite EH. discriminate.
  - (* PErrGate *)
    pose proof (close_cap_core (a_cap a) s) as HC. cbn in HC.
    destruct HC as (E1 & E2 & E4 & E5 & E6 & E7 & E8 & _).
    assert (I1 : Inv (close_cap (a_cap a) s)).
    { apply Inv_close_cap; auto. intros g Hc. destruct (a_owned a).
      - destruct OK as [Hg Cap]. rewrite (Cap _ Hc), Hg. exact Logic.I.
      - destruct OK as [_ Cn]. congruence. }
    unfold Inv in I1. rewrite E1, E2, E4, E5, E6, E7, E8 in I1.
    inv H. destruct (a_owned a) eqn:EO; core; rewrite ?E1, ?E2, ?E4, ?E5, ?E6, ?E7, ?E8.
    + destruct OK as [Hg Cap]. eapply P_dead; [exact I1|exact Hg| |].
      * rewrite ET. cbn. rewrite EPC. auto.
      * cbn. auto.
    + destruct OK as [Hg Cn]. apply P_thread; auto; try congruence.
      * cbn. auto.
      * intros g c Hg'. exfalso. destruct (att_res s t a I ET _ _ Hg') as (_ & _ & A). rewrite EPC in A. auto.
      * intros g c Hg'. exfalso. pose proof (att_tear s t a I ET _ _ Hg') as T. cbn in T. rewrite EPC in T.
        destruct T as (_ & _ & T). congruence.
  - (* PErrOut *)
    assert (NR : forall g c, gst s g = GRes t c -> False).
    { intros g c Hg'. destruct (att_res s t a I ET _ _ Hg') as (_ & _ & A). rewrite EPC in A. auto. }
    assert (NT : forall g c, gst s g = GTear t c -> False).
    { intros g c Hg'. pose proof (att_tear s t a I ET _ _ Hg') as T. cbn in T. rewrite EPC in T. tauto. }
    destruct (negb (is_srv (a_kind a)) && a_disc a); inv H; core.
    + assert (FR : thr s (2 * next_int s + 1) = None) by (eapply fresh_int; eauto).
      assert (NE : t <> 2 * next_int s + 1) by (intros E; rewrite <- E in FR; congruence).
      unfold new_close.
      apply P_thread; [ | rewrite upd_other; [congruence|auto] | cbn; auto
                      | intros g c Hg'; exfalso; eauto | intros g c Hg'; exfalso; eauto].
      eapply P_spawn; [exact I | exact FR | lia | lia | right; exists (next_int s); split; auto; lia | cbn; auto].
    + apply P_thread; [exact I | congruence | cbn; auto
                      | intros g c Hg'; exfalso; eauto | intros g c Hg'; exfalso; eauto].
Qed.

(* ---- unsubscribe(channel), run by an unsubscribe thread or inline by the close thread ---- *)
Record emb_ok (emb : option urec -> option thread) : Prop := {
  e_ok : forall gs t u, thread_ok gs t (emb (Some u)) <-> u_ok gs t u;
  e_tear : forall u g c, tearing (emb (Some u)) g c <-> u_tear u g c;
  e_pre : forall u g, pre_hubrem (emb (Some u)) g <-> u_pre u g;
  e_nores : forall o g c, ~ holds_resv (emb o) g c;
  e_noadd : forall o, ~ hub_added (emb o);
  e_ok0 : forall gs t, thread_ok gs t (emb None);
  e_tear0 : forall g c, ~ tearing (emb None) g c;
  e_pre0 : forall g, ~ pre_hubrem (emb None) g;
  e_some : forall u, emb (Some u) <> None
}.

Lemma emb_uns : emb_ok (fun o => match o with Some u => Some (TUns u) | None => None end).
Proof. constructor; cbn; intros; try tauto; try congruence; destruct o; cbn; tauto. Qed.

Lemma emb_cls prev rest : emb_ok (fun o => Some (TCls (mkC CLoop prev rest o))).
Proof.
  constructor; cbn; intros; try tauto; try congruence; try (destruct o; cbn; tauto).
Qed.

Section UStep.
  Variables (emb : option urec -> option thread) (s : st) (t : tid) (u : urec).
  Hypothesis E : emb_ok emb.
  Hypothesis I : Inv s.
  Hypothesis ET : thr s t = emb (Some u).

  Lemma u_nores g c : gst s g = GRes t c -> False.
  Proof.
    intros H. destruct (i_res _ _ _ _ _ _ _ _ I _ _ _ H) as (_ & _ & C). rewrite ET in C.
    eapply (e_nores _ E); eauto.
  Qed.
  Lemma u_tearing g c : gst s g = GTear t c -> u_tear u g c.
  Proof.
    intros H. pose proof (i_tear _ _ _ _ _ _ _ _ I _ _ _ H) as T. rewrite ET in T.
    apply (e_tear _ E) in T. exact T.
  Qed.
  Lemma u_okk : u_ok (gst s) t u.
  Proof. apply (e_ok _ E). rewrite <- ET. apply (i_thr _ _ _ _ _ _ _ _ I). Qed.
  Lemma u_ne : thr s t <> None.
  Proof. rewrite ET. apply (e_some _ E). Qed.

  (* a step that only changes the unsubscribe record *)
  Lemma u_thread_only u' :
    u_ok (gst s) t u' ->
    (forall g c, u_tear u g c -> gst s g = GTear t c ->
       u_tear u' g c /\ (hub s c = Some g -> u_pre u' g)) ->
    InvC (chans s) (genctr s) (gclosed s) (gst s) (hub s) (upd (thr s) t (emb (Some u')))
         (next_ext s) (next_int s).
  Proof.
    intros OK T. apply P_thread; auto.
    - apply u_ne.
    - apply (e_ok _ E). exact OK.
    - intros g c Hg. exfalso. eapply u_nores; eauto.
    - intros g c Hg. destruct (T g c (u_tearing _ _ Hg) Hg) as [A B]. split.
      + apply (e_tear _ E). exact A.
      + intros Hh. apply (e_pre _ E). auto.
  Qed.

  Lemma u_thread_end :
    (forall g c, u_tear u g c -> gst s g = GTear t c -> False) ->
    InvC (chans s) (genctr s) (gclosed s) (gst s) (hub s) (upd (thr s) t (emb None))
         (next_ext s) (next_int s).
  Proof.
    intros T. apply P_thread; auto.
    - apply u_ne.
    - apply (e_ok0 _ E).
    - intros g c Hg. exfalso. eapply u_nores; eauto.
    - intros g c Hg. exfalso. eapply T; eauto. apply u_tearing; auto.
  Qed.
End UStep.

Lemma u_step_inv emb s t u b s' ou :
  emb_ok emb -> Inv s -> thr s t = emb (Some u) -> u_step s t u b = Some (s', ou) ->
  InvC (chans s') (genctr s') (gclosed s') (gst s') (hub s') (upd (thr s') t (emb ou))
       (next_ext s') (next_int s').
Proof.
  intros E I ET H. unfold u_step in H.
  pose proof (u_okk emb s t u E I ET) as OK. unfold u_ok in OK.
  destruct (u_pc u) eqn:EPC.
  - (* UStart *)
    destruct (is_closed (status s)); inv H.
    + eapply u_thread_end; eauto. unfold u_tear. rewrite EPC. tauto.
    + eapply u_thread_only; eauto; unfold u_ok, u_tear; cbn; rewrite ?EPC; tauto.
  - (* USnap *)
    destruct (lookup (u_ch u) (chans s)) as [x|] eqn:L.
    + pose proof (i_chans _ _ _ _ _ _ _ _ I _ _ L) as CX.
      destruct (negb (c_srv x) && negb (c_sub x) && c_gate x) eqn:EW; inv H.
      * eapply u_thread_only; eauto; unfold u_ok, u_tear; cbn; rewrite ?EPC; tauto.
      * eapply u_thread_only; eauto; unfold u_ok, u_tear; cbn; rewrite ?EPC; try tauto.
        destruct (c_sub x).
        -- destruct CX as [-> _]. exact Logic.I.
        -- destruct CX as (G1 & G2 & _). rewrite G1, G2 in EW. discriminate.
    + inv H. eapply u_thread_end; eauto. unfold u_tear. rewrite EPC. tauto.
  - (* UWait *)
    destruct (gclosed s (u_wg u)) eqn:GC; [|discriminate].
    pose proof (i_gcl _ _ _ _ _ _ _ _ I _ GC) as PC. rewrite OK in PC.
    destruct (lookup (u_ch u) (chans s)) as [x|]; inv H.
    + eapply u_thread_only; eauto; unfold u_ok, u_tear; cbn; rewrite ?EPC; tauto.
    + eapply u_thread_end; eauto. unfold u_tear. rewrite EPC. tauto.
  - (* UDelete *)
    destruct (lookup (u_ch u) (chans s)) as [x|] eqn:L.
    + destruct (N.eqb_spec (c_gen x) (u_tgt u)) as [EG|NG].
      * pose proof (i_chans _ _ _ _ _ _ _ _ I _ _ L) as CX.
        assert (SX : c_sub x = true).
        { destruct (c_sub x); auto. destruct CX as (_ & _ & t1 & E1). rewrite <- EG, E1 in OK. destruct OK. }
        rewrite SX in CX. destruct CX as [GL CG]. rewrite CG in H. inv H. core.
        eapply P_delete with (x := x); [exact I|exact L|reflexivity|left; exact GL|eapply u_ne; eauto| | | | |].
        -- apply (e_ok _ E). unfold u_ok. cbn. rewrite upd_same. reflexivity.
        -- apply (e_tear _ E). unfold u_tear. cbn. auto.
        -- apply (e_pre _ E). unfold u_pre. cbn. auto.
        -- intros g' c' _ Hg. eapply u_nores; eauto.
        -- intros g' c' Hg. pose proof (u_tearing emb s t u E I ET _ _ Hg) as T. unfold u_tear in T.
           rewrite EPC in T. tauto.
      * inv H. eapply u_thread_end; eauto. unfold u_tear. rewrite EPC. tauto.
    + inv H. eapply u_thread_end; eauto. unfold u_tear. rewrite EPC. tauto.
  - (* UPres *)
    inv H. destruct (c_sub (u_ctx u) && o_pres (c_opts (u_ctx u))); core;
      (eapply u_thread_only; eauto; unfold u_ok, u_tear, u_pre; cbn; rewrite ?EPC; tauto).
  - (* ULeave *)
    inv H. destruct (c_sub (u_ctx u) && o_jl (c_opts (u_ctx u))); core;
      (eapply u_thread_only; eauto; unfold u_ok, u_tear, u_pre; cbn; rewrite ?EPC; tauto).
  - (* UHubRem *)
    destruct (slock s (u_ch u)); [discriminate|]. inv H.
    assert (I1 : Inv (hubrem (u_ch u) (u_rm u) s)).
    { apply Inv_hubrem; auto; rewrite OK; congruence. }
    pose proof (hubrem_core (u_ch u) (u_rm u) s) as HC. cbn in HC.
    destruct HC as (E1 & E2 & E3 & E4 & E5 & E6 & E7 & E8).
    unfold Inv in I1. rewrite E1, E2, E3, E4, E6, E7 in *. rewrite E5 in I1 |- *.
    apply P_thread; [exact I1|eapply u_ne; eauto| | |].
    + apply (e_ok _ E). unfold u_ok. cbn. exact OK.
    + intros g c Hg. exfalso. eapply u_nores; eauto.
    + intros g c Hg. pose proof (u_tearing emb s t u E I ET _ _ Hg) as T. unfold u_tear in T.
      destruct T as (T1 & T2 & _). split.
      * apply (e_tear _ E). unfold u_tear. cbn. auto.
      * rewrite E8. subst g c.
        destruct (hub s (u_ch u)) as [g'|] eqn:EH.
        -- destruct (N.eqb_spec g' (u_rm u)); [rewrite upd_same; discriminate|].
           rewrite EH. intros [= ->]. congruence.
        -- rewrite EH. discriminate.
  - (* UHandler *)
    inv H. destruct (c_sub (u_ctx u)); [destruct (hreg s)|]; core;
      (eapply P_dead; [exact I|exact OK| |apply (e_ok0 _ E)];
       rewrite ET; intros P; apply (e_pre _ E) in P; unfold u_pre in P; rewrite EPC in P; tauto).
Qed.

(* ---- threads the ghost state never refers to ---- *)
Lemma plain_update s t o' :
  Inv s -> thr s t <> None ->
  (forall g c, ~ holds_resv (thr s t) g c) -> (forall g c, ~ tearing (thr s t) g c) ->
  thread_ok (gst s) t o' ->
  InvC (chans s) (genctr s) (gclosed s) (gst s) (hub s) (upd (thr s) t o') (next_ext s) (next_int s).
Proof.
  intros I Ht NR NT OK. apply P_thread; auto.
  - intros g c Hg. exfalso. destruct (i_res _ _ _ _ _ _ _ _ I _ _ _ Hg) as (_ & _ & C). eapply NR; eauto.
  - intros g c Hg. exfalso. eapply NT. apply (i_tear _ _ _ _ _ _ _ _ I _ _ _ Hg).
Qed.

Ltac split_ifs := repeat (match goal with |- context [if ?c then _ else _] => destruct c end; core).
Ltac plain ET := split_ifs; (apply plain_update; [assumption | congruence | intros ? ?; rewrite ET; cbn; tauto
                                     | intros ? ?; rewrite ET; cbn; tauto | cbn; auto]).

Lemma tck_step_inv s t k b s' :
  Inv s -> thr s t = Some (TTck k) -> tck_step s t k b = Some s' -> Inv s'.
Proof.
  intros I ET H. unfold tck_step in H. destruct b.
  all: destruct (t_pc k);
    repeat match type of H with
    | (if ?c then _ else _) = _ => destruct c
    | match ?l with [] => _ | _ :: _ => _ end = _ => destruct l
    | match ?o with Some _ => _ | None => _ end = _ => destruct o
    end; try discriminate; inv H; core; plain ET.
Qed.

Lemma con_step_inv s t pc b s' :
  Inv s -> thr s t = Some (TCon pc) -> con_step s t pc b = Some s' -> Inv s'.
Proof.
  intros I ET H. unfold con_step in H.
  destruct pc;
    repeat match type of H with
    | (if ?c then _ else _) = _ => destruct c
    end; try discriminate; inv H; core; try (plain ET; fail).
  (* KCheck of a second connect command / KShut with the shutdown flag set: the thread ends and the
     dispatcher's close() is spawned *)
  all: assert (FR : thr s (2 * next_int s + 1) = None) by (eapply fresh_int; eauto).
  all: assert (NE : t <> 2 * next_int s + 1) by (intros E; rewrite <- E in FR; congruence).
  all: unfold new_close.
  all: apply P_thread; [ | rewrite upd_other; [congruence|auto] | cbn; auto
                  | intros g c Hg; exfalso; destruct (i_res _ _ _ _ _ _ _ _ I _ _ _ Hg) as (_ & _ & C); rewrite ET in C; exact C
                  | intros g c Hg; exfalso; pose proof (i_tear _ _ _ _ _ _ _ _ I _ _ _ Hg) as T; rewrite ET in T; exact T].
  all: eapply P_spawn; [exact I | exact FR | lia | lia | right; exists (next_int s); split; auto; lia | cbn; auto].
Qed.

Lemma job_step_inv s t c b s' :
  Inv s -> thr s t = Some (TJob c) -> job_step s t c b = Some s' -> Inv s'.
Proof.
  intros I ET H. unfold job_step in H. destruct b; inv H; core; plain ET.
Qed.

Lemma cls_step_inv s t k b s' :
  Inv s -> thr s t = Some (TCls k) -> cls_step s t k b = Some s' -> Inv s'.
Proof.
  intros I ET H. unfold cls_step in H.
  pose proof (i_thr _ _ _ _ _ _ _ _ I t) as OK. rewrite ET in OK. cbn in OK.
  destruct (k_pc k) eqn:EPC.
  8:{ (* CLoop *)
    destruct (k_cur k) as [u|] eqn:EC.
    - destruct (u_step s t u b) as [[s1 ou]|] eqn:EU; [|discriminate]. inv H.
      pose proof (u_step_inv _ s t u b s1 ou (emb_cls (k_prev k) (k_rest k)) I) as P.
      core. apply P; auto. rewrite ET. f_equal. f_equal. destruct k; cbn in *. congruence.
    - destruct (k_rest k); [|destruct b]; inv H; core;
        (apply plain_update; [assumption|congruence|intros ? ?; rewrite ET; cbn; tauto
                             |intros ? ?; rewrite ET; cbn; rewrite EC; tauto|cbn; rewrite ?EC; auto]). }
  all: assert (NC : k_cur k = None) by (destruct (k_cur k); auto; destruct OK; congruence).
  all: repeat match type of H with
       | (if ?c then _ else _) = _ => destruct c
       end; try discriminate; inv H; core; split_ifs;
       (apply plain_update; [assumption|congruence|intros ? ?; rewrite ET; cbn; tauto
                            |intros ? ?; rewrite ET; cbn; rewrite NC; tauto|cbn; rewrite ?NC; auto]).
Qed.

Lemma step_thread_inv s t b s' : Inv s -> step_thread s t b = Some s' -> Inv s'.
Proof.
  intros I H. unfold step_thread in H. destruct (thr s t) as [[a|u|k|k|pc|c]|] eqn:ET; try discriminate.
  - eapply att_step_inv; eauto.
  - destruct (u_step s t u b) as [[s1 [u'|]]|] eqn:EU; inv H; core;
      apply (u_step_inv _ s t u b _ _ emb_uns I ET EU).
  - eapply cls_step_inv; eauto.
  - eapply tck_step_inv; eauto.
  - eapply con_step_inv; eauto.
  - eapply job_step_inv; eauto.
Qed.

Lemma InvC_bump cs gc gcl gs hb th ne ni ne' ni' :
  InvC cs gc gcl gs hb th ne ni -> ne <= ne' -> ni <= ni' -> InvC cs gc gcl gs hb th ne' ni'.
Proof.
  intros I L1 L2. destruct I as [A1 A2 A3 A4 A5 A6 A7 A8 A9 A10 A11]. constructor; auto.
  intros t0 H0. specialize (A3 t0 H0).
  destruct A3 as [(k & -> & Hk)|(k & -> & Hk)]; [left|right]; exists k; split; auto; lia.
Qed.

Lemma spawn_inv s o s' : Inv s -> spawn s o = Some s' -> Inv s'.
Proof.
  intros I H. unfold spawn in H.
  assert (FR : thr s (2 * next_ext s) = None) by (eapply fresh_ext; eauto).
  assert (TOK : tid_ok (next_ext s + 1) (next_int s) (2 * next_ext s))
    by (left; exists (next_ext s); split; auto; lia).
  destruct o;
    repeat match type of H with
    | (if ?c then _ else _) = _ => destruct c
    end; try discriminate; inv H; core;
    try (eapply P_spawn; [exact I|exact FR|lia|lia|exact TOK|cbn; auto]; fail).
  (* OShutdown: no thread of its own; closes the connection if it is registered *)
  destruct (reg s); core.
  - eapply P_spawn; [exact I|eapply fresh_int; eauto|lia|lia|right; exists (next_int s); split; auto; lia|cbn; auto].
  - eapply InvC_bump; [exact I|lia|lia].
Qed.

Lemma astep_inv s l s' : Inv s -> is_timeout l = false -> astep s l = Some s' -> Inv s'.
Proof.
  intros I NT H. destruct l; cbn in *; try discriminate.
  - eapply spawn_inv; eauto.
  - eapply step_thread_inv; eauto.
  - (* LJobStart *)
    unfold job_start in H. destruct (mem c (jobs s) && negb (slock s c)); [|discriminate].
    destruct (subscribers s c); inv H; core; auto.
    eapply P_spawn; [exact I|eapply fresh_int; eauto|lia|lia|right; exists (next_int s); split; auto; lia|cbn; auto].
  - unfold other_add in H. destruct (slock s c); [discriminate|].
    destruct (subscribers s c); [|destruct b]; inv H; core; auto.
  - unfold other_rem in H. destruct (slock s c || (others s c =? 0)); [discriminate|].
    destruct ((others s c =? 1) && match hub s c with None => true | Some _ => false end); inv H; core; auto.
Qed.

Theorem exec_inv l : forall s s', Inv s -> no_timeout l = true -> exec l s = Some s' -> Inv s'.
Proof.
  induction l as [|x l IH]; cbn; intros s s' I NT H.
  - inv H. auto.
  - apply andb_true_iff in NT. destruct NT as [N1 N2].
    destruct (astep s x) as [s1|] eqn:E; [|discriminate].
    apply (IH s1 s'); auto. eapply astep_inv; eauto. destruct (is_timeout x); auto; discriminate.
Qed.
