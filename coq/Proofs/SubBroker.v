(* C26: broker subscription tracks local interest.  Invariant over ALL schedules of
   Model/SubLifecycle.v (timeouts included): subLock(ch) makes {hub add + Broker.Subscribe}
   and {dissolver job re-check + Broker.Unsubscribe} atomic w.r.t. each other.

   The invariant reads slock, hub, others, bsub, jobs, thr, next_ext, next_int only. *)
From Coq Require Import List NArith ZArith Bool Lia.
From Cfg Require Import Model.SubLifecycle Proofs.SubLifecycleLib.
Import ListNotations.
Open Scope N_scope.

(* thread [o] is inside a subLock(c) section, parked at the broker call *)
Definition holder (o : option thread) (c : ch) : Prop :=
  match o with
  | Some (TAtt a) => a_pc a = PHubAdd2 /\ a_ch a = c
  | Some (TJob c') => c' = c
  | _ => False
  end.

Definition subs (hb : ch -> option gen) (ot : ch -> N) (c : ch) : bool :=
  match hb c with Some _ => true | None => negb (ot c =? 0) end.

Section Components.
  Variables (sl : ch -> bool) (hb : ch -> option gen) (ot : ch -> N) (bs : ch -> bool)
            (jb : list ch) (th : tid -> option thread) (ne ni : N).

  Definition tid_ok (t : tid) : Prop :=
    (exists k, t = 2 * k /\ k < ne) \/ (exists k, t = 2 * k + 1 /\ k < ni).

  Record InvB : Prop := {
    b_tids : forall t, th t <> None -> tid_ok t;
    b_held : forall t c, holder (th t) c -> sl c = true;
    b_one : forall t t' c, holder (th t) c -> holder (th t') c -> t = t';
    b_lock : forall c, sl c = true -> exists t, holder (th t) c;
    b_att : forall t a, th t = Some (TAtt a) -> a_pc a = PHubAdd2 ->
              hb (a_ch a) = Some (a_use a) /\ ot (a_ch a) = 0 /\ (bs (a_ch a) = true -> In (a_ch a) jb);
    b_job : forall t c, th t = Some (TJob c) -> subs hb ot c = false;
    (* the property: local subscribers and no section in flight => broker-subscribed *)
    b_safe : forall c, sl c = false -> subs hb ot c = true -> bs c = true;
    (* broker-subscribed without subscribers => an unsubscribe job is queued *)
    b_job_queued : forall c, sl c = false -> bs c = true -> subs hb ot c = false -> In c jb
  }.
End Components.

Definition InvBS (s : st) : Prop :=
  InvB (slock s) (hub s) (others s) (bsub s) (jobs s) (thr s) (next_ext s) (next_int s).

Lemma InvBS_init : InvBS init.
Proof.
  unfold InvBS, init; cbn. constructor; cbn; unfold subs; cbn; intros; try congruence; try tauto; try discriminate.
Qed.

Lemma upd_eq {V} (f : N -> V) k v x : upd f k v x = if x =? k then v else f x.
Proof. reflexivity. Qed.
Ltac dtid t0 t := destruct (N.eqb_spec t0 t); [subst t0|].

Lemma subs_upd_hub_other hb ot c c' v : c' <> c -> subs (upd hb c v) ot c' = subs hb ot c'.
Proof. intros. unfold subs. rewrite upd_other; auto. Qed.

(* Q1: thread t changes between non-holder states (or ends) *)
Lemma Q_thread sl hb ot bs jb th ne ni t o' :
  InvB sl hb ot bs jb th ne ni ->
  th t <> None -> (forall c, ~ holder (th t) c) -> (forall c, ~ holder o' c) ->
  InvB sl hb ot bs jb (upd th t o') ne ni.
Proof.
  intros I Ht NH NH'. destruct I. constructor; auto.
  - intros t0. rewrite upd_eq. dtid t0 t; auto.
  - intros t0 c. rewrite upd_eq. dtid t0 t; [intros H; exfalso; eapply NH'; eauto|eauto].
  - intros t0 t1 c. rewrite !upd_eq. dtid t0 t; [intros H; exfalso; eapply NH'; eauto|].
    dtid t1 t; [intros _ H; exfalso; eapply NH'; eauto|eauto].
  - intros c H. destruct (b_lock0 c H) as (t0 & Ht0). exists t0. rewrite upd_eq.
    dtid t0 t; auto. exfalso. eapply NH; eauto.
  - intros t0 a. rewrite upd_eq. dtid t0 t; [|eauto].
    intros E P. exfalso. apply (NH' (a_ch a)). rewrite E. cbn. auto.
  - intros t0 c. rewrite upd_eq. dtid t0 t; [|eauto].
    intros E. exfalso. apply (NH' c). rewrite E. cbn. auto.
Qed.

(* Q2: a new non-holder thread at a fresh tid *)
Lemma Q_spawn sl hb ot bs jb th ne ni ne' ni' t x :
  InvB sl hb ot bs jb th ne ni ->
  th t = None -> ne <= ne' -> ni <= ni' -> tid_ok ne' ni' t -> (forall c, ~ holder (Some x) c) ->
  InvB sl hb ot bs jb (upd th t (Some x)) ne' ni'.
Proof.
  intros I Ht Hne Hni Htid NH. destruct I. constructor; auto.
  - intros t0. rewrite upd_eq. dtid t0 t; auto. intros H. specialize (b_tids0 t0 H).
    destruct b_tids0 as [(k & -> & Hk)|(k & -> & Hk)]; [left|right]; exists k; split; auto; lia.
  - intros t0 c. rewrite upd_eq. dtid t0 t; [intros H; exfalso; eapply NH; eauto|eauto].
  - intros t0 t1 c. rewrite !upd_eq. dtid t0 t; [intros H; exfalso; eapply NH; eauto|].
    dtid t1 t; [intros _ H; exfalso; eapply NH; eauto|eauto].
  - intros c H. destruct (b_lock0 c H) as (t0 & Ht0). exists t0. rewrite upd_eq.
    dtid t0 t; auto. rewrite Ht in Ht0. destruct Ht0.
  - intros t0 a. rewrite upd_eq. dtid t0 t; [|eauto].
    intros E P. exfalso. apply (NH (a_ch a)). inv E. cbn. auto.
  - intros t0 c. rewrite upd_eq. dtid t0 t; [|eauto].
    intros E. exfalso. apply (NH c). inv E. cbn. auto.
Qed.

Lemma fresh_ext_b sl hb ot bs jb th ne ni : InvB sl hb ot bs jb th ne ni -> th (2 * ne) = None.
Proof.
  intros I. destruct (th (2 * ne)) eqn:E; auto. exfalso.
  assert (H : th (2 * ne) <> None) by congruence.
  destruct (b_tids _ _ _ _ _ _ _ _ I _ H) as [(k & Hk & Hl)|(k & Hk & Hl)]; lia.
Qed.
Lemma fresh_int_b sl hb ot bs jb th ne ni : InvB sl hb ot bs jb th ne ni -> th (2 * ni + 1) = None.
Proof.
  intros I. destruct (th (2 * ni + 1)) eqn:E; auto. exfalso.
  assert (H : th (2 * ni + 1) <> None) by congruence.
  destruct (b_tids _ _ _ _ _ _ _ _ I _ H) as [(k & Hk & Hl)|(k & Hk & Hl)]; lia.
Qed.

(* no holder on a channel whose lock is free *)
Lemma free_no_holder sl hb ot bs jb th ne ni c t :
  InvB sl hb ot bs jb th ne ni -> sl c = false -> ~ holder (th t) c.
Proof. intros I F H. rewrite (b_held _ _ _ _ _ _ _ _ I _ _ H) in F. discriminate. Qed.

(* Q3: hub.addSub when the channel already has subscribers (no broker call, lock released at once) *)
Lemma Q_hubadd_more sl hb ot bs jb th ne ni c g :
  InvB sl hb ot bs jb th ne ni -> sl c = false -> subs hb ot c = true ->
  InvB sl (upd hb c (Some g)) ot bs jb th ne ni.
Proof.
  intros I F S. pose proof I as I0. destruct I. constructor; auto.
  - intros t a E P. destruct (b_att0 t a E P) as (A & B & C).
    assert (a_ch a <> c).
    { intros <-. eapply free_no_holder with (t := t); eauto. rewrite E. cbn. auto. }
    rewrite upd_other; auto.
  - intros t c0 E. pose proof (b_job0 t c0 E) as J.
    assert (c0 <> c).
    { intros ->. eapply free_no_holder with (t := t); eauto. rewrite E. cbn. auto. }
    rewrite subs_upd_hub_other; auto.
  - intros c0 F0. destruct (N.eqb_spec c0 c); subst; [intros _; apply b_safe0; auto|].
    rewrite subs_upd_hub_other; auto.
  - intros c0 F0 B. destruct (N.eqb_spec c0 c); subst.
    + unfold subs. rewrite upd_same. discriminate.
    + rewrite subs_upd_hub_other; auto.
Qed.

(* Q4: first subscriber: hub.addSub, the lock stays held across Broker.Subscribe *)
Lemma Q_hubadd_first sl hb ot bs jb th ne ni c t a a' :
  InvB sl hb ot bs jb th ne ni -> sl c = false -> subs hb ot c = false ->
  th t = Some (TAtt a) -> a_pc a <> PHubAdd2 ->
  a_pc a' = PHubAdd2 -> a_ch a' = c ->
  InvB (upd sl c true) (upd hb c (Some (a_use a'))) ot bs jb (upd th t (Some (TAtt a'))) ne ni.
Proof.
  intros I F S Ht Hpc Hpc' Hch. pose proof I as I0. destruct I.
  assert (OT : ot c = 0 /\ hb c = None).
  { unfold subs in S. destruct (hb c); [discriminate|]. split; auto.
    destruct (N.eqb_spec (ot c) 0); auto. discriminate. }
  assert (NHt : forall c0, ~ holder (th t) c0) by (intros c0; rewrite Ht; cbn; tauto).
  constructor.
  - intros t0. rewrite upd_eq. dtid t0 t; [intros _; apply b_tids0; congruence|auto].
  - intros t0 c0. rewrite !upd_eq. dtid t0 t.
    + cbn. intros [_ <-]. rewrite Hch, N.eqb_refl. auto.
    + intros H. destruct (N.eqb_spec c0 c); eauto.
  - intros t0 t1 c0. rewrite !upd_eq. dtid t0 t; dtid t1 t; auto.
    + cbn. intros [_ E] H. exfalso. rewrite Hch in E. subst c0.
      eapply free_no_holder with (t := t1); eauto.
    + cbn. intros H [_ E]. exfalso. rewrite Hch in E. subst c0.
      eapply free_no_holder with (t := t0); eauto.
    + eauto.
  - intros c0. rewrite upd_eq. destruct (N.eqb_spec c0 c); subst.
    + intros _. exists t. rewrite upd_same. cbn. auto.
    + intros H. destruct (b_lock0 c0 H) as (t0 & H0). exists t0. rewrite upd_eq.
      dtid t0 t; auto. exfalso. eapply NHt; eauto.
  - intros t0 a0. rewrite upd_eq. dtid t0 t.
    + intros [= <-] _. rewrite Hch, upd_same. destruct OT. repeat split; auto.
    + intros E P. destruct (b_att0 t0 a0 E P) as (A & B & C).
      assert (a_ch a0 <> c).
      { intros <-. eapply free_no_holder with (t := t0); eauto. rewrite E. cbn. auto. }
      rewrite upd_other; auto.
  - intros t0 c0. rewrite upd_eq. dtid t0 t; [discriminate|].
    intros E. pose proof (b_job0 t0 c0 E) as J.
    assert (c0 <> c).
    { intros ->. eapply free_no_holder with (t := t0); eauto. rewrite E. cbn. auto. }
    rewrite subs_upd_hub_other; auto.
  - intros c0. rewrite upd_eq. destruct (N.eqb_spec c0 c); subst; [discriminate|].
    intros F0. rewrite subs_upd_hub_other; auto.
  - intros c0. rewrite upd_eq. destruct (N.eqb_spec c0 c); subst; [discriminate|].
    intros F0 B. rewrite subs_upd_hub_other; auto.
Qed.

(* release helper: thread t (the holder of c) leaves the section *)
Lemma release_common sl hb ot bs jb th ne ni c t o' :
  InvB sl hb ot bs jb th ne ni -> holder (th t) c -> (forall c0, ~ holder o' c0) ->
  (forall t0, th t0 <> None -> tid_ok ne ni t0) /\
  (forall t0 c0, holder (upd th t o' t0) c0 -> upd sl c false c0 = true) /\
  (forall t0 t1 c0, holder (upd th t o' t0) c0 -> holder (upd th t o' t1) c0 -> t0 = t1) /\
  (forall c0, upd sl c false c0 = true -> exists t0, holder (upd th t o' t0) c0) /\
  (forall t0, t0 <> t -> ~ holder (th t0) c).
Proof.
  intros I H NH. destruct I. repeat split; auto.
  - intros t0 c0. rewrite !upd_eq. dtid t0 t; [intros X; exfalso; eapply NH; eauto|].
    intros X. destruct (N.eqb_spec c0 c); subst; [exfalso; apply n; eauto|eauto].
  - intros t0 t1 c0. rewrite !upd_eq. dtid t0 t; [intros X; exfalso; eapply NH; eauto|].
    dtid t1 t; [intros _ X; exfalso; eapply NH; eauto|eauto].
  - intros c0. rewrite upd_eq. destruct (N.eqb_spec c0 c); [discriminate|].
    intros X. destruct (b_lock0 c0 X) as (t0 & H0). exists t0. rewrite upd_eq. dtid t0 t; auto.
    exfalso. apply n. clear - H H0. destruct (th t) as [[a| | | | |c1]|]; cbn in *; try tauto; intuition congruence.
  - intros t0 Hne X. apply Hne. eauto.
Qed.

(* Q5: Broker.Subscribe succeeded *)
Lemma Q_sub_ok sl hb ot bs jb th ne ni t a o' :
  InvB sl hb ot bs jb th ne ni -> th t = Some (TAtt a) -> a_pc a = PHubAdd2 ->
  (forall c0, ~ holder o' c0) ->
  InvB (upd sl (a_ch a) false) hb ot (upd bs (a_ch a) true) jb (upd th t o') ne ni.
Proof.
  intros I Ht Hpc NH. pose proof I as I0.
  assert (HOLD : holder (th t) (a_ch a)) by (rewrite Ht; cbn; auto).
  destruct (release_common _ _ _ _ _ _ _ _ _ _ _ I HOLD NH) as (R1 & R2 & R3 & R4 & R5).
  destruct I. constructor; auto.
  - intros t0. rewrite upd_eq. dtid t0 t; auto. intros _. apply b_tids0. congruence.
  - intros t0 a0. rewrite upd_eq. dtid t0 t; [intros E0 P0; exfalso; apply (NH (a_ch a0)); rewrite E0; cbn; auto|].
    intros E P. destruct (b_att0 t0 a0 E P) as (A & B & C).
    assert (a_ch a0 <> a_ch a) by (intros X; apply (R5 t0 n); rewrite E; cbn; auto).
    rewrite upd_other; auto.
  - intros t0 c0. rewrite upd_eq. dtid t0 t; [intros E0; exfalso; apply (NH c0); rewrite E0; cbn; auto|eauto].
  - intros c0. rewrite !upd_eq. destruct (N.eqb_spec c0 (a_ch a)); auto.
  - intros c0. rewrite !upd_eq. destruct (N.eqb_spec c0 (a_ch a)); subst; auto.
    intros _ _ S. destruct (b_att0 t a Ht Hpc) as (A & _). unfold subs in S. rewrite A in S. discriminate.
Qed.

(* Q6: Broker.Subscribe failed: the entry just added is removed under the same lock *)
Lemma Q_sub_fail sl hb ot bs jb th ne ni t a o' :
  InvB sl hb ot bs jb th ne ni -> th t = Some (TAtt a) -> a_pc a = PHubAdd2 ->
  (forall c0, ~ holder o' c0) ->
  InvB (upd sl (a_ch a) false) (upd hb (a_ch a) None) ot bs jb (upd th t o') ne ni.
Proof.
  intros I Ht Hpc NH. pose proof I as I0.
  assert (HOLD : holder (th t) (a_ch a)) by (rewrite Ht; cbn; auto).
  destruct (release_common _ _ _ _ _ _ _ _ _ _ _ I HOLD NH) as (R1 & R2 & R3 & R4 & R5).
  destruct I. destruct (b_att0 t a Ht Hpc) as (A & B & C). constructor; auto.
  - intros t0. rewrite upd_eq. dtid t0 t; auto. intros _. apply b_tids0. congruence.
  - intros t0 a0. rewrite upd_eq. dtid t0 t; [intros E0 P0; exfalso; apply (NH (a_ch a0)); rewrite E0; cbn; auto|].
    intros E P. destruct (b_att0 t0 a0 E P) as (A0 & B0 & C0).
    assert (a_ch a0 <> a_ch a) by (intros X; apply (R5 t0 n); rewrite E; cbn; auto).
    rewrite upd_other; auto.
  - intros t0 c0. rewrite upd_eq. dtid t0 t; [intros E0; exfalso; apply (NH c0); rewrite E0; cbn; auto|].
    intros E. pose proof (b_job0 t0 c0 E) as J.
    assert (c0 <> a_ch a) by (intros X; apply (R5 t0 n); rewrite E; cbn; auto).
    rewrite subs_upd_hub_other; auto.
  - intros c0. rewrite upd_eq. destruct (N.eqb_spec c0 (a_ch a)); subst.
    + intros _. unfold subs. rewrite upd_same, B. discriminate.
    + rewrite subs_upd_hub_other; auto.
  - intros c0. rewrite upd_eq. destruct (N.eqb_spec c0 (a_ch a)); subst; auto.
    rewrite subs_upd_hub_other; auto.
Qed.

Lemma in_remove1_other c c0 l : c0 <> c -> (In c0 (remove1 c l) <-> In c0 l).
Proof.
  intros NE. induction l as [|x l IH]; cbn; [tauto|].
  destruct (N.eqb_spec x c); subst; cbn; [intuition congruence|rewrite IH; tauto].
Qed.

(* submitting a job never hurts *)
Lemma Q_submit sl hb ot bs jb th ne ni c :
  InvB sl hb ot bs jb th ne ni -> InvB sl hb ot bs (jb ++ [c]) th ne ni.
Proof.
  intros I. destruct I. constructor; auto.
  - intros t a E P. destruct (b_att0 t a E P) as (A & B & C). repeat split; auto.
    intros X. apply in_or_app. auto.
  - intros c0 F B S. apply in_or_app. auto.
Qed.

(* Q7: hub.removeSub removed this connection's entry (lock free) *)
Lemma Q_hubclear sl hb ot bs jb th ne ni c :
  InvB sl hb ot bs jb th ne ni -> sl c = false ->
  InvB sl (upd hb c None) ot bs (if ot c =? 0 then jb ++ [c] else jb) th ne ni.
Proof.
  intros I F. pose proof I as I0. destruct I.
  assert (J : forall x, In x jb -> In x (if ot c =? 0 then jb ++ [c] else jb)).
  { intros x H. destruct (ot c =? 0); auto. apply in_or_app. auto. }
  constructor; auto.
  - intros t a E P. destruct (b_att0 t a E P) as (A & B & C).
    assert (a_ch a <> c).
    { intros <-. eapply free_no_holder with (t := t); eauto. rewrite E. cbn. auto. }
    rewrite upd_other; auto.
  - intros t c0 E. pose proof (b_job0 t c0 E) as X.
    assert (c0 <> c).
    { intros ->. eapply free_no_holder with (t := t); eauto. rewrite E. cbn. auto. }
    rewrite subs_upd_hub_other; auto.
  - intros c0 F0. destruct (N.eqb_spec c0 c); subst.
    + unfold subs. rewrite upd_same. intros S. apply b_safe0; auto. unfold subs.
      destruct (hb c); auto.
    + rewrite subs_upd_hub_other; auto.
  - intros c0 F0 B. destruct (N.eqb_spec c0 c); subst.
    + unfold subs. rewrite upd_same. intros S. destruct (N.eqb_spec (ot c) 0); [|discriminate].
      apply in_or_app. right. left. auto.
    + rewrite subs_upd_hub_other; auto.
Qed.

(* Q8: a dissolver job finds subscribers and ends without calling the broker *)
Lemma Q_jobdrop sl hb ot bs jb th ne ni c :
  InvB sl hb ot bs jb th ne ni -> sl c = false -> subs hb ot c = true ->
  InvB sl hb ot bs (remove1 c jb) th ne ni.
Proof.
  intros I F S. pose proof I as I0. destruct I. constructor; auto.
  - intros t a E P. destruct (b_att0 t a E P) as (A & B & C). repeat split; auto.
    assert (a_ch a <> c).
    { intros <-. eapply free_no_holder with (t := t); eauto. rewrite E. cbn. auto. }
    intros X. apply in_remove1_other; auto.
  - intros c0 F0 B S0. destruct (N.eqb_spec c0 c); subst; [congruence|].
    apply in_remove1_other; auto.
Qed.

(* Q9: a dissolver job finds no subscriber and calls Broker.Unsubscribe under the lock *)
Lemma Q_jobstart sl hb ot bs jb th ne ni c :
  InvB sl hb ot bs jb th ne ni -> sl c = false -> subs hb ot c = false ->
  InvB (upd sl c true) hb ot bs (remove1 c jb) (upd th (2 * ni + 1) (Some (TJob c))) ne (ni + 1).
Proof.
  intros I F S. pose proof I as I0. pose proof (fresh_int_b _ _ _ _ _ _ _ _ I) as FR. destruct I.
  constructor.
  - intros t0. rewrite upd_eq. dtid t0 (2 * ni + 1).
    + intros _. right. exists ni. split; auto. lia.
    + intros H. destruct (b_tids0 t0 H) as [(k & -> & Hk)|(k & -> & Hk)]; [left|right]; exists k; split; auto; lia.
  - intros t0 c0. rewrite !upd_eq. dtid t0 (2 * ni + 1).
    + cbn. intros ->. rewrite N.eqb_refl. auto.
    + intros H. destruct (N.eqb_spec c0 c); eauto.
  - intros t0 t1 c0. rewrite !upd_eq. dtid t0 (2 * ni + 1); dtid t1 (2 * ni + 1); auto.
    + cbn. intros -> H. exfalso. eapply free_no_holder with (t := t1); eauto.
    + cbn. intros H ->. exfalso. eapply free_no_holder with (t := t0); eauto.
    + eauto.
  - intros c0. rewrite upd_eq. destruct (N.eqb_spec c0 c); subst.
    + intros _. exists (2 * ni + 1). rewrite upd_same. cbn. auto.
    + intros H. destruct (b_lock0 c0 H) as (t0 & H0). exists t0. rewrite upd_eq.
      dtid t0 (2 * ni + 1); auto. rewrite FR in H0. destruct H0.
  - intros t0 a. rewrite upd_eq. dtid t0 (2 * ni + 1); [discriminate|].
    intros E P. destruct (b_att0 t0 a E P) as (A & B & C). repeat split; auto.
    assert (a_ch a <> c).
    { intros <-. eapply free_no_holder with (t := t0); eauto. rewrite E. cbn. auto. }
    intros X. apply in_remove1_other; auto.
  - intros t0 c0. rewrite upd_eq. dtid t0 (2 * ni + 1); [intros [= <-]; auto|eauto].
  - intros c0. rewrite upd_eq. destruct (N.eqb_spec c0 c); [discriminate|auto].
  - intros c0. rewrite upd_eq. destruct (N.eqb_spec c0 c); [discriminate|].
    intros F0 B S0. apply in_remove1_other; auto.
Qed.

(* Q10 / Q11: Broker.Unsubscribe returned *)
Lemma Q_job_ok sl hb ot bs jb th ne ni t c :
  InvB sl hb ot bs jb th ne ni -> th t = Some (TJob c) ->
  InvB (upd sl c false) hb ot (upd bs c false) jb (upd th t None) ne ni.
Proof.
  intros I Ht. pose proof I as I0.
  assert (HOLD : holder (th t) c) by (rewrite Ht; cbn; auto).
  assert (NH : forall c0, ~ holder None c0) by (cbn; tauto).
  destruct (release_common _ _ _ _ _ _ _ _ _ _ _ I HOLD NH) as (R1 & R2 & R3 & R4 & R5).
  destruct I. constructor; auto.
  - intros t0. rewrite upd_eq. dtid t0 t; [congruence|auto].
  - intros t0 a0. rewrite upd_eq. dtid t0 t; [discriminate|].
    intros E P. destruct (b_att0 t0 a0 E P) as (A & B & C).
    assert (a_ch a0 <> c) by (intros X; apply (R5 t0 n); rewrite E; cbn; auto).
    rewrite upd_other; auto.
  - intros t0 c0. rewrite upd_eq. dtid t0 t; [discriminate|eauto].
  - intros c0. rewrite !upd_eq. destruct (N.eqb_spec c0 c); subst; auto.
    intros _ S. rewrite (b_job0 t c Ht) in S. discriminate.
  - intros c0. rewrite !upd_eq. destruct (N.eqb_spec c0 c); subst; auto. discriminate.
Qed.

Lemma Q_job_fail sl hb ot bs jb th ne ni t c :
  InvB sl hb ot bs jb th ne ni -> th t = Some (TJob c) ->
  InvB (upd sl c false) hb ot bs (jb ++ [c]) (upd th t None) ne ni.
Proof.
  intros I Ht. pose proof I as I0.
  assert (HOLD : holder (th t) c) by (rewrite Ht; cbn; auto).
  assert (NH : forall c0, ~ holder None c0) by (cbn; tauto).
  destruct (release_common _ _ _ _ _ _ _ _ _ _ _ I HOLD NH) as (R1 & R2 & R3 & R4 & R5).
  destruct I. constructor; auto.
  - intros t0. rewrite upd_eq. dtid t0 t; [congruence|auto].
  - intros t0 a0. rewrite upd_eq. dtid t0 t; [discriminate|].
    intros E P. destruct (b_att0 t0 a0 E P) as (A & B & C). repeat split; auto.
    intros X. apply in_or_app. auto.
  - intros t0 c0. rewrite upd_eq. dtid t0 t; [discriminate|eauto].
  - intros c0. rewrite !upd_eq. destruct (N.eqb_spec c0 c); subst; auto.
    intros _ S. rewrite (b_job0 t c Ht) in S. discriminate.
  - intros c0. rewrite !upd_eq. destruct (N.eqb_spec c0 c); subst.
    + intros _ _ _. apply in_or_app. right. left. auto.
    + intros F B S. apply in_or_app. auto.
Qed.

(* Q12: other connections *)
Lemma subs_upd_ot_other hb ot c c' v : c' <> c -> subs hb (upd ot c v) c' = subs hb ot c'.
Proof. intros. unfold subs. rewrite upd_other; auto. Qed.

Lemma Q_other_add sl hb ot bs jb th ne ni c :
  InvB sl hb ot bs jb th ne ni -> sl c = false ->
  InvB sl hb (upd ot c (ot c + 1)) (if subs hb ot c then bs else upd bs c true) jb th ne ni.
Proof.
  intros I F. pose proof I as I0. destruct I.
  assert (S1 : subs hb (upd ot c (ot c + 1)) c = true).
  { unfold subs. rewrite upd_same. destruct (hb c); auto. destruct (N.eqb_spec (ot c + 1) 0); auto. lia. }
  assert (BS : forall c0, c0 <> c -> (if subs hb ot c then bs else upd bs c true) c0 = bs c0).
  { intros c0 NE. destruct (subs hb ot c); auto. rewrite upd_other; auto. }
  constructor; auto.
  - intros t a E P. destruct (b_att0 t a E P) as (A & B & C).
    assert (a_ch a <> c).
    { intros <-. eapply free_no_holder with (t := t); eauto. rewrite E. cbn. auto. }
    rewrite upd_other, BS; auto.
  - intros t c0 E. pose proof (b_job0 t c0 E) as X.
    assert (c0 <> c).
    { intros ->. eapply free_no_holder with (t := t); eauto. rewrite E. cbn. auto. }
    rewrite subs_upd_ot_other; auto.
  - intros c0 F0. destruct (N.eqb_spec c0 c); subst.
    + intros _. destruct (subs hb ot c) eqn:S0; [apply b_safe0; auto|apply upd_same].
    + rewrite subs_upd_ot_other, BS; auto.
  - intros c0 F0. destruct (N.eqb_spec c0 c); subst.
    + intros _ S. congruence.
    + rewrite subs_upd_ot_other, BS; auto.
Qed.

Lemma Q_other_rem sl hb ot bs jb th ne ni c :
  InvB sl hb ot bs jb th ne ni -> sl c = false -> ot c <> 0 ->
  InvB sl hb (upd ot c (ot c - 1)) bs
       (if (ot c =? 1) && match hb c with None => true | Some _ => false end then jb ++ [c] else jb) th ne ni.
Proof.
  intros I F NZ. pose proof I as I0. destruct I.
  set (jb' := if (ot c =? 1) && match hb c with None => true | Some _ => false end then jb ++ [c] else jb).
  assert (J : forall x, In x jb -> In x jb').
  { intros x H. unfold jb'. destruct ((ot c =? 1) && _); auto. apply in_or_app. auto. }
  constructor; auto.
  - intros t a E P. destruct (b_att0 t a E P) as (A & B & C).
    assert (a_ch a <> c).
    { intros <-. eapply free_no_holder with (t := t); eauto. rewrite E. cbn. auto. }
    rewrite upd_other; auto.
  - intros t c0 E. pose proof (b_job0 t c0 E) as X.
    assert (c0 <> c).
    { intros ->. eapply free_no_holder with (t := t); eauto. rewrite E. cbn. auto. }
    rewrite subs_upd_ot_other; auto.
  - intros c0 F0. destruct (N.eqb_spec c0 c); subst.
    + intros _. apply b_safe0; auto. unfold subs. destruct (hb c); auto.
      destruct (N.eqb_spec (ot c) 0); [contradiction|auto].
    + rewrite subs_upd_ot_other; auto.
  - intros c0 F0 B. destruct (N.eqb_spec c0 c); subst.
    + unfold subs. rewrite upd_same. intros S. unfold jb'.
      destruct (hb c); [discriminate|]. destruct (N.eqb_spec (ot c - 1) 0); [|discriminate].
      assert (ot c = 1) by lia. rewrite H, N.eqb_refl. cbn. apply in_or_app. right. left. auto.
    + rewrite subs_upd_ot_other; auto.
Qed.
