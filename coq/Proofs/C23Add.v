(* C23 core domain: map_broker_add.lua (shallow) specialised to the KEYS/ARGV that Publish / Remove
   build for a persistent unordered channel without idempotency, versions, key modes, CAS and TTLs,
   and the effect of each specialised program on the Redis model. *)
From Coq Require Import List NArith ZArith Bool String Ascii Lia.
From Cfg Require Import Model.RStr Model.LuaNum Model.Redis Model.RedisScripts Model.MapApi23 Model.MemMap23
                        Model.RedisMapBroker Model.RedisMapScripts
                        Proofs.C18Lib Proofs.C18Redis Proofs.C23Redis Proofs.C23Lib.
From Cfg Require Proofs.C18Stream Proofs.C18StreamP.
Import ListNotations.
Open Scope string_scope.

(* ---------- shared fragments ---------- *)
Definition wipe_check (ch epoch : string) : M bool :=
  dom n <- rc ["hlen"; k_state ch] ;;
  match n with
  | RInt z =>
      if (0 <? z)%Z then
        dom se <- rc ["hget"; k_smeta ch; "epoch"] ;;
        match se with
        | RBulk s => ret (negb (String.eqb s epoch))
        | RNil => ret true
        | _ => unreachable
        end
      else ret false
  | _ => unreachable
  end.

Definition wipe_do (ch : string) (wipe : bool) : M unit :=
  if wipe then
    dom _ <- rc ["del"; k_state ch] ;;
    dom _ <- when_ false (rc ["del"; ""]) ;;
    dom _ <- when_ true (rc ["del"; k_expire ch]) ;;
    dom _ <- when_ true (rc ["del"; k_smeta ch]) ;;
    when_ false (rc ["zrem"; ""; ""])
  else ret tt.

Definition incr_top (ch epoch : string) : M (string * Z) :=
  dom topr <- rc ["hincrby"; k_meta ch; "s"; "1"] ;;
  match topr with
  | RInt topz => ret (epoch, round53 topz)
  | _ => unreachable
  end.

Definition stream_block (ch epoch payload size sttl : string) (top : Z) : M unit :=
  dom _ <- when_ (top =? 1)%Z (rc ["del"; k_stream ch]) ;;
  dom tops <- num_arg top ;;
  dom _ <- rc ["xadd"; k_stream ch; "MAXLEN"; "~"; size; tops; "e"; epoch; "d"; payload] ;;
  dom st <- num_of sttl ;;
  if (0 <? st)%Z then dom sts <- num_arg st ;; dom _ <- rc ["pexpire"; k_stream ch; sts] ;; ret tt else ret tt.

Definition pub_msg (prev : option string) (top : Z) (epoch payload : string) : string :=
  match prev with
  | Some pv => "d:" ++ lua_num2str top ++ ":" ++ epoch ++ ":" ++ lua_num2str (Z.of_N (slen pv)) ++ ":" ++ pv
               ++ ":" ++ lua_num2str (Z.of_N (slen payload)) ++ ":" ++ payload
  | None => lua_num2str top ++ ":" ++ epoch ++ ":" ++ payload
  end.

Definition core_unkeyed (ch payload size sttl nonce now_s : string) : M reply :=
  dom now <- num_of now_s ;;
  dom et <- (dom epoch <- current_epoch (k_meta ch) nonce ;; incr_top ch epoch) ;;
  let '(epoch, top) := et in
  dom _ <- stream_block ch epoch payload size sttl top ;;
  dom _ <- when_ true (rc ["PUBLISH"; m_channel ch; pub_msg None top epoch payload]) ;;
  finish (RArr [RInt top; RBulk epoch; RBulk ""]).

Lemma core_unkeyed_eq ch payload size sttl nonce now_s (delta : bool) vep score refresh :
  sh_map_add [k_stream ch; k_meta ch; ""; ""; ""; ""; ""; ""]
             [""; payload; size; sttl; m_channel ch; "0"; nonce; "PUBLISH"; ""; if delta then "1" else "0"; "0"; vep; "0"; score; "0";
              "0"; ch; ""; refresh; ""; ""; ""; ""; ""; ""; now_s]
  = core_unkeyed ch payload size sttl nonce now_s.
Proof. destruct delta; reflexivity. Qed.

Definition state_block (ch key epoch payload : string) (top now : Z) : M unit :=
  dom _ <- rc ["hset"; k_state ch; key; state_value top epoch payload] ;;
  dom _ <- rc ["hset"; k_smeta ch; "epoch"; epoch] ;;
  dom _ <- rc ["hset"; k_smeta ch; "updated_at"; lua_num2str now] ;;
  ret tt.

Definition prev_block (ch key : string) (delta : bool) : M (option string) :=
  if delta then
    dom p <- rc ["hget"; k_state ch; key] ;;
    match p with RBulk s => ret (Some s) | RNil => ret None | _ => unreachable end
  else ret None.

Definition core_keyed (ch key payload size sttl nonce now_s : string) (delta : bool) : M reply :=
  dom now <- num_of now_s ;;
  dom et <- (dom epoch <- current_epoch (k_meta ch) nonce ;;
             dom wipe <- wipe_check ch epoch ;;
             dom _ <- wipe_do ch wipe ;;
             incr_top ch epoch) ;;
  let '(epoch, top) := et in
  dom prev <- prev_block ch key delta ;;
  dom _ <- state_block ch key epoch payload top now ;;
  dom _ <- stream_block ch epoch payload size sttl top ;;
  dom _ <- when_ true (rc ["PUBLISH"; m_channel ch; pub_msg prev top epoch payload]) ;;
  finish (RArr [RInt top; RBulk epoch; RBulk ""]).

Lemma core_keyed_eq ch c key payload size sttl nonce now_s (delta : bool) vep score refresh :
  sh_map_add [k_stream ch; k_meta ch; ""; k_state ch; ""; k_expire ch; k_smeta ch; ""]
             [String c key; payload; size; sttl; m_channel ch; "0"; nonce; "PUBLISH"; ""; if delta then "1" else "0";
              "0"; vep; "0"; score; "0"; "0"; ch; ""; refresh; ""; ""; ""; ""; ""; ""; now_s]
  = core_keyed ch (String c key) payload size sttl nonce now_s delta.
Proof. destruct delta; reflexivity. Qed.

Definition leave_check (ch key epoch : string) : M unit :=
  dom ex <- rc ["hexists"; k_state ch; key] ;;
  match ex with
  | RInt z => if (z =? 0)%Z then suppressed (k_meta ch) epoch "key_not_found" else ret tt
  | _ => unreachable
  end.

Definition leave_block (ch key : string) : M unit :=
  dom _ <- rc ["hdel"; k_state ch; key] ;;
  dom _ <- when_ true (rc ["zrem"; k_expire ch; key]) ;;
  dom _ <- when_ true (rc ["hdel"; k_smeta ch; "v:" ++ key; "ve:" ++ key]) ;;
  ret tt.

Definition core_remove (ch key payload size sttl nonce now_s : string) : M reply :=
  dom now <- num_of now_s ;;
  dom et <- (dom epoch <- current_epoch (k_meta ch) nonce ;;
             dom wipe <- wipe_check ch epoch ;;
             dom _ <- wipe_do ch wipe ;;
             dom _ <- leave_check ch key epoch ;;
             incr_top ch epoch) ;;
  let '(epoch, top) := et in
  dom _ <- leave_block ch key ;;
  dom _ <- stream_block ch epoch payload size sttl top ;;
  dom _ <- when_ true (rc ["PUBLISH"; m_channel ch; pub_msg None top epoch payload]) ;;
  finish (RArr [RInt top; RBulk epoch; RBulk ""]).

Lemma core_remove_eq ch c key payload size sttl nonce now_s :
  sh_map_add [k_stream ch; k_meta ch; ""; k_state ch; ""; k_expire ch; k_smeta ch; ""]
             [String c key; payload; size; sttl; m_channel ch; "0"; nonce; "PUBLISH"; ""; "0"; "0"; ""; "1"; "0"; "0"; "0";
              ""; ""; "0"; ""; ""; ""; ""; "v:" ++ String c key; "ve:" ++ String c key; now_s]
  = core_remove ch (String c key) payload size sttl nonce now_s.
Proof. reflexivity. Qed.

(* ================= views of single keys ================= *)
Definition hview (st : rstate) (k : string) (oh : option (list (string * string))) : Prop :=
  match oh with None => getk st k = None | Some h => exists x, getk st k = Some (mkKey (VHash h) x) end.
Definition sview (st : rstate) (k : string) (os : option (list sentry * (N * N))) : Prop :=
  match os with None => getk st k = None | Some (es, l) => exists x, getk st k = Some (mkKey (VStream es l) x) end.

Definition frame (ks : list string) (st st' : rstate) : Prop :=
  (forall k, ~ In k ks -> getk st' k = getk st k) /\ now st' = now st.

Lemma frame_refl ks st : frame ks st st. Proof. split; reflexivity. Qed.
Lemma frame_trans ks st st1 st2 : frame ks st st1 -> frame ks st1 st2 -> frame ks st st2.
Proof. intros [A1 A2] [B1 B2]. split; [intros k Hk; rewrite B1, A1 by assumption; reflexivity | congruence]. Qed.
Lemma frame_weaken ks ks' st st' : incl ks ks' -> frame ks st st' -> frame ks' st st'.
Proof. intros Hi [A1 A2]. split; [intros k Hk; apply A1; intros X; apply Hk, Hi, X | assumption]. Qed.
Lemma frame_setval k v st : frame [k] st (setval st k v).
Proof. split; [|reflexivity]. intros k' Hk. apply getk_setval_other. intros ->. apply Hk. left. reflexivity. Qed.
Lemma frame_delk k st : frame [k] st (delk st k).
Proof. split; [|reflexivity]. intros k' Hk. apply getk_delk_other. intros ->. apply Hk. left. reflexivity. Qed.
Lemma frame_putk k rk st : frame [k] st (putk st k rk).
Proof. split; [|reflexivity]. intros k' Hk. apply getk_putk_other. intros ->. apply Hk. left. reflexivity. Qed.

Lemma hview_frame ks st st' k oh : frame ks st st' -> ~ In k ks -> hview st k oh -> hview st' k oh.
Proof. intros [F _] Hk. unfold hview. rewrite (F k Hk). auto. Qed.
Lemma sview_frame ks st st' k os : frame ks st st' -> ~ In k ks -> sview st k os -> sview st' k os.
Proof. intros [F _] Hk. unfold sview. rewrite (F k Hk). auto. Qed.
Lemma hview_setval st k h : hview (setval st k (VHash h)) k (Some h).
Proof. eexists. apply getk_setval_same. Qed.
Lemma sview_setval st k es l : sview (setval st k (VStream es l)) k (Some (es, l)).
Proof. eexists. apply getk_setval_same. Qed.
Lemma hview_get st k oh : hview st k oh -> get_hash st k = Some oh.
Proof. destruct oh as [h|]; [intros [x H]; eapply get_hash_some; eassumption | apply get_hash_none]. Qed.
Lemma sview_get st k os : sview st k os -> get_stream st k = Some os.
Proof. destruct os as [[es l]|]; [intros [x H]; eapply get_stream_some; eassumption | apply get_stream_none]. Qed.

Lemma hget_v st k f oh : hview st k oh -> redis_call st ["hget"; k; f] = (st, bulk_opt (sfind f (hash_or_empty oh))).
Proof.
  intros H. change (redis_call st ["hget"; k; f]) with (cmd_hget st [k; f]). unfold cmd_hget.
  rewrite (hview_get _ _ _ H). destruct oh; reflexivity.
Qed.
Lemma hmget2_v st k f1 f2 oh : hview st k oh ->
  redis_call st ["hmget"; k; f1; f2] = (st, RArr [bulk_opt (sfind f1 (hash_or_empty oh)); bulk_opt (sfind f2 (hash_or_empty oh))]).
Proof.
  intros H. destruct oh as [h|]; [destruct H as [x H]; apply (hmget2_some _ _ _ _ _ _ H) | apply hmget2_none; exact H].
Qed.
Lemma hset1_v st k f v oh : hview st k oh ->
  redis_call st ["hset"; k; f; v] = (setval st k (VHash (sput f v (hash_or_empty oh))), RInt (new1 (sfind f (hash_or_empty oh)))).
Proof.
  intros H. destruct oh as [h|]; [destruct H as [x H]; apply (hset1_some _ _ _ _ _ _ H) | apply hset1_none; exact H].
Qed.
Lemma hlen_v st k oh : hview st k oh -> redis_call st ["hlen"; k] = (st, RInt (Z.of_nat (List.length (hash_or_empty oh)))).
Proof. intros H. rewrite hlen_call, (hview_get _ _ _ H). reflexivity. Qed.
Lemma hexists_v st k f oh : hview st k oh ->
  redis_call st ["hexists"; k; f] = (st, RInt (match sfind f (hash_or_empty oh) with Some _ => 1 | None => 0 end)).
Proof. intros H. rewrite hexists_call, (hview_get _ _ _ H). reflexivity. Qed.

Lemma PUBLISH_call st ch msg :
  redis_call st ["PUBLISH"; ch; msg] = (mkR (store st) (now st) (outbox st ++ [(ch, msg)]), RInt 0).
Proof. reflexivity. Qed.
Lemma frame_publish ks st ch msg : frame ks st (mkR (store st) (now st) (outbox st ++ [(ch, msg)])).
Proof. split; reflexivity. Qed.

(* key distinctness, as a tactic *)
Ltac kd :=
  first [ apply k_stream_meta | apply k_stream_state | apply k_stream_expire | apply k_stream_smeta
        | apply k_meta_state | apply k_meta_expire | apply k_meta_smeta | apply k_expire_smeta
        | apply k_state_smeta_same | apply k_state_expire_same
        | apply not_eq_sym; first [ apply k_stream_meta | apply k_stream_state | apply k_stream_expire | apply k_stream_smeta
                                  | apply k_meta_state | apply k_meta_expire | apply k_meta_smeta | apply k_expire_smeta
                                  | apply k_state_smeta_same | apply k_state_expire_same ] ].
Ltac notin := let HH := fresh "HH" in cbn [In]; intros HH; repeat (destruct HH as [HH|HH]; [revert HH; kd|]); exact HH.
Ltac inclt := let x := fresh in let H := fresh in intros x H; cbn [In] in *; tauto.

(* ================= fragments ================= *)
Notation hash_ok := C18StreamP.hash_ok.
Notation BOUND := C18Stream.BOUND.

Lemma epoch_spec st ch nonce mh epoch top :
  hview st (k_meta ch) mh ->
  match mh with None => epoch = nonce /\ top = 0%N | Some h => hash_ok h epoch top 0 "" end ->
  exists st1 h1, current_epoch (k_meta ch) nonce st = (st1, inl epoch) /\ hview st1 (k_meta ch) (Some h1) /\
                 hash_ok h1 epoch top 0 "" /\ frame [k_meta ch] st st1.
Proof.
  intros Hv Hm. destruct mh as [h|].
  - destruct Hv as [x Hv]. exists st, h. split; [apply (C18StreamP.cur_epoch_some _ _ _ _ _ _ Hv); apply Hm|].
    split; [exists x; exact Hv|]. split; [exact Hm | apply frame_refl].
  - destruct Hm as [-> ->]. exists (setval st (k_meta ch) (VHash [("e", nonce)])), [("e", nonce)].
    split; [apply C18StreamP.cur_epoch_none; exact Hv|]. split; [apply hview_setval|].
    split; [apply C18StreamP.hash_ok_new | apply frame_setval].
Qed.

Lemma wipe_spec st ch epoch sth smh :
  hview st (k_state ch) sth -> hview st (k_smeta ch) smh ->
  (hash_or_empty sth = [] \/ exists h, smh = Some h /\ sfind "epoch" h = Some epoch) ->
  wipe_check ch epoch st = (st, inl false).
Proof.
  intros Hs Hm Hc. unfold wipe_check. rewrite bind_rc, (hlen_v _ _ _ Hs). cbn iota beta.
  destruct (hash_or_empty sth) as [|kv l] eqn:E.
  - reflexivity.
  - destruct Hc as [Hc|(h & -> & He)]; [discriminate Hc|].
    replace (0 <? Z.of_nat (List.length (kv :: l)))%Z with true by (symmetry; apply Z.ltb_lt; cbn [List.length]; lia).
    rewrite bind_rc, (hget_v _ _ _ _ Hm). cbn [hash_or_empty]. rewrite He. cbn [bulk_opt]. cbn iota beta.
    rewrite String.eqb_refl. reflexivity.
Qed.

Lemma incr_spec st ch epoch h top :
  hview st (k_meta ch) (Some h) -> hash_ok h epoch top 0 "" -> (top + 1 < BOUND)%N ->
  exists h', incr_top ch epoch st = (setval st (k_meta ch) (VHash h'), inl (epoch, Z.of_N (top + 1))) /\
             hash_ok h' epoch (top + 1) 0 "".
Proof.
  intros [x Hv] Hh Ht. destruct (C18StreamP.hincrby_spec _ _ _ _ _ _ _ _ Hv Hh Ht) as (h' & Hc & Hh').
  exists h'. split; [|exact Hh']. unfold incr_top. rewrite bind_rc, Hc. cbn iota beta.
  rewrite round53_small by (unfold C18Stream.BOUND in Ht; lia). reflexivity.
Qed.

Lemma state_block_spec st ch key epoch payload top now_ sth smh :
  hview st (k_state ch) sth -> hview st (k_smeta ch) smh ->
  exists st' hs, state_block ch key epoch payload top now_ st = (st', inl tt) /\
    hview st' (k_state ch) (Some (sput key (state_value top epoch payload) (hash_or_empty sth))) /\
    hview st' (k_smeta ch) (Some hs) /\ sfind "epoch" hs = Some epoch /\
    frame [k_state ch; k_smeta ch] st st'.
Proof.
  intros Hs Hm. unfold state_block.
  rewrite bind_rc, (hset1_v _ _ _ _ _ Hs). cbn iota beta.
  set (st1 := setval st (k_state ch) _).
  assert (F1 : frame [k_state ch] st st1) by apply frame_setval.
  assert (Hm1 : hview st1 (k_smeta ch) smh) by (apply (hview_frame _ _ _ _ _ F1); [notin | exact Hm]).
  rewrite bind_rc, (hset1_v _ _ _ _ _ Hm1). cbn iota beta.
  set (st2 := setval st1 (k_smeta ch) _).
  rewrite bind_rc, (hset1_v st2 _ _ _ _ (hview_setval _ _ _)). cbn iota beta. cbn [hash_or_empty].
  eexists. eexists. split; [reflexivity|].
  assert (F2 : frame [k_smeta ch] st1 st2) by apply frame_setval.
  split; [|split; [apply hview_setval|split]].
  - apply (hview_frame [k_smeta ch] st2); [apply frame_setval | notin |].
    apply (hview_frame _ _ _ _ _ F2); [notin | apply hview_setval].
  - rewrite C18StreamP.sfind_lit_other by reflexivity. apply sfind_sput_same.
  - eapply frame_trans; [eapply frame_weaken; [|exact F1]; inclt|].
    eapply frame_trans; [eapply frame_weaken; [|exact F2]; inclt|].
    eapply frame_weaken; [|apply frame_setval]. inclt.
Qed.

Definition sentry_of (top : N) (epoch payload : string) : sentry := mkEntry (top, 0%N) ["e"; epoch; "d"; payload].

Lemma num_of_dec n st : (n < 9007199254740992)%N -> num_of (dec n) st = (st, inl (Z.of_N n)).
Proof. intros H. unfold num_of. rewrite str2number_dec, round53_small by lia. reflexivity. Qed.

Lemma num_arg_small n st : (n < 4611686018427387904)%N -> num_arg (Z.of_N n) st = (st, inl (dec n)).
Proof. intros H. unfold num_arg. rewrite redis_arg_of_num_small by assumption. reflexivity. Qed.

Lemma millis_pos z : (0 < z)%Z -> millis z = dec (Z.to_N z).
Proof.
  intros H. unfold millis. replace (z <=? 0)%Z with false by (symmetry; apply Z.leb_gt; lia).
  rewrite <- zdec_of_N. rewrite Z2N.id by lia. reflexivity.
Qed.

Lemma stream_ttl_spec st k sttl v x :
  C18Stream.small sttl = true -> getk st k = Some (mkKey v x) ->
  exists st', (dom s <- num_of (millis sttl) ;;
               if (0 <? s)%Z then dom sts <- num_arg s ;; dom _ <- rc ["pexpire"; k; sts] ;; ret tt else ret tt) st = (st', inl tt)
              /\ (exists x', getk st' k = Some (mkKey v x')) /\ frame [k] st st'.
Proof.
  intros Hs Hk. apply C18Stream.small_range in Hs.
  destruct (Z.eq_dec sttl 0) as [->|Hne].
  - exists st. split; [reflexivity|]. split; [eexists; eassumption | apply frame_refl].
  - rewrite millis_pos by lia. unfold bindM at 1. rewrite num_of_dec by lia. rewrite Z2N.id by lia.
    replace (0 <? sttl)%Z with true by (symmetry; apply Z.ltb_lt; lia).
    unfold bindM at 1. replace (num_arg sttl) with (num_arg (Z.of_N (Z.to_N sttl))) by (rewrite Z2N.id by lia; reflexivity).
    rewrite num_arg_small by lia.
    rewrite bind_rc. rewrite (pexpire_some st k _ sttl _ Hk); [| rewrite parse_ll_dec by lia; f_equal; lia | lia].
    cbn iota beta. eexists. split; [reflexivity|]. split; [|apply frame_putk].
    eexists. rewrite getk_putk_same. unfold live. cbn [k_exp k_val].
    replace (now st <? now st + Z.to_N sttl)%N with true by (symmetry; apply N.ltb_lt; lia). reflexivity.
Qed.

Lemma trim_approx_id es n : (Z.of_nat (List.length es) <= n)%Z -> trim_approx es n = es.
Proof.
  intros H. unfold trim_approx. replace (List.length es - Z.to_nat n)%nat with O by lia. reflexivity.
Qed.

Lemma stream_block_spec st ch epoch payload size sttl top0 os es0 :
  sview st (k_stream ch) os ->
  ((top0 = 0%N /\ es0 = []) \/ ((0 < top0)%N /\ os = Some (es0, (top0, 0%N)))) ->
  (top0 + 1 < BOUND)%N -> (size < 9223372036854775808)%N -> C18Stream.small sttl = true ->
  exists st', stream_block ch epoch payload (dec size) (millis sttl) (Z.of_N (top0 + 1)) st = (st', inl tt) /\
    sview st' (k_stream ch)
          (Some (trim_approx (es0 ++ [sentry_of (top0 + 1) epoch payload]) (Z.of_N size), ((top0 + 1)%N, 0%N))) /\
    frame [k_stream ch] st st'.
Proof.
  intros Hv Hc Ht Hsz Httl. unfold C18Stream.BOUND in Ht. unfold stream_block.
  assert (H1 : exists st1 os1, (forall B (k : unit -> M B),
             bindM (when_ (Z.of_N (top0 + 1) =? 1)%Z (rc ["del"; k_stream ch])) k st = k tt st1) /\
             sview st1 (k_stream ch) os1 /\ frame [k_stream ch] st st1 /\
             match os1 with None => es0 = [] | Some (es, l) => es = es0 /\ l = (top0, 0%N) end).
  { destruct Hc as [[-> ->]|[Hp ->]].
    - destruct (del1 st (k_stream ch)) as [n Hd]. exists (delk st (k_stream ch)), None.
      split; [|split; [apply getk_delk_same | split; [apply frame_delk | reflexivity]]].
      intros B k. change (Z.of_N (0 + 1) =? 1)%Z with true. unfold when_.
      rewrite bind_assoc, bind_rc, Hd. reflexivity.
    - exists st, (Some (es0, (top0, 0%N))). split; [|split; [exact Hv | split; [apply frame_refl | split; reflexivity]]].
      intros B k. replace (Z.of_N (top0 + 1) =? 1)%Z with false by (symmetry; apply Z.eqb_neq; lia). reflexivity. }
  destruct H1 as (st1 & os1 & Hk1 & Hv1 & F1 & Ho1). rewrite Hk1. clear Hk1.
  unfold bindM at 1. rewrite num_arg_small by lia.
  rewrite bind_rc, xadd_approx_call by (unfold u64max; lia).
  rewrite (sview_get _ _ _ Hv1).
  destruct os1 as [[es l]|]; [destruct Ho1 as [-> ->] | subst es0]; rewrite C18Stream.sid_le_lo;
    [replace (top0 + 1 <=? top0)%N with false by (symmetry; apply N.leb_gt; lia)
    |replace (top0 + 1 <=? 0)%N with false by (symmetry; apply N.leb_gt; lia)];
    cbn iota beta;
    match goal with |- context [setval st1 (k_stream ch) ?v] => set (st2 := setval st1 (k_stream ch) v) end;
    destruct (stream_ttl_spec st2 (k_stream ch) sttl _ _ Httl (getk_setval_same _ _ _)) as (st3 & Hr & [x3 Hg3] & F3);
    (exists st3; split; [exact Hr|]; split; [exists x3; exact Hg3|];
     eapply frame_trans; [exact F1|]; eapply frame_trans; [apply frame_setval | exact F3]).
Qed.

Lemma prev_block_spec st ch key delta sth :
  hview st (k_state ch) sth -> exists p, prev_block ch key delta st = (st, inl p).
Proof.
  intros Hv. unfold prev_block. destruct delta; [|eexists; reflexivity].
  rewrite bind_rc, (hget_v _ _ _ _ Hv). destruct (sfind key (hash_or_empty sth)); eexists; reflexivity.
Qed.

Lemma publish_spec st ch msg : when_ true (rc ["PUBLISH"; m_channel ch; msg]) st
  = (mkR (store st) (now st) (outbox st ++ [(m_channel ch, msg)]), inl tt).
Proof. unfold when_. rewrite bind_rc, PUBLISH_call. reflexivity. Qed.

Lemma current_offset_spec st ch h epoch top :
  hview st (k_meta ch) (Some h) -> hash_ok h epoch top 0 "" -> (top < BOUND)%N ->
  current_offset (k_meta ch) st = (st, inl (Z.of_N top)).
Proof.
  intros Hv (_ & Hs & _) Ht. unfold C18Stream.BOUND in Ht. unfold current_offset.
  rewrite bind_rc, (hget_v _ _ _ _ Hv). cbn [hash_or_empty]. rewrite Hs.
  destruct (top =? 0)%N eqn:E.
  - apply N.eqb_eq in E. subst top. reflexivity.
  - cbn [bulk_opt]. cbn iota beta. apply num_of_dec. lia.
Qed.

Lemma leave_check_present st ch key epoch sth :
  hview st (k_state ch) sth -> sfind key (hash_or_empty sth) <> None -> leave_check ch key epoch st = (st, inl tt).
Proof.
  intros Hv Hk. unfold leave_check. rewrite bind_rc, (hexists_v _ _ _ _ Hv).
  destruct (sfind key (hash_or_empty sth)); [reflexivity | congruence].
Qed.

Lemma leave_check_absent st ch key epoch sth h top :
  hview st (k_state ch) sth -> sfind key (hash_or_empty sth) = None ->
  hview st (k_meta ch) (Some h) -> hash_ok h epoch top 0 "" -> (top < BOUND)%N ->
  leave_check ch key epoch st = (st, inr (RArr [RInt (Z.of_N top); RBulk epoch; RBulk "key_not_found"])).
Proof.
  intros Hv Hk Hm Hh Ht. unfold leave_check. rewrite bind_rc, (hexists_v _ _ _ _ Hv), Hk. cbn iota beta.
  change (0 =? 0)%Z with true. cbn iota. unfold suppressed. unfold bindM at 1.
  rewrite (current_offset_spec _ _ _ _ _ Hm Hh Ht). reflexivity.
Qed.

Lemma leave_block_spec st ch key h hs epoch :
  hview st (k_state ch) (Some h) -> getk st (k_expire ch) = None ->
  hview st (k_smeta ch) (Some hs) -> sfind "epoch" hs = Some epoch ->
  exists st' hs', leave_block ch key st = (st', inl tt) /\
    hview st' (k_state ch) (match sdel key h with [] => None | h' => Some h' end) /\
    hview st' (k_smeta ch) (Some hs') /\ sfind "epoch" hs' = Some epoch /\
    frame [k_state ch; k_smeta ch] st st'.
Proof.
  intros Hs He Hm Hep. unfold leave_block.
  assert (H1 : exists st1, redis_call st ["hdel"; k_state ch; key] = (st1, RInt (Z.of_nat (List.length h - List.length (sdel key h))))
               /\ hview st1 (k_state ch) (match sdel key h with [] => None | h' => Some h' end) /\ frame [k_state ch] st st1).
  { rewrite hdel1_call, (hview_get _ _ _ Hs). cbv zeta. destruct (sdel key h) as [|kv l] eqn:E.
    - eexists. split; [reflexivity|]. split; [apply getk_delk_same | apply frame_delk].
    - eexists. split; [reflexivity|]. split; [apply hview_setval | apply frame_setval]. }
  destruct H1 as (st1 & Hc1 & Hv1 & F1). rewrite bind_rc, Hc1. cbn iota beta.
  assert (He1 : getk st1 (k_expire ch) = None) by (destruct F1 as [F1 _]; rewrite F1; [exact He | notin]).
  unfold when_. rewrite bind_assoc, bind_rc, (zrem1_none _ _ _ He1). cbn iota beta. rewrite bind_ret.
  assert (Hm1 : hview st1 (k_smeta ch) (Some hs)) by (apply (hview_frame _ _ _ _ _ F1); [notin | exact Hm]).
  set (hs' := sdel ("ve:" ++ key) (sdel ("v:" ++ key) hs)).
  assert (Hep' : sfind "epoch" hs' = Some epoch).
  { unfold hs'. rewrite !sfind_sdel_other by discriminate. exact Hep. }
  rewrite bind_assoc, bind_rc, hdel2_call, (hview_get _ _ _ Hm1). cbv zeta. fold hs'.
  destruct hs' as [|kv l] eqn:E; [discriminate Hep'|].
  cbn iota beta. rewrite bind_ret. eexists. exists (kv :: l). split; [reflexivity|].
  split; [apply (hview_frame [k_smeta ch] st1); [apply frame_setval | notin | exact Hv1]|].
  split; [apply hview_setval|]. split; [exact Hep'|].
  eapply frame_trans; [eapply frame_weaken; [|exact F1]; inclt|]. eapply frame_weaken; [|apply frame_setval]. inclt.
Qed.

(* ================= whole-script effects ================= *)
Record rview := mkRV {
  rv_meta : option (list (string * string)); rv_state : option (list (string * string));
  rv_smeta : option (list (string * string)); rv_stream : option (list sentry * (N * N)) }.

Definition views (st : rstate) (ch : string) (v : rview) : Prop :=
  hview st (k_meta ch) (rv_meta v) /\ hview st (k_state ch) (rv_state v) /\ hview st (k_smeta ch) (rv_smeta v) /\
  sview st (k_stream ch) (rv_stream v) /\ getk st (k_expire ch) = None.

Definition meta_cond (v : rview) (nonce epoch : string) (top : N) : Prop :=
  match rv_meta v with None => epoch = nonce /\ top = 0%N | Some h => hash_ok h epoch top 0 "" end.
Definition stream_cond (v : rview) (top : N) (es0 : list sentry) : Prop :=
  (top = 0%N /\ es0 = []) \/ ((0 < top)%N /\ rv_stream v = Some (es0, (top, 0%N))).
Definition wipe_cond (v : rview) (epoch : string) : Prop :=
  hash_or_empty (rv_state v) = [] \/ exists h, rv_smeta v = Some h /\ sfind "epoch" h = Some epoch.

Lemma num_of_dec_any n st : num_of (dec n) st = (st, inl (round53 (Z.of_N n))).
Proof. unfold num_of. rewrite str2number_dec. reflexivity. Qed.

Lemma frame_chan ks ch st st' : incl ks (chan_keys ch) -> frame ks st st' -> frame (chan_keys ch) st st'.
Proof. apply frame_weaken. Qed.

Ltac ck := unfold chan_keys; inclt.

Lemma core_unkeyed_spec st ch payload size sttl nonce now_ v epoch top es0 :
  views st ch v -> meta_cond v nonce epoch top -> stream_cond v top es0 ->
  (top + 1 < BOUND)%N -> (size < 9223372036854775808)%N -> C18Stream.small sttl = true ->
  exists st' mh',
    runM (core_unkeyed ch payload (dec size) (millis sttl) nonce (dec now_)) st
      = (st', RArr [RInt (Z.of_N (top + 1)); RBulk epoch; RBulk ""]) /\
    views st' ch (mkRV (Some mh') (rv_state v) (rv_smeta v)
                       (Some (trim_approx (es0 ++ [sentry_of (top + 1) epoch payload]) (Z.of_N size), ((top + 1)%N, 0%N)))) /\
    hash_ok mh' epoch (top + 1) 0 "" /\ frame (chan_keys ch) st st'.
Proof.
  intros (Vm & Vs & Vsm & Vst & Ve) Hm Hsc Ht Hsz Httl.
  unfold runM, core_unkeyed. unfold bindM at 1. rewrite num_of_dec_any.
  destruct (epoch_spec st ch nonce _ epoch top Vm Hm) as (st1 & h1 & Hc1 & Vm1 & Hh1 & F1).
  rewrite bind_assoc. unfold bindM at 1. rewrite Hc1.
  destruct (incr_spec st1 ch epoch h1 top Vm1 Hh1 Ht) as (h2 & Hc2 & Hh2).
  unfold bindM at 1. rewrite Hc2. cbn iota beta.
  set (st2 := setval st1 (k_meta ch) (VHash h2)).
  assert (F2 : frame [k_meta ch] st st2) by (eapply frame_trans; [exact F1 | apply frame_setval]).
  assert (Vst2 : sview st2 (k_stream ch) (rv_stream v)) by (apply (sview_frame _ _ _ _ _ F2); [notin | exact Vst]).
  assert (Hsc2 : (top = 0%N /\ es0 = []) \/ ((0 < top)%N /\ rv_stream v = Some (es0, (top, 0%N)))) by exact Hsc.
  destruct (stream_block_spec st2 ch epoch payload size sttl top _ es0 Vst2 Hsc2 Ht Hsz Httl) as (st3 & Hc3 & Vst3 & F3).
  unfold bindM at 1. rewrite Hc3. unfold bindM at 1. rewrite publish_spec. unfold finish.
  eexists. exists h2. split; [reflexivity|].
  set (st4 := mkR (store st3) (now st3) _).
  assert (F24 : frame [k_stream ch] st2 st4) by (eapply frame_trans; [exact F3 | apply frame_publish]).
  assert (F04 : frame (chan_keys ch) st st4).
  { eapply frame_trans; [eapply frame_weaken; [|exact F2]; ck | eapply frame_weaken; [|exact F24]; ck]. }
  split; [|split; [exact Hh2 | exact F04]].
  unfold views. cbn [rv_meta rv_state rv_smeta rv_stream].
  split; [apply (hview_frame _ _ _ _ _ F24); [notin | apply hview_setval]|].
  split; [apply (hview_frame _ _ _ _ _ F24); [notin|]; apply (hview_frame _ _ _ _ _ F2); [notin | exact Vs]|].
  split; [apply (hview_frame _ _ _ _ _ F24); [notin|]; apply (hview_frame _ _ _ _ _ F2); [notin | exact Vsm]|].
  split; [exact Vst3|].
  destruct F24 as [F24 _]. destruct F2 as [F2 _]. rewrite F24 by notin. rewrite F2 by notin. exact Ve.
Qed.

Lemma core_keyed_spec st ch key payload size sttl nonce now_ delta v epoch top es0 :
  views st ch v -> meta_cond v nonce epoch top -> stream_cond v top es0 -> wipe_cond v epoch ->
  (top + 1 < BOUND)%N -> (size < 9223372036854775808)%N -> C18Stream.small sttl = true ->
  exists st' mh' hs',
    runM (core_keyed ch key payload (dec size) (millis sttl) nonce (dec now_) delta) st
      = (st', RArr [RInt (Z.of_N (top + 1)); RBulk epoch; RBulk ""]) /\
    views st' ch (mkRV (Some mh')
                       (Some (sput key (state_value (Z.of_N (top + 1)) epoch payload) (hash_or_empty (rv_state v))))
                       (Some hs')
                       (Some (trim_approx (es0 ++ [sentry_of (top + 1) epoch payload]) (Z.of_N size), ((top + 1)%N, 0%N)))) /\
    hash_ok mh' epoch (top + 1) 0 "" /\ sfind "epoch" hs' = Some epoch /\ frame (chan_keys ch) st st'.
Proof.
  intros (Vm & Vs & Vsm & Vst & Ve) Hm Hsc Hw Ht Hsz Httl.
  unfold runM, core_keyed. unfold bindM at 1. rewrite num_of_dec_any.
  destruct (epoch_spec st ch nonce _ epoch top Vm Hm) as (st1 & h1 & Hc1 & Vm1 & Hh1 & F1).
  rewrite bind_assoc. unfold bindM at 1. rewrite Hc1.
  assert (Vs1 : hview st1 (k_state ch) (rv_state v)) by (apply (hview_frame _ _ _ _ _ F1); [notin | exact Vs]).
  assert (Vsm1 : hview st1 (k_smeta ch) (rv_smeta v)) by (apply (hview_frame _ _ _ _ _ F1); [notin | exact Vsm]).
  rewrite bind_assoc. unfold bindM at 1. rewrite (wipe_spec st1 ch epoch _ _ Vs1 Vsm1 Hw).
  rewrite bind_assoc. unfold bindM at 1. unfold wipe_do at 1. unfold ret at 1.
  destruct (incr_spec st1 ch epoch h1 top Vm1 Hh1 Ht) as (h2 & Hc2 & Hh2).
  unfold bindM at 1. rewrite Hc2. cbn iota beta.
  set (st2 := setval st1 (k_meta ch) (VHash h2)).
  assert (F2 : frame [k_meta ch] st st2) by (eapply frame_trans; [exact F1 | apply frame_setval]).
  assert (Vs2 : hview st2 (k_state ch) (rv_state v)) by (apply (hview_frame _ _ _ _ _ F2); [notin | exact Vs]).
  assert (Vsm2 : hview st2 (k_smeta ch) (rv_smeta v)) by (apply (hview_frame _ _ _ _ _ F2); [notin | exact Vsm]).
  destruct (prev_block_spec st2 ch key delta _ Vs2) as [prev Hp].
  unfold bindM at 1. rewrite Hp.
  destruct (state_block_spec st2 ch key epoch payload (Z.of_N (top + 1)) (round53 (Z.of_N now_)) _ _ Vs2 Vsm2)
    as (st3 & hs & Hc3 & Vs3 & Vsm3 & Hep3 & F3).
  unfold bindM at 1. rewrite Hc3.
  assert (F03 : frame [k_meta ch; k_state ch; k_smeta ch] st st3).
  { eapply frame_trans; [eapply frame_weaken; [|exact F2]; inclt | eapply frame_weaken; [|exact F3]; inclt]. }
  assert (Vst3 : sview st3 (k_stream ch) (rv_stream v)) by (apply (sview_frame _ _ _ _ _ F03); [notin | exact Vst]).
  assert (Hsc2 : (top = 0%N /\ es0 = []) \/ ((0 < top)%N /\ rv_stream v = Some (es0, (top, 0%N)))) by exact Hsc.
  destruct (stream_block_spec st3 ch epoch payload size sttl top _ es0 Vst3 Hsc2 Ht Hsz Httl) as (st4 & Hc4 & Vst4 & F4).
  unfold bindM at 1. rewrite Hc4. unfold bindM at 1. rewrite publish_spec. unfold finish.
  eexists. exists h2, hs. split; [reflexivity|].
  set (st5 := mkR (store st4) (now st4) _).
  assert (F35 : frame [k_stream ch] st3 st5) by (eapply frame_trans; [exact F4 | apply frame_publish]).
  assert (F05 : frame (chan_keys ch) st st5).
  { eapply frame_trans; [eapply frame_weaken; [|exact F03]; ck | eapply frame_weaken; [|exact F35]; ck]. }
  split; [|split; [exact Hh2 | split; [exact Hep3 | exact F05]]].
  unfold views. cbn [rv_meta rv_state rv_smeta rv_stream].
  split; [apply (hview_frame _ _ _ _ _ F35); [notin|]; apply (hview_frame _ _ _ _ _ F3); [notin | apply hview_setval]|].
  split; [apply (hview_frame _ _ _ _ _ F35); [notin | exact Vs3]|].
  split; [apply (hview_frame _ _ _ _ _ F35); [notin | exact Vsm3]|].
  split; [exact Vst4|].
  destruct F35 as [F35 _]. destruct F03 as [F03 _]. rewrite F35 by notin. rewrite F03 by notin. exact Ve.
Qed.

Lemma core_remove_absent st ch key payload size sttl nonce now_ v h epoch top :
  views st ch v -> rv_meta v = Some h -> hash_ok h epoch top 0 "" -> wipe_cond v epoch ->
  sfind key (hash_or_empty (rv_state v)) = None -> (top < BOUND)%N ->
  runM (core_remove ch key payload size sttl nonce (dec now_)) st
    = (st, RArr [RInt (Z.of_N top); RBulk epoch; RBulk "key_not_found"]).
Proof.
  intros (Vm & Vs & Vsm & Vst & Ve) Em Hh Hw Hk Ht. rewrite Em in Vm.
  unfold runM, core_remove. unfold bindM at 1. rewrite num_of_dec_any.
  destruct Vm as [x Vm].
  rewrite bind_assoc. unfold bindM at 1.
  rewrite (C18StreamP.cur_epoch_some _ _ _ _ _ _ Vm (proj1 Hh)).
  rewrite bind_assoc. unfold bindM at 1. rewrite (wipe_spec st ch epoch _ _ Vs Vsm Hw).
  rewrite bind_assoc. unfold bindM at 1. unfold wipe_do at 1. unfold ret at 1.
  rewrite bind_assoc. unfold bindM at 1.
  rewrite (leave_check_absent st ch key epoch _ h top Vs Hk (ex_intro _ x Vm) Hh Ht). reflexivity.
Qed.

Lemma core_remove_present st ch key payload size sttl nonce now_ v h hst hs epoch top es0 :
  views st ch v -> rv_meta v = Some h -> hash_ok h epoch top 0 "" ->
  rv_state v = Some hst -> sfind key hst <> None ->
  rv_smeta v = Some hs -> sfind "epoch" hs = Some epoch ->
  stream_cond v top es0 ->
  (top + 1 < BOUND)%N -> (size < 9223372036854775808)%N -> C18Stream.small sttl = true ->
  exists st' mh' hs',
    runM (core_remove ch key payload (dec size) (millis sttl) nonce (dec now_)) st
      = (st', RArr [RInt (Z.of_N (top + 1)); RBulk epoch; RBulk ""]) /\
    views st' ch (mkRV (Some mh') (match sdel key hst with [] => None | h' => Some h' end) (Some hs')
                       (Some (trim_approx (es0 ++ [sentry_of (top + 1) epoch payload]) (Z.of_N size), ((top + 1)%N, 0%N)))) /\
    hash_ok mh' epoch (top + 1) 0 "" /\ sfind "epoch" hs' = Some epoch /\ frame (chan_keys ch) st st'.
Proof.
  intros (Vm & Vs & Vsm & Vst & Ve) Em Hh Es Hk Esm Hep Hsc Ht Hsz Httl. rewrite Em in Vm. rewrite Es in Vs. rewrite Esm in Vsm.
  unfold runM, core_remove. unfold bindM at 1. rewrite num_of_dec_any.
  pose proof Vm as [x Vmx].
  rewrite bind_assoc. unfold bindM at 1.
  rewrite (C18StreamP.cur_epoch_some _ _ _ _ _ _ Vmx (proj1 Hh)).
  rewrite bind_assoc. unfold bindM at 1.
  rewrite (wipe_spec st ch epoch _ _ Vs Vsm (or_intror (ex_intro _ hs (conj eq_refl Hep)))).
  rewrite bind_assoc. unfold bindM at 1. unfold wipe_do at 1. unfold ret at 1.
  rewrite bind_assoc. unfold bindM at 1.
  rewrite (leave_check_present st ch key epoch _ Vs Hk).
  destruct (incr_spec st ch epoch h top Vm Hh Ht) as (h2 & Hc2 & Hh2).
  unfold bindM at 1. rewrite Hc2. cbn iota beta.
  set (st2 := setval st (k_meta ch) (VHash h2)).
  assert (F2 : frame [k_meta ch] st st2) by apply frame_setval.
  assert (Vs2 : hview st2 (k_state ch) (Some hst)) by (apply (hview_frame _ _ _ _ _ F2); [notin | exact Vs]).
  assert (Vsm2 : hview st2 (k_smeta ch) (Some hs)) by (apply (hview_frame _ _ _ _ _ F2); [notin | exact Vsm]).
  assert (Ve2 : getk st2 (k_expire ch) = None) by (destruct F2 as [F2 _]; rewrite F2 by notin; exact Ve).
  destruct (leave_block_spec st2 ch key hst hs epoch Vs2 Ve2 Vsm2 Hep) as (st3 & hs' & Hc3 & Vs3 & Vsm3 & Hep3 & F3).
  unfold bindM at 1. rewrite Hc3.
  assert (F03 : frame [k_meta ch; k_state ch; k_smeta ch] st st3).
  { eapply frame_trans; [eapply frame_weaken; [|exact F2]; inclt | eapply frame_weaken; [|exact F3]; inclt]. }
  assert (Vst3 : sview st3 (k_stream ch) (rv_stream v)) by (apply (sview_frame _ _ _ _ _ F03); [notin | exact Vst]).
  assert (Hsc2 : (top = 0%N /\ es0 = []) \/ ((0 < top)%N /\ rv_stream v = Some (es0, (top, 0%N)))) by exact Hsc.
  destruct (stream_block_spec st3 ch epoch payload size sttl top _ es0 Vst3 Hsc2 Ht Hsz Httl) as (st4 & Hc4 & Vst4 & F4).
  unfold bindM at 1. rewrite Hc4. unfold bindM at 1. rewrite publish_spec. unfold finish.
  eexists. exists h2, hs'. split; [reflexivity|].
  set (st5 := mkR (store st4) (now st4) _).
  assert (F35 : frame [k_stream ch] st3 st5) by (eapply frame_trans; [exact F4 | apply frame_publish]).
  assert (F05 : frame (chan_keys ch) st st5).
  { eapply frame_trans; [eapply frame_weaken; [|exact F03]; ck | eapply frame_weaken; [|exact F35]; ck]. }
  split; [|split; [exact Hh2 | split; [exact Hep3 | exact F05]]].
  unfold views. cbn [rv_meta rv_state rv_smeta rv_stream].
  split; [apply (hview_frame _ _ _ _ _ F35); [notin|]; apply (hview_frame _ _ _ _ _ F3); [notin | apply hview_setval]|].
  split; [apply (hview_frame _ _ _ _ _ F35); [notin | exact Vs3]|].
  split; [apply (hview_frame _ _ _ _ _ F35); [notin | exact Vsm3]|].
  split; [exact Vst4|].
  destruct F35 as [F35 _]. destruct F03 as [F03 _]. rewrite F35 by notin. rewrite F03 by notin. exact Ve.
Qed.
