(* C20: the model of the memory map broker refines the reference map
   (Model/MapSpec.v).  Part 1: the simulation relation and the simulation of
   every operation except the expiry sweep (Part 2 is Proofs/MapSweep.v). *)
From Coq Require Import List NArith ZArith Bool Lia Permutation.
From Cfg Require Import Model.MapHub Model.MapSpec Proofs.MapBase.
Import ListNotations.
Open Scope N_scope.

(* ------------------------------------------------ aligned association lists *)
Section ARel.
  Context {A B : Type} (P : N -> A -> B -> Prop).
  Definition arel (m : list (N * A)) (s : list (N * B)) : Prop :=
    Forall2 (fun x y => fst x = fst y /\ P (fst x) (snd x) (snd y)) m s.

  Lemma arel_get_none : forall m s k, arel m s -> aget N.eqb m k = None -> aget N.eqb s k = None.
  Proof.
    induction 1 as [|[i a] [j b] m s [E HP] HF IH]; simpl in *; auto. subst j.
    destruct (k =? i); auto. discriminate.
  Qed.
  Lemma arel_get_none' : forall m s k, arel m s -> aget N.eqb s k = None -> aget N.eqb m k = None.
  Proof.
    induction 1 as [|[i a] [j b] m s [E HP] HF IH]; simpl in *; auto. subst j.
    destruct (k =? i); auto. discriminate.
  Qed.
  Lemma arel_get_some : forall m s k a, arel m s -> aget N.eqb m k = Some a ->
    exists b, aget N.eqb s k = Some b /\ P k a b.
  Proof.
    induction 1 as [|[i a'] [j b] m s [E HP] HF IH]; simpl in *; try discriminate. subst j.
    destruct (k =? i) eqn:Ek; auto.
    intro H; inversion H; subst. apply N.eqb_eq in Ek; subst. eauto.
  Qed.
  Lemma arel_set : forall m s k a b, arel m s -> P k a b -> arel (aset N.eqb m k a) (aset N.eqb s k b).
  Proof.
    induction 1 as [|[i a'] [j b'] m s [E HP] HF IH]; intro H; simpl in *.
    - constructor; [split; auto | constructor].
    - subst j. destruct (k =? i) eqn:Ek.
      + constructor; auto.
      + constructor; auto. apply IH; auto.
  Qed.
  Lemma arel_del : forall m s k, arel m s -> arel (adel N.eqb m k) (adel N.eqb s k).
  Proof.
    induction 1 as [|[i a'] [j b'] m s [E HP] HF IH]; simpl in *; [constructor|].
    subst j. destruct (k =? i); auto. constructor; auto.
  Qed.
End ARel.

(* ------------------------------------------------------------- sorting facts *)
Lemma insert_by_ext : forall f g x l, (forall a b, f a b = g a b) -> insert_by f x l = insert_by g x l.
Proof. induction l; intros; simpl; auto. rewrite H, IHl; auto. Qed.
Lemma sort_by_ext : forall f g l, (forall a b, f a b = g a b) -> sort_by f l = sort_by g l.
Proof. induction l; intros; simpl; auto. rewrite IHl; auto. apply insert_by_ext; auto. Qed.

Lemma score_of_aset_same_pub : forall st k e e' x,
  aget key_eqb st k = Some e -> p_score (e_pub e') = p_score (e_pub e) ->
  score_of (aset key_eqb st k e') x = score_of st x.
Proof.
  intros. unfold score_of.
  destruct (key_eqb x k) eqn:E.
  - apply key_eqb_eq in E; subst. rewrite (aget_aset_same key_eqb key_eqb_eq), H. assumption.
  - apply key_eqb_neq in E. rewrite (aget_aset_other key_eqb key_eqb_eq); auto.
Qed.

Lemma sorted_keys_refresh : forall o a st k e e',
  aget key_eqb st k = Some e -> p_score (e_pub e') = p_score (e_pub e) ->
  sorted_keys o a (aset key_eqb st k e') = sorted_keys o a st.
Proof.
  intros. unfold sorted_keys. rewrite (aset_keys_present key_eqb key_eqb_eq) with (v0 := e); auto.
  apply sort_by_ext. intros x y. unfold key_less.
  rewrite !(score_of_aset_same_pub st k e e'); auto.
Qed.

Lemma sorted_keys_unordered : forall a b st, sorted_keys false a st = sorted_keys false b st.
Proof. reflexivity. Qed.

(* --------------------------------------------------------------- the window *)
Lemma lastk_app : forall k (log : list pub) p, lastk (S k) (log ++ [p]) = lastk k log ++ [p].
Proof.
  intros. unfold lastk. rewrite app_length. simpl.
  replace (length log + 1 - S k)%nat with (length log - k)%nat by lia.
  rewrite skipn_app. replace (length log - k - length log)%nat with O by lia. reflexivity.
Qed.

Lemma window_app : forall (n : N) (log : list pub) (p : pub),
  skipn (length (window n log ++ [p]) - N.to_nat n) (window n log ++ [p]) = window n (log ++ [p]).
Proof.
  intros. unfold window.
  set (a := (length log - N.to_nat n)%nat).
  assert (Ha : (a <= length log)%nat) by (unfold a; lia).
  assert (E : skipn a log ++ [p] = skipn a (log ++ [p])).
  { rewrite skipn_app. replace (a - length log)%nat with O by lia. reflexivity. }
  rewrite E, skipn_skipn'. f_equal.
  rewrite skipn_length, !app_length. simpl. unfold a. lia.
Qed.

(* ----------------------------------------------------- simulation relation *)
Definition cache_ok (c : mchan) : Prop :=
  c_dirty c = false -> c_sorted c = sorted_keys (c_lastord c) (c_lastasc c) (c_state c).

Definition ord_ok (cfgs : list rawcfg) (i : N) (c : mchan) : Prop :=
  (c_ordered c = true -> ordered_of cfgs i = true) /\
  (c_state c <> [] -> c_ordered c = ordered_of cfgs i).

Definition chanR (cfgs : list rawcfg) (i : N) (c : mchan) (sc : schan) : Prop :=
  c_stream c = mkStream (N.of_nat (length (sc_log sc))) (sc_epoch sc) (retained (size_of cfgs i) sc) /\
  c_state c = sc_map sc /\
  (size_of cfgs i = 0 -> sc_log sc = []) /\
  ord_ok cfgs i c /\
  cache_ok c.

Definition hubR (cfgs : list rawcfg) (h : hub) (s : sstate) : Prop :=
  arel (chanR cfgs) (h_chans h) (ss_chans s) /\
  h_idem h = ss_idem s /\ h_now h = ss_now s /\ h_nep h = ss_nep s /\ h_bcast h = ss_bcast s.

Lemma hubR0 : forall cfgs, hubR cfgs hub0 sstate0.
Proof. intros. repeat split; try reflexivity. constructor. Qed.

Lemma chanR_pos : forall cfgs i c sc, chanR cfgs i c sc -> chan_pos c = s_pos sc.
Proof. intros cfgs i c sc (E & _). unfold chan_pos, s_pos. rewrite E. reflexivity. Qed.

Lemma chanR_new : forall cfgs i ep o,
  (o = true -> ordered_of cfgs i = true) -> chanR cfgs i (new_chan ep o) (mkSC ep [] [] 0 0 0).
Proof.
  intros. unfold chanR, new_chan, ord_ok, cache_ok; simpl. repeat split; auto.
  intro C; contradiction C; reflexivity.
Qed.

(* fields of the hub that the channel / expiry setters leave alone *)
Ltac hub_simpl := unfold set_chan, set_chans, set_exp, set_idem, set_now, set_nep, set_pend, add_bcast,
                         set_queue, set_kexp, track, get_chan in *; simpl in *.

Lemma hubR_set_chan : forall cfgs h s ch c' sc,
  hubR cfgs h s -> aget N.eqb (ss_chans s) ch = Some sc -> chanR cfgs ch c' sc ->
  hubR cfgs (set_chan h ch c') s.
Proof.
  intros cfgs h s ch c' sc (HC & HI & HN & HE & HB) G HCR.
  unfold hubR; hub_simpl. repeat split; auto.
  rewrite <- (aset_same N.eqb N_eqb_eq' _ _ _ G). apply arel_set; auto.
Qed.

(* ------------------------------------------------------------------- clear *)
Lemma clear_sim : forall cfgs h s ch,
  hubR cfgs h s -> hubR cfgs (clear h ch) (spec_clear s ch).
Proof.
  intros cfgs h s ch (HC & HI & HN & HE & HB). unfold clear, spec_clear.
  destruct (get_chan h ch) eqn:G; unfold hubR; hub_simpl; repeat split; auto; try congruence.
  - apply arel_del; auto.
  - unfold get_chan in G. pose proof (arel_get_none _ _ _ _ HC G) as G'.
    rewrite (adel_absent N.eqb _ _ G'). assumption.
Qed.

(* ----------------------------------------------------------------- advance *)
Lemma advance_sim : forall cfgs h s n,
  hubR cfgs h s ->
  hubR cfgs (set_now h (h_now h + n)) (mkSS (ss_chans s) (ss_idem s) (ss_now s + n) (ss_nep s) (ss_bcast s)).
Proof. intros cfgs h s n (HC & HI & HN & HE & HB). unfold hubR; simpl. repeat split; auto; congruence. Qed.

(* ------------------------------------------------------------- read stream *)


(* -------------------------------------------------------------- read state *)
Lemma refresh_cache_sorted : forall c asc,
  cache_ok c -> c_sorted (refresh_cache c asc) = sorted_keys (c_ordered c) asc (c_state c).
Proof.
  intros c asc HK. unfold refresh_cache.
  destruct (c_dirty c) eqn:D; simpl; auto.
  destruct (negb (Nat.eqb (length (c_sorted c)) (length (c_state c)))); simpl; auto.
  destruct (Bool.eqb (c_lastord c) (c_ordered c)) eqn:E1; simpl; auto.
  apply eqb_prop in E1.
  destruct (c_ordered c) eqn:O; simpl.
  - destruct (Bool.eqb (c_lastasc c) asc) eqn:E2; simpl; auto.
    apply eqb_prop in E2. rewrite HK; auto. rewrite E1, E2. reflexivity.
  - rewrite HK; auto. rewrite E1. reflexivity.
Qed.

Lemma refresh_cache_chanR : forall cfgs i c sc asc,
  chanR cfgs i c sc -> chanR cfgs i (refresh_cache c asc) sc.
Proof.
  intros cfgs i c sc asc (E1 & E2 & E3 & E4 & E5). unfold refresh_cache.
  match goal with |- context [if ?b then _ else _] => destruct b end.
  - unfold chanR, ord_ok, cache_ok in *; simpl. repeat split; auto; tauto.
  - unfold chanR; auto.
Qed.

Lemma state_page_nil : forall o st p cur lim asc, state_page o st [] p cur lim asc = StOk [] p [].
Proof. reflexivity. Qed.

Lemma sorted_keys_nil : forall o a, sorted_keys o a [] = [].
Proof. reflexivity. Qed.


