(* C01: preservation of the main invariant by every action, and the theorems over all
   schedules. *)
From Coq Require Import List NArith Bool Lia ZifyN ZifyNat ZifyBool Sorting.Sorted.
From Cfg Require Import Model.Merge Model.MergeSpec Proofs.Merge Model.Positioned Model.PositionedSpec
  Proofs.PositionedLib Proofs.Positioned.
Import ListNotations.
Open Scope N_scope.

Ltac nb H Hnb Hcw :=
  unfold step, emit_push in H; rewrite ?Hnb in H; rewrite ?Hcw in H; cbn [app emits] in H; cbv iota in H.

Lemma sinv_not_replied_at_check : forall c s p lag ph,
  c_pos c = true ->
  SInv c s -> dl s = DPub p lag ph -> ph <> PSync -> po p <> 0 -> in_window (pc s) = false.
Proof.
  intros c s p lag ph Hpos I Hd Hph Hp0.
  destruct (in_window (pc s)) eqn:E; [|reflexivity]. exfalso.
  pose proof (i_entry_pc c s I Hpos E) as He.
  destruct (i_entry_dl c s I He p lag ph Hd) as [X|[_ X]]; contradiction.
Qed.

Lemma bound_gpos : forall s, in_window (pc s) = false -> bound s = g_pos s.
Proof. intros s H. unfold bound. destruct (pc s); try reflexivity; discriminate. Qed.

(* LCheck on a publication: the 4-way offset/epoch decision *)
Lemma check_pub_recv : forall c s p lag,
  c_pos c = true -> SInv c s -> dl s = DPub p lag PCheck -> RecvInv s -> RecvInv (check_pub c s p lag).
Proof.
  intros c s p lag Hpos I Hd HR.
  assert (Hp0 : po p <> 0 \/ po p = 0) by lia.
  assert (Hpend : pend s = None) by (unfold pend; rewrite Hd; reflexivity).
  unfold check_pub.
  destruct (ch s) as [| |pos pep] eqn:Hch.
  1,2: (apply (recvinv_frame s); [exact HR|reflexivity|reflexivity| |apply incl_refl];
        unfold pend, set_dl; cbn [dl]; rewrite Hd; reflexivity).
  rewrite Hpos. cbn [negb].
  assert (Hpg : pos = g_pos s) by (eapply (i_pos c s I); eauto).
  destruct lag.
  { apply (recvinv_frame s); [exact HR|reflexivity|reflexivity| |apply incl_refl].
    unfold pend, set_dl, set_pending; cbn [dl]; rewrite Hd; reflexivity. }
  destruct (negb (pe p =? pep) && negb (pep =? 0))%bool.
  { apply (recvinv_frame s); [exact HR|reflexivity|reflexivity| |apply incl_refl].
    unfold pend, set_dl, set_pending; cbn [dl]; rewrite Hd; reflexivity. }
  set (adopt := (negb (pe p =? pep) && (pep =? 0))%bool).
  set (pep' := if adopt then pe p else pep).
  set (s1 := if adopt then set_ch s (Sub pos pep') (g_pos s) else s).
  assert (E1 : log s1 = log s /\ g_log s1 = g_log s /\ pc s1 = pc s /\ g_pos s1 = g_pos s /\ dl s1 = dl s /\ pending s1 = pending s).
  { unfold s1. destruct adopt; unfold set_ch; cbn; repeat split; reflexivity. }
  destruct E1 as (L1 & L2 & L3 & L4 & L5 & L6).
  destruct (pos + 1 <? po p) eqn:Egt.
  { apply (recvinv_frame s); [exact HR| | | |].
    - unfold set_dl, set_pending; cbn [log]. rewrite L1. reflexivity.
    - unfold bound, set_dl, set_pending; cbn [pc g_pos]. rewrite L3, L4. reflexivity.
    - unfold pend, set_dl, set_pending; cbn [dl]. rewrite Hd. reflexivity.
    - unfold set_dl, set_pending; cbn [g_log]. rewrite L2. apply incl_refl. }
  destruct (po p <? pos + 1) eqn:Elt.
  { apply (recvinv_frame s); [exact HR| | | |].
    - unfold set_dl, set_pending; cbn [log]. rewrite L1. reflexivity.
    - unfold bound, set_dl, set_pending; cbn [pc g_pos]. rewrite L3, L4. reflexivity.
    - unfold pend, set_dl, set_pending; cbn [dl]. rewrite Hd. reflexivity.
    - unfold set_dl, set_pending; cbn [g_log]. rewrite L2. apply incl_refl. }
  (* the publication is exactly the next one: advance *)
  assert (Hnext : po p = g_pos s + 1) by lia.
  assert (Hwin : in_window (pc s) = false).
  { eapply sinv_not_replied_at_check; eauto; [discriminate|lia]. }
  pose proof (bound_gpos s Hwin) as Hb.
  destruct (i_dl c s I p false PCheck Hd) as [Hprov _].
  intros p0 r Hr.
  assert (Hr0 : recv (log s) = Some (p0, r)).
  { revert Hr. destruct (pf p); unfold set_dl, set_ch; cbn [log]; rewrite L1; auto. }
  destruct (HR p0 r Hr0) as (A & B & C & D & E & F). rewrite Hb in *.
  assert (Hb' : forall d, bound (set_dl (set_ch s1 (Sub (po p) pep') (po p)) d) = po p).
  { intros d. unfold bound, set_dl, set_ch; cbn [pc g_pos]. rewrite L3. destruct (pc s); try reflexivity; discriminate. }
  assert (Hg' : forall d, g_log (set_dl (set_ch s1 (Sub (po p) pep') (po p)) d) = g_log s).
  { intros d. unfold set_dl, set_ch; cbn [g_log]. exact L2. }
  destruct (pf p) eqn:Hf; rewrite Hb', Hg'.
  - (* withheld by the filter: position moves, nothing is sent *)
    assert (Hpn : pend (set_dl (set_ch s1 (Sub (po p) pep') (po p)) DIdle) = None) by reflexivity.
    rewrite Hpn.
    split; [exact A|]. split; [|split; [lia|split; [exact D|split]]].
    + eapply Forall_impl; [|exact B]. intros; cbn in *; lia.
    + intros o H1 H2. destruct (N.eq_dec o (po p)) as [->|Hne].
      * right; left. apply withheld_In. exists p. auto.
      * destruct (E o H1) as [X|[X|X]]; [lia|auto|auto|]. rewrite Hpend in X. discriminate.
    + intros o Ho. discriminate.
  - assert (Hpn : pend (set_dl (set_ch s1 (Sub (po p) pep') (po p)) (DPub p false PEnq)) = Some (po p)).
    { unfold pend, set_dl, set_ch; cbn [dl]. destruct (po p =? 0) eqn:E0; [apply N.eqb_eq in E0; lia|reflexivity]. }
    rewrite Hpn.
    split; [exact A|]. split; [|split; [lia|split; [exact D|split]]].
    + eapply Forall_impl; [|exact B]. intros; cbn in *; lia.
    + intros o H1 H2. destruct (N.eq_dec o (po p)) as [->|Hne]; [auto|].
      destruct (E o H1) as [X|[X|X]]; [lia|auto|auto|]. rewrite Hpend in X. discriminate.
    + intros o Ho. inv_some Ho. split; [reflexivity|]. split; [lia|].
      eapply Forall_impl; [|exact B]. intros; cbn in *; lia.
Qed.

Lemma closed_mono : forall c s l s', c_batch c = false -> cw s = [] ->
  step c s l = Some s' -> closed s = true -> closed s' = true.
Proof.
  intros c s l s' Hnb Hcw H Ec.
  destruct l; nb H Hnb Hcw; break_step H; inv_some H;
    rewrite ?emits_eq, ?emit_eq, ?Ec;
    try match goal with |- context [check_pub ?c ?s ?p ?lag] =>
          pose proof (check_pub_fields c s p lag) as F; cbv zeta in F;
          destruct F as (_ & _ & _ & _ & _ & _ & _ & _ & _ & F10 & _); rewrite F10 end;
    unf; unfold with_log; cbn; try rewrite Ec; try reflexivity; try assumption; try congruence.
Qed.

Lemma step_log_closed : forall c s l s', c_batch c = false -> cw s = [] ->
  step c s l = Some s' -> closed s' = true ->
  recv (log s') = recv (log s).
Proof.
  intros c s l s' Hnb Hcw H Hc'.
  destruct l; nb H Hnb Hcw; break_step H; inv_some H;
    rewrite ?emits_eq, ?emit_eq in *;
    try match goal with |- context [check_pub ?c ?s ?p ?lag] =>
          pose proof (check_pub_fields c s p lag) as F; cbv zeta in F;
          destruct F as (_ & _ & _ & _ & _ & _ & _ & _ & _ & _ & _ & _ & F13 & _); rewrite F13 end;
    unfold set_pending in *; cbn [closed] in *;
    repeat match goal with |- context [if closed ?s then _ else _] => destruct (closed s) eqn:? end;
    unf; unfold with_log in *; cbn [log closed] in *; try reflexivity; try congruence;
    try (apply recv_app_boring; reflexivity).
Qed.

Lemma step_pc_res : forall c s l s' r, good c -> MInv c s -> step c s l = Some s' ->
  pc_res (pc s') = Some r -> res_ok' c (g_log s') r.
Proof.
  intros c s l s' r Hgood I H Hr.
  assert (Hnb : c_batch c = false) by apply Hgood.
  assert (Hcw : cw s = []) by (apply (i_cw_nil c s (m_s c s I)); exact Hnb).
  assert (Hkeep : pc_res (pc s) = Some r -> incl (g_log s) (g_log s') -> res_ok' c (g_log s') r).
  { intros E Hi. eapply res_ok_mono; [exact Hi|]. apply (m_res c s I). exact E. }
  destruct l; nb H Hnb Hcw; break_step H; inv_some H.
  all: rewrite ?emits_eq, ?emit_eq in *.
  all: repeat match goal with |- context [if closed ?s then _ else _] => destruct (closed s) eqn:? end.
  all: repeat match goal with H : context [if closed ?s then _ else _] |- _ => destruct (closed s) eqn:? end.
  all: try match goal with |- context [check_pub ?c ?s ?p ?lag] =>
          pose proof (check_pub_fields c s p lag) as F; cbv zeta in F;
          destruct F as (_ & _ & _ & F4 & _ & _ & _ & _ & _ & _ & F11 & _); rewrite F4; rewrite F11 in Hr end.
  all: unf; unfold with_log in *; cbn [pc g_log] in *.
  all: try (apply Hkeep; [assumption|try apply incl_refl; apply incl_appl; apply incl_refl]).
  all: try (apply Hkeep; [congruence|apply incl_refl]).
  all: try discriminate.
  all: try (apply (m_res c s I); assumption).
  all: destruct Hgood as (Hpos & Hg2 & Hg3 & _); try congruence.
  inv_some Hr.
  match goal with E : pc s = SHist ?h |- _ => destruct (i_hist c s (m_s c s I) h E) as [Hprov Hwf] end.
  match goal with E : do_merge _ _ _ = Some _ |- _ => rename E into Hm end.
  split; [|eapply do_merge_flags; eauto].
  eapply do_merge_ok; eauto; [repeat split; assumption|].
  intros p Hp. apply in_app_or in Hp. destruct Hp as [Hp|Hp]; [apply Hprov; exact Hp|].
  apply (i_buf c s (m_s c s I)). exact Hp.
Qed.

Lemma step_srv : forall c s l s' r, c_pos c = true -> c_batch c = false -> MInv c s -> step c s l = Some s' ->
  pc s' = SSrvCommitted r -> g_pos s' = r_pos r /\ c_var c = VServer.
Proof.
  intros c s l s' r Hpos Hnb I H Hr.
  assert (Hcw : cw s = []) by (apply (i_cw_nil c s (m_s c s I)); exact Hnb).
  destruct l; nb H Hnb Hcw; break_step H; inv_some H.
  all: rewrite ?emits_eq, ?emit_eq in *.
  all: repeat match goal with |- context [if closed ?s then _ else _] => destruct (closed s) eqn:? end.
  all: repeat match goal with H : context [if closed ?s then _ else _] |- _ => destruct (closed s) eqn:? end.
  all: try match goal with |- context [check_pub ?c ?s ?p ?lag] => idtac | _ =>
         unf; unfold with_log in *; cbn [pc g_pos] in *; try discriminate;
         try (apply (m_srv c s I); congruence) end.
  - (* LCheck on a publication cannot happen while the subscribe window is open *)
    exfalso.
    pose proof (check_pub_fields c s p lag) as F; cbv zeta in F.
    destruct F as (_ & _ & _ & _ & _ & _ & _ & _ & _ & _ & F11 & _). rewrite F11 in Hr.
    assert (Hw : in_window (pc s) = true) by (rewrite Hr; reflexivity).
    pose proof (i_entry_pc c s (m_s c s I) Hpos Hw) as He.
    match goal with E : dl s = DPub _ _ PCheck |- _ =>
      destruct (i_entry_dl c s (m_s c s I) He _ _ _ E) as [X|[X _]]; discriminate end.
  - inv_some Hr. split; [reflexivity|].
    match goal with E : (is_server c && _)%bool = true |- _ =>
      apply andb_true_iff in E; destruct E as [E _]; unfold is_server in E;
      destruct (c_var c); try discriminate; reflexivity end.
Qed.

Lemma minv_init : forall c, MInv c init.
Proof.
  intros c. constructor.
  - apply sinv_init.
  - intros r H. discriminate.
  - intros r H. discriminate.
  - intros _ p0 r H. discriminate.
  - intros p0 r H. discriminate.
Qed.

Ltac ctx_rw :=
  repeat match goal with
  | E : pc ?s = _ |- context [pc ?s] => rewrite E
  | E : dl ?s = _ |- context [dl ?s] => rewrite E
  | E : (po ?p =? 0) = _ |- context [po ?p =? 0] => rewrite E
  end.

Ltac frame_tac HR :=
  apply (recvinv_frame _ _ HR);
  [ unf; unfold with_log; cbn [log]; try reflexivity;
    try (apply recv_app_boring; reflexivity);
    try (match goal with k : ukind |- _ => destruct k; apply recv_app_boring; reflexivity end)
  | unfold bound; unf; unfold with_log; cbn [pc g_pos]; ctx_rw; try reflexivity
  | unfold pend; unf; unfold with_log; cbn [dl]; ctx_rw; try reflexivity
  | unf; unfold with_log; cbn [g_log]; try apply incl_refl; try (apply incl_appl; apply incl_refl) ].

Lemma srvpush_recv : forall c s r s',
  good c -> SInv c s -> res_ok' c (g_log s) r -> has_start (log s) = false -> ps_entry s = true ->
  c_var c = VServer ->
  log s' = log s ++ FSubPush (r_off r) (r_ep r) :: (if c_fix_srvpubs c then map FPub (r_pubs r) else []) ->
  g_log s' = g_log s -> dl s' = dl s -> bound s' = r_pos r ->
  RecvInv s'.
Proof.
  intros c s r s' (Hpos & Hanch & Hsrv & Hnb) IS (Hok & Hf1 & Hf2) Hns He Hvar Hlog Hg Hd Hb.
  pose proof Hok as (A & _).
  assert (Hpn : pend s' = None).
  { unfold pend. rewrite Hd. exact (pend_none_entry c s IS He). }
  destruct (c_fix_srvpubs c) eqn:Hfix.
  - eapply (recvinv_of_res _ (g_log s) r (map po (r_pubs r)) true); try reflexivity; try exact Hok; try assumption.
    rewrite Hlog. rewrite (recv_app_nostart_l _ _ Hns). cbn [recv is_start start_off start_pubs app].
    rewrite (pub_offs_map_FPub _ (sorted_cons_nonzero _ _ A)). reflexivity.
  - assert (Hnil : r_pubs r = []).
    { apply Hf1. destruct (r_recovered r) eqn:Er; [|reflexivity].
      specialize (Hf2 eq_refl). specialize (Hsrv Hf2 Hvar). congruence. }
    eapply (recvinv_of_res _ (g_log s) r (map po (r_pubs r)) true); try reflexivity; try exact Hok; try assumption.
    rewrite Hlog. rewrite (recv_app_nostart_l _ _ Hns). cbn. rewrite Hnil. reflexivity.
Qed.

Lemma is_server_var : forall c, is_server c = true -> c_var c = VServer.
Proof. intros c H. unfold is_server in H. destruct (c_var c); try discriminate; reflexivity. Qed.

Lemma minv_step : forall c s l s', good c -> MInv c s -> step c s l = Some s' -> MInv c s'.
Proof.
  intros c s l s' Hgood I H.
  pose proof Hgood as (Hpos & Hanch & Hsrv & Hnb).
  assert (Hcw : cw s = []) by (apply (i_cw_nil c s (m_s c s I)); exact Hnb).
  assert (HS' : SInv c s') by (eapply sinv_step; eauto; apply (m_s c s I)).
  assert (Hincl : incl (g_log s) (g_log s')).
  { clear - H Hnb Hcw. destruct l; nb H Hnb Hcw; break_step H; inv_some H;
      try rewrite !emits_eq; try rewrite !emit_eq;
      repeat match goal with |- context [if closed ?s then _ else _] => destruct (closed s) eqn:? end;
      try match goal with |- context [check_pub ?c ?s ?p ?lag] =>
            pose proof (check_pub_fields c s p lag) as F; cbv zeta in F;
            destruct F as (_ & _ & _ & F4 & _); rewrite F4 end;
      unf; unfold with_log; cbn [g_log]; try apply incl_refl; apply incl_appl; apply incl_refl. }
  (* the new RecvInv, whenever the connection is still open *)
  assert (HR' : closed s' = false -> RecvInv s').
  { intros Hc'.
    assert (Hc : closed s = false).
    { destruct (closed s) eqn:Ec; [|reflexivity]. rewrite (closed_mono _ _ _ _ Hnb Hcw H Ec) in Hc'. discriminate. }
    destruct l; nb H Hnb Hcw; break_step H; inv_some H; boolfix.
    all: destruct I as [IS Ires Isrv Irecv0 Ispec];
         assert (Irecv : RecvInv s) by (apply Irecv0; first [exact Hc | assumption]); clear Irecv0.
    all: try rewrite !emits_eq; try rewrite !emit_eq; unfold set_pending; cbn [closed with_log]; try rewrite !Hc.
    all: try (frame_tac Irecv; fail).
    all: try (exfalso; clear - Hc'; unf; cbn in Hc'; discriminate).
    (* LSrvPush: either order (after the commit as the code stands, before it when patched) *)
    all: try (match goal with |- context [FSubPush] => idtac end;
      match goal with IS0 : SInv _ ?s0, E : pc ?s0 = ?P |- _ =>
        assert (Hns : has_start (log s0) = false) by (apply (i_prestart c s0 IS0); rewrite E; reflexivity);
        assert (He : ps_entry s0 = true) by (apply (i_entry_pc c s0 IS0 Hpos); rewrite E; reflexivity);
        assert (Hres : res_ok' c (g_log s0) r) by (apply Ires; rewrite E; reflexivity);
        assert (Hvar : c_var c = VServer) by
          first [ match goal with E' : pc _ = SSrvCommitted _ |- _ => exact (proj2 (Isrv _ E')) end
                | apply is_server_var; assumption ];
        cbn [closed with_log]; rewrite ?Hc; cbn [with_log log];
        eapply (srvpush_recv c s0 r); try eassumption; try reflexivity;
        try match goal with E' : c_fix_srvpubs _ = _ |- _ => rewrite E' end;
        try (unfold set_pc, with_log; cbn [log]; rewrite <- ?app_assoc; reflexivity);
        try (unfold bound, set_pc, with_log; cbn [pc g_pos]; try reflexivity;
             match goal with E' : pc _ = SSrvCommitted _ |- _ => exact (proj1 (Isrv _ E')) end)
      end).
    - (* LCheck on a publication *)
      apply check_pub_recv; auto.
    - (* LEnqueue of a publication *)
      match goal with E : dl s = DPub ?p ?lag PEnq |- _ => rename E into Hd end.
      destruct (i_dl c s IS _ _ _ Hd) as [Hprov Hnf]. specialize (Hnf eq_refl).
      destruct (po p =? 0) eqn:E0.
      { frame_tac Irecv. apply recv_app_boring; [reflexivity|]. cbn [pub_offs]. rewrite E0. reflexivity. }
      intros p0 r' Hr'. unfold set_dl, with_log in Hr'; cbn [log] in Hr'.
      destruct (recv (log s)) as [[p00 r]|] eqn:Er.
      2:{ apply recv_none in Er. rewrite (recv_app_nostart _ _ Er) in Hr'. discriminate. }
      rewrite (recv_app_start _ _ _ [FPub p] Er) in Hr'. cbn [pub_offs] in Hr'. rewrite E0 in Hr'.
      inv_some Hr'.
      destruct (Irecv p0 r Er) as (A & B & C & D & E & F).
      assert (Hpend : pend s = Some (po p)) by (unfold pend; rewrite Hd, E0; reflexivity).
      destruct (F _ Hpend) as (F1 & F2 & F3).
      assert (Hb : bound (set_dl (with_log s (log s ++ [FPub p])) DIdle) = bound s) by reflexivity.
      assert (Hg : g_log (set_dl (with_log s (log s ++ [FPub p])) DIdle) = g_log s) by reflexivity.
      assert (Hpn : pend (set_dl (with_log s (log s ++ [FPub p])) DIdle) = None) by reflexivity.
      rewrite Hb, Hg, Hpn.
      split; [|split; [|split; [exact C|split; [|split]]]].
      + change (p0 :: r ++ [po p]) with ((p0 :: r) ++ [po p]). apply sorted_app_one; [exact A|].
        constructor; [lia|exact F3].
      + apply Forall_app. split; [exact B|]. constructor; [lia|constructor].
      + intros o Ho. apply in_app_or in Ho. destruct Ho as [Ho|[<-|[]]]; [auto|].
        apply published_real_In. exists p. auto.
      + intros o H1 H2. destruct (E o H1 H2) as [X|[X|X]].
        * left. apply in_or_app. left. exact X.
        * right; left. exact X.
        * rewrite Hpend in X. inv_some X. left. apply in_or_app. right. left. reflexivity.
      + intros o Ho. discriminate.
    - (* LWriteReply *)
      match goal with E : pc s = SMerged ?r |- _ => rename E into Hpc end.
      assert (Hns : has_start (log s) = false) by (apply (i_prestart c s IS); rewrite Hpc; reflexivity).
      assert (He : ps_entry s = true) by (apply (i_entry_pc c s IS Hpos); rewrite Hpc; reflexivity).
      assert (Hres : res_ok' c (g_log s) r) by (apply Ires; rewrite Hpc; reflexivity).
      destruct Hres as (Hok & _).
      eapply (recvinv_of_res _ (g_log s) r (map po (r_pubs r)) true); try reflexivity; try exact Hok.
      + destruct Hok as (A & _). exact A.
      + unfold set_pc, with_log; cbn [log]. rewrite (recv_app_nostart _ _ Hns). cbn. reflexivity.
      + unfold pend, set_pc, with_log; cbn [dl]. exact (pend_none_entry c s IS He).
    - (* LCommit, server side: no subscribe push on the wire yet *)
      match goal with E : pc s = SMerged ?r |- _ => rename E into Hpc end.
      assert (Hns : has_start (log s) = false) by (apply (i_prestart c s IS); rewrite Hpc; reflexivity).
      intros p0 r' Hr'. unfold set_pc, set_ch in Hr'; cbn [log] in Hr'.
      apply recv_none in Hns. congruence.
 }
  constructor.
  - exact HS'.
  - intros r Hr. eapply step_pc_res; eauto.
  - intros r Hr. eapply step_srv; eauto.
  - exact HR'.
  - destruct (closed s') eqn:Hc'.
    + eapply spec_recv_eq; [eapply step_log_closed; eauto|].
      eapply spec_mono; [exact Hincl|]. apply (m_spec c s I).
    + apply recvinv_spec. apply HR'. reflexivity.
Qed.

(* ------------------------------------------------------------------ *)
(* all schedules                                                        *)

Lemma minv_run : forall c ls s s', good c -> MInv c s -> run c s ls = Some s' -> MInv c s'.
Proof.
  induction ls as [|l ls IH]; intros s s' Hg I H; cbn [run] in H.
  - inv_some H. exact I.
  - destruct (step c s l) as [s1|] eqn:E; [|discriminate].
    eapply IH; [exact Hg| |exact H]. eapply minv_step; eauto.
Qed.

Theorem c01_all_schedules : forall c ls s,
  good c -> run c init ls = Some s -> C01Spec (g_log s) (log s).
Proof.
  intros c ls s Hg H. apply (m_spec c s). eapply minv_run; eauto. apply minv_init.
Qed.
