(* Proofs for C35 that do not depend on the generated tag table:
   SlotToNode = contiguous assignment, and a fast decidable check of
   "slots distinct and balanced over n nodes" proved sound. *)
From Coq Require Import List NArith Bool Lia ZifyN ZifyBool Sorting.Sorted Sorting.Permutation Sorting.Mergesort Orders.
From Cfg Require Import Model.Crc16 Model.Partition Proofs.Crc16.
Import ListNotations.
Open Scope N_scope.

(* ---------------- SlotToNode ---------------- *)

Lemma node_start_mono : forall n j1 j2, j1 <= j2 -> node_start n j1 <= node_start n j2.
Proof.
  intros n j1 j2 H. unfold node_start.
  pose proof (N.mul_le_mono_r j1 j2 (total_slots / n) H). lia.
Qed.

Theorem slot_to_node_spec : forall n s,
  1 <= n -> n <= total_slots -> s < total_slots ->
  exists j, slot_to_node s n = Some j /\ owns n j s.
Proof.
  intros n s Hn1 Hn2 Hs. unfold slot_to_node, owns, node_start.
  destruct (N.eqb_spec n 0); [lia|].
  pose proof (N.div_mod total_slots n ltac:(lia)) as DM.
  pose proof (N.mod_lt total_slots n ltac:(lia)) as ML.
  set (q := total_slots / n) in *. set (r := total_slots mod n) in *.
  assert (Hq : 1 <= q).
  { destruct (N.eq_dec q 0) as [Z|]; [|lia]. rewrite Z in DM. lia. }
  destruct (N.ltb_spec s (r * (q + 1))) as [L|G].
  - set (j := s / (q + 1)).
    pose proof (N.mul_div_le s (q + 1) ltac:(lia)) as A.
    pose proof (N.mul_succ_div_gt s (q + 1) ltac:(lia)) as B.
    fold j in A, B.
    assert (Hj : j < r) by nia.
    exists j. split; [reflexivity|].
    replace (N.min j r) with j by lia. replace (N.min (j + 1) r) with (j + 1) by lia.
    split; [lia|]. split; nia.
  - destruct (N.eqb_spec q 0); [lia|].
    set (k := (s - r * (q + 1)) / q).
    pose proof (N.mul_div_le (s - r * (q + 1)) q ltac:(lia)) as A.
    pose proof (N.mul_succ_div_gt (s - r * (q + 1)) q ltac:(lia)) as B.
    fold k in A, B.
    assert (Hk : r + k < n) by nia.
    exists (r + k). split; [reflexivity|].
    replace (N.min (r + k) r) with r by lia. replace (N.min (r + k + 1) r) with r by lia.
    split; [lia|]. split; nia.
Qed.

(* the owner is unique: intervals of different nodes are disjoint *)
Lemma owns_unique : forall n j1 j2 s, owns n j1 s -> owns n j2 s -> j1 = j2.
Proof.
  intros n j1 j2 s (A1 & A2 & A3) (B1 & B2 & B3).
  destruct (N.lt_trichotomy j1 j2) as [L|[E|L]]; [|assumption|]; exfalso.
  - pose proof (node_start_mono n (j1 + 1) j2 ltac:(lia)). lia.
  - pose proof (node_start_mono n (j2 + 1) j1 ltac:(lia)). lia.
Qed.

(* ---------------- sorting ---------------- *)
Module NOrder <: TotalLeBool.
  Definition t := N.
  Definition leb := N.leb.
  Theorem leb_total : forall a1 a2, leb a1 a2 = true \/ leb a2 a1 = true.
  Proof. intros. unfold leb. destruct (N.leb_spec a1 a2); [left; reflexivity|right; apply N.leb_le; lia]. Qed.
End NOrder.
Module NSort := Sort NOrder.

Lemma sort_strongly : forall l, StronglySorted N.le (NSort.sort l).
Proof.
  intro l.
  assert (T : Relations_1.Transitive (fun x y => is_true (NOrder.leb x y))).
  { intros x y z. unfold is_true, NOrder.leb. rewrite !N.leb_le. lia. }
  pose proof (NSort.StronglySorted_sort l T) as S.
  induction S as [|a l' S IH F]; constructor; [assumption|].
  eapply Forall_impl; [|exact F]. intros b Hb. apply N.leb_le. exact Hb.
Qed.

Lemma perm_filter_length : forall (f : N -> bool) l l',
  Permutation l l' -> length (filter f l) = length (filter f l').
Proof.
  intros f l l' P. induction P; cbn [filter]; try congruence.
  - destruct (f x); cbn; congruence.
  - destruct (f x), (f y); reflexivity.
Qed.

Lemma node_count_sort : forall n j l, node_count n j (NSort.sort l) = node_count n j l.
Proof.
  intros. unfold node_count. f_equal. symmetry. apply perm_filter_length, NSort.Permuted_sort.
Qed.

(* ---------------- distinctness ---------------- *)
Fixpoint strict_asc (l : list N) : bool :=
  match l with
  | a :: (b :: _) as t => (a <? b) && strict_asc t
  | _ => true
  end.

Lemma strict_asc_lb : forall l a, strict_asc (a :: l) = true -> Forall (fun x => a < x) l.
Proof.
  induction l as [|b l IH]; intros a H; [constructor|].
  cbn [strict_asc] in H. apply andb_prop in H. destruct H as [H1 H2].
  constructor; [lia|]. eapply Forall_impl; [|exact (IH b H2)]. intros; cbv beta in *; lia.
Qed.

Lemma strict_asc_NoDup : forall l, strict_asc l = true -> NoDup l.
Proof.
  induction l as [|a l IH]; intro H; constructor.
  - intro I. pose proof (strict_asc_lb l a H) as F. rewrite Forall_forall in F.
    specialize (F a I). lia.
  - apply IH. destruct l as [|b l]; [reflexivity|].
    cbn [strict_asc] in H. apply andb_prop in H. tauto.
Qed.

(* ---------------- balance: one pass over the sorted slots ---------------- *)
Definition start_qr (q r j : N) : N := j * q + N.min j r.

(* State: we are filling node j, whose interval ends at e = start (j+1); k
   slots seen for it so far.  Every node must receive lo or lo+1 slots
   (lo1 = lo + 1), so an element beyond e must fall into the very next node
   (if it does not, fail).  The next boundary is computed incrementally:
   start (j+2) = start (j+1) + q + [j+1 < r]. *)
Fixpoint walk (q r lo lo1 n e k j : N) (ss : list N) : bool :=
  match ss with
  | [] => (lo <=? k) && (k <=? lo1) && (j + 1 =? n)
  | s :: ss' =>
      if s <? e then walk q r lo lo1 n e (k + 1) j ss'
      else
        (lo <=? k) && (k <=? lo1) &&
        (let j' := j + 1 in
         let e' := if j' <? r then e + q + 1 else e + q in
         (s <? e') && walk q r lo lo1 n e' 1 j' ss')
  end.

(* [ss] sorted ascending, [len] its length *)
Definition balanced_b (len n : N) (ss : list N) : bool :=
  let q := total_slots / n in
  let r := total_slots mod n in
  let lo := len / n in
  walk q r lo (lo + 1) n (start_qr q r 1) 0 0 ss.

Lemma start_qr_step : forall q r j,
  start_qr q r (j + 1 + 1) = (if j + 1 <? r then start_qr q r (j + 1) + q + 1 else start_qr q r (j + 1) + q).
Proof.
  intros. unfold start_qr. destruct (N.ltb_spec (j + 1) r); lia.
Qed.

Lemma filter_none : forall (f : N -> bool) l, Forall (fun x => f x = false) l -> filter f l = [].
Proof. induction 1; cbn [filter]; [reflexivity|]. rewrite H. assumption. Qed.

Lemma node_count_cons_in : forall n j s l, owns_b n j s = true -> node_count n j (s :: l) = node_count n j l + 1.
Proof. intros n j s l H. unfold node_count. cbn [filter]. rewrite H. cbn [length]. lia. Qed.

Lemma node_count_cons_out : forall n j s l, owns_b n j s = false -> node_count n j (s :: l) = node_count n j l.
Proof. intros n j s l H. unfold node_count. cbn [filter]. rewrite H. reflexivity. Qed.

Lemma walk_sound : forall n lo ss k j,
  StronglySorted N.le ss -> Forall (fun s => node_start n j <= s) ss ->
  walk (total_slots / n) (total_slots mod n) lo (lo + 1) n (node_start n (j + 1)) k j ss = true ->
  (lo <= k + node_count n j ss /\ k + node_count n j ss <= lo + 1) /\
  forall j', j < j' -> j' < n -> lo <= node_count n j' ss /\ node_count n j' ss <= lo + 1.
Proof.
  intros n lo. induction ss as [|s ss IH]; intros k j S LB W; cbn [walk] in W.
  - apply andb_prop in W. destruct W as [W W3]. apply andb_prop in W. destruct W as [W1 W2].
    unfold node_count; cbn. split; [lia|]. intros j' H1 H2. lia.
  - inversion S as [|? ? S' F]; subst. inversion LB as [|? ? LBs LB']; subst.
    destruct (N.ltb_spec s (node_start n (j + 1))) as [L|G].
    + (* s belongs to node j *)
      destruct (IH (k + 1) j S' LB' W) as [A B].
      assert (O : owns_b n j s = true).
      { unfold owns_b. apply andb_true_intro. split; [apply N.leb_le|apply N.ltb_lt]; assumption. }
      rewrite (node_count_cons_in _ _ _ _ O). split; [lia|].
      intros j' H1 H2.
      assert (O' : owns_b n j' s = false).
      { unfold owns_b. apply andb_false_intro1. apply N.leb_gt.
        pose proof (node_start_mono n (j + 1) j' ltac:(lia)). lia. }
      rewrite (node_count_cons_out _ _ _ _ O'). apply B; assumption.
    + (* node j is closed; s must open node j+1 *)
      apply andb_prop in W. destruct W as [W W3]. apply andb_prop in W. destruct W as [W1 W2].
      cbv zeta in W3.
      assert (ST : (if j + 1 <? total_slots mod n
                    then node_start n (j + 1) + total_slots / n + 1
                    else node_start n (j + 1) + total_slots / n) = node_start n (j + 1 + 1)).
      { symmetry. apply start_qr_step. }
      rewrite ST in W3. apply andb_prop in W3. destruct W3 as [W4 W5].
      assert (LB2 : Forall (fun x => node_start n (j + 1) <= x) ss).
      { eapply Forall_impl; [|exact F]. intros; cbv beta in *; lia. }
      destruct (IH 1 (j + 1) S' LB2 W5) as [A B].
      assert (Z : node_count n j (s :: ss) = 0).
      { unfold node_count. rewrite filter_none; [reflexivity|].
        constructor.
        - unfold owns_b. apply andb_false_intro2. apply N.ltb_ge. exact G.
        - eapply Forall_impl; [|exact LB2]. intros a Ha. cbv beta in *. unfold owns_b.
          apply andb_false_intro2. apply N.ltb_ge. exact Ha. }
      rewrite Z. split; [lia|].
      intros j' H1 H2.
      destruct (N.eq_dec j' (j + 1)) as [->|NE].
      * assert (O : owns_b n (j + 1) s = true).
        { unfold owns_b. apply andb_true_intro. split; [apply N.leb_le; exact G|exact W4]. }
        rewrite (node_count_cons_in _ _ _ _ O). lia.
      * assert (O' : owns_b n j' s = false).
        { unfold owns_b. apply andb_false_intro1. apply N.leb_gt.
          pose proof (node_start_mono n (j + 1 + 1) j' ltac:(lia)). lia. }
        rewrite (node_count_cons_out _ _ _ _ O'). apply B; lia.
Qed.

Lemma balanced_b_sound : forall n slots,
  1 <= n -> balanced_b (N.of_nat (length slots)) n (NSort.sort slots) = true -> balanced n slots.
Proof.
  intros n slots Hn B j Hj. unfold balanced_b in B. cbv zeta in B.
  change (start_qr (total_slots / n) (total_slots mod n) 1) with (node_start n (0 + 1)) in B.
  rewrite <- (node_count_sort n j slots).
  apply walk_sound in B; [|apply sort_strongly|].
  - destruct B as [B0 B]. destruct (N.eq_dec j 0) as [->|NZ]; [lia|]. apply B; lia.
  - apply Forall_forall. intros a _. unfold node_start. cbn. lia.
Qed.

(* ---------------- one table entry ---------------- *)
Definition entry_ok (e : N * list (list N)) : bool :=
  let '(p, tags) := e in
  let ss := NSort.sort (map tag_slot tags) in
  (N.of_nat (length tags) =? p) &&
  forallb (forallb (fun b => b <? 256)) tags &&
  strict_asc ss &&
  (let len := N.of_nat (length tags) in forallb (fun n => balanced_b len n ss) (nrange_from (N.to_nat p) 1)).

Definition table_ok (tbl : list (N * list (list N))) : bool := forallb entry_ok tbl.

Lemma tag_slot_spec : forall tag, forallb (fun b => b <? 256) tag = true -> tag_slot tag = slot_spec tag.
Proof.
  intros tag H. unfold tag_slot, slot_spec. rewrite crc16_loop_spec; [reflexivity|].
  rewrite forallb_forall in H. apply Forall_forall. intros b Hb. apply N.ltb_lt, H, Hb.
Qed.

Lemma map_tag_slot_spec : forall tags,
  forallb (forallb (fun b => b <? 256)) tags = true -> map tag_slot tags = map slot_spec tags.
Proof.
  induction tags as [|t tags IH]; intro H; [reflexivity|].
  cbn [forallb] in H. apply andb_prop in H. destruct H as [H1 H2].
  cbn [map]. rewrite tag_slot_spec, IH by assumption. reflexivity.
Qed.

(* What C35 says about one partition count. *)
Definition entry_good (p : N) (tags : list (list N)) : Prop :=
  N.of_nat (length tags) = p /\
  NoDup (map slot_spec tags) /\
  forall n, 1 <= n -> n <= p -> balanced n (map slot_spec tags).

Lemma entry_ok_sound : forall p tags, entry_ok (p, tags) = true -> entry_good p tags.
Proof.
  intros p tags H. unfold entry_ok in H.
  apply andb_prop in H. destruct H as [H H4]. apply andb_prop in H. destruct H as [H H3].
  apply andb_prop in H. destruct H as [H1 H2].
  rewrite (map_tag_slot_spec tags H2) in *.
  split; [apply N.eqb_eq; assumption|]. split.
  - apply strict_asc_NoDup in H3.
    eapply Permutation_NoDup; [apply Permutation_sym, NSort.Permuted_sort|exact H3].
  - intros n Hn1 Hn2. apply balanced_b_sound; [assumption|]. rewrite map_length.
    cbv zeta in H4. rewrite forallb_forall in H4. apply H4. apply in_nrange_from; [lia|]. rewrite N2Nat.id. lia.
Qed.

Lemma find_tags_In : forall tbl p tags, find_tags tbl p = Some tags -> In (p, tags) tbl.
Proof.
  induction tbl as [|[q t] tbl IH]; intros p tags H; cbn [find_tags] in H; [discriminate|].
  destruct (N.eqb_spec q p).
  - inversion H; subst. left. reflexivity.
  - right. apply IH. assumption.
Qed.

Theorem table_ok_sound : forall tbl, table_ok tbl = true ->
  forall p tags, find_tags tbl p = Some tags -> entry_good p tags.
Proof.
  intros tbl T p tags F. apply entry_ok_sound.
  unfold table_ok in T. rewrite forallb_forall in T. apply T, find_tags_In, F.
Qed.

(* balanced means exactly: any two nodes' counts differ by at most one *)
Lemma balanced_diff : forall n slots, balanced n slots ->
  forall j1 j2, j1 < n -> j2 < n ->
    node_count n j1 slots <= node_count n j2 slots + 1.
Proof. intros n slots B j1 j2 H1 H2. pose proof (B j1 H1). pose proof (B j2 H2). lia. Qed.

(* counting with the implementation's SlotToNode = counting owners *)
Definition to_node_is (n j s : N) : bool :=
  match slot_to_node s n with Some x => x =? j | None => false end.

Lemma to_node_is_owns : forall n j s,
  1 <= n -> n <= total_slots -> s < total_slots -> j < n -> to_node_is n j s = owns_b n j s.
Proof.
  intros n j s H1 H2 H3 Hj. unfold to_node_is.
  destruct (slot_to_node_spec n s H1 H2 H3) as (j0 & -> & O).
  destruct (N.eqb_spec j0 j) as [->|NE].
  - destruct O as (_ & A & B). unfold owns_b. symmetry. apply andb_true_intro.
    split; [apply N.leb_le|apply N.ltb_lt]; assumption.
  - destruct (owns_b n j s) eqn:OB; [|reflexivity]. exfalso. apply NE.
    unfold owns_b in OB. apply andb_prop in OB. destruct OB as [A B].
    apply (owns_unique n j0 j s O). split; [assumption|]. split; [apply N.leb_le|apply N.ltb_lt]; assumption.
Qed.

Theorem count_by_slot_to_node : forall n j slots,
  1 <= n -> n <= total_slots -> Forall (fun s => s < total_slots) slots -> j < n ->
  N.of_nat (length (filter (to_node_is n j) slots)) = node_count n j slots.
Proof.
  intros n j slots H1 H2 F Hj. unfold node_count. f_equal. f_equal.
  induction F as [|s l Hs F IH]; [reflexivity|]. cbn [filter].
  rewrite (to_node_is_owns n j s H1 H2 Hs Hj), IH. reflexivity.
Qed.

Lemma slot_spec_lt : forall key, slot_spec key < total_slots.
Proof. intro. unfold slot_spec. apply N.mod_lt. discriminate. Qed.

(* the supported partition counts are exactly the sizes of the table *)
Theorem find_tags_supported : forall tbl p,
  (exists tags, find_tags tbl p = Some tags) <-> In p (map fst tbl).
Proof.
  induction tbl as [|[q t] tbl IH]; intro p; cbn [find_tags map fst In].
  - split; [intros [? H]; discriminate|tauto].
  - destruct (N.eqb_spec q p) as [->|NE].
    + split; [tauto|]. intros _. exists t. reflexivity.
    + rewrite IH. split; [tauto|]. intros [E|H]; [contradiction|assumption].
Qed.
