(* C20 refinement, retention half: the StreamTTL / MetaTTL sweep iterations
   (heap + loop of expireStreams / removeChannels) implement "channels whose
   stream / metadata deadline has passed". *)
From Coq Require Import List NArith ZArith Bool Lia Permutation.
From Cfg Require Import Model.MapHub Model.MapSpec Proofs.MapBase Proofs.MapRefine Proofs.MapRefine2
  Proofs.MapReads Proofs.MapExpiry Proofs.MapExpiry2 Proofs.MapSweep Proofs.MapCorollaries.
Import ListNotations.
Open Scope N_scope.

(* ---------------------------------------------------------------- pop_min2 *)
Lemma pop_min2_none : forall q, pop_min2 q = None -> q = [].
Proof. destruct q as [|x q]; simpl; auto. destruct (pop_min2 q) as [[m r]|]; [destruct (item2_ltb m x)|]; discriminate. Qed.

Lemma pop_min2_perm : forall q m r, pop_min2 q = Some (m, r) -> Permutation q (m :: r).
Proof.
  induction q as [|x q IH]; intros m r H; simpl in *; try discriminate.
  destruct (pop_min2 q) as [[m0 r0]|] eqn:E.
  - specialize (IH _ _ eq_refl). destruct (item2_ltb m0 x); inversion H; subst.
    + rewrite IH. apply perm_swap.
    + constructor. reflexivity.
  - inversion H; subst. apply pop_min2_none in E. subst. reflexivity.
Qed.

Lemma item2_ltb_snd : forall a b, item2_ltb a b = true -> snd a <= snd b.
Proof.
  intros [a1 a2] [b1 b2]. unfold item2_ltb. simpl.
  destruct (a2 <? b2) eqn:E1; [apply N.ltb_lt in E1; lia|].
  destruct (b2 <? a2) eqn:E2; [discriminate|]. apply N.ltb_ge in E1, E2. lia.
Qed.
Lemma item2_nlt_snd : forall a b, item2_ltb a b = false -> snd b <= snd a.
Proof.
  intros [a1 a2] [b1 b2]. unfold item2_ltb. simpl.
  destruct (a2 <? b2) eqn:E1; [discriminate|].
  destruct (b2 <? a2) eqn:E2; [apply N.ltb_lt in E2; lia|]. apply N.ltb_ge in E1, E2. lia.
Qed.

Lemma pop_min2_min : forall q m r, pop_min2 q = Some (m, r) -> forall it, In it r -> snd m <= snd it.
Proof.
  induction q as [|x q IH]; intros m r H it HI; simpl in *; try discriminate.
  destruct (pop_min2 q) as [[m0 r0]|] eqn:E.
  - specialize (IH _ _ eq_refl). destruct (item2_ltb m0 x) eqn:L; inversion H; subst.
    + destruct HI as [<-|HI]; [apply item2_ltb_snd; auto | auto].
    + pose proof (pop_min2_perm _ _ _ E) as P. apply (Permutation_in _ P) in HI.
      apply item2_nlt_snd in L. destruct HI as [<-|HI]; auto. specialize (IH _ HI). lia.
  - inversion H; subst. contradiction.
Qed.

(* ---------------------------------------------------------------- the loop *)
Definition covm (m q : list (N * N)) : Prop :=
  forall ch d, aget N.eqb m ch = Some d -> exists d', In (ch, d') q /\ d' <= d.
Definition qpos (q : list (N * N)) : Prop := forall it, In it q -> 0 < snd it.

Definition weight2 (m : list (N * N)) (now : N) (it : N * N) : nat :=
  if snd it <=? now then
    match aget N.eqb m (fst it) with
    | Some exp => if exp <=? snd it then 1 else 2
    | None => 1
    end
  else 0.
Definition mu2 (m : list (N * N)) (now : N) (q : list (N * N)) : nat := list_sum (map (weight2 m now) q).

Lemma mu2_perm : forall m now q q', Permutation q q' -> mu2 m now q = mu2 m now q'.
Proof. intros. unfold mu2. apply list_sum_perm. apply Permutation_map. assumption. Qed.
Lemma mu2_le : forall m now q, (mu2 m now q <= 2 * length q)%nat.
Proof.
  induction q; unfold mu2 in *; simpl; [lia|].
  assert (weight2 m now a <= 2)%nat.
  { unfold weight2. destruct (snd a <=? now); [|lia]. destruct (aget N.eqb m (fst a)); [destruct (n <=? snd a)|]; lia. }
  lia.
Qed.
Lemma weight2_adel_le : forall m now k it, (weight2 (adel N.eqb m k) now it <= weight2 m now it)%nat.
Proof.
  intros. unfold weight2. destruct (snd it <=? now); [|lia].
  destruct (N.eq_dec (fst it) k) as [->|NE].
  - rewrite (aget_adel_same N.eqb). destruct (aget N.eqb m k); [destruct (n <=? snd it)|]; lia.
  - rewrite (aget_adel_other N.eqb N_eqb_eq'); auto.
Qed.
Lemma mu2_adel_le : forall m now k q, (mu2 (adel N.eqb m k) now q <= mu2 m now q)%nat.
Proof. induction q; unfold mu2 in *; simpl; [lia|]. pose proof (weight2_adel_le m now k a). lia. Qed.

Definition memN (x : N) (l : list N) : bool := existsb (N.eqb x) l.

Lemma ttl_loop_spec : forall now fuel m q fired m' q' fired' next ok,
  ttl_loop fuel m q now fired = (m', q', fired', next, ok) ->
  covm m q -> qpos q ->
  exists new,
    fired' = fired ++ new /\
    (forall ch, In ch new -> exists d, aget N.eqb m ch = Some d /\ d <= now) /\
    (forall ch, aget N.eqb m' ch = if memN ch new then None else aget N.eqb m ch) /\
    covm m' q' /\ qpos q' /\
    (ok = true -> (forall it, In it q' -> now < snd it) /\ (forall it, In it q' -> next <> 0 /\ next <= snd it)) /\
    ((mu2 m now q < fuel)%nat -> ok = true).
Proof.
  intros now. induction fuel as [|f IH]; intros m q fired m' q' fired' next ok H CV QP; simpl in H.
  { inversion H; subst. exists []. rewrite app_nil_r. splits; auto; try discriminate; try lia. intros ? []. }
  destruct (pop_min2 q) as [[[ch e] qr]|] eqn:PM.
  2:{ inversion H; subst. apply pop_min2_none in PM. subst. exists []. rewrite app_nil_r. splits; auto.
      - intros ? [].
      - intros _. split; intros it []. }
  pose proof (pop_min2_perm _ _ _ PM) as PERM. pose proof (pop_min2_min _ _ _ PM) as PMIN.
  assert (INQ : In (ch, e) q) by (apply (Permutation_in _ (Permutation_sym PERM)); left; auto).
  assert (SPLIT : forall it, In it q -> it = (ch, e) \/ In it qr) by (intros it HI; apply (Permutation_in _ PERM) in HI; destruct HI; auto).
  assert (SUB : forall it, In it qr -> In it q) by (intros; apply (Permutation_in _ (Permutation_sym PERM)); right; auto).
  pose proof (QP _ INQ) as EPOS. simpl in EPOS.
  destruct (now <? e) eqn:NE.
  { apply N.ltb_lt in NE. assert (BD : forall it, In it q -> e <= snd it).
    { intros it HI. destruct (SPLIT _ HI) as [->|HI']; simpl; [lia|]. apply (PMIN _ HI'). }
    inversion H; subst. exists []. rewrite app_nil_r. splits; auto.
    - intros ? [].
    - intros _. split; intros it HI; specialize (BD _ HI); lia. }
  apply N.ltb_ge in NE.
  assert (MU : mu2 m now q = (weight2 m now (ch, e) + mu2 m now qr)%nat) by (rewrite (mu2_perm _ _ _ _ PERM); reflexivity).
  assert (QPr : qpos qr) by (intros it HI; apply QP; auto).
  destruct (aget N.eqb m ch) as [exp|] eqn:GM.
  - destruct (exp <=? e) eqn:XE.
    + (* fires *)
      apply N.leb_le in XE.
      assert (CV1 : covm (adel N.eqb m ch) qr).
      { intros c d HG. destruct (N.eq_dec c ch) as [->|NC]; [rewrite (aget_adel_same N.eqb) in HG; discriminate|].
        rewrite (aget_adel_other N.eqb N_eqb_eq') in HG; auto. destruct (CV _ _ HG) as (d' & HI & LE).
        destruct (SPLIT _ HI) as [E|HI']; [inversion E; subst; contradiction|]. eauto. }
      destruct (IH _ _ _ _ _ _ _ _ H CV1 QPr) as (new & E1 & E2 & E3 & E4 & E5 & E6 & E7).
      exists (ch :: new). splits; auto.
      * rewrite E1, <- app_assoc. reflexivity.
      * intros c [<-|HI]; [exists exp; split; auto; lia|].
        destruct (E2 _ HI) as (d & HG & LE). exists d. split; auto.
        destruct (N.eq_dec c ch) as [->|NC]; [rewrite (aget_adel_same N.eqb) in HG; discriminate|].
        rewrite (aget_adel_other N.eqb N_eqb_eq') in HG; auto.
      * intro c. rewrite E3. unfold memN. simpl. destruct (c =? ch) eqn:EC; simpl.
        -- apply N.eqb_eq in EC; subst. rewrite (aget_adel_same N.eqb). destruct (existsb (N.eqb ch) new); reflexivity.
        -- apply N.eqb_neq in EC. rewrite (aget_adel_other N.eqb N_eqb_eq'); auto.
      * intro F. apply E7. pose proof (mu2_adel_le m now ch qr).
        assert (1 <= weight2 m now (ch, e))%nat.
        { unfold weight2; simpl. assert (e <=? now = true) as -> by (apply N.leb_le; lia). rewrite GM. destruct (exp <=? e); lia. }
        lia.
    + (* recorded deadline is later: re-queue *)
      apply N.leb_gt in XE.
      assert (CV1 : covm m ((ch, exp) :: qr)).
      { intros c d HG. destruct (N.eq_dec c ch) as [->|NC].
        - rewrite GM in HG. inversion HG; subst. exists d. split; [left; reflexivity|lia].
        - destruct (CV _ _ HG) as (d' & HI & LE). destruct (SPLIT _ HI) as [E|HI']; [inversion E; subst; contradiction|].
          exists d'. split; [right; auto|auto]. }
      assert (QP1 : qpos ((ch, exp) :: qr)) by (intros it [<-|HI]; simpl; [lia|apply QPr; auto]).
      destruct (IH _ _ _ _ _ _ _ _ H CV1 QP1) as (new & E1 & E2 & E3 & E4 & E5 & E6 & E7).
      exists new. splits; auto.
      intro F. apply E7. unfold mu2 at 1. simpl. fold (mu2 m now qr).
      assert (weight2 m now (ch, e) = 2%nat) as W.
      { unfold weight2; simpl. assert (e <=? now = true) as -> by (apply N.leb_le; lia). rewrite GM.
        assert (exp <=? e = false) as -> by (apply N.leb_gt; lia). reflexivity. }
      assert (weight2 m now (ch, exp) <= 1)%nat.
      { unfold weight2; simpl. destruct (exp <=? now); [|lia]. rewrite GM. rewrite N.leb_refl. lia. }
      lia.
  - (* no deadline recorded: stale item *)
    assert (CV1 : covm m qr).
    { intros c d HG. destruct (CV _ _ HG) as (d' & HI & LE). destruct (SPLIT _ HI) as [E|HI']; [inversion E; subst; congruence|]. eauto. }
    destruct (IH _ _ _ _ _ _ _ _ H CV1 QPr) as (new & E1 & E2 & E3 & E4 & E5 & E6 & E7).
    exists new. splits; auto.
    intro F. apply E7.
    assert (1 <= weight2 m now (ch, e))%nat.
    { unfold weight2; simpl. assert (e <=? now = true) as -> by (apply N.leb_le; lia). rewrite GM. lia. }
    lia.
Qed.

(* everything due fires *)
Lemma ttl_loop_complete : forall now (m m' q' : list (N * N)) new,
  covm m' q' -> (forall it, In it q' -> now < snd it) ->
  (forall ch, aget N.eqb m' ch = if memN ch new then None else aget N.eqb m ch) ->
  forall ch d, aget N.eqb m ch = Some d -> d <= now -> memN ch new = true.
Proof.
  intros now m m' q' new CV QG EM ch d HG LE.
  destruct (memN ch new) eqn:E; auto. exfalso.
  specialize (EM ch). rewrite E, HG in EM. destruct (CV _ _ EM) as (d' & HI & LE'). specialize (QG _ HI). simpl in QG. lia.
Qed.

(* ------------------------------------------------- retention bookkeeping *)
Definition r_touch_s (r : retention) (now ch sttl : N) : retention :=
  let '(m, q, nx) := ttl_touch (r_sexp r) (r_squeue r) (r_snext r) ch (now + sttl) in
  mkRet m q nx (r_rexp r) (r_rqueue r) (r_rnext r).
Definition r_touch_m (r : retention) (now ch mttl : N) : retention :=
  if 0 <? mttl then
    let '(m, q, nx) := ttl_touch (r_rexp r) (r_rqueue r) (r_rnext r) ch (now + mttl) in
    mkRet (r_sexp r) (r_squeue r) (r_snext r) m q nx
  else r.
Definition r_ret_touch (cf : chcfg) (r : retention) (now ch : N) : retention :=
  if has_stream (cf_mode cf) then r_touch_m (r_touch_s r now ch (cf_sttl cf)) now ch (cf_mttl cf) else r.

Lemma ret_touch_stream : forall h ch t, h_ret (touch_stream h ch t) = r_touch_s (h_ret h) (h_now h) ch t /\ h_now (touch_stream h ch t) = h_now h.
Proof. intros. split; reflexivity. Qed.
Lemma ret_touch_meta : forall h ch t, h_ret (touch_meta h ch t) = r_touch_m (h_ret h) (h_now h) ch t /\ h_now (touch_meta h ch t) = h_now h.
Proof. intros. unfold touch_meta, r_touch_m. destruct (0 <? t); split; reflexivity. Qed.
Lemma ret_ret_touch : forall cf h ch, h_ret (ret_touch cf h ch) = r_ret_touch cf (h_ret h) (h_now h) ch /\ h_now (ret_touch cf h ch) = h_now h.
Proof.
  intros. unfold ret_touch, r_ret_touch. destruct (has_stream (cf_mode cf)); [|split; reflexivity].
  destruct (ret_touch_meta (touch_stream h ch (cf_sttl cf)) ch (cf_mttl cf)) as (A & B). rewrite A, B. split; reflexivity.
Qed.

(* (ret, now) of the hub after an operation *)
Definition rn (h : hub) : retention * N := (h_ret h, h_now h).

Lemma add_rn : forall cf h ch k o h' p pp r tp,
  add cf h ch k o = (h', p, pp, r, tp) ->
  rn h' = match r with
          | RNone => (r_ret_touch cf (h_ret h) (h_now h) ch, h_now h)
          | RKeyExists => if po_refresh o && (0 <? cf_keyttl cf)
                          then (r_touch_m (h_ret h) (h_now h) ch (cf_mttl cf), h_now h) else rn h
          | _ => rn h
          end.
Proof.
  intros cf h ch k o h' p pp r tp H. unfold add in H.
  destruct (add_ensure cf h ch) as [h1 c] eqn:EN.
  assert (R1 : rn h1 = rn h).
  { unfold add_ensure in EN. destruct (get_chan h ch); [destruct (cf_ordered cf && negb (c_ordered m))|]; inversion EN; reflexivity. }
  assert (RT : forall x, rn x = rn h -> rn (ret_touch cf x ch) = (r_ret_touch cf (h_ret h) (h_now h) ch, h_now h)).
  { intros x E. unfold rn in *. destruct (ret_ret_touch cf x ch) as (A & B). inversion E. rewrite A, B. congruence. }
  assert (RM : forall x t, rn x = rn h -> rn (touch_meta x ch t) = (r_touch_m (h_ret h) (h_now h) ch t, h_now h)).
  { intros x t E. unfold rn in *. destruct (ret_touch_meta x ch t) as (A & B). inversion E. rewrite A, B. congruence. }
  destruct (add_stale cf k o (aget key_eqb (c_state c) k)); [inversion H; subst; exact R1|].
  unfold add_keymode in H.
  destruct (is_empty k) eqn:EK.
  - unfold add_commit in H. rewrite EK in H.
    destruct (has_stream (cf_mode cf)) eqn:HS.
    + destruct (stream_add _ _ _) as [s' off]. inversion H; subst. apply RT. exact R1.
    + inversion H; subst. apply RT. exact R1.
  - destruct (po_mode o) eqn:PM; destruct (aget key_eqb (c_state c) k) as [e0|] eqn:CUR.
    all: try (destruct (po_refresh o && (0 <? cf_keyttl cf)) eqn:RF; inversion H; subst; [apply RM; exact R1 | exact R1]; fail).
    all: try (inversion H; subst; exact R1; fail).
    all: destruct (cas_check (snd (chan_pos c)) (po_exp o) _); [inversion H; subst; exact R1|];
         unfold add_commit in H; rewrite EK in H;
         destruct (if has_stream (cf_mode cf) then _ else _) as [c1 p2];
         destruct (if po_ver o =? 0 then _ else _) as [ver vep];
         destruct (0 <? cf_keyttl cf); inversion H; subst; apply RT; exact R1.
Qed.

Definition rn_publish (cfgs : list rawcfg) (h : hub) (ch : N) (o : popts) (u : ures) : retention * N :=
  match cfg_of cfgs ch, u with
  | CfgOk cf, URes _ false _ _ => (r_ret_touch cf (h_ret h) (h_now h) ch, h_now h)
  | CfgOk cf, URes _ true RKeyExists _ =>
      if po_refresh o && (0 <? cf_keyttl cf) then (r_touch_m (h_ret h) (h_now h) ch (cf_mttl cf), h_now h) else rn h
  | _, _ => rn h
  end.

Lemma publish_rn : forall cfgs h ch k o h' u, publish cfgs h ch k o = (h', u) -> rn h' = rn_publish cfgs h ch o u.
Proof.
  intros cfgs h ch k o h' u H. unfold publish in H. unfold rn_publish.
  destruct (cfg_of cfgs ch) as [cf|e]; [|inversion H; subst; reflexivity].
  destruct (is_ephemeral (cf_mode cf) && match po_exp o with Some _ => true | None => false end); [inversion H; subst; reflexivity|].
  destruct (is_ephemeral (cf_mode cf) && (0 <? po_ver o)); [inversion H; subst; reflexivity|].
  destruct (if po_idem o =? 0 then None else idem_get h ch (po_idem o)); [inversion H; subst; reflexivity|].
  destruct (add cf h ch k o) as [[[[h1 p] pp] r] tp] eqn:AD. pose proof (add_rn _ _ _ _ _ _ _ _ _ _ AD) as R.
  destruct r; try (inversion H; subst; exact R).
  destruct tp; inversion H; subst.
  - rewrite <- R. destruct (po_idem o =? 0); reflexivity.
  - (* accepted without publication: impossible *)
    exfalso. destruct (Proofs.MapCorollaries.add_accepted _ _ _ _ _ _ _ _ _ AD) as (q & C & _). discriminate.
Qed.

Definition rn_remove (cfgs : list rawcfg) (h : hub) (ch : N) (u : ures) : retention * N :=
  match cfg_of cfgs ch, u with
  | CfgOk cf, URes _ false _ _ => (r_ret_touch cf (h_ret h) (h_now h) ch, h_now h)
  | _, _ => rn h
  end.

Lemma remove_rn : forall cfgs h ch k o h' u, remove cfgs h ch k o = (h', u) -> rn h' = rn_remove cfgs h ch u.
Proof.
  intros cfgs h ch k o h' u H. unfold remove in H. unfold rn_remove.
  destruct (cfg_of cfgs ch) as [cf|e]; [|inversion H; subst; reflexivity].
  destruct (is_ephemeral (cf_mode cf) && match ro_exp o with Some _ => true | None => false end); [inversion H; subst; reflexivity|].
  destruct (if ro_idem o =? 0 then None else idem_get h ch (ro_idem o)); [inversion H; subst; reflexivity|].
  destruct (hremove cf h ch k o) as [[[h1 p] pp] r] eqn:RM.
  assert (R : rn h1 = match r with RNone => (r_ret_touch cf (h_ret h) (h_now h) ch, h_now h) | _ => rn h end).
  { unfold hremove in RM. destruct (get_chan h ch) as [c|]; [|destruct (ro_exp o); inversion RM; subst; reflexivity].
    destruct (cas_check _ _ _); [inversion RM; subst; reflexivity|].
    destruct (aget key_eqb (c_state c) k) as [e|]; [|inversion RM; subst; reflexivity].
    destruct (has_stream (cf_mode cf)) eqn:HS.
    - destruct (stream_add _ _ _) as [s' off]. inversion RM; subst.
      match goal with |- rn (ret_touch cf ?x ch) = _ => destruct (ret_ret_touch cf x ch) as (A & B) end.
      unfold rn. rewrite A, B. reflexivity.
    - inversion RM; subst. unfold rn, r_ret_touch. rewrite HS. reflexivity. }
  destruct r; try (inversion H; subst; exact R).
  destruct pp; inversion H; subst.
  - rewrite <- R. destruct (ro_idem o =? 0); reflexivity.
  - exfalso. destruct (hremove_cases _ _ _ _ _ _ _ _ _ RM) as [(NR & _)|(_ & q & e & C & _)]; [congruence|discriminate].
Qed.

Lemma clear_rn : forall h ch,
  rn (clear h ch) = match get_chan h ch with
                    | Some _ => (mkRet (adel N.eqb (r_sexp (h_ret h)) ch) (r_squeue (h_ret h)) (r_snext (h_ret h))
                                       (adel N.eqb (r_rexp (h_ret h)) ch) (r_rqueue (h_ret h)) (r_rnext (h_ret h)), h_now h)
                    | None => rn h
                    end.
Proof. intros. unfold clear. destruct (get_chan h ch); reflexivity. Qed.

Lemma read_state_rn : forall cfgs h ch rev cur lim k asc h' r,
  read_state cfgs h ch rev cur lim k asc = (h', r) ->
  rn h' = match cfg_of cfgs ch with
          | CfgOk cf => (r_touch_m (h_ret h) (h_now h) ch (cf_mttl cf), h_now h)
          | CfgErr _ => rn h
          end.
Proof.
  intros cfgs h ch rev cur lim k asc h' r H. unfold read_state in H.
  destruct (cfg_of cfgs ch) as [cf|e]; [|inversion H; subst; reflexivity].
  destruct (ret_touch_meta h ch (cf_mttl cf)) as (A & B).
  set (h0 := touch_meta h ch (cf_mttl cf)) in *.
  assert (E : rn h' = rn h0).
  { destruct (get_chan h0 ch) as [c|].
    - destruct (get_state_chan c rev cur lim k asc) as [c1 r1]. inversion H; subst. reflexivity.
    - unfold create_chan in H. destruct rev as [[ro re]|]; [destruct (negb (re =? 0))|]; inversion H; subst; reflexivity. }
  rewrite E. unfold rn. rewrite A, B. reflexivity.
Qed.

Lemma read_stream_rn : forall cfgs h ch since lim rv h' r,
  read_stream cfgs h ch since lim rv = (h', r) ->
  rn h' = (r_touch_m (h_ret h) (h_now h) ch (mttl_of cfgs ch), h_now h).
Proof.
  intros cfgs h ch since lim rv h' r H. unfold read_stream in H.
  destruct (ret_touch_meta h ch (mttl_of cfgs ch)) as (A & B).
  set (h0 := touch_meta h ch (mttl_of cfgs ch)) in *.
  assert (E : rn h' = rn h0).
  { destruct (get_chan h0 ch) as [c|].
    - destruct since as [[so se]|].
      + destruct (negb (se =? 0) && negb (se =? s_epoch (c_stream c))); [inversion H; subst; reflexivity|].
        destruct (negb rv && (s_top (c_stream c) =? so)); inversion H; subst; reflexivity.
      + destruct (lim =? 0)%Z; inversion H; subst; reflexivity.
    - unfold create_chan in H. inversion H; subst. reflexivity. }
  rewrite E. unfold rn. rewrite A, B. reflexivity.
Qed.

Lemma phase2_all_rn : forall fuel h, rn (phase2_all fuel h) = rn h.
Proof.
  induction fuel as [|f IH]; intros h; simpl; auto.
  destruct (phase2 h) as [h1|] eqn:P; auto. rewrite IH.
  unfold phase2 in P. destruct (h_pend h) as [|ev rest]; [discriminate|]. inversion P; subst.
  unfold phase2_one. simpl.
  destruct (get_chan _ (ev_ch ev)) as [c|]; [|reflexivity].
  destruct (aget key_eqb (c_state c) (ev_key ev)) as [e|]; [|reflexivity].
  destruct (e_exp e =? ev_exp ev); [destruct (0 <? ev_size ev); [unfold stream_add|]; reflexivity|].
  destruct (h_pnow h <? e_exp e); reflexivity.
Qed.

Lemma phase1_rn : forall cfgs h h' ok, phase1 cfgs h = (h', ok) -> rn h' = rn h.
Proof.
  intros cfgs h h' ok H. unfold phase1 in H.
  destruct ((h_next h =? 0) || (h_now h <? h_next h)); [inversion H; reflexivity|].
  destruct (p1_loop _ _ _ _ _) as [[[h1 evs] next] ok1] eqn:LP.
  assert (R1 : rn h1 = rn h).
  { assert (G : forall fuel hx acc hy accy nx oky, p1_loop cfgs fuel hx (h_now h) acc = (hy, accy, nx, oky) -> rn hy = rn hx).
    { induction fuel as [|f IH]; intros hx acc hy accy nx oky HL; simpl in HL; [inversion HL; reflexivity|].
      destruct (pop_min (h_queue hx)) as [[[k d] q']|]; [|inversion HL; reflexivity].
      destruct (h_now h <? d); [inversion HL; reflexivity|].
      destruct (aget ck_eqb _ k) as [stored|]; [|apply IH in HL; exact HL].
      destruct (d <? stored); [apply IH in HL; exact HL|].
      destruct (is_empty (snd k)); [apply IH in HL; exact HL|].
      destruct (get_chan _ (fst k)) as [c|]; [|apply IH in HL; exact HL].
      destruct (aget key_eqb (c_state c) (snd k)) as [e|]; [|apply IH in HL; exact HL].
      destruct (negb (e_exp e =? d)); [destruct (h_now h <? e_exp e); apply IH in HL; exact HL|].
      apply IH in HL. exact HL. }
    eapply G; eauto. }
  destruct (Nat.ltb _ _); inversion H; subst; exact R1.
Qed.

(* ------------------------------------------------------ queue coverage *)
Definition RetCov (m q : list (N * N)) (next now : N) (ttl : N -> N) : Prop :=
  covm m q /\ qpos q /\ (forall it, In it q -> next <> 0 /\ next <= snd it) /\
  (forall ch d, aget N.eqb m ch = Some d -> 0 < d /\ d <= now + ttl ch).

Lemma RetCov_touch : forall m q next now ttl ch,
  RetCov m q next now ttl -> 0 < ttl ch ->
  RetCov (aset N.eqb m ch (now + ttl ch))
         (match aget N.eqb m ch with Some _ => q | None => (ch, now + ttl ch) :: q end)
         (if (next =? 0) || (now + ttl ch <? next) then now + ttl ch else next) now ttl.
Proof.
  intros m q next now ttl ch (CV & QP & NX & BD) TP. unfold RetCov. splits.
  - intros c d HG. destruct (N.eq_dec c ch) as [->|NC].
    + rewrite (aget_aset_same N.eqb N_eqb_eq') in HG. inversion HG; subst.
      destruct (aget N.eqb m ch) as [d0|] eqn:G0.
      * destruct (CV _ _ G0) as (d' & HI & LE). destruct (BD _ _ G0) as (_ & B). exists d'. split; auto. lia.
      * exists (now + ttl ch). split; [left; reflexivity|lia].
    + rewrite (aget_aset_other N.eqb N_eqb_eq') in HG; auto. destruct (CV _ _ HG) as (d' & HI & LE).
      exists d'. split; auto. destruct (aget N.eqb m ch); [auto|right; auto].
  - intros it HI. destruct (aget N.eqb m ch); [apply QP; auto|]. destruct HI as [<-|HI]; [simpl; lia|apply QP; auto].
  - intros it HI.
    assert (IN : it = (ch, now + ttl ch) \/ In it q) by (destruct (aget N.eqb m ch); [right; auto|destruct HI; auto]).
    destruct (next =? 0) eqn:Z; simpl.
    + apply N.eqb_eq in Z. destruct IN as [->|IN]; [simpl; lia|]. destruct (NX _ IN). contradiction.
    + apply N.eqb_neq in Z. destruct (now + ttl ch <? next) eqn:L.
      * apply N.ltb_lt in L. destruct IN as [->|IN]; [simpl; lia|]. destruct (NX _ IN). lia.
      * apply N.ltb_ge in L. destruct IN as [->|IN]; [simpl; lia|]. destruct (NX _ IN). lia.
  - intros c d HG. destruct (N.eq_dec c ch) as [->|NC].
    + rewrite (aget_aset_same N.eqb N_eqb_eq') in HG. inversion HG; subst. lia.
    + rewrite (aget_aset_other N.eqb N_eqb_eq') in HG; auto.
Qed.

Lemma RetCov_adel : forall m q next now ttl ch, RetCov m q next now ttl -> RetCov (adel N.eqb m ch) q next now ttl.
Proof.
  intros m q next now ttl ch (CV & QP & NX & BD). unfold RetCov. splits; auto.
  - intros c d HG. destruct (N.eq_dec c ch) as [->|NC]; [rewrite (aget_adel_same N.eqb) in HG; discriminate|].
    rewrite (aget_adel_other N.eqb N_eqb_eq') in HG; auto.
  - intros c d HG. destruct (N.eq_dec c ch) as [->|NC]; [rewrite (aget_adel_same N.eqb) in HG; discriminate|].
    rewrite (aget_adel_other N.eqb N_eqb_eq') in HG; auto.
Qed.

Lemma RetCov_advance : forall m q next now now' ttl, RetCov m q next now ttl -> now <= now' -> RetCov m q next now' ttl.
Proof.
  intros m q next now now' ttl (CV & QP & NX & BD) LE. unfold RetCov. splits; auto.
  intros c d HG. destruct (BD _ _ HG). lia.
Qed.

Definition RetInvR (cfgs : list rawcfg) (r : retention) (now : N) : Prop :=
  RetCov (r_sexp r) (r_squeue r) (r_snext r) now (sttl_of cfgs) /\
  RetCov (r_rexp r) (r_rqueue r) (r_rnext r) now (mttl_of cfgs) /\
  (forall ch d, aget N.eqb (r_sexp r) ch = Some d -> 0 <? size_of cfgs ch = true).
Definition RetInv (cfgs : list rawcfg) (h : hub) : Prop := RetInvR cfgs (h_ret h) (h_now h).

Lemma RetInv0 : forall cfgs, RetInv cfgs hub0.
Proof.
  intros. unfold RetInv, RetInvR, RetCov, covm, qpos; simpl. splits; try (intros; discriminate); try (intros ? []).
Qed.

Lemma resolve_sttl_pos : forall cfgs ch cf,
  cfg_of cfgs ch = CfgOk cf -> has_stream (cf_mode cf) = true -> 0 < cf_sttl cf.
Proof.
  intros cfgs ch cf. unfold cfg_of, resolve.
  set (r := nth (N.to_nat ch) cfgs unset_cfg).
  repeat match goal with
         | |- (if ?b then _ else _) = _ -> _ => destruct b eqn:?; try discriminate
         end; intro H; inversion H; subst; simpl in *; intros; try congruence.
  destruct (rc_sttl r =? 0)%Z eqn:E0; lia.
Qed.

Lemma RetInvR_touch_m : forall cfgs r now ch, RetInvR cfgs r now -> RetInvR cfgs (r_touch_m r now ch (mttl_of cfgs ch)) now.
Proof.
  intros cfgs r now ch (S & M & SO). unfold r_touch_m. destruct (0 <? mttl_of cfgs ch) eqn:P; [|split; auto].
  apply N.ltb_lt in P. unfold ttl_touch. unfold RetInvR; simpl. splits; auto.
  apply (RetCov_touch _ _ _ _ (mttl_of cfgs) ch M P).
Qed.

Lemma RetInvR_touch_s : forall cfgs r now ch cf,
  cfg_of cfgs ch = CfgOk cf -> has_stream (cf_mode cf) = true ->
  RetInvR cfgs r now -> RetInvR cfgs (r_touch_s r now ch (cf_sttl cf)) now.
Proof.
  intros cfgs r now ch cf CF HS (S & M & SO).
  assert (ST : sttl_of cfgs ch = cf_sttl cf) by (unfold sttl_of; rewrite CF; reflexivity).
  pose proof (resolve_sttl_pos _ _ _ CF HS) as P.
  unfold r_touch_s, ttl_touch. unfold RetInvR; simpl. splits; auto.
  - rewrite <- ST. apply (RetCov_touch _ _ _ _ (sttl_of cfgs) ch S). rewrite ST. exact P.
  - intros c d HG. destruct (N.eq_dec c ch) as [->|NC].
    + apply N.ltb_lt. rewrite (size_of_stream _ _ _ CF), HS. apply (resolve_size_pos _ _ _ CF HS).
    + rewrite (aget_aset_other N.eqb N_eqb_eq') in HG; eauto.
Qed.

Lemma RetInvR_ret_touch : forall cfgs r now ch cf,
  cfg_of cfgs ch = CfgOk cf -> RetInvR cfgs r now -> RetInvR cfgs (r_ret_touch cf r now ch) now.
Proof.
  intros cfgs r now ch cf CF RI. unfold r_ret_touch. destruct (has_stream (cf_mode cf)) eqn:HS; auto.
  assert (MT : mttl_of cfgs ch = cf_mttl cf) by (unfold mttl_of; rewrite CF; reflexivity).
  rewrite <- MT. apply RetInvR_touch_m. eapply RetInvR_touch_s; eauto.
Qed.

(* ------------------------------ deadlines of the reference map vs bookkeeping *)
Definition chanRet (sexp rexp : list (N * N)) (ch : N) (osc : option schan) : Prop :=
  match osc with
  | Some sc =>
      (sc_sdead sc <> 0 -> aget N.eqb sexp ch = Some (sc_sdead sc)) /\
      (sc_sdead sc = 0 -> aget N.eqb sexp ch = None \/ (sc_keep sc = 0%nat /\ sc_map sc = [])) /\
      aget N.eqb rexp ch = (if sc_mdead sc =? 0 then None else Some (sc_mdead sc))
  | None => aget N.eqb rexp ch = None
  end.
Definition retR (r : retention) (s : sstate) : Prop :=
  forall ch, chanRet (r_sexp r) (r_rexp r) ch (s_get s ch).

Lemma retR0 : retR ret0 sstate0.
Proof. intro ch. reflexivity. Qed.

Lemma retR_frame : forall r s r' s' ch,
  retR r s ->
  (forall c, c <> ch -> aget N.eqb (r_sexp r') c = aget N.eqb (r_sexp r) c /\ aget N.eqb (r_rexp r') c = aget N.eqb (r_rexp r) c) ->
  (forall c, c <> ch -> s_get s' c = s_get s c) ->
  chanRet (r_sexp r') (r_rexp r') ch (s_get s' ch) ->
  retR r' s'.
Proof.
  intros r s r' s' ch R E1 E2 C c. destruct (N.eq_dec c ch) as [->|NE]; auto.
  destruct (E1 _ NE) as (A & B). specialize (R c). rewrite (E2 _ NE). unfold chanRet in *. rewrite A, B. exact R.
Qed.

Lemma s_get_set : forall s ch c c', s_get (s_set s ch c) c' = if c' =? ch then Some c else s_get s c'.
Proof.
  intros. unfold s_get, s_set; simpl. destruct (c' =? ch) eqn:E.
  - apply N.eqb_eq in E; subst. apply (aget_aset_same N.eqb N_eqb_eq').
  - apply N.eqb_neq in E. apply (aget_aset_other N.eqb N_eqb_eq'); auto.
Qed.

Lemma s_ensure_get : forall s ch s1 c, s_ensure s ch = (s1, c) ->
  (forall c', s_get s1 c' = if c' =? ch then Some c else s_get s c') /\ ss_now s1 = ss_now s /\
  (s_get s ch = Some c \/ (s_get s ch = None /\ c = mkSC (ss_nep s) [] [] 0 0 0)).
Proof.
  intros s ch s1 c H. unfold s_ensure in H. destruct (s_get s ch) as [c0|] eqn:G; inversion H; subst; clear H.
  - splits; auto. intro c'. destruct (c' =? ch) eqn:E; auto. apply N.eqb_eq in E; subst; auto.
  - splits; auto. intro c'. change (s_get (s_set s ch (mkSC (ss_nep s) [] [] 0 0 0)) c' = if c' =? ch then Some (mkSC (ss_nep s) [] [] 0 0 0) else s_get s c').
    apply s_get_set.
Qed.

Lemma touch_s_get : forall r now ch t c,
  aget N.eqb (r_sexp (r_touch_s r now ch t)) c = (if c =? ch then Some (now + t) else aget N.eqb (r_sexp r) c) /\
  aget N.eqb (r_rexp (r_touch_s r now ch t)) c = aget N.eqb (r_rexp r) c.
Proof.
  intros. unfold r_touch_s, ttl_touch; simpl. split; auto. destruct (c =? ch) eqn:E.
  - apply N.eqb_eq in E; subst. apply (aget_aset_same N.eqb N_eqb_eq').
  - apply N.eqb_neq in E. apply (aget_aset_other N.eqb N_eqb_eq'); auto.
Qed.
Lemma touch_m_get : forall r now ch t c,
  aget N.eqb (r_sexp (r_touch_m r now ch t)) c = aget N.eqb (r_sexp r) c /\
  aget N.eqb (r_rexp (r_touch_m r now ch t)) c = (if (0 <? t) && (c =? ch) then Some (now + t) else aget N.eqb (r_rexp r) c).
Proof.
  intros. unfold r_touch_m, ttl_touch. destruct (0 <? t); simpl; auto. split; auto. destruct (c =? ch) eqn:E.
  - apply N.eqb_eq in E; subst. apply (aget_aset_same N.eqb N_eqb_eq').
  - apply N.eqb_neq in E. apply (aget_aset_other N.eqb N_eqb_eq'); auto.
Qed.
Lemma ret_touch_get : forall cf r now ch c,
  aget N.eqb (r_sexp (r_ret_touch cf r now ch)) c =
    (if has_stream (cf_mode cf) && (c =? ch) then Some (now + cf_sttl cf) else aget N.eqb (r_sexp r) c) /\
  aget N.eqb (r_rexp (r_ret_touch cf r now ch)) c =
    (if has_stream (cf_mode cf) && (0 <? cf_mttl cf) && (c =? ch) then Some (now + cf_mttl cf) else aget N.eqb (r_rexp r) c).
Proof.
  intros. unfold r_ret_touch. destruct (has_stream (cf_mode cf)); simpl; auto.
  destruct (touch_m_get (r_touch_s r now ch (cf_sttl cf)) now ch (cf_mttl cf) c) as (A & B).
  destruct (touch_s_get r now ch (cf_sttl cf) c) as (C & D). rewrite A, B, C, D. auto.
Qed.

(* touching the metadata deadline on both sides *)
Lemma chanRet_touch_m : forall r now ch t sc,
  chanRet (r_sexp r) (r_rexp r) ch (Some sc) ->
  chanRet (r_sexp (r_touch_m r now ch t)) (r_rexp (r_touch_m r now ch t)) ch (Some (touch_mdead t now sc)).
Proof.
  intros r now ch t sc (A & B & C). destruct (touch_m_get r now ch t ch) as (E1 & E2).
  unfold chanRet. rewrite E1, E2, N.eqb_refl, andb_true_r. unfold touch_mdead. destruct (0 <? t) eqn:P; simpl; auto.
  splits; auto. apply N.ltb_lt in P. assert (now + t =? 0 = false) as -> by (apply N.eqb_neq; lia). reflexivity.
Qed.

Lemma chanRet_fresh : forall sexp rexp ch ep, aget N.eqb rexp ch = None -> chanRet sexp rexp ch (Some (mkSC ep [] [] 0 0 0)).
Proof. intros. unfold chanRet; simpl. splits; auto. intro C; contradiction C; reflexivity. Qed.

Lemma chanRet_ensure : forall r s ch s1 c0, retR r s -> s_ensure s ch = (s1, c0) ->
  chanRet (r_sexp r) (r_rexp r) ch (Some c0) /\ retR r s1.
Proof.
  intros r s ch s1 c0 R EN. destruct (s_ensure_get _ _ _ _ EN) as (G1 & _ & [G|(G & ->)]).
  - split; [pose proof (R ch) as C; rewrite G in C; exact C|].
    intro c. rewrite G1. destruct (c =? ch) eqn:E; [apply N.eqb_eq in E; subst; rewrite <- G; apply R | apply R].
  - assert (F : chanRet (r_sexp r) (r_rexp r) ch (Some (mkSC (ss_nep s) [] [] 0 0 0))).
    { apply chanRet_fresh. pose proof (R ch) as C. rewrite G in C. exact C. }
    split; auto. intro c. rewrite G1. destruct (c =? ch) eqn:E; [apply N.eqb_eq in E; subst; exact F | apply R].
Qed.

Lemma touch_both_retR : forall r s ch s1 c0 now t,
  retR r s -> s_ensure s ch = (s1, c0) ->
  retR (r_touch_m r now ch t) (s_set s1 ch (touch_mdead t now c0)).
Proof.
  intros r s ch s1 c0 now t R EN. destruct (chanRet_ensure _ _ _ _ _ R EN) as (C0 & R1).
  apply (retR_frame r s1 _ _ ch R1).
  - intros c NE. destruct (touch_m_get r now ch t c) as (A & B). rewrite A, B.
    assert (c =? ch = false) as -> by (apply N.eqb_neq; auto). rewrite andb_false_r. auto.
  - intros c NE. rewrite s_get_set. assert (c =? ch = false) as -> by (apply N.eqb_neq; auto). reflexivity.
  - rewrite s_get_set, N.eqb_refl. apply chanRet_touch_m. exact C0.
Qed.

Lemma read_stream_retR : forall cfgs h s ch since lim rv h' r s' r',
  h_now h = ss_now s -> retR (h_ret h) s ->
  read_stream cfgs h ch since lim rv = (h', r) -> spec_read_stream cfgs s ch since lim rv = (s', r') ->
  retR (h_ret h') s'.
Proof.
  intros cfgs h s ch since lim rv h' r s' r' HN R H1 H2.
  pose proof (read_stream_rn _ _ _ _ _ _ _ _ H1) as RN. inversion RN as [[E1 E2]]. rewrite E1.
  unfold spec_read_stream in H2. destruct (s_ensure s ch) as [s1 c0] eqn:EN.
  assert (S' : s' = s_set s1 ch (touch_mdead (mttl_of cfgs ch) (ss_now s) c0)).
  { destruct (s_get s ch); [|inversion H2; reflexivity].
    destruct since as [[so se]|]; [destruct (negb (se =? 0) && negb (se =? sc_epoch (touch_mdead (mttl_of cfgs ch) (ss_now s) c0)))|]; inversion H2; reflexivity. }
  rewrite S', HN. eapply touch_both_retR; eauto.
Qed.

Lemma read_state_retR : forall cfgs h s ch rev cur lim k asc h' r s' r',
  h_now h = ss_now s -> retR (h_ret h) s ->
  read_state cfgs h ch rev cur lim k asc = (h', r) -> spec_read_state cfgs s ch rev cur lim k asc = (s', r') ->
  retR (h_ret h') s'.
Proof.
  intros cfgs h s ch rev cur lim k asc h' r s' r' HN R H1 H2.
  pose proof (read_state_rn _ _ _ _ _ _ _ _ _ _ H1) as RN. unfold spec_read_state in H2.
  destruct (cfg_of cfgs ch) as [cf|e]; [|inversion RN as [[E1 E2]]; inversion H2; subst; rewrite E1; exact R].
  inversion RN as [[E1 E2]]. rewrite E1.
  destruct (s_ensure s ch) as [s1 c0] eqn:EN.
  assert (S' : s' = s_set s1 ch (touch_mdead (cf_mttl cf) (ss_now s) c0)).
  { destruct (s_get s ch); [inversion H2; reflexivity|].
    destruct rev as [[ro re]|]; [destruct (negb (re =? 0))|]; inversion H2; reflexivity. }
  rewrite S', HN. eapply touch_both_retR; eauto.
Qed.

Lemma s_get_clear : forall s ch c, s_get (spec_clear s ch) c = if c =? ch then None else s_get s c.
Proof.
  intros. unfold s_get, spec_clear; simpl. destruct (c =? ch) eqn:E.
  - apply N.eqb_eq in E; subst. apply (aget_adel_same N.eqb).
  - apply N.eqb_neq in E. apply (aget_adel_other N.eqb N_eqb_eq'); auto.
Qed.

Lemma hubR_get_none : forall cfgs h s ch, hubR cfgs h s -> (get_chan h ch = None <-> s_get s ch = None).
Proof.
  intros cfgs h s ch (HC & _). unfold get_chan, s_get. split; intro H.
  - eapply arel_get_none; eauto.
  - eapply arel_get_none'; eauto.
Qed.

Lemma clear_retR : forall cfgs h s ch, hubR cfgs h s -> retR (h_ret h) s -> retR (h_ret (clear h ch)) (spec_clear s ch).
Proof.
  intros cfgs h s ch HR R. pose proof (clear_rn h ch) as RN.
  destruct (get_chan h ch) as [c0|] eqn:G.
  - pose proof (f_equal fst RN) as E1. unfold rn in E1. cbn [fst] in E1. rewrite E1.
    apply (retR_frame (h_ret h) s _ _ ch R); simpl.
    + intros c NE. rewrite !(aget_adel_other N.eqb N_eqb_eq'); auto.
    + intros c NE. rewrite s_get_clear. assert (c =? ch = false) as -> by (apply N.eqb_neq; auto). reflexivity.
    + rewrite s_get_clear, N.eqb_refl. simpl. apply (aget_adel_same N.eqb).
  - pose proof (f_equal fst RN) as E1. unfold rn in E1. cbn [fst] in E1. rewrite E1. apply (proj1 (hubR_get_none _ _ _ ch HR)) in G.
    intro c. rewrite s_get_clear. destruct (c =? ch) eqn:E; [|apply R].
    apply N.eqb_eq in E; subst. pose proof (R ch) as C. rewrite G in C. exact C.
Qed.

Lemma s_get_bcast : forall s b c, s_get (s_bcast s b) c = s_get s c.
Proof. reflexivity. Qed.
Lemma s_get_idem_save : forall s ch ik p t c, s_get (s_idem_save s ch ik p t) c = s_get s c.
Proof. intros. unfold s_idem_save. destruct (ik =? 0); reflexivity. Qed.

(* the stream-backed append on both sides: expires := now + StreamTTL, removes touched *)
Lemma chanRet_stream_append : forall cfgs r now ch cf sc st lg,
  cfg_of cfgs ch = CfgOk cf -> has_stream (cf_mode cf) = true ->
  chanRet (r_sexp r) (r_rexp r) ch (Some sc) ->
  chanRet (r_sexp (r_ret_touch cf r now ch)) (r_rexp (r_ret_touch cf r now ch)) ch
          (Some (touch_mdead (cf_mttl cf) now (mkSC (sc_epoch sc) st lg (S (sc_keep sc)) (now + cf_sttl cf) (sc_mdead sc)))).
Proof.
  intros cfgs r now ch cf sc st lg CF HS (A & B & C).
  pose proof (resolve_sttl_pos _ _ _ CF HS) as P.
  unfold r_ret_touch. rewrite HS. apply chanRet_touch_m.
  destruct (touch_s_get r now ch (cf_sttl cf) ch) as (E1 & E2). unfold chanRet. rewrite E1, E2, N.eqb_refl. simpl.
  splits; auto. intro Z. lia.
Qed.

Lemma remove_retR : forall cfgs h s ch k o h' u s',
  h_now h = ss_now s -> retR (h_ret h) s ->
  remove cfgs h ch k o = (h', u) -> spec_remove cfgs s ch k o = (s', u) ->
  retR (h_ret h') s'.
Proof.
  intros cfgs h s ch k o h' u s' HN R H1 H2.
  pose proof (remove_rn _ _ _ _ _ _ _ H1) as RN. unfold rn_remove in RN. unfold spec_remove in H2.
  destruct (cfg_of cfgs ch) as [cf|e] eqn:CF; [|inversion H2; subst; inversion RN as [[E1 E2]]; rewrite E1; exact R].
  destruct (is_ephemeral (cf_mode cf) && match ro_exp o with Some _ => true | None => false end);
    [inversion H2; subst; inversion RN as [[E1 E2]]; rewrite E1; exact R|].
  destruct (s_idem_get s ch (ro_idem o)); [inversion H2; subst; inversion RN as [[E1 E2]]; rewrite E1; exact R|].
  destruct (s_get s ch) as [c|] eqn:G; [|inversion H2; subst; inversion RN as [[E1 E2]]; rewrite E1; exact R].
  destruct (decide_remove (sc_epoch c) o (aget key_eqb (sc_map c) k)); [inversion H2; subst; inversion RN as [[E1 E2]]; rewrite E1; exact R|].
  destruct (aget key_eqb (sc_map c) k) as [e|] eqn:CUR; [|inversion H2; subst; inversion RN as [[E1 E2]]; rewrite E1; exact R].
  inversion H2; subst; clear H2. inversion RN as [[E1 E2]]. rewrite E1. clear RN E1 E2.
  pose proof (R ch) as C0. rewrite G in C0.
  apply (retR_frame (h_ret h) s _ _ ch R).
  - intros c0 NE. destruct (ret_touch_get cf (h_ret h) (h_now h) ch c0) as (A & B). rewrite A, B.
    assert (c0 =? ch = false) as -> by (apply N.eqb_neq; auto). rewrite !andb_false_r. auto.
  - intros c0 NE. rewrite s_get_bcast, s_get_idem_save, s_get_set. assert (c0 =? ch = false) as -> by (apply N.eqb_neq; auto). reflexivity.
  - rewrite s_get_bcast, s_get_idem_save, s_get_set, N.eqb_refl.
    destruct (has_stream (cf_mode cf)) eqn:HS.
    + rewrite HN. eapply chanRet_stream_append; eauto.
    + unfold r_ret_touch. rewrite HS. destruct C0 as (A & B & C). unfold chanRet; simpl. splits; auto.
      intro Z. destruct (B Z) as [L|(_ & MP)]; auto. exfalso. rewrite MP in CUR. discriminate.
Qed.

Lemma decide_keyexists_cur : forall cf ep k o cur, decide_publish cf ep k o cur = Some RKeyExists -> exists e, cur = Some e.
Proof.
  intros cf ep k o cur H. unfold decide_publish, first_some in H.
  destruct (chk_version cf k (po_ver o) (po_vep o) cur) eqn:CV.
  { apply chk_version_reason in CV. congruence. }
  destruct (chk_keymode k (po_mode o) cur) eqn:CK.
  { destruct (chk_keymode_cases _ _ _ _ CK) as [(_ & E)|(A & _)]; auto. congruence. }
  destruct (chk_cas ep k (po_exp o) cur) eqn:CC; [|discriminate]. apply chk_cas_reason in CC. congruence.
Qed.

Lemma publish_retR : forall cfgs h s ch k o h' u s',
  h_now h = ss_now s -> retR (h_ret h) s ->
  (forall c d, aget N.eqb (r_sexp (h_ret h)) c = Some d -> 0 <? size_of cfgs c = true) ->
  publish cfgs h ch k o = (h', u) -> spec_publish cfgs s ch k o = (s', u) ->
  retR (h_ret h') s'.
Proof.
  intros cfgs h s ch k o h' u s' HN R SO H1 H2.
  pose proof (publish_rn _ _ _ _ _ _ _ H1) as RN. unfold rn_publish in RN. unfold spec_publish in H2.
  destruct (cfg_of cfgs ch) as [cf|e] eqn:CF; [|inversion H2; subst; inversion RN as [[E1 E2]]; rewrite E1; exact R].
  destruct (is_ephemeral (cf_mode cf) && match po_exp o with Some _ => true | None => false end);
    [inversion H2; subst; inversion RN as [[E1 E2]]; rewrite E1; exact R|].
  destruct (is_ephemeral (cf_mode cf) && (0 <? po_ver o)); [inversion H2; subst; inversion RN as [[E1 E2]]; rewrite E1; exact R|].
  destruct (s_idem_get s ch (po_idem o)); [inversion H2; subst; inversion RN as [[E1 E2]]; rewrite E1; exact R|].
  destruct (s_ensure s ch) as [s1 c] eqn:EN.
  destruct (chanRet_ensure _ _ _ _ _ R EN) as (C0 & R1).
  destruct (s_ensure_get _ _ _ _ EN) as (G1 & N1 & _).
  destruct (decide_publish cf (sc_epoch c) k o (aget key_eqb (sc_map c) k)) as [r|] eqn:DC.
  - (* suppressed *)
    inversion H2; subst; clear H2.
    destruct r; try (inversion RN as [[E1 E2]]; rewrite E1; exact R1).
    destruct (decide_keyexists_cur _ _ _ _ _ DC) as (e & CUR). rewrite CUR.
    destruct (po_refresh o && (0 <? cf_keyttl cf)); inversion RN as [[E1 E2]]; rewrite E1; [|exact R1].
    apply (retR_frame (h_ret h) s1 _ _ ch R1).
    + intros c0 NE. destruct (touch_m_get (h_ret h) (h_now h) ch (cf_mttl cf) c0) as (A & B). rewrite A, B.
      assert (c0 =? ch = false) as -> by (apply N.eqb_neq; auto). rewrite andb_false_r. auto.
    + intros c0 NE. rewrite s_get_set. assert (c0 =? ch = false) as -> by (apply N.eqb_neq; auto). reflexivity.
    + rewrite s_get_set, N.eqb_refl. rewrite HN. apply chanRet_touch_m.
      destruct C0 as (A & B & C). unfold chanRet; simpl. splits; auto.
      intro Z. destruct (B Z) as [L|(KP & MP)]; auto. exfalso. rewrite MP in CUR. discriminate.
  - (* accepted *)
    destruct (if po_ver o =? 0 then _ else _) as [ver vep].
    inversion H2; subst; clear H2. inversion RN as [[E1 E2]]. rewrite E1. clear RN E1 E2.
    apply (retR_frame (h_ret h) s1 _ _ ch R1).
    + intros c0 NE. destruct (ret_touch_get cf (h_ret h) (h_now h) ch c0) as (A & B). rewrite A, B.
      assert (c0 =? ch = false) as -> by (apply N.eqb_neq; auto). rewrite !andb_false_r. auto.
    + intros c0 NE. rewrite s_get_bcast, s_get_idem_save, s_get_set. assert (c0 =? ch = false) as -> by (apply N.eqb_neq; auto). reflexivity.
    + rewrite s_get_bcast, s_get_idem_save, s_get_set, N.eqb_refl.
      destruct (has_stream (cf_mode cf)) eqn:HS.
      * rewrite HN. eapply chanRet_stream_append; eauto.
      * unfold r_ret_touch. rewrite HS. destruct C0 as (A & B & C). unfold chanRet; simpl. splits; auto.
        intro Z. left. destruct (aget N.eqb (r_sexp (h_ret h)) ch) as [d|] eqn:GS; auto.
        exfalso. apply SO in GS. rewrite (size_of_stream _ _ _ CF), HS in GS. discriminate.
Qed.

(* --------------------------------------------------------- key sweep: retR *)
Lemma expire_one_retR : forall cfgs r s it, retR r s -> retR r (expire_one cfgs s it).
Proof.
  intros cfgs r s [ch k] R. unfold expire_one.
  destruct (s_get s ch) as [c|] eqn:G; auto.
  destruct (aget key_eqb (sc_map c) k) as [e|] eqn:CUR; auto.
  apply (retR_frame r s r _ ch R); auto.
  - intros c0 NE. rewrite s_get_bcast, s_get_set. assert (c0 =? ch = false) as -> by (apply N.eqb_neq; auto). reflexivity.
  - rewrite s_get_bcast, s_get_set, N.eqb_refl. pose proof (R ch) as C0. rewrite G in C0.
    destruct C0 as (A & B & C). unfold chanRet; simpl. splits; auto.
    intro Z. destruct (B Z) as [L|(_ & MP)]; auto. exfalso. rewrite MP in CUR. discriminate.
Qed.

Lemma spec_sweep_retR : forall cfgs fuel r s, retR r s -> retR r (spec_sweep cfgs fuel s).
Proof.
  induction fuel as [|f IH]; intros r s R; simpl; auto.
  destruct (pop_min (s_expired s)) as [[it rest]|]; auto. apply IH. apply expire_one_retR. exact R.
Qed.

(* ------------------------------------------------------------ list helpers *)
Lemma Forall2_map2 : forall {A B A' B'} (R : A -> B -> Prop) (R' : A' -> B' -> Prop) (f : A -> A') (g : B -> B') l1 l2,
  Forall2 R l1 l2 -> (forall a b, In a l1 -> In b l2 -> R a b -> R' (f a) (g b)) -> Forall2 R' (map f l1) (map g l2).
Proof.
  induction 1 as [|a b l1 l2 HR HF IH]; intros H; simpl; constructor.
  - apply H; auto; left; reflexivity.
  - apply IH. intros. apply H; auto; right; auto.
Qed.
Lemma Forall2_filter2 : forall {A B} (R : A -> B -> Prop) (p : A -> bool) (q : B -> bool) l1 l2,
  Forall2 R l1 l2 -> (forall a b, In a l1 -> In b l2 -> R a b -> p a = q b) -> Forall2 R (filter p l1) (filter q l2).
Proof.
  induction 1 as [|a b l1 l2 HR HF IH]; intros H; simpl; [constructor|].
  rewrite (H a b) by (auto; left; reflexivity). destruct (q b).
  - constructor; auto. apply IH. intros. apply H; auto; right; auto.
  - apply IH. intros. apply H; auto; right; auto.
Qed.

Lemma aget_map_snd : forall {V} (f : N -> V -> V) (m : list (N * V)) i,
  aget N.eqb (map (fun ic => (fst ic, f (fst ic) (snd ic))) m) i =
  match aget N.eqb m i with Some v => Some (f i v) | None => None end.
Proof.
  induction m as [|[j v] m IH]; intros i; simpl; auto.
  destruct (i =? j) eqn:E; auto. apply N.eqb_eq in E; subst. reflexivity.
Qed.

Lemma aget_filter : forall {V} (p : N * V -> bool) (m : list (N * V)) i, NoDup (map fst m) ->
  aget N.eqb (filter p m) i = match aget N.eqb m i with Some v => if p (i, v) then Some v else None | None => None end.
Proof.
  induction m as [|[j v] m IH]; intros i ND; simpl; auto. inversion ND; subst.
  destruct (i =? j) eqn:E.
  - apply N.eqb_eq in E; subst. destruct (p (j, v)) eqn:P; simpl.
    + rewrite N.eqb_refl. reflexivity.
    + rewrite IH by assumption. destruct (aget N.eqb m j) eqn:G; auto.
      exfalso. apply H1. apply (aget_In N.eqb N_eqb_eq') in G. change j with (fst (j, v0)). apply in_map. exact G.
  - destruct (p (j, v)); simpl; [rewrite E|]; apply IH; assumption.
Qed.

Lemma fold_adel_filter : forall {V} (l : list N) (cs : list (N * V)),
  fold_left (fun cs ch => adel N.eqb cs ch) l cs = filter (fun ic => negb (memN (fst ic) l)) cs.
Proof.
  induction l as [|x l IH]; intros cs; simpl.
  - symmetry. apply filter_all. auto.
  - rewrite IH. clear IH. induction cs as [|[j v] cs IHc]; simpl; auto.
    rewrite (N.eqb_sym j x). destruct (x =? j) eqn:E; simpl; auto.
    destruct (memN j l); simpl; auto. f_equal. exact IHc.
Qed.

Definition clr (c : mchan) : mchan := set_stream c (mkStream (s_top (c_stream c)) (s_epoch (c_stream c)) []).
Lemma clr_clr : forall c, clr (clr c) = clr c.
Proof. reflexivity. Qed.

Lemma map_key_absent : forall {V} (f : V -> V) (m : list (N * V)) x, ~ In x (map fst m) ->
  map (fun ic => (fst ic, if fst ic =? x then f (snd ic) else snd ic)) m = m.
Proof.
  induction m as [|[j v] m IH]; intros x NI; simpl; auto.
  assert (j =? x = false) as -> by (apply N.eqb_neq; intro; subst; apply NI; left; reflexivity).
  f_equal. apply IH. intro C. apply NI. right. exact C.
Qed.

Lemma aset_as_map : forall {V} (f : V -> V) (m : list (N * V)) x c, NoDup (map fst m) -> aget N.eqb m x = Some c ->
  aset N.eqb m x (f c) = map (fun ic => (fst ic, if fst ic =? x then f (snd ic) else snd ic)) m.
Proof.
  induction m as [|[j v] m IH]; intros x c ND G; simpl in *; [discriminate|]. inversion ND; subst.
  rewrite (N.eqb_sym j x). destruct (x =? j) eqn:E.
  - apply N.eqb_eq in E; subst. inversion G; subst. f_equal. symmetry. apply map_key_absent. exact H1.
  - f_equal. apply IH; auto.
Qed.

Lemma clear_stream_chans : forall h x, NoDup (map fst (h_chans h)) ->
  h_chans (clear_stream h x) = map (fun ic => (fst ic, if fst ic =? x then clr (snd ic) else snd ic)) (h_chans h).
Proof.
  intros h x ND. unfold clear_stream, get_chan. destruct (aget N.eqb (h_chans h) x) as [c|] eqn:G.
  - simpl. apply (aset_as_map clr); auto.
  - symmetry. apply map_key_absent. apply (aget_None_notin N.eqb N_eqb_eq'). exact G.
Qed.

Lemma fold_clear_chans : forall l h, NoDup (map fst (h_chans h)) ->
  h_chans (fold_left clear_stream l h) =
  map (fun ic => (fst ic, if memN (fst ic) l then clr (snd ic) else snd ic)) (h_chans h).
Proof.
  induction l as [|x l IH]; intros h ND; simpl.
  - symmetry. rewrite <- (map_id (h_chans h)) at 2. apply map_ext. intros [i c]. reflexivity.
  - rewrite IH.
    + rewrite clear_stream_chans by assumption. rewrite map_map. apply map_ext. intros [i c]. simpl.
      rewrite (N.eqb_sym i x). destruct (x =? i); simpl; auto. destruct (memN i l); reflexivity.
    + rewrite clear_stream_chans by assumption. rewrite map_map. simpl. exact ND.
Qed.

Lemma fold_clear_other : forall l h,
  h_idem (fold_left clear_stream l h) = h_idem h /\ h_now (fold_left clear_stream l h) = h_now h /\
  h_nep (fold_left clear_stream l h) = h_nep h /\ h_bcast (fold_left clear_stream l h) = h_bcast h /\
  h_ret (fold_left clear_stream l h) = h_ret h /\ h_pend (fold_left clear_stream l h) = h_pend h.
Proof.
  induction l as [|x l IH]; intros h; simpl; [splits; reflexivity|].
  destruct (IH (clear_stream h x)) as (A & B & C & D & E & F).
  assert (G : h_idem (clear_stream h x) = h_idem h /\ h_now (clear_stream h x) = h_now h /\ h_nep (clear_stream h x) = h_nep h /\
              h_bcast (clear_stream h x) = h_bcast h /\ h_ret (clear_stream h x) = h_ret h /\ h_pend (clear_stream h x) = h_pend h).
  { unfold clear_stream. destruct (get_chan h x); splits; reflexivity. }
  destruct G as (A' & B' & C' & D' & E' & F'). splits; congruence.
Qed.

(* ------------------------------------------------- the StreamTTL sweep *)
Lemma arel_keys : forall cfgs (m : list (N * mchan)) (s : list (N * schan)), arel (chanR cfgs) m s -> map fst m = map fst s.
Proof. induction 1 as [|[i c] [j sc] m s [E _] _ IH]; simpl; auto. simpl in E. subst. f_equal. exact IH. Qed.

Lemma due_iff : forall d now, due d now = true <-> 0 < d /\ d <= now.
Proof. intros. unfold due. rewrite andb_true_iff, N.ltb_lt, N.leb_le. tauto. Qed.

Definition reset_stream (sc : schan) : schan := mkSC (sc_epoch sc) (sc_map sc) (sc_log sc) 0 0 (sc_mdead sc).

Lemma chanR_clr_reset : forall cfgs i c sc, chanR cfgs i c sc -> chanR cfgs i (clr c) (reset_stream sc).
Proof.
  intros cfgs i c sc (ES & EM & EL & EO & EK). unfold chanR, clr, reset_stream, retained, lastk, ord_ok, cache_ok in *; simpl.
  rewrite ES. simpl. splits; auto; try tauto.
  rewrite Nat.sub_0_r, skipn_all. reflexivity.
Qed.

Lemma chanR_clr_noop : forall cfgs i c sc, chanR cfgs i c sc -> sc_keep sc = 0%nat -> chanR cfgs i (clr c) sc.
Proof.
  intros cfgs i c sc (ES & EM & EL & EO & EK) KP. unfold chanR, clr, retained, lastk, ord_ok, cache_ok in *; simpl.
  rewrite ES. simpl. rewrite KP in *. rewrite Nat.sub_0_r, skipn_all in *. splits; auto; try tauto.
Qed.

Theorem expire_streams_sim : forall cfgs h s h' ok,
  hubR cfgs h s -> WFs s -> RetInv cfgs h -> retR (h_ret h) s ->
  expire_streams h = (h', ok) ->
  ok = true /\ hubR cfgs h' (spec_expire_streams s) /\ WFs (spec_expire_streams s) /\
  RetInv cfgs h' /\ retR (h_ret h') (spec_expire_streams s) /\ h_pend h' = h_pend h.
Proof.
  intros cfgs h s h' ok HR WF (RS & RM & SO) R H.
  pose proof HR as (HC & HI & HN & HE & HB). pose proof WF as (W1 & W2).
  destruct RS as (CV & QP & NX & BD).
  unfold expire_streams in H.
  (* which channels the reference map expires *)
  assert (DUE : forall i sc, s_get s i = Some sc -> due (sc_sdead sc) (ss_now s) = true ->
            exists d, aget N.eqb (r_sexp (h_ret h)) i = Some d /\ d <= h_now h /\ d = sc_sdead sc).
  { intros i sc G D. apply due_iff in D as (D1 & D2). pose proof (R i) as C. rewrite G in C. destruct C as (A & _).
    exists (sc_sdead sc). rewrite HN. split; [apply A; lia|auto]. }
  assert (WFX : WFs (spec_expire_streams s)).
  { unfold WFs, spec_expire_streams; simpl. split.
    - rewrite map_map. simpl. exact W1.
    - intros i sc HIN. apply in_map_iff in HIN as ([j sc0] & E & HIN). simpl in E. inversion E; subst.
      destruct (W2 _ _ HIN). destruct (due (sc_sdead sc0) (ss_now s)); simpl; auto. }
  destruct ((r_snext (h_ret h) =? 0) || (h_now h <? r_snext (h_ret h))) eqn:SK.
  - (* nothing is due *)
    inversion H; subst h' ok.
    assert (ID : spec_expire_streams s = s).
    { unfold spec_expire_streams. destruct s as [chans idem now nep bc]. simpl in *. f_equal.
      rewrite <- (map_id chans) at 2. apply map_ext_in. intros [i sc] HIN. simpl. f_equal.
      destruct (due (sc_sdead sc) now) eqn:D; auto. exfalso.
      assert (G : s_get (mkSS chans idem now nep bc) i = Some sc) by (apply (In_aget_nodup N.eqb N_eqb_eq'); auto).
      destruct (DUE _ _ G D) as (d & GS & LE & _). destruct (CV _ _ GS) as (d' & HQ & LE').
      destruct (NX _ HQ) as (Z & NL). simpl in NL.
      apply orb_true_iff in SK as [K|K]; [apply N.eqb_eq in K; contradiction | apply N.ltb_lt in K; lia]. }
    rewrite ID. splits; auto. unfold RetInv, RetInvR. splits; auto. unfold RetCov. splits; auto.
  - destruct (ttl_loop _ _ _ _ _) as [[[[m q] fired] next] ok1] eqn:LP.
    destruct (ttl_loop_spec _ _ _ _ _ _ _ _ _ _ LP CV QP) as (new & EF & E2 & E3 & CV' & QP' & OKF & FU).
    simpl in EF. subst fired.
    assert (OK1 : ok1 = true) by (apply FU; pose proof (mu2_le (r_sexp (h_ret h)) (h_now h) (r_squeue (h_ret h))); lia).
    destruct (OKF OK1) as (QG & NX').
    inversion H; subst h' ok. clear H.
    set (h0 := set_ret h (mkRet m q next (r_rexp (h_ret h)) (r_rqueue (h_ret h)) (r_rnext (h_ret h)))).
    destruct (fold_clear_other new h0) as (F1 & F2 & F3 & F4 & F5 & F6).
    assert (NDM : NoDup (map fst (h_chans h0))) by (simpl; rewrite (arel_keys _ _ _ HC); exact W1).
    (* fired = due, on every channel of the reference map *)
    assert (FIRE : forall i sc, s_get s i = Some sc ->
              (due (sc_sdead sc) (ss_now s) = true -> memN i new = true) /\
              (memN i new = true -> due (sc_sdead sc) (ss_now s) = true \/ (sc_sdead sc = 0 /\ sc_keep sc = 0%nat /\ sc_map sc = []))).
    { intros i sc G. split.
      - intro D. destruct (DUE _ _ G D) as (d & GS & LE & _). eapply ttl_loop_complete; eauto.
      - intro M. unfold memN in M. apply existsb_exists in M as (x & HIN & EX). apply N.eqb_eq in EX; subst x.
        destruct (E2 _ HIN) as (d & GS & LE). pose proof (R i) as C. rewrite G in C. destruct C as (A & B & _).
        destruct (N.eq_dec (sc_sdead sc) 0) as [Z|NZ].
        + right. destruct (B Z) as [L|(K & MP)]; [congruence|auto].
        + left. rewrite (A NZ) in GS. inversion GS; subst. apply due_iff. split; [lia|]. rewrite <- HN. exact LE. }
    splits; auto.
    + (* hubR *)
      unfold hubR. rewrite F1, F2, F3, F4. simpl. splits; auto.
      rewrite fold_clear_chans by exact NDM. unfold spec_expire_streams; simpl.
      apply (Forall2_map2 _ _ _ _ _ _ HC). intros [i c] [j sc] HI1 HI2 (EQ & HCR). simpl in *. subst j. split; auto.
      assert (G : s_get s i = Some sc) by (apply (In_aget_nodup N.eqb N_eqb_eq'); auto).
      destruct (FIRE _ _ G) as (FA & FB).
      destruct (due (sc_sdead sc) (ss_now s)) eqn:D.
      * rewrite (FA eq_refl). apply chanR_clr_reset. exact HCR.
      * destruct (memN i new) eqn:M; auto. destruct (FB eq_refl) as [C|(_ & K & _)]; [discriminate|].
        apply chanR_clr_noop; auto.
    + (* RetInv *)
      unfold RetInv, RetInvR. rewrite F5, F2. simpl. splits; auto.
      * unfold RetCov. splits; auto. intros c d HG. rewrite E3 in HG. destruct (memN c new); [discriminate|]. apply BD; auto.
      * intros c d HG. rewrite E3 in HG. destruct (memN c new); [discriminate|]. eapply SO; eauto.
    + (* retR *)
      rewrite F5. simpl. intro i. unfold spec_expire_streams, s_get; simpl.
      rewrite (aget_map_snd (fun _ c => if due (sc_sdead c) (ss_now s) then mkSC (sc_epoch c) (sc_map c) (sc_log c) 0 0 (sc_mdead c) else c)).
      pose proof (R i) as C. unfold s_get in C. destruct (aget N.eqb (ss_chans s) i) as [sc|] eqn:G; [|exact C].
      destruct (FIRE i sc G) as (FA & FB). destruct C as (A & B & C3).
      unfold chanRet. rewrite E3.
      destruct (due (sc_sdead sc) (ss_now s)) eqn:D; simpl.
      * rewrite (FA eq_refl). splits; auto. intro Z; contradiction Z; reflexivity.
      * destruct (memN i new) eqn:M.
        -- destruct (FB eq_refl) as [C|(Z & K & MP)]; [discriminate|]. splits; auto. intro NZ; contradiction.
        -- splits; auto.
Qed.

(* --------------------------------------------------- the MetaTTL sweep *)
Theorem remove_channels_sim : forall cfgs h s h' ok,
  hubR cfgs h s -> WFs s -> RetInv cfgs h -> retR (h_ret h) s ->
  remove_channels h = (h', ok) ->
  ok = true /\ hubR cfgs h' (spec_remove_channels s) /\ WFs (spec_remove_channels s) /\
  RetInv cfgs h' /\ retR (h_ret h') (spec_remove_channels s) /\ h_pend h' = h_pend h.
Proof.
  intros cfgs h s h' ok HR WF (RS & RM & SO) R H.
  pose proof HR as (HC & HI & HN & HE & HB). pose proof WF as (W1 & W2).
  destruct RM as (CV & QP & NX & BD).
  unfold remove_channels in H.
  assert (DUE : forall i sc, s_get s i = Some sc -> due (sc_mdead sc) (ss_now s) = true ->
            exists d, aget N.eqb (r_rexp (h_ret h)) i = Some d /\ d <= h_now h).
  { intros i sc G D. apply due_iff in D as (D1 & D2). pose proof (R i) as C. rewrite G in C. destruct C as (_ & _ & A).
    exists (sc_mdead sc). rewrite HN. split; auto. rewrite A. assert (sc_mdead sc =? 0 = false) as -> by (apply N.eqb_neq; lia). reflexivity. }
  assert (WFX : WFs (spec_remove_channels s)).
  { unfold WFs, spec_remove_channels; simpl. split.
    - clear - W1. induction (ss_chans s) as [|[i sc] l IH]; simpl; auto. inversion W1; subst.
      destruct (negb (due (sc_mdead sc) (ss_now s))); simpl; auto. constructor; auto.
      intro C. apply H1. apply in_map_iff in C as (x & E & HX). apply filter_In in HX as (HX & _).
      apply in_map_iff. exists x. auto.
    - intros i sc HIN. apply filter_In in HIN as (HIN & _). eauto. }
  destruct ((r_rnext (h_ret h) =? 0) || (h_now h <? r_rnext (h_ret h))) eqn:SK.
  - inversion H; subst h' ok.
    assert (ID : spec_remove_channels s = s).
    { unfold spec_remove_channels. destruct s as [chans idem now nep bc]. simpl in *. f_equal.
      apply filter_all. intros [i sc] HIN. simpl.
      destruct (due (sc_mdead sc) now) eqn:D; auto. exfalso.
      assert (G : s_get (mkSS chans idem now nep bc) i = Some sc) by (apply (In_aget_nodup N.eqb N_eqb_eq'); auto).
      destruct (DUE _ _ G D) as (d & GS & LE). destruct (CV _ _ GS) as (d' & HQ & LE').
      destruct (NX _ HQ) as (Z & NL). simpl in NL.
      apply orb_true_iff in SK as [K|K]; [apply N.eqb_eq in K; contradiction | apply N.ltb_lt in K; lia]. }
    rewrite ID. splits; auto. unfold RetInv, RetInvR. splits; auto. unfold RetCov. splits; auto.
  - destruct (ttl_loop _ _ _ _ _) as [[[[m q] fired] next] ok1] eqn:LP.
    destruct (ttl_loop_spec _ _ _ _ _ _ _ _ _ _ LP CV QP) as (new & EF & E2 & E3 & CV' & QP' & OKF & FU).
    simpl in EF. subst fired.
    assert (OK1 : ok1 = true) by (apply FU; pose proof (mu2_le (r_rexp (h_ret h)) (h_now h) (r_rqueue (h_ret h))); lia).
    destruct (OKF OK1) as (QG & NX').
    inversion H; subst h' ok. clear H.
    assert (FIRE : forall i sc, s_get s i = Some sc -> memN i new = due (sc_mdead sc) (ss_now s)).
    { intros i sc G. destruct (due (sc_mdead sc) (ss_now s)) eqn:D.
      - destruct (DUE _ _ G D) as (d & GS & LE). eapply ttl_loop_complete; eauto.
      - destruct (memN i new) eqn:M; auto. exfalso.
        unfold memN in M. apply existsb_exists in M as (x & HIN & EX). apply N.eqb_eq in EX; subst x.
        destruct (E2 _ HIN) as (d & GS & LE). pose proof (R i) as C. rewrite G in C. destruct C as (_ & _ & A).
        rewrite A in GS. destruct (sc_mdead sc =? 0) eqn:Z; [discriminate|]. inversion GS; subst d.
        apply N.eqb_neq in Z. assert (due (sc_mdead sc) (ss_now s) = true) by (apply due_iff; split; [lia|rewrite <- HN; exact LE]). congruence. }
    simpl. splits; auto.
    + unfold hubR; simpl. splits; auto. rewrite fold_adel_filter. unfold spec_remove_channels; simpl.
      apply (Forall2_filter2 _ _ _ _ _ HC). intros [i c] [j sc] HI1 HI2 (EQ & HCR). simpl in *. subst j.
      assert (G : s_get s i = Some sc) by (apply (In_aget_nodup N.eqb N_eqb_eq'); auto).
      rewrite (FIRE _ _ G). reflexivity.
    + unfold RetInv, RetInvR; simpl. splits; auto.
      unfold RetCov. splits; auto. intros c d HG. rewrite E3 in HG. destruct (memN c new); [discriminate|]. apply BD; auto.
    + intro i. simpl. unfold spec_remove_channels, s_get; simpl. rewrite (aget_filter _ _ _ W1).
      pose proof (R i) as C. unfold s_get in C. destruct (aget N.eqb (ss_chans s) i) as [sc|] eqn:G.
      * simpl. rewrite <- (FIRE i sc G). destruct C as (A & B & C3). unfold chanRet. rewrite E3.
        destruct (memN i new); simpl; auto.
      * unfold chanRet in *. rewrite E3. destruct (memN i new); auto.
Qed.

(* ------------------------------------------- all other operations: RetInv *)
Lemma RetInv_of_rn : forall cfgs h h', rn h' = rn h -> RetInv cfgs h -> RetInv cfgs h'.
Proof. intros cfgs h h' E RI. unfold RetInv in *. inversion E as [[E1 E2]]. rewrite E1, E2. exact RI. Qed.

Lemma mttl_of_cfg : forall cfgs ch cf, cfg_of cfgs ch = CfgOk cf -> mttl_of cfgs ch = cf_mttl cf.
Proof. intros. unfold mttl_of. rewrite H. reflexivity. Qed.

Lemma step_RetInv : forall cfgs h o h' r, RetInv cfgs h -> ref_op o = true -> step cfgs h o = (h', r) -> RetInv cfgs h'.
Proof.
  intros cfgs h o h' r RI RO H. destruct o; simpl in RO; try discriminate; simpl in H.
  - destruct (publish cfgs h ch k o) as [hx u] eqn:E. inversion H; subst.
    pose proof (publish_rn _ _ _ _ _ _ _ E) as RN. unfold rn_publish in RN. unfold RetInv.
    destruct (cfg_of cfgs ch) as [cf|e] eqn:CF; [|inversion RN as [[E1 E2]]; rewrite E1, E2; exact RI].
    destruct u as [e|p [|] rs cu]; try (inversion RN as [[E1 E2]]; rewrite E1, E2; exact RI).
    + destruct rs; try (inversion RN as [[E1 E2]]; rewrite E1, E2; exact RI).
      destruct (po_refresh o && (0 <? cf_keyttl cf)); inversion RN as [[E1 E2]]; rewrite E1, E2; [|exact RI].
      rewrite <- (mttl_of_cfg _ _ _ CF). apply RetInvR_touch_m. exact RI.
    + inversion RN as [[E1 E2]]. rewrite E1, E2. apply RetInvR_ret_touch; auto.
  - destruct (remove cfgs h ch k o) as [hx u] eqn:E. inversion H; subst.
    pose proof (remove_rn _ _ _ _ _ _ _ E) as RN. unfold rn_remove in RN. unfold RetInv.
    destruct (cfg_of cfgs ch) as [cf|e] eqn:CF; [|inversion RN as [[E1 E2]]; rewrite E1, E2; exact RI].
    destruct u as [e|p [|] rs cu]; try (inversion RN as [[E1 E2]]; rewrite E1, E2; exact RI).
    inversion RN as [[E1 E2]]. rewrite E1, E2. apply RetInvR_ret_touch; auto.
  - inversion H; subst. pose proof (clear_rn h ch) as RN. unfold RetInv.
    pose proof (f_equal fst RN) as E1. pose proof (f_equal snd RN) as E2. unfold rn in E1, E2. cbn [fst snd] in E1, E2.
    rewrite E1, E2. destruct (get_chan h ch); simpl; [|exact RI].
    destruct RI as (S & M & SO). unfold RetInvR; simpl. splits.
    + apply RetCov_adel. exact S.
    + apply RetCov_adel. exact M.
    + intros c d HG. destruct (N.eq_dec c ch) as [->|NC]; [rewrite (aget_adel_same N.eqb) in HG; discriminate|].
      rewrite (aget_adel_other N.eqb N_eqb_eq') in HG; eauto.
  - destruct (read_state cfgs h ch rev cursor limit k asc) as [hx u] eqn:E. inversion H; subst.
    pose proof (read_state_rn _ _ _ _ _ _ _ _ _ _ E) as RN. unfold RetInv.
    destruct (cfg_of cfgs ch) as [cf|e] eqn:CF; inversion RN as [[E1 E2]]; rewrite E1, E2; [|exact RI].
    rewrite <- (mttl_of_cfg _ _ _ CF). apply RetInvR_touch_m. exact RI.
  - destruct (read_stream cfgs h ch since limit reverse) as [hx u] eqn:E. inversion H; subst.
    pose proof (read_stream_rn _ _ _ _ _ _ _ _ E) as RN. unfold RetInv. inversion RN as [[E1 E2]]. rewrite E1, E2.
    apply RetInvR_touch_m. exact RI.
  - inversion H; subst. destruct RI as (S & M & SO). unfold RetInv, RetInvR; simpl. splits; auto.
    + eapply RetCov_advance; eauto. lia.
    + eapply RetCov_advance; eauto. lia.
  - destruct (h_pend h) eqn:PE; [|inversion H; subst; exact RI].
    destruct (phase1 cfgs h) as [h1 ok] eqn:P1. inversion H; subst.
    eapply RetInv_of_rn; [|exact RI]. rewrite phase2_all_rn. eapply phase1_rn; eauto.
Qed.

Lemma step_retR : forall cfgs h s o h' r s',
  hubR cfgs h s -> RetInv cfgs h -> retR (h_ret h) s -> ref_op o = true ->
  step cfgs h o = (h', r) -> spec_step cfgs s o = (s', r) -> retR (h_ret h') s'.
Proof.
  intros cfgs h s o h' r s' HR RI R RO H1 H2. pose proof HR as (HC & HI & HN & HE & HB).
  destruct o; simpl in RO; try discriminate; simpl in H1, H2.
  - destruct (publish cfgs h ch k o) as [hx u] eqn:E1. destruct (spec_publish cfgs s ch k o) as [sx u'] eqn:E2.
    inversion H1; inversion H2; subst. assert (u' = u) by congruence. subst u'.
    destruct RI as (_ & _ & SO). eapply publish_retR; eauto.
  - destruct (remove cfgs h ch k o) as [hx u] eqn:E1. destruct (spec_remove cfgs s ch k o) as [sx u'] eqn:E2.
    inversion H1; inversion H2; subst. assert (u' = u) by congruence. subst u'. eapply remove_retR; eauto.
  - inversion H1; inversion H2; subst. eapply clear_retR; eauto.
  - destruct (read_state cfgs h ch rev cursor limit k asc) as [hx u] eqn:E1.
    destruct (spec_read_state cfgs s ch rev cursor limit k asc) as [sx u'] eqn:E2.
    inversion H1; inversion H2; subst. eapply read_state_retR; eauto.
  - destruct (read_stream cfgs h ch since limit reverse) as [hx u] eqn:E1.
    destruct (spec_read_stream cfgs s ch since limit reverse) as [sx u'] eqn:E2.
    inversion H1; inversion H2; subst. eapply read_stream_retR; eauto.
  - inversion H1; inversion H2; subst. exact R.
  - inversion H2; subst.
    assert (E : h_ret h' = h_ret h).
    { destruct (h_pend h) eqn:PE; [|inversion H1; subst; reflexivity].
      destruct (phase1 cfgs h) as [h1 ok] eqn:P1. inversion H1; subst.
      pose proof (phase2_all_rn (length (h_pend h1)) h1) as A. pose proof (phase1_rn _ _ _ _ P1) as B.
      unfold rn in A, B. inversion A. inversion B. congruence. }
    rewrite E. apply spec_sweep_retR. exact R.
Qed.

(* ------------------------------------------------- the full refinement *)
Definition Rel2 (cfgs : list rawcfg) (h : hub) (s : sstate) : Prop :=
  Rel cfgs h s /\ RetInv cfgs h /\ retR (h_ret h) s.

Lemma Rel2_0 : forall cfgs, Rel2 cfgs hub0 sstate0.
Proof. intros. unfold Rel2. splits; auto using Rel0, RetInv0, retR0. Qed.

Lemma step_sim2 : forall cfgs h s o h' r s' r',
  Rel2 cfgs h s -> seq_op o = true ->
  step cfgs h o = (h', r) -> spec_step cfgs s o = (s', r') ->
  r = r' /\ Rel2 cfgs h' s'.
Proof.
  intros cfgs h s o h' r s' r' (RL & RI & R) SQ H1 H2.
  destruct (ref_op o) eqn:RO.
  - destruct (step_sim _ _ _ _ _ _ _ _ RL RO H1 H2) as (-> & RL').
    destruct RL as (HR & IV & WF & PE).
    split; auto. unfold Rel2. splits; auto.
    + eapply step_RetInv; eauto.
    + eapply step_retR; eauto.
  - destruct RL as (HR & IV & WF & PE). pose proof (step_Inv _ _ _ _ _ IV H1) as IV'.
    destruct o; simpl in SQ, RO; try discriminate; simpl in H1, H2.
    + destruct (expire_streams h) as [hx ok] eqn:E.
      destruct (expire_streams_sim _ _ _ _ _ HR WF RI R E) as (-> & HR' & WF' & RI' & R' & PE').
      inversion H1; inversion H2; subst. split; auto. unfold Rel2, Rel. splits; auto. congruence.
    + destruct (remove_channels h) as [hx ok] eqn:E.
      destruct (remove_channels_sim _ _ _ _ _ HR WF RI R E) as (-> & HR' & WF' & RI' & R' & PE').
      inversion H1; inversion H2; subst. split; auto. unfold Rel2, Rel. splits; auto. congruence.
Qed.

Theorem refines_all_from : forall cfgs ops h s,
  Rel2 cfgs h s -> forallb seq_op ops = true -> run_obs cfgs h ops = spec_obs cfgs s ops.
Proof.
  intros cfgs. induction ops as [|o ops IH]; intros h s RL SQ; simpl; auto.
  simpl in SQ. apply andb_true_iff in SQ as (SQ1 & SQ2).
  destruct (step cfgs h o) as [h1 r] eqn:E1. destruct (spec_step cfgs s o) as [s1 r'] eqn:E2.
  destruct (step_sim2 _ _ _ _ _ _ _ _ RL SQ1 E1 E2) as (-> & RL1).
  pose proof RL as (((_ & _ & _ & _ & HB) & _) & _). pose proof RL1 as (((_ & _ & _ & _ & HB1) & _) & _).
  rewrite HB, HB1. f_equal. apply IH; auto.
Qed.

Theorem refines_all : forall cfgs ops,
  forallb seq_op ops = true -> run_obs cfgs hub0 ops = spec_obs cfgs sstate0 ops.
Proof. intros. apply refines_all_from; auto. apply Rel2_0. Qed.
