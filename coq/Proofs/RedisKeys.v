(* Proofs for C34: keys of one operation share a hash tag (hence a slot),
   extractChannel inverts messageChannelID, redisSlot = Redis' HASH_SLOT. *)
From Coq Require Import String List NArith Bool Lia ZifyN ZifyBool.
From Cfg Require Import Model.Crc16 Model.Partition Model.RedisKeys Proofs.Crc16.
Import ListNotations.
Open Scope N_scope.

(* ---------------- small list facts ---------------- *)
Definition lacks (c : N) (l : list N) : bool := forallb (fun x => negb (x =? c)) l.

Lemma lacks_In : forall c l, lacks c l = true -> ~ In c l.
Proof.
  intros c l H I. unfold lacks in H. rewrite forallb_forall in H. specialize (H c I).
  rewrite N.eqb_refl in H. discriminate.
Qed.

Lemma lacks_app : forall c a b, lacks c (a ++ b) = lacks c a && lacks c b.
Proof. intros. unfold lacks. apply forallb_app. Qed.

Lemma split_at_app : forall c a b, lacks c a = true -> split_at c (a ++ c :: b) = Some (a, b).
Proof.
  induction a as [|x a IH]; intros b H; cbn [app split_at].
  - now rewrite N.eqb_refl.
  - cbn [lacks forallb] in H. apply andb_prop in H. destruct H as [H1 H2].
    destruct (x =? c); [discriminate|]. fold (lacks c a) in H2. now rewrite IH.
Qed.

Lemma hash_tag_mid : forall a t b,
  lacks LB a = true -> lacks RB t = true -> t <> [] ->
  hash_tag (a ++ LB :: t ++ RB :: b) = t.
Proof.
  intros a t b Ha Ht Hne. unfold hash_tag.
  rewrite split_at_app by assumption. rewrite split_at_app by assumption.
  destruct t; [contradiction|reflexivity].
Qed.

(* the part of the channel that Redis hashes when the key is ...{ch}...: up to the first '}' *)
Fixpoint tw (l : list N) : list N :=
  match l with
  | [] => []
  | x :: t => if x =? RB then [] else x :: tw t
  end.

Lemma tw_split : forall ch s, exists b, ch ++ RB :: s = tw ch ++ RB :: b.
Proof.
  induction ch as [|x ch IH]; intro s; cbn [app tw].
  - exists s. reflexivity.
  - destruct (N.eqb_spec x RB) as [->|NE].
    + exists (ch ++ RB :: s). reflexivity.
    + destruct (IH s) as [b E]. exists b. cbn [app]. now rewrite E.
Qed.

Lemma tw_lacks : forall ch, lacks RB (tw ch) = true.
Proof.
  induction ch as [|x ch IH]; [reflexivity|]. cbn [tw].
  destruct (N.eqb_spec x RB); [reflexivity|]. cbn [lacks forallb].
  fold (lacks RB (tw ch)). rewrite IH. destruct (N.eqb_spec x RB); [contradiction|reflexivity].
Qed.

(* a channel is safe for the "{ch}" scheme when Redis finds a non-empty tag in it *)
Definition ch_safe (ch : list N) : bool :=
  match ch with [] => false | x :: _ => negb (x =? RB) end.

Lemma tw_nonempty : forall ch, ch_safe ch = true -> tw ch <> [].
Proof.
  intros [|x ch] H; [discriminate|]. cbn [ch_safe] in H. cbn [tw].
  destruct (x =? RB); [discriminate|]. discriminate.
Qed.

(* a partition tag is usable when non-empty, without '}' (hash tag) and without '.' (extractChannel) *)
Definition tag_ok (tag : list N) : bool :=
  match tag with [] => false | _ => lacks RB tag && lacks DOT tag end.

(* ---------------- shape of the keys ---------------- *)
(* key = a ++ "{" ++ T ++ "}" ++ b with no '{' in a *)
Definition tag_form (T key : list N) : Prop :=
  exists a b, key = a ++ LB :: T ++ RB :: b /\ lacks LB a = true.

Lemma tag_form_hash : forall T key, tag_form T key -> lacks RB T = true -> T <> [] -> hash_tag key = T.
Proof. intros T key (a & b & -> & Ha) HT Hne. apply hash_tag_mid; assumption. Qed.

Lemma tagged_form : forall a tag ch s, lacks LB a = true -> tag_form tag (a ++ tagged tag ch ++ s).
Proof.
  intros a tag ch s Ha. exists a, (DOT :: ch ++ s). split; [|assumption].
  unfold tagged. cbn [app]. rewrite <- app_assoc. reflexivity.
Qed.

Lemma braced_form : forall a ch s, lacks LB a = true -> tag_form (tw ch) (a ++ braced ch ++ s).
Proof.
  intros a ch s Ha. unfold braced. destruct (tw_split ch s) as [b E].
  exists a, b. split; [|assumption]. cbn [app]. rewrite <- app_assoc. cbn [app]. now rewrite E.
Qed.

(* the tag Redis must see for the keys of (c, tag, ch) *)
Definition the_tag (c : cfg) (tag ch : list N) : list N := if 0 <? c_parts c then tag else tw ch.

Definition tag_safe (c : cfg) (tag ch : list N) : bool :=
  lacks LB (c_prefix c) && (if 0 <? c_parts c then tag_ok tag else ch_safe ch).

Lemma the_tag_good : forall c tag ch, tag_safe c tag ch = true ->
  lacks RB (the_tag c tag ch) = true /\ the_tag c tag ch <> [].
Proof.
  intros c tag ch H. unfold tag_safe in H. apply andb_prop in H. destruct H as [_ H].
  unfold the_tag. destruct (0 <? c_parts c).
  - unfold tag_ok in H. destruct tag; [discriminate|]. apply andb_prop in H. split; [tauto|discriminate].
  - split; [apply tw_lacks|apply tw_nonempty; assumption].
Qed.

Lemma lacks_prefix_infix : forall c infix, lacks LB (c_prefix c) = true -> lacks LB infix = true ->
  lacks LB (c_prefix c ++ infix) = true.
Proof. intros. rewrite lacks_app. now apply andb_true_intro. Qed.

Lemma b_keyed_form : forall c infix tag ch suffix,
  c_cluster c = true -> lacks LB (c_prefix c) = true -> lacks LB infix = true ->
  tag_form (the_tag c tag ch) (b_keyed c infix tag ch suffix).
Proof.
  intros c infix tag ch suffix Hc Hp Hi. unfold b_keyed, the_tag. rewrite Hc. cbn [negb].
  destruct (0 <? c_parts c).
  - rewrite (app_assoc (c_prefix c)). apply tagged_form, lacks_prefix_infix; assumption.
  - rewrite (app_assoc (c_prefix c)). apply braced_form, lacks_prefix_infix; assumption.
Qed.

Lemma b_message_form : forall c tag ch,
  c_cluster c = true -> lacks LB (c_prefix c) = true ->
  tag_form (the_tag c tag ch) (b_message c tag ch).
Proof.
  intros c tag ch Hc Hp. unfold b_message, sharded, the_tag, mprefix. rewrite Hc. cbn [andb].
  destruct (0 <? c_parts c).
  - rewrite <- (app_nil_r (tagged tag ch)). apply tagged_form, lacks_prefix_infix; [assumption|reflexivity].
  - rewrite <- (app_nil_r (braced ch)). apply braced_form, lacks_prefix_infix; [assumption|reflexivity].
Qed.

(* RedisBroker: every key and the PUB/SUB channel carry the same hash tag *)
Theorem broker_keys_tag : forall c tag ch ik k,
  c_cluster c = true -> tag_safe c tag ch = true ->
  In k (broker_keys c tag ch ik) -> hash_tag k = the_tag c tag ch.
Proof.
  intros c tag ch ik k Hc Hs Hin.
  destruct (the_tag_good c tag ch Hs) as [G1 G2].
  assert (Hp : lacks LB (c_prefix c) = true) by (unfold tag_safe in Hs; apply andb_prop in Hs; tauto).
  apply tag_form_hash; try assumption.
  unfold broker_keys in Hin. cbn [In] in Hin.
  destruct Hin as [<-|[<-|[<-|[<-|[<-|[]]]]]].
  - apply b_message_form; assumption.
  - apply b_keyed_form; try assumption; reflexivity.
  - apply b_keyed_form; try assumption; reflexivity.
  - unfold b_meta. apply b_keyed_form; try assumption. destruct (c_lists c); reflexivity.
  - apply b_keyed_form; try assumption; reflexivity.
Qed.

(* RedisPresenceManager: always the "{ch}" scheme *)
Theorem presence_keys_tag : forall c ch k,
  c_cluster c = true -> lacks LB (c_prefix c) = true -> ch_safe ch = true ->
  In k (presence_keys c ch) -> hash_tag k = tw ch.
Proof.
  intros c ch k Hc Hp Hs Hin.
  apply tag_form_hash; [|apply tw_lacks|apply tw_nonempty; assumption].
  assert (F : forall infix, lacks LB infix = true -> tag_form (tw ch) (p_key c infix ch)).
  { intros infix Hi. unfold p_key. rewrite Hc. rewrite (app_assoc (c_prefix c)).
    rewrite <- (app_nil_r (braced ch)). apply braced_form, lacks_prefix_infix; assumption. }
  unfold presence_keys in Hin. cbn [In] in Hin.
  destruct Hin as [<-|[<-|[<-|[<-|[]]]]]; apply F; reflexivity.
Qed.

(* RedisMapBroker (cluster mode requires partitions): always the "{tag}." scheme *)
Theorem map_keys_tag : forall c tag ch ik k,
  c_cluster c = true -> (0 <? c_parts c) = true -> lacks LB (c_prefix c) = true -> tag_ok tag = true ->
  In k (map_keys c tag ch ik) -> hash_tag k = tag.
Proof.
  intros c tag ch ik k Hc Hn Hp Ht Hin.
  assert (G : lacks RB tag = true /\ tag <> []).
  { unfold tag_ok in Ht. destruct tag; [discriminate|]. apply andb_prop in Ht. split; [tauto|discriminate]. }
  destruct G as [G1 G2]. apply tag_form_hash; try assumption.
  assert (F : forall infix, lacks LB infix = true -> tag_form tag (m_key c infix tag ch)).
  { intros infix Hi. unfold m_key. rewrite Hc. cbn [negb]. rewrite (app_assoc (c_prefix c)).
    rewrite <- (app_nil_r (tagged tag ch)). apply tagged_form, lacks_prefix_infix; assumption. }
  unfold map_keys, map_infixes in Hin. cbn [map app In] in Hin.
  destruct Hin as [<-|[<-|[<-|[<-|[<-|[<-|[<-|[<-|[<-|[<-|[]]]]]]]]]]]; try (apply F; reflexivity).
  - unfold m_message, sharded, mprefix. rewrite Hc, Hn. cbn [andb].
    rewrite <- (app_nil_r (tagged tag ch)). apply tagged_form, lacks_prefix_infix; [assumption|reflexivity].
  - unfold m_result. rewrite Hc. cbn [negb]. rewrite (app_assoc (c_prefix c)).
    apply tagged_form, lacks_prefix_infix; [assumption|reflexivity].
  - unfold m_cleanup. rewrite Hc. cbn [negb]. exists (c_prefix c ++ s2b ":cleanup:channels:"), [].
    split; [now rewrite <- app_assoc|apply lacks_prefix_infix; [assumption|reflexivity]].
Qed.

(* equal tags => equal slots *)
Lemma same_tag_same_slot : forall k1 k2, hash_tag k1 = hash_tag k2 -> redis_slot_spec k1 = redis_slot_spec k2.
Proof. intros k1 k2 H. unfold redis_slot_spec. now rewrite H. Qed.

(* ---------------- extractChannel ---------------- *)
Lemma is_prefix_app : forall p s, is_prefix p (p ++ s) = true.
Proof. induction p as [|x p IH]; intro s; cbn; [reflexivity|]. now rewrite N.eqb_refl, IH. Qed.

Lemma trim_prefix_app : forall p s, trim_prefix p (p ++ s) = s.
Proof.
  intros. unfold trim_prefix. rewrite is_prefix_app.
  induction p as [|x p IH]; [reflexivity|]. cbn. exact IH.
Qed.

Lemma index_byte_app : forall c a b, lacks c a = true -> index_byte c (a ++ c :: b) = Some (length a).
Proof.
  induction a as [|x a IH]; intros b H; cbn [app index_byte length].
  - now rewrite N.eqb_refl.
  - cbn [lacks forallb] in H. apply andb_prop in H. destruct H as [H1 H2].
    destruct (x =? c); [discriminate|]. fold (lacks c a) in H2. now rewrite IH.
Qed.

Lemma skipn_len_app : forall (a b : list N), skipn (length a) (a ++ b) = b.
Proof. induction a; intro b; cbn; auto. Qed.

Lemma skipn_after : forall (a b : list N) x, skipn (S (length a)) (a ++ x :: b) = b.
Proof. induction a as [|y a IH]; intros b x; [reflexivity|]. cbn [length app]. exact (IH b x). Qed.

Lemma extract_sharded_tagged : forall tag ch, tag_ok tag = true -> extract_sharded (tagged tag ch) = ch.
Proof.
  intros tag ch Ht.
  assert (Hd : lacks DOT tag = true)
    by (unfold tag_ok in Ht; destruct tag; [discriminate|]; apply andb_prop in Ht; tauto).
  unfold tagged.
  replace (LB :: tag ++ RB :: DOT :: ch) with (LB :: (tag ++ [RB]) ++ DOT :: ch) by (now rewrite <- app_assoc).
  remember (tag ++ [RB]) as a.
  assert (Ha : lacks DOT a = true) by (subst a; rewrite lacks_app, Hd; reflexivity).
  unfold extract_sharded. rewrite N.eqb_refl. cbn [index_byte]. change (LB =? DOT) with false. cbv iota.
  rewrite index_byte_app by assumption. cbn [option_map]. cbn [skipn]. apply skipn_after.
Qed.

(* the configurations the constructors accept *)
Definition broker_cfg_ok (c : cfg) : bool := if 0 <? c_parts c then c_cluster c else true.
Definition map_cfg_ok (c : cfg) : bool := Bool.eqb (c_cluster c) (0 <? c_parts c).

Theorem b_extract_message : forall c tag ch,
  broker_cfg_ok c = true -> (if 0 <? c_parts c then tag_ok tag else true) = true ->
  b_extract c (b_message c tag ch) = ch.
Proof.
  intros c tag ch Hv Ht. unfold b_extract, b_message, sharded, broker_cfg_ok in *.
  destruct (0 <? c_parts c) eqn:P.
  - rewrite Hv. cbn [andb]. rewrite trim_prefix_app. apply extract_sharded_tagged; assumption.
  - rewrite andb_false_r. destruct (c_cluster c).
    + rewrite trim_prefix_app. unfold braced.
      assert (L : (2 <=? N.of_nat (length (LB :: ch ++ [RB]))) = true).
      { cbn [length]. rewrite app_length. cbn [length]. apply N.leb_le. lia. }
      rewrite L, N.eqb_refl. cbn [andb].
      assert (LL : last (LB :: ch ++ [RB]) 0 = RB).
      { change (LB :: ch ++ [RB]) with ((LB :: ch) ++ [RB]). apply last_last. }
      rewrite LL, N.eqb_refl. apply removelast_last.
    + apply trim_prefix_app.
Qed.

Theorem m_extract_message : forall c tag ch,
  map_cfg_ok c = true -> (if 0 <? c_parts c then tag_ok tag else true) = true ->
  m_extract c (m_message c tag ch) = ch.
Proof.
  intros c tag ch Hv Ht. unfold m_extract, m_message, sharded, map_cfg_ok in *.
  destruct (0 <? c_parts c) eqn:P.
  - apply eqb_prop in Hv. rewrite Hv. cbn [andb]. rewrite trim_prefix_app.
    apply extract_sharded_tagged; assumption.
  - rewrite andb_false_r. apply trim_prefix_app.
Qed.

(* ---------------- partition tags are usable ---------------- *)
Definition digit (d : N) : bool := (48 <=? d) && (d <=? 57).

Lemma itoa_aux_digits : forall fuel n acc,
  forallb digit acc = true -> forallb digit (itoa_aux fuel n acc) = true.
Proof.
  induction fuel as [|f IH]; intros n acc H; cbn [itoa_aux]; [assumption|].
  assert (D : forallb digit ((48 + n mod 10) :: acc) = true).
  { cbn [forallb]. rewrite H, andb_true_r. unfold digit.
    pose proof (N.mod_lt n 10 ltac:(discriminate)). apply andb_true_intro. split; lia. }
  destruct (n / 10 =? 0); [assumption|apply IH; assumption].
Qed.

Lemma itoa_aux_nonempty : forall fuel n acc, acc <> [] -> itoa_aux fuel n acc <> [].
Proof.
  induction fuel as [|f IH]; intros n acc H; cbn [itoa_aux]; [assumption|].
  destruct (n / 10 =? 0); [discriminate|apply IH; discriminate].
Qed.

Lemma digits_lack : forall c l, digit c = false -> forallb digit l = true -> lacks c l = true.
Proof.
  intros c l Hc H. unfold lacks. rewrite forallb_forall in *. intros x Hx.
  specialize (H x Hx). destruct (N.eqb_spec x c); [subst; congruence|reflexivity].
Qed.

Theorem itoa_tag_ok : forall n, tag_ok (itoa n) = true.
Proof.
  intro n. unfold itoa. cbn [itoa_aux].
  set (r := if n / 10 =? 0 then [48 + n mod 10] else itoa_aux _ _ _).
  assert (D : forallb digit r = true).
  { subst r. pose proof (N.mod_lt n 10 ltac:(discriminate)).
    assert (forallb digit [48 + n mod 10] = true)
      by (cbn [forallb]; unfold digit; rewrite andb_true_r; apply andb_true_intro; split; lia).
    destruct (n / 10 =? 0); [assumption|apply itoa_aux_digits; assumption]. }
  assert (NE : r <> []).
  { subst r. destruct (n / 10 =? 0); [discriminate|apply itoa_aux_nonempty; discriminate]. }
  unfold tag_ok. destruct r; [contradiction|].
  rewrite (digits_lack RB), (digits_lack DOT); auto.
Qed.

(* ---------------- redisSlot = HASH_SLOT ---------------- *)
Lemma split_at_index : forall c l,
  split_at c l = match index_byte c l with
                 | Some i => Some (firstn i l, skipn (S i) l)
                 | None => None
                 end.
Proof.
  induction l as [|x l IH]; [reflexivity|]. cbn [split_at index_byte].
  destruct (x =? c); [reflexivity|]. rewrite IH.
  destruct (index_byte c l); reflexivity.
Qed.

Theorem go_hash_tag_spec : forall key, go_hash_tag key = hash_tag key.
Proof.
  intro key. unfold go_hash_tag, hash_tag. rewrite split_at_index.
  destruct (index_byte LB key) as [start|]; [|reflexivity].
  rewrite split_at_index. destruct (index_byte RB (skipn (S start) key)) as [[|e]|] eqn:I; try reflexivity.
  destruct (skipn (S start) key) as [|y rest]; [discriminate|reflexivity].
Qed.

Lemma Forall_firstn : forall (P : N -> Prop) n l, Forall P l -> Forall P (firstn n l).
Proof.
  intros P n. induction n as [|n IH]; intros l F; [constructor|].
  destruct F; cbn [firstn]; constructor; auto.
Qed.
Lemma Forall_skipn : forall (P : N -> Prop) n l, Forall P l -> Forall P (skipn n l).
Proof.
  intros P n. induction n as [|n IH]; intros l F; [exact F|].
  destruct F; cbn [skipn]; [constructor|auto].
Qed.

Lemma go_hash_tag_bytes : forall key, Forall (fun b => b < 256) key -> Forall (fun b => b < 256) (go_hash_tag key).
Proof.
  intros key F. unfold go_hash_tag. destruct (index_byte LB key); [|assumption].
  destruct (index_byte RB _) as [[|e]|]; try assumption. apply Forall_firstn, Forall_skipn, F.
Qed.

Theorem redis_slot_go_spec : forall tab key,
  tab_check tab = true -> Forall (fun b => b < 256) key ->
  redis_slot_go tab key = redis_slot_spec key.
Proof.
  intros tab key T F. unfold redis_slot_go, redis_slot_spec.
  rewrite crc16_tab_spec by (try assumption; apply go_hash_tag_bytes; assumption).
  rewrite go_hash_tag_spec. change 16383 with (N.ones 14). rewrite N.land_ones. reflexivity.
Qed.
