(* Proofs for C16: on every modelled delivery path a non-delta subscription is
   only handed publications admitted by both filters. *)
From Coq Require Import List NArith Bool Lia.
From Cfg Require Import Model.Merge Model.MergeSpec Proofs.Merge Model.TagsPaths.
Import ListNotations.
Open Scope N_scope.

(* ------------------------------------------------------------- basic facts *)
Lemma was_filtered_or : forall V id, was_filtered V id = s_excl V id || c_excl V id.
Proof. intros; unfold was_filtered; destruct (s_excl V id); reflexivity. Qed.

Lemma visible_iff : forall V id, visible V id = true <-> was_filtered V id = false.
Proof.
  intros; rewrite was_filtered_or; unfold visible.
  destruct (s_excl V id), (c_excl V id); cbn; intuition congruence.
Qed.

Lemma visible_excl : forall V id,
  visible V id = true <-> s_excl V id = false /\ c_excl V id = false.
Proof.
  intros; unfold visible. destruct (s_excl V id), (c_excl V id); cbn; intuition congruence.
Qed.

Lemma visible_nofilters : forall V id, v_stf V = false -> v_ctf V = false -> visible V id = true.
Proof. intros V id Hs Hc; unfold visible, s_excl, c_excl; rewrite Hs, Hc; reflexivity. Qed.

(* ------------------------------------------------------------------- live *)
Lemma write_or_skip_visible : forall V p id,
  write_or_skip V false p = WDeliver id -> id = p_id p /\ visible V id = true.
Proof.
  intros V p id; unfold write_or_skip.
  destruct (was_filtered V (p_id p)) eqn:E; cbn; [discriminate|].
  intros H; inversion H; subst; split; [reflexivity | apply visible_iff; assumption].
Qed.

Lemma live_write_visible : forall V positioned cur p cur' id,
  live_write V positioned false cur p = (cur', WDeliver id) ->
  id = p_id p /\ visible V id = true.
Proof.
  intros V positioned cur p cur' id; unfold live_write.
  destruct (p_off p =? 0).
  - intros H; inversion H; eapply write_or_skip_visible; eauto.
  - destruct (negb positioned).
    + intros H; inversion H; eapply write_or_skip_visible; eauto.
    + destruct (cur + 1 <? p_off p); [discriminate|].
      destruct (p_off p <? cur + 1); [discriminate|].
      intros H; inversion H; eapply write_or_skip_visible; eauto.
Qed.

(* the position of a positioned subscription advances over filtered offsets *)
Lemma live_write_advances : forall V delta cur p,
  p_off p = cur + 1 -> fst (live_write V true delta cur p) = cur + 1.
Proof.
  intros V delta cur p H; unfold live_write; rewrite H.
  replace (cur + 1 =? 0) with false by (symmetry; apply N.eqb_neq; lia).
  cbn [negb]. rewrite N.ltb_irrefl. reflexivity.
Qed.

(* ---------------------------------------------------------------- buffers *)
Definition real_visible (V : verd) (l : list pub) : Prop :=
  forall p, In p l -> p_filt p = false -> visible V (p_id p) = true.

Definition all_visible (V : verd) (l : list pub) : Prop :=
  forall p, In p l -> visible V (p_id p) = true.

Lemma sync_pub_real : forall V p, p_filt (sync_pub V p) = false ->
  sync_pub V p = p /\ visible V (p_id p) = true.
Proof.
  intros V p; unfold sync_pub. destruct (was_filtered V (p_id p)) eqn:E; cbn.
  - discriminate.
  - intros _; split; [reflexivity | apply visible_iff; assumption].
Qed.

Lemma buffered_real_visible : forall V live, real_visible V (buffered_of V live).
Proof.
  intros V live p Hin Hf. unfold buffered_of in Hin.
  apply in_map_iff in Hin. destruct Hin as [q [Hq _]]. subst p.
  destruct (sync_pub_real V q Hf) as [E Hv]. rewrite E. exact Hv.
Qed.

Lemma mark_real : forall V p, p_filt (mark V p) = false ->
  mark V p = p /\ visible V (p_id p) = true.
Proof.
  intros V p; unfold mark.
  destruct (s_excl V (p_id p)) eqn:Es, (c_excl V (p_id p)) eqn:Ec; cbn; try discriminate.
  intros _; split; [reflexivity | apply visible_excl; auto].
Qed.

Lemma marked_real_visible : forall V hist, real_visible V (map (mark V) hist).
Proof.
  intros V hist p Hin Hf. apply in_map_iff in Hin. destruct Hin as [q [Hq _]]. subst p.
  destruct (mark_real V q Hf) as [E Hv]. rewrite E. exact Hv.
Qed.

Lemma real_visible_app : forall V a b, real_visible V a -> real_visible V b -> real_visible V (a ++ b).
Proof. intros V a b Ha Hb p Hin; apply in_app_or in Hin; destruct Hin; auto. Qed.

Lemma real_visible_nil : forall V, real_visible V [].
Proof. intros V p []. Qed.

(* What C39 gives about the merge: the output only contains non-marker
   elements of the inputs (and is empty when the merge fails). *)
Lemma merge_out_in : forall rec buf out m ok,
  merge rec buf = (out, m, ok) ->
  forall p, In p out -> p_filt p = false /\ In p (rec ++ buf).
Proof.
  intros rec buf out m ok E p Hin.
  pose proof (merge_meets_spec rec buf) as S. rewrite E in S.
  destruct ok.
  - destruct S as [_ S]. destruct (S eq_refl) as [_ [_ [H _]]]. apply H; assumption.
  - exfalso. clear S. unfold merge in E.
    destruct (uniq (isort match buf with [] => rec | _ :: _ => rec ++ buf end)) as [[l mo] sk].
    destruct buf; [inversion E|].
    destruct l as [|q0 [|q1 l']]; try solve [inversion E].
    destruct (gaps_ok (p_off q0) (tl (q0 :: q1 :: l')) sk); inversion E; subst; destruct Hin.
Qed.

Lemma merge_all_visible : forall V rec buf out m ok,
  real_visible V rec -> real_visible V buf ->
  merge rec buf = (out, m, ok) -> all_visible V out.
Proof.
  intros V rec buf out m ok Hr Hb E p Hin.
  destruct (merge_out_in _ _ _ _ _ E p Hin) as [Hf Hin'].
  apply (real_visible_app V rec buf Hr Hb p Hin' Hf).
Qed.

(* -------------------------------------------------------- stream recovery *)
Lemma stream_recovery_visible : forall V hist top cmd epoch_ok live recovered pubs,
  stream_recovery V hist top cmd epoch_ok live = SReply recovered pubs ->
  all_visible V pubs.
Proof.
  intros V hist top cmd epoch_ok live recovered pubs. unfold stream_recovery.
  destruct (is_stream_recovered V hist top cmd epoch_ok) as [l|] eqn:Er.
  - assert (Hl : real_visible V l).
    { unfold is_stream_recovered in Er. destruct (negb epoch_ok); [discriminate|].
      match type of Er with (if ?c then _ else _) = _ => destruct c end; [|discriminate].
      inversion Er; subst. apply marked_real_visible. }
    destruct (merge l (buffered_of V live)) as [[out mo] ok] eqn:Em.
    destruct ok; cbn; [|discriminate].
    intros H; inversion H; subst.
    exact (merge_all_visible V l (buffered_of V live) _ _ _ Hl (buffered_real_visible V live) Em).
  - destruct (merge [] (buffered_of V live)) as [[out mo] ok] eqn:Em.
    destruct ok; cbn; [|discriminate].
    intros H; inversion H; subst. intros p [].
Qed.

(* --------------------------------------------------------- cache recovery *)
Lemma recover_cache_visible : forall V hist_rev latest r,
  recover_cache V hist_rev = (latest, Some r) -> visible V (p_id r) = true.
Proof.
  intros V hist_rev latest r. unfold recover_cache.
  destruct (negb (v_stf V) && negb (v_ctf V)) eqn:E.
  - intros _. apply andb_prop in E. destruct E as [E1 E2].
    apply visible_nofilters; [destruct (v_stf V) | destruct (v_ctf V)]; auto; discriminate.
  - destruct (find _ hist_rev) as [q|] eqn:F; [|discriminate].
    intros H; inversion H; subst. apply find_some in F. destruct F as [_ F].
    apply negb_true_iff in F. apply orb_false_elim in F. apply visible_excl. exact F.
Qed.

Lemma last_only_incl : forall l p, In p (last_only l) -> In p l.
Proof.
  induction l as [|x [|y t] IH]; cbn [last_only]; intros p H; auto.
  right. apply IH. exact H.
Qed.

Lemma cache_recovery_visible : forall V hist_rev top cmd epoch_eq req_delta live recovered pubs,
  cache_recovery V hist_rev top cmd epoch_eq req_delta live = SReply recovered pubs ->
  all_visible V pubs.
Proof.
  intros V hist_rev top cmd epoch_eq req_delta live recovered pubs. unfold cache_recovery.
  destruct (recover_cache V hist_rev) as [latest recd] eqn:Erc.
  destruct (is_cache_recovered latest recd top cmd epoch_eq) as [recpubs rcv] eqn:Ei.
  assert (Hr : real_visible V recpubs).
  { unfold is_cache_recovered in Ei. destruct latest as [l|].
    - match type of Ei with (if ?c then _ else _) = _ => destruct c end.
      + destruct recd as [r|]; inversion Ei; subst; [|apply real_visible_nil].
        intros p [Hp|[]] _; subst. eapply recover_cache_visible; eauto.
      + inversion Ei; subst; apply real_visible_nil.
    - inversion Ei; subst; apply real_visible_nil. }
  destruct (merge recpubs (buffered_of V live)) as [[out mo] ok] eqn:Em.
  destruct ok; cbn; [|discriminate].
  intros H; inversion H; subst. clear H.
  assert (Ho : all_visible V out)
    by exact (merge_all_visible V recpubs (buffered_of V live) _ _ _ Hr (buffered_real_visible V live) Em).
  destruct recovered; [|intros p []].
  destruct req_delta; [exact Ho|].
  destruct out as [|a [|b t]]; auto.
  intros p Hp. apply Ho. apply last_only_incl. exact Hp.
Qed.

(* --------------------------------------------------------------- map pages *)
Lemma keep_visible : forall V l p, In p (keep_c V (keep_s V l)) ->
  In p l /\ visible V (p_id p) = true.
Proof.
  intros V l p. unfold keep_c, keep_s, visible, s_excl, c_excl.
  destruct (v_ctf V), (v_stf V); cbn; repeat rewrite filter_In; intros H.
  - destruct H as [[H1 H2] H3]. rewrite H2, H3. auto.
  - destruct H as [H1 H3]. rewrite H3. auto.
  - destruct H as [H1 H2]. rewrite H2. auto.
  - auto.
Qed.

Lemma map_state_page_visible : forall V rev pubs, all_visible V (map_state_page V rev pubs).
Proof. intros V rev pubs p H. unfold map_state_page in H. apply keep_visible in H. tauto. Qed.

Lemma map_state_page_revision : forall V r pubs p,
  In p (map_state_page V (Some r) pubs) -> p_off p <= r.
Proof.
  intros V r pubs p H. unfold map_state_page in H. apply keep_visible in H.
  destruct H as [H _]. apply filter_In in H. destruct H as [_ H]. apply N.leb_le. exact H.
Qed.

Lemma map_stream_page_visible : forall V pubs, all_visible V (map_stream_page V pubs).
Proof. intros V pubs p H. unfold map_stream_page in H. apply keep_visible in H. tauto. Qed.

Lemma map_live_positioned_visible : forall V limit stream live pubs,
  map_live_positioned V limit stream live = MReply pubs -> all_visible V pubs.
Proof.
  intros V limit stream live pubs. unfold map_live_positioned.
  destruct ((0 <? limit) && (limit <? N.of_nat (length stream))); [discriminate|].
  destruct (merge stream (buffered_of V live)) as [[out mo] ok].
  destruct ok; cbn; [|discriminate].
  intros H; inversion H; subst. intros p Hp. apply keep_visible in Hp. tauto.
Qed.

Lemma map_live_streamless_visible : forall V live, all_visible V (map_live_streamless V live).
Proof. intros V live p H. unfold map_live_streamless in H. apply keep_visible in H. tauto. Qed.

(* both filters apply (AND): a publication excluded by either one is never in
   the filtered page, whatever the other filter says *)
Lemma keep_excludes : forall V l p,
  In p (keep_c V (keep_s V l)) -> s_excl V (p_id p) = false /\ c_excl V (p_id p) = false.
Proof. intros V l p H. apply keep_visible in H. apply visible_excl. tauto. Qed.

(* completeness of the page filters: nothing visible is dropped *)
Lemma keep_complete : forall V l p,
  In p l -> visible V (p_id p) = true -> In p (keep_c V (keep_s V l)).
Proof.
  intros V l p Hin Hv. apply visible_excl in Hv. destruct Hv as [Hs Hc].
  unfold keep_c, keep_s, s_excl, c_excl in *.
  destruct (v_ctf V), (v_stf V); cbn in *; repeat rewrite filter_In; auto.
  - apply negb_false_iff in Hs, Hc. auto.
  - apply negb_false_iff in Hc. auto.
  - apply negb_false_iff in Hs. auto.
Qed.

(* -------------------------------------------------------------- invalidate *)
Lemma invalidate_changed_map : forall had same_hash,
  (had = false \/ same_hash = false) ->
  sub_refresh_invalidates true true had same_hash = true.
Proof. intros [] [] [H|H]; try discriminate; reflexivity. Qed.

Lemma invalidate_only_if : forall is_map newf had same_hash,
  sub_refresh_invalidates is_map newf had same_hash = true ->
  is_map = true /\ newf = true /\ (had = false \/ same_hash = false).
Proof.
  intros [] [] [] []; unfold sub_refresh_invalidates, update_server_filter; cbn;
    intros H; try discriminate; auto.
Qed.

(* ----------------------------------------------------- one statement per path *)
Definition path_sound (p : dpath) : Prop :=
  match p with
  | PLive =>
      forall V positioned cur pb cur' id,
        live_write V positioned false cur pb = (cur', WDeliver id) ->
        id = p_id pb /\ visible V id = true
  | PStreamRecovery =>
      forall V hist top cmd epoch_ok live recovered pubs,
        stream_recovery V hist top cmd epoch_ok live = SReply recovered pubs -> all_visible V pubs
  | PCacheRecovery =>
      forall V hist_rev top cmd epoch_eq req_delta live recovered pubs,
        cache_recovery V hist_rev top cmd epoch_eq req_delta live = SReply recovered pubs -> all_visible V pubs
  | PMapState => forall V rev pubs, all_visible V (map_state_page V rev pubs)
  | PMapStream => forall V pubs, all_visible V (map_stream_page V pubs)
  | PMapLive =>
      forall V limit stream live pubs,
        map_live_positioned V limit stream live = MReply pubs -> all_visible V pubs
  | PMapStreamless => forall V live, all_visible V (map_live_streamless V live)
  | POutAppProvided | POutHistoryRPC | POutKeyed => True
  end.

Lemma all_paths_sound : forall p, path_sound p.
Proof.
  destruct p; cbn.
  - exact live_write_visible.
  - exact stream_recovery_visible.
  - exact cache_recovery_visible.
  - exact map_state_page_visible.
  - exact map_stream_page_visible.
  - exact map_live_positioned_visible.
  - exact map_live_streamless_visible.
  - exact I.
  - exact I.
  - exact I.
Qed.
