(* C30 proofs, generalisation of part C: every write API on a connection with permessage-deflate
   negotiated, compressed and plain messages mixed (EnableWriteCompression toggled per message),
   under the stated contract of compress/flate. *)
From Coq Require Import String List NArith Bool Arith Lia ZifyN ZifyNat.
From Cfg Require Import Gen.WsConst Model.WsUtf8 Model.WsFrame Model.WsReadSpec Model.WsWrite Model.WsWriteSpec
     Proofs.WsLib Proofs.WsReadA Proofs.WsReadC Proofs.WsWriteA Proofs.WsWriteB Proofs.WsWriteC Proofs.WsWriteG Proofs.WsWriteH Proofs.WsWriteZ.
Import ListNotations.
Open Scope N_scope.

Section OpsZ.
  Variable ok : N -> bool.
  Variable infl : bytes -> option bytes.     (* the decoder's inflate: RFC 7692 7.2.2, "append 00 00 ff ff and inflate" *)
  Variable cfg : wcfg.
  Variable z : bool.
  Hypothesis Hcap : c_maxFrameHeaderSize < wc_buf cfg.

  Let masked : bool := negb (wc_server cfg).
  Let run := spec_run (S0 ok) (peerz masked z) infl.

  Lemma wrelz_init : forall typ cz b, wrelz typ cz (mkMw b typ cz) None b.
  Proof. intros. left. repeat split. Qed.

  (* NextWriter ... Close without compression *)
  Lemma stream_decode_z : forall keys typ cs,
      keys_ok keys -> is_data typ ->
      N.of_nat (length (flat_map chunk_bytes cs)) < two63 ->
      (typ = 1 -> utf8_valid (flat_map chunk_bytes cs) = true) ->
      exists wire keys',
        write_stream cfg keys typ cs = inl (wire, keys') /\ keys_ok keys'
        /\ forall rest, run None (wire ++ rest) = SMsg typ (flat_map chunk_bytes cs) :: run None rest.
  Proof.
    intros keys typ cs Hk Hd Hlen Hutf. unfold write_stream. rewrite (data_types typ Hd).
    destruct (feed_all_decode_z ok infl cfg z Hcap cs keys (mkMw [] typ false) [] typ false None [] Hk Hd
                                ltac:(discriminate) (wrelz_init typ false []))
      as [em [keys1 [w1 [frag1 [E [K [W D]]]]]]].
    { simpl. pose proof (cap_pos cfg Hcap). lia. }
    { simpl. exact Hlen. }
    rewrite E. simpl app in *.
    destruct (flush_final_decode_z ok infl cfg z Hcap keys1 w1 typ false frag1 (flat_map chunk_bytes cs) [] (flat_map chunk_bytes cs)
                                   K Hd ltac:(discriminate) W (fun _ => eq_refl))
      as [fr [keys2 [w2 [E2 [K2 D2]]]]].
    { rewrite app_nil_r. exact Hlen. }
    { rewrite app_nil_r. reflexivity. }
    { exact Hutf. }
    rewrite E2.
    exists (em ++ fr), keys2. split; [reflexivity|]. split; [exact K2|].
    intro rest. rewrite <- app_assoc. unfold run. rewrite D. apply D2.
  Qed.

  Lemma message_decode_z : forall keys typ data,
      wc_compress cfg = false ->
      keys_ok keys -> is_data typ ->
      N.of_nat (length data) < two63 -> (typ = 1 -> utf8_valid data = true) ->
      exists wire keys',
        write_message cfg keys typ data = inl (wire, keys') /\ keys_ok keys'
        /\ forall rest, run None (wire ++ rest) = SMsg typ data :: run None rest.
  Proof.
    intros keys typ data Hnoz Hk Hd Hlen Hutf. unfold write_message. rewrite Hnoz. simpl negb. rewrite andb_true_r.
    assert (Hs : wc_server cfg = true \/ wc_server cfg = false) by (destruct (wc_server cfg); auto).
    destruct Hs as [Es|Es]; rewrite Es.
    - rewrite (data_types typ Hd).
      set (n := N.to_nat (N.min (cap cfg) (N.of_nat (length data)))).
      destruct (flush_final_decode_z ok infl cfg z Hcap keys (mkMw (firstn n data) typ false) typ false None
                                     (firstn n data) (skipn n data) data
                                     Hk Hd ltac:(discriminate) (wrelz_init typ false _)) as [fr [keys' [w' [E [K D]]]]].
      { intro Hf. rewrite Hf in Es. discriminate. }
      { rewrite firstn_skipn. exact Hlen. }
      { rewrite firstn_skipn. reflexivity. }
      { exact Hutf. }
      rewrite E. exists fr, keys'. split; [reflexivity|]. split; [exact K|exact D].
    - destruct (stream_decode_z keys typ [CWrite data] Hk Hd) as [wire [keys' [E [K D]]]].
      { simpl. rewrite app_nil_r. exact Hlen. }
      { simpl. rewrite app_nil_r. exact Hutf. }
      simpl flat_map in D. rewrite app_nil_r in D.
      exists wire, keys'. split; [exact E|]. split; [exact K|exact D].
  Qed.

  Lemma control_decode_z : forall keys typ data wire keys',
      keys_ok keys -> write_control cfg keys typ data = inl (wire, keys') ->
      (typ = 8 -> close_payload_ok ok data) ->
      keys_ok keys'
      /\ (typ = 8 \/ typ = 9 \/ typ = 10)
      /\ forall rest, run None (wire ++ rest)
                      = if typ =? 8 then message_events typ data else message_events typ data ++ run None rest.
  Proof.
    intros keys typ data wire keys' Hk E Hclose. unfold write_control in E.
    destruct (is_control_type typ) eqn:Ict; simpl negb in E; cbv iota in E; [|discriminate].
    assert (Htyp : typ = 8 \/ typ = 9 \/ typ = 10).
    { unfold is_control_type, c_CloseMessage, c_PingMessage, c_PongMessage in Ict.
      destruct (N.eqb_spec typ 8); [auto|]. destruct (N.eqb_spec typ 9); [auto|]. destruct (N.eqb_spec typ 10); [auto|discriminate]. }
    unfold c_maxControlFramePayloadSize in E.
    destruct (N.ltb_spec 125 (N.of_nat (length data))) as [|Hlen]; [discriminate|].
    assert (Hwire : exists key, wire = enc_frame masked key (b0_of typ true) data
                                /\ (masked = true -> length key = 4%nat) /\ keys_ok keys').
    { unfold enc_frame, encode_header, masked.
      destruct (N.leb_spec 65536 (N.of_nat (length data))); [lia|].
      destruct (N.ltb_spec 125 (N.of_nat (length data))); [lia|].
      assert (Hs : wc_server cfg = true \/ wc_server cfg = false) by (destruct (wc_server cfg); auto).
      destruct Hs as [Es|Es]; rewrite Es in E |- *.
      - inversion E; subst. exists []. split; [|split; [discriminate|exact Hk]].
        simpl negb. cbv iota. unfold b0_of. rewrite N.add_0_r. reflexivity.
      - destruct (next_key_ok keys Hk) as [K1 K2]. destruct (next_key keys) as [key ks]. simpl in K1, K2.
        inversion E; subst. exists key. split; [|split; [intros _; exact K1|exact K2]].
        simpl negb. cbv iota. unfold b0_of. rewrite N.add_0_r. rewrite (N.add_comm (N.of_nat (length data))). reflexivity. }
    destruct Hwire as [key [-> [Kl K']]]. split; [exact K'|]. split; [exact Htyp|].
    intro rest. unfold run. rewrite spec_run_step.
    rewrite (decode_control_frame_z ok infl masked z key typ data rest None Htyp Hlen Kl).
    unfold message_events.
    destruct Htyp as [-> | [-> | ->]].
    - simpl. specialize (Hclose eq_refl). unfold close_frame.
      destruct data as [|a [|b text]]; simpl in Hclose.
      + reflexivity.
      + contradiction.
      + destruct Hclose as [H1 H2]. unfold S0, strict, check, enforced. simpl close_ok. rewrite H1, H2. reflexivity.
    - reflexivity.
    - reflexivity.
  Qed.

  Lemma flat_map_cwrite : forall ds, flat_map chunk_bytes (map CWrite ds) = concat ds.
  Proof. induction ds as [|d ds IH]; [reflexivity|]. simpl. rewrite IH. reflexivity. Qed.

  (* a text/binary message written through the flate writer: zs = what flate handed to truncWriter;
     contract: the stream is body ++ 00 00 ff ff (sync flush) and the decoder's inflate maps body to data *)
  Lemma streamz_decode : forall keys typ zs body data,
      z = true -> keys_ok keys -> is_data typ ->
      concat zs = body ++ flate_sync_tail -> infl body = Some data ->
      N.of_nat (length body) < two63 -> (typ = 1 -> utf8_valid data = true) ->
      exists wire keys',
        write_stream_z cfg keys typ zs = inl (wire, keys') /\ keys_ok keys'
        /\ forall rest, run None (wire ++ rest) = SMsg typ data :: run None rest.
  Proof.
    intros keys typ zs body data Hz Hk Hd Hzs Hinf Hlen Hutf. unfold write_stream_z.
    destruct (trunc_all [] zs) as [downs held] eqn:Et.
    destruct (trunc_sync_flush zs body downs held Hzs Et) as [Hb Hh].
    destruct (feed_all_decode_z ok infl cfg z Hcap (map CWrite downs) keys (mkMw [] typ true) [] typ true None [] Hk Hd
                                (fun _ => Hz) (wrelz_init typ true []))
      as [em [keys1 [w1 [frag1 [E [K [W D]]]]]]].
    { simpl. pose proof (cap_pos cfg Hcap). lia. }
    { rewrite flat_map_cwrite, Hb. simpl. exact Hlen. }
    rewrite E. simpl app in *. rewrite flat_map_cwrite, Hb in W.
    subst held. destruct (list_eq_dec N.eq_dec flate_sync_tail flate_sync_tail) as [_|Hne]; [|congruence]. simpl negb. cbv iota.
    destruct (flush_final_decode_z ok infl cfg z Hcap keys1 w1 typ true frag1 body [] data
                                   K Hd (fun _ => Hz) W (fun _ => eq_refl))
      as [fr [keys2 [w2 [E2 [K2 D2]]]]].
    { rewrite app_nil_r. exact Hlen. }
    { rewrite app_nil_r. exact Hinf. }
    { exact Hutf. }
    rewrite E2.
    exists (em ++ fr), keys2. split; [reflexivity|]. split; [exact K2|].
    intro rest. rewrite <- app_assoc. unfold run. rewrite D. apply D2.
  Qed.
End OpsZ.
