(* C22: key-cursor pagination over the sorted state. *)
From Coq Require Import List Arith Bool NArith Lia Sorting.Sorted.
From Cfg Require Import Model.Merge Model.MapSub Proofs.MapSubLib.
Import ListNotations.
Close Scope N_scope.
Open Scope nat_scope.

Lemma In_firstn_aux : forall (A : Type) n (l : list A) x, In x (firstn n l) -> In x l.
Proof.
  intros A n. induction n as [|n IH]; intros l x H; [destruct H|].
  destruct l; [destruct H|]. destruct H; [left; auto|right; apply IH; auto].
Qed.

Definition ekey (e : key * nat * val) : key := fst (fst e).

Lemma entries_from_In : forall K b from k o v,
  In (k, o, v) (entries_from K b from) <-> from <= k < K /\ state b k = Some (o, v).
Proof.
  intros K b from k o v. unfold entries_from. rewrite in_flat_map. split.
  - intros [k' [Hk' Hin]]. apply in_seq in Hk'. destruct (state b k') as [[o' v']|] eqn:E; [|destruct Hin].
    destruct Hin as [Hin|[]]. inversion Hin; subst. split; [lia|exact E].
  - intros [Hk Hs]. exists k. split; [apply in_seq; lia|]. rewrite Hs. left; reflexivity.
Qed.

Lemma entries_from_sorted : forall K b from,
  StronglySorted (fun a c => ekey a < ekey c) (entries_from K b from).
Proof.
  intros K b from. unfold entries_from. generalize (K - from). intros n. revert from.
  induction n as [|n IH]; intros from; cbn [seq flat_map]; [constructor|].
  destruct (state b from) as [[o v]|]; cbn [app]; [|apply IH].
  constructor; [apply IH|]. apply Forall_forall. intros [[k' o'] v'] Hin.
  apply in_flat_map in Hin. destruct Hin as [k'' [Hs Hin]]. apply in_seq in Hs.
  destruct (state b k'') as [[o'' v'']|]; [|destruct Hin]. destruct Hin as [Hin|[]]. inversion Hin; subst.
  unfold ekey; cbn. lia.
Qed.

Lemma sorted_split_le : forall (l1 l2 : list (key * nat * val)) x,
  StronglySorted (fun a c => ekey a < ekey c) (l1 ++ l2) ->
  l1 <> [] -> ekey x <= ekey (last l1 x) -> In x (l1 ++ l2) -> In x l1.
Proof.
  intros l1 l2 x HS Hne Hle Hin. apply in_app_or in Hin. destruct Hin as [H|H]; auto. exfalso.
  destruct (exists_last Hne) as [l' [a El]]. subst l1. rewrite last_last in Hle.
  rewrite <- app_assoc in HS. cbn in HS.
  assert (G : forall (l : list (key * nat * val)) a r, StronglySorted (fun a c => ekey a < ekey c) (l ++ a :: r) ->
              Forall (fun c => ekey a < ekey c) r).
  { induction l as [|y t IH]; intros a0 r S0; cbn in S0; inversion S0; subst; auto. }
  pose proof (G _ _ _ HS) as F. rewrite Forall_forall in F. specialize (F _ H). lia.
Qed.

(* what one page covers *)
Lemma read_state_spec : forall K b cursor limit page next,
  1 <= limit ->
  read_state K b cursor limit = (page, next) ->
  let from := match cursor with Some c => S c | None => 0 end in
  let hi := match next with Some c => S c | None => K end in
  (forall k o v, In (k, o, v) page -> from <= k < hi /\ k < K /\ state b k = Some (o, v)) /\
  (forall k o v, from <= k < hi -> k < K -> state b k = Some (o, v) -> In (k, o, v) page) /\
  (forall c, next = Some c -> from <= c < K).
Proof.
  intros K b cursor limit page next Hl H from hi. unfold read_state in H. fold from in H.
  set (rest := entries_from K b from) in *.
  inversion H as [[Hp Hn]]; clear H.
  destruct (Nat.ltb limit (length rest)) eqn:E.
  - apply Nat.ltb_lt in E.
    assert (Hne : firstn limit rest <> []).
    { destruct rest; [cbn in E; lia|]. destruct limit; [lia|]. discriminate. }
    destruct (exists_last Hne) as [l' [[[kc oc] vc] El]].
    assert (Hnext : next = Some kc).
    { rewrite <- Hn. rewrite El, rev_app_distr. reflexivity. }
    assert (Hin_last : In (kc, oc, vc) rest).
    { apply (In_firstn_aux _ limit). rewrite El. apply in_or_app. right; left; reflexivity. }
    pose proof (proj1 (entries_from_In K b from kc oc vc) Hin_last) as [Hkc _].
    subst hi. rewrite Hnext.
    pose proof (entries_from_sorted K b from) as HS. fold rest in HS.
    rewrite <- (firstn_skipn limit rest) in HS.
    split; [|split].
    + intros k o v Hin.
      assert (Hin' : In (k, o, v) rest) by (apply (In_firstn_aux _ limit); exact Hin).
      destruct (proj1 (entries_from_In K b from k o v) Hin') as [A B]. split; [|split; [lia|exact B]].
      split; [lia|].
      (* k <= kc : sortedness inside the page *)
      rewrite El in Hin. apply in_app_or in Hin. destruct Hin as [Hin|[Hin|[]]].
      * rewrite El in HS. rewrite <- app_assoc in HS. cbn in HS.
        assert (G : forall (l : list (key * nat * val)) a r x, StronglySorted (fun a c => ekey a < ekey c) (l ++ a :: r) ->
                    In x l -> ekey x < ekey a).
        { induction l as [|y t IH]; intros a0 r x0 S0 Hx; [destruct Hx|]. cbn in S0. inversion S0; subst.
          destruct Hx as [->|Hx]; [|eapply IH; eauto].
          rewrite Forall_forall in H2. apply H2. apply in_or_app. right; left; reflexivity. }
        pose proof (G _ _ _ _ HS Hin) as L. unfold ekey in L; cbn in L. lia.
      * inversion Hin; subst. lia.
    + intros k o v Hk HK Hs.
      assert (Hin : In (k, o, v) rest) by (apply entries_from_In; split; [lia|exact Hs]).
      rewrite <- (firstn_skipn limit rest) in Hin.
      apply (sorted_split_le _ _ _ HS Hne); [|exact Hin].
      rewrite El, last_last. unfold ekey; cbn. lia.
    + intros c Hc. assert (Hcc : kc = c) by congruence. rewrite <- Hcc. unfold from in *. lia.
  - apply Nat.ltb_ge in E. subst hi.
    assert (Hall : firstn limit rest = rest) by (apply firstn_all2; exact E).
    assert (Hnone : next = None) by (symmetry; exact Hn). rewrite Hnone.
    try rewrite Hall.
    split; [|split].
    + intros k o v Hin. apply entries_from_In in Hin. destruct Hin as [A B].
      split; [unfold from in *; lia|]. split; [lia|exact B].
    + intros k o v Hk HK Hs. apply entries_from_In. split; [unfold from in *; lia|exact Hs].
    + intros c Hc; discriminate.
Qed.
