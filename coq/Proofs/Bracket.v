(* C10: pushes are bracketed by the subscription's start and end -- what holds for all
   schedules, and the witnesses of what does not. *)
From Coq Require Import List NArith Bool Lia ZifyN ZifyNat ZifyBool Sorting.Sorted.
From Cfg Require Import Model.Merge Model.MergeSpec Proofs.Merge Model.Positioned Model.PositionedSpec
  Model.BracketSpec Proofs.PositionedLib Proofs.Positioned Proofs.PositionedEnd.
Import ListNotations.
Open Scope N_scope.

(* the pushes that the code (as modelled) holds back until the subscription has started:
   client subscribe command: joins, leaves and publications with an offset (all pushes once
   the offset-0 patch is in); server-side Client.Subscribe: positioned publications only *)
(* reply/push written BEFORE the commit: the client path, and the patched server path *)
Definition client_like (c : cfg) : bool :=
  match c_var c with VClient | VConnect => true | VServer => c_fix_srvorder c end.

Definition guarded (c : cfg) (f : frame) : bool :=
  if client_like c
  then (if c_fix_off0 c then is_push f else is_real_push f)
  else c_pos c && is_pos_pub f.

Fixpoint no_guarded_before_start (c : cfg) (l : list frame) : bool :=
  match l with
  | [] => true
  | f :: l' => if is_start f then true else negb (guarded c f) && no_guarded_before_start c l'
  end.

Definition dl_frame (d : dstate) : option frame :=
  match d with
  | DPub p _ PEnq => Some (FPub p)
  | DJL j PEnq => Some (if j then FJoin else FLeave)
  | _ => None
  end.

Record BInv (c : cfg) (s : st) : Prop := {
  b_q : closed s = true -> quiet (pc s) = true;
  b_started : pre_start (pc s) = false -> has_start (log s) = true;
  b_sub : client_like c = true -> forall pos pep, ch s = Sub pos pep -> has_start (log s) = true;
  b_dl : forall f, dl_frame (dl s) = Some f -> guarded c f = true -> has_start (log s) = true;
  b_log : no_guarded_before_start c (log s) = true
}.

Lemma binv_init : forall c, BInv c init.
Proof. intros c. constructor; cbn; intros; try discriminate; auto. Qed.

Lemma guarded_push : forall c f, guarded c f = true -> is_push f = true.
Proof.
  intros c f. unfold guarded. destruct (client_like c).
  - destruct (c_fix_off0 c); [auto|]. destruct f; cbn; auto.
  - destruct (c_pos c); [|discriminate]. destruct f; cbn; auto.
Qed.

Lemma guarded_nonpush : forall c f, is_push f = false -> guarded c f = false.
Proof.
  intros c f H. destruct (guarded c f) eqn:E; [|reflexivity].
  apply guarded_push in E. congruence.
Qed.

Lemma ngbs_app : forall c l fs,
  no_guarded_before_start c l = true -> no_guarded_before_start c fs = true ->
  no_guarded_before_start c (l ++ fs) = true.
Proof.
  induction l as [|f l IH]; intros fs H1 H2; cbn [app no_guarded_before_start] in *; [exact H2|].
  destruct (is_start f); [reflexivity|].
  apply andb_true_iff in H1. destruct H1 as [Ha Hb]. rewrite Ha. cbn [andb]. apply IH; assumption.
Qed.

Lemma ngbs_app_started : forall c l fs,
  no_guarded_before_start c l = true -> has_start l = true ->
  no_guarded_before_start c (l ++ fs) = true.
Proof.
  induction l as [|f l IH]; intros fs H1 H2; cbn [app no_guarded_before_start has_start existsb] in *; [discriminate|].
  destruct (is_start f); [reflexivity|]. cbn [orb] in H2.
  apply andb_true_iff in H1. destruct H1 as [Ha Hb]. rewrite Ha. cbn [andb]. apply IH; assumption.
Qed.

Lemma ngbs_one : forall c f, guarded c f = false -> no_guarded_before_start c [f] = true.
Proof. intros c f H. cbn. rewrite H. destruct (is_start f); reflexivity. Qed.

Lemma ngbs_start_first : forall c g fs, is_start g = true -> no_guarded_before_start c (g :: fs) = true.
Proof. intros c g fs H. cbn. rewrite H. reflexivity. Qed.

Lemma has_start_app_l : forall l fs, has_start l = true -> has_start (l ++ fs) = true.
Proof. intros. rewrite has_start_app, H. reflexivity. Qed.

Lemma check_pub_penq : forall c s p lag q lagq,
  dl s = DPub p lag PCheck ->
  dl (check_pub c s p lag) = DPub q lagq PEnq -> q = p /\ exists pos pep, ch s = Sub pos pep.
Proof.
  intros c s p lag q lagq Hd. unfold check_pub.
  destruct (ch s) as [| |pos pep] eqn:Hch; try (unf; cbn; discriminate).
  repeat match goal with |- context [if ?x then _ else _] => destruct x eqn:? end;
    unf; cbn; intros H; try discriminate; inversion H; subst; split; eauto.
Qed.

Ltac nb H Hnb Hcw :=
  unfold step, emit_push in H; rewrite ?Hnb in H; rewrite ?Hcw in H; cbn [app emits] in H; cbv iota in H.

Lemma binv_step : forall c s l s', c_batch c = false -> SInv c s -> EInv c s -> BInv c s ->
  step c s l = Some s' -> BInv c s'.
Proof.
  intros c s l s' Hnb IS IE IB H.
  assert (Hcw : cw s = []) by (apply (i_cw_nil c s IS); exact Hnb).
  destruct l; nb H Hnb Hcw; break_step H; inv_some H; boolfix.
  all: destruct IB as [Bq Bst Bsub Bdl Blog].
  all: try match goal with E : pc _ = _ |- _ =>
         rewrite E in Bq, Bst; cbn [quiet pre_start] in Bq, Bst end.
  all: try rewrite !emits_eq; try rewrite !emit_eq.
  all: repeat match goal with |- context [if closed ?s then _ else _] => destruct (closed s) eqn:? end.
  all: try match goal with |- BInv _ (check_pub _ _ _ _) => idtac | _ =>
    constructor; unf; unfold with_log;
    cbn [b_ep b_top b_items b_fresh g_log fl ps_entry ps_insub ps_locked ps_buf hub ch closed pc dl up pending cleanup g_pos log cw
         quiet pre_start dl_frame] in * end.
  all: try assumption.
  all: try (intros; discriminate).
  all: try (intros; exfalso; congruence).
  (* b_q *)
  all: try (intros Hc; first [congruence | exact (Bq Hc) | apply Bq; congruence | specialize (Bq Hc); discriminate]; fail).
  (* has_start of an extended log *)
  all: try (intros; rewrite <- ?app_assoc; apply has_start_app_l; eauto; fail).
  all: try (intros; rewrite !has_start_app; cbn [has_start existsb is_start orb];
            match goal with |- context [has_start (log ?s0)] => destruct (has_start (log s0)) end; reflexivity).
  all: try (intros; eauto; fail).
  (* b_log: frames that are not pushes *)
  all: try (apply ngbs_app; [exact Blog|apply ngbs_one; apply guarded_nonpush; reflexivity]).
  all: try (apply ngbs_app; [exact Blog|apply ngbs_one; apply guarded_nonpush; destruct k; reflexivity]).
  all: try (rewrite <- ?app_assoc; apply ngbs_app; [exact Blog|apply ngbs_start_first; reflexivity]).
  (* b_log: a push leaves the delivery thread *)
  all: try (match goal with |- no_guarded_before_start _ (_ ++ [?f]) = true =>
              destruct (guarded c f) eqn:Hg;
              [ apply ngbs_app_started; [exact Blog|]; eapply Bdl; [|exact Hg];
                match goal with Hd : dl _ = _ |- _ => rewrite Hd; reflexivity end
              | apply ngbs_app; [exact Blog|apply ngbs_one; exact Hg] ] end).
  (* b_dl: a push enters the enqueue stage *)
  all: try (intros f0 Hf Hg; inv_some Hf; unfold guarded in Hg;
            destruct (client_like c) eqn:Hv;
            [ destruct (c_fix_off0 c) eqn:Hfix; cbn [is_push is_real_push] in Hg;
              try match goal with E : (po ?p =? 0) = true |- _ => rewrite E in Hg end;
              try discriminate; try congruence; eapply Bsub; eauto
            | destruct (c_pos c); cbn [andb is_pos_pub] in Hg;
              try match goal with E : (po ?p =? 0) = true |- _ => rewrite E in Hg end;
              try (destruct join); discriminate ]).
  all: try (intros _; first [apply Bst; reflexivity
                            | exfalso; assert (X : false = true) by (apply Bq; first [reflexivity|assumption]); discriminate]).
  all: try (intros _;
            first [ match goal with Hq : sub_quiet _ = true |- _ => exact Hq end
                  | rewrite (e_pending c s IE); [reflexivity|congruence]
                  | apply (e_cleanup c s IE); assumption ]).
  all: try (intros Hcl; exfalso; unfold client_like, is_server in *; destruct (c_var c); congruence).
  (* LCheck on a publication *)
  pose proof (check_pub_fields c s p lag) as F. cbv zeta in F.
  destruct F as (F1 & F2 & F3 & F4 & F5 & F6 & F7 & F8 & F9 & F10 & F11 & F12 & F13 & F14 & F15 & F16).
  pose proof (check_pub_ch c s p lag) as Fch.
  match goal with E : dl s = DPub _ _ PCheck |- _ => rename E into Hd end.
  constructor; rewrite ?F10, ?F11, ?F13; try assumption.
  - intros Hv pos' pep' Hc. destruct (ch s) eqn:E; try congruence. eapply Bsub; eauto.
  - intros f0 Hf Hg. destruct (dl (check_pub c s p lag)) as [|q lagq phq| |] eqn:Ed; try discriminate.
    + destruct phq; try discriminate. cbn in Hf. inv_some Hf.
      destruct (check_pub_penq c s p lag q lagq Hd Ed) as [-> (pos0 & pep0 & Hs)].
      unfold guarded in Hg. destruct (client_like c) eqn:Hv; [eapply Bsub; eauto|].
      destruct (c_pos c) eqn:Hpos; [|discriminate]. cbn [andb is_pos_pub] in Hg.
      apply Bst.
      assert (Hw : in_window (pc s) = false).
      { destruct (in_window (pc s)) eqn:Ew; [|reflexivity]. exfalso.
        pose proof (i_entry_pc c s IS Hpos Ew) as Hen.
        destruct (i_entry_dl c s IS Hen _ _ _ Hd) as [X|[X _]]; discriminate. }
      pose proof (e_sub c s IE _ _ Hs) as Hcm.
      destruct (pc s); try discriminate; reflexivity.
    + destruct (check_pub_dl c s p lag) as [X|[X _]]; congruence.
Qed.

Record CInv (c : cfg) (s : st) : Prop := { c_s : SInv c s; c_e : EInv c s; c_b : BInv c s }.

Lemma cinv_run : forall c ls s s', c_batch c = false -> CInv c s -> run c s ls = Some s' -> CInv c s'.
Proof.
  induction ls as [|l ls IH]; intros s s' Hp I H; cbn [run] in H.
  - inv_some H. exact I.
  - destruct (step c s l) as [s1|] eqn:E; [|discriminate].
    eapply IH; [exact Hp| |exact H]. destruct I as [IS IE IB]. constructor.
    + eapply sinv_step; eauto.
    + eapply einv_step; eauto.
    + eapply binv_step; eauto.
Qed.

Theorem c10_guarded_after_start : forall c ls s,
  c_batch c = false -> run c init ls = Some s -> no_guarded_before_start c (log s) = true.
Proof.
  intros c ls s Hp H.
  assert (I : CInv c s).
  { eapply cinv_run; eauto. constructor; [apply sinv_init|apply einv_init|apply binv_init]. }
  apply (b_log c s (c_b c s I)).
Qed.

(* ------------------------------------------------------------------ *)
(* the per-variant readings                                             *)

Lemma ngbs_ext_real : forall c l, (forall f, guarded c f = is_real_push f) ->
  no_guarded_before_start c l = no_real_push_before_start l.
Proof. intros c l H. induction l as [|f l IH]; [reflexivity|]. cbn. rewrite H, IH. reflexivity. Qed.
Lemma ngbs_ext_push : forall c l, (forall f, guarded c f = is_push f) ->
  no_guarded_before_start c l = no_push_before_start l.
Proof. intros c l H. induction l as [|f l IH]; [reflexivity|]. cbn. rewrite H, IH. reflexivity. Qed.
Lemma ngbs_ext_pos : forall c l, (forall f, guarded c f = is_pos_pub f) ->
  no_guarded_before_start c l = no_pos_pub_before_start l.
Proof. intros c l H. induction l as [|f l IH]; [reflexivity|]. cbn. rewrite H, IH. reflexivity. Qed.

Theorem c10_client_after_start_real : forall c ls s,
  client_like c = true -> c_fix_off0 c = false -> c_batch c = false ->
  run c init ls = Some s -> no_real_push_before_start (log s) = true.
Proof.
  intros c ls s Hv Hf Hb H. rewrite <- (ngbs_ext_real c).
  - eapply c10_guarded_after_start; eauto.
  - intros f. unfold guarded. rewrite Hv, Hf. reflexivity.
Qed.

Theorem c10_client_after_start_patched : forall c ls s,
  client_like c = true -> c_fix_off0 c = true -> c_batch c = false ->
  run c init ls = Some s -> no_push_before_start (log s) = true.
Proof.
  intros c ls s Hv Hf Hb H. rewrite <- (ngbs_ext_push c).
  - eapply c10_guarded_after_start; eauto.
  - intros f. unfold guarded. rewrite Hv, Hf. reflexivity.
Qed.

Theorem c10_server_after_start_positioned : forall c ls s,
  client_like c = false -> c_pos c = true -> c_batch c = false ->
  run c init ls = Some s -> no_pos_pub_before_start (log s) = true.
Proof.
  intros c ls s Hv Hp Hb H. rewrite <- (ngbs_ext_pos c).
  - eapply c10_guarded_after_start; eauto.
  - intros f. unfold guarded. rewrite Hv, Hp. reflexivity.
Qed.

(* ------------------------------------------------------------------ *)
(* oracle = specification                                               *)

Lemma after_start_spec : forall l, no_push_before_start l = true <-> AfterStart l.
Proof.
  induction l as [|f l IH]; cbn [no_push_before_start].
  - split; [|reflexivity]. intros _ a g b E. destruct a; discriminate.
  - destruct (is_start f) eqn:Es.
    + split; [|reflexivity]. intros _ a g b E Hp. destruct a as [|x a].
      * cbn in E. inv_some E. destruct g; discriminate.
      * cbn in E. inversion E; subst. exists x. split; [left; reflexivity|exact Es].
    + rewrite andb_true_iff, negb_true_iff, IH. split.
      * intros [Hn HA] a g b E Hp. destruct a as [|x a].
        -- cbn in E. inv_some E. congruence.
        -- cbn in E. inversion E; subst. destruct (HA a g b eq_refl Hp) as [y [Hy1 Hy2]].
           exists y. split; [right; exact Hy1|exact Hy2].
      * intros HA. split.
        -- destruct (is_push f) eqn:Ep; [|reflexivity]. exfalso.
           destruct (HA [] f l eq_refl Ep) as [y [[] _]].
        -- intros a g b E Hp. destruct (HA (f :: a) g b) as [y [Hy1 Hy2]]; [cbn; rewrite E; reflexivity|exact Hp|].
           destruct Hy1 as [<-|Hy1]; [congruence|]. exists y. auto.
Qed.

Lemma existsb_false_forall : forall (A : Type) (P : A -> bool) l,
  existsb P l = false <-> (forall x, In x l -> P x = false).
Proof.
  intros A P l. induction l as [|a l IH]; cbn [existsb].
  - split; [intros _ x []|reflexivity].
  - rewrite orb_false_iff, IH. split.
    + intros [Ha Hl] x [<-|Hx]; auto.
    + intros H. split; [apply H; left; reflexivity|intros x Hx; apply H; right; exact Hx].
Qed.

Lemma before_end_spec : forall l, no_push_after_end l = true <-> BeforeEnd l.
Proof.
  induction l as [|f l IH]; cbn [no_push_after_end].
  - split; [|reflexivity]. intros _ a g b x E. destruct a; discriminate.
  - destruct (is_end f) eqn:Ee.
    + rewrite negb_true_iff, existsb_false_forall. split.
      * intros Hn a g b x E Hg Hx. destruct a as [|y a].
        -- cbn in E. inv_some E. apply Hn. exact Hx.
        -- cbn in E. inversion E; subst. apply Hn. apply in_or_app. right. right. exact Hx.
      * intros HB x Hx. apply (HB [] f l x eq_refl Ee Hx).
    + rewrite IH. split.
      * intros HB a g b x E Hg Hx. destruct a as [|y a].
        -- cbn in E. inv_some E. congruence.
        -- cbn in E. inversion E; subst. eapply HB; eauto.
      * intros HB a g b x E Hg Hx. apply (HB (f :: a) g b x); [cbn; rewrite E; reflexivity|exact Hg|exact Hx].
Qed.

Theorem c10_oracle_spec : forall l, c10_oracle l = true <-> C10Spec l.
Proof.
  intros l. unfold c10_oracle, C10Spec. rewrite andb_true_iff, after_start_spec, before_end_spec. tauto.
Qed.

(* ------------------------------------------------------------------ *)
(* refutations for the code as it stands                                *)

Lemma c10_refute : forall c ls,
  (match run c init ls with Some s => negb (c10_oracle (log s)) | None => false end) = true ->
  exists s, run c init ls = Some s /\ ~ C10Spec (log s).
Proof.
  intros c ls H. destruct (run c init ls) as [s|]; [|discriminate].
  exists s. split; [reflexivity|]. intros HS. apply c10_oracle_spec in HS. rewrite HS in H. discriminate.
Qed.

(* (a) client subscribe command (non-positioned here; the same schedule works positioned):
   a publication without offset is pushed between the hub registration and the reply *)
Definition cfg_a := mkCfg VClient false false 0 0 true false false false false false false.
Definition sched_a : list label :=
  [LReserve; LStartBuf; LHubAdd; LPublishNoHist false; LDeliver 0%nat false; LEnqueue;
   LHistRead; LMerge; LWriteReply; LCommit; LStopBuf].
Theorem c10_refuted_offset0 : exists s, run cfg_a init sched_a = Some s /\ ~ C10Spec (log s).
Proof. apply c10_refute. vm_compute. reflexivity. Qed.
Example c10_refuted_offset0_log :
  option_map log (run cfg_a init sched_a) = Some [FPub (mkP 0 0 false); FSubReply false [] 0 0].
Proof. vm_compute. reflexivity. Qed.
(* the patched model drops it *)
Example c10_offset0_patched :
  log (run_lenient (mkCfg VClient false false 0 0 true false false false true false false) init sched_a)
  = [FSubReply false [] 0 0].
Proof. vm_compute. reflexivity. Qed.

(* (b) server-side Client.Subscribe commits before it writes the subscribe push: a join
   (or any publication of a non-positioned channel) overtakes the push *)
Definition cfg_b := mkCfg VServer true false 0 0 true false false false false false false.
Definition sched_b : list label :=
  [LReserve; LStartBuf; LHubAdd; LHistRead; LMerge; LCommit; LJoinEv; LDeliver 0%nat false; LCheck; LEnqueue;
   LSrvPush; LStopBuf].
Theorem c10_refuted_server_join : exists s, run cfg_b init sched_b = Some s /\ ~ C10Spec (log s).
Proof. apply c10_refute. vm_compute. reflexivity. Qed.
Example c10_refuted_server_join_log :
  option_map log (run cfg_b init sched_b) = Some [FJoin; FSubPush 0 1].
Proof. vm_compute. reflexivity. Qed.
Definition cfg_b2 := mkCfg VServer false false 0 0 false false false false false false false.
Definition sched_b2 : list label :=
  [LReserve; LStartBuf; LHubAdd; LHistRead; LMerge; LCommit; LPublish false 100%nat; LDeliver 0%nat false;
   LSync; LCheck; LEnqueue; LSrvPush; LStopBuf].
Theorem c10_refuted_server_pub : exists s, run cfg_b2 init sched_b2 = Some s /\ ~ C10Spec (log s).
Proof. apply c10_refute. vm_compute. reflexivity. Qed.

(* (c) per-channel batching: unsubscribe deletes the channel writer while a broadcast sits
   between CheckPosition and Enqueue; the enqueue re-creates the writer and its flush
   writes the publication after the unsubscribe reply *)
Definition cfg_c := mkCfg VClient true false 0 0 false false false true false false false.
Definition sched_c : list label :=
  [LReserve; LStartBuf; LHubAdd; LHistRead; LMerge; LWriteReply; LCommit; LStopBuf;
   LPublish false 100%nat; LDeliver 0%nat false; LSync; LCheck; LUnsub UClient; LEnqueue;
   LUnsubHub; LUnsubOut; LFlush].
Theorem c10_refuted_batch_after_unsub : exists s, run cfg_c init sched_c = Some s /\ ~ C10Spec (log s).
Proof. apply c10_refute. vm_compute. reflexivity. Qed.
Example c10_refuted_batch_log :
  option_map log (run cfg_c init sched_c)
  = Some [FSubReply false [] 0 1; FUnsubReply; FPub (mkP 1 1 false)].
Proof. vm_compute. reflexivity. Qed.
