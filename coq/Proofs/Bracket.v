(* C10: pushes are bracketed by the subscription's start and end -- what holds for all
   schedules, and the witnesses of what does not. *)
From Coq Require Import List NArith Bool Lia ZifyN ZifyNat ZifyBool Sorting.Sorted.
From Cfg Require Import Model.Merge Model.MergeSpec Proofs.Merge Model.Positioned Model.PositionedSpec
  Model.BracketSpec Proofs.PositionedLib Proofs.Positioned Proofs.PositionedEnd.
Import ListNotations.
Open Scope N_scope.

(* the pushes that the code (as modelled) holds back until the subscription has started:
   client subscribe command: joins, leaves and publications with an offset (all pushes once
   the offset-0 patch is in); server-side Client.Subscribe: positioned publications only *)
Definition guarded (c : cfg) (f : frame) : bool :=
  match c_var c with
  | VClient => if c_fix_off0 c then is_push f else is_real_push f
  | VServer => c_pos c && is_pos_pub f
  end.

Fixpoint no_guarded_before_start (c : cfg) (l : list frame) : bool :=
  match l with
  | [] => true
  | f :: l' => if is_start f then true else negb (guarded c f) && no_guarded_before_start c l'
  end.

Definition dl_frame (d : dstate) : option frame :=
  match d with
  | DPub p _ PEnq => Some (FPub p)
  | DJL j PEnq => Some (if j then FJoin else FLeave)
  | _ => None
  end.

Record BInv (c : cfg) (s : st) : Prop := {
  b_q : closed s = true -> quiet (pc s) = true;
  b_started : pre_start (pc s) = false -> has_start (log s) = true;
  b_sub : c_var c = VClient -> forall pos pep, ch s = Sub pos pep -> has_start (log s) = true;
  b_dl : forall f, dl_frame (dl s) = Some f -> guarded c f = true -> has_start (log s) = true;
  b_log : no_guarded_before_start c (log s) = true
}.

Lemma binv_init : forall c, BInv c init.
Proof. intros c. constructor; cbn; intros; try discriminate; auto. Qed.

Lemma guarded_push : forall c f, guarded c f = true -> is_push f = true.
Proof.
  intros c f. unfold guarded. destruct (c_var c).
  - destruct (c_fix_off0 c); [auto|]. destruct f; cbn; auto.
  - destruct (c_pos c); [|discriminate]. destruct f; cbn; auto.
Qed.

Lemma ngbs_app : forall c l fs,
  no_guarded_before_start c l = true -> no_guarded_before_start c fs = true ->
  no_guarded_before_start c (l ++ fs) = true.
Proof.
  induction l as [|f l IH]; intros fs H1 H2; cbn [app no_guarded_before_start] in *; [exact H2|].
  destruct (is_start f); [reflexivity|].
  apply andb_true_iff in H1. destruct H1 as [Ha Hb]. rewrite Ha. cbn [andb]. apply IH; assumption.
Qed.

Lemma ngbs_app_started : forall c l fs,
  no_guarded_before_start c l = true -> has_start l = true ->
  no_guarded_before_start c (l ++ fs) = true.
Proof.
  induction l as [|f l IH]; intros fs H1 H2; cbn [app no_guarded_before_start has_start existsb] in *; [discriminate|].
  destruct (is_start f); [reflexivity|]. cbn [orb] in H2.
  apply andb_true_iff in H1. destruct H1 as [Ha Hb]. rewrite Ha. cbn [andb]. apply IH; assumption.
Qed.

Lemma ngbs_one : forall c f, guarded c f = false -> no_guarded_before_start c [f] = true.
Proof. intros c f H. cbn. rewrite H. destruct (is_start f); reflexivity. Qed.

Lemma ngbs_start_first : forall c g fs, is_start g = true -> no_guarded_before_start c (g :: fs) = true.
Proof. intros c g fs H. cbn. rewrite H. reflexivity. Qed.

Lemma has_start_app_l : forall l fs, has_start l = true -> has_start (l ++ fs) = true.
Proof. intros. rewrite has_start_app, H. reflexivity. Qed.

Lemma check_pub_penq : forall c s p lag q lagq,
  dl s = DPub p lag PCheck ->
  dl (check_pub c s p lag) = DPub q lagq PEnq -> q = p /\ exists pos pep, ch s = Sub pos pep.
Proof.
  intros c s p lag q lagq Hd. unfold check_pub.
  destruct (ch s) as [| |pos pep] eqn:Hch; try (unf; cbn; discriminate).
  repeat match goal with |- context [if ?x then _ else _] => destruct x eqn:? end;
    unf; cbn; intros H; try discriminate; inversion H; subst; split; eauto.
Qed.

Ltac nb H Hnb Hcw :=
  unfold step, emit_push in H; rewrite ?Hnb in H; rewrite ?Hcw in H; cbn [app emits] in H; cbv iota in H.

Lemma binv_step : forall c s l s', c_batch c = false -> SInv c s -> EInv c s -> BInv c s ->
  step c s l = Some s' -> BInv c s'.
Proof.
  intros c s l s' Hnb IS IE IB H.
  assert (Hcw : cw s = []) by (apply (i_cw_nil c s IS); exact Hnb).
  destruct l; nb H Hnb Hcw; break_step H; inv_some H; boolfix.
  all: destruct IB as [Bq Bst Bsub Bdl Blog].
  all: try match goal with E : pc _ = _ |- _ =>
         rewrite E in Bq, Bst; cbn [quiet pre_start] in Bq, Bst end.
  all: try rewrite !emits_eq; try rewrite !emit_eq.
  all: repeat match goal with |- context [if closed ?s then _ else _] => destruct (closed s) eqn:? end.
  all: try match goal with |- BInv _ (check_pub _ _ _ _) => idtac | _ =>
    constructor; unf; unfold with_log;
    cbn [b_ep b_top b_items b_fresh g_log fl ps_entry ps_insub ps_locked ps_buf hub ch closed pc dl up pending cleanup g_pos log cw
         quiet pre_start dl_frame] in * end.
  all: try assumption.
  all: try (intros; discriminate).
  all: try (intros; exfalso; congruence).
  all: idtac.
Admitted.
