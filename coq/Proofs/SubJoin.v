(* C07, join side: per-thread protocol of commit / join events, for ALL schedules.
   Every EvJoin is emitted by the thread that committed the subscription, after that
   commit, at most once; when everything has finished every join/leave-emitting commit
   was followed by exactly one join, or by the (ghost) EvJoinSkipped of the server-side
   path whose subscribe push could not be enqueued. *)
From Coq Require Import List NArith ZArith Bool Lia.
From Cfg Require Import Model.SubLifecycle Proofs.SubLifecycleLib Proofs.SubBroker Proofs.SubBrokerStep.
Import ListNotations.
Open Scope N_scope.

Definition jev (t : tid) (e : ev) : bool :=
  match e with
  | EvCommit t' _ _ _ | EvJoin t' _ _ | EvJoinSkipped t' _ _ => t' =? t
  | _ => false
  end.
Definition ttrace (t : tid) (l : list ev) : list ev := filter (jev t) l.

Definition jdone (t : tid) (l : list ev) : Prop :=
  l = [] \/ (exists c g, l = [EvCommit t c g false]) \/
  (exists c g, l = [EvCommit t c g true; EvJoin t c g]) \/
  (exists c g, l = [EvCommit t c g true; EvJoinSkipped t c g]).

Definition jthread (t : tid) (o : option thread) (l : list ev) : Prop :=
  match o with
  | Some (TAtt a) =>
      match a_pc a with
      | PRelease | PPush | PJoin => l = [EvCommit t (a_ch a) (a_use a) (o_jl (a_opts a))]
      | _ => l = []
      end
  | Some _ => l = []
  | None => jdone t l
  end.

Definition allocated (s : st) (t : tid) : Prop :=
  (exists k, t = 2 * k /\ k < next_ext s) \/ (exists k, t = 2 * k + 1 /\ k < next_int s).

Record JInv (s : st) : Prop := {
  j_fresh : forall t, ~ allocated s t -> ttrace t (trace s) = [];
  j_thr : forall t, jthread t (thr s t) (ttrace t (trace s))
}.

Lemma JInv_init : JInv init.
Proof. constructor; intros; cbn; auto. left. reflexivity. Qed.

Lemma ttrace_app t l e : ttrace t (l ++ [e]) = ttrace t l ++ (if jev t e then [e] else []).
Proof. unfold ttrace. rewrite filter_app. cbn. destruct (jev t e); reflexivity. Qed.

(* shape of a step: the stepping thread t moves to o', at most one event is appended and a
   thread-tagged event carries t; optionally one fresh thread appears *)
Lemma J_step s s' t o' es :
  JInv s -> thr s t <> None ->
  trace s' = trace s ++ es ->
  (forall t0, t0 <> t -> ttrace t0 es = []) ->
  (forall t0, t0 <> t -> thr s' t0 = thr s t0 \/ (thr s t0 = None /\ ~ allocated s t0 /\
                         match thr s' t0 with Some (TAtt _) | None => False | Some _ => True end)) ->
  thr s' t = o' ->
  (forall t0, allocated s t0 -> allocated s' t0) ->
  (forall t0, allocated s' t0 -> ~ allocated s t0 -> thr s' t0 <> None) ->
  allocated s t ->
  jthread t o' (ttrace t (trace s) ++ ttrace t es) ->
  JInv s'.
Proof.
  intros [JF JT] NN TR OTH THR THT AL AL2 ALt NEW.
  assert (TT : forall t0, ttrace t0 (trace s') = ttrace t0 (trace s) ++ ttrace t0 es).
  { intros t0. rewrite TR. unfold ttrace. apply filter_app. }
  constructor.
  - intros t0 NA. rewrite TT. destruct (N.eqb_spec t0 t); [subst t0; exfalso; apply NA; auto|].
    rewrite OTH; auto. rewrite app_nil_r. apply JF. intros A. apply NA. auto.
  - intros t0. rewrite TT. destruct (N.eqb_spec t0 t); [subst t0; rewrite THT; exact NEW|].
    rewrite OTH; auto. rewrite app_nil_r. destruct (THR t0 n) as [E|(E1 & E2 & E3)].
    + rewrite E. apply JT.
    + rewrite (JF t0 E2). destruct (thr s' t0) as [[| | | | |]|]; cbn; tauto.
Qed.

Ltac corej :=
  unfold spawn_int, submit_job, thr_set, thr_del, log, set_gst1;
  cbn [trace thr next_ext next_int
       set_status set_authed set_closing set_chans set_genctr set_gclosed set_cmu set_pmu set_pinfl
       set_kstarted set_slock set_hub set_others set_reg set_pres set_bsub set_jobs set_gconn set_gsub
       set_trace set_thr set_next_ext set_next_int set_panicked set_wclosed set_hreg set_shut set_gst].

Lemma alloc_of_thread s t : InvBS s -> thr s t <> None -> allocated s t.
Proof. intros I H. exact (b_tids _ _ _ _ _ _ _ _ I t H). Qed.

(* no event, no spawn *)
Lemma J_step0 s s' t th o' :
  JInv s -> InvBS s -> thr s t = Some th ->
  trace s' = trace s -> thr s' = upd (thr s) t o' ->
  next_ext s' = next_ext s -> next_int s' = next_int s ->
  jthread t o' (ttrace t (trace s)) ->
  JInv s'.
Proof.
  intros JI I ET TR TH NE NI NEW.
  eapply J_step with (t := t) (es := []) (o' := o'); eauto.
  - congruence.
  - rewrite TR, app_nil_r. reflexivity.
  - intros t0 NE0. left. rewrite TH. apply upd_other. auto.
  - rewrite TH. apply upd_same.
  - unfold allocated. rewrite NE, NI. auto.
  - unfold allocated. rewrite NE, NI. tauto.
  - apply alloc_of_thread; auto. congruence.
  - cbn. rewrite app_nil_r. exact NEW.
Qed.

(* one event, no spawn *)
Lemma J_step1 s s' t th o' e :
  JInv s -> InvBS s -> thr s t = Some th ->
  trace s' = trace s ++ [e] -> thr s' = upd (thr s) t o' ->
  next_ext s' = next_ext s -> next_int s' = next_int s ->
  (forall t0, t0 <> t -> jev t0 e = false) ->
  jthread t o' (ttrace t (trace s) ++ (if jev t e then [e] else [])) ->
  JInv s'.
Proof.
  intros JI I ET TR TH NE NI TAG NEW.
  eapply J_step with (t := t) (es := [e]) (o' := o'); eauto.
  - congruence.
  - intros t0 NE0. cbn. rewrite TAG; auto.
  - intros t0 NE0. left. rewrite TH. apply upd_other. auto.
  - rewrite TH. apply upd_same.
  - unfold allocated. rewrite NE, NI. auto.
  - unfold allocated. rewrite NE, NI. tauto.
  - apply alloc_of_thread; auto. congruence.
Qed.

(* no event, one internal non-attempt thread spawned *)
Lemma J_step0s s s' t th o' x :
  JInv s -> InvBS s -> thr s t = Some th ->
  trace s' = trace s -> thr s' = upd (upd (thr s) (2 * next_int s + 1) (Some x)) t o' ->
  next_ext s' = next_ext s -> next_int s' = next_int s + 1 ->
  match x with TAtt _ => False | _ => True end ->
  jthread t o' (ttrace t (trace s)) ->
  JInv s'.
Proof.
  intros JI I ET TR TH NE NI NX NEW.
  assert (FR : thr s (2 * next_int s + 1) = None) by (eapply fresh_int_b; eauto).
  assert (NA : ~ allocated s (2 * next_int s + 1)).
  { intros [(k & E & L)|(k & E & L)]; lia. }
  assert (NT : t <> 2 * next_int s + 1) by (intros E; rewrite <- E in FR; congruence).
  eapply J_step with (t := t) (es := []) (o' := o'); eauto.
  - congruence.
  - rewrite TR, app_nil_r. reflexivity.
  - intros t0 NE0. rewrite TH, upd_other; auto.
    destruct (N.eqb_spec t0 (2 * next_int s + 1)); [subst t0; right|left; apply upd_other; auto].
    rewrite upd_same. repeat split; auto; destruct x; auto.
  - rewrite TH. apply upd_same.
  - unfold allocated. rewrite NE, NI. intros t0 [(k & E & L)|(k & E & L)]; [left|right]; exists k; split; auto; lia.
  - unfold allocated. rewrite NE, NI. intros t0 A NA0. rewrite TH.
    destruct (N.eqb_spec t0 t); [subst; exfalso; apply NA0; apply alloc_of_thread; auto; congruence|].
    rewrite upd_other; auto.
    destruct A as [(k & E & L)|(k & E & L)]; [exfalso; apply NA0; left; exists k; split; auto|].
    destruct (N.eqb_spec k (next_int s)); [subst; rewrite upd_same; discriminate|].
    exfalso. apply NA0. right. exists k. split; auto. lia.
  - apply alloc_of_thread; auto. congruence.
  - cbn. rewrite app_nil_r. exact NEW.
Qed.

Lemma close_cap_trace c s : trace (close_cap c s) = trace s /\ thr (close_cap c s) = thr s /\
  next_ext (close_cap c s) = next_ext s /\ next_int (close_cap c s) = next_int s.
Proof. destruct c; cbn; auto. unfold close_gate. destruct (gclosed s g); cbn; auto. Qed.
Lemma cg_trace g s : trace (close_gate g s) = trace s.
Proof. unfold close_gate. destruct (gclosed s g); reflexivity. Qed.
Lemma cg_thr g s : thr (close_gate g s) = thr s.
Proof. unfold close_gate. destruct (gclosed s g); reflexivity. Qed.
Lemma cg_ne g s : next_ext (close_gate g s) = next_ext s.
Proof. unfold close_gate. destruct (gclosed s g); reflexivity. Qed.
Lemma cg_ni g s : next_int (close_gate g s) = next_int s.
Proof. unfold close_gate. destruct (gclosed s g); reflexivity. Qed.
Lemma hubrem_trace c g s : trace (hubrem c g s) = trace s /\ thr (hubrem c g s) = thr s /\
  next_ext (hubrem c g s) = next_ext s /\ next_int (hubrem c g s) = next_int s.
Proof.
  unfold hubrem. destruct (hub s c); [destruct (_ =? g); [destruct (others s c =? 0)|]|]; cbn; auto.
Qed.

Ltac jthr_goal JT :=
  cbn; rewrite ?N.eqb_refl; unfold fail_pc;
  repeat (match goal with |- context [if ?x then _ else _] => destruct x end; cbn);
  rewrite ?JT; cbn; rewrite ?N.eqb_refl; cbn;
  repeat match goal with
         | H : ?x = true |- context [?x] => rewrite H
         | H : ?x = false |- context [?x] => rewrite H
         end; cbn; auto;
  try (unfold jdone; first [left; reflexivity | right; left; eauto; fail | right; right; left; eauto; fail
                           | right; right; right; eauto; fail]).

Lemma att_step_J s t a b s' :
  JInv s -> InvBS s -> thr s t = Some (TAtt a) -> att_step s t a b = Some s' -> JInv s'.
Proof.
  intros JI I ET H. unfold att_step in H.
  pose proof (j_thr _ JI t) as JT. rewrite ET in JT. cbn in JT.
  destruct (close_cap_trace (a_cap a) s) as (C1 & C2 & C3 & C4).
  destruct (hubrem_trace (a_ch a) (a_use a) s) as (H1 & H2 & H3 & H4).
  destruct (hubrem_trace (a_ch a) (a_own a) s) as (G1 & G2 & G3 & G4).
  destruct (a_pc a) eqn:EPC;
    repeat match type of H with
    | (if ?c then _ else _) = _ => destruct c eqn:?
    | match ?o with Some _ => _ | None => _ end = _ => destruct o eqn:?
    | match ?k with Cli => _ | Srv => _ end = _ => destruct k eqn:?
    end; try discriminate; inv H; cbv zeta.
  all: repeat (match goal with |- context [if ?x then _ else _] => destruct x eqn:? end).
  all: repeat (match goal with |- context [match hub ?s0 ?c with Some _ => _ | None => _ end] => destruct (hub s0 c) eqn:? end).
  all: repeat (match goal with |- context [if ?x then _ else _] => destruct x eqn:? end).
  all: try (eapply J_step0 with (t := t); [exact JI|exact I|exact ET
            |corej; rewrite ?C1, ?H1, ?G1; reflexivity|corej; rewrite ?C2, ?H2, ?G2; reflexivity
            |corej; rewrite ?C3, ?H3, ?G3; reflexivity|corej; rewrite ?C4, ?H4, ?G4; reflexivity|jthr_goal JT]; fail).
  all: try (eapply J_step1 with (t := t); [exact JI|exact I|exact ET
            |corej; rewrite ?C1, ?H1, ?G1; reflexivity|corej; rewrite ?C2, ?H2, ?G2; reflexivity
            |corej; rewrite ?C3, ?H3, ?G3; reflexivity|corej; rewrite ?C4, ?H4, ?G4; reflexivity
            |intros t0 NE0; cbn; try reflexivity; destruct (N.eqb_spec t t0); congruence
            |jthr_goal JT]; fail).
  all: try (eapply J_step0s with (t := t); [exact JI|exact I|exact ET
            |corej; reflexivity|corej; reflexivity|corej; reflexivity|corej; reflexivity|cbn; auto|jthr_goal JT]; fail).
Qed.

(* the other thread kinds never emit commit/join events and are never attempts *)
Ltac jplain JI I ET :=
  repeat (match goal with |- context [if ?x then _ else _] => destruct x eqn:? end);
  first
  [ eapply J_step0; [exact JI|exact I|exact ET|corej; reflexivity|corej; reflexivity|corej; reflexivity
                    |corej; reflexivity| ]
  | eapply J_step1; [exact JI|exact I|exact ET|corej; reflexivity|corej; reflexivity|corej; reflexivity
                    |corej; reflexivity|intros ? ?; reflexivity| ]
  | eapply J_step0s; [exact JI|exact I|exact ET|corej; reflexivity|corej; reflexivity|corej; reflexivity
                     |corej; reflexivity|cbn; auto| ] ].

Lemma nonatt_trace s t th : JInv s -> thr s t = Some th ->
  match th with TAtt _ => False | _ => True end -> ttrace t (trace s) = [].
Proof. intros JI ET N. pose proof (j_thr _ JI t) as JT. rewrite ET in JT. destruct th; cbn in *; tauto. Qed.

Lemma u_step_J s t th u b s1 ou o' :
  JInv s -> InvBS s -> thr s t = Some th -> match th with TAtt _ => False | _ => True end ->
  match o' with Some (TAtt _) => False | _ => True end ->
  u_step s t u b = Some (s1, ou) ->
  forall s', trace s' = trace s1 -> thr s' = upd (thr s1) t o' ->
             next_ext s' = next_ext s1 -> next_int s' = next_int s1 -> JInv s'.
Proof.
  intros JI I ET NA NO H s' TR TH NE NI.
  pose proof (nonatt_trace s t th JI ET NA) as JT.
  assert (DONE : jthread t o' []).
  { destruct o' as [[| | | | |]|]; cbn in *; try tauto. left. reflexivity. }
  unfold u_step in H.
  destruct (hubrem_trace (u_ch u) (u_rm u) s) as (H1 & H2 & H3 & H4).
  destruct (u_pc u);
    repeat match type of H with
    | (if ?c then _ else _) = _ => destruct c eqn:?
    | match ?o with Some _ => _ | None => _ end = _ => destruct o eqn:?
    end; try discriminate; inv H;
    repeat (match goal with H : context [if ?x then _ else _] |- _ => destruct x eqn:? end).
  all: try (eapply J_step0 with (t := t); [exact JI|exact I|exact ET
            |rewrite TR; corej; rewrite ?H1; reflexivity|rewrite TH; corej; rewrite ?H2; reflexivity
            |rewrite NE; corej; rewrite ?H3; reflexivity|rewrite NI; corej; rewrite ?H4; reflexivity
            |rewrite JT; exact DONE]; fail).
  all: try (eapply J_step1 with (t := t); [exact JI|exact I|exact ET
            |rewrite TR; corej; reflexivity|rewrite TH; corej; reflexivity
            |rewrite NE; corej; reflexivity|rewrite NI; corej; reflexivity
            |intros ? ?; reflexivity|rewrite JT; cbn; exact DONE]; fail).
  (* UDelete closing a gate *)
  all: try (eapply J_step0 with (t := t); [exact JI|exact I|exact ET
            |rewrite TR; corej; rewrite ?cg_trace; reflexivity|rewrite TH; corej; rewrite ?cg_thr; reflexivity
            |rewrite NE; corej; rewrite ?cg_ne; reflexivity|rewrite NI; corej; rewrite ?cg_ni; reflexivity
            |rewrite JT; exact DONE]; fail).
  all: try (eapply J_step1 with (t := t); [exact JI|exact I|exact ET
            |rewrite TR; corej; rewrite ?cg_trace; reflexivity|rewrite TH; corej; rewrite ?cg_thr; reflexivity
            |rewrite NE; corej; rewrite ?cg_ne; reflexivity|rewrite NI; corej; rewrite ?cg_ni; reflexivity
            |intros ? ?; reflexivity|rewrite JT; cbn; exact DONE]; fail).
Qed.

Lemma tck_step_J s t k b s' :
  JInv s -> InvBS s -> thr s t = Some (TTck k) -> tck_step s t k b = Some s' -> JInv s'.
Proof.
  intros JI I ET H. unfold tck_step in H.
  pose proof (nonatt_trace s t _ JI ET Logic.I) as JT.
  destruct b.
  all: destruct (t_pc k);
    repeat match type of H with
    | (if ?c then _ else _) = _ => destruct c
    | match ?l with [] => _ | _ :: _ => _ end = _ => destruct l
    | match ?o with Some _ => _ | None => _ end = _ => destruct o
    end; try discriminate; inv H; jplain JI I ET; rewrite JT; cbn; auto; left; reflexivity.
Qed.

Lemma con_step_J s t pc b s' :
  JInv s -> InvBS s -> thr s t = Some (TCon pc) -> con_step s t pc b = Some s' -> JInv s'.
Proof.
  intros JI I ET H. unfold con_step in H.
  pose proof (nonatt_trace s t _ JI ET Logic.I) as JT.
  destruct pc;
    repeat match type of H with
    | (if ?c then _ else _) = _ => destruct c
    end; try discriminate; inv H; jplain JI I ET; rewrite JT; cbn; auto; left; reflexivity.
Qed.

Lemma job_step_J s t c b s' :
  JInv s -> InvBS s -> thr s t = Some (TJob c) -> job_step s t c b = Some s' -> JInv s'.
Proof.
  intros JI I ET H. unfold job_step in H.
  pose proof (nonatt_trace s t _ JI ET Logic.I) as JT.
  destruct b; inv H; jplain JI I ET; rewrite JT; cbn; auto; left; reflexivity.
Qed.

Lemma cls_step_J s t k b s' :
  JInv s -> InvBS s -> thr s t = Some (TCls k) -> cls_step s t k b = Some s' -> JInv s'.
Proof.
  intros JI I ET H. unfold cls_step in H.
  pose proof (nonatt_trace s t _ JI ET Logic.I) as JT.
  destruct (k_pc k) eqn:EPC.
  8:{ destruct (k_cur k) as [u|] eqn:EC.
      - destruct (u_step s t u b) as [[s1 ou]|] eqn:EU; [|discriminate]. inv H.
        eapply (u_step_J s t _ u b s1 ou (Some (TCls (mkC CLoop (k_prev k) (k_rest k) ou))) JI I ET Logic.I Logic.I EU);
          corej; reflexivity.
      - destruct (k_rest k); [|destruct b]; inv H; jplain JI I ET; rewrite JT; cbn; auto. }
  all: repeat match type of H with
       | (if ?c then _ else _) = _ => destruct c
       end; try discriminate; inv H; jplain JI I ET; rewrite JT; cbn; auto; left; reflexivity.
Qed.

Lemma step_thread_J s t b s' : JInv s -> InvBS s -> step_thread s t b = Some s' -> JInv s'.
Proof.
  intros JI I H. unfold step_thread in H. destruct (thr s t) as [[a|u|k|k|pc|c]|] eqn:ET; try discriminate.
  - eapply att_step_J; eauto.
  - destruct (u_step s t u b) as [[s1 [u'|]]|] eqn:EU; inv H.
    + eapply (u_step_J s t _ u b s1 _ (Some (TUns u')) JI I ET Logic.I Logic.I EU); corej; reflexivity.
    + eapply (u_step_J s t _ u b s1 _ None JI I ET Logic.I Logic.I EU); corej; reflexivity.
  - eapply cls_step_J; eauto.
  - eapply tck_step_J; eauto.
  - eapply con_step_J; eauto.
  - eapply job_step_J; eauto.
Qed.

Lemma u_timeout_J s t th u s1 o' :
  JInv s -> InvBS s -> thr s t = Some th -> match th with TAtt _ => False | _ => True end ->
  match o' with Some (TAtt _) => False | _ => True end ->
  u_timeout s u = Some s1 ->
  forall s', trace s' = trace s1 -> thr s' = upd (thr s1) t o' ->
             next_ext s' = next_ext s1 -> next_int s' = next_int s1 -> JInv s'.
Proof.
  intros JI I ET NA NO H s' TR TH NE NI.
  pose proof (nonatt_trace s t th JI ET NA) as JT.
  assert (DONE : jthread t o' []).
  { destruct o' as [[| | | | |]|]; cbn in *; try tauto. left. reflexivity. }
  unfold u_timeout in H. destruct (u_pc u); try discriminate. inv H.
  destruct (lookup (u_ch u) (chans s)) as [x|]; [destruct (c_gate x)|];
    (eapply J_step0s with (t := t); [exact JI|exact I|exact ET
       |rewrite TR; corej; rewrite ?cg_trace; reflexivity
       |rewrite TH; corej; rewrite ?cg_thr, ?cg_ni; reflexivity
       |rewrite NE; corej; rewrite ?cg_ne; reflexivity|rewrite NI; corej; rewrite ?cg_ni; reflexivity
       |cbn; auto|rewrite JT; exact DONE]).
Qed.

Lemma timeout_thread_J s t s' : JInv s -> InvBS s -> timeout_thread s t = Some s' -> JInv s'.
Proof.
  intros JI I H. unfold timeout_thread in H. destruct (thr s t) as [[a|u|k|k|pc|c]|] eqn:ET; try discriminate.
  - destruct (u_timeout s u) as [s1|] eqn:EU; inv H.
    eapply (u_timeout_J s t _ u s1 None JI I ET Logic.I Logic.I EU); corej; reflexivity.
  - destruct (k_pc k); try discriminate. destruct (k_cur k) as [u|]; try discriminate.
    destruct (u_timeout s u) as [s1|] eqn:EU; inv H.
    eapply (u_timeout_J s t _ u s1 (Some (TCls (mkC CLoop (k_prev k) (k_rest k) None))) JI I ET Logic.I Logic.I EU);
      corej; reflexivity.
Qed.

(* no event; threads are unchanged except possibly new ones at unallocated tids *)
Definition fresh_ok (o : option thread) : Prop :=
  match o with Some (TAtt a) => a_pc a = PReserve | _ => True end.
Lemma J_frame s s' :
  JInv s ->
  trace s' = trace s ->
  (forall t0, allocated s t0 -> allocated s' t0) ->
  (forall t0, thr s' t0 = thr s t0 \/ (~ allocated s t0 /\ fresh_ok (thr s' t0))) ->
  JInv s'.
Proof.
  intros [JF JT] TR AL TH. constructor.
  - intros t0 NA0. rewrite TR. apply JF. intros A. apply NA0. auto.
  - intros t0. rewrite TR. destruct (TH t0) as [E|[NA F]]; [rewrite E; apply JT|].
    rewrite (JF t0 NA). destruct (thr s' t0) as [[a| | | | |]|]; cbn in *; auto.
    + rewrite F. reflexivity.
    + left. reflexivity.
Qed.

Lemma alloc_ext_iff s s' :
  next_ext s' = next_ext s + 1 -> next_int s' = next_int s ->
  forall t0, allocated s' t0 <-> allocated s t0 \/ t0 = 2 * next_ext s.
Proof.
  intros NE NI t0. unfold allocated. rewrite NE, NI. split.
  - intros [(k & E & L)|(k & E & L)].
    + destruct (N.eqb_spec k (next_ext s)); [subst; auto|left; left; exists k; split; auto; lia].
    + left; right; exists k; auto.
  - intros [[(k & E & L)|(k & E & L)]|E].
    + left; exists k; split; auto; lia.
    + right; exists k; auto.
    + left; exists (next_ext s); split; auto; lia.
Qed.
Lemma alloc_int_iff s s' :
  next_ext s' = next_ext s -> next_int s' = next_int s + 1 ->
  forall t0, allocated s' t0 <-> allocated s t0 \/ t0 = 2 * next_int s + 1.
Proof.
  intros NE NI t0. unfold allocated. rewrite NE, NI. split.
  - intros [(k & E & L)|(k & E & L)].
    + left; left; exists k; auto.
    + destruct (N.eqb_spec k (next_int s)); [subst; auto|left; right; exists k; split; auto; lia].
  - intros [[(k & E & L)|(k & E & L)]|E].
    + left; exists k; auto.
    + right; exists k; split; auto; lia.
    + right; exists (next_int s); split; auto; lia.
Qed.

Lemma spawn_J s o s' : JInv s -> InvBS s -> spawn s o = Some s' -> JInv s'.
Proof.
  intros JI I H. unfold spawn in H.
  assert (FR : thr s (2 * next_ext s) = None) by (eapply fresh_ext_b; eauto).
  assert (NA : ~ allocated s (2 * next_ext s)) by (intros [(k & E & L)|(k & E & L)]; lia).
  assert (FRI : thr s (2 * next_int s + 1) = None) by (eapply fresh_int_b; eauto).
  assert (NAI : ~ allocated s (2 * next_int s + 1)) by (intros [(k & E & L)|(k & E & L)]; lia).
  destruct o;
    repeat match type of H with
    | (if ?c then _ else _) = _ => destruct c
    end; try discriminate; inv H;
    repeat (match goal with |- context [if ?x then _ else _] => destruct x end);
    (eapply J_frame; [exact JI|corej; reflexivity
      |unfold allocated; corej; intros t0 [(k & E & L)|(k & E & L)]; [left|right]; exists k; split; auto; lia
      |corej; intros t0; unfold upd;
       repeat (match goal with |- context [N.eqb ?a ?b] => destruct (N.eqb_spec a b); subst end);
       auto; right; split; auto; cbn; auto]).
Qed.

Lemma astep_J s l s' : JInv s -> InvBS s -> astep s l = Some s' -> JInv s'.
Proof.
  intros JI I H. destruct l; cbn in *.
  - eapply spawn_J; eauto.
  - eapply step_thread_J; eauto.
  - eapply timeout_thread_J; eauto.
  - (* LJobStart *)
    unfold job_start in H. destruct (mem c (jobs s) && negb (slock s c)); [|discriminate].
    assert (FR : thr s (2 * next_int s + 1) = None) by (eapply fresh_int_b; eauto).
    assert (NA : ~ allocated s (2 * next_int s + 1)) by (intros [(k & E & L)|(k & E & L)]; lia).
    destruct (subscribers s c); inv H.
    + destruct JI as [JF JT]. constructor; auto.
    + eapply J_frame; [exact JI|corej; reflexivity
        |unfold allocated; corej; intros t0 [(k & E & L)|(k & E & L)]; [left|right]; exists k; split; auto; lia
        |corej; intros t0; unfold upd; destruct (N.eqb_spec t0 (2 * next_int s + 1)); subst; auto;
         right; split; auto; cbn; auto].
  - unfold other_add in H. destruct (slock s c); [discriminate|].
    destruct JI as [JF JT].
    destruct (subscribers s c); [|destruct b]; inv H; constructor; auto.
  - unfold other_rem in H. destruct (slock s c || (others s c =? 0)); [discriminate|].
    destruct JI as [JF JT].
    destruct ((others s c =? 1) && match hub s c with None => true | Some _ => false end); inv H;
      constructor; auto.
Qed.

Theorem exec_J l : forall s s', JInv s -> InvBS s -> exec l s = Some s' -> JInv s'.
Proof.
  induction l as [|x l IH]; cbn; intros s s' JI I H.
  - inv H. auto.
  - destruct (astep s x) as [s1|] eqn:E; [|discriminate].
    apply (IH s1 s'); auto; [eapply astep_J|eapply astep_B]; eauto.
Qed.

(* ---- C07 statements (join side) ---- *)
Lemma in_ttrace t e l : In e l -> jev t e = true -> In e (ttrace t l).
Proof. intros. apply filter_In. auto. Qed.

Theorem join_protocol sched s t c g :
  exec sched init = Some s -> In (EvJoin t c g) (trace s) ->
  thr s t = None /\ ttrace t (trace s) = [EvCommit t c g true; EvJoin t c g].
Proof.
  intros E HI.
  assert (JI : JInv s) by (eapply exec_J; eauto; [apply JInv_init|apply InvBS_init]).
  assert (IT : In (EvJoin t c g) (ttrace t (trace s))) by (apply in_ttrace; auto; cbn; apply N.eqb_refl).
  pose proof (j_thr _ JI t) as JT. unfold jthread in JT.
  destruct (thr s t) as [[a| | | | |]|].
  - destruct (a_pc a); rewrite JT in IT; cbn in IT; intuition discriminate.
  - rewrite JT in IT. destruct IT.
  - rewrite JT in IT. destruct IT.
  - rewrite JT in IT. destruct IT.
  - rewrite JT in IT. destruct IT.
  - rewrite JT in IT. destruct IT.
  - split; auto. destruct JT as [E0|[(c0 & g0 & E0)|[(c0 & g0 & E0)|(c0 & g0 & E0)]]];
      rewrite E0 in IT; cbn in IT; intuition try discriminate.
    inversion H0; subst. exact E0.
Qed.

(* no join without a successful commit of the SAME thread, with join/leave emission *)
Theorem join_needs_commit sched s t c g :
  exec sched init = Some s -> In (EvJoin t c g) (trace s) -> In (EvCommit t c g true) (trace s).
Proof.
  intros E HI. destruct (join_protocol _ _ _ _ _ E HI) as [_ TT].
  assert (X : In (EvCommit t c g true) (ttrace t (trace s))) by (rewrite TT; left; auto).
  apply filter_In in X. tauto.
Qed.

(* the commit comes first: the trace splits around the two events *)
Lemma filter_two {A} (f : A -> bool) l x y :
  filter f l = [x; y] -> exists l1 l2 l3, l = l1 ++ x :: l2 ++ y :: l3.
Proof.
  induction l as [|a l IH]; cbn; [discriminate|].
  destruct (f a) eqn:Fa.
  - intros [= -> E]. clear IH.
    assert (exists l2 l3, l = l2 ++ y :: l3).
    { clear Fa. induction l as [|b l IH]; cbn in *; [discriminate|].
      destruct (f b); [inversion E; subst; exists [], l; auto|].
      destruct (IH E) as (l2 & l3 & ->). exists (b :: l2), l3. auto. }
    destruct H as (l2 & l3 & ->). exists [], l2, l3. auto.
  - intros E. destruct (IH E) as (l1 & l2 & l3 & ->). exists (a :: l1), l2, l3. auto.
Qed.

Theorem commit_before_join sched s t c g :
  exec sched init = Some s -> In (EvJoin t c g) (trace s) ->
  exists l1 l2 l3, trace s = l1 ++ EvCommit t c g true :: l2 ++ EvJoin t c g :: l3.
Proof.
  intros E HI. destruct (join_protocol _ _ _ _ _ E HI) as [_ TT]. apply (filter_two _ _ _ _ TT).
Qed.

(* at most one join per committing thread *)
Theorem join_once sched s t c g c' g' :
  exec sched init = Some s -> In (EvJoin t c g) (trace s) -> In (EvJoin t c' g') (trace s) ->
  c = c' /\ g = g'.
Proof.
  intros E H1 H2. destruct (join_protocol _ _ _ _ _ E H1) as [_ T1].
  destruct (join_protocol _ _ _ _ _ E H2) as [_ T2]. rewrite T1 in T2. inversion T2; subst. auto.
Qed.

(* when everything has finished, every join/leave-emitting commit was followed by its join,
   or by the server-side path's skipped join *)
Theorem settled_join_or_skipped sched s t c g :
  exec sched init = Some s -> settled s -> In (EvCommit t c g true) (trace s) ->
  In (EvJoin t c g) (trace s) \/ In (EvJoinSkipped t c g) (trace s).
Proof.
  intros E ST HI.
  assert (JI : JInv s) by (eapply exec_J; eauto; [apply JInv_init|apply InvBS_init]).
  assert (IT : In (EvCommit t c g true) (ttrace t (trace s))) by (apply in_ttrace; auto; cbn; apply N.eqb_refl).
  pose proof (j_thr _ JI t) as JT. rewrite (ST t) in JT. cbn in JT.
  destruct JT as [E0|[(c0 & g0 & E0)|[(c0 & g0 & E0)|(c0 & g0 & E0)]]]; rewrite E0 in IT; cbn in IT.
  - destruct IT.
  - intuition discriminate.
  - destruct IT as [X|[X|[]]]; inversion X; subst. left.
    assert (Y : In (EvJoin t c g) (ttrace t (trace s))) by (rewrite E0; right; left; auto).
    apply filter_In in Y. tauto.
  - destruct IT as [X|[X|[]]]; inversion X; subst. right.
    assert (Y : In (EvJoinSkipped t c g) (ttrace t (trace s))) by (rewrite E0; right; left; auto).
    apply filter_In in Y. tauto.
Qed.

(* exactly one join event of that thread in the whole trace *)
Theorem join_unique sched s t c g l1 l2 :
  exec sched init = Some s -> trace s = l1 ++ EvJoin t c g :: l2 ->
  forall c' g', ~ In (EvJoin t c' g') l1 /\ ~ In (EvJoin t c' g') l2.
Proof.
  intros E TR c' g'.
  assert (HI : In (EvJoin t c g) (trace s)) by (rewrite TR; apply in_or_app; right; left; auto).
  destruct (join_protocol _ _ _ _ _ E HI) as [_ TT].
  rewrite TR in TT. unfold ttrace in TT. rewrite filter_app in TT. cbn in TT. rewrite N.eqb_refl in TT.
  assert (J1 : forall x, In x (filter (jev t) l1) -> x = EvCommit t c g true).
  { intros x Hx. destruct (filter (jev t) l1) as [|y [|z r]] eqn:F; cbn in *.
    - destruct Hx.
    - inversion TT; subst. destruct Hx as [<-|[]]. auto.
    - inversion TT; subst. destruct r; discriminate. }
  assert (J2 : filter (jev t) l2 = []).
  { destruct (filter (jev t) l1) as [|y [|z r]]; cbn in TT; inversion TT; auto. destruct r; discriminate. }
  split; intros X.
  - assert (Y : In (EvJoin t c' g') (filter (jev t) l1)) by (apply filter_In; split; auto; cbn; apply N.eqb_refl).
    apply J1 in Y. discriminate.
  - assert (Y : In (EvJoin t c' g') (filter (jev t) l2)) by (apply filter_In; split; auto; cbn; apply N.eqb_refl).
    rewrite J2 in Y. destruct Y.
Qed.

(* ---- refutations: ordering and the missing join ---- *)
Fixpoint rep (n : nat) (l : label) : list label := match n with O => [] | S m => l :: rep m l end.
Definition ojl := mkOpts false true.

(* client path: close() between commitSubscription and PublishJoin *)
Definition leave_join_cli : list label :=
  [LSpawn OConnect] ++ rep 9 (LStep 0 true) ++
  [LSpawn (OSubCli 0 ojl)] ++ rep 10 (LStep 2 true) ++   (* ... commit, gate released; parked before PublishJoin *)
  [LSpawn OClose] ++ rep 15 (LStep 4 true) ++            (* close: unsubscribe publishes the leave *)
  [LStep 2 true].                                        (* the join lands afterwards *)

Fixpoint index_of (f : ev -> bool) (l : list ev) (i : nat) : option nat :=
  match l with [] => None | e :: l' => if f e then Some i else index_of f l' (S i) end.
Definition is_join (e : ev) := match e with EvJoin _ _ _ => true | _ => false end.
Definition is_leave (e : ev) := match e with EvLeave _ _ => true | _ => false end.

Lemma leave_before_join_cli :
  exists s, exec leave_join_cli init = Some s /\ no_timeout leave_join_cli = true /\
            filter (fun e => is_join e || is_leave e) (trace s) = [EvLeave 0 1; EvJoin 2 0 1] /\
            status s = Closed.
Proof.
  destruct (exec leave_join_cli init) as [s|] eqn:E; [|vm_compute in E; discriminate].
  exists s. split; auto. vm_compute in E. inversion E; subst. vm_compute. repeat split; reflexivity.
Qed.

(* server-side path: the writer is closed before Client.Subscribe enqueues its push *)
Definition leave_no_join_srv : list label :=
  [LSpawn OConnect] ++ rep 9 (LStep 0 true) ++
  [LSpawn (OSubSrv 0 ojl)] ++ rep 7 (LStep 2 true) ++    (* ... commit, gate released; before the push *)
  [LSpawn OClose] ++ rep 15 (LStep 4 true) ++            (* close: writer closed, leave published *)
  [LStep 2 true].                                        (* push not enqueued: returns without join *)

Lemma leave_without_join_srv :
  exists s, exec leave_no_join_srv init = Some s /\ no_timeout leave_no_join_srv = true /\
            filter (fun e => is_join e || is_leave e) (trace s) = [EvLeave 0 1] /\
            In (EvCommit 2 0 1 true) (trace s) /\ In (EvJoinSkipped 2 0 1) (trace s).
Proof.
  destruct (exec leave_no_join_srv init) as [s|] eqn:E; [|vm_compute in E; discriminate].
  exists s. split; auto. vm_compute in E. inversion E; subst. vm_compute. repeat split; auto 10.
Qed.

Theorem order_refuted :
  exists sched s,
    exec sched init = Some s /\ no_timeout sched = true /\
    filter (fun e => is_join e || is_leave e) (trace s) = [EvLeave 0 1; EvJoin 2 0 1].
Proof. destruct leave_before_join_cli as (s & E & NT & F & _). exists leave_join_cli, s. auto. Qed.

Theorem missing_join_refuted :
  exists sched s,
    exec sched init = Some s /\ no_timeout sched = true /\
    filter (fun e => is_join e || is_leave e) (trace s) = [EvLeave 0 1] /\
    In (EvCommit 2 0 1 true) (trace s).
Proof. destruct leave_without_join_srv as (s & E & NT & F & C & _). exists leave_no_join_srv, s. auto. Qed.
