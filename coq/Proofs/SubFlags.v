(* C06 auxiliary: the lock / in-flight flags are accounted for by threads (ALL schedules):
   presenceMu taken => a holder thread exists; presence tick in flight => a tick thread past its
   CAS exists; close started => the connection is closed or a close thread is about to flip. *)
From Coq Require Import List NArith ZArith Bool Lia.
From Cfg Require Import Model.SubLifecycle Proofs.SubLifecycleLib Proofs.SubBroker Proofs.SubBrokerStep Proofs.SubLocks.
Import ListNotations.
Open Scope N_scope.

Definition in_tick (o : option thread) : bool :=
  match o with Some (TTck k) => match t_pc k with TCas => false | _ => true end | _ => false end.
Definition at_cl (o : option thread) : bool :=
  match o with Some (TCls k) => match k_pc k with CLock | CFlip => true | _ => false end | _ => false end.

Record RInv (s : st) : Prop := {
  r_pmu : pmu s = true -> exists t, holds_pmu (thr s t) = true;
  r_pinfl : pinfl s = true -> exists t, in_tick (thr s t) = true;
  r_closing : closing s = true -> status s = Closed \/ exists t, at_cl (thr s t) = true
}.

Lemma RInv_init : RInv init.
Proof. constructor; cbn; intros; discriminate. Qed.

Lemma R_step s s' t o' nt x :
  RInv s -> LInv s ->
  (thr s' = upd (thr s) t o' \/ (thr s' = upd (upd (thr s) nt (Some x)) t o' /\ thr s nt = None)) ->
  (pmu s' = true -> holds_pmu o' = true \/ (pmu s = true /\ holds_pmu (thr s t) = false)) ->
  (pinfl s' = true -> in_tick o' = true \/ (pinfl s = true /\ in_tick (thr s t) = false)) ->
  (status s' = status s \/ status s' = Closed \/ in_handler (thr s t) = true) ->
  (closing s' = true -> at_cl o' = true \/ status s' = Closed \/ (closing s = true /\ at_cl (thr s t) = false)) ->
  RInv s'.
Proof.
  intros [R1 R2 R3] LI TH PM PI ST CL.
  assert (THT : thr s' t = o') by (destruct TH as [-> |(-> & _)]; apply upd_same).
  assert (OTH : forall t0, t0 <> t -> thr s t0 <> None -> thr s' t0 = thr s t0).
  { intros t0 NE NN. destruct TH as [-> |(-> & FR)]; rewrite upd_other; auto. rewrite upd_other; auto. congruence. }
  assert (KEEP : forall (f : option thread -> bool), f None = false ->
            (exists t0, f (thr s t0) = true) -> f (thr s t) = false -> exists t0, f (thr s' t0) = true).
  { intros f FN (t0 & F) FT. exists t0. rewrite OTH; auto; [congruence|]. intros X. rewrite X in F. congruence. }
  constructor.
  - intros P. destruct (PM P) as [H|(H1 & H2)]; [exists t; rewrite THT; auto|]. apply (KEEP holds_pmu); auto.
  - intros P. destruct (PI P) as [H|(H1 & H2)]; [exists t; rewrite THT; auto|]. apply (KEEP in_tick); auto.
  - intros P. destruct (CL P) as [H|[H|(H1 & H2)]]; [right; exists t; rewrite THT; auto|auto|].
    destruct (R3 H1) as [C|E]; [|right; apply (KEEP at_cl); auto].
    left. destruct ST as [-> |[E|IH]]; auto. rewrite (l_conn _ LI _ IH) in C. discriminate.
Qed.

Ltac corer :=
  unfold spawn_int, submit_job, thr_set, thr_del, log, set_gst1 in *;
  cbn [thr status pmu pinfl closing next_int next_ext
       set_status set_authed set_closing set_chans set_genctr set_gclosed set_cmu set_pmu set_pinfl
       set_kstarted set_slock set_hub set_others set_reg set_pres set_bsub set_jobs set_gconn set_gsub
       set_trace set_thr set_next_ext set_next_int set_panicked set_wclosed set_hreg set_shut set_gst] in *.

Lemma cgr g s : thr (close_gate g s) = thr s /\ pmu (close_gate g s) = pmu s /\ pinfl (close_gate g s) = pinfl s /\
  status (close_gate g s) = status s /\ closing (close_gate g s) = closing s /\ next_int (close_gate g s) = next_int s.
Proof. unfold close_gate. destruct (gclosed s g); cbn; auto 10. Qed.
Lemma cgr1 g s : thr (close_gate g s) = thr s. Proof. apply cgr. Qed.
Lemma cgr2 g s : pmu (close_gate g s) = pmu s. Proof. apply cgr. Qed.
Lemma cgr3 g s : pinfl (close_gate g s) = pinfl s. Proof. apply cgr. Qed.
Lemma cgr4 g s : status (close_gate g s) = status s. Proof. apply cgr. Qed.
Lemma cgr5 g s : closing (close_gate g s) = closing s. Proof. apply cgr. Qed.
Lemma cgr6 g s : next_int (close_gate g s) = next_int s. Proof. apply cgr. Qed.
Lemma ccr1 c s : thr (close_cap c s) = thr s. Proof. destruct c; cbn; auto. apply cgr1. Qed.
Lemma ccr2 c s : pmu (close_cap c s) = pmu s. Proof. destruct c; cbn; auto. apply cgr2. Qed.
Lemma ccr3 c s : pinfl (close_cap c s) = pinfl s. Proof. destruct c; cbn; auto. apply cgr3. Qed.
Lemma ccr4 c s : status (close_cap c s) = status s. Proof. destruct c; cbn; auto. apply cgr4. Qed.
Lemma ccr5 c s : closing (close_cap c s) = closing s. Proof. destruct c; cbn; auto. apply cgr5. Qed.
Lemma ccr6 c s : next_int (close_cap c s) = next_int s. Proof. destruct c; cbn; auto. apply cgr6. Qed.
Lemma hrr c g s : thr (hubrem c g s) = thr s /\ pmu (hubrem c g s) = pmu s /\ pinfl (hubrem c g s) = pinfl s /\
  status (hubrem c g s) = status s /\ closing (hubrem c g s) = closing s /\ next_int (hubrem c g s) = next_int s.
Proof. unfold hubrem. destruct (hub s c); [destruct (_ =? g); [destruct (others s c =? 0)|]|]; cbn; auto 10. Qed.
Lemma hrr1 c g s : thr (hubrem c g s) = thr s. Proof. apply hrr. Qed.
Lemma hrr2 c g s : pmu (hubrem c g s) = pmu s. Proof. apply hrr. Qed.
Lemma hrr3 c g s : pinfl (hubrem c g s) = pinfl s. Proof. apply hrr. Qed.
Lemma hrr4 c g s : status (hubrem c g s) = status s. Proof. apply hrr. Qed.
Lemma hrr5 c g s : closing (hubrem c g s) = closing s. Proof. apply hrr. Qed.
Lemma hrr6 c g s : next_int (hubrem c g s) = next_int s. Proof. apply hrr. Qed.
Ltac rrw := rewrite ?cgr1, ?cgr2, ?cgr3, ?cgr4, ?cgr5, ?cgr6, ?ccr1, ?ccr2, ?ccr3, ?ccr4, ?ccr5, ?ccr6,
                    ?hrr1, ?hrr2, ?hrr3, ?hrr4, ?hrr5, ?hrr6.

Ltac use_eqs := repeat match goal with E : _ = _ |- context [match ?p with _ => _ end] => rewrite E; cbn end.

Ltac flag_tac ET :=
  corer; rrw;
  first [ let X := fresh in intros X; discriminate X
        | intros _; left; cbn; use_eqs; reflexivity
        | let X := fresh in intros X; right; split; [exact X|rewrite ET; cbn; use_eqs; reflexivity] ].

Ltac rstep RI LI ET FR s0 :=
  eapply R_step with (nt := 2 * next_int s0 + 1) (x := new_close);
  [ exact RI | exact LI
  | first [ left; corer; rrw; reflexivity
          | right; split; [corer; rrw; reflexivity|exact FR] ]
  | flag_tac ET
  | flag_tac ET
  | first [ left; corer; rrw; reflexivity | right; left; corer; rrw; reflexivity
          | right; right; rewrite ET; reflexivity ]
  | corer; rrw;
    first [ let X := fresh in intros X; discriminate X
          | intros _; left; cbn; use_eqs; reflexivity
          | intros _; right; left; reflexivity
          | intros _; right; left; match goal with |- status ?s1 = _ => destruct (status s1); try discriminate; reflexivity end
          | let X := fresh in intros X; right; right; split; [exact X|rewrite ET; cbn; use_eqs; reflexivity] ] ].

Lemma R_frame s s' :
  RInv s -> pmu s' = pmu s -> pinfl s' = pinfl s -> closing s' = closing s -> status s' = status s ->
  (forall t0, thr s t0 <> None -> thr s' t0 = thr s t0) -> RInv s'.
Proof.
  intros [R1 R2 R3] E1 E2 E3 E4 OTH.
  assert (KEEP : forall (f : option thread -> bool), f None = false ->
            (exists t0, f (thr s t0) = true) -> exists t0, f (thr s' t0) = true).
  { intros f FN (t0 & F). exists t0. rewrite OTH; auto. intros X. rewrite X in F. congruence. }
  constructor; rewrite ?E1, ?E2, ?E3, ?E4.
  - intros P. apply (KEEP holds_pmu); auto.
  - intros P. apply (KEEP in_tick); auto.
  - intros P. destruct (R3 P) as [C|E]; [left; exact C|right; apply (KEEP at_cl); auto].
Qed.

Lemma astep_R s l s' : RInv s -> LInv s -> InvBS s -> astep s l = Some s' -> RInv s'.
Proof.
  intros RI LI I H.
  assert (FR : thr s (2 * next_int s + 1) = None) by (eapply fresh_int_b; eauto).
  assert (FRE : thr s (2 * next_ext s) = None) by (eapply fresh_ext_b; eauto).
  destruct l; cbn [astep] in H.
  - unfold spawn in H.
    destruct o;
      repeat match type of H with (if ?c then _ else _) = _ => destruct c eqn:? end;
      try discriminate; inv H;
      repeat (match goal with |- context [if ?x then _ else _] => destruct x eqn:? end);
      (eapply R_frame; [exact RI|corer; reflexivity..|]);
      intros t0 NN; corer; try reflexivity; rewrite upd_other; auto; intros ->; first [apply NN; exact FRE|apply NN; exact FR].
  - unfold step_thread in H. destruct (thr s t) as [[a|u|k|k|pc|c]|] eqn:ET; try discriminate.
    + unfold att_step in H.
      destruct (a_pc a) eqn:EPC;
        repeat match type of H with
        | (if ?c then _ else _) = _ => destruct c eqn:?
        | match ?o with Some _ => _ | None => _ end = _ => destruct o eqn:?
        | match ?k with Cli => _ | Srv => _ end = _ => destruct k eqn:?
        end; try discriminate; inv H; cbv zeta;
        repeat (match goal with |- context [if ?x then _ else _] => destruct x eqn:? end);
        repeat (match goal with |- context [match hub ?s0 ?c with Some _ => _ | None => _ end] => destruct (hub s0 c) eqn:? end);
        repeat (match goal with |- context [if ?x then _ else _] => destruct x eqn:? end);
        rstep RI LI ET FR s.
    + destruct (u_step s t u b) as [[s1 ou]|] eqn:EU; [|discriminate]. unfold u_step in EU.
      destruct (u_pc u);
        repeat match type of EU with
        | (if ?c then _ else _) = _ => destruct c eqn:?
        | match ?o with Some _ => _ | None => _ end = _ => destruct o eqn:?
        end; try discriminate; injection EU as EU1 EU2; subst s1 ou; inv H;
        repeat (match goal with |- context [if ?x then _ else _] => destruct x eqn:? end);
        rstep RI LI ET FR s.
    + unfold cls_step in H. destruct (k_pc k) eqn:EPC.
      8:{ destruct (k_cur k) as [u|] eqn:EC.
          - destruct (u_step s t u b) as [[s1 ou]|] eqn:EU; [|discriminate]. unfold u_step in EU.
            destruct (u_pc u);
              repeat match type of EU with
              | (if ?c then _ else _) = _ => destruct c eqn:?
              | match ?o with Some _ => _ | None => _ end = _ => destruct o eqn:?
              end; try discriminate; injection EU as EU1 EU2; subst s1 ou; inv H;
              repeat (match goal with |- context [if ?x then _ else _] => destruct x eqn:? end);
              rstep RI LI ET FR s.
          - destruct (k_rest k); [|destruct b]; inv H; rstep RI LI ET FR s. }
      all: repeat match type of H with (if ?c then _ else _) = _ => destruct c eqn:? end;
           try discriminate; inv H;
           repeat (match goal with |- context [if ?x then _ else _] => destruct x eqn:? end);
           rstep RI LI ET FR s.
    + unfold tck_step in H. destruct b.
      all: destruct (t_pc k) eqn:EPC;
        repeat match type of H with
        | (if ?c then _ else _) = _ => destruct c eqn:?
        | match ?l with [] => _ | _ :: _ => _ end = _ => destruct l
        | match ?o with Some _ => _ | None => _ end = _ => destruct o
        end; try discriminate; inv H;
        repeat (match goal with |- context [if ?x then _ else _] => destruct x eqn:? end);
        rstep RI LI ET FR s.
    + unfold con_step in H. destruct pc;
        repeat match type of H with (if ?c then _ else _) = _ => destruct c eqn:? end;
        try discriminate; inv H;
        repeat (match goal with |- context [if ?x then _ else _] => destruct x eqn:? end);
        rstep RI LI ET FR s.
    + unfold job_step in H. destruct b; inv H; rstep RI LI ET FR s.
  - unfold timeout_thread in H. destruct (thr s t) as [[a|u|k|k|pc|c]|] eqn:ET; try discriminate.
    + destruct (u_timeout s u) as [s1|] eqn:EU; inv H. unfold u_timeout in EU.
      destruct (u_pc u); try discriminate. inv EU.
      destruct (lookup (u_ch u) (chans s)) as [x|]; [destruct (c_gate x)|]; rstep RI LI ET FR s.
    + destruct (k_pc k) eqn:EPC; try discriminate. destruct (k_cur k) as [u|]; try discriminate.
      destruct (u_timeout s u) as [s1|] eqn:EU; inv H. unfold u_timeout in EU.
      destruct (u_pc u); try discriminate. inv EU.
      destruct (lookup (u_ch u) (chans s)) as [x|]; [destruct (c_gate x)|]; rstep RI LI ET FR s.
  - unfold job_start in H. destruct (mem c (jobs s) && negb (slock s c)); [|discriminate].
    destruct (subscribers s c); inv H;
      (eapply R_frame; [exact RI|corer; reflexivity..|]);
      intros t0 NN; corer; try reflexivity; rewrite upd_other; auto; intros ->; apply NN; exact FR.
  - unfold other_add in H. destruct (slock s c); [discriminate|].
    destruct (subscribers s c); [|destruct b]; inv H;
      (eapply R_frame; [exact RI|corer; reflexivity..|]); intros t0 NN; corer; reflexivity.
  - unfold other_rem in H. destruct (slock s c || (others s c =? 0)); [discriminate|].
    destruct ((others s c =? 1) && match hub s c with None => true | Some _ => false end); inv H;
      (eapply R_frame; [exact RI|corer; reflexivity..|]); intros t0 NN; corer; reflexivity.
Qed.

Theorem exec_R l : forall s s', RInv s -> LInv s -> InvBS s -> exec l s = Some s' -> RInv s'.
Proof.
  induction l as [|x l IH]; cbn; intros s s' RI LI I H.
  - inv H. auto.
  - destruct (astep s x) as [s1|] eqn:E; [|discriminate].
    apply (IH s1 s'); auto; [eapply astep_R|eapply astep_L|eapply astep_B]; eauto.
Qed.

(* at rest no lock is held, no tick is in flight, and a started close has closed the connection *)
Theorem settled_flags sched s :
  exec sched init = Some s -> settled s ->
  pmu s = false /\ pinfl s = false /\ (closing s = true -> status s = Closed).
Proof.
  intros E ST. assert (RI : RInv s) by (eapply exec_R; eauto; [apply RInv_init|apply LInv_init|apply InvBS_init]).
  split; [|split].
  - destruct (pmu s) eqn:P; auto. destruct (r_pmu _ RI P) as (t & H). rewrite (ST t) in H. discriminate.
  - destruct (pinfl s) eqn:P; auto. destruct (r_pinfl _ RI P) as (t & H). rewrite (ST t) in H. discriminate.
  - intros P. destruct (r_closing _ RI P) as [C|(t & H)]; auto. rewrite (ST t) in H. discriminate.
Qed.
