(* Proofs for C32 over Model/StreamFraming.v: what the handlers write is read back by
   the standard client parsers as exactly the messages that were queued. *)
From Coq Require Import List PeanoNat NArith Bool Lia ZifyBool.
From Cfg Require Import Model.Decimal Model.StreamFraming.
Import ListNotations.
Open Scope N_scope.

(* ---------- SSE ---------- *)

Lemma crlf_free_cons : forall c l, crlf_free (c :: l) = true ->
  (c =? 10) = false /\ (c =? 13) = false /\ crlf_free l = true.
Proof.
  intros c l H. cbn [crlf_free forallb] in H.
  apply andb_true_iff in H. destruct H as [H1 H2].
  apply andb_true_iff in H1. destruct H1 as [A B].
  rewrite negb_true_iff in A, B. auto.
Qed.

Lemma sse_lines_line : forall line rest cur, crlf_free line = true ->
  sse_lines (line ++ 10 :: rest) cur false = (rev cur ++ line) :: sse_lines rest [] false.
Proof.
  induction line as [|c line IH]; intros rest cur H.
  - cbn [app sse_lines N.eqb Pos.eqb]. now rewrite app_nil_r.
  - destruct (crlf_free_cons _ _ H) as (A & B & C).
    cbn [app sse_lines]. rewrite A, B. rewrite (IH rest (c :: cur) C).
    cbn [rev]. now rewrite <- app_assoc.
Qed.

Lemma sse_lines_msg : forall sm rest, crlf_free sm = true ->
  sse_lines ((sse_data_prefix ++ sm ++ [10; 10]) ++ rest) [] false =
  (sse_data_prefix ++ sm) :: [] :: sse_lines rest [] false.
Proof.
  intros sm rest H.
  replace ((sse_data_prefix ++ sm ++ [10; 10]) ++ rest)
    with ((sse_data_prefix ++ sm) ++ 10 :: ([] ++ 10 :: rest)).
  2:{ rewrite <- !app_assoc. reflexivity. }
  rewrite sse_lines_line.
  - cbn [rev app]. reflexivity.
  - unfold crlf_free in *. rewrite forallb_app, H. reflexivity.
Qed.

Lemma sse_process_msg : forall sm ls,
  sse_process ((sse_data_prefix ++ sm) :: [] :: ls) [] [] [] None =
  mkEv [] sm [] None :: sse_process ls [] [] [] None.
Proof.
  intros sm ls. cbn [sse_process sse_data_prefix app].
  assert (E : split_colon (100 :: 97 :: 116 :: 97 :: 58 :: 32 :: sm) = ([100; 97; 116; 97], Some (32 :: sm)))
    by reflexivity.
  rewrite E. cbv beta iota.
  replace (32 =? 32) with true by reflexivity.
  replace (bytes_eqb [100; 97; 116; 97] f_data) with true by reflexivity.
  cbn [app].
  destruct (sm ++ [10]) as [|x t] eqn:D.
  - destruct sm; discriminate.
  - rewrite <- D. now rewrite removelast_last.
Qed.

Lemma sse_chunk : forall sms,
  Forall (fun sm => crlf_free sm = true) sms ->
  sse_process (sse_lines (flat_map (fun sm => sse_data_prefix ++ sm ++ [10; 10]) sms) [] false) [] [] [] None
  = map (fun sm => mkEv [] sm [] None) sms.
Proof.
  induction 1 as [|sm sms Hsm _ IH]; [reflexivity|].
  cbn [flat_map map]. rewrite sse_lines_msg by exact Hsm.
  rewrite sse_process_msg. now rewrite IH.
Qed.

Lemma strip_cr_crlf_free : forall m, lf_free m = true -> crlf_free (strip_cr m) = true.
Proof.
  induction m as [|c m IH]; intros H; [reflexivity|].
  cbn [lf_free forallb] in H. apply andb_true_iff in H. destruct H as [H1 H2].
  cbn [strip_cr filter]. destruct (c =? 13) eqn:E; cbn [negb].
  - now apply IH.
  - cbn [crlf_free forallb]. rewrite H1, E. cbn [negb andb]. now apply IH.
Qed.

Lemma flat_map_sse_msg : forall msgs,
  flat_map (sse_msg true) msgs =
  flat_map (fun sm => sse_data_prefix ++ sm ++ [10; 10]) (map strip_cr msgs).
Proof. induction msgs as [|m msgs IH]; [reflexivity|]. cbn [flat_map map]. now rewrite IH. Qed.

Lemma strip_bom_chunk : forall fixed msgs,
  strip_bom (flat_map (sse_msg fixed) msgs) = flat_map (sse_msg fixed) msgs.
Proof. intros fixed [|m msgs]; reflexivity. Qed.

Lemma strip_bom_frame : forall fixed msgs, strip_bom (sse_frame fixed msgs) = sse_frame fixed msgs.
Proof. reflexivity. Qed.

(* the part of the body written for a batch of messages *)
Theorem sse_chunk_roundtrip : forall msgs,
  Forall (fun m => lf_free m = true) msgs ->
  sse_parse (flat_map (sse_msg true) msgs) = map (fun m => mkEv [] (strip_cr m) [] None) msgs.
Proof.
  intros msgs H. unfold sse_parse. rewrite strip_bom_chunk, flat_map_sse_msg, sse_chunk.
  - now rewrite map_map.
  - apply Forall_forall. intros sm Hin. apply in_map_iff in Hin. destruct Hin as (m & <- & Hm).
    apply strip_cr_crlf_free. eapply Forall_forall in H; eauto.
Qed.

(* the whole response body, with the "\r\n" the handler writes first *)
Theorem sse_roundtrip : forall msgs,
  Forall (fun m => lf_free m = true) msgs ->
  sse_parse (sse_frame true msgs) = map (fun m => mkEv [] (strip_cr m) [] None) msgs.
Proof.
  intros msgs H. pose proof (sse_chunk_roundtrip msgs H) as C.
  unfold sse_parse in *. rewrite strip_bom_chunk in C. rewrite strip_bom_frame. unfold sse_frame.
  cbn [app sse_lines N.eqb Pos.eqb rev sse_process].
  exact C.
Qed.

(* content: removing raw CRs from a JSON text changes only insignificant whitespace *)
Lemma json_norm_esc : forall s e, json_norm s false e = json_norm s false false.
Proof. destruct s; reflexivity. Qed.
Lemma json_str_clean_esc : forall s e, json_str_clean s false e = json_str_clean s false false.
Proof. destruct s; reflexivity. Qed.

Lemma json_norm_strip_cr : forall m i e,
  json_str_clean m i e = true -> json_norm (strip_cr m) i e = json_norm m i e.
Proof.
  induction m as [|c m IH]; intros i e H; [reflexivity|].
  cbn [strip_cr filter]. fold (strip_cr m).
  destruct (c =? 13) eqn:E13; cbn [negb].
  - apply N.eqb_eq in E13. subst c.
    destruct i.
    + cbn [json_str_clean] in H. discriminate.
    + cbn [json_str_clean json_norm N.eqb Pos.eqb is_ws orb] in *.
      rewrite json_norm_esc. apply IH. exact H.
  - cbn [json_norm json_str_clean] in *.
    destruct i.
    + apply andb_true_iff in H. destruct H as [_ H].
      destruct e; [now rewrite IH|].
      destruct (c =? 92); [now rewrite IH|].
      destruct (c =? 34); now rewrite IH.
    + destruct (c =? 34); [now rewrite IH|].
      destruct (is_ws c); now rewrite IH.
Qed.

Theorem strip_cr_same_json : forall m, json_clean m = true -> normalise (strip_cr m) = normalise m.
Proof. intros m H. now apply json_norm_strip_cr. Qed.

Corollary sse_roundtrip_content : forall msgs,
  Forall (fun m => lf_free m = true) msgs ->
  Forall (fun m => json_clean m = true) msgs ->
  map ev_type (sse_parse (sse_frame true msgs)) = map (fun _ => []) msgs /\
  map (fun e => normalise (ev_data e)) (sse_parse (sse_frame true msgs)) = map normalise msgs.
Proof.
  intros msgs H1 H2. rewrite (sse_roundtrip msgs H1). rewrite !map_map. cbn [ev_type ev_data].
  split; [reflexivity|].
  apply map_ext_in. intros m Hin. apply strip_cr_same_json. eapply Forall_forall in H2; eauto.
Qed.

(* before the fix a raw CR in JSON whitespace cuts the event short (finding F8) *)
Lemma sse_unfixed_refuted :
  exists msgs,
    Forall (fun m => lf_free m = true) msgs /\ Forall (fun m => json_clean m = true) msgs /\
    map (fun e => normalise (ev_data e)) (sse_parse (sse_frame false msgs)) <> map normalise msgs.
Proof.
  exists [[123; 34; 97; 34; 58; 13; 49; 125]].         (* {"a":<CR>1} *)
  split; [repeat constructor|]. split; [repeat constructor|].
  vm_compute. discriminate.
Qed.

(* ---------- NDJSON ---------- *)

Lemma nd_lines_line : forall line rest cur, lf_free line = true ->
  nd_lines (line ++ 10 :: rest) cur = (rev cur ++ line) :: nd_lines rest [].
Proof.
  induction line as [|c line IH]; intros rest cur H.
  - cbn [app nd_lines N.eqb Pos.eqb]. now rewrite app_nil_r.
  - cbn [lf_free forallb] in H. apply andb_true_iff in H. destruct H as [A C].
    rewrite negb_true_iff in A.
    cbn [app nd_lines]. rewrite A. rewrite (IH rest (c :: cur) C).
    cbn [rev]. now rewrite <- app_assoc.
Qed.

Theorem ndjson_roundtrip : forall msgs,
  Forall (fun m => lf_free m = true) msgs -> ndjson_parse (json_frame msgs) = msgs.
Proof.
  unfold ndjson_parse, json_frame.
  induction 1 as [|m msgs Hm _ IH]; [reflexivity|].
  cbn [flat_map]. rewrite <- app_assoc. cbn [app].
  rewrite nd_lines_line by exact Hm. cbn [rev app]. now rewrite IH.
Qed.

(* ---------- length-delimited protobuf ---------- *)

Lemma read_uvarint_uvarint : forall fuel n rest shift acc,
  n < 2 ^ (7 * N.of_nat fuel) -> (fuel > 0)%nat ->
  read_uvarint fuel (uvarint fuel n ++ rest) shift acc = Some (acc + n * 2 ^ shift, rest).
Proof.
  induction fuel as [|k IH]; intros n rest shift acc Hn Hf; [lia|].
  cbn [uvarint read_uvarint].
  destruct (n <? 128) eqn:E.
  - cbn [app]. rewrite E. reflexivity.
  - cbn [app].
    pose proof (N.div_mod n 128 ltac:(discriminate)) as DM.
    assert (Hm : n mod 128 < 128) by (apply N.mod_lt; discriminate).
    assert (Hk : (k > 0)%nat).
    { destruct k; [|lia]. cbn in Hn. lia. }
    assert (Hn' : n / 128 < 2 ^ (7 * N.of_nat k)).
    { apply N.div_lt_upper_bound; [discriminate|].
      replace (7 * N.of_nat (S k)) with (7 + 7 * N.of_nat k) in Hn by lia.
      rewrite N.pow_add_r in Hn. exact Hn. }
    set (q := n / 128) in *. set (r := n mod 128) in *.
    replace (r + 128 <? 128) with false by lia.
    rewrite (IH q rest (shift + 7) _ Hn' Hk). f_equal. f_equal.
    replace (r + 128 - 128) with r by lia.
    rewrite N.pow_add_r. set (P := 2 ^ shift).
    rewrite DM. change (2 ^ 7) with 128. ring.
Qed.

Lemma uvarint_nonempty : forall k n, uvarint (S k) n <> [].
Proof. intros k n. cbn [uvarint]. destruct (n <? 128); discriminate. Qed.

Definition pb_small (m : bytes) : Prop := N.of_nat (length m) < 2 ^ 56.

Lemma pb_parse_frame : forall msgs fuel,
  Forall pb_small msgs -> (length msgs <= fuel)%nat ->
  pb_parse fuel (pb_frame msgs) = Some msgs.
Proof.
  induction msgs as [|m msgs IH]; intros fuel H Hf.
  - destruct fuel; reflexivity.
  - inversion H as [|? ? Hm Hms]; subst.
    destruct fuel as [|k]; [cbn in Hf; lia|].
    cbn [pb_frame flat_map]. fold (pb_frame msgs).
    unfold pb_msg at 1. rewrite <- app_assoc.
    destruct (uvarint 10 (N.of_nat (length m)) ++ m ++ pb_frame msgs) as [|x t] eqn:D.
    { exfalso. destruct (uvarint 10 (N.of_nat (length m))) eqn:U; [|discriminate].
      now apply uvarint_nonempty in U. }
    cbn [pb_parse]. rewrite <- D.
    rewrite read_uvarint_uvarint; [|unfold pb_small in Hm; cbn; lia|lia].
    cbn [N.add]. rewrite N.mul_1_r. rewrite Nat2N.id.
    replace (Nat.ltb (length (m ++ pb_frame msgs)) (length m)) with false.
    2:{ symmetry. apply Nat.ltb_ge. rewrite app_length. lia. }
    assert (S1 : skipn (length m) (m ++ pb_frame msgs) = pb_frame msgs).
    { clear. induction m; cbn; auto. }
    assert (S2 : firstn (length m) (m ++ pb_frame msgs) = m).
    { clear. induction m; cbn; [reflexivity | now rewrite IHm]. }
    rewrite S1, S2. rewrite (IH k Hms) by (cbn in Hf; lia). reflexivity.
Qed.

Lemma pb_frame_length : forall msgs, (length msgs <= length (pb_frame msgs))%nat.
Proof.
  induction msgs as [|m msgs IH]; [cbn; lia|].
  cbn [pb_frame flat_map length]. fold (pb_frame msgs). rewrite app_length.
  unfold pb_msg. rewrite app_length.
  assert (1 <= length (uvarint 10 (N.of_nat (length m))))%nat.
  { cbn [uvarint]. destruct (_ <? 128); cbn [length]; lia. }
  lia.
Qed.

Theorem pb_roundtrip : forall msgs,
  Forall pb_small msgs ->
  pb_parse (S (length (pb_frame msgs))) (pb_frame msgs) = Some msgs.
Proof.
  intros msgs H. apply pb_parse_frame; [exact H|]. pose proof (pb_frame_length msgs). lia.
Qed.

(* ---------- batches: several messages per write ---------- *)

Lemma flat_map_batches : forall (f : bytes -> bytes) (bs : list (list bytes)),
  flat_map (fun b => flat_map f b) bs = flat_map f (concat bs).
Proof.
  intros f. induction bs as [|b bs IH]; [reflexivity|].
  cbn [flat_map concat]. now rewrite flat_map_app, IH.
Qed.

Lemma Forall_concat : forall (P : bytes -> Prop) bs,
  Forall (Forall P) bs -> Forall P (concat bs).
Proof.
  intros P bs H. induction H as [|b bs Hb _ IH]; [constructor|].
  cbn [concat]. apply Forall_app. now split.
Qed.

Theorem sse_batches_roundtrip : forall batches,
  Forall (Forall (fun m => lf_free m = true)) batches ->
  sse_parse (sse_body true batches) = map (fun m => mkEv [] (strip_cr m) [] None) (concat batches).
Proof.
  intros bs H. unfold sse_body. rewrite flat_map_batches.
  apply (sse_roundtrip (concat bs)). now apply Forall_concat.
Qed.

Theorem json_batches_roundtrip : forall batches,
  Forall (Forall (fun m => lf_free m = true)) batches ->
  ndjson_parse (json_body batches) = concat batches.
Proof.
  intros bs H. unfold json_body, json_frame. rewrite flat_map_batches.
  apply (ndjson_roundtrip (concat bs)). now apply Forall_concat.
Qed.

Theorem pb_batches_roundtrip : forall batches,
  Forall (Forall pb_small) batches ->
  pb_parse (S (length (pb_body batches))) (pb_body batches) = Some (concat batches).
Proof.
  intros bs H. unfold pb_body, pb_frame. rewrite flat_map_batches.
  apply (pb_roundtrip (concat bs)). now apply Forall_concat.
Qed.

(* the fields the handler never writes keep their initial values *)
Lemma sse_no_id_retry : forall msgs,
  Forall (fun m => lf_free m = true) msgs ->
  Forall (fun e => ev_id e = [] /\ ev_retry e = None /\ ev_type e = []) (sse_parse (sse_frame true msgs)).
Proof.
  intros msgs H. rewrite (sse_roundtrip msgs H). apply Forall_forall.
  intros e He. apply in_map_iff in He. destruct He as (m & <- & _). auto.
Qed.
