(* C30 proofs: any sequence of write operations on a connection with or without permessage-deflate,
   write compression switched per message: the strict decoder reads what was written. *)
From Coq Require Import String List NArith Bool Arith Lia ZifyN ZifyNat.
From Cfg Require Import Gen.WsConst Model.WsUtf8 Model.WsFrame Model.WsReadSpec Model.WsWrite Model.WsWriteSpec
     Proofs.WsLib Proofs.WsReadA Proofs.WsReadC Proofs.WsWriteA Proofs.WsWriteB Proofs.WsWriteC Proofs.WsWriteG Proofs.WsWriteH Proofs.WsWriteI Proofs.WsWriteZ.
Import ListNotations.
Open Scope N_scope.

Section SeqT.
  Variable ok : N -> bool.
  Variable infl : bytes -> option bytes.
  Variable cfg : wcfg.                          (* wc_compress cfg = permessage-deflate negotiated *)
  Hypothesis Hcap : c_maxFrameHeaderSize < wc_buf cfg.

  Let zneg : bool := wc_compress cfg.
  Let run := spec_run (S0 ok) (peerz (negb (wc_server cfg)) zneg) infl.
  Definition cfg_t (t : bool) : wcfg := mkWcfg (wc_server cfg) (wc_buf cfg) (wc_compress cfg && t).

  (* the contract of compress/flate for one message: the chunks are a stream ending in a sync flush,
     and the decoder's inflate gives the message back *)
  Definition flate_contract (data : bytes) (zs : list bytes) : Prop :=
    exists body, concat zs = body ++ flate_sync_tail /\ infl body = Some data /\ N.of_nat (length body) < two63.

  Definition op_ok_t (t : bool) (o : wop) : Prop :=
    if wc_compress cfg && t then
      match o with
      | OpZ typ data zs => is_data typ /\ flate_contract data zs /\ (typ = 1 -> utf8_valid data = true)
      | OpPreparedZ typ data zs pkeys =>
          is_data typ /\ flate_contract data zs /\ (typ = 1 -> utf8_valid data = true) /\ keys_ok pkeys
      | OpControl typ d => typ = 8 -> close_payload_ok ok d
      | _ => is_data (op_type o)          (* data messages go through flate: the plain forms do not apply *)
      end
    else op_ok ok o.

  Lemma cap_t : forall t, c_maxFrameHeaderSize < wc_buf (cfg_t t).
  Proof. intro t. exact Hcap. Qed.

  Lemma data_is_data_type : forall typ, is_data typ -> is_data_type typ = true.
  Proof. intros typ [-> | ->]; reflexivity. Qed.

  Lemma op_decode_t : forall t keys o wire keys' sent' e,
      keys_ok keys -> op_ok_t t o ->
      write_op (cfg_t t) keys false o = (wire, keys', sent', e) ->
      keys_ok keys'
      /\ match e with
         | Some _ => wire = [] /\ sent' = false
         | None =>
             (sent' = true /\ exists out, message_events (op_type o) (op_data o) = [SEnd out]
                                         /\ forall rest, run None (wire ++ rest) = [SEnd out])
             \/ (sent' = false /\ no_end (message_events (op_type o) (op_data o))
                 /\ forall rest, run None (wire ++ rest) = message_events (op_type o) (op_data o) ++ run None rest)
         end.
  Proof.
    intros t keys o wire keys' sent' e Hk Hok E. unfold write_op in E. unfold op_ok_t in Hok.
    change (wc_compress (cfg_t t)) with (wc_compress cfg && t) in E.
    assert (Hdata : forall ty d w, is_data ty ->
               (forall rest, run None (w ++ rest) = SMsg ty d :: run None rest) ->
               (ty =? c_CloseMessage) = false
               /\ no_end (message_events ty d)
               /\ forall rest, run None (w ++ rest) = message_events ty d ++ run None rest).
    { intros ty d w Hd D. split; [destruct Hd as [-> | ->]; reflexivity|].
      assert (Em : message_events ty d = [SMsg ty d]) by (destruct Hd as [-> | ->]; reflexivity).
      rewrite Em. split; [intros o' [Hi|[]]; discriminate|exact D]. }
    assert (Hctl : forall ty d, (ty = 8 -> close_payload_ok ok d) ->
               match (match write_control (cfg_t t) keys ty d with
                      | inl (wire0, keys0) => (wire0, keys0, ty =? c_CloseMessage, @None werr)
                      | inr e0 => ([], keys, false, Some e0)
                      end) with
               | (wire1, keys1, sent1, e1) =>
                   keys_ok keys1 /\
                   match e1 with
                   | Some _ => wire1 = [] /\ sent1 = false
                   | None =>
                       (sent1 = true /\ exists out, message_events ty d = [SEnd out] /\ forall rest, run None (wire1 ++ rest) = [SEnd out])
                       \/ (sent1 = false /\ no_end (message_events ty d)
                           /\ forall rest, run None (wire1 ++ rest) = message_events ty d ++ run None rest)
                   end
               end).
    { intros ty d Hc. destruct (write_control (cfg_t t) keys ty d) as [[w k']|err] eqn:Ew.
      - destruct (control_decode_z ok infl (cfg_t t) zneg (cap_t t) keys ty d w k' Hk Ew Hc) as [K [Ht D]].
        split; [exact K|]. unfold c_CloseMessage.
        destruct Ht as [-> | [-> | ->]].
        + left. split; [reflexivity|].
          assert (Ex : exists out, message_events 8 d = [SEnd out]).
          { unfold message_events. simpl. destruct d as [|a [|b text]]; eexists; reflexivity. }
          destruct Ex as [out Eo]. exists out. split; [exact Eo|]. intro rest. rewrite <- Eo. apply (D rest).
        + right. split; [reflexivity|]. split; [intros o' [Hi|[]]; discriminate|]. intro rest. apply (D rest).
        + right. split; [reflexivity|]. split; [intros o' []|]. intro rest. apply (D rest).
      - split; [exact Hk|]. split; reflexivity. }
    destruct (wc_compress cfg && t) eqn:Zt.
    - (* write compression on *)
      assert (Hzn : zneg = true) by (unfold zneg; apply andb_true_iff in Zt as [Hz _]; exact Hz).
      destruct o as [ty d|ty cs|ty d|ty d pkeys|ty d zs|ty d zs pkeys]; simpl in Hok.
      + rewrite (data_is_data_type ty Hok) in E. simpl in E. inversion E; subst. split; [exact Hk|]. split; reflexivity.
      + rewrite (data_is_data_type ty Hok) in E. simpl in E. inversion E; subst. split; [exact Hk|]. split; reflexivity.
      + specialize (Hctl ty d Hok). simpl andb in E. rewrite E in Hctl. exact Hctl.
      + rewrite (data_is_data_type ty Hok) in E. simpl in E. inversion E; subst. split; [exact Hk|]. split; reflexivity.
      + destruct Hok as [Hd [[body [Hzs [Hinf Hlen]]] Hutf]].
        rewrite (data_is_data_type ty Hd) in E. simpl andb in E. cbv iota in E.
        destruct (streamz_decode ok infl (cfg_t t) zneg (cap_t t) keys ty zs body d Hzn Hk Hd Hzs Hinf Hlen Hutf) as [w [k' [Ew [K D]]]].
        rewrite Ew in E. destruct (Hdata ty d w Hd D) as [Hs [Hne D']]. rewrite Hs in E.
        inversion E; subst. split; [exact K|]. right. split; [reflexivity|]. split; [exact Hne|exact D'].
      + destruct Hok as [Hd [[body [Hzs [Hinf Hlen]]] [Hutf Hpk]]].
        rewrite (data_is_data_type ty Hd) in E. simpl andb in E. cbv iota in E.
        destruct (streamz_decode ok infl (prepared_cfg (cfg_t t)) zneg (prepared_cap (cfg_t t)) pkeys ty zs body d Hzn Hpk Hd Hzs Hinf Hlen Hutf)
          as [w [k' [Ew [K D]]]].
        rewrite Ew in E. destruct (Hdata ty d w Hd D) as [Hs [Hne D']]. rewrite Hs in E.
        inversion E; subst. split; [exact Hk|]. right. split; [reflexivity|]. split; [exact Hne|exact D'].
    - (* write compression off for this message *)
      simpl andb in E. cbv iota in E.
      assert (Hnz : wc_compress (cfg_t t) = false) by exact Zt.
      destruct o as [ty d|ty cs|ty d|ty d pkeys|ty d zs|ty d zs pkeys]; simpl in Hok.
      + destruct Hok as [Hd [Hlen Hutf]].
        destruct (message_decode_z ok infl (cfg_t t) zneg (cap_t t) keys ty d Hnz Hk Hd Hlen Hutf) as [w [k' [Ew [K D]]]].
        rewrite Ew in E. destruct (Hdata ty d w Hd D) as [Hs [Hne D']]. rewrite Hs in E.
        inversion E; subst. split; [exact K|]. right. split; [reflexivity|]. split; [exact Hne|exact D'].
      + destruct Hok as [Hd [Hlen Hutf]].
        destruct (stream_decode_z ok infl (cfg_t t) zneg (cap_t t) keys ty cs Hk Hd Hlen Hutf) as [w [k' [Ew [K D]]]].
        rewrite Ew in E. destruct (Hdata ty (flat_map chunk_bytes cs) w Hd D) as [Hs [Hne D']]. rewrite Hs in E.
        inversion E; subst. split; [exact K|]. right. split; [reflexivity|]. split; [exact Hne|exact D'].
      + specialize (Hctl ty d Hok). rewrite E in Hctl. exact Hctl.
      + destruct Hok as [Hd [Hlen [Hutf Hpk]]].
        destruct (message_decode_z ok infl (prepared_cfg (cfg_t t)) zneg (prepared_cap (cfg_t t)) pkeys ty d Hnz Hpk Hd Hlen Hutf)
          as [w [k' [Ew [K D]]]].
        rewrite Ew in E. destruct (Hdata ty d w Hd D) as [Hs [Hne D']]. rewrite Hs in E.
        inversion E; subst. split; [exact Hk|]. right. split; [reflexivity|]. split; [exact Hne|exact D'].
      + inversion E; subst. split; [exact Hk|]. split; reflexivity.
      + inversion E; subst. split; [exact Hk|]. split; reflexivity.
  Qed.

  Lemma write_all_t_sent : forall ops keys,
      fst (write_all_t cfg keys true ops) = [] /\ Forall (fun e => is_none e = false) (snd (write_all_t cfg keys true ops)).
  Proof.
    induction ops as [|[t o] ops IH]; intro keys; simpl; [split; [reflexivity|constructor]|].
    destruct (IH keys) as [I1 I2]. destruct (write_all_t cfg keys true ops) as [w es]. simpl in *. subst w.
    split; [reflexivity|]. constructor; [reflexivity|exact I2].
  Qed.

  (* Any sequence of write operations, compressed and plain messages mixed: the strict RFC decoder
     with the same extension negotiated reads exactly the messages whose write returned nil. *)
  Theorem roundtrip_t : forall ops keys,
      keys_ok keys -> Forall (fun to => op_ok_t (fst to) (snd to)) ops ->
      run None (fst (write_all_t cfg keys false ops))
      = close_at_end (ops_events (map snd ops) (map is_none (snd (write_all_t cfg keys false ops)))).
  Proof.
    induction ops as [|[t o] ops IH]; intros keys Hk Hok; [reflexivity|].
    inversion Hok as [|? ? Ho Hops]; subst. simpl in Ho.
    cbn [write_all_t map snd]. fold (cfg_t t).
    destruct (write_op (cfg_t t) keys false o) as [[[wire keys'] sent'] e] eqn:Eo.
    destruct (op_decode_t t keys o wire keys' sent' e Hk Ho Eo) as [K R].
    destruct e as [err|].
    - destruct R as [-> ->]. specialize (IH keys' K Hops).
      destruct (write_all_t cfg keys' false ops) as [w es]. simpl in *. exact IH.
    - destruct R as [[-> [out [Em D]]]|[-> [Hne D]]].
      + destruct (write_all_t_sent ops keys') as [W1 W2].
        destruct (write_all_t cfg keys' true ops) as [w es]. simpl in *. subst w.
        rewrite D. rewrite Em. rewrite (ops_events_all_failed (map snd ops) es W2). reflexivity.
      + specialize (IH keys' K Hops).
        destruct (write_all_t cfg keys' false ops) as [w es]. simpl in *.
        rewrite D. rewrite IH. rewrite close_at_end_app_noend by exact Hne. reflexivity.
  Qed.
End SeqT.

(* ---------------------------------------------------------------- the library contract as one pair of functions *)

Definition op_ok_flate (ok : N -> bool) (cfg : wcfg) (deflate : bytes -> bytes) (t : bool) (o : wop) : Prop :=
  if wc_compress cfg && t then
    match o with
    | OpZ typ data zs =>
        is_data typ /\ concat zs = deflate data /\ N.of_nat (length (deflate data)) < two63 /\ (typ = 1 -> utf8_valid data = true)
    | OpPreparedZ typ data zs pkeys =>
        is_data typ /\ concat zs = deflate data /\ N.of_nat (length (deflate data)) < two63 /\ (typ = 1 -> utf8_valid data = true)
        /\ keys_ok pkeys
    | OpControl typ d => typ = 8 -> close_payload_ok ok d
    | _ => is_data (op_type o)
    end
  else op_ok ok o.

Section Flate.
  Variable ok : N -> bool.
  Variable deflate : bytes -> bytes.            (* flate.Writer: Write(x) + Flush(), the bytes it emits *)
  Variable inflate : bytes -> option bytes.     (* RFC 7692 7.2.2: append 00 00 ff ff, inflate *)
  Hypothesis flate_ok : forall x, exists body, deflate x = body ++ flate_sync_tail /\ inflate body = Some x.
  Variable cfg : wcfg.
  Hypothesis Hcap : c_maxFrameHeaderSize < wc_buf cfg.

  Lemma op_ok_flate_t : forall t o, op_ok_flate ok cfg deflate t o -> op_ok_t ok inflate cfg t o.
  Proof.
    intros t o H. unfold op_ok_flate in H. unfold op_ok_t.
    destruct (wc_compress cfg && t); [|exact H].
    assert (Hc : forall data zs, concat zs = deflate data -> N.of_nat (length (deflate data)) < two63 ->
                                 flate_contract inflate data zs).
    { intros data zs Hz Hl. destruct (flate_ok data) as [body [Hb Hi]]. exists body.
      split; [rewrite Hz; exact Hb|]. split; [exact Hi|]. rewrite Hb, app_length in Hl. lia. }
    destruct o; try exact H.
    - destruct H as [Hd [Hz [Hl Hu]]]. split; [exact Hd|]. split; [apply Hc; assumption|exact Hu].
    - destruct H as [Hd [Hz [Hl [Hu Hp]]]]. split; [exact Hd|]. split; [apply Hc; assumption|]. split; assumption.
  Qed.

  Theorem roundtrip_flate : forall ops keys,
      keys_ok keys -> Forall (fun to => op_ok_flate ok cfg deflate (fst to) (snd to)) ops ->
      spec_run (S0 ok) (peerz (negb (wc_server cfg)) (wc_compress cfg)) inflate None (fst (write_all_t cfg keys false ops))
      = close_at_end (ops_events (map snd ops) (map is_none (snd (write_all_t cfg keys false ops)))).
  Proof.
    intros ops keys Hk Hok. apply roundtrip_t; [exact Hcap|exact Hk|].
    eapply Forall_impl; [|exact Hok]. intros [t o] H. apply op_ok_flate_t. exact H.
  Qed.
End Flate.
