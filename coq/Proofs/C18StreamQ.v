(* C18, stream storage: assembling the Publish-with-history step. *)
From Coq Require Import List NArith ZArith Bool String Ascii Lia.
From Cfg Require Import Model.RStr Model.LuaNum Model.Redis Model.RedisScripts Model.BrokerApi18
                        Model.RedisBroker Model.MemBroker18 Proofs.C18Lib Proofs.C18Redis Proofs.C18Stream
                        Proofs.C18StreamH Proofs.C18StreamP.
Import ListNotations.
Open Scope string_scope.

Lemma in_skipn {A} n (l : list A) x : In x (skipn n l) -> In x l.
Proof.
  revert l. induction n as [|n IH]; intros l H; [exact H|]. destruct l as [|a l]; [exact H|]. right. apply IH. exact H.
Qed.

Lemma stream_inv_after s1 data sz v vepn :
  stream_inv s1 -> (ms_top s1 + 1 < BOUND)%N -> (0 < sz)%Z -> (v < 9007199254740992)%N ->
  (N.of_nat (String.length data) < 2147483647)%N ->
  stream_inv (fst (stream_add s1 data sz v vepn)).
Proof.
  intros (H1 & H2 & H3 & Hd & lo & Hlo & Hc) Ht Hsz Hv Hdata.
  unfold stream_inv. cbn [stream_add fst ms_epoch ms_top ms_ver ms_items].
  split; [assumption|]. split; [assumption|].
  split; [destruct (0 <? v)%N; assumption|].
  split.
  - intros it Hin. apply in_skipn in Hin. apply in_app_or in Hin as [Hin|[<-|[]]]; [apply Hd; assumption | exact Hdata].
  - destruct (contig_after _ _ _ data sz Hc Hsz) as (lo' & Hlo' & Hc'). exists lo'. split; [lia|]. exact Hc'.
Qed.

Lemma top0_items s : stream_inv s -> ms_top s = 0%N -> ms_items s = [].
Proof.
  intros (_ & _ & _ & _ & lo & Hlo & Hc) H0. pose proof (contig_length _ _ _ Hc) as Hl.
  destruct (ms_items s); [reflexivity|]. cbn [List.length] in Hl. lia.
Qed.

Lemma strm_rel_nonempty st c items top :
  items <> [] ->
  (exists x, getk st (stream_key c) = Some (mkKey (VStream (map enc_item items) (top, 0%N)) x)) ->
  strm_rel st c items top.
Proof. intros Hne H. unfold strm_rel. destruct items; [congruence|exact H]. Qed.

Lemma cache_save_now m c o pos : m_now (cache_save m c o pos) = m_now m.
Proof. unfold cache_save. destruct (String.eqb (po_idem o) ""); reflexivity. Qed.
Lemma cache_save_streams m c o pos : m_streams (cache_save m c o pos) = m_streams m.
Proof. unfold cache_save. destruct (String.eqb (po_idem o) ""); reflexivity. Qed.

Lemma step_publish_hist U P cfg rs ms c data o nonce :
  cfg_ok cfg = true -> keys_ok U P -> In c U -> (po_idem o = "" \/ In (c, po_idem o) P) -> R U P rs ms ->
  op_ok ms (OpPublish c data o nonce) = true -> history_on o = true ->
  step_goal U P cfg rs ms (OpPublish c data o nonce).
Proof.
  intros Hcfg HK Hc Hidem HR Hok Hh.
  cbn [op_ok] in Hok. repeat (apply andb_true_iff in Hok as [Hok ?]).
  rename H into Htop, H0 into Hdata, H1 into Hnonce, H2 into Hpo.
  apply negb_true_iff in Hok. apply String.eqb_neq in Hok. rename Hok into Hcne.
  apply N.ltb_lt in Htop, Hdata.
  unfold popts_ok in Hpo. repeat (apply andb_true_iff in Hpo as [Hpo ?]).
  rename H into Hidh, H0 into Hver, H1 into Hidttl, H2 into Hmttl, H3 into Httl.
  apply Z.ltb_lt in Hpo, Httl. apply N.ltb_lt in Hver.
  unfold history_on in Hh. apply andb_true_iff in Hh as [Hsz0 Httl0]. apply Z.ltb_lt in Hsz0, Httl0.
  pose proof (small_meta _ _ Hcfg Hmttl) as Hmz.
  pose proof (cfg_ok_lists _ Hcfg) as Hl.
  assert (Hnow : now rs = 0%N) by apply (R_now _ _ _ _ HR).
  assert (Hmnow : m_now ms = 0%N) by apply (R_mnow _ _ _ _ HR).
  assert (Hsm : stream_key c <> meta_key false c) by (apply (K_sm _ _ HK); assumption).
  set (k := po_idem o) in *.
  unfold step_goal, rb_step, rb_publish.
  unfold history_on. replace ((0 <? po_size o)%Z && (0 <? po_ttl o)%Z)%bool with true
    by (symmetry; apply andb_true_iff; split; apply Z.ltb_lt; assumption).
  cbn [negb]. rewrite Hl. unfold publish_keys. rewrite Hl. rewrite publish_args_eq by assumption.
  change (s_add_stream shallow) with (fun K A => runM (sh_add_stream K A)). cbn beta.
  rewrite sh_add_stream_eq. rewrite result_expire_rzo. fold k.
  cbn [mb_step]. unfold mb_publish. fold k.
  replace ((0 <? po_size o)%Z && (0 <? po_ttl o)%Z)%bool with true
    by (symmetry; apply andb_true_iff; split; apply Z.ltb_lt; assumption).
  (* ---- idempotency pre-check ---- *)
  assert (Hcache :
    (exists off ep, k <> "" /\ cache_get ms c k = Some (off, ep) /\ (off < BOUND)%N /\
       cached_result (result_key c k) (match rzo_of o with Some rz => itoa rz | None => "" end) (clear_outbox rs)
         = (clear_outbox rs, inl (Some (RBulk (dec off), ep)))) \/
    ((if String.eqb k "" then None else cache_get ms c k) = None /\
     cached_result (result_key c k) (match rzo_of o with Some rz => itoa rz | None => "" end) (clear_outbox rs)
       = (clear_outbox rs, inl None) /\
     (forall rz, rzo_of o = Some rz ->
        getk rs (result_key c k) = None \/ exists hr x, getk rs (result_key c k) = Some (mkKey (VHash hr) x)))).
  { unfold rzo_of. fold k. destruct (String.eqb k "") eqn:Ek.
    - right. split; [reflexivity|]. split; [reflexivity|]. intros rz X. discriminate X.
    - apply String.eqb_neq in Ek. destruct Hidem as [Hidem|Hidem]; [contradiction|].
      pose proof (R_cache _ _ _ _ HR c k Hidem) as Hcr. unfold cache_rel in Hcr.
      assert (Hrne : itoa (if (po_idem_ttl o =? 0)%Z then default_idem_ttl else po_idem_ttl o) <> "").
      { apply small_range in Hidttl. rewrite itoa_nonneg by (destruct (po_idem_ttl o =? 0)%Z; unfold default_idem_ttl; lia).
        apply dec_nonempty. }
      destruct (cache_get ms c k) as [[off ep]|] eqn:Ecg.
      + left. destruct Hcr as (hr & x & Hg & He & Hs & Hb). exists off, ep.
        split; [assumption|]. split; [reflexivity|]. split; [assumption|].
        rewrite (cached_hit _ _ (clear_outbox rs) hr x ep Hrne Hg He). rewrite Hs. reflexivity.
      + right. split; [reflexivity|]. split; [apply cached_miss; assumption|].
        intros rz _. left. exact Hcr. }
  destruct Hcache as [(off & ep & Hkne & Hcg & Hoff & Hcr) | (Hcg & Hcr & Hrkst)].
  { (* served from the idempotency cache *)
    unfold runM, bindM at 1. rewrite Hcr. cbn iota beta. unfold finish.
    apply String.eqb_neq in Hkne. rewrite Hkne, Hcg.
    rewrite parse_pub_cached by assumption. cbn [clear_outbox outbox deliveries].
    split; [reflexivity|]. destruct HR. constructor; assumption. }
  rewrite Hcg. unfold runM, bindM at 1. rewrite Hcr. cbn iota beta.
  (* ---- meta hash ---- *)
  destruct (pre_state U P rs ms c nonce HK Hc HR Hnonce) as (st1 & h1 & x1 & Hce & Hg1 & Hh1 & Hs1 & Hf1 & Hn1 & Ho1 & Hinv1).
  cbn zeta in Hce. unfold bindM at 1. rewrite Hce. cbn iota beta.
  set (s1 := s1_of ms c nonce) in *.
  assert (Ht1 : (ms_top s1 < BOUND)%N) by (destruct Hinv1 as (_ & H & _); exact H).
  assert (Hv1 : (ms_ver s1 < 9007199254740992)%N) by (destruct Hinv1 as (_ & _ & H & _); exact H).
  assert (Htop' : (ms_top s1 + 1 < BOUND)%N).
  { unfold top_of in Htop. unfold s1, s1_of. destruct (sfind c (m_streams ms)); [exact Htop|exact Htop]. }
  destruct (hub_add_spec cfg ms c data o nonce) as (m' & Hmc & Hmn & Hadd). cbn zeta in Hadd. fold s1 in Hadd.
  set (v := po_version o) in *. set (vepn := po_vepoch o) in *.
  set (skip := ((0 <? v)%N && mem_skip v vepn (ms_ver s1) (ms_vepoch s1))%bool) in *.
  set (ver' := if (0 <? v)%N then v else ms_ver s1).
  set (vep' := if (0 <? v)%N then vepn else ms_vepoch s1).
  assert (Hvb :
    (skip = true /\
     version_block (meta_key false c) (vstr v) vepn (ms_epoch s1) st1
       = (st1, inr (RArr [RInt (Z.of_N (ms_top s1)); RBulk (ms_epoch s1); RBulk "0"; RBulk "1"]))) \/
    (skip = false /\ exists st2 h2 x2,
       version_block (meta_key false c) (vstr v) vepn (ms_epoch s1) st1 = (st2, inl tt) /\
       getk st2 (meta_key false c) = Some (mkKey (VHash h2) x2) /\
       hash_ok h2 (ms_epoch s1) (ms_top s1) ver' vep' /\
       (forall k0, k0 <> meta_key false c -> getk st2 k0 = getk st1 k0) /\
       now st2 = now st1 /\ outbox st2 = outbox st1)).
  { destruct (version_block_spec st1 (meta_key false c) h1 x1 (ms_epoch s1) (ms_top s1) (ms_ver s1) (ms_vepoch s1)
                v vepn Hg1 Hh1 Ht1 Hv1 Hver)
      as [(Hv0 & Hvb) | [(Hvpos & Hskip & Hvb) | (Hvpos & Hskip & h2 & Hvb & Hh2)]].
    - right. unfold skip, ver', vep'. rewrite Hv0. cbn [N.ltb N.compare andb]. split; [reflexivity|].
      exists st1, h1, x1. rewrite Hv0 in Hvb.
      split; [exact Hvb|]. split; [exact Hg1|]. split; [exact Hh1|]. split; [reflexivity|]. split; reflexivity.
    - left. unfold skip. replace (0 <? v)%N with true by (symmetry; apply N.ltb_lt; assumption).
      rewrite Hskip. split; [reflexivity|assumption].
    - right. unfold skip, ver', vep'. replace (0 <? v)%N with true by (symmetry; apply N.ltb_lt; assumption).
      rewrite Hskip. split; [reflexivity|].
      exists (setval st1 (meta_key false c) (VHash h2)), h2, (exp_of (getk st1 (meta_key false c))).
      split; [assumption|]. split; [apply getk_setval_same|]. split; [assumption|].
      split; [intros k0 Hk0; apply getk_setval_other; assumption|]. split; reflexivity. }
  destruct Hvb as [(Hskip & Hvb) | (Hskip & st2 & h2 & x2 & Hvb & Hg2 & Hh2 & Hf2 & Hn2 & Ho2)].
  - (* suppressed by version *)
    unfold bindM at 1. rewrite Hvb. cbn iota beta.
    rewrite Hskip in Hadd. destruct Hadd as [Hadd Hstr]. rewrite Hadd. cbn iota beta.
    rewrite parse_pub_skip by assumption. rewrite Ho1. cbn [clear_outbox outbox deliveries position fst snd].
    split; [reflexivity|].
    apply (R_update U P rs ms _ _ c "" (Some s1)); try assumption.
    + left; reflexivity.
    + cbn. congruence.
    + congruence.
    + intros key H1 _ _. change (getk st1 key = getk rs key). apply Hf1. assumption.
    + intros ch' k' _ _. unfold cache_get. rewrite Hmc, Hmn. reflexivity.
    + split; [apply meta_rel_hash; exists h1, x1; split; assumption | exact Hs1].
    + intros s0 E0. injection E0 as <-. assumption.
    + intros X. congruence.
  - (* appended *)
    unfold bindM at 1. rewrite Hvb. cbn iota beta.
    rewrite Hskip in Hadd. cbn zeta in Hadd. destruct Hadd as [Hadd Hstr]. rewrite Hadd. cbn iota beta.
    set (s' := fst (stream_add s1 data (po_size o) v vepn)) in *.
    destruct (hincrby_spec st2 (meta_key false c) h2 x2 _ _ _ _ Hg2 Hh2 Htop') as (h3 & Hinc & Hh3).
    rewrite bind_rc, Hinc. cbn iota beta.
    pose proof (getk_setval_same st2 (meta_key false c) (VHash h3)) as Hg3.
    set (st3 := setval st2 (meta_key false c) (VHash h3)) in *.
    assert (Hs3 : strm_rel st3 c (ms_items s1) (ms_top s1)).
    { unfold strm_rel in *. unfold st3. rewrite getk_setval_other by assumption. rewrite (Hf2 _ Hsm). exact Hs1. }
    assert (Hb3 : forall it, In it (ms_items s1) -> (fst it <= u64max)%N).
    { intros it Hin. destruct (items_bound _ Hinv1 it Hin). unfold BOUND, u64max in *. lia. }
    assert (Hrm : result_key c k <> meta_key false c) by apply result_meta_neq.
    assert (Hrs : result_key c k <> stream_key c) by apply result_stream_neq.
    assert (Hrk3 : forall rz, rzo_of o = Some rz -> (0 < rz < 2147483648)%Z /\
              (getk st3 (result_key c k) = None \/ exists hr x, getk st3 (result_key c k) = Some (mkKey (VHash hr) x))).
    { intros rz Hrz. split; [apply (rzo_range o rz Hidttl Hrz)|].
      unfold st3. rewrite getk_setval_other by assumption. rewrite (Hf2 _ Hrm), (Hf1 _ Hrm). apply (Hrkst rz Hrz). }
    destruct (add_tail_spec st3 c h3 _ (ms_items s1) (ms_top s1) (ms_epoch s1) data (po_size o) (po_ttl o)
                (meta_ttl_of cfg (po_meta_ttl o)) (rzo_of o) (po_delta o) (result_key c k)
                Hg3 Hs3 Hb3 Htop' (top0_items _ Hinv1) (conj Hsz0 Hpo) (conj Httl0 Httl) Hmz Hrk3 Hsm Hrm Hrs)
      as (st' & Hat & Hmk' & Hsk' & Hrk0 & Hrk1 & Hfr' & Hnow' & Hout').
    rewrite Hat. cbn iota beta.
    rewrite parse_pub_ok by assumption.
    assert (Hout3 : outbox st3 = []) by (unfold st3; cbn [outbox setval putk]; congruence).
    rewrite Hout', Hout3. cbn [clear_outbox outbox app deliveries].
    assert (Hdel : handle_message (message_channel c) (pub_payload (po_delta o) (ms_top s1 + 1) (ms_epoch s1) (ms_items s1) data)
                   = Some (mkDel c data (ms_top s1 + 1) (ms_epoch s1) (po_delta o)
                                 (if po_delta o then last_data (ms_items s1) else None))).
    { assert (Hne : nonce_ok (ms_epoch s1) = true) by (destruct Hinv1 as (H & _); exact H).
      unfold pub_payload, prev_str. destruct (po_delta o).
      - apply handle_d1; try assumption.
        intros p Hp. unfold last_data in Hp. destruct Hinv1 as (_ & _ & _ & Hd & _).
        destruct (rev (ms_items s1)) as [|[o0 d0] r] eqn:Er; [discriminate|]. injection Hp as <-.
        apply (Hd (o0, d0)). apply in_rev. rewrite Er. left. reflexivity.
      - apply handle_p1; assumption. }
    rewrite Hdel. cbn [fst snd].
    split; [reflexivity|].
    (* the relation *)
    apply (R_update U P rs ms _ _ c k (Some s')); try assumption.
    + cbn. rewrite Hnow'. unfold st3. cbn [now setval putk]. congruence.
    + rewrite cache_save_now. congruence.
    + intros key H1 H2 H3. change (getk st' key = getk rs key).
      destruct H3 as [H3|H3].
      * (* no idempotency key: the result key is not written *)
        destruct (String.eqb key (result_key c k)) eqn:Ekey.
        -- apply String.eqb_eq in Ekey. subst key.
           assert (Hnone : rzo_of o = None) by (unfold rzo_of; fold k; rewrite H3; reflexivity).
           rewrite (Hrk0 Hnone). unfold st3. rewrite getk_setval_other by assumption. rewrite (Hf2 _ H1). apply Hf1. assumption.
        -- apply String.eqb_neq in Ekey. rewrite (Hfr' key H1 H2 Ekey).
           unfold st3. rewrite getk_setval_other by assumption. rewrite (Hf2 _ H1). apply Hf1. assumption.
      * rewrite (Hfr' key H1 H2 H3). unfold st3. rewrite getk_setval_other by assumption. rewrite (Hf2 _ H1). apply Hf1. assumption.
    + intros ch. rewrite cache_save_streams. apply Hstr.
    + intros ch' k' Hne Hin.
      destruct Hne as [Hk0|Hne].
      * rewrite cache_save_none by assumption. unfold cache_get. rewrite Hmc, Hmn. reflexivity.
      * destruct Hidem as [Hk0|Hin0].
        -- rewrite cache_save_none by assumption. unfold cache_get. rewrite Hmc, Hmn. reflexivity.
        -- rewrite cache_get_save_other.
           ++ unfold cache_get. rewrite Hmc, Hmn. reflexivity.
           ++ intros X. apply Hne. apply (K_cache _ _ HK (ch', k') (c, k) Hin Hin0 X).
    + split.
      * apply meta_rel_hash. destruct Hmk' as [x Hx]. exists h3, x. split; [exact Hx|].
        unfold s'. cbn [stream_add fst ms_epoch ms_top ms_ver ms_vepoch]. exact Hh3.
      * unfold s'. rewrite stream_add_items. apply strm_rel_nonempty.
        -- apply items_after_nonempty. assumption.
        -- exact Hsk'.
    + intros s0 E0. injection E0 as <-. unfold s'. apply stream_inv_after; try assumption.
    + intros Hkne Hin0.
      assert (Hsome : exists rz, rzo_of o = Some rz).
      { unfold rzo_of. fold k. apply String.eqb_neq in Hkne. rewrite Hkne. eexists. reflexivity. }
      destruct Hsome as [rz Hrz].
      unfold cache_rel.
      assert (Hm'now : m_now m' = 0%N) by congruence.
      rewrite (cache_get_save_same m' c o _ rz Hm'now Hrz) by (apply (rzo_range o rz Hidttl Hrz)).
      destruct Hrk1 as (hr & x & Hgr & Her & Hsr); [congruence|].
      exists hr, x. repeat split; assumption.
Qed.
