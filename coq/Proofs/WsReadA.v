(* C29 proofs, part A: the model of the Go frame reader equals the reference decoder under the
   policy [go_policy], for ALL byte streams (read buffer of at least 125 bytes). *)
From Coq Require Import String List NArith Bool Arith Lia ZifyN ZifyNat.
From Cfg Require Import Gen.WsConst Model.WsUtf8 Model.WsClose Model.WsFrame Model.WsRead Model.WsReadSpec Proofs.WsLib Proofs.WsReadHdr.
Import ListNotations.
Open Scope N_scope.

(* ---------------------------------------------------------------- take_n *)

Lemma take_n_some : forall n bs p rest,
    take_n n bs = Some (p, rest) -> bs = p ++ rest /\ N.of_nat (length p) = n.
Proof.
  intros n bs p rest H. unfold take_n in H.
  destruct (N.ltb_spec (N.of_nat (length bs)) n) as [|Hle]; [discriminate|]. inversion H; subst. split.
  - symmetry. apply firstn_skipn.
  - rewrite firstn_length_le by lia. lia.
Qed.

Lemma take_n_0 : forall bs, take_n 0 bs = Some ([], bs).
Proof. intro bs. unfold take_n. destruct (N.ltb_spec (N.of_nat (length bs)) 0); [lia|]. reflexivity. Qed.

Lemma take_n_rest_length : forall n bs p rest,
    take_n n bs = Some (p, rest) -> (length rest + N.to_nat n = length bs)%nat.
Proof.
  intros n bs p rest H. destruct (take_n_some _ _ _ _ H) as [E L]. subst bs. rewrite app_length. lia.
Qed.

Lemma take2 : forall bs p rest, take_n 2 bs = Some (p, rest) -> exists a b, p = [a; b].
Proof.
  intros bs p rest H. apply take_n_some in H as [_ L].
  destruct p as [|a [|b [|c r]]]; simpl in L; try lia. eauto.
Qed.

Lemma take8 : forall bs p rest, take_n 8 bs = Some (p, rest) ->
    exists a b c d e f g h, p = [a; b; c; d; e; f; g; h].
Proof.
  intros bs p rest H. apply take_n_some in H as [_ L].
  do 9 (destruct p as [|? p]; simpl in L; try lia). repeat eexists.
Qed.

(* ---------------------------------------------------------------- c.read with a large enough buffer *)

Lemma conn_read_take : forall cfg n bs, n <= 125 -> 125 <= rc_rbuf cfg ->
    conn_read cfg n bs = match take_n n bs with Some (p, rest) => RdOk p rest | None => RdEof end.
Proof.
  intros cfg n bs Hn Hb. unfold conn_read. destruct (N.ltb_spec (rc_rbuf cfg) n); [lia|reflexivity].
Qed.

(* ---------------------------------------------------------------- normalisation facts *)

Lemma norm_proto : forall msg, msg <> [] ->
    map norm_event (proto_error msg) = [Wrote 8 [3; 234]; Err EProto].
Proof.
  intros [|m ms] H; [congruence|]. reflexivity.
Qed.

Lemma norm_pong : forall p, norm_event (Wrote 10 p) = Wrote 10 p.
Proof. intros [|a [|b [|c r]]]; reflexivity. Qed.

Lemma expected_viol : forall v, vkind_eqb v VMsgLen63 = false ->
    expected [SEnd (OViol v)] = [Wrote 8 [3; 234]; Err EProto].
Proof. intros [] H; try reflexivity. discriminate. Qed.

Definition P_of (cfg : rcfg) : spolicy := go_policy (rc_close1_strict cfg) is_valid_received_close_code.
Definition c_of (cfg : rcfg) : scfg := mkScfg (rc_server cfg) (rc_compress cfg) (rc_limit cfg) (rc_dlimit cfg) (rc_avail cfg).

Lemma gtrip_dtrip : forall cfg dc data, gtrip cfg dc data = dtrip (c_of cfg) dc data.
Proof. reflexivity. Qed.

Lemma norm_too_big : map norm_event too_big_after_decompression = expected [SEnd OTooBig].
Proof. reflexivity. Qed.

Lemma check_lax1 : forall cfg (b : bool) v k, go_lax (rc_close1_strict cfg) v = true ->
    check (P_of cfg) (if b then [v] else []) k = k.
Proof.
  intros cfg b v k H. unfold check, enforced. destruct b; simpl; [rewrite H|]; reflexivity.
Qed.

Lemma check_enforced1 : forall cfg (b : bool) v k, go_lax (rc_close1_strict cfg) v = false ->
    check (P_of cfg) (if b then [v] else []) k = if b then FEnd [SEnd (OViol v)] else k.
Proof.
  intros cfg b v k H. unfold check, enforced. destruct b; simpl; [rewrite H|]; reflexivity.
Qed.

(* ---------------------------------------------------------------- phases *)

(* result of a phase of the Go reader against the continuation-passing reference *)
Definition phase_rel {A} (g : list event + A) (s : fres) (k : A -> fres) : Prop :=
  match g with
  | inl evs => exists sevs, s = FEnd sevs /\ map norm_event evs = expected sevs
  | inr a => s = k a
  end.

Lemma len_phase : forall cfg len7 bs1 (k : N -> bytes -> fres),
    125 <= rc_rbuf cfg ->
    phase_rel (read_len cfg len7 bs1) (spec_len (P_of cfg) len7 bs1 k) (fun '(len, bs2) => k len bs2).
Proof.
  intros cfg len7 bs1 k Hb. unfold read_len, spec_len, phase_rel.
  destruct (len7 =? 126).
  - rewrite conn_read_take by (auto; lia). unfold need.
    destruct (take_n 2 bs1) as [[q bs2]|] eqn:T.
    + destruct (take2 _ _ _ T) as [a [b ->]]. rewrite check_lax1 by reflexivity. reflexivity.
    + exists [SEnd OEof]. split; reflexivity.
  - destruct (len7 =? 127); [|reflexivity].
    rewrite conn_read_take by (auto; lia). unfold need.
    destruct (take_n 8 bs1) as [[q bs2]|] eqn:T.
    + destruct (take8 _ _ _ T) as [a [b [c [d [e [f [g [h ->]]]]]]]].
      change two63 with int63.
      destruct (int63 <=? be [a; b; c; d; e; f; g; h]).
      * exists [SEnd (OSilent VLenMsb)]. split; reflexivity.
      * rewrite check_lax1 by reflexivity. reflexivity.
    + exists [SEnd OEof]. split; reflexivity.
Qed.

Lemma key_phase : forall cfg mask bs2 (k : bytes -> bytes -> fres),
    125 <= rc_rbuf cfg ->
    phase_rel (read_key cfg mask bs2) (spec_key mask bs2 k) (fun '(key, bs3) => k key bs3).
Proof.
  intros cfg mask bs2 k Hb. unfold read_key, spec_key, phase_rel. destruct mask; [|reflexivity].
  rewrite conn_read_take by (auto; lia). unfold need.
  destruct (take_n 4 bs2) as [[q bs3]|]; [reflexivity|]. exists [SEnd OEof]. split; reflexivity.
Qed.

(* the state of the Go reader against the fragment state of the reference *)
Definition R (st : gst) (cur : option (N * bool * bytes)) (frag : option fragst) : Prop :=
  match cur, frag with
  | None, None => g_final st = true /\ g_len st = 0
  | Some (t, dc, acc), Some (t', dc', acc', total) =>
      t = t' /\ dc = dc' /\ acc = acc' /\ g_final st = false /\ g_len st = total
  | _, _ => False
  end.

Definition step_rel (g : gres) (s : fres) : Prop :=
  match g, s with
  | GEnd evs, FEnd sevs => map norm_event evs = expected sevs
  | GCont evs st' cur' rest, FCont sevs frag' rest' =>
      map norm_event evs = expected sevs /\ rest = rest' /\ R st' cur' frag'
  | _, _ => False
  end.

Lemma lax_of : forall cfg k, lax (P_of cfg) k = go_lax (rc_close1_strict cfg) k.
Proof. reflexivity. Qed.

Lemma close_agree : forall cfg payload,
    match close_frame (P_of cfg) payload with
    | FEnd sevs => map norm_event (handle_close cfg payload) = expected sevs
    | FCont _ _ _ => False
    end.
Proof.
  intros cfg [|a [|b text]].
  - reflexivity.
  - unfold close_frame, handle_close, check, enforced. simpl filter.
    destruct (rc_close1_strict cfg); reflexivity.
  - unfold close_frame, handle_close. change (be16 a b) with (a * 256 + b).
    change (close_ok (P_of cfg)) with is_valid_received_close_code.
    destruct (is_valid_received_close_code (a * 256 + b)) eqn:V; simpl negb; cbv iota.
    + unfold check at 1. simpl enforced. cbv iota.
      destruct (utf8_valid text) eqn:U; simpl negb; cbv iota.
      * unfold check. simpl enforced. cbv iota.
        unfold expected. simpl flat_map. unfold format_close_message, close_echo, c_CloseNoStatusReceived, c_CloseMessage.
        destruct (a * 256 + b =? 1005); reflexivity.
      * unfold check, enforced. simpl filter. cbv iota. reflexivity.
    + unfold check, enforced. simpl filter. cbv iota.
      rewrite norm_proto; [reflexivity|]. destruct (itoa (a * 256 + b)); discriminate.
Qed.
