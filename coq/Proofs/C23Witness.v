(* C23: concrete operation sequences on which the Redis-side map model (Go glue of
   map_broker_redis.go over the INTERPRETED real Lua scripts over Model/Redis.v) and the
   memory map model (Model/MemMap23.v) give different observables, and sequences on which they
   agree.  Decided by computation.  All "differs" sequences are replayed against the real code
   by the C23 driver (probe cases). *)
From Coq Require Import List NArith ZArith Bool String.
From Cfg Require Import Model.RStr Model.Redis Model.MapApi23 Model.RedisMapBroker Model.MemMap23 Model.RedisMapServer.
Import ListNotations.
Open Scope string_scope.

Definition redis_map_run (cf : mcfg) (ops : list mop) : list mres := rm_run map_interp cf rinit ops.

Definition cfP := mkMC 3 0 100 3600000 0 false.          (* persistent, unordered, StreamSize 100 *)
Definition cfP2 := mkMC 3 0 2 3600000 0 false.           (* StreamSize 2 *)
Definition po (d : string) := mkMP "" 0 d false 0 "" 0 "" false None.
Definition pub (ch k d nonce : string) := MPublish ch k (po d) nonce 1000.
Definition ro := mkMR "" 0 None.
Definition rd_stream (ch nonce : string) := MReadStream ch None (-1) false nonce nonce.
Definition rd_state (ch nonce : string) := MReadState ch None (-1) "" false nonce nonce.

Ltac differ := let H := fresh "H" in intro H; vm_compute in H; discriminate H.

(* Remove on a channel that does not exist: Redis creates the meta key and answers with the new
   epoch, memory answers the zero position *)
Definition w_remove_missing := [MRemove "a" "k1" ro "N0" 1000].
Lemma remove_missing_differs : redis_map_run cfP w_remove_missing <> mem_map_run cfP w_remove_missing.
Proof. differ. Qed.

(* reverse ReadStream since offset 1: Go sends since-1 = "0", which the script treats as "from the top" *)
Definition w_reverse_since_one :=
  [pub "a" "k1" "d1" "N0"; pub "a" "k2" "d2" "N1"; MReadStream "a" (Some (1%N, "N0")) (-1) true "N2" "N2"].
Lemma reverse_since_one_differs : redis_map_run cfP w_reverse_since_one <> mem_map_run cfP w_reverse_since_one.
Proof. differ. Qed.

(* reverse ReadStream since a position beyond the top *)
Definition w_reverse_beyond :=
  [pub "a" "k1" "d1" "N0"; pub "a" "k2" "d2" "N1"; MReadStream "a" (Some (9%N, "N0")) (-1) true "N2" "N2"].
Lemma reverse_beyond_differs : redis_map_run cfP w_reverse_beyond <> mem_map_run cfP w_reverse_beyond.
Proof. differ. Qed.

(* XADD MAXLEN ~ n does not trim below a macro node: more than StreamSize entries stay readable *)
Definition w_approx_trim :=
  [pub "a" "k1" "d1" "N0"; pub "a" "k2" "d2" "N1"; pub "a" "k3" "d3" "N2"; pub "a" "k4" "d4" "N3"; rd_stream "a" "N4"].
Lemma approx_trim_differs : redis_map_run cfP2 w_approx_trim <> mem_map_run cfP2 w_approx_trim.
Proof. differ. Qed.

(* single-key ReadState on a missing channel: Redis reads HGET/HMGET without creating the epoch *)
Definition w_single_key_missing := [MReadState "a" None (-1) "k1" false "N0" "N0"].
Lemma single_key_missing_differs : redis_map_run cfP w_single_key_missing <> mem_map_run cfP w_single_key_missing.
Proof. differ. Qed.

(* ReadStream on a missing channel with a non-empty since epoch: Redis says unrecoverable *)
Definition w_stream_missing_since := [MReadStream "a" (Some (0%N, "bogus")) (-1) false "N0" "N0"].
Lemma stream_missing_since_differs : redis_map_run cfP w_stream_missing_since <> mem_map_run cfP w_stream_missing_since.
Proof. differ. Qed.

(* ReadState with Limit 0 and a Revision of another epoch: Redis takes the ReadStream shortcut and
   never looks at the revision, memory answers ErrorUnrecoverablePosition *)
Definition w_state_limit0_rev := [pub "a" "k1" "d1" "N0"; MReadState "a" (Some (1%N, "bogus")) 0 "" false "N1" "N1"].
Lemma state_limit0_rev_differs : redis_map_run cfP w_state_limit0_rev <> mem_map_run cfP w_state_limit0_rev.
Proof. differ. Qed.

(* ephemeral (streamless) channels have no meta key on Redis: every result carries the epoch of that
   call (fresh for Publish, none for ReadState); memory keeps one epoch per channel *)
Definition cfE := mkMC 1 3600000 0 0 0 false.
Definition w_ephemeral_epoch := [pub "a" "k1" "d1" "N0"; pub "a" "k2" "d2" "N1"; rd_state "a" "N2"].
Lemma ephemeral_epoch_differs : redis_map_run cfE w_ephemeral_epoch <> mem_map_run cfE w_ephemeral_epoch.
Proof. differ. Qed.

(* KeyMode is only evaluated inside the "meta_key ~= ''" block of map_broker_add.lua: on an
   ephemeral (streamless) channel "if_exists" / "if_new" are ignored by Redis *)
Definition w_ephemeral_keymode := [MPublish "a" "k1" (mkMP "" 0 "d1" false 0 "" 0 "if_exists" false None) "N0" 1000].
Lemma ephemeral_keymode_differs :
  redis_map_run cfE w_ephemeral_keymode = [MUpd 0 "N0" false "" None] /\
  mem_map_run cfE w_ephemeral_keymode = [MUpd 0 "N0" true "key_not_found" None].
Proof. vm_compute. split; reflexivity. Qed.

(* Clear leaves the idempotency result keys in Redis: a publish with the same idempotency key after
   Clear is suppressed with the OLD position and its data is lost; memory drops its result cache *)
Definition poi (d i : string) := mkMP i 0 d false 0 "" 0 "" false None.
Definition w_clear_idem :=
  [MPublish "a" "k1" (poi "d1" "i1") "N0" 1000; MClear "a"; MPublish "a" "k1" (poi "d2" "i1") "N2" 1000; rd_state "a" "N3"].
Lemma clear_idem_differs : redis_map_run cfP w_clear_idem <> mem_map_run cfP w_clear_idem.
Proof. differ. Qed.

(* the streamless single-key read is a bare HGET: a Revision of another epoch is not noticed *)
Definition w_ephemeral_single_rev :=
  [pub "a" "k1" "d1" "N0"; MReadState "a" (Some (0%N, "bogus")) (-1) "k1" false "N1" "N1"].
Lemma ephemeral_single_rev_differs :
  nth 1 (redis_map_run cfE w_ephemeral_single_rev) MErr = MState [("k1", 0%N, "d1", 0%Z)] 0 "" /\
  nth 1 (mem_map_run cfE w_ephemeral_single_rev) MErr = MUnrec.
Proof. vm_compute. split; reflexivity. Qed.

(* ExpectedPosition with an empty Epoch: map_broker_add.lua only runs the CAS check when
   expected_epoch ~= '', so Redis applies the write; memory compares the epochs and refuses *)
Definition w_cas_empty_epoch :=
  [pub "a" "k1" "d1" "N0"; MPublish "a" "k1" (mkMP "" 0 "d2" false 0 "" 0 "" false (Some (7%N, ""))) "N1" 1000].
Lemma cas_empty_epoch_differs :
  nth 1 (redis_map_run cfP w_cas_empty_epoch) MErr = MUpd 2 "N0" false "" None /\
  nth 1 (mem_map_run cfP w_cas_empty_epoch) MErr = MUpd 1 "N0" true "position_mismatch" (Some (1%N, "d1")).
Proof. vm_compute. split; reflexivity. Qed.

(* ReadState on a missing channel with a Revision whose epoch is empty *)
Definition w_state_missing_rev := [MReadState "a" (Some (0%N, "")) (-1) "" false "N0" "N0"].
Lemma state_missing_rev_differs : redis_map_run cfP w_state_missing_rev <> mem_map_run cfP w_state_missing_rev.
Proof. differ. Qed.

(* channel "meta:x" keeps its state hash under the key of channel "x"'s state meta hash *)
Definition w_key_collision := [pub "x" "k1" "d1" "N0"; pub "meta:x" "e" "d2" "N1"; rd_state "x" "N2"; pub "x" "k2" "d3" "N3"].
Lemma key_collision_differs : redis_map_run cfP w_key_collision <> mem_map_run cfP w_key_collision.
Proof. differ. Qed.
Lemma key_collision_keys : k_state "meta:x" = k_smeta "x".
Proof. reflexivity. Qed.

(* per-key versions >= 2^53 are compared as doubles *)
Definition pov (d : string) (v : N) := mkMP "" 0 d false v "" 0 "" false None.
Definition w_version_2p53 :=
  [MPublish "a" "k1" (pov "d1" 9007199254740992) "N0" 1000; MPublish "a" "k1" (pov "d2" 9007199254740993) "N1" 1000].
Lemma version_2p53_differs : redis_map_run cfP w_version_2p53 <> mem_map_run cfP w_version_2p53.
Proof. differ. Qed.

(* ReadStream creates a missing meta with the NODE ID as epoch: after Clear the channel comes back
   with the same epoch string on Redis, with a fresh one in memory *)
Definition w_clear_reuse := [MReadStream "a" None (-1) false "NODE" "N0"; MClear "a"; MReadStream "a" None (-1) false "NODE" "N2"].
Lemma clear_reuse_redis_same_epoch :
  nth 0 (redis_map_run cfP w_clear_reuse) MErr = nth 2 (redis_map_run cfP w_clear_reuse) MErr.
Proof. vm_compute. reflexivity. Qed.
Lemma clear_reuse_memory_fresh_epoch :
  nth 0 (mem_map_run cfP w_clear_reuse) MErr <> nth 2 (mem_map_run cfP w_clear_reuse) MErr.
Proof. differ. Qed.

(* ---- agreement examples ---- *)
Definition w_agree :=
  [rd_stream "a" "N0"; pub "a" "k1" "d1" "N1"; pub "a" "k2" "d2" "N2"; pub "a" "k1" "d3" "N3"; pub "a" "" "d4" "N4";
   MRemove "a" "k2" ro "N5" 1000; MRemove "a" "zz" ro "N6" 1000;
   rd_state "a" "N7"; MReadState "a" None 2 "" false "N8" "N8"; MReadState "a" None 0 "" false "N9" "N9";
   MReadState "a" None (-1) "k1" false "N10" "N10"; rd_stream "a" "N11";
   MReadStream "a" (Some (2%N, "N0")) (-1) false "N12" "N12"; MReadStream "a" None 2 true "N13" "N13";
   MPublish "a" "k1" (mkMP "" 0 "d5" false 0 "" 0 "if_new" false None) "N14" 1000;
   MPublish "a" "k9" (mkMP "" 0 "d5" false 0 "" 0 "if_exists" false None) "N15" 1000;
   MPublish "a" "k1" (mkMP "" 0 "d6" false 0 "" 0 "" false (Some (1%N, "N0"))) "N16" 1000;
   MPublish "a" "k1" (mkMP "" 0 "d6" false 0 "" 0 "" false (Some (3%N, "N0"))) "N17" 1000;
   MPublish "a" "k1" (mkMP "i1" 0 "d7" false 0 "" 0 "" false None) "N18" 1000;
   MPublish "a" "k1" (mkMP "i1" 0 "d8" false 0 "" 0 "" false None) "N19" 1000;
   MPublish "a" "k1" (pov "d9" 5) "N20" 1000; MPublish "a" "k1" (pov "d10" 3) "N21" 1000;
   MRemove "a" "k1" (mkMR "" 0 (Some (8%N, "N0"))) "N22" 1000; rd_state "a" "N23"; rd_stream "b" "N24"; pub "b" "k" "x" "N25";
   rd_state "b" "N26"].
Lemma agree_example : redis_map_run cfP w_agree = mem_map_run cfP w_agree.
Proof. vm_compute. reflexivity. Qed.
