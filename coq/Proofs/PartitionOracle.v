(* The C35 oracle (Harness/C35.v) decides the property's predicates. *)
From Coq Require Import List NArith Bool Lia ZifyN ZifyBool Sorting.Permutation.
From Cfg Require Import Model.Crc16 Model.Partition Proofs.Crc16 Proofs.Partition Harness.C35.
Import ListNotations.
Open Scope N_scope.

Lemma eqb_listN_eq : forall a b, eqb_listN a b = true -> a = b.
Proof.
  induction a as [|x a IH]; destruct b as [|y b]; cbn [eqb_listN]; intro H; try discriminate; [reflexivity|].
  apply andb_prop in H. destruct H as [H1 H2]. apply N.eqb_eq in H1. subst. f_equal. apply IH, H2.
Qed.

Theorem oracle_tags_sound : forall p tags slots,
  oracle (CTags p true tags slots) = true ->
  N.of_nat (length tags) = p /\ slots = map slot_spec tags /\ NoDup (map slot_spec tags).
Proof.
  intros p tags slots H. cbn [oracle] in H.
  apply andb_prop in H. destruct H as [H H3]. apply andb_prop in H. destruct H as [H1 H2].
  apply N.eqb_eq in H1. apply eqb_listN_eq in H2. subst slots.
  split; [assumption|]. split; [reflexivity|].
  apply strict_asc_NoDup in H3.
  eapply Permutation_NoDup; [apply Permutation_sym, NSort.Permuted_sort|exact H3].
Qed.

Theorem oracle_crc_sound : forall data crc slot,
  oracle (CCrc data crc slot) = true -> crc = crc16_spec data /\ slot = slot_spec data.
Proof.
  intros data crc slot H. cbn [oracle] in H. apply andb_prop in H. destruct H as [H1 H2].
  apply N.eqb_eq in H1. apply N.eqb_eq in H2. subst. split; reflexivity.
Qed.

Theorem oracle_node_sound : forall slot n res,
  1 <= n -> n <= total_slots -> slot < total_slots ->
  oracle (CNode slot n res) = true -> exists j, res = Some j /\ owns n j slot.
Proof.
  intros slot n res H1 H2 H3 H. cbn [oracle] in H.
  replace ((1 <=? n) && (n <=? total_slots) && (slot <? total_slots)) with true in H
    by (symmetry; repeat (apply andb_true_intro; split); lia).
  destruct res as [j|]; [|discriminate]. apply andb_prop in H. destruct H as [A B].
  exists j. split; [reflexivity|]. unfold owns_b in B. apply andb_prop in B. destruct B as [B1 B2].
  split; [lia|]. split; lia.
Qed.

Theorem oracle_bal_sound : forall p n mn mx sum,
  oracle (CBal p n mn mx sum) = true -> mx <= mn + 1 /\ sum = p.
Proof.
  intros p n mn mx sum H. cbn [oracle] in H. apply andb_prop in H. destruct H as [A B]. lia.
Qed.
