(* C18, stream storage: the History step of the simulation. *)
From Coq Require Import List NArith ZArith Bool String Ascii Lia.
From Cfg Require Import Model.RStr Model.LuaNum Model.Redis Model.RedisScripts Model.BrokerApi18
                        Model.RedisBroker Model.MemBroker18 Proofs.C18Lib Proofs.C18Redis Proofs.C18Stream.
Import ListNotations.
Open Scope string_scope.

(* ---------- uint64 wrap-around ---------- *)
Lemma wrap64_small n : (n < two64)%N -> wrap64 (Z.of_N n) = n.
Proof. intros H. unfold wrap64. rewrite Z.mod_small by (unfold two64 in *; lia). lia. Qed.

Lemma wrap64_lt z : (wrap64 z < two64)%N.
Proof.
  unfold wrap64. pose proof (Z.mod_pos_bound z (Z.of_N two64)) as H. unfold two64 in *.
  assert (0 < Z.of_N 18446744073709551616)%Z by lia. specialize (H H0). lia.
Qed.

Lemma wrap64_pred so : (1 <= so)%N -> (so < two64)%N -> wrap64 (Z.of_N so - 1) = (so - 1)%N.
Proof. intros H1 H2. replace (Z.of_N so - 1)%Z with (Z.of_N (so - 1)) by lia. apply wrap64_small. lia. Qed.

Lemma wrap64_succ so : (so + 1 < two64)%N -> wrap64 (Z.of_N so + 1) = (so + 1)%N.
Proof. intros H. replace (Z.of_N so + 1)%Z with (Z.of_N (so + 1)) by lia. apply wrap64_small. assumption. Qed.

(* what the memory broker returns for an existing stream (historyHub.getLocked) *)
Definition hist_pubs (s : mstream) (f : hfilter) : list (N * string) :=
  match hf_since f with
  | None => if (hf_limit f =? 0)%Z then [] else stream_get s 0 false (hf_limit f) (hf_reverse f)
  | Some (so, se) =>
      if (negb (hf_reverse f) && (ms_top s =? so)%N && String.eqb se (ms_epoch s))%bool then []
      else stream_get s (if hf_reverse f then wrap64 (Z.of_N so - 1) else wrap64 (Z.of_N so + 1)) true
                      (hf_limit f) (hf_reverse f)
  end.

Lemma stream_get_empty s off uo lim rv : ms_items s = [] -> stream_get s off uo lim rv = [].
Proof.
  intros E. unfold stream_get. rewrite E. destruct (uo && (ms_top s + 1 <=? off)%N)%bool; [reflexivity|].
  destruct uo; cbn; destruct rv; reflexivity.
Qed.

Lemma hist_pubs_new nonce f : hist_pubs (stream_new nonce) f = [].
Proof.
  unfold hist_pubs. destruct (hf_since f) as [[so se]|].
  - destruct (_ && _)%bool; [reflexivity|]. apply stream_get_empty. reflexivity.
  - destruct (hf_limit f =? 0)%Z; [reflexivity|]. apply stream_get_empty. reflexivity.
Qed.

Lemma hub_get_eq cfg m c f mttl nonce :
  hub_get cfg m c f mttl nonce =
    let m1 := set_removes cfg m c mttl in
    match sfind c (m_streams m) with
    | None => (set_stream m1 c (stream_new nonce), ([], (0%N, nonce)))
    | Some s => (m1, (hist_pubs s f, position s))
    end.
Proof.
  unfold hub_get, hist_pubs.
  assert (E : m_streams (set_removes cfg m c mttl) = m_streams m).
  { unfold set_removes. destruct (0 <? _)%Z; reflexivity. }
  rewrite E. cbn zeta. destruct (sfind c (m_streams m)) as [s|]; [|reflexivity].
  destruct (hf_since f) as [[so se]|].
  - destruct (_ && _)%bool; reflexivity.
  - destruct (hf_limit f =? 0)%Z; reflexivity.
Qed.

Definition hist_sel (items : list (N * string)) (f : hfilter) : list (N * string) :=
  if (hf_limit f =? 0)%Z then [] else
  take_lim (hf_limit f)
    (match hf_since f with
     | None => if hf_reverse f then rev items else items
     | Some (so, _) =>
         if hf_reverse f then rev (filter (fun it => (fst it <=? wrap64 (Z.of_N so - 1))%N) items)
         else filter (fun it => (wrap64 (Z.of_N so + 1) <=? fst it)%N) items
     end).

Definition since_ok (top : N) (f : hfilter) : Prop :=
  match hf_since f with
  | Some (so, _) => (so < two64)%N /\ (hf_reverse f = true -> (1 <= so)%N /\ (so - 1 <= top)%N)
  | None => True
  end.

Lemma hist_pubs_sel s f :
  stream_inv s -> since_ok (ms_top s) f -> hist_pubs s f = hist_sel (ms_items s) f.
Proof.
  intros (_ & Hb & _ & _ & lo & Hlo & Hc) Hs. unfold hist_pubs, hist_sel, since_ok in *.
  destruct (hf_since f) as [[so se]|].
  - destruct Hs as [Hso Hrev].
    destruct (hf_reverse f) eqn:Er; cbn [negb andb].
    + destruct (Hrev eq_refl) as [H1 H2]. rewrite wrap64_pred by assumption.
      apply (get_rev_off s _ _ lo); assumption.
    + destruct ((ms_top s =? so)%N && String.eqb se (ms_epoch s))%bool eqn:Esc.
      * apply andb_true_iff in Esc as [E1 _]. apply N.eqb_eq in E1. subst so.
        unfold BOUND in Hb. rewrite wrap64_succ by (unfold two64; lia).
        rewrite (filter_ge_contig _ _ _ _ Hc). pose proof (contig_length _ _ _ Hc).
        rewrite skipn_all2 by lia. destruct (hf_limit f =? 0)%Z; [reflexivity|]. symmetry. apply take_lim_nil.
      * apply (get_fwd_off s _ _ lo); assumption.
  - destruct (hf_limit f =? 0)%Z eqn:El; [reflexivity|]. apply get_all. assumption.
Qed.

(* ---------- the Redis side, decomposed ---------- *)
Definition hist_rest_m (sk include since limit reverse : string) (tm : reply * string) : M reply :=
  let '(top, epoch) := tm in
  if String.eqb include "0" then finish (RArr [top; RBulk epoch]) else
  let cnt := if String.eqb limit "0" then [] else ["COUNT"; limit] in
  dom pubs <- (if String.eqb reverse "0" then rc (["xrange"; sk; since; "+"] ++ cnt)%list
               else
                 dom from <- (if String.eqb since "0" then arg_of_reply top else ret since) ;;
                 rc (["xrevrange"; sk; from; "-"] ++ cnt)%list) ;;
  finish (RArr [top; RBulk epoch; pubs]).

Lemma sh_history_stream_eq sk mk include since limit reverse mexp nonce :
  sh_history_stream [sk; mk] [include; since; limit; reverse; mexp; nonce] =
  bindM (history_meta mk mexp nonce) (hist_rest_m sk include since limit reverse).
Proof. reflexivity. Qed.

Definition go_parse_hist (include : string) (r : reply) : result :=
  match as_array r with
  | inl _ => ResErr
  | inr l =>
      if Nat.ltb (List.length l) 2 then ResErr else
      match parse_position l with
      | None => ResErr
      | Some (off, ep) =>
          if (String.eqb include "1" && Nat.eqb (List.length l) 3)%bool then
            match as_array (nth 2 l RNil) with
            | inl _ => ResErr
            | inr vs => match parse_all parse_stream_entry vs with
                        | Some pubs => ResHistory pubs off ep
                        | None => ResErr
                        end
            end
          else ResHistory [] off ep
      end
  end.

Lemma rb_history_stream_eq cfg st c f mttl nonce :
  rb_history_stream shallow cfg st c f mttl nonce =
  let args := history_stream_args cfg f mttl nonce in
  let '(st', r) := runM (sh_history_stream [stream_key c; meta_key false c] args) st in
  (st', go_parse_hist (nth 0 args "") r).
Proof. reflexivity. Qed.

Definition topr (top : N) : reply := if (top =? 0)%N then RInt 0 else RBulk (dec top).

Lemma parse_position_topr top ep rest :
  (top < BOUND)%N -> parse_position (topr top :: RBulk ep :: rest) = Some (top, ep).
Proof.
  intros H. unfold parse_position, topr. cbn [nth].
  destruct (top =? 0)%N eqn:E.
  - apply N.eqb_eq in E. subst. reflexivity.
  - cbn [as_int64 to_string]. unfold parse_int64. rewrite parse_goint_dec.
    unfold int64_ok, BOUND in *.
    replace (-9223372036854775808 <=? Z.of_N top)%Z with true by (symmetry; apply Z.leb_le; lia).
    replace (Z.of_N top <=? 9223372036854775807)%Z with true by (symmetry; apply Z.leb_le; lia).
    cbn [andb]. rewrite wrap64_small by (unfold two64; lia). reflexivity.
Qed.

Lemma cnt_parse lim :
  (lim < 2147483648)%Z ->
  let limitZ := if (0 <? lim)%Z then lim else 0%Z in
  parse_count (if String.eqb (itoa limitZ) "0" then [] else ["COUNT"; itoa limitZ])
  = Some (Some (if (0 <? lim)%Z then Some lim else None)).
Proof.
  intros H. cbn zeta. destruct (0 <? lim)%Z eqn:E.
  - apply Z.ltb_lt in E. rewrite itoa_eqb_0 by lia. replace (lim =? 0)%Z with false by (symmetry; apply Z.eqb_neq; lia).
    rewrite itoa_nonneg by lia. rewrite parse_count_dec by lia. rewrite Z2N.id by lia. reflexivity.
  - reflexivity.
Qed.

Lemma in_firstn {A} n (l : list A) x : In x (firstn n l) -> In x l.
Proof.
  revert l. induction n as [|n IH]; intros l; [intros []|]. destruct l as [|a l]; [intros []|].
  cbn. intros [H|H]; [left; assumption | right; apply IH; assumption].
Qed.

Lemma in_limit_list {A} c (l : list A) x : In x (limit_list c l) -> In x l.
Proof.
  unfold limit_list. destruct c as [z|]; [|auto]. destruct (z <=? 0)%Z; [intros []|]. apply in_firstn.
Qed.

Lemma items_bound s : stream_inv s -> forall it, In it (ms_items s) -> (1 <= fst it <= ms_top s)%N /\ (ms_top s < BOUND)%N.
Proof.
  intros (_ & Hb & _ & _ & lo & Hlo & Hc) it Hin. pose proof (contig_bounds _ _ _ Hc it Hin). lia.
Qed.

Lemma go_parse_3 top ep l :
  (top < BOUND)%N -> (forall it, In it l -> (fst it < two64)%N) ->
  go_parse_hist "1" (RArr [topr top; RBulk ep; RArr (map entry_reply (map enc_item l))]) = ResHistory l top ep.
Proof.
  intros Ht Hl. unfold go_parse_hist. cbn [as_array List.length Nat.ltb Nat.leb].
  rewrite parse_position_topr by assumption. cbn [String.eqb Ascii.eqb Bool.eqb Nat.eqb andb nth as_array].
  rewrite parse_entries by assumption. reflexivity.
Qed.

Lemma go_parse_2 include top ep :
  (top < BOUND)%N -> go_parse_hist include (RArr [topr top; RBulk ep]) = ResHistory [] top ep.
Proof.
  intros Ht. unfold go_parse_hist. cbn [as_array List.length Nat.ltb Nat.leb].
  rewrite parse_position_topr by assumption. cbn [Nat.eqb]. rewrite andb_false_r. reflexivity.
Qed.

Lemma filter_all_false {A} (f : A -> bool) l : (forall a, In a l -> f a = false) -> filter f l = [].
Proof.
  induction l as [|a l IH]; intros H; [reflexivity|]. cbn. rewrite (H a) by (left; reflexivity).
  apply IH. intros; apply H; right; assumption.
Qed.

Lemma dec_eqb_0 n : String.eqb (dec n) "0" = (n =? 0)%N.
Proof.
  destruct (n =? 0)%N eqn:E.
  - apply N.eqb_eq in E. subst. reflexivity.
  - apply String.eqb_neq. intros X. change "0" with (dec 0) in X. apply dec_inj in X. apply N.eqb_neq in E. contradiction.
Qed.

Lemma arg_of_topr top st : (top < BOUND)%N -> arg_of_reply (topr top) st = (st, inl (dec top)).
Proof.
  intros H. unfold topr. destruct (top =? 0)%N eqn:E.
  - apply N.eqb_eq in E. subst. reflexivity.
  - reflexivity.
Qed.

(* the part of broker_history_stream.lua after the meta lookup, and its parse by historyStream *)
Lemma hist_rest st c s since lim rv mexp nonce :
  let f := mkHF since lim rv in
  strm_rel st c (ms_items s) (ms_top s) -> stream_inv s -> since_ok (ms_top s) f -> (lim < 2147483648)%Z ->
  forall include sinc limit reverse,
    [include; sinc; limit; reverse; mexp; nonce] =
      (let '(include0, offset) :=
         match since with
         | Some (so, _) =>
             if rv then let o := wrap64 (Z.of_N so - 1) in ((if (o =? 0)%N then "0" else "1"), o)
             else ("1", wrap64 (Z.of_N so + 1))
         | None => ("1", 0%N)
         end in
       [if (lim =? 0)%Z then "0" else include0; dec offset; itoa (if (0 <? lim)%Z then lim else 0%Z);
        if rv then "1" else "0"; mexp; nonce]) ->
  exists r, hist_rest_m (stream_key c) include sinc limit reverse (topr (ms_top s), ms_epoch s) st = (st, inr r)
            /\ go_parse_hist include r = ResHistory (hist_sel (ms_items s) f) (ms_top s) (ms_epoch s).
Proof.
  intros f Hs Hinv Hso Hlim include sinc limit reverse Hargs.
  pose proof (items_bound _ Hinv) as Hib.
  assert (Htop : (ms_top s < BOUND)%N) by (destruct Hinv as (_ & H & _); exact H).
  assert (Hb64 : forall it, In it (ms_items s) -> (fst it <= u64max)%N).
  { intros it Hin. destruct (Hib it Hin) as [H1 H2]. unfold BOUND, u64max in *. lia. }
  assert (Hb2 : forall l, (forall it, In it l -> In it (ms_items s)) -> forall it, In it l -> (fst it < two64)%N).
  { intros l Hl it Hin. destruct (Hib it (Hl it Hin)) as [H1 H2]. unfold BOUND, two64 in *. lia. }
  pose proof (cnt_parse lim Hlim) as Hcnt. cbn zeta in Hcnt.
  unfold hist_rest_m, hist_sel. subst f. cbn [hf_since hf_limit hf_reverse] in *.
  destruct (lim =? 0)%Z eqn:El.
  { (* limit 0: no publications requested *)
    assert (include = "0") as -> by (destruct since as [[so se]|]; [destruct rv|]; injection Hargs; intros; subst; reflexivity).
    cbn [String.eqb Ascii.eqb Bool.eqb]. eexists. split; [reflexivity|]. apply go_parse_2. assumption. }
  destruct since as [[so se]|].
  - destruct Hso as [Hso Hrev]. destruct rv.
    + (* reverse, since *)
      destruct (Hrev eq_refl) as [H1 H2]. rewrite wrap64_pred in * by assumption.
      injection Hargs as -> -> -> ->.
      destruct (so - 1 =? 0)%N eqn:E0.
      * cbn [String.eqb Ascii.eqb Bool.eqb]. eexists. split; [reflexivity|].
        rewrite go_parse_2 by assumption. f_equal. symmetry.
        apply N.eqb_eq in E0. rewrite E0.
        rewrite filter_all_false; [cbn [rev]; apply take_lim_nil|].
        intros it Hin. destruct (Hib it Hin). apply N.leb_gt. lia.
      * cbn [String.eqb Ascii.eqb Bool.eqb]. rewrite dec_eqb_0, E0.
        rewrite bind_assoc, bind_ret.
        rewrite bind_rc. cbn [app].
        rewrite (xr_rev st c _ _ (so - 1)%N _ _ Hs) by (unfold u64max, two64 in *; first [lia | exact Hcnt]).
        cbn iota beta. eexists. split; [reflexivity|].
        rewrite go_parse_3; [| assumption |].
        -- f_equal. apply take_lim_limit_list. assumption.
        -- apply Hb2. intros it Hin. apply in_limit_list in Hin. apply in_rev in Hin. apply filter_In in Hin. tauto.
    + (* forward, since *)
      injection Hargs as -> -> -> ->. cbn [String.eqb Ascii.eqb Bool.eqb].
      rewrite bind_rc. cbn [app].
      rewrite (xr_fwd st c _ _ (wrap64 (Z.of_N so + 1)) _ (if (0 <? lim)%Z then Some lim else None) Hs Hb64);
        [| pose proof (wrap64_lt (Z.of_N so + 1)); unfold u64max, two64 in *; lia | exact Hcnt].
      cbn iota beta. eexists. split; [reflexivity|].
      rewrite go_parse_3; [| assumption |].
      * f_equal. apply take_lim_limit_list. assumption.
      * apply Hb2. intros it Hin. apply in_limit_list in Hin. apply filter_In in Hin. tauto.
  - destruct rv.
    + (* reverse, from the top *)
      injection Hargs as -> -> -> ->. cbn [String.eqb Ascii.eqb Bool.eqb].
      change (String.eqb (dec 0) "0") with true. cbn iota.
      rewrite bind_assoc. unfold bindM at 1. rewrite arg_of_topr by assumption.
      rewrite bind_rc. cbn [app].
      rewrite (xr_rev st c _ _ (ms_top s) _ _ Hs) by (unfold BOUND, u64max in *; first [lia | exact Hcnt]).
      cbn iota beta. eexists. split; [reflexivity|].
      rewrite filter_all by (intros it Hin; destruct (Hib it Hin); apply N.leb_le; lia).
      rewrite go_parse_3; [| assumption |].
      * f_equal. apply take_lim_limit_list. assumption.
      * apply Hb2. intros it Hin. apply in_limit_list in Hin. apply in_rev in Hin. assumption.
    + (* forward, from the beginning *)
      injection Hargs as -> -> -> ->. cbn [String.eqb Ascii.eqb Bool.eqb].
      rewrite bind_rc. cbn [app].
      rewrite (xr_fwd st c _ _ 0%N _ (if (0 <? lim)%Z then Some lim else None) Hs Hb64) by (first [unfold u64max; lia | exact Hcnt]).
      cbn iota beta. eexists. split; [reflexivity|].
      rewrite filter_all by (intros it Hin; apply N.leb_le; lia).
      rewrite go_parse_3; [| assumption |].
      * f_equal. apply take_lim_limit_list. assumption.
      * apply Hb2. intros it Hin. apply in_limit_list in Hin. assumption.
Qed.

Lemma args_shape cfg since lim rv mttl nonce :
  exists include sinc limit reverse,
    history_stream_args cfg (mkHF since lim rv) mttl nonce
      = [include; sinc; limit; reverse; itoa (meta_ttl_of cfg mttl); nonce] /\
    [include; sinc; limit; reverse; itoa (meta_ttl_of cfg mttl); nonce] =
      (let '(include0, offset) :=
         match since with
         | Some (so, _) =>
             if rv then let o := wrap64 (Z.of_N so - 1) in ((if (o =? 0)%N then "0" else "1"), o)
             else ("1", wrap64 (Z.of_N so + 1))
         | None => ("1", 0%N)
         end in
       [if (lim =? 0)%Z then "0" else include0; dec offset; itoa (if (0 <? lim)%Z then lim else 0%Z);
        if rv then "1" else "0"; itoa (meta_ttl_of cfg mttl); nonce]).
Proof.
  unfold history_stream_args. cbn [hf_since hf_limit hf_reverse].
  destruct since as [[so se]|]; [destruct rv|]; do 4 eexists; split; reflexivity.
Qed.

Lemma stream_inv_new nonce : nonce_ok nonce = true -> stream_inv (stream_new nonce).
Proof.
  intros H. unfold stream_inv, stream_new. cbn. split; [assumption|]. split; [unfold BOUND; lia|]. split; [lia|].
  split; [intros it []|].
  exists 1%N. split; [lia|]. apply contig_nil. reflexivity.
Qed.

Lemma small_meta cfg mttl : cfg_ok cfg = true -> small mttl = true -> small (meta_ttl_of cfg mttl) = true.
Proof.
  unfold cfg_ok, meta_ttl_of. intros H1 H2. apply andb_true_iff in H1 as [_ H1]. destruct (mttl =? 0)%Z; assumption.
Qed.

Lemma set_removes_now cfg m c z : m_now (set_removes cfg m c z) = m_now m.
Proof. unfold set_removes. destruct (0 <? (if (z =? 0)%Z then c_meta_ttl cfg else z))%Z; reflexivity. Qed.
Lemma set_removes_streams cfg m c z : m_streams (set_removes cfg m c z) = m_streams m.
Proof. unfold set_removes. destruct (0 <? (if (z =? 0)%Z then c_meta_ttl cfg else z))%Z; reflexivity. Qed.
Lemma set_removes_cache cfg m c z : m_cache (set_removes cfg m c z) = m_cache m.
Proof. unfold set_removes. destruct (0 <? (if (z =? 0)%Z then c_meta_ttl cfg else z))%Z; reflexivity. Qed.

Lemma step_history U P cfg rs ms c f mttl nonce :
  cfg_ok cfg = true -> keys_ok U P -> In c U -> R U P rs ms ->
  op_ok ms (OpHistory c f mttl nonce) = true -> step_goal U P cfg rs ms (OpHistory c f mttl nonce).
Proof.
  intros Hcfg HK Hc HR Hok. destruct f as [since lim rv].
  cbn [op_ok hf_since hf_limit hf_reverse] in Hok.
  apply andb_true_iff in Hok as [Hok Hsince]. apply andb_true_iff in Hok as [Hok Hlim].
  apply andb_true_iff in Hok as [Hnonce Hmttl]. apply Z.ltb_lt in Hlim.
  pose proof (small_meta _ _ Hcfg Hmttl) as Hmz.
  assert (Hsok : since_ok (top_of ms c) (mkHF since lim rv)).
  { unfold since_ok. cbn [hf_since hf_reverse]. destruct since as [[so se]|]; [|exact I].
    apply andb_true_iff in Hsince as [A B]. apply N.ltb_lt in A. split; [assumption|].
    intros ->. cbn [negb orb] in B. apply andb_true_iff in B as [B1 B2]. apply N.leb_le in B1, B2. split; assumption. }
  unfold step_goal, rb_step. rewrite (cfg_ok_lists _ Hcfg). rewrite rb_history_stream_eq.
  destruct (args_shape cfg since lim rv mttl nonce) as (include & sinc & limit & reverse & Ha & Hb).
  rewrite Ha. cbn zeta. cbn [nth]. rewrite sh_history_stream_eq. unfold runM, bindM.
  cbn [mb_step]. rewrite hub_get_eq. cbn zeta.
  pose proof (R_chan _ _ _ _ HR c Hc) as Hrel. unfold top_of in Hsok.
  assert (Hsm : stream_key c <> meta_key false c) by (apply (K_sm _ _ HK); assumption).
  destruct (sfind c (m_streams ms)) as [s|] eqn:Es.
  - (* the stream exists *)
    pose proof (R_inv _ _ _ _ HR c s Es) as Hinv.
    destruct Hrel as [(h & x & Hg & He & Hs' & Hv & Hve) Hstrm].
    destruct (history_meta_some (clear_outbox rs) (meta_key false c) _ nonce h x _ Hmz Hg He) as (st1 & Hm & Hu).
    rewrite Hm. destruct Hu as ((x1 & Hg1) & Hfr & Hnow & Hout).
    assert (Hstrm1 : strm_rel st1 c (ms_items s) (ms_top s)).
    { unfold strm_rel in *. rewrite (Hfr _ Hsm). exact Hstrm. }
    rewrite Hs'. change (match (if (ms_top s =? 0)%N then None else Some (dec (ms_top s))) with
                         | Some s0 => RBulk s0 | None => RInt 0 end) with
      (match (if (ms_top s =? 0)%N then None else Some (dec (ms_top s))) with Some s0 => RBulk s0 | None => RInt 0 end).
    replace (match (if (ms_top s =? 0)%N then None else Some (dec (ms_top s))) with
             | Some s0 => RBulk s0 | None => RInt 0 end) with (topr (ms_top s))
      by (unfold topr; destruct (ms_top s =? 0)%N; reflexivity).
    destruct (hist_rest st1 c s since lim rv _ nonce Hstrm1 Hinv Hsok Hlim _ _ _ _ Hb) as (r & Hr & Hp).
    rewrite Hr, Hp. rewrite Hout. cbn [clear_outbox outbox deliveries position fst snd].
    rewrite (hist_pubs_sel _ _ Hinv Hsok).
    split; [reflexivity|].
    apply (R_update U P rs ms _ _ c "" (Some s)); try assumption.
    + left; reflexivity.
    + cbn. rewrite Hnow. apply (R_now _ _ _ _ HR).
    + rewrite set_removes_now. apply (R_mnow _ _ _ _ HR).
    + intros key Hk1 _ _. change (getk st1 key = getk (clear_outbox rs) key). apply Hfr. assumption.
    + intros ch. rewrite set_removes_streams.
      destruct (String.eqb ch c) eqn:E; [apply String.eqb_eq in E; subst; assumption | reflexivity].
    + intros ch' k' _ _. unfold cache_get. rewrite set_removes_cache, set_removes_now. reflexivity.
    + split.
      * exists h, x1. change (getk (clear_outbox st1) (meta_key false c)) with (getk st1 (meta_key false c)).
        repeat split; assumption.
      * exact Hstrm1.
    + intros s0 E0. injection E0 as <-. assumption.
    + intros X. congruence.
  - (* first access: the stream (meta) is created with this call's nonce *)
    destruct Hrel as [Hgm Hgs].
    destruct (history_meta_none (clear_outbox rs) (meta_key false c) _ nonce Hmz Hgm) as (st1 & Hm & Hu).
    rewrite Hm. destruct Hu as ((x1 & Hg1) & Hfr & Hnow & Hout).
    pose proof (stream_inv_new _ Hnonce) as Hinv.
    assert (Hstrm1 : strm_rel st1 c (ms_items (stream_new nonce)) (ms_top (stream_new nonce))).
    { unfold strm_rel. cbn [ms_items stream_new]. rewrite (Hfr _ Hsm). exact Hgs. }
    change (RInt 0) with (topr (ms_top (stream_new nonce))).
    change nonce with (ms_epoch (stream_new nonce)) at 2.
    destruct (hist_rest st1 c (stream_new nonce) since lim rv _ nonce Hstrm1 Hinv Hsok Hlim _ _ _ _ Hb) as (r & Hr & Hp).
    rewrite Hr, Hp. rewrite Hout. cbn [clear_outbox outbox deliveries position fst snd].
    rewrite <- (hist_pubs_sel _ _ Hinv Hsok), hist_pubs_new.
    split; [reflexivity|].
    apply (R_update U P rs ms _ _ c "" (Some (stream_new nonce))); try assumption.
    + left; reflexivity.
    + cbn. rewrite Hnow. apply (R_now _ _ _ _ HR).
    + unfold set_stream. cbn [m_now]. rewrite set_removes_now. apply (R_mnow _ _ _ _ HR).
    + intros key Hk1 _ _. change (getk st1 key = getk (clear_outbox rs) key). apply Hfr. assumption.
    + intros ch. unfold set_stream. cbn [m_streams]. rewrite set_removes_streams.
      destruct (String.eqb ch c) eqn:E;
         [apply String.eqb_eq in E; subst; apply sfind_sput_same
         | apply String.eqb_neq in E; apply sfind_sput_other; assumption].
    + intros ch' k' _ _. unfold set_stream, cache_get. cbn [m_cache m_now]. rewrite set_removes_cache, set_removes_now. reflexivity.
    + split.
      * exists [("e", nonce)], x1. change (getk (clear_outbox st1) (meta_key false c)) with (getk st1 (meta_key false c)).
        repeat split; try assumption; reflexivity.
      * exact Hstrm1.
    + intros s0 E0. injection E0 as <-. assumption.
    + intros X. congruence.
Qed.
