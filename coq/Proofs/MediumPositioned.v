(* C38: every run of the composed system is a run of the connection system (with the
   publications the medium skipped never delivered and the marker delivered as LMarker), so
   C01's theorems apply to it; plus what the marker does to an established subscription. *)
From Coq Require Import List NArith Bool Lia.
From Cfg Require Import Model.Merge Model.Positioned Model.PositionedSpec Model.Medium Model.MediumPositioned
  Proofs.PositionedLib Proofs.Positioned Proofs.PositionedInv Proofs.PositionedEnd Proofs.Medium.
Import ListNotations.
Open Scope N_scope.

Lemma run_app : forall c a b s, run c s (a ++ b) = match run c s a with Some s' => run c s' b | None => None end.
Proof.
  induction a as [|l a IH]; intros b s; cbn [app run]; [reflexivity|].
  destruct (step c s l); [apply IH|reflexivity].
Qed.

Lemma run_snoc : forall c ls s s' l s'', run c s ls = Some s' -> step c s' l = Some s'' -> run c s (ls ++ [l]) = Some s''.
Proof. intros c ls s s' l s'' H1 H2. rewrite run_app, H1. cbn. rewrite H2. reflexivity. Qed.

(* simulation: the connection component of a composed run is reachable in Model/Positioned.v *)
Lemma xstep_sim : forall c o x l x' pls,
  run c init pls = Some (xp x) -> xstep c o x l = Some x' ->
  exists pls', run c init pls' = Some (xp x').
Proof.
  intros c o x l x' pls Hr H. destruct l; cbn [xstep] in H.
  - destruct (step c (xp x) (LPublish f hsize)) as [p'|] eqn:E; [|discriminate].
    destruct (mstep o (xm x) _) as [[m' r]|]; [|discriminate]. inversion H; subst. cbn [xp].
    exists (pls ++ [LPublish f hsize]). eapply run_snoc; eauto.
  - destruct l; try discriminate;
      destruct (mstep o (xm x) _) as [[m' r]|]; try discriminate; inversion H; subst; cbn [xp]; eauto.
  - destruct (nth_error (mout (xm x)) (xfwd x)) as [[off sz|]|]; [| |discriminate].
    + destruct (find_tok off (b_ep (xp x)) (fl (xp x)) 0) as [i|].
      * destruct (step c (xp x) (LDeliver i false)) as [p'|] eqn:E; [|discriminate]. inversion H; subst. cbn [xp].
        exists (pls ++ [LDeliver i false]). eapply run_snoc; eauto.
      * inversion H; subst. cbn [xp]. eauto.
    + destruct (step c (xp x) LMarker) as [p1|] eqn:E1; [|discriminate].
      destruct (step c p1 (LDeliver (length (fl (xp x))) false)) as [p2|] eqn:E2; [|discriminate].
      inversion H; subst. cbn [xp].
      exists ((pls ++ [LMarker]) ++ [LDeliver (length (fl (xp x))) false]).
      eapply run_snoc; [eapply run_snoc; eauto|exact E2].
  - destruct (env_label l); [discriminate|].
    destruct (step c (xp x) l) as [p'|] eqn:E; [|discriminate]. inversion H; subst. cbn [xp].
    exists (pls ++ [l]). eapply run_snoc; eauto.
Qed.

Lemma xrun_sim : forall c o ls x x' pls,
  run c init pls = Some (xp x) -> xrun c o x ls = Some x' ->
  exists pls', run c init pls' = Some (xp x').
Proof.
  induction ls as [|l ls IH]; intros x x' pls Hr H; cbn [xrun] in H.
  - inversion H; subst. eauto.
  - destruct (xstep c o x l) as [x1|] eqn:E; [|discriminate].
    destruct (xstep_sim c o x l x1 pls Hr E) as [pls1 H1]. eapply IH; eauto.
Qed.

(* the medium component of a composed run is a run of Model/Medium.v *)
Lemma xstep_medium : forall c o x l x', xstep c o x l = Some x' ->
  xm x' = xm x \/ exists ml r, mstep o (xm x) ml = Some (xm x', r).
Proof.
  intros c o x l x' H. destruct l; cbn [xstep] in H.
  - destruct (step c (xp x) _); [|discriminate].
    destruct (mstep o (xm x) (MBroadcast (b_top (xp x) + 1) bytes now)) as [[m' r]|] eqn:E; [|discriminate].
    inversion H; subst. right. eauto.
  - destruct l; try discriminate;
      match type of H with context [mstep o (xm x) ?ml] => destruct (mstep o (xm x) ml) as [[m' r]|] eqn:E end;
      try discriminate; inversion H; subst; right; eauto.
  - destruct (nth_error _ _) as [[off sz|]|]; [| |discriminate].
    + destruct (find_tok _ _ _ _); [destruct (step c (xp x) _); [|discriminate]|]; inversion H; subst; left; reflexivity.
    + destruct (step c (xp x) LMarker); [|discriminate]. destruct (step c s _); [|discriminate].
      inversion H; subst; left; reflexivity.
  - destruct (env_label l); [discriminate|]. destruct (step c (xp x) l); [|discriminate]. inversion H; subst; left; reflexivity.
Qed.

Lemma xrun_medium_inv : forall c o ls x x', MInv o (xm x) -> xrun c o x ls = Some x' -> MInv o (xm x').
Proof.
  induction ls as [|l ls IH]; intros x x' I H; cbn [xrun] in H.
  - inversion H; subst. exact I.
  - destruct (xstep c o x l) as [x1|] eqn:E; [|discriminate].
    eapply IH; [|exact H].
    destruct (xstep_medium c o x l x1 E) as [->|(ml & r & Em)]; [exact I|].
    eapply mstep_inv; eauto.
Qed.

(* ---- the composed theorems ---- *)

(* with the medium in the path (any options, any schedule of publishes, writer iterations,
   shared position checks, close, forwarding and connection-side steps) a positioned
   subscription still satisfies C01's specification: strictly increasing offsets above the
   announced position, every offset up to the last delivered one delivered or withheld by the
   filter -- i.e. it is never moved past a publication the medium lost -- and nothing
   positioned is written after its end; and what the medium forwards is a subsequence of what
   it was given *)
Theorem c38_composed : forall c o now ls x,
  good c -> xrun c o (xinit now) ls = Some x ->
  C01Spec (g_log (xp x)) (log (xp x)) /\
  no_pub_after_end (log (xp x)) = true /\
  Sub (mout (xm x)) (g_in (xm x)).
Proof.
  intros c o now ls x Hg H.
  destruct (xrun_sim c o ls (xinit now) x [] eq_refl H) as [pls Hp].
  split; [eapply c01_all_schedules; eauto|]. split.
  - eapply c01_no_pub_after_end; eauto. apply Hg.
  - destruct (v_sub o (xm x) (xrun_medium_inv c o ls (xinit now) x (minit_inv o now) H)) as [cc [S1 S2]].
    eapply Sub_trans; [exact S1|]. eapply Sub_app_l. exact S2.
Qed.

(* the marker ends an established positioned subscription and leaves a non-positioned one
   alone: forwarding it and running its position check spawns the insufficient-state
   unsubscribe / disconnect (C01_pending_ends_client, C01_pending_ends_server), writes nothing and keeps the position *)
Theorem c38_marker_effect : forall c o x pos pep,
  nth_error (mout (xm x)) (xfwd x) = Some QInsuff ->
  ch (xp x) = Positioned.Sub pos pep -> dl (xp x) = DIdle -> hub (xp x) = true -> ps_entry (xp x) = false ->
  exists x', xrun c o x [XForward; XPos LCheck] = Some x' /\
             log (xp x') = log (xp x) /\ ch (xp x') = ch (xp x) /\ dl (xp x') = DIdle /\
             pending (xp x') = (if c_pos c then S (pending (xp x)) else pending (xp x)).
Proof.
  intros c o x pos pep Hn Hch Hd Hh He.
  cbn [xrun xstep]. rewrite Hn.
  assert (S1 : step c (xp x) LMarker = Some (set_fl (xp x) (fl (xp x) ++ [TMark]))) by reflexivity.
  rewrite S1.
  set (p1 := set_fl (xp x) (fl (xp x) ++ [TMark])).
  assert (S2 : step c p1 (LDeliver (length (fl (xp x))) false) =
               Some (set_dl (set_fl p1 (remove_nth (length (fl (xp x))) (fl p1))) DMark)).
  { unfold step, dl_idle. change (dl p1) with (dl (xp x)). rewrite Hd. cbn [negb].
    change (fl p1) with (fl (xp x) ++ [TMark]).
    rewrite nth_error_app2 by lia. rewrite PeanoNat.Nat.sub_diag. cbn [nth_error].
    change (hub p1) with (hub (xp x)). rewrite Hh. cbn [negb].
    change (ps_entry p1) with (ps_entry (xp x)). rewrite He. reflexivity. }
  rewrite S2. cbn [xp xm xfwd env_label].
  set (p2 := set_dl (set_fl p1 (remove_nth (length (fl (xp x))) (fl p1))) DMark).
  assert (S3 : step c p2 LCheck = Some (if c_pos c then set_dl (set_pending p2 (S (pending p2))) DIdle else set_dl p2 DIdle)).
  { unfold step. change (dl p2) with DMark. change (ch p2) with (ch (xp x)). rewrite Hch.
    destruct (c_pos c); reflexivity. }
  rewrite S3. eexists. split; [reflexivity|]. cbn [xp].
  destruct (c_pos c); cbn; auto.
Qed.
