(* C31 proofs, close frames: UTF-8 validity against RFC 3629, the received close code table for all
   65536 codes, rejection of forbidden close payloads, the close frame written by transport.Close,
   first-close-wins for all event sequences. *)
From Coq Require Import List NArith Bool Arith Lia ZifyN ZifyNat ZifyBool.
From Cfg Require Import Gen.WsConst Model.WsUtf8 Model.WsClose Model.WsCloseSpec Proofs.WsLib.
Import ListNotations.
Open Scope N_scope.

(* ---------------------------------------------------------------- UTF-8 *)

Ltac b2p :=
  repeat match goal with
  | H : _ && _ = true |- _ => apply andb_true_iff in H; destruct H
  | H : (_ <? _) = true |- _ => apply N.ltb_lt in H
  | H : (_ <? _) = false |- _ => apply N.ltb_ge in H
  | H : (_ <=? _) = true |- _ => apply N.leb_le in H
  | H : (_ <=? _) = false |- _ => apply N.leb_gt in H
  | H : (_ =? _) = true |- _ => apply N.eqb_eq in H
  | H : (_ =? _) = false |- _ => apply N.eqb_neq in H
  end.

Lemma cont_tail : forall c, utf8_cont c = true -> utf8_tail c.
Proof. intros c H. unfold utf8_cont in H. b2p. split; assumption. Qed.

Lemma tail_cont : forall c, utf8_tail c -> utf8_cont c = true.
Proof.
  intros c [H1 H2]. unfold utf8_cont. apply andb_true_iff. split; apply N.leb_le; assumption.
Qed.

Lemma utf8_valid_wf_n : forall n s, (length s <= n)%nat -> utf8_valid s = true -> utf8_wf s.
Proof.
  induction n as [|n IH]; intros s Hl H.
  - destruct s; [constructor|simpl in Hl; lia].
  - destruct s as [|c0 r0]; [constructor|]. simpl in Hl. simpl in H.
    destruct (c0 <? 128) eqn:E1.
    { b2p. apply (UCons [c0] r0); [apply U1; lia|apply IH; [lia|exact H]]. }
    destruct ((194 <=? c0) && (c0 <=? 223)) eqn:E2.
    { destruct r0 as [|c1 r1]; [discriminate|]. simpl in Hl. b2p.
      apply (UCons [c0; c1] r1); [apply U2; [split; assumption|apply cont_tail; assumption]|apply IH; [lia|assumption]]. }
    destruct ((224 <=? c0) && (c0 <=? 239)) eqn:E3.
    { destruct r0 as [|c1 [|c2 r2]]; try discriminate. simpl in Hl.
      apply andb_true_iff in H as [H Hr]. apply andb_true_iff in H as [H Hc2].
      apply andb_true_iff in H as [Hlo Hhi]. apply cont_tail in Hc2.
      assert (Hwf : utf8_wf r2) by (apply IH; [lia|exact Hr]).
      unfold utf8_lo3, utf8_hi3 in *.
      destruct (N.eqb_spec c0 224) as [->|N224].
      - simpl in Hhi. b2p. apply (UCons [224; c1; c2] r2); [apply U3a; [split; lia|exact Hc2]|exact Hwf].
      - destruct (N.eqb_spec c0 237) as [->|N237].
        + b2p. apply (UCons [237; c1; c2] r2); [apply U3c; [split; lia|exact Hc2]|exact Hwf].
        + b2p. destruct (N.le_gt_cases c0 236).
          * apply (UCons [c0; c1; c2] r2); [apply U3b; [split; lia|split; lia|exact Hc2]|exact Hwf].
          * apply (UCons [c0; c1; c2] r2); [apply U3d; [split; lia|split; lia|exact Hc2]|exact Hwf]. }
    destruct ((240 <=? c0) && (c0 <=? 244)) eqn:E4; [|discriminate].
    destruct r0 as [|c1 [|c2 [|c3 r3]]]; try discriminate. simpl in Hl.
    apply andb_true_iff in H as [H Hr]. apply andb_true_iff in H as [H Hc3]. apply andb_true_iff in H as [H Hc2].
    apply andb_true_iff in H as [Hlo Hhi]. apply cont_tail in Hc2. apply cont_tail in Hc3.
    assert (Hwf : utf8_wf r3) by (apply IH; [lia|exact Hr]).
    unfold utf8_lo4, utf8_hi4 in *.
    destruct (N.eqb_spec c0 240) as [->|N240].
    + simpl in Hhi. b2p. apply (UCons [240; c1; c2; c3] r3); [apply U4a; [split; lia|exact Hc2|exact Hc3]|exact Hwf].
    + destruct (N.eqb_spec c0 244) as [->|N244].
      * b2p. apply (UCons [244; c1; c2; c3] r3); [apply U4c; [split; lia|exact Hc2|exact Hc3]|exact Hwf].
      * b2p. apply (UCons [c0; c1; c2; c3] r3); [apply U4b; [split; lia|split; lia|exact Hc2|exact Hc3]|exact Hwf].
Qed.

Ltac cmp_lia :=
  repeat match goal with
  | |- context [?a <? ?b] =>
      first [ replace (a <? b) with true by (symmetry; apply N.ltb_lt; lia)
            | replace (a <? b) with false by (symmetry; apply N.ltb_ge; lia) ]
  | |- context [?a <=? ?b] =>
      first [ replace (a <=? b) with true by (symmetry; apply N.leb_le; lia)
            | replace (a <=? b) with false by (symmetry; apply N.leb_gt; lia) ]
  | |- context [?a =? ?b] =>
      first [ replace (a =? b) with true by (symmetry; apply N.eqb_eq; lia)
            | replace (a =? b) with false by (symmetry; apply N.eqb_neq; lia) ]
  end.

Lemma utf8_char_valid : forall ch rest, utf8_char ch -> utf8_valid (ch ++ rest) = utf8_valid rest.
Proof.
  intros ch rest H.
  destruct H; unfold utf8_tail, in_range in *; simpl app; cbn [utf8_valid];
    unfold utf8_lo3, utf8_hi3, utf8_lo4, utf8_hi4, utf8_cont;
    repeat match goal with H : _ /\ _ |- _ => destruct H end;
    cmp_lia; simpl; cmp_lia; simpl; reflexivity.
Qed.

Theorem utf8_valid_iff_wf : forall s, utf8_valid s = true <-> utf8_wf s.
Proof.
  intro s. split.
  - apply (utf8_valid_wf_n (length s)). lia.
  - induction 1 as [|ch rest Hc Hw IH]; [reflexivity|].
    rewrite utf8_char_valid; assumption.
Qed.

(* ---------------------------------------------------------------- close codes, all 65536 *)

Definition code_row_ok (c : N) : bool :=
  Bool.eqb (is_valid_received_close_code c) (rfc_close_defined c || (c =? 1012) || (c =? 1013)).

Lemma all_codes_checked : forallb code_row_ok (n_range 0 (N.to_nat 65536)) = true.
Proof. vm_compute. reflexivity. Qed.

(* the code's table, as it is in the source now, against RFC 6455 section 7.4 *)
Theorem close_code_table : forall c, c < 65536 ->
    is_valid_received_close_code c = rfc_close_defined c || (c =? 1012) || (c =? 1013).
Proof.
  intros c H. apply eqb_prop. apply (forall_below code_row_ok (N.to_nat 65536) all_codes_checked). lia.
Qed.

Theorem close_code_forbidden_rejected : forall c, c < 65536 ->
    rfc_close_forbidden c = true -> is_valid_received_close_code c = false.
Proof.
  intros c H F. rewrite close_code_table by exact H.
  unfold rfc_close_forbidden, iana_close_registered in F.
  apply andb_true_iff in F as [F1 F2]. apply negb_true_iff in F1, F2. rewrite F1. simpl.
  destruct (N.eqb_spec c 1012) as [->|]; [vm_compute in F2; discriminate|].
  destruct (N.eqb_spec c 1013) as [->|]; [vm_compute in F2; discriminate|]. reflexivity.
Qed.

Theorem close_code_defined_accepted : forall c, c < 65536 ->
    rfc_close_defined c = true -> is_valid_received_close_code c = true.
Proof. intros c H D. rewrite close_code_table by exact H. rewrite D. reflexivity. Qed.

(* 1014 (IANA: bad gateway) is the one registered code the table does not accept *)
Theorem close_code_1014_rejected : is_valid_received_close_code 1014 = false.
Proof. vm_compute. reflexivity. Qed.

(* ---------------------------------------------------------------- write_control_close facts *)

Definition bytes_ok (l : list N) : Prop := Forall (fun x => x < 256) l.

Lemma be16_bound : forall a b, a < 256 -> b < 256 -> be16 a b < 65536.
Proof. intros. unfold be16. lia. Qed.

Lemma record_fresh : forall st code incoming,
    recorded st = 0 -> code <> 0 -> code < 65536 ->
    recorded (record_close_code st code incoming) = (if incoming then code + 65536 else code)
    /\ close_sent (record_close_code st code incoming) = close_sent st
    /\ write_failed (record_close_code st code incoming) = write_failed st
    /\ read_dead (record_close_code st code incoming) = read_dead st
    /\ t_closed (record_close_code st code incoming) = t_closed st.
Proof.
  intros st code inc H0 Hc Hm. unfold record_close_code, record_close_code_max.
  destruct (N.eqb_spec code 0); [contradiction|]. destruct (N.ltb_spec 65535 code); [lia|]. simpl.
  rewrite H0. simpl. auto.
Qed.

Lemma record_keeps : forall st code incoming,
    recorded st <> 0 -> record_close_code st code incoming = st.
Proof.
  intros st code inc H. unfold record_close_code.
  destruct ((code =? 0) || (record_close_code_max <? code)); auto.
  destruct (N.eqb_spec (recorded st) 0); [contradiction|reflexivity].
Qed.

Lemma record_other_fields : forall st code incoming,
    close_sent (record_close_code st code incoming) = close_sent st
    /\ write_failed (record_close_code st code incoming) = write_failed st
    /\ read_dead (record_close_code st code incoming) = read_dead st
    /\ t_closed (record_close_code st code incoming) = t_closed st.
Proof.
  intros st code inc. unfold record_close_code.
  destruct ((code =? 0) || (record_close_code_max <? code)); auto.
  destruct (recorded st =? 0); auto.
Qed.

Lemma close_code_outgoing : forall st c, recorded st = c -> c <> 0 -> c < 65536 -> close_code st = (c, false).
Proof.
  intros st c H Hc Hm. unfold close_code. rewrite H.
  destruct (N.eqb_spec c 0); [contradiction|]. rewrite N.mod_small by lia.
  destruct (N.leb_spec 65536 c); [lia|reflexivity].
Qed.

Lemma close_code_incoming : forall st c, recorded st = c + 65536 -> c < 65536 -> close_code st = (c, true).
Proof.
  intros st c H Hm. unfold close_code. rewrite H.
  destruct (N.eqb_spec (c + 65536) 0); [lia|].
  replace ((c + 65536) mod 65536) with c.
  2:{ rewrite N.add_mod by lia. rewrite N.mod_same by lia. rewrite N.add_0_r. rewrite N.mod_mod by lia. rewrite N.mod_small by lia. reflexivity. }
  destruct (N.leb_spec 65536 (c + 65536)); [reflexivity|lia].
Qed.

(* the status code WriteControl extracts from a payload is the one the spec reads from the frame *)
Lemma data_code : forall data,
    match data with a :: b :: _ => be16 a b | _ => c_CloseNoStatusReceived end = payload_code data.
Proof. intros [|a [|b r]]; reflexivity. Qed.

Lemma payload_code_bound : forall data, bytes_ok data -> payload_code data < 65536.
Proof.
  intros [|a [|b r]] H; simpl; try lia. inversion H as [|? ? Ha H1]; subst. inversion H1 as [|? ? Hb _]; subst. lia.
Qed.

(* a close write on a connection that is open and has not sent a close yet *)
Lemma wcc_fresh : forall st data,
    N.of_nat (length data) <= 125 ->
    close_sent st = false -> write_failed st = false -> t_closed st = false ->
    exists st', write_control_close st data = (st', [data], WOk)
                /\ st' = mkC (recorded (record_close_code st (payload_code data) false)) true false (read_dead st) false.
Proof.
  intros st data Hl Hs Hw Ht. unfold write_control_close, c_maxControlFramePayloadSize.
  destruct (N.ltb_spec 125 (N.of_nat (length data))); [lia|].
  rewrite data_code.
  destruct (record_other_fields st (payload_code data) false) as [E1 [E2 [E3 E4]]].
  rewrite E1, E2, E4, Hs, Hw, Ht, E3. eexists. split; reflexivity.
Qed.

(* ---------------------------------------------------------------- received close frames *)

Lemma firstn_length_le : forall (l : list N) n, (length (firstn n l) <= n)%nat.
Proof. intros. apply firstn_le_length. Qed.

Theorem recv_close_rejects : forall st a b text msg,
    a < 256 -> b < 256 ->
    read_dead st = false -> t_closed st = false ->
    rfc_close_forbidden (be16 a b) = true \/ utf8_valid text = false ->
    exists st' w,
      recv_close st (a :: b :: text) msg = (st', w, RProtoErr)
      /\ read_dead st' = true
      /\ (recorded st' = recorded st \/ (recorded st = 0 /\ recorded st' = 1002))
      /\ (close_sent st = false -> write_failed st = false ->
          exists f, w = [f] /\ payload_code f = 1002).
Proof.
  intros st a b text msg Ha Hb Hd Ht Hbad. unfold recv_close. rewrite Hd, Ht. simpl orb. cbv iota.
  assert (Hpe : exists st1 w, handle_protocol_error st msg = (st1, w)
            /\ read_dead st1 = read_dead st /\ t_closed st1 = t_closed st
            /\ (recorded st1 = recorded st \/ (recorded st = 0 /\ recorded st1 = 1002))
            /\ (close_sent st = false -> write_failed st = false -> exists f, w = [f] /\ payload_code f = 1002)).
  { unfold handle_protocol_error.
    set (data := firstn (N.to_nat c_maxControlFramePayloadSize) (format_close_message c_CloseProtocolError msg)).
    assert (Hdata : exists tl, data = 3 :: 234 :: tl).
    { unfold data. unfold format_close_message. simpl. eexists. reflexivity. }
    destruct Hdata as [tl Hdata].
    assert (Hlen : N.of_nat (length data) <= 125).
    { unfold data. pose proof (firstn_length_le (format_close_message c_CloseProtocolError msg) (N.to_nat c_maxControlFramePayloadSize)).
      unfold c_maxControlFramePayloadSize in *. lia. }
    unfold write_control_close, c_maxControlFramePayloadSize.
    destruct (N.ltb_spec 125 (N.of_nat (length data))); [lia|].
    rewrite Hdata. change (be16 3 234) with 1002. rewrite <- Hdata.
    destruct (record_other_fields st 1002 false) as [E1 [E2 [E3 E4]]].
    assert (Hrec : recorded (record_close_code st 1002 false) = recorded st
                   \/ (recorded st = 0 /\ recorded (record_close_code st 1002 false) = 1002)).
    { destruct (N.eq_dec (recorded st) 0) as [Z|NZ].
      - right. split; auto. destruct (record_fresh st 1002 false Z ltac:(lia) ltac:(lia)) as [R _]. exact R.
      - left. rewrite record_keeps; auto. }
    rewrite E1, E2, E4.
    destruct (close_sent st) eqn:Cs.
    - eexists _, _. split; [reflexivity|]. repeat split; auto; try (intros; discriminate).
    - destruct (write_failed st) eqn:Wf.
      + eexists _, _. split; [reflexivity|]. repeat split; auto; try (intros; discriminate).
      + rewrite Ht. eexists _, _. split; [reflexivity|]. simpl. rewrite E3. repeat split; auto.
        intros _ _. exists data. split; [reflexivity|rewrite Hdata; reflexivity]. }
  destruct Hpe as [st1 [w [Epe [R1 [R2 [R3 R4]]]]]].
  assert (Hv : negb (is_valid_received_close_code (be16 a b)) = true \/
               (negb (is_valid_received_close_code (be16 a b)) = false /\ negb (utf8_valid text) = true)).
  { destruct Hbad as [F|U].
    - left. rewrite (close_code_forbidden_rejected _ (be16_bound a b Ha Hb) F). reflexivity.
    - destruct (is_valid_received_close_code (be16 a b)); [right; rewrite U; auto|left; reflexivity]. }
  destruct Hv as [V|[V U]].
  - rewrite V. rewrite Epe. eexists _, _. split; [reflexivity|]. simpl. auto.
  - rewrite V, U. rewrite Epe. eexists _, _. split; [reflexivity|]. simpl. auto.
Qed.

Theorem recv_close_accepts : forall st a b text msg,
    a < 256 -> b < 256 ->
    read_dead st = false -> t_closed st = false ->
    rfc_close_defined (be16 a b) = true -> utf8_valid text = true ->
    exists st' w, recv_close st (a :: b :: text) msg = (st', w, RClose (be16 a b) text)
                  /\ (recorded st = 0 -> close_code st' = (be16 a b, true)).
Proof.
  intros st a b text msg Ha Hb Hd Ht Hdef Hu. unfold recv_close. rewrite Hd, Ht. simpl orb. cbv iota.
  pose proof (be16_bound a b Ha Hb) as Hbd.
  rewrite (close_code_defined_accepted _ Hbd Hdef), Hu. simpl negb. cbv iota.
  destruct (write_control_close (record_close_code st (be16 a b) true) (format_close_message (be16 a b) [])) as [[st2 w] r] eqn:Ew.
  eexists _, _. split; [reflexivity|]. intro Z.
  assert (Hnz : be16 a b <> 0).
  { intro E. rewrite E in Hdef. vm_compute in Hdef. discriminate. }
  destruct (record_fresh st (be16 a b) true Z Hnz Hbd) as [R _].
  assert (Hrec2 : recorded st2 = be16 a b + 65536).
  { unfold write_control_close in Ew.
    destruct (c_maxControlFramePayloadSize <? _); [inversion Ew; subst; exact R|].
    set (st1 := record_close_code st (be16 a b) true) in *.
    rewrite (record_keeps st1) in Ew by (rewrite R; lia).
    destruct (close_sent st1); [inversion Ew; subst; exact R|].
    destruct (write_failed st1); [inversion Ew; subst; exact R|].
    destruct (t_closed st1); inversion Ew; subst; exact R. }
  apply close_code_incoming; [|exact Hbd]. simpl. exact Hrec2.
Qed.

(* ---------------------------------------------------------------- transport.Close *)

Lemma format_close_payload : forall code reason,
    code <= 65535 -> code <> 1005 -> format_close_message code reason = close_payload code reason.
Proof.
  intros code reason Hc Hn. unfold format_close_message, close_payload, c_CloseNoStatusReceived.
  destruct (N.eqb_spec code 1005); [contradiction|].
  rewrite (N.mod_small (code / 256)); [reflexivity|]. apply N.div_lt_upper_bound; lia.
Qed.

Lemma close_payload_code : forall code reason, payload_code (close_payload code reason) = code.
Proof.
  intros code reason. unfold close_payload, payload_code.
  rewrite (N.div_mod code 256) at 3 by lia. lia.
Qed.

Theorem transport_close_fits : forall st code reason,
    t_closed st = false -> close_sent st = false -> write_failed st = false ->
    fits_close_frame code reason = true ->
    exists st', transport_close st code reason = (st', [close_payload code reason])
                /\ t_closed st' = true
                /\ (recorded st = 0 -> close_code st' = (code, false)).
Proof.
  intros st code reason Ht Hs Hw Hf. unfold fits_close_frame in Hf.
  repeat (apply andb_true_iff in Hf as [Hf ?H]). b2p.
  apply negb_true_iff in H0, H1. b2p.
  unfold transport_close, disconnect_connection_closed_code. rewrite Ht.
  destruct (N.eqb_spec code 3000); [contradiction|].
  rewrite format_close_payload by lia.
  destruct (wcc_fresh st (close_payload code reason)) as [st' [E1 E2]]; auto.
  { unfold close_payload. simpl length. lia. }
  rewrite E1. eexists. split; [reflexivity|]. split; [reflexivity|].
  intro Z. simpl. rewrite E2. rewrite close_payload_code.
  destruct (record_fresh st code false Z ltac:(lia) ltac:(lia)) as [R _].
  apply close_code_outgoing; [|lia|lia]. simpl. exact R.
Qed.

(* a reason that does not fit is not truncated: no frame at all, the connection is closed *)
Theorem transport_close_too_long : forall st code reason,
    code <> 1005 -> 125 < 2 + N.of_nat (length reason) ->
    snd (transport_close st code reason) = [].
Proof.
  intros st code reason Hn Hl. unfold transport_close.
  destruct (t_closed st); [reflexivity|].
  destruct (code =? disconnect_connection_closed_code); [reflexivity|].
  unfold write_control_close, format_close_message, c_CloseNoStatusReceived, c_maxControlFramePayloadSize.
  destruct (N.eqb_spec code 1005); [contradiction|].
  simpl length.
  destruct (N.ltb_spec 125 (N.of_nat (S (S (length reason))))); [reflexivity|lia].
Qed.

(* ---------------------------------------------------------------- first close wins *)

Definition event_wf (e : event) : Prop :=
  match e with
  | EvWriteClose data => bytes_ok data /\ payload_code data <> 0
  | EvTransportClose code reason =>
      bytes_ok reason /\ (code <> 1005 -> be16 ((code / 256) mod 256) (code mod 256) <> 0)
  | EvRecvClose payload _ => bytes_ok payload
  end.

Definition inv (st : cstate) : Prop :=
  (close_sent st = true -> recorded st <> 0) /\ (write_failed st = true -> t_closed st = true).

Lemma wcc_keep : forall st data, recorded st <> 0 ->
    recorded (fst (fst (write_control_close st data))) = recorded st.
Proof.
  intros st data H. unfold write_control_close.
  destruct (c_maxControlFramePayloadSize <? _); [reflexivity|].
  rewrite record_keeps by exact H.
  destruct (close_sent st); [reflexivity|]. destruct (write_failed st); [reflexivity|].
  destruct (t_closed st); reflexivity.
Qed.

Lemma hpe_keep : forall st msg, recorded st <> 0 -> recorded (fst (handle_protocol_error st msg)) = recorded st.
Proof.
  intros st msg H. unfold handle_protocol_error.
  pose proof (wcc_keep st (firstn (N.to_nat c_maxControlFramePayloadSize) (format_close_message c_CloseProtocolError msg)) H) as K.
  destruct (write_control_close st _) as [[s w] r]. simpl in *. exact K.
Qed.

Lemma recv_keep : forall st payload msg, recorded st <> 0 ->
    recorded (fst (fst (recv_close st payload msg))) = recorded st.
Proof.
  intros st payload msg H. unfold recv_close. destruct (read_dead st || t_closed st); [reflexivity|].
  assert (Hecho : forall c t, recorded (fst (fst (
      let '(st2, w, _) := write_control_close (record_close_code st c true) (format_close_message c []) in
      (mkC (recorded st2) (close_sent st2) (write_failed st2) true (t_closed st2), w, RClose c t)))) = recorded st).
  { intros c t. rewrite record_keeps by exact H.
    pose proof (wcc_keep st (format_close_message c []) H) as K.
    destruct (write_control_close st _) as [[s w] r]. exact K. }
  destruct payload as [|a [|b text]].
  + apply Hecho.
  + destruct close_body1_rejected.
    * pose proof (hpe_keep st msg H) as K. destruct (handle_protocol_error st msg) as [s w]. exact K.
    * apply Hecho.
  + destruct (negb (is_valid_received_close_code (be16 a b))).
    * pose proof (hpe_keep st msg H) as K. destruct (handle_protocol_error st msg) as [s w]. exact K.
    * destruct (negb (utf8_valid text)).
      -- pose proof (hpe_keep st msg H) as K. destruct (handle_protocol_error st msg) as [s w]. exact K.
      -- apply Hecho.
Qed.

Lemma step_keep : forall st e, recorded st <> 0 -> recorded (fst (step st e)) = recorded st.
Proof.
  intros st e H. destruct e as [data|code reason|payload msg]; simpl.
  - pose proof (wcc_keep st data H) as K. destruct (write_control_close st data) as [[s w] r]. exact K.
  - unfold transport_close. destruct (t_closed st); [reflexivity|].
    destruct (code =? disconnect_connection_closed_code); [reflexivity|].
    pose proof (wcc_keep st (format_close_message code reason) H) as K.
    destruct (write_control_close st _) as [[s w] r]. exact K.
  - pose proof (recv_keep st payload msg H) as K. destruct (recv_close st payload msg) as [[s w] r]. exact K.
Qed.

Lemma run_keep : forall es st, recorded st <> 0 -> recorded (fst (run_events st es)) = recorded st.
Proof.
  induction es as [|e es IH]; intros st H; simpl; [reflexivity|].
  pose proof (step_keep st e H) as K. destruct (step st e) as [st1 o]. simpl in K.
  specialize (IH st1 ltac:(rewrite K; exact H)).
  destruct (run_events st1 es) as [st2 os]. simpl in *. congruence.
Qed.

(* once transport.Close ran nothing more is observed *)
Lemma wcc_closed : forall st data, t_closed st = true ->
    snd (fst (write_control_close st data)) = [] /\ t_closed (fst (fst (write_control_close st data))) = true.
Proof.
  intros st data H. unfold write_control_close.
  destruct (c_maxControlFramePayloadSize <? _); [auto|].
  destruct (record_other_fields st (match data with a :: b :: _ => be16 a b | _ => c_CloseNoStatusReceived end) false) as [E1 [E2 [E3 E4]]].
  rewrite E1, E2, E4, H.
  destruct (close_sent st); [simpl; rewrite E4; auto|]. destruct (write_failed st); [simpl; rewrite E4; auto|].
  simpl. auto.
Qed.

Lemma step_closed : forall st e, t_closed st = true ->
    observed_closes (snd (step st e)) = [] /\ t_closed (fst (step st e)) = true.
Proof.
  intros st e H. destruct e as [data|code reason|payload msg]; simpl.
  - destruct (wcc_closed st data H) as [K1 K2]. destruct (write_control_close st data) as [[s w] r]. simpl in *. subst w. auto.
  - unfold transport_close. rewrite H. simpl. auto.
  - unfold recv_close. rewrite H. rewrite orb_true_r. simpl. auto.
Qed.

Lemma run_closed : forall es st, t_closed st = true -> flat_map observed_closes (snd (run_events st es)) = [].
Proof.
  induction es as [|e es IH]; intros st H; simpl; [reflexivity|].
  destruct (step_closed st e H) as [K1 K2]. destruct (step st e) as [st1 o]. simpl in *.
  specialize (IH st1 K2). destruct (run_events st1 es) as [st2 os]. simpl in *. rewrite K1, IH. reflexivity.
Qed.

(* what one step does on a connection that has recorded nothing yet *)
Lemma step_first : forall st e,
    inv st -> event_wf e -> recorded st = 0 ->
    let '(st1, o) := step st e in
    inv st1 /\
    match observed_closes o with
    | [] => recorded st1 = 0 \/ t_closed st1 = true
    | (c, i) :: _ => close_code st1 = (c, i) /\ recorded st1 <> 0
    end.
Proof.
  intros st e Hinv Hwf Z. pose proof Hinv as [I1 I2].
  assert (Hcs : close_sent st = false).
  { destruct (close_sent st) eqn:E; auto. exfalso. apply (I1 eq_refl). exact Z. }
  (* a close write of a payload with a recordable code, from this state *)
  assert (Hw : forall data, bytes_ok data -> payload_code data <> 0 ->
      let '(st1, w, r) := write_control_close st data in
      inv st1 /\ read_dead st1 = read_dead st /\
      (t_closed st = true -> t_closed st1 = true) /\
      match w with
      | [] => recorded st1 = 0 \/ t_closed st1 = true
      | f :: _ => w = [data] /\ close_code st1 = (payload_code data, false) /\ recorded st1 <> 0 /\ t_closed st1 = t_closed st
      end).
  { intros data Hb Hnz. unfold write_control_close.
    destruct (c_maxControlFramePayloadSize <? N.of_nat (length data)) eqn:Elen.
    { split; [exact Hinv|]. split; [reflexivity|]. split; [auto|]. left. exact Z. }
    rewrite data_code.
    pose proof (payload_code_bound data Hb) as Hbd.
    destruct (record_fresh st (payload_code data) false Z Hnz Hbd) as [R [E1 [E2 [E3 E4]]]].
    rewrite E1, E2, E4, Hcs.
    destruct (write_failed st) eqn:Wf.
    { specialize (I2 eq_refl).
      split; [split; [rewrite E1, Hcs; intro; discriminate|rewrite E4; intro; exact I2]|].
      split; [exact E3|]. split; [intro; rewrite E4; exact I2|]. right. rewrite E4. exact I2. }
    destruct (t_closed st) eqn:Tc.
    { split; [split; simpl; [intro; discriminate|reflexivity]|].
      split; [simpl; exact E3|]. split; [reflexivity|]. right. reflexivity. }
    split; [split; simpl; [intro; rewrite R; exact Hnz|intro; discriminate]|].
    split; [simpl; exact E3|]. split; [intro; discriminate|].
    split; [reflexivity|]. split; [apply close_code_outgoing; simpl; auto|].
    split; [simpl; rewrite R; exact Hnz|reflexivity]. }
  destruct e as [data|code reason|payload msg]; simpl.
  - destruct Hwf as [Hb Hnz]. specialize (Hw data Hb Hnz).
    destruct (write_control_close st data) as [[st1 w] r]. destruct Hw as [J1 [J2 [J3 J4]]].
    split; [exact J1|]. simpl. destruct w as [|f w'].
    + simpl. tauto.
    + destruct J4 as [Ew [J4 [J5 _]]]. inversion Ew; subst. simpl. auto.
  - destruct Hwf as [Hb Hnz]. unfold transport_close.
    destruct (t_closed st) eqn:Tc.
    { split; [exact Hinv|]. simpl. auto. }
    destruct (code =? disconnect_connection_closed_code).
    { split; [split; simpl; auto|]. simpl. auto. }
    destruct (N.eq_dec code 1005) as [->|Hn5].
    { (* empty close body: status 1005 is recorded *)
      change (format_close_message 1005 reason) with (@nil N).
      specialize (Hw [] ltac:(constructor) ltac:(simpl; lia)).
      destruct (write_control_close st []) as [[st1 w] r]. destruct Hw as [[J1a J1b] [J2 [J3 J4]]].
      split; [split; simpl; auto|]. simpl. destruct w as [|f w'].
      - simpl. auto.
      - destruct J4 as [Ew [J4 [J5 _]]]. inversion Ew; subst. simpl. split; auto. }
    assert (Hfb : bytes_ok (format_close_message code reason)).
    { unfold format_close_message, c_CloseNoStatusReceived. destruct (N.eqb_spec code 1005); [contradiction|].
      constructor; [apply N.mod_lt; lia|]. constructor; [apply N.mod_lt; lia|exact Hb]. }
    assert (Hfc : payload_code (format_close_message code reason) <> 0).
    { unfold format_close_message, c_CloseNoStatusReceived. destruct (N.eqb_spec code 1005); [contradiction|].
      simpl. apply (Hnz Hn5). }
    specialize (Hw _ Hfb Hfc).
    destruct (write_control_close st (format_close_message code reason)) as [[st1 w] r].
    destruct Hw as [[J1a J1b] [J2 [J3 J4]]].
    split; [split; simpl; auto|]. simpl. destruct w as [|f w'].
    + simpl. auto.
    + destruct J4 as [Ew [J4 [J5 _]]]. inversion Ew; subst. simpl. split; auto.
  - simpl in Hwf. unfold recv_close.
    destruct (read_dead st || t_closed st) eqn:Ed.
    { split; [exact Hinv|]. simpl. auto. }
    apply orb_false_iff in Ed as [Rd Tc].
    assert (Hwf0 : write_failed st = false).
    { destruct (write_failed st) eqn:E; auto. rewrite (I2 eq_refl) in Tc. discriminate. }
    (* a valid close: recorded as incoming, then echoed *)
    assert (Hecho : forall c t, c <> 0 -> c < 65536 ->
       let '(st1, o) :=
         (let '(st2, w, _) := write_control_close (record_close_code st c true) (format_close_message c []) in
          (mkC (recorded st2) (close_sent st2) (write_failed st2) true (t_closed st2), ORecv w (RClose c t))) in
       inv st1 /\ close_code st1 = (c, true) /\ recorded st1 <> 0).
    { intros c t Hc0 Hcb.
      destruct (record_fresh st c true Z Hc0 Hcb) as [R [E1 [E2 [E3 E4]]]].
      set (st1 := record_close_code st c true) in *.
      assert (NZ : recorded st1 <> 0) by (rewrite R; lia).
      pose proof (wcc_keep st1 (format_close_message c []) NZ) as K.
      unfold write_control_close in *.
      destruct (c_maxControlFramePayloadSize <? _).
      { simpl in *. repeat split; simpl; try rewrite E1; try rewrite E2; try rewrite E4; auto; try congruence.
        apply close_code_incoming; auto. }
      rewrite (record_keeps st1) in * by exact NZ.
      rewrite E1, E2, E4, Hcs, Hwf0, Tc in *. simpl in *.
      repeat split; simpl; auto; try congruence.
      apply close_code_incoming; auto. }
    assert (Hperr : let '(st1, w) := handle_protocol_error st msg in
                    inv st1 /\ exists f, w = [f] /\ payload_code f = 1002 /\ recorded st1 = 1002 /\ t_closed st1 = false).
    { unfold handle_protocol_error.
      set (data := firstn (N.to_nat c_maxControlFramePayloadSize) (format_close_message c_CloseProtocolError msg)).
      assert (Hdata : exists tl, data = 3 :: 234 :: tl) by (unfold data, format_close_message; simpl; eexists; reflexivity).
      destruct Hdata as [tl Hdata].
      assert (Hlen : N.of_nat (length data) <= 125).
      { unfold data. pose proof (firstn_length_le (format_close_message c_CloseProtocolError msg) (N.to_nat c_maxControlFramePayloadSize)).
        unfold c_maxControlFramePayloadSize in *. lia. }
      destruct (wcc_fresh st data Hlen Hcs Hwf0 Tc) as [st' [E1 E2]]. rewrite E1.
      assert (Hpc : payload_code data = 1002) by (rewrite Hdata; reflexivity).
      rewrite Hpc in E2.
      destruct (record_fresh st 1002 false Z ltac:(lia) ltac:(lia)) as [R _].
      subst st'. split; [split; simpl; intros; [rewrite R; lia|discriminate]|].
      exists data. simpl. auto. }
    destruct payload as [|a [|b text]].
    + specialize (Hecho c_CloseNoStatusReceived [] ltac:(vm_compute; discriminate) ltac:(vm_compute; reflexivity)).
      destruct (write_control_close _ _) as [[st2 w] r]. destruct Hecho as [J1 [J2 J3]].
      split; [exact J1|]. simpl. auto.
    + destruct close_body1_rejected.
      * destruct (handle_protocol_error st msg) as [st1 w]. destruct Hperr as [[J1 J2] [f [-> [Hf [Hr Htc]]]]].
        split; [split; simpl; auto|]. simpl. rewrite Hf. split; [|rewrite Hr; lia].
        apply close_code_outgoing; simpl; auto; lia.
      * specialize (Hecho c_CloseNoStatusReceived [] ltac:(vm_compute; discriminate) ltac:(vm_compute; reflexivity)).
        destruct (write_control_close _ _) as [[st2 w] r]. destruct Hecho as [J1 [J2 J3]].
        split; [exact J1|]. simpl. auto.
    + inversion Hwf as [|? ? Ha Hwf1]; subst. inversion Hwf1 as [|? ? Hb _]; subst.
      pose proof (be16_bound a b Ha Hb) as Hbd.
      destruct (is_valid_received_close_code (be16 a b)) eqn:V; simpl negb; cbv iota.
      * destruct (utf8_valid text) eqn:U; simpl negb; cbv iota.
        -- assert (Hnz : be16 a b <> 0).
           { intro E. rewrite E in V. vm_compute in V. discriminate. }
           specialize (Hecho (be16 a b) text Hnz Hbd).
           destruct (write_control_close _ _) as [[st2 w] r]. destruct Hecho as [J1 [J2 J3]].
           split; [exact J1|]. simpl. auto.
        -- destruct (handle_protocol_error st msg) as [st1 w]. destruct Hperr as [[J1 J2] [f [-> [Hf [Hr Htc]]]]].
           split; [split; simpl; auto|]. simpl. rewrite Hf. split; [|rewrite Hr; lia].
           apply close_code_outgoing; simpl; auto; lia.
      * destruct (handle_protocol_error st msg) as [st1 w]. destruct Hperr as [[J1 J2] [f [-> [Hf [Hr Htc]]]]].
        split; [split; simpl; auto|]. simpl. rewrite Hf. split; [|rewrite Hr; lia].
        apply close_code_outgoing; simpl; auto; lia.
Qed.

Lemma close_code_recorded : forall s1 s2, recorded s1 = recorded s2 -> close_code s1 = close_code s2.
Proof. intros s1 s2 H. unfold close_code. rewrite H. reflexivity. Qed.

Lemma first_close_general : forall es st,
    inv st -> Forall event_wf es -> recorded st = 0 ->
    match first_close (snd (run_events st es)) with
    | Some (c, i) => close_code (fst (run_events st es)) = (c, i)
    | None => True
    end.
Proof.
  induction es as [|e es IH]; intros st Hinv Hwf Z; simpl; [exact I|].
  inversion Hwf as [|? ? He Hes]; subst.
  pose proof (step_first st e Hinv He Z) as S1.
  destruct (step st e) as [st1 o]. destruct S1 as [Hinv1 Hobs].
  pose proof (run_closed es st1) as Kc. pose proof (run_keep es st1) as Kk. specialize (IH st1 Hinv1 Hes).
  destruct (run_events st1 es) as [st2 os]. simpl in *.
  unfold first_close in *. simpl flat_map.
  destruct (observed_closes o) as [|[c i] rest] eqn:Eo.
  - simpl app. destruct Hobs as [Z1|Tc].
    + apply IH. exact Z1.
    + rewrite (Kc Tc). exact I.
  - destruct Hobs as [Hcc NZ]. simpl.
    rewrite (close_code_recorded st2 st1 (Kk NZ)). exact Hcc.
Qed.

Lemma inv_init : inv c_init.
Proof. split; simpl; intro; discriminate. Qed.

(* For every sequence of close events on a fresh connection, the close code reported by
   Conn.CloseCode() is that of the first close frame that was written to or validly read from the wire. *)
Theorem first_close_wins : forall es,
    Forall event_wf es ->
    match first_close (snd (run_events c_init es)) with
    | Some (c, i) => close_code (fst (run_events c_init es)) = (c, i)
    | None => True
    end.
Proof. intros es H. apply first_close_general; [apply inv_init|exact H|reflexivity]. Qed.

(* without the restriction on status code 0 the statement fails: WriteControl records the code
   before it knows whether the frame will be written *)
Theorem first_close_wins_code0_refuted :
  let es := [EvWriteClose [0; 0]; EvWriteClose [15; 160]; EvRecvClose [3; 232] []] in
  let '(st, os) := run_events c_init es in
  first_close os = Some (0, false) /\ close_code st = (4000, false)
  /\ flat_map observed_closes os = [(0, false); (1000, true)].
Proof. vm_compute. auto. Qed.
