(* Proofs for C15: the model of filter.go (Match / Validate, Model/Filter.v)
   against the specification of the filter language (Model/FilterSpec.v). *)
From Coq Require Import List NArith ZArith Bool Lia ZifyBool.
From Cfg Require Import Model.Decimal Model.Filter Model.FilterSpec Proofs.Decimal.
Import ListNotations.
Open Scope N_scope.

(* ---------- induction on trees ---------- *)

Section NodeInd.
  Variable P : node -> Prop.
  Hypothesis H : forall op key cmp val vals nodes,
      Forall P nodes -> P (Node op key cmp val vals nodes).
  Fixpoint node_ind' (f : node) : P f :=
    match f with
    | Node op key cmp val vals nodes =>
        H op key cmp val vals nodes
          ((fix go (l : list node) : Forall P l :=
              match l with
              | [] => Forall_nil P
              | c :: l' => Forall_cons c (node_ind' c) (go l')
              end) nodes)
    end.
End NodeInd.

(* ---------- byte strings ---------- *)

Lemma bytes_eqb_eq : forall a b, bytes_eqb a b = true <-> a = b.
Proof.
  induction a as [|x a IH]; destruct b as [|y b]; cbn [bytes_eqb]; split; intros H;
    try reflexivity; try discriminate.
  - apply andb_true_iff in H. destruct H as [H1 H2].
    apply N.eqb_eq in H1. apply IH in H2. congruence.
  - inversion H; subst. rewrite N.eqb_refl. cbn. now apply IH.
Qed.

Lemma bytes_eqb_refl : forall a, bytes_eqb a a = true.
Proof. intros. now apply bytes_eqb_eq. Qed.

Lemma bool_eq_iff : forall a b : bool, (a = true <-> b = true) -> a = b.
Proof. intros [|] [|] [H1 H2]; auto; try (symmetry; auto); auto. Qed.

(* the model's string predicates and the specification's mean the same relation *)

Lemma has_prefix_iff : forall p s, has_prefix s p = true <-> exists t, s = p ++ t.
Proof.
  induction p as [|x p IH]; intros s.
  - destruct s; cbn; split; eauto.
  - destruct s as [|y s]; cbn [has_prefix].
    + split; [discriminate|]. intros [t Ht]. discriminate.
    + rewrite andb_true_iff, IH, N.eqb_eq. split.
      * intros [-> [t ->]]. now exists t.
      * intros [t Ht]. inversion Ht; subst. eauto.
Qed.

Lemma firstn_app_exact : forall (p t : bytes), firstn (length p) (p ++ t) = p.
Proof. induction p; intros; cbn; [reflexivity | now rewrite IHp]. Qed.

Lemma skipn_app_exact : forall (p t : bytes), skipn (length p) (p ++ t) = t.
Proof. induction p; intros; cbn; [reflexivity | now rewrite IHp]. Qed.

Lemma is_prefix_iff : forall p s, is_prefix p s = true <-> exists t, s = p ++ t.
Proof.
  intros p s. unfold is_prefix. rewrite bytes_eqb_eq. split.
  - intros H. exists (skipn (length p) s). rewrite <- H at 1. symmetry. apply firstn_skipn.
  - intros [t ->]. apply firstn_app_exact.
Qed.

Lemma has_suffix_iff : forall p s, has_suffix s p = true <-> exists t, s = t ++ p.
Proof.
  intros p s. unfold has_suffix. rewrite has_prefix_iff. split.
  - intros [t Ht]. exists (rev t).
    rewrite <- (rev_involutive s), Ht, rev_app_distr, rev_involutive. reflexivity.
  - intros [t ->]. exists (rev t). apply rev_app_distr.
Qed.

Lemma is_suffix_iff : forall p s, is_suffix p s = true <-> exists t, s = t ++ p.
Proof.
  intros p s. unfold is_suffix. rewrite andb_true_iff, bytes_eqb_eq, Nat.leb_le. split.
  - intros [Hl H]. exists (firstn (length s - length p) s).
    set (k := (length s - length p)%nat) in *.
    transitivity (firstn k s ++ skipn k s); [symmetry; apply firstn_skipn | now rewrite H].
  - intros [t ->]. rewrite app_length. split; [lia|].
    replace (length t + length p - length p)%nat with (length t) by lia.
    apply skipn_app_exact.
Qed.

Lemma str_contains_iff : forall p s,
  str_contains s p = true <-> exists a b, s = a ++ p ++ b.
Proof.
  intros p. induction s as [|x s IH]; cbn [str_contains]; rewrite orb_true_iff, has_prefix_iff.
  - split.
    + intros [[t Ht]|H]; [|discriminate]. exists [], t. exact Ht.
    + intros (a & b & H). left. destruct a; [|discriminate]. exists b. exact H.
  - rewrite IH. split.
    + intros [[t Ht]|(a & b & ->)].
      * exists [], t. exact Ht.
      * exists (x :: a), b. reflexivity.
    + intros (a & b & H). destruct a as [|y a].
      * left. exists b. exact H.
      * right. inversion H; subst. eauto.
Qed.

Lemma is_infix_iff : forall p s,
  is_infix p s = true <-> exists a b, s = a ++ p ++ b.
Proof.
  intros p s. unfold is_infix. rewrite existsb_exists. split.
  - intros (k & _ & Hk). apply is_prefix_iff in Hk. destruct Hk as [t Ht].
    exists (firstn k s), t. rewrite <- Ht. symmetry. apply firstn_skipn.
  - intros (a & b & ->). exists (length a). split.
    + apply in_seq. rewrite app_length. lia.
    + apply is_prefix_iff. exists b. apply skipn_app_exact.
Qed.

Lemma has_prefix_spec : forall s p, has_prefix s p = is_prefix p s.
Proof. intros. apply bool_eq_iff. now rewrite has_prefix_iff, is_prefix_iff. Qed.
Lemma has_suffix_spec : forall s p, has_suffix s p = is_suffix p s.
Proof. intros. apply bool_eq_iff. now rewrite has_suffix_iff, is_suffix_iff. Qed.
Lemma str_contains_spec : forall s p, str_contains s p = is_infix p s.
Proof. intros. apply bool_eq_iff. now rewrite str_contains_iff, is_infix_iff. Qed.

(* ---------- the loops of Match / Validate as list functions ---------- *)

Definition and_loop (m : node -> option bool) : list node -> option bool :=
  fix go (l : list node) : option bool :=
    match l with
    | [] => Some true
    | c :: l' => match m c with
                 | None => None
                 | Some false => Some false
                 | Some true => go l'
                 end
    end.

Definition or_loop (m : node -> option bool) : list node -> option bool :=
  fix go (l : list node) : option bool :=
    match l with
    | [] => Some false
    | c :: l' => match m c with
                 | None => None
                 | Some true => Some true
                 | Some false => go l'
                 end
    end.

Lemma match_gen_eq : forall fixed op key cmp val vals nodes tags,
  match_gen fixed (Node op key cmp val vals nodes) tags =
  match decode_op op with
  | Some OLeaf => match_leaf fixed key cmp val vals tags
  | Some OAnd => and_loop (fun c => match_gen fixed c tags) nodes
  | Some OOr => or_loop (fun c => match_gen fixed c tags) nodes
  | Some ONot => match nodes with
                 | [c] => option_map negb (match_gen fixed c tags)
                 | _ => None
                 end
  | None => None
  end.
Proof. reflexivity. Qed.

Lemma validate_eq : forall op key cmp val vals nodes,
  validate (Node op key cmp val vals nodes) =
  match decode_op op with
  | Some OLeaf => validate_leaf key cmp val vals
  | Some OAnd | Some OOr => negb (is_nil nodes) && forallb validate nodes
  | Some ONot => match nodes with [c] => validate c | _ => false end
  | None => false
  end.
Proof.
  intros. cbn [validate].
  assert (E : forall l, (fix go (l : list node) : bool :=
                           match l with
                           | [] => true
                           | c :: l' => if validate c then go l' else false
                           end) l = forallb validate l).
  { induction l as [|c l IH]; [reflexivity|]. cbn [forallb]. rewrite IH.
    now destruct (validate c). }
  destruct (decode_op op) as [[| | |]|]; try reflexivity; now rewrite E.
Qed.

(* ---------- Validate accepts exactly the well-formed trees ---------- *)

Lemma decode_cmp_nil : decode_cmp [] = None.
Proof. reflexivity. Qed.

Lemma is_nil_true : forall A (l : list A), is_nil l = true <-> l = [].
Proof. intros A [|x l]; cbn; split; auto; discriminate. Qed.
Lemma is_nil_false : forall A (l : list A), is_nil l = false <-> l <> [].
Proof. intros A [|x l]; cbn; split; auto; try discriminate; congruence. Qed.
Lemma nonempty_true : forall A (l : list A), nonempty l = true <-> l <> [].
Proof. intros A [|x l]; cbn; split; auto; try discriminate; congruence. Qed.
Lemma nonempty_is_nil : forall A (l : list A), nonempty l = negb (is_nil l).
Proof. intros A [|x l]; reflexivity. Qed.

Definition WF_leaf (key cmp val : bytes) (vals : list bytes) : Prop :=
  exists c, decode_cmp cmp = Some c /\
    ((value_cmp c /\ key <> [] /\ val <> [] /\ vals = []) \/
     (set_cmp c /\ key <> [] /\ val = [] /\ vals <> []) \/
     (exist_cmp c /\ val = [] /\ vals = [])).

Lemma validate_leaf_iff : forall key cmp val vals,
  validate_leaf key cmp val vals = true <-> WF_leaf key cmp val vals.
Proof.
  intros key cmp val vals. unfold validate_leaf, WF_leaf.
  destruct cmp as [|x cmp'].
  - cbn [is_nil]. split; [discriminate|]. intros (c & H & _). discriminate.
  - cbn [is_nil]. set (cmp := x :: cmp').
    destruct (decode_cmp cmp) as [c|].
    2:{ split; [discriminate|]. intros (c & H & _). discriminate. }
    split.
    + intros H. exists c. split; [reflexivity|].
      destruct c; cbn [value_cmp set_cmp exist_cmp]; cbv beta iota in H;
        repeat rewrite andb_true_iff in H; rewrite ?orb_true_iff, ?negb_true_iff in H;
        rewrite ?is_nil_true, ?is_nil_false in H; intuition (try discriminate; auto).
    + intros (c' & Hc & H). inversion Hc; subst c'.
      destruct c; cbn [value_cmp set_cmp exist_cmp] in H; cbv beta iota;
        repeat rewrite andb_true_iff; rewrite ?orb_true_iff, ?negb_true_iff;
        rewrite ?is_nil_true, ?is_nil_false; intuition auto.
Qed.

Lemma wf_leaf_b_iff : forall key cmp val vals,
  wf_leaf_b key cmp val vals = true <-> WF_leaf key cmp val vals.
Proof.
  intros key cmp val vals. unfold wf_leaf_b, WF_leaf.
  destruct (decode_cmp cmp) as [c|].
  2:{ split; [discriminate|]. intros (c & H & _). discriminate. }
  split.
  - intros H. exists c. split; [reflexivity|].
    destruct c; cbn [value_cmp set_cmp exist_cmp]; cbv beta iota in H;
      repeat rewrite andb_true_iff in H; rewrite ?negb_true_iff in H;
      rewrite ?nonempty_is_nil, ?negb_true_iff, ?negb_false_iff in H;
      rewrite ?is_nil_true, ?is_nil_false in H; intuition auto.
  - intros (c' & Hc & H). inversion Hc; subst c'.
    destruct c; cbn [value_cmp set_cmp exist_cmp] in H; cbv beta iota;
      repeat rewrite andb_true_iff; rewrite ?nonempty_is_nil, ?negb_true_iff, ?negb_false_iff;
      rewrite ?is_nil_true, ?is_nil_false; intuition auto.
Qed.

Lemma WF_leaf_iff : forall op key cmp val vals nodes,
  decode_op op = Some OLeaf ->
  (WF (Node op key cmp val vals nodes) <-> WF_leaf key cmp val vals).
Proof.
  intros op key cmp val vals nodes Hop. split.
  - intros H. inversion H; subst; try congruence.
    + exists c. intuition auto.
    + exists c. intuition auto.
    + exists c. intuition auto.
  - intros (c & Hc & [H|[H|H]]).
    + destruct H as (? & ? & ? & ?). eapply WF_value; eauto.
    + destruct H as (? & ? & ? & ?). eapply WF_set; eauto.
    + destruct H as (? & ? & ?). eapply WF_exist; eauto.
Qed.

Lemma forallb_Forall_iff : forall (g : node -> bool) (l : list node),
  Forall (fun c => g c = true <-> WF c) l ->
  (forallb g l = true <-> Forall WF l).
Proof.
  intros g l H. induction H as [|c l Hc Hl IH]; cbn [forallb].
  - split; auto.
  - rewrite andb_true_iff, IH, Hc. split.
    + intros [? ?]. now constructor.
    + intros HF. inversion HF; subst. auto.
Qed.

(* generic: a checker with the shape of validate / wf_b decides WF *)
Lemma wf_checker : forall (g : node -> bool) (gl : bytes -> bytes -> bytes -> list bytes -> bool),
  (forall key cmp val vals, gl key cmp val vals = true <-> WF_leaf key cmp val vals) ->
  (forall op key cmp val vals nodes,
      g (Node op key cmp val vals nodes) =
      match decode_op op with
      | Some OLeaf => gl key cmp val vals
      | Some OAnd | Some OOr => negb (is_nil nodes) && forallb g nodes
      | Some ONot => match nodes with [c] => g c | _ => false end
      | None => false
      end) ->
  forall f, g f = true <-> WF f.
Proof.
  intros g gl Hgl Hg. apply node_ind'. intros op key cmp val vals nodes IH.
  rewrite Hg. destruct (decode_op op) as [[| | |]|] eqn:Hop.
  - rewrite Hgl. symmetry. now apply WF_leaf_iff.
  - rewrite andb_true_iff, negb_true_iff, is_nil_false, (forallb_Forall_iff g nodes IH). split.
    + intros [? ?]. now apply WF_and.
    + intros H. inversion H; subst; try congruence. auto.
  - rewrite andb_true_iff, negb_true_iff, is_nil_false, (forallb_Forall_iff g nodes IH). split.
    + intros [? ?]. now apply WF_or.
    + intros H. inversion H; subst; try congruence. auto.
  - destruct nodes as [|c [|c2 l]].
    + split; [discriminate|]. intros H. inversion H; subst; congruence.
    + inversion IH as [|? ? Hc _]; subst. rewrite Hc. split.
      * intros. now apply WF_not.
      * intros H. inversion H; subst; try congruence.
    + split; [discriminate|]. intros H. inversion H; subst; congruence.
  - split; [discriminate|]. intros H. inversion H; subst; congruence.
Qed.

Theorem validate_exact : forall f, validate f = true <-> WF f.
Proof. apply (wf_checker validate validate_leaf validate_leaf_iff validate_eq). Qed.

Lemma wf_b_eq : forall op key cmp val vals nodes,
  wf_b (Node op key cmp val vals nodes) =
  match decode_op op with
  | Some OLeaf => wf_leaf_b key cmp val vals
  | Some OAnd | Some OOr => negb (is_nil nodes) && forallb wf_b nodes
  | Some ONot => match nodes with [c] => wf_b c | _ => false end
  | None => false
  end.
Proof.
  intros. cbn [wf_b]. rewrite nonempty_is_nil.
  destruct (decode_op op) as [[| | |]|]; reflexivity.
Qed.

Theorem wf_b_exact : forall f, wf_b f = true <-> WF f.
Proof. apply (wf_checker wf_b wf_leaf_b wf_leaf_b_iff wf_b_eq). Qed.

Corollary validate_wf_b : forall f, validate f = wf_b f.
Proof. intros. apply bool_eq_iff. now rewrite validate_exact, wf_b_exact. Qed.

(* ---------- Match computes the denotation ---------- *)

Lemma num_leaf : forall c v val,
  match c with CGt | CGte | CLt | CLte => True | _ => False end ->
  match dec_parse v with
  | None => Some false
  | Some dv => match dec_parse val with
               | None => Some false
               | Some dc => Some (num_test c (dec_cmp dv dc))
               end
  end = Some (num_rel numeral_ok c v val).
Proof.
  intros c v val Hc. rewrite !dec_parse_numeral. unfold num_rel, numeral_ok.
  destruct (numeral v) as [a|]; cbn [option_map andb]; [|reflexivity].
  destruct (numeral val) as [b|]; cbn [option_map andb]; [|reflexivity].
  rewrite dec_cmp_norm. destruct c; try contradiction; destruct (num_cmp a b); reflexivity.
Qed.

(* the leaf case needs no well-formedness beyond a known comparator *)
Lemma match_leaf_denote : forall key cmp val vals tags c,
  decode_cmp cmp = Some c ->
  match_leaf true key cmp val vals tags = Some (leaf_denote numeral_ok c key val vals tags).
Proof.
  intros key cmp val vals tags c Hc. unfold match_leaf, leaf_denote. rewrite Hc.
  destruct (lookup key tags) as [v|].
  - destruct c; cbn [andb orb negb];
      rewrite ?has_prefix_spec, ?has_suffix_spec, ?str_contains_spec;
      try reflexivity; now apply num_leaf.
  - destruct c; reflexivity.
Qed.

Lemma and_loop_denote : forall (m : node -> option bool) (d v : node -> bool) l,
  Forall (fun c => v c = true -> m c = Some (d c)) l ->
  forallb v l = true -> and_loop m l = Some (forallb d l).
Proof.
  intros m d v l H. induction H as [|c l Hc Hl IH]; intros Hv; cbn [and_loop forallb] in *.
  - reflexivity.
  - apply andb_true_iff in Hv. destruct Hv as [Hv1 Hv2].
    rewrite (Hc Hv1). destruct (d c); cbn [andb]; [now apply IH | reflexivity].
Qed.

Lemma or_loop_denote : forall (m : node -> option bool) (d v : node -> bool) l,
  Forall (fun c => v c = true -> m c = Some (d c)) l ->
  forallb v l = true -> or_loop m l = Some (existsb d l).
Proof.
  intros m d v l H. induction H as [|c l Hc Hl IH]; intros Hv; cbn [or_loop existsb forallb] in *.
  - reflexivity.
  - apply andb_true_iff in Hv. destruct Hv as [Hv1 Hv2].
    rewrite (Hc Hv1). destruct (d c); cbn [orb]; [reflexivity | now apply IH].
Qed.

Theorem match_denote : forall f tags,
  validate f = true -> matchf f tags = Some (denote f tags).
Proof.
  intros f tags. revert f. apply (node_ind' (fun f => validate f = true ->
                                     matchf f tags = Some (denote f tags))).
  intros op key cmp val vals nodes IH Hv.
  unfold matchf, denote in *. rewrite match_gen_eq. rewrite validate_eq in Hv.
  cbn [denote_g]. destruct (decode_op op) as [[| | |]|].
  - destruct (decode_cmp cmp) as [c|] eqn:Hc.
    + now apply match_leaf_denote.
    + unfold validate_leaf in Hv. rewrite Hc in Hv. destruct (is_nil cmp); discriminate.
  - apply andb_true_iff in Hv. destruct Hv as [_ Hv].
    now apply (and_loop_denote _ _ validate).
  - apply andb_true_iff in Hv. destruct Hv as [_ Hv].
    now apply (or_loop_denote _ _ validate).
  - destruct nodes as [|c [|c2 l]]; try discriminate.
    inversion IH as [|? ? Hc _]; subst. rewrite (Hc Hv). reflexivity.
  - discriminate.
Qed.

Corollary match_total : forall f tags,
  validate f = true -> exists b, matchf f tags = Some b.
Proof. intros f tags H. eexists. now apply match_denote. Qed.

(* the denotation really is the boolean reading of the connectives *)
Lemma denote_and : forall acc key cmp val vals nodes tags,
  denote_g acc (Node s_and key cmp val vals nodes) tags = true <->
  forall c, In c nodes -> denote_g acc c tags = true.
Proof. intros. cbn [denote_g]. change (decode_op s_and) with (Some OAnd). cbv iota. apply forallb_forall. Qed.

Lemma denote_or : forall acc key cmp val vals nodes tags,
  denote_g acc (Node s_or key cmp val vals nodes) tags = true <->
  exists c, In c nodes /\ denote_g acc c tags = true.
Proof. intros. cbn [denote_g]. change (decode_op s_or) with (Some OOr). cbv iota. apply existsb_exists. Qed.

Lemma denote_not : forall acc key cmp val vals c tags,
  denote_g acc (Node s_not key cmp val vals [c]) tags = negb (denote_g acc c tags).
Proof. reflexivity. Qed.

(* the acceptance predicate only matters on the numerals it is asked about *)
Lemma denote_g_ext : forall acc1 acc2, (forall s, acc1 s = acc2 s) ->
  forall f tags, denote_g acc1 f tags = denote_g acc2 f tags.
Proof.
  intros acc1 acc2 Hacc f tags. revert f.
  apply (node_ind' (fun f => denote_g acc1 f tags = denote_g acc2 f tags)).
  intros op key cmp val vals nodes IH. cbn [denote_g].
  destruct (decode_op op) as [[| | |]|]; try reflexivity.
  - destruct (decode_cmp cmp) as [c|]; [|reflexivity].
    unfold leaf_denote. destruct (lookup key tags); [|reflexivity].
    destruct c; try reflexivity; unfold num_rel; now rewrite !Hacc.
  - induction IH as [|c l Hc _ IHl]; cbn [forallb]; [reflexivity|]. now rewrite Hc, IHl.
  - induction IH as [|c l Hc _ IHl]; cbn [existsb]; [reflexivity|]. now rewrite Hc, IHl.
  - destruct nodes as [|c [|c2 l]]; try reflexivity.
    inversion IH as [|? ? Hc _]; subst. now rewrite Hc.
Qed.

(* ---------- structural equality and the hash ---------- *)

Lemma list_eqb_bytes_eq : forall a b : list bytes, list_eqb bytes_eqb a b = true <-> a = b.
Proof.
  induction a as [|x a IH]; destruct b as [|y b]; cbn [list_eqb]; split; intros H;
    try reflexivity; try discriminate.
  - apply andb_true_iff in H. destruct H as [H1 H2].
    apply bytes_eqb_eq in H1. apply IH in H2. congruence.
  - inversion H; subst. rewrite bytes_eqb_refl. cbn. now apply IH.
Qed.

Theorem node_eqb_eq : forall f g, node_eqb f g = true <-> f = g.
Proof.
  apply (node_ind' (fun f => forall g, node_eqb f g = true <-> f = g)).
  intros op key cmp val vals nodes IH [op2 key2 cmp2 val2 vals2 nodes2].
  cbn [node_eqb].
  set (go := fix go (a b : list node) : bool :=
         match a, b with
         | [], [] => true
         | x :: a', y :: b' => node_eqb x y && go a' b'
         | _, _ => false
         end).
  assert (Hgo : forall b, go nodes b = true <-> nodes = b).
  { induction IH as [|c l Hc _ IHl]; intros [|y b]; cbn [go]; split; intros H;
      try reflexivity; try discriminate.
    - apply andb_true_iff in H. destruct H as [H1 H2].
      apply Hc in H1. apply IHl in H2. congruence.
    - inversion H; subst. apply andb_true_iff. split; [now apply Hc | now apply IHl]. }
  repeat rewrite andb_true_iff. rewrite !bytes_eqb_eq, list_eqb_bytes_eq, Hgo.
  split.
  - intros [[[[[? ?] ?] ?] ?] ?]. congruence.
  - intros H. inversion H; subst. auto 10.
Qed.

(* the property's last clause: whatever digest function is applied to the marshalled
   tree, structurally equal trees get equal hashes *)
Theorem hash_congr : forall (digest : bytes -> bytes) f g,
  f = g -> digest (marshal f) = digest (marshal g).
Proof. intros digest f g ->. reflexivity. Qed.

(* ---------- packaged statements used by Props/C15.v ---------- *)

Lemma string_relations : forall p s,
  (is_prefix p s = true <-> exists t, s = p ++ t) /\
  (is_suffix p s = true <-> exists t, s = t ++ p) /\
  (is_infix p s = true <-> exists a b, s = a ++ p ++ b).
Proof.
  intros p s. split; [apply is_prefix_iff | split; [apply is_suffix_iff | apply is_infix_iff]].
Qed.

Lemma connectives : forall acc key cmp val vals nodes c tags,
  (denote_g acc (Node s_and key cmp val vals nodes) tags = true <->
     forall x, In x nodes -> denote_g acc x tags = true) /\
  (denote_g acc (Node s_or key cmp val vals nodes) tags = true <->
     exists x, In x nodes /\ denote_g acc x tags = true) /\
  denote_g acc (Node s_not key cmp val vals [c]) tags = negb (denote_g acc c tags).
Proof.
  intros. split; [apply denote_and | split; [apply denote_or | apply denote_not]].
Qed.

(* the code before fixes/C15-in-absent-key.patch: in [""] matches an absent key *)
Lemma unfixed_refuted :
  exists f tags, validate f = true /\ match_gen false f tags <> Some (denote f tags).
Proof.
  exists (Node [] [97] s_in [] [[]] []), []. split; [reflexivity|]. vm_compute. discriminate.
Qed.
