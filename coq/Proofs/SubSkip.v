(* C08: the unsubscribe callback is skipped (EvUnsubSkipped, a ghost event) only while the
   OnConnect handler has not yet registered the per-connection handlers: never after the
   connect callback.  For ALL schedules. *)
From Coq Require Import List NArith ZArith Bool Lia.
From Cfg Require Import Model.SubLifecycle Proofs.SubLifecycleLib Proofs.SubBroker Proofs.SubBrokerStep
  Proofs.SubLocks Proofs.SubCallbacks Proofs.SubDisc.
Import ListNotations.
Open Scope N_scope.

Definition SInv (s : st) : Prop :=
  forall a b c g, trace s = a ++ EvUnsubSkipped c g :: b -> ~ In EvConnectCb a.

Lemma SInv_init : SInv init.
Proof. intros a b c g E. destruct a; discriminate. Qed.

Lemma S_step s s' es :
  SInv s -> CbInv s -> trace s' = trace s ++ es ->
  (es = [] \/ exists e, es = [e] /\ forall c g, e = EvUnsubSkipped c g -> hreg s = false) ->
  SInv s'.
Proof.
  intros SI CI TR ES a b c g E. rewrite TR in E. destruct ES as [-> |(e & -> & HS)].
  - rewrite app_nil_r in E. eauto.
  - destruct (app_last_decomp _ _ _ _ _ E) as [(p0 & E1 & E2)|(-> & E2 & _)]; [eauto|].
    intros X. symmetry in E2. pose proof (cb_none _ CI (HS _ _ E2)) as N.
    assert (Y : In EvConnectCb (cbs (trace s))) by (apply filter_In; auto). rewrite N in Y. destruct Y.
Qed.

Ltac sstep SI CI :=
  eapply S_step;
  [ exact SI | exact CI
  | cored; drw; first [reflexivity | symmetry; apply app_nil_r]
  | first [ left; reflexivity
          | right; eexists; split; [reflexivity|];
            let c := fresh in let g := fresh in let X := fresh in
            intros c g X; first [discriminate X | assumption] ] ].

Lemma astep_S s l s' : SInv s -> CbInv s -> astep s l = Some s' -> SInv s'.
Proof.
  intros SI CI H.
  destruct l; cbn [astep] in H.
  - unfold spawn in H.
    destruct o;
      repeat match type of H with (if ?c then _ else _) = _ => destruct c eqn:? end;
      try discriminate; inv H;
      repeat (match goal with |- context [if ?x then _ else _] => destruct x eqn:? end);
      sstep SI CI.
  - unfold step_thread in H. destruct (thr s t) as [[a|u|k|k|pc|c]|] eqn:ET; try discriminate.
    + unfold att_step in H.
      destruct (a_pc a) eqn:EPC;
        repeat match type of H with
        | (if ?c then _ else _) = _ => destruct c eqn:?
        | match ?o with Some _ => _ | None => _ end = _ => destruct o eqn:?
        | match ?k with Cli => _ | Srv => _ end = _ => destruct k eqn:?
        end; try discriminate; inv H; cbv zeta;
        repeat (match goal with |- context [if ?x then _ else _] => destruct x eqn:? end);
        repeat (match goal with |- context [match hub ?s0 ?c with Some _ => _ | None => _ end] => destruct (hub s0 c) eqn:? end);
        repeat (match goal with |- context [if ?x then _ else _] => destruct x eqn:? end);
        sstep SI CI.
    + destruct (u_step s t u b) as [[s1 ou]|] eqn:EU; [|discriminate]. unfold u_step in EU.
      destruct (u_pc u);
        repeat match type of EU with
        | (if ?c then _ else _) = _ => destruct c eqn:?
        | match ?o with Some _ => _ | None => _ end = _ => destruct o eqn:?
        end; try discriminate; injection EU as EU1 EU2; subst s1 ou; inv H;
        repeat (match goal with |- context [if ?x then _ else _] => destruct x eqn:? end);
        sstep SI CI.
    + unfold cls_step in H. destruct (k_pc k) eqn:EPC.
      8:{ destruct (k_cur k) as [u|] eqn:EC.
          - destruct (u_step s t u b) as [[s1 ou]|] eqn:EU; [|discriminate]. unfold u_step in EU.
            destruct (u_pc u);
              repeat match type of EU with
              | (if ?c then _ else _) = _ => destruct c eqn:?
              | match ?o with Some _ => _ | None => _ end = _ => destruct o eqn:?
              end; try discriminate; injection EU as EU1 EU2; subst s1 ou; inv H;
              repeat (match goal with |- context [if ?x then _ else _] => destruct x eqn:? end);
              sstep SI CI.
          - destruct (k_rest k); [|destruct b]; inv H; sstep SI CI. }
      all: repeat match type of H with (if ?c then _ else _) = _ => destruct c eqn:? end;
           try discriminate; inv H;
           repeat (match goal with |- context [if ?x then _ else _] => destruct x eqn:? end);
           sstep SI CI.
    + unfold tck_step in H. destruct b.
      all: destruct (t_pc k) eqn:EPC;
        repeat match type of H with
        | (if ?c then _ else _) = _ => destruct c eqn:?
        | match ?l with [] => _ | _ :: _ => _ end = _ => destruct l
        | match ?o with Some _ => _ | None => _ end = _ => destruct o
        end; try discriminate; inv H;
        repeat (match goal with |- context [if ?x then _ else _] => destruct x eqn:? end);
        sstep SI CI.
    + unfold con_step in H. destruct pc;
        repeat match type of H with (if ?c then _ else _) = _ => destruct c eqn:? end;
        try discriminate; inv H;
        repeat (match goal with |- context [if ?x then _ else _] => destruct x eqn:? end);
        sstep SI CI.
    + unfold job_step in H. destruct b; inv H; sstep SI CI.
  - unfold timeout_thread in H. destruct (thr s t) as [[a|u|k|k|pc|c]|] eqn:ET; try discriminate.
    + destruct (u_timeout s u) as [s1|] eqn:EU; inv H. unfold u_timeout in EU.
      destruct (u_pc u); try discriminate. inv EU.
      destruct (lookup (u_ch u) (chans s)) as [x|]; [destruct (c_gate x)|]; sstep SI CI.
    + destruct (k_pc k) eqn:EPC; try discriminate. destruct (k_cur k) as [u|]; try discriminate.
      destruct (u_timeout s u) as [s1|] eqn:EU; inv H. unfold u_timeout in EU.
      destruct (u_pc u); try discriminate. inv EU.
      destruct (lookup (u_ch u) (chans s)) as [x|]; [destruct (c_gate x)|]; sstep SI CI.
  - unfold job_start in H. destruct (mem c (jobs s) && negb (slock s c)); [|discriminate].
    destruct (subscribers s c); inv H; sstep SI CI.
  - unfold other_add in H. destruct (slock s c); [discriminate|].
    destruct (subscribers s c); [|destruct b]; inv H; sstep SI CI.
  - unfold other_rem in H. destruct (slock s c || (others s c =? 0)); [discriminate|].
    destruct ((others s c =? 1) && match hub s c with None => true | Some _ => false end); inv H; sstep SI CI.
Qed.

Theorem exec_S l : forall s s', SInv s -> CbInv s -> InvBS s -> LInv s -> exec l s = Some s' -> SInv s'.
Proof.
  induction l as [|x l IH]; cbn; intros s s' SI CI I LI H.
  - inv H. auto.
  - destruct (astep s x) as [s1|] eqn:E; [|discriminate].
    apply (IH s1 s'); auto; [eapply astep_S|eapply astep_Cb|eapply astep_B|eapply astep_L]; eauto.
Qed.

Theorem skipped_only_before_connect sched s a b c g :
  exec sched init = Some s -> trace s = a ++ EvUnsubSkipped c g :: b -> ~ In EvConnectCb a.
Proof.
  intros E. assert (SI : SInv s) by (eapply exec_S; eauto; [apply SInv_init|apply CbInv_init|apply InvBS_init|apply LInv_init]).
  apply SI.
Qed.
