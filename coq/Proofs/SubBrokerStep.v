(* Every action of Model/SubLifecycle.v (timeouts included) preserves the broker invariant. *)
From Coq Require Import List NArith ZArith Bool Lia.
From Cfg Require Import Model.SubLifecycle Proofs.SubLifecycleLib Proofs.SubBroker.
Import ListNotations.
Open Scope N_scope.

Ltac coreb :=
  unfold InvBS, spawn_int, submit_job, thr_set, thr_del, log, set_gst1;
  cbn [slock hub others bsub jobs thr next_ext next_int
       set_status set_authed set_closing set_chans set_genctr set_gclosed set_cmu set_pmu set_pinfl
       set_kstarted set_slock set_hub set_others set_reg set_pres set_bsub set_jobs set_gconn set_gsub
       set_trace set_thr set_next_ext set_next_int set_panicked set_wclosed set_hreg set_shut set_gst].

Definition same26 (s s' : st) : Prop :=
  slock s' = slock s /\ hub s' = hub s /\ others s' = others s /\ bsub s' = bsub s /\ jobs s' = jobs s /\
  thr s' = thr s /\ next_ext s' = next_ext s /\ next_int s' = next_int s.

Lemma close_gate_26 g s : same26 s (close_gate g s).
Proof. unfold same26, close_gate. destruct (gclosed s g); cbn; intuition. Qed.
Lemma close_cap_26 c s : same26 s (close_cap c s).
Proof. destruct c; cbn; [apply close_gate_26|unfold same26; intuition]. Qed.

Lemma InvBS_hubrem c g s : InvBS s -> slock s c = false -> InvBS (hubrem c g s).
Proof.
  intros I F. unfold hubrem. destruct (hub s c) as [g'|] eqn:EH.
  - destruct (g' =? g); auto.
    pose proof (Q_hubclear _ _ _ _ _ _ _ _ c I F) as Q.
    destruct (others s c =? 0); coreb; exact Q.
  - coreb. apply Q_submit. exact I.
Qed.

Lemma hubrem_26 c g s :
  slock (hubrem c g s) = slock s /\ thr (hubrem c g s) = thr s /\
  next_ext (hubrem c g s) = next_ext s /\ next_int (hubrem c g s) = next_int s.
Proof.
  unfold hubrem. destruct (hub s c); [destruct (_ =? g); [destruct (others s c =? 0)|]|]; cbn; intuition.
Qed.

Ltac nohold :=
  let c0 := fresh "c0" in
  intros c0; cbn; unfold fail_pc;
  repeat (match goal with |- context [if ?x then _ else _] => destruct x end; cbn);
  intuition (try discriminate; try congruence).

(* thread t, currently not inside a lock section, moves to another non-holder state *)
Ltac qthread I ET EPC :=
  apply Q_thread; [exact I | congruence
                  | let c0 := fresh "c0" in intros c0; rewrite ET; cbn; rewrite ?EPC; intuition (try discriminate; try congruence)
                  | nohold].

Lemma att_step_B s t a b s' :
  InvBS s -> thr s t = Some (TAtt a) -> att_step s t a b = Some s' -> InvBS s'.
Proof.
  intros I ET H. unfold att_step in H.
  destruct (a_pc a) eqn:EPC.
  5:{ (* PHubAdd1 *)
    destruct (slock s (a_ch a)) eqn:SL; [discriminate|].
    destruct (negb (subscribers s (a_ch a))) eqn:FS; inv H; coreb.
    - apply (Q_hubadd_first _ _ _ _ _ _ _ _ (a_ch a) t a (with_pc a PHubAdd2)); auto; try congruence.
      apply negb_true_iff in FS. exact FS.
    - apply Q_thread; [ | congruence
                       | intros c0; rewrite ET; cbn; rewrite EPC; intuition discriminate | nohold].
      apply Q_hubadd_more; auto. apply negb_false_iff in FS. exact FS. }
  5:{ (* PHubAdd2 *)
    destruct (b_att _ _ _ _ _ _ _ _ I t a ET EPC) as (A & B & C).
    destruct b; inv H; coreb.
    - apply Q_sub_ok with (a := a); auto. nohold.
    - rewrite A, N.eqb_refl. coreb. apply Q_sub_fail with (a := a); auto. nohold. }
  all: try (destruct (slock s (a_ch a)) eqn:SL; [discriminate|]; inv H;
            pose proof (InvBS_hubrem (a_ch a) (a_use a) s I SL) as I1;
            pose proof (InvBS_hubrem (a_ch a) (a_own a) s I SL) as I2;
            pose proof (hubrem_26 (a_ch a) (a_use a) s) as (E1 & E2 & E3 & E4);
            pose proof (hubrem_26 (a_ch a) (a_own a) s) as (F1 & F2 & F3 & F4);
            coreb; unfold InvBS in I1, I2; rewrite ?E2, ?F2 in *;
            (apply Q_thread; [first [exact I1|exact I2] | congruence
               | intros c0; rewrite ET; cbn; rewrite EPC; intuition discriminate | nohold])).
  all: repeat match type of H with
       | (if ?c then _ else _) = _ => destruct c eqn:?
       | match ?o with Some _ => _ | None => _ end = _ => destruct o eqn:?
       | match ?k with Cli => _ | Srv => _ end = _ => destruct k eqn:?
       end; try discriminate; inv H; cbv zeta; coreb;
       repeat (match goal with |- context [if ?x then _ else _] => destruct x end; coreb).
  all: try (pose proof (close_cap_26 (a_cap a) s) as (K1 & K2 & K3 & K4 & K5 & K6 & K7 & K8);
            rewrite ?K1, ?K2, ?K3, ?K4, ?K5, ?K6, ?K7, ?K8).
  all: try (qthread I ET EPC).
  (* PErrOut spawning close *)
  assert (FR : thr s (2 * next_int s + 1) = None) by (eapply fresh_int_b; eauto).
  assert (NE : t <> 2 * next_int s + 1) by (intros E; rewrite <- E in FR; congruence).
  apply Q_thread; [ | rewrite upd_other; [congruence|auto]
                  | intros c0; rewrite upd_other; auto; rewrite ET; cbn; rewrite EPC; intuition discriminate
                  | cbn; tauto].
  eapply Q_spawn; [exact I|exact FR|lia|lia|right; exists (next_int s); split; auto; lia|cbn; tauto].
Qed.

(* unsubscribe(channel) run by thread t (which is not a lock holder in any embedding) *)
Lemma u_step_B s t u b s' ou o' :
  InvBS s -> thr s t <> None -> (forall c, ~ holder (thr s t) c) -> (forall c, ~ holder o' c) ->
  u_step s t u b = Some (s', ou) ->
  InvB (slock s') (hub s') (others s') (bsub s') (jobs s') (upd (thr s') t o') (next_ext s') (next_int s').
Proof.
  intros I NN NH NH' H. unfold u_step in H.
  destruct (u_pc u) eqn:EPC.
  7:{ (* UHubRem *)
    destruct (slock s (u_ch u)) eqn:SL; [discriminate|]. inv H.
    pose proof (InvBS_hubrem (u_ch u) (u_rm u) s I SL) as I1.
    pose proof (hubrem_26 (u_ch u) (u_rm u) s) as (E1 & E2 & E3 & E4).
    unfold InvBS in I1. rewrite E2 in *. apply Q_thread; auto. }
  all: repeat match type of H with
       | (if ?c then _ else _) = _ => destruct c eqn:?
       | match ?o with Some _ => _ | None => _ end = _ => destruct o eqn:?
       end; try discriminate; inv H; coreb;
       repeat (match goal with |- context [if ?x then _ else _] => destruct x end; coreb);
       try (pose proof (close_gate_26 (c_gen c) s) as (K1 & K2 & K3 & K4 & K5 & K6 & K7 & K8);
            rewrite ?K1, ?K2, ?K3, ?K4, ?K5, ?K6, ?K7, ?K8);
       apply Q_thread; auto.
Qed.

Lemma u_timeout_B s t u s' o' :
  InvBS s -> thr s t <> None -> (forall c, ~ holder (thr s t) c) -> (forall c, ~ holder o' c) ->
  u_timeout s u = Some s' ->
  InvB (slock s') (hub s') (others s') (bsub s') (jobs s') (upd (thr s') t o') (next_ext s') (next_int s').
Proof.
  intros I NN NH NH' H. unfold u_timeout in H. destruct (u_pc u); try discriminate. inv H.
  assert (FR : thr s (2 * next_int s + 1) = None) by (eapply fresh_int_b; eauto).
  assert (NE : t <> 2 * next_int s + 1) by (intros E; rewrite <- E in FR; congruence).
  assert (G : forall s0, same26 s s0 ->
     InvB (slock s0) (hub s0) (others s0) (bsub s0) (jobs s0)
          (upd (upd (thr s0) (2 * next_int s0 + 1) (Some new_close)) t o') (next_ext s0) (next_int s0 + 1)).
  { intros s0 (K1 & K2 & K3 & K4 & K5 & K6 & K7 & K8). rewrite K1, K2, K3, K4, K5, K6, K7, K8.
    apply Q_thread; [ | rewrite upd_other; auto | intros c0; rewrite upd_other; auto | auto].
    eapply Q_spawn; [exact I|exact FR|lia|lia|right; exists (next_int s); split; auto; lia|cbn; tauto]. }
  destruct (lookup (u_ch u) (chans s)) as [x|]; [destruct (c_gate x)|]; coreb; apply G.
  - apply close_gate_26.
  - unfold same26; intuition.
  - unfold same26; intuition.
Qed.

Ltac plainb I ET :=
  repeat (match goal with |- context [if ?x then _ else _] => destruct x end; coreb);
  (apply Q_thread; [exact I | congruence | intros ?; rewrite ET; cbn; tauto | intros ?; cbn; tauto]).

Lemma tck_step_B s t k b s' :
  InvBS s -> thr s t = Some (TTck k) -> tck_step s t k b = Some s' -> InvBS s'.
Proof.
  intros I ET H. unfold tck_step in H. destruct b.
  all: destruct (t_pc k);
    repeat match type of H with
    | (if ?c then _ else _) = _ => destruct c
    | match ?l with [] => _ | _ :: _ => _ end = _ => destruct l
    | match ?o with Some _ => _ | None => _ end = _ => destruct o
    end; try discriminate; inv H; coreb; plainb I ET.
Qed.

Lemma con_step_B s t pc b s' :
  InvBS s -> thr s t = Some (TCon pc) -> con_step s t pc b = Some s' -> InvBS s'.
Proof.
  intros I ET H. unfold con_step in H.
  destruct pc;
    repeat match type of H with
    | (if ?c then _ else _) = _ => destruct c
    end; try discriminate; inv H; coreb; try (plainb I ET; fail).
  all: assert (FR : thr s (2 * next_int s + 1) = None) by (eapply fresh_int_b; eauto).
  all: assert (NE : t <> 2 * next_int s + 1) by (intros E; rewrite <- E in FR; congruence).
  all: apply Q_thread; [ | rewrite upd_other; [congruence|auto]
                  | intros c0; rewrite upd_other; auto; rewrite ET; cbn; tauto | cbn; tauto].
  all: eapply Q_spawn; [exact I|exact FR|lia|lia|right; exists (next_int s); split; auto; lia|cbn; tauto].
Qed.

Lemma job_step_B s t c b s' :
  InvBS s -> thr s t = Some (TJob c) -> job_step s t c b = Some s' -> InvBS s'.
Proof.
  intros I ET H. unfold job_step in H. destruct b; inv H; coreb.
  - apply Q_job_ok; auto.
  - apply Q_job_fail; auto.
Qed.

Lemma cls_step_B s t k b s' :
  InvBS s -> thr s t = Some (TCls k) -> cls_step s t k b = Some s' -> InvBS s'.
Proof.
  intros I ET H. unfold cls_step in H.
  destruct (k_pc k) eqn:EPC.
  8:{ destruct (k_cur k) as [u|] eqn:EC.
      - destruct (u_step s t u b) as [[s1 ou]|] eqn:EU; [|discriminate]. inv H. coreb.
        eapply u_step_B; [exact I|congruence|intros c0; rewrite ET; cbn; tauto|cbn; tauto|exact EU].
      - destruct (k_rest k); [|destruct b]; inv H; coreb; plainb I ET. }
  all: repeat match type of H with
       | (if ?c then _ else _) = _ => destruct c
       end; try discriminate; inv H; coreb; plainb I ET.
Qed.

Lemma step_thread_B s t b s' : InvBS s -> step_thread s t b = Some s' -> InvBS s'.
Proof.
  intros I H. unfold step_thread in H. destruct (thr s t) as [[a|u|k|k|pc|c]|] eqn:ET; try discriminate.
  - eapply att_step_B; eauto.
  - destruct (u_step s t u b) as [[s1 [u'|]]|] eqn:EU; inv H; coreb;
      (eapply u_step_B; [exact I|congruence|intros c0; rewrite ET; cbn; tauto|cbn; tauto|exact EU]).
  - eapply cls_step_B; eauto.
  - eapply tck_step_B; eauto.
  - eapply con_step_B; eauto.
  - eapply job_step_B; eauto.
Qed.

Lemma timeout_thread_B s t s' : InvBS s -> timeout_thread s t = Some s' -> InvBS s'.
Proof.
  intros I H. unfold timeout_thread in H. destruct (thr s t) as [[a|u|k|k|pc|c]|] eqn:ET; try discriminate.
  - destruct (u_timeout s u) as [s1|] eqn:EU; inv H. coreb.
    eapply u_timeout_B; [exact I|congruence|intros c0; rewrite ET; cbn; tauto|cbn; tauto|exact EU].
  - destruct (k_pc k); try discriminate. destruct (k_cur k) as [u|]; try discriminate.
    destruct (u_timeout s u) as [s1|] eqn:EU; inv H. coreb.
    eapply u_timeout_B; [exact I|congruence|intros c0; rewrite ET; cbn; tauto|cbn; tauto|exact EU].
Qed.

Lemma InvB_bump sl hb ot bs jb th ne ni ne' ni' :
  InvB sl hb ot bs jb th ne ni -> ne <= ne' -> ni <= ni' -> InvB sl hb ot bs jb th ne' ni'.
Proof.
  intros I L1 L2. destruct I as [A1 A2 A3 A4 A5 A6 A7 A8]. constructor; auto.
  intros t0 H0. specialize (A1 t0 H0).
  destruct A1 as [(k & -> & Hk)|(k & -> & Hk)]; [left|right]; exists k; split; auto; lia.
Qed.

Lemma spawn_B s o s' : InvBS s -> spawn s o = Some s' -> InvBS s'.
Proof.
  intros I H. unfold spawn in H.
  assert (FR : thr s (2 * next_ext s) = None) by (eapply fresh_ext_b; eauto).
  assert (TOK : tid_ok (next_ext s + 1) (next_int s) (2 * next_ext s))
    by (left; exists (next_ext s); split; auto; lia).
  destruct o;
    repeat match type of H with
    | (if ?c then _ else _) = _ => destruct c
    end; try discriminate; inv H; coreb;
    try (eapply Q_spawn; [exact I|exact FR|lia|lia|exact TOK|cbn; intros ?; intuition discriminate]; fail).
  destruct (reg s); coreb.
  - eapply Q_spawn; [exact I|eapply fresh_int_b; eauto|lia|lia|right; exists (next_int s); split; auto; lia|cbn; tauto].
  - eapply InvB_bump; [exact I|lia|lia].
Qed.

Lemma astep_B s l s' : InvBS s -> astep s l = Some s' -> InvBS s'.
Proof.
  intros I H. destruct l; cbn in *.
  - eapply spawn_B; eauto.
  - eapply step_thread_B; eauto.
  - eapply timeout_thread_B; eauto.
  - (* LJobStart *)
    unfold job_start in H. destruct (mem c (jobs s) && negb (slock s c)) eqn:EM; [|discriminate].
    apply andb_true_iff in EM. destruct EM as [_ SL]. apply negb_true_iff in SL.
    destruct (subscribers s c) eqn:SB; inv H; coreb.
    + apply Q_jobdrop; auto.
    + apply Q_jobstart; auto.
  - unfold other_add in H. destruct (slock s c) eqn:SL; [discriminate|].
    pose proof (Q_other_add _ _ _ _ _ _ _ _ c I SL) as Q.
    change (subs (hub s) (others s) c) with (subscribers s c) in Q.
    destruct (subscribers s c) eqn:SB; [|destruct b]; inv H; coreb; try exact Q; auto.
  - unfold other_rem in H. destruct (slock s c) eqn:SL; [discriminate|]. cbn in H.
    destruct (N.eqb_spec (others s c) 0); [discriminate|].
    pose proof (Q_other_rem _ _ _ _ _ _ _ _ c I SL n) as Q.
    destruct ((others s c =? 1) && match hub s c with None => true | Some _ => false end); inv H; coreb; auto.
Qed.

Theorem exec_B l : forall s s', InvBS s -> exec l s = Some s' -> InvBS s'.
Proof.
  induction l as [|x l IH]; cbn; intros s s' I H.
  - inv H. auto.
  - destruct (astep s x) as [s1|] eqn:E; [|discriminate]. apply (IH s1 s'); auto. eapply astep_B; eauto.
Qed.

(* ---- C26 statements ---- *)
Theorem broker_safety sched s c :
  exec sched init = Some s -> slock s c = false -> subscribers s c = true -> bsub s c = true.
Proof.
  intros E F S. assert (I : InvBS s) by (eapply exec_B; eauto; apply InvBS_init).
  apply (b_safe _ _ _ _ _ _ _ _ I c F S).
Qed.

Theorem broker_deferred sched s c :
  exec sched init = Some s -> slock s c = false -> bsub s c = true -> subscribers s c = false ->
  In c (jobs s).
Proof.
  intros E F B S. assert (I : InvBS s) by (eapply exec_B; eauto; apply InvBS_init).
  apply (b_job_queued _ _ _ _ _ _ _ _ I c F B S).
Qed.

Lemma settled_unlocked s : InvBS s -> settled s -> forall c, slock s c = false.
Proof.
  intros I ST c. destruct (slock s c) eqn:E; auto.
  destruct (b_lock _ _ _ _ _ _ _ _ I c E) as (t & H). rewrite (ST t) in H. destruct H.
Qed.

Theorem broker_settled sched s :
  exec sched init = Some s -> settled s -> jobs s = [] -> forall c, bsub s c = subscribers s c.
Proof.
  intros E ST J c. assert (I : InvBS s) by (eapply exec_B; eauto; apply InvBS_init).
  pose proof (settled_unlocked s I ST c) as F.
  destruct (subscribers s c) eqn:S.
  - apply (b_safe _ _ _ _ _ _ _ _ I c F S).
  - destruct (bsub s c) eqn:B; auto.
    pose proof (b_job_queued _ _ _ _ _ _ _ _ I c F B S) as X. rewrite J in X. destruct X.
Qed.
