(* C19: idempotency-key result cache and version suppression on the model of
   the memory stream broker (Model/MemStream.v, patched variant). *)
From Coq Require Import List NArith ZArith Bool Lia ZifyN ZifyNat ZifyBool.
From Cfg Require Import Model.MemStream Model.StreamSpec Proofs.MemStreamLib Proofs.MemStream.
Import ListNotations.
Open Scope N_scope.

Lemma save_now : forall h c po pos,
  h_now (save_if_keyed h c po pos) = h_now h.
Proof. intros. unfold save_if_keyed, cache_save. destruct (po_key po =? 0); reflexivity. Qed.

Lemma publish_now : forall h ch id o, h_now (fst (publish h ch id o)) = h_now h.
Proof.
  intros. unfold publish, publish_with.
  destruct (if po_key o =? 0 then None else cache_get h ch (po_key o)) as [[? ?]|]; [reflexivity|].
  destruct (history_on o); [|cbn [fst]; apply save_now].
  unfold hub_add. destruct (h_streams h ch) as [s|].
  - destruct (ver_skip s o); cbn [fst]; [reflexivity|]. rewrite save_now. reflexivity.
  - cbn [fst]. rewrite save_now. reflexivity.
Qed.

Lemma step_now_mono : forall h o, h_now h <= h_now (fst (step h o)).
Proof.
  intros h o. destruct o as [c id po | c f meta | c | d | | | ]; cbn [step step_with fst].
  - fold (publish h c id po). rewrite publish_now. lia.
  - unfold hub_get. destruct (h_streams h c); cbn [fst h_now]; lia.
  - unfold hub_remove. destruct (h_streams h c); cbn [h_now]; lia.
  - cbn [advance h_now]. lia.
  - cbn [sweep_expire h_now]. lia.
  - cbn [sweep_remove h_now]. lia.
  - cbn [sweep_cache h_now]. lia.
Qed.

Lemma run_now_mono : forall ops h, h_now h <= h_now (fst (run h ops)).
Proof.
  unfold run. induction ops as [|o r IH]; intros h; cbn [run_with].
  - cbn [fst]. lia.
  - pose proof (step_now_mono h o) as M. destruct (step h o) as [h1 x]. cbn [fst] in M.
    specialize (IH h1). destruct (run_with step h1 r) as [h2 xs]. cbn [fst] in *. lia.
Qed.

Lemma save_cache_other : forall h c po pos ch k,
  (c =? ch) && (po_key po =? k) = false ->
  h_cache (save_if_keyed h c po pos) ch k = h_cache h ch k.
Proof.
  intros. unfold save_if_keyed, cache_save. destruct (po_key po =? 0); [reflexivity|].
  cbn [h_cache]. replace ((ch =? c) && (k =? po_key po)) with false by lia. reflexivity.
Qed.

(* a stored result stays in the cache as long as its deadline is in the future *)
Lemma step_cache_keep : forall h o ch k off ep ex,
  h_cache h ch k = Some (off, ep, ex) -> h_now (fst (step h o)) < ex ->
  h_cache (fst (step h o)) ch k = Some (off, ep, ex).
Proof.
  intros h o ch k off ep ex HC HN.
  destruct o as [c id po | c f meta | c | d | | | ]; cbn [step step_with fst] in *.
  - fold (publish h c id po) in *. rewrite publish_now in HN.
    unfold publish, publish_with.
    destruct ((c =? ch) && (po_key po =? k)) eqn:Esame.
    + apply andb_true_iff in Esame. destruct Esame as [E1 E2].
      apply N.eqb_eq in E1, E2. subst c k.
      unfold cache_get. rewrite HC. replace (ex <=? h_now h) with false by lia.
      destruct (po_key po =? 0) eqn:EK; [|cbn [fst]; exact HC].
      destruct (history_on po).
      * unfold hub_add. destruct (h_streams h ch) as [s|].
        -- destruct (ver_skip s po); cbn [fst]; [exact HC|].
           unfold save_if_keyed. rewrite EK. exact HC.
        -- cbn [fst]. unfold save_if_keyed. rewrite EK. exact HC.
      * cbn [fst]. unfold save_if_keyed. rewrite EK. exact HC.
    + destruct (if po_key po =? 0 then None else cache_get h c (po_key po)) as [[? ?]|]; [exact HC|].
      destruct (history_on po).
      * unfold hub_add. destruct (h_streams h c) as [s|].
        -- destruct (ver_skip s po); cbn [fst]; [exact HC|].
           rewrite save_cache_other by exact Esame. exact HC.
        -- cbn [fst]. rewrite save_cache_other by exact Esame. exact HC.
      * cbn [fst]. rewrite save_cache_other by exact Esame. exact HC.
  - unfold hub_get. destruct (h_streams h c); cbn [fst h_cache]; exact HC.
  - unfold hub_remove. destruct (h_streams h c); cbn [h_cache]; exact HC.
  - exact HC.
  - exact HC.
  - exact HC.
  - cbn [sweep_cache h_cache h_now] in *. rewrite HC. replace (ex <=? h_now h) with false by lia. reflexivity.
Qed.

Lemma run_cache_keep : forall ops h ch k off ep ex,
  h_cache h ch k = Some (off, ep, ex) -> h_now (fst (run h ops)) < ex ->
  h_cache (fst (run h ops)) ch k = Some (off, ep, ex).
Proof.
  unfold run. induction ops as [|o r IH]; intros h ch k off ep ex HC HN; cbn [run_with] in *.
  - exact HC.
  - pose proof (step_cache_keep h o ch k off ep ex HC) as S.
    destruct (step h o) as [h1 x] eqn:E1. cbn [fst] in S.
    pose proof (run_now_mono r h1) as M. unfold run in M.
    specialize (IH h1 ch k off ep ex).
    destruct (run_with step h1 r) as [h2 xs]. cbn [fst] in *.
    apply IH; [apply S; lia|exact HN].
Qed.

(* an unsuppressed keyed publish stores its position with deadline now + TTL *)
Lemma publish_saves : forall h ch id o h1 off ep dl,
  publish h ch id o = (h1, OPub off ep 0 dl) -> po_key o <> 0 ->
  h_cache h1 ch (po_key o) = Some (off, ep, h_now h + result_secs o * 1000) /\ h_now h1 = h_now h.
Proof.
  intros h ch id o h1 off ep dl HP Hk.
  pose proof (publish_now h ch id o) as HN. rewrite HP in HN. cbn [fst] in HN. split; [|exact HN].
  unfold publish, publish_with in HP.
  destruct (if po_key o =? 0 then None else cache_get h ch (po_key o)) as [[? ?]|]; [discriminate|].
  assert (SV : forall h0 pos, h_cache (save_if_keyed h0 ch o pos) ch (po_key o)
                              = Some (fst pos, snd pos, h_now h0 + result_secs o * 1000)).
  { intros. unfold save_if_keyed, cache_save. replace (po_key o =? 0) with false by lia.
    cbn [h_cache]. rewrite !N.eqb_refl. reflexivity. }
  destruct (history_on o).
  - unfold hub_add in HP. destruct (h_streams h ch) as [s|].
    + destruct (ver_skip s o); [discriminate|]. inversion HP; subst. rewrite SV. reflexivity.
    + inversion HP; subst. rewrite SV. reflexivity.
  - inversion HP; subst. rewrite SV. reflexivity.
Qed.

(* IDEMPOTENCY, within the TTL: whatever happens after an unsuppressed keyed
   publish (ANY operation sequence), as long as the clock has not reached
   publish time + result TTL, a publish repeating the key on that channel
   returns the original position, is marked suppressed (idempotency), delivers
   nothing and leaves the whole broker state untouched. *)
Theorem idem_within_ttl : forall h ch id o h1 off ep dl ops id' o',
  publish h ch id o = (h1, OPub off ep 0 dl) -> po_key o <> 0 -> po_key o' = po_key o ->
  h_now (fst (run h1 ops)) < h_now h + result_secs o * 1000 ->
  publish (fst (run h1 ops)) ch id' o' = (fst (run h1 ops), OPub off ep 1 []).
Proof.
  intros h ch id o h1 off ep dl ops id' o' HP Hk Hk' HN.
  destruct (publish_saves h ch id o h1 off ep dl HP Hk) as (HC & _).
  pose proof (run_cache_keep ops h1 ch (po_key o) off ep _ HC HN) as HC2.
  unfold publish, publish_with. rewrite Hk'. replace (po_key o =? 0) with false by lia.
  unfold cache_get. rewrite HC2.
  replace (h_now h + result_secs o * 1000 <=? h_now (fst (run h1 ops))) with false by lia.
  reflexivity.
Qed.

Definition nokey (o : popts) : popts :=
  mkPopts (po_size o) (po_ttl o) (po_meta o) 0 (po_rttl o) (po_ver o) (po_vep o).

(* IDEMPOTENCY, after the TTL: a stored result whose deadline has passed is
   ignored; the publish behaves as a fresh one (same output as the unkeyed
   publish) *)
Theorem idem_after_ttl : forall h ch id o off ep ex,
  h_cache h ch (po_key o) = Some (off, ep, ex) -> ex <= h_now h ->
  snd (publish h ch id o) = snd (publish h ch id (nokey o)).
Proof.
  intros h ch id o off ep ex HC HE.
  unfold publish, publish_with, cache_get. rewrite HC. replace (ex <=? h_now h) with true by lia.
  cbn [nokey po_key N.eqb].
  replace (if po_key o =? 0 then None else None) with (@None (N * N)) by (destruct (po_key o =? 0); reflexivity).
  replace (history_on (nokey o)) with (history_on o) by reflexivity.
  destruct (history_on o); [|reflexivity].
  replace (hub_add h ch id (nokey o)) with
    (let '(h1, p, sk) := hub_add h ch id o in (h1, p, sk)).
  2:{ unfold hub_add, ver_skip, book, nokey. cbn [po_size po_ttl po_meta po_ver po_vep].
      destruct (h_streams h ch) as [s|]; [|reflexivity].
      destruct ((0 <? po_ver o) && ((po_vep o =? 0) || (po_vep o =? s_vep s)) && (po_ver o <=? s_ver s)); reflexivity. }
  destruct (hub_add h ch id o) as [[h1 [off1 ep1]] sk]. destruct sk; reflexivity.
Qed.

(* SUPPRESSED PUBLISHES CHANGE NOTHING: whatever the reason, the broker state
   after a suppressed publish IS the state before, and nothing is delivered *)
Theorem suppressed_noop : forall h ch id o h1 off ep supp dl,
  publish h ch id o = (h1, OPub off ep supp dl) -> supp <> 0 ->
  h1 = h /\ dl = [].
Proof.
  intros h ch id o h1 off ep supp dl HP Hs.
  unfold publish, publish_with in HP.
  destruct (if po_key o =? 0 then None else cache_get h ch (po_key o)) as [[? ?]|].
  { inversion HP; auto. }
  destruct (history_on o).
  - unfold hub_add in HP. destruct (h_streams h ch) as [s|].
    + destruct (ver_skip s o); inversion HP; subst; auto. congruence.
    + inversion HP; subst. congruence.
  - inversion HP; subst. congruence.
Qed.

(* the version a channel holds *)
Definition held (h : hub) (ch : N) : option (N * N) :=
  match h_streams h ch with Some s => Some (s_ver s, s_vep s) | None => None end.

(* VERSION: a publish that misses the idempotency cache and has history on is
   suppressed for reason "version" exactly when the channel holds a version
   >= the requested one in the same version epoch (empty requested epoch = any) *)
Theorem version_suppressed_iff : forall h ch id o,
  (if po_key o =? 0 then None else cache_get h ch (po_key o)) = None ->
  history_on o = true ->
  ((exists off ep dl, snd (publish h ch id o) = OPub off ep 2 dl) <->
   (exists v e, held h ch = Some (v, e) /\ 0 < po_ver o /\
                (po_vep o = 0 \/ po_vep o = e) /\ po_ver o <= v)).
Proof.
  intros h ch id o Hc Hon. unfold publish, publish_with, held. rewrite Hc, Hon.
  unfold hub_add. destruct (h_streams h ch) as [s|].
  - unfold ver_skip.
    destruct ((0 <? po_ver o) && ((po_vep o =? 0) || (po_vep o =? s_vep s)) && (po_ver o <=? s_ver s)) eqn:E;
      cbn [snd]; split.
    + intros _. exists (s_ver s), (s_vep s). split; auto. lia.
    + intros _. do 3 eexists. reflexivity.
    + intros (off & ep & dl & X). discriminate.
    + intros (v & e & X & A & B & C). inversion X; subst. lia.
  - cbn [snd]. split.
    + intros (off & ep & dl & X). discriminate.
    + intros (v & e & X & _). discriminate.
Qed.

(* unversioned publishes do not reset the protection *)
Theorem unversioned_keeps_version : forall h ch id o s,
  po_ver o = 0 -> h_streams h ch = Some s ->
  held (fst (publish h ch id o)) ch = held h ch.
Proof.
  intros h ch id o s Hv Hs. unfold publish, publish_with, held.
  destruct (if po_key o =? 0 then None else cache_get h ch (po_key o)) as [[? ?]|]; [reflexivity|].
  destruct (history_on o).
  2:{ cbn [fst]. destruct (save_streams h ch o (0, 0)) as (-> & _). reflexivity. }
  unfold hub_add. rewrite Hs. unfold ver_skip. rewrite Hv. cbn [N.ltb N.compare andb fst].
  match goal with |- context [save_if_keyed ?H ch o ?P] => destruct (save_streams H ch o P) as (-> & _) end.
  cbn [book h_streams]. unfold upd. rewrite N.eqb_refl. cbn [s_add s_ver s_vep N.ltb N.compare]. reflexivity.
Qed.

(* a versioned publish that is stored becomes the held version *)
Theorem versioned_sets_version : forall h ch id o h1 off ep dl,
  publish h ch id o = (h1, OPub off ep 0 dl) -> history_on o = true -> 0 < po_ver o ->
  held h1 ch = Some (po_ver o, po_vep o).
Proof.
  intros h ch id o h1 off ep dl HP Hon Hv.
  unfold publish, publish_with in HP. rewrite Hon in HP.
  destruct (if po_key o =? 0 then None else cache_get h ch (po_key o)) as [[? ?]|]; [discriminate|].
  unfold hub_add in HP. unfold held.
  destruct (h_streams h ch) as [s|].
  - destruct (ver_skip s o); [discriminate|]. inversion HP; subst.
    match goal with |- context [save_if_keyed ?H ch o ?P] => destruct (save_streams H ch o P) as (-> & _) end.
    cbn [book h_streams]. unfold upd. rewrite N.eqb_refl. cbn [s_add s_ver s_vep].
    replace (0 <? po_ver o) with true by lia. reflexivity.
  - inversion HP; subst.
    match goal with |- context [save_if_keyed ?H ch o ?P] => destruct (save_streams H ch o P) as (-> & _) end.
    cbn [book h_streams]. unfold upd. rewrite N.eqb_refl. cbn [s_add s_ver s_vep].
    replace (0 <? po_ver o) with true by lia. reflexivity.
Qed.

(* every other operation keeps the held version of a channel, unless it
   discards the channel's metadata (SweepRemove), which ends the version epoch *)
Theorem other_ops_keep_version : forall h o ch s,
  h_streams h ch = Some s -> (forall c id po, o <> Publish c id po) ->
  held (fst (step h o)) ch = held h ch \/ (o = SweepRemove /\ held (fst (step h o)) ch = None).
Proof.
  intros h o ch s Hs Hnp. unfold held.
  destruct o as [c id po | c f meta | c | d | | | ]; cbn [step step_with fst].
  - exfalso. eapply Hnp; reflexivity.
  - left. unfold hub_get. destruct (h_streams h c) as [s0|] eqn:E0; cbn [fst h_streams]; [reflexivity|].
    unfold upd. destruct (ch =? c) eqn:E; [|reflexivity].
    assert (ch = c) by lia. subst. congruence.
  - left. unfold hub_remove. destruct (h_streams h c) as [s0|] eqn:E0; cbn [h_streams]; [|reflexivity].
    unfold upd. destruct (ch =? c) eqn:E; [|reflexivity].
    assert (ch = c) by lia. subst. rewrite Hs in E0. inversion E0; subst. rewrite Hs. reflexivity.
  - left. reflexivity.
  - left. cbn [sweep_expire h_streams]. rewrite Hs.
    destruct (fst (sweep1 (now_s h) (h_exp h ch))); reflexivity.
  - cbn [sweep_remove h_streams].
    destruct (fst (sweep1 (now_s h) (h_rem h ch))); [right; auto|left; reflexivity].
  - left. reflexivity.
Qed.
