(* Soundness of the C15 oracle (Harness/C15.v) with respect to the Props-level
   statement of the property. *)
From Coq Require Import List NArith ZArith Bool Lia.
From Cfg Require Import Model.Decimal Model.Filter Model.FilterSpec Proofs.Decimal Proofs.Filter Harness.C15.
Import ListNotations.
Open Scope N_scope.

Lemma opt_bool_eqb_eq : forall a b, opt_bool_eqb a b = true -> a = b.
Proof.
  intros [x|] [y|] H; cbn in H; try discriminate; try reflexivity.
  apply Bool.eqb_prop in H. now subst.
Qed.

Theorem oracle_sound : forall c, oracle c = true ->
  o_panic c = false /\
  (o_valid c = true <-> WF (c_f c)) /\
  (WF (c_f c) ->
   o_match c = Some (denote_g (acc_obs (o_nums c)) (c_f c) (c_tags c))) /\
  o_hash_copy c = true /\
  (c_f c = c_g c -> o_hash_g c = true).
Proof.
  intros c H. unfold oracle in H.
  repeat (apply andb_true_iff in H; destruct H as [H ?]).
  rename H into Hp, H3 into Hwf, H2 into Hm, H1 into Hc, H0 into Hg.
  apply negb_true_iff in Hp. apply Bool.eqb_prop in Hwf.
  split; [exact Hp|]. split; [rewrite Hwf; apply wf_b_exact|].
  split; [|split; [exact Hc|]].
  - intros W. apply wf_b_exact in W. rewrite <- Hwf in W. rewrite W in Hm.
    now apply opt_bool_eqb_eq.
  - intros E. apply node_eqb_eq in E. now rewrite E in Hg.
Qed.

(* when the observed acceptance table agrees with the grammar of the
   specification (which [corr] checks through [dec_parse]), the oracle's
   denotation is [denote] itself *)
Lemma acc_obs_agree : forall tbl,
  forallb (fun sa => Bool.eqb (numeral_ok (fst sa)) (snd sa)) tbl = true ->
  forall s, acc_obs tbl s = numeral_ok s.
Proof.
  induction tbl as [|[t a] tbl IH]; intros H s; cbn [acc_obs]; [reflexivity|].
  cbn [forallb fst snd] in H. apply andb_true_iff in H. destruct H as [H1 H2].
  destruct (bytes_eqb s t) eqn:E.
  - apply bytes_eqb_eq in E. subst t. apply Bool.eqb_prop in H1. now rewrite H1.
  - now apply IH.
Qed.

Theorem oracle_denote : forall c,
  forallb (fun sa => Bool.eqb (numeral_ok (fst sa)) (snd sa)) (o_nums c) = true ->
  denote_g (acc_obs (o_nums c)) (c_f c) (c_tags c) = denote (c_f c) (c_tags c).
Proof.
  intros c H. unfold denote. apply denote_g_ext. now apply acc_obs_agree.
Qed.
