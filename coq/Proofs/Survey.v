(* Proofs for Node.Survey (C41): invariant of the survey transition system for all schedules. *)
From Coq Require Import List NArith Bool Arith Lia.
From Cfg Require Import Model.Survey.
Import ListNotations.

(* ---------------------------------------------------------------- the results map *)
Lemma map_put_in m u v k x : In (k, x) (map_put m u v) -> (k = u /\ x = v) \/ In (k, x) m.
Proof.
  induction m as [|[k' x'] m IH]; cbn.
  - intros [[= <- <-]|[]]. auto.
  - destruct (N.eqb k' u) eqn:E.
    + apply N.eqb_eq in E. subst. intros [[= <- <-]|H]; auto.
    + intros [[= <- <-]|H]; auto. destruct (IH H); auto.
Qed.

Lemma map_put_keys_in m u v k : In k (map fst (map_put m u v)) -> k = u \/ In k (map fst m).
Proof.
  intros H. apply in_map_iff in H. destruct H as ((k', x) & E & H). cbn in E. subst.
  destruct (map_put_in _ _ _ _ _ H) as [(-> & _)|H']; auto. right. apply in_map_iff. exists (k, x). auto.
Qed.

Lemma map_put_nodup m u v : NoDup (map fst m) -> NoDup (map fst (map_put m u v)).
Proof.
  induction m as [|[k x] m IH]; cbn; intros H.
  - repeat constructor; auto.
  - inversion H; subst. destruct (N.eqb k u) eqn:E; cbn.
    + constructor; auto.
    + constructor; auto. intros Hin. destruct (map_put_keys_in _ _ _ _ Hin) as [->|Hin']; auto.
      rewrite N.eqb_refl in E. discriminate.
Qed.

Lemma map_put_length m u v : length (map_put m u v) = if existsb (N.eqb u) (map fst m) then length m else S (length m).
Proof.
  induction m as [|[k x] m IH]; cbn; auto. rewrite (N.eqb_sym u k). destruct (N.eqb k u); cbn; auto.
  rewrite IH. destruct (existsb (N.eqb u) (map fst m)); reflexivity.
Qed.

Lemma map_put_keys m u v :
  map fst (map_put m u v) = if existsb (N.eqb u) (map fst m) then map fst m else map fst m ++ [u].
Proof.
  induction m as [|[k x] m IH]; cbn; auto. rewrite (N.eqb_sym u k). destruct (N.eqb k u) eqn:E; cbn; auto.
  rewrite IH. destruct (existsb (N.eqb u) (map fst m)); reflexivity.
Qed.

(* ---------------------------------------------------------------- invariant *)
Definition collecting (p : phase) : bool := match p with Handling | Collecting => true | _ => false end.

Record SInv (s : sv) : Prop := mkSInv {
  si_num : 1 <= s_num s;
  si_nodup : NoDup (map fst (s_results s));
  si_res : forall u v, In (u, v) (s_results s) -> In (mkResp u v) (s_accepted s);
  si_buf : forall r, In r (s_buf s) -> In r (s_accepted s);
  si_cap : length (s_buf s) <= s_num s;
  si_run : collecting (s_phase s) = true -> length (s_results s) < s_num s;
  si_le : length (s_results s) <= s_num s;
  si_ret : forall res e, s_ret s = Some (res, e) -> s_phase s = Returned /\ res = s_results s;
  si_noret : s_phase s <> Returned -> s_ret s = None
}.

Definition NInv (st : nst) : Prop := forall id s, find_sv (n_surveys st) id = Some s -> SInv s /\ id <= n_next st.

Lemma NInv_init : NInv n_init.
Proof. intros id s H. discriminate. Qed.

Lemma find_set st id s id' : find_sv (n_surveys (set_sv st id s)) id' = if id =? id' then Some s else find_sv (n_surveys st) id'.
Proof. reflexivity. Qed.

Lemma NInv_set st id s : NInv st -> SInv s -> id <= n_next st -> NInv (set_sv st id s).
Proof.
  intros HN HS Hid id' s'. rewrite find_set. destruct (id =? id') eqn:E.
  - apply Nat.eqb_eq in E. subst. intros E'. injection E' as E'. subst s'. auto.
  - apply HN.
Qed.

Lemma sstep_inv st l st' : NInv st -> sstep st l = Some st' -> NInv st'.
Proof.
  intros HN H. destruct l; cbn [sstep] in H.
  - (* start *)
    destruct (numNodes =? 0) eqn:E0; [discriminate|]. apply Nat.eqb_neq in E0. injection H as <-.
    intros id s Hf. cbn [n_surveys find_sv n_next] in Hf |- *. destruct (S (n_next st) =? id) eqn:E.
    + apply Nat.eqb_eq in E. subst. injection Hf as Hf. subst s. split; [|lia].
      constructor; cbn; auto; try lia; try constructor; try contradiction; try discriminate;
        try (destruct local; discriminate).
    + destruct (HN id s Hf). split; auto.
  - (* handler done *)
    destruct (find_sv (n_surveys st) id) as [s|] eqn:Ef; [|discriminate]. destruct (HN id s Ef) as (HS & Hid).
    destruct (s_phase s) eqn:Ep; try discriminate. injection H as <-. apply NInv_set; auto.
    destruct HS. constructor; cbn; auto; try discriminate.
    + intros _. apply si_run0. rewrite Ep. reflexivity.
    + intros res e Hr. rewrite si_noret0 in Hr by (rewrite Ep; discriminate). discriminate.
    + intros _. apply si_noret0. rewrite Ep. discriminate.
  - (* local *)
    destruct (find_sv (n_surveys st) id) as [s|] eqn:Ef; [|discriminate]. destruct (HN id s Ef) as (HS & Hid).
    destruct (s_local s) as [v|]; [|discriminate].
    destruct (length (s_buf s) <? s_num s) eqn:El; [|discriminate]. apply Nat.ltb_lt in El. injection H as <-.
    apply NInv_set; auto. destruct HS. constructor; cbn; auto.
    + intros u x Hin. apply in_or_app. left. auto.
    + intros r Hin. apply in_app_or in Hin. apply in_or_app. destruct Hin as [Hin|Hin]; auto.
    + rewrite app_length. cbn. lia.
  - (* deliver *)
    destruct (find_sv (n_surveys st) id) as [s|] eqn:Ef; [|injection H as <-; auto]. destruct (HN id s Ef) as (HS & Hid).
    assert (Hacc : length (s_buf s) <? s_num s = true ->
      NInv (set_sv st id (mkSv (s_num s) (s_buf s ++ [mkResp uid v]) (s_results s) (s_phase s) (s_cancelled s)
                               (s_local s) (s_ret s) (s_accepted s ++ [mkResp uid v])))).
    { intros El. apply Nat.ltb_lt in El. apply NInv_set; auto. destruct HS. constructor; cbn; auto.
      + intros u x Hin. apply in_or_app. left. auto.
      + intros r Hin. apply in_app_or in Hin. apply in_or_app. destruct Hin as [Hin|Hin]; auto.
      + rewrite app_length. cbn. lia. }
    destruct (s_phase s); try (injection H as <-; auto);
      destruct (length (s_buf s) <? s_num s); injection H as <-; auto.
  - (* collect *)
    destruct (find_sv (n_surveys st) id) as [s|] eqn:Ef; [|discriminate]. destruct (HN id s Ef) as (HS & Hid).
    destruct (s_phase s) eqn:Ep; try discriminate. destruct (s_buf s) as [|r buf'] eqn:Eb; [discriminate|].
    injection H as <-. apply NInv_set; auto. destruct HS.
    assert (Hlen : length (map_put (s_results s) (r_uid r) (r_val r)) <= s_num s).
    { rewrite map_put_length. specialize (si_run0 ltac:(rewrite Ep; reflexivity)).
      destruct (existsb (N.eqb (r_uid r)) (map fst (s_results s))); lia. }
    constructor; cbn; auto.
    + apply map_put_nodup. auto.
    + intros u x Hin. destruct (map_put_in _ _ _ _ _ Hin) as [(-> & ->)|Hin']; auto.
      apply si_buf0. rewrite Eb. left. destruct r; reflexivity.
    + intros r0 Hin. apply si_buf0. rewrite Eb. right. auto.
    + rewrite Eb in si_cap0. cbn in si_cap0. lia.
    + destruct (length (map_put (s_results s) (r_uid r) (r_val r)) =? s_num s) eqn:E; cbn; [discriminate|].
      intros _. apply Nat.eqb_neq in E. lia.
    + intros res e Hr. rewrite si_noret0 in Hr by (rewrite Ep; discriminate). discriminate.
    + intros _. apply si_noret0. rewrite Ep. discriminate.
  - (* cancel *)
    destruct (find_sv (n_surveys st) id) as [s|] eqn:Ef; [|discriminate]. destruct (HN id s Ef) as (HS & Hid).
    injection H as <-. apply NInv_set; auto. destruct HS. constructor; cbn; auto.
  - (* deadline *)
    destruct (find_sv (n_surveys st) id) as [s|] eqn:Ef; [|discriminate]. destruct (HN id s Ef) as (HS & Hid).
    destruct (s_phase s) eqn:Ep; try discriminate. destruct (s_cancelled s); [|discriminate].
    injection H as <-. apply NInv_set; auto. destruct HS. constructor; cbn; auto; try discriminate.
    + intros res e Hr. rewrite si_noret0 in Hr by (rewrite Ep; discriminate). discriminate.
    + intros _. apply si_noret0. rewrite Ep. discriminate.
  - (* return *)
    destruct (find_sv (n_surveys st) id) as [s|] eqn:Ef; [|discriminate]. destruct (HN id s Ef) as (HS & Hid).
    destruct (s_phase s) eqn:Ep; try discriminate.
    injection H as <-. apply NInv_set; auto. destruct HS. constructor; cbn; auto; try discriminate.
    + intros res e [= <- <-]. auto.
    + congruence.
Qed.

Lemma srun_inv sched : forall st st', NInv st -> srun st sched = Some st' -> NInv st'.
Proof.
  induction sched as [|l sched IH]; intros st st' HN; cbn [srun].
  - intros [= <-]. auto.
  - destruct (sstep st l) as [st1|] eqn:E; [|discriminate]. intros H.
    eapply IH; [eapply sstep_inv; eauto|exact H].
Qed.

(* ---------------------------------------------------------------- property lemmas *)
Lemma reach_inv sched st id s : srun n_init sched = Some st -> find_sv (n_surveys st) id = Some s -> SInv s.
Proof. intros H Hf. apply (srun_inv sched _ _ NInv_init H id s Hf). Qed.

(* what Survey returns has at most one result per node and only responses accepted for THIS survey *)
Lemma returned_ok sched st id s res e :
  srun n_init sched = Some st -> find_sv (n_surveys st) id = Some s -> s_ret s = Some (res, e) ->
  NoDup (map fst res) /\ length res <= s_num s /\ forall u v, In (u, v) res -> In (mkResp u v) (s_accepted s).
Proof.
  intros H Hf Hr. destruct (reach_inv sched st id s H Hf). destruct (si_ret0 res e Hr) as (_ & ->). auto.
Qed.

