(* Proofs for Node.Survey (C41): invariant of the survey transition system for all schedules. *)
From Coq Require Import List NArith Bool Arith Lia.
From Cfg Require Import Model.Survey.
Import ListNotations.

(* ---------------------------------------------------------------- the results map *)
Lemma map_put_in m u v k x : In (k, x) (map_put m u v) -> (k = u /\ x = v) \/ In (k, x) m.
Proof.
  induction m as [|[k' x'] m IH]; cbn.
  - intros [[= <- <-]|[]]. auto.
  - destruct (N.eqb k' u) eqn:E.
    + apply N.eqb_eq in E. subst. intros [[= <- <-]|H]; auto.
    + intros [[= <- <-]|H]; auto. destruct (IH H); auto.
Qed.

Lemma map_put_keys_in m u v k : In k (map fst (map_put m u v)) -> k = u \/ In k (map fst m).
Proof.
  intros H. apply in_map_iff in H. destruct H as ((k', x) & E & H). cbn in E. subst.
  destruct (map_put_in _ _ _ _ _ H) as [(-> & _)|H']; auto. right. apply in_map_iff. exists (k, x). auto.
Qed.

Lemma map_put_nodup m u v : NoDup (map fst m) -> NoDup (map fst (map_put m u v)).
Proof.
  induction m as [|[k x] m IH]; cbn; intros H.
  - repeat constructor; auto.
  - inversion H; subst. destruct (N.eqb k u) eqn:E; cbn.
    + constructor; auto.
    + constructor; auto. intros Hin. destruct (map_put_keys_in _ _ _ _ Hin) as [->|Hin']; auto.
      rewrite N.eqb_refl in E. discriminate.
Qed.

Lemma map_put_length m u v : length (map_put m u v) = if existsb (N.eqb u) (map fst m) then length m else S (length m).
Proof.
  induction m as [|[k x] m IH]; cbn; auto. rewrite (N.eqb_sym u k). destruct (N.eqb k u); cbn; auto.
  rewrite IH. destruct (existsb (N.eqb u) (map fst m)); reflexivity.
Qed.

Lemma map_put_keys m u v :
  map fst (map_put m u v) = if existsb (N.eqb u) (map fst m) then map fst m else map fst m ++ [u].
Proof.
  induction m as [|[k x] m IH]; cbn; auto. rewrite (N.eqb_sym u k). destruct (N.eqb k u) eqn:E; cbn; auto.
  rewrite IH. destruct (existsb (N.eqb u) (map fst m)); reflexivity.
Qed.

(* ---------------------------------------------------------------- invariant *)
Definition collecting (p : phase) : bool := match p with Handling | Collecting => true | _ => false end.

Record SInv (s : sv) : Prop := mkSInv {
  si_num : 1 <= s_num s;
  si_nodup : NoDup (map fst (s_results s));
  si_res : forall u v, In (u, v) (s_results s) -> In (mkResp u v) (s_accepted s);
  si_buf : forall r, In r (s_buf s) -> In r (s_accepted s);
  si_cap : length (s_buf s) <= s_num s;
  si_run : collecting (s_phase s) = true -> length (s_results s) < s_num s;
  si_le : length (s_results s) <= s_num s;
  si_ret : forall res e, s_ret s = Some (res, e) -> s_phase s = Returned /\ res = s_results s;
  si_noret : s_phase s <> Returned -> s_ret s = None
}.

Definition NInv (st : nst) : Prop := forall id s, find_sv (n_surveys st) id = Some s -> SInv s /\ id <= n_next st.

Lemma NInv_init : NInv n_init.
Proof. intros id s H. discriminate. Qed.

Lemma find_set st id s id' : find_sv (n_surveys (set_sv st id s)) id' = if id =? id' then Some s else find_sv (n_surveys st) id'.
Proof. reflexivity. Qed.

Lemma NInv_set st id s : NInv st -> SInv s -> id <= n_next st -> NInv (set_sv st id s).
Proof.
  intros HN HS Hid id' s'. rewrite find_set. destruct (id =? id') eqn:E.
  - apply Nat.eqb_eq in E. subst. intros E'. injection E' as E'. subst s'. auto.
  - apply HN.
Qed.

Lemma sstep_inv st l st' : NInv st -> sstep st l = Some st' -> NInv st'.
Proof.
  intros HN H. destruct l; cbn [sstep] in H.
  - (* start *)
    destruct (numNodes =? 0) eqn:E0; [discriminate|]. apply Nat.eqb_neq in E0. injection H as <-.
    intros id s Hf. cbn [n_surveys find_sv n_next] in Hf |- *. destruct (S (n_next st) =? id) eqn:E.
    + apply Nat.eqb_eq in E. subst. injection Hf as Hf. subst s. split; [|lia].
      constructor; cbn; auto; try lia; try constructor; try contradiction; try discriminate;
        try (destruct local; discriminate).
    + destruct (HN id s Hf). split; auto.
  - (* handler done *)
    destruct (find_sv (n_surveys st) id) as [s|] eqn:Ef; [|discriminate]. destruct (HN id s Ef) as (HS & Hid).
    destruct (s_phase s) eqn:Ep; try discriminate. injection H as <-. apply NInv_set; auto.
    destruct HS. constructor; cbn; auto; try discriminate.
    + intros _. apply si_run0. rewrite Ep. reflexivity.
    + intros res e Hr. rewrite si_noret0 in Hr by (rewrite Ep; discriminate). discriminate.
    + intros _. apply si_noret0. rewrite Ep. discriminate.
  - (* local *)
    destruct (find_sv (n_surveys st) id) as [s|] eqn:Ef; [|discriminate]. destruct (HN id s Ef) as (HS & Hid).
    destruct (s_local s) as [v|]; [|discriminate].
    destruct (length (s_buf s) <? s_num s) eqn:El; [|discriminate]. apply Nat.ltb_lt in El. injection H as <-.
    apply NInv_set; auto. destruct HS. constructor; cbn; auto.
    + intros u x Hin. apply in_or_app. left. auto.
    + intros r Hin. apply in_app_or in Hin. apply in_or_app. destruct Hin as [Hin|Hin]; auto.
    + rewrite app_length. cbn. lia.
  - (* deliver *)
    destruct (find_sv (n_surveys st) id) as [s|] eqn:Ef; [|injection H as <-; auto]. destruct (HN id s Ef) as (HS & Hid).
    assert (Hacc : length (s_buf s) <? s_num s = true ->
      NInv (set_sv st id (mkSv (s_num s) (s_buf s ++ [mkResp uid v]) (s_results s) (s_phase s) (s_cancelled s)
                               (s_local s) (s_ret s) (s_accepted s ++ [mkResp uid v])))).
    { intros El. apply Nat.ltb_lt in El. apply NInv_set; auto. destruct HS. constructor; cbn; auto.
      + intros u x Hin. apply in_or_app. left. auto.
      + intros r Hin. apply in_app_or in Hin. apply in_or_app. destruct Hin as [Hin|Hin]; auto.
      + rewrite app_length. cbn. lia. }
    destruct (s_phase s); try (injection H as <-; auto);
      destruct (length (s_buf s) <? s_num s); injection H as <-; auto.
  - (* collect *)
    destruct (find_sv (n_surveys st) id) as [s|] eqn:Ef; [|discriminate]. destruct (HN id s Ef) as (HS & Hid).
    destruct (s_phase s) eqn:Ep; try discriminate. destruct (s_buf s) as [|r buf'] eqn:Eb; [discriminate|].
    injection H as <-. apply NInv_set; auto. destruct HS.
    assert (Hlen : length (map_put (s_results s) (r_uid r) (r_val r)) <= s_num s).
    { rewrite map_put_length. specialize (si_run0 ltac:(rewrite Ep; reflexivity)).
      destruct (existsb (N.eqb (r_uid r)) (map fst (s_results s))); lia. }
    constructor; cbn; auto.
    + apply map_put_nodup. auto.
    + intros u x Hin. destruct (map_put_in _ _ _ _ _ Hin) as [(-> & ->)|Hin']; auto.
      apply si_buf0. rewrite Eb. left. destruct r; reflexivity.
    + intros r0 Hin. apply si_buf0. rewrite Eb. right. auto.
    + rewrite Eb in si_cap0. cbn in si_cap0. lia.
    + destruct (length (map_put (s_results s) (r_uid r) (r_val r)) =? s_num s) eqn:E; cbn; [discriminate|].
      intros _. apply Nat.eqb_neq in E. lia.
    + intros res e Hr. rewrite si_noret0 in Hr by (rewrite Ep; discriminate). discriminate.
    + intros _. apply si_noret0. rewrite Ep. discriminate.
  - (* cancel *)
    destruct (find_sv (n_surveys st) id) as [s|] eqn:Ef; [|discriminate]. destruct (HN id s Ef) as (HS & Hid).
    injection H as <-. apply NInv_set; auto. destruct HS. constructor; cbn; auto.
  - (* deadline *)
    destruct (find_sv (n_surveys st) id) as [s|] eqn:Ef; [|discriminate]. destruct (HN id s Ef) as (HS & Hid).
    destruct (s_phase s) eqn:Ep; try discriminate. destruct (s_cancelled s); [|discriminate].
    injection H as <-. apply NInv_set; auto. destruct HS. constructor; cbn; auto; try discriminate.
    + intros res e Hr. rewrite si_noret0 in Hr by (rewrite Ep; discriminate). discriminate.
    + intros _. apply si_noret0. rewrite Ep. discriminate.
  - (* return *)
    destruct (find_sv (n_surveys st) id) as [s|] eqn:Ef; [|discriminate]. destruct (HN id s Ef) as (HS & Hid).
    destruct (s_phase s) eqn:Ep; try discriminate.
    injection H as <-. apply NInv_set; auto. destruct HS. constructor; cbn; auto; try discriminate.
    + intros res e [= <- <-]. auto.
    + congruence.
Qed.

Lemma srun_inv sched : forall st st', NInv st -> srun st sched = Some st' -> NInv st'.
Proof.
  induction sched as [|l sched IH]; intros st st' HN; cbn [srun].
  - intros [= <-]. auto.
  - destruct (sstep st l) as [st1|] eqn:E; [|discriminate]. intros H.
    eapply IH; [eapply sstep_inv; eauto|exact H].
Qed.

(* ---------------------------------------------------------------- property lemmas *)
Lemma reach_inv sched st id s : srun n_init sched = Some st -> find_sv (n_surveys st) id = Some s -> SInv s.
Proof. intros H Hf. apply (srun_inv sched _ _ NInv_init H id s Hf). Qed.

(* what Survey returns has at most one result per node and only responses accepted for THIS survey *)
Lemma returned_ok sched st id s res e :
  srun n_init sched = Some st -> find_sv (n_surveys st) id = Some s -> s_ret s = Some (res, e) ->
  NoDup (map fst res) /\ length res <= s_num s /\ forall u v, In (u, v) res -> In (mkResp u v) (s_accepted s).
Proof.
  intros H Hf Hr. destruct (reach_inv sched st id s H Hf). destruct (si_ret0 res e Hr) as (_ & ->). auto.
Qed.

(* the accepted set of a survey grows only by a response carrying ITS id (while it is registered),
   or by its own local reply *)
Lemma accepted_grows st l st' id s s' : NInv st ->
  sstep st l = Some st' -> find_sv (n_surveys st) id = Some s -> find_sv (n_surveys st') id = Some s' ->
  s_accepted s' = s_accepted s \/
  (exists u v, l = LDeliver u id v /\ s_phase s <> Returned /\ s_accepted s' = s_accepted s ++ [mkResp u v]) \/
  (exists v, l = LLocal id /\ s_accepted s' = s_accepted s ++ [mkResp 0 v]).
Proof.
  intros HN H Hf Hf'.
  assert (Hother : forall id0 s0, st' = set_sv st id0 s0 -> id0 <> id -> s_accepted s' = s_accepted s).
  { intros id0 s0 -> Hne. rewrite find_set in Hf'. replace (id0 =? id) with false in Hf' by (symmetry; apply Nat.eqb_neq; auto). congruence. }
  destruct l; cbn [sstep] in H.
  - destruct (numNodes =? 0); [discriminate|]. injection H as <-. cbn [n_surveys find_sv] in Hf'.
    destruct (S (n_next st) =? id) eqn:E; [|left; congruence].
    apply Nat.eqb_eq in E. destruct (HN id s Hf) as (_ & Hle). lia.
  - destruct (find_sv (n_surveys st) id0) as [s0|] eqn:Ef; [|discriminate].
    destruct (s_phase s0); try discriminate. injection H as <-. rewrite find_set in Hf'.
    destruct (id0 =? id) eqn:E; [|left; congruence]. apply Nat.eqb_eq in E. subst. left.
    rewrite Ef in Hf. injection Hf as <-. injection Hf' as <-. reflexivity.
  - destruct (find_sv (n_surveys st) id0) as [s0|] eqn:Ef; [|discriminate].
    destruct (s_local s0) as [v|]; [|discriminate]. destruct (length (s_buf s0) <? s_num s0); [|discriminate].
    injection H as <-. rewrite find_set in Hf'.
    destruct (id0 =? id) eqn:E; [|left; congruence]. apply Nat.eqb_eq in E. subst. right. right.
    rewrite Ef in Hf. injection Hf as <-. injection Hf' as <-. exists v. auto.
  - destruct (find_sv (n_surveys st) id0) as [s0|] eqn:Ef; [|injection H as <-; left; congruence].
    assert (Hsame : st' = st -> s_accepted s' = s_accepted s) by (intros ->; congruence).
    assert (Hadd : st' = set_sv st id0 (mkSv (s_num s0) (s_buf s0 ++ [mkResp uid v]) (s_results s0) (s_phase s0)
                     (s_cancelled s0) (s_local s0) (s_ret s0) (s_accepted s0 ++ [mkResp uid v])) ->
                   s_phase s0 <> Returned ->
                   s_accepted s' = s_accepted s \/
                   (exists u v0, LDeliver uid id0 v = LDeliver u id v0 /\ s_phase s <> Returned /\
                                 s_accepted s' = s_accepted s ++ [mkResp u v0]) \/
                   (exists v0, LDeliver uid id0 v = LLocal id /\ s_accepted s' = s_accepted s ++ [mkResp 0 v0])).
    { intros -> Hp. rewrite find_set in Hf'. destruct (id0 =? id) eqn:E; [|left; congruence].
      apply Nat.eqb_eq in E. subst. rewrite Ef in Hf. injection Hf as <-. injection Hf' as <-.
      right. left. exists uid, v. auto. }
    destruct (s_phase s0) eqn:Ep; try (injection H as <-; left; congruence);
      (destruct (length (s_buf s0) <? s_num s0); injection H as <-; [apply Hadd; auto; discriminate|left; congruence]).
  - destruct (find_sv (n_surveys st) id0) as [s0|] eqn:Ef; [|discriminate].
    destruct (s_phase s0); try discriminate. destruct (s_buf s0); [discriminate|]. injection H as <-.
    rewrite find_set in Hf'. destruct (id0 =? id) eqn:E; [|left; congruence]. apply Nat.eqb_eq in E. subst. left.
    rewrite Ef in Hf. injection Hf as <-. injection Hf' as <-. reflexivity.
  - destruct (find_sv (n_surveys st) id0) as [s0|] eqn:Ef; [|discriminate]. injection H as <-.
    rewrite find_set in Hf'. destruct (id0 =? id) eqn:E; [|left; congruence]. apply Nat.eqb_eq in E. subst. left.
    rewrite Ef in Hf. injection Hf as <-. injection Hf' as <-. reflexivity.
  - destruct (find_sv (n_surveys st) id0) as [s0|] eqn:Ef; [|discriminate].
    destruct (s_phase s0); try discriminate. destruct (s_cancelled s0); [|discriminate]. injection H as <-.
    rewrite find_set in Hf'. destruct (id0 =? id) eqn:E; [|left; congruence]. apply Nat.eqb_eq in E. subst. left.
    rewrite Ef in Hf. injection Hf as <-. injection Hf' as <-. reflexivity.
  - destruct (find_sv (n_surveys st) id0) as [s0|] eqn:Ef; [|discriminate].
    destruct (s_phase s0); try discriminate. injection H as <-.
    rewrite find_set in Hf'. destruct (id0 =? id) eqn:E; [|left; congruence]. apply Nat.eqb_eq in E. subst. left.
    rewrite Ef in Hf. injection Hf as <-. injection Hf' as <-. reflexivity.
Qed.

(* handleSurveyResponse never blocks, and a late / foreign / duplicate response touches no other survey *)
Lemma deliver_total st uid id v :
  exists st', sstep st (LDeliver uid id v) = Some st' /\
              (forall id', id' <> id -> find_sv (n_surveys st') id' = find_sv (n_surveys st) id') /\
              (match find_sv (n_surveys st) id with
               | None => st' = st
               | Some s => s_phase s = Returned -> st' = st
               end).
Proof.
  cbn [sstep]. destruct (find_sv (n_surveys st) id) as [s|] eqn:Ef.
  - destruct (s_phase s) eqn:Ep; try (exists st; repeat split; auto; discriminate);
      (destruct (length (s_buf s) <? s_num s);
       [eexists; split; [reflexivity|]; split; [|discriminate];
        intros id' Hne; rewrite find_set; replace (id =? id') with false by (symmetry; apply Nat.eqb_neq; auto); reflexivity
       |exists st; repeat split; auto; discriminate]).
  - exists st. repeat split; auto.
Qed.

(* the collector: run it until the channel is empty *)
Fixpoint collect_n (k : nat) (st : nst) (id : nat) : option nst :=
  match k with
  | 0 => Some st
  | S k' => match sstep st (LCollect id) with Some st1 => collect_n k' st1 id | None => None end
  end.

(* "returns as soon as every expected node answered": if the responses the survey has accepted so far
   (collected or still in the channel) come from numNodes distinct nodes, then the collector finishes
   after at most |channel| of its own steps, each of them enabled. *)
Lemma complete_finishes : forall buf st id s, NInv st ->
  find_sv (n_surveys st) id = Some s -> s_phase s = Collecting -> s_buf s = buf ->
  s_num s <= length (uids buf (map fst (s_results s))) ->
  exists k st' s', k <= length buf /\ collect_n k st id = Some st' /\
                   find_sv (n_surveys st') id = Some s' /\ s_phase s' = Finished /\ length (s_results s') = s_num s.
Proof.
  induction buf as [|r buf IH]; intros st id s HN Hf Hp Hb Hu.
  - cbn in Hu. destruct (HN id s Hf) as (HS & _). destruct HS. rewrite map_length in Hu.
    specialize (si_run0 ltac:(rewrite Hp; reflexivity)). lia.
  - assert (E1 : sstep st (LCollect id) =
              Some (set_sv st id (mkSv (s_num s) buf (map_put (s_results s) (r_uid r) (r_val r))
                      (if length (map_put (s_results s) (r_uid r) (r_val r)) =? s_num s then Finished else Collecting)
                      (s_cancelled s) (s_local s) (s_ret s) (s_accepted s)))).
    { cbn [sstep]. rewrite Hf, Hp, Hb. reflexivity. }
    pose proof (sstep_inv _ _ _ HN E1) as HN1.
    destruct (length (map_put (s_results s) (r_uid r) (r_val r)) =? s_num s) eqn:El.
    + apply Nat.eqb_eq in El. eexists 1, _, _. split; [cbn; lia|]. cbn [collect_n]. rewrite E1.
      split; [reflexivity|]. rewrite find_set, Nat.eqb_refl. split; [reflexivity|]. cbn. auto.
    + destruct (IH _ id _ HN1 ltac:(rewrite find_set, Nat.eqb_refl; reflexivity) eq_refl eq_refl)
        as (k & st' & s' & Hk & Hc & Hf' & Hp' & Hl').
      { cbn [s_num s_results]. cbn [uids] in Hu. rewrite map_put_keys.
        destruct (existsb (N.eqb (r_uid r)) (map fst (s_results s))); exact Hu. }
      exists (S k), st', s'. split; [cbn; lia|]. cbn [collect_n]. rewrite E1. auto.
Qed.

(* deadline: once the context is done the collector can stop, and Survey then returns what it has with a
   non-nil error *)
Lemma deadline_returns st id s : find_sv (n_surveys st) id = Some s -> s_phase s = Collecting -> s_cancelled s = true ->
  exists st1 st2 s2, sstep st (LDeadline id) = Some st1 /\ sstep st1 (LReturn id) = Some st2 /\
                     find_sv (n_surveys st2) id = Some s2 /\ s_ret s2 = Some (s_results s, true) /\ s_phase s2 = Returned.
Proof.
  intros Hf Hp Hc. cbn [sstep]. rewrite Hf, Hp, Hc. eexists. eexists. eexists. split; [reflexivity|].
  rewrite find_set, Nat.eqb_refl. cbn [s_phase]. split; [reflexivity|]. rewrite find_set, Nat.eqb_refl.
  split; [reflexivity|]. cbn. auto.
Qed.

Lemma finished_returns st id s : find_sv (n_surveys st) id = Some s -> s_phase s = Finished ->
  exists st2 s2, sstep st (LReturn id) = Some st2 /\ find_sv (n_surveys st2) id = Some s2 /\
                 s_ret s2 = Some (s_results s, s_cancelled s).
Proof.
  intros Hf Hp. cbn [sstep]. rewrite Hf, Hp. eexists. eexists. split; [reflexivity|].
  rewrite find_set, Nat.eqb_refl. split; [reflexivity|]. reflexivity.
Qed.

(* The LOCAL reply is a blocking send: if the collector has stopped while the channel is full, the local
   handler's callback blocks, and stays blocked for ever. *)
Definition stuck (s : sv) : Prop :=
  (s_phase s = Finished \/ s_phase s = Returned) /\ length (s_buf s) = s_num s.

Lemma stuck_step st l st' id s : sstep st l = Some st' -> find_sv (n_surveys st) id = Some s -> stuck s -> NInv st ->
  exists s', find_sv (n_surveys st') id = Some s' /\ stuck s' /\ s_local s' = s_local s.
Proof.
  intros H Hf (Hp & Hl) HN.
  assert (Hother : forall id0 s0, st' = set_sv st id0 s0 -> id0 <> id ->
            exists s', find_sv (n_surveys st') id = Some s' /\ stuck s' /\ s_local s' = s_local s).
  { intros id0 s0 -> Hne. exists s. rewrite find_set. replace (id0 =? id) with false by (symmetry; apply Nat.eqb_neq; auto).
    repeat split; auto. }
  assert (Hsame : st' = st -> exists s', find_sv (n_surveys st') id = Some s' /\ stuck s' /\ s_local s' = s_local s).
  { intros ->. exists s. repeat split; auto. }
  destruct l; cbn [sstep] in H.
  - destruct (numNodes =? 0); [discriminate|]. injection H as <-. cbn [n_surveys find_sv].
    destruct (S (n_next st) =? id) eqn:E.
    + apply Nat.eqb_eq in E. destruct (HN id s Hf) as (_ & Hle). lia.
    + exists s. repeat split; auto.
  - destruct (find_sv (n_surveys st) id0) as [s0|] eqn:Ef; [|discriminate].
    destruct (s_phase s0) eqn:Ep; try discriminate. injection H as H. destruct (Nat.eq_dec id0 id) as [->|Hne]; [|eapply Hother; eauto].
    rewrite Ef in Hf. injection Hf as <-. destruct Hp; congruence.
  - destruct (find_sv (n_surveys st) id0) as [s0|] eqn:Ef; [|discriminate].
    destruct (s_local s0) as [v|]; [|discriminate]. destruct (length (s_buf s0) <? s_num s0) eqn:El; [|discriminate].
    injection H as H. destruct (Nat.eq_dec id0 id) as [->|Hne]; [|eapply Hother; eauto].
    rewrite Ef in Hf. injection Hf as <-. apply Nat.ltb_lt in El. lia.
  - destruct (find_sv (n_surveys st) id0) as [s0|] eqn:Ef; [|injection H as <-; auto].
    destruct (Nat.eq_dec id0 id) as [->|Hne].
    + rewrite Ef in Hf. injection Hf as <-.
      replace (length (s_buf s0) <? s_num s0) with false in H by (symmetry; apply Nat.ltb_ge; lia).
      destruct (s_phase s0); injection H as <-; auto.
    + destruct (s_phase s0); try (injection H as <-; auto);
        (destruct (length (s_buf s0) <? s_num s0); injection H as H; [eapply Hother; eauto|auto]).
  - destruct (find_sv (n_surveys st) id0) as [s0|] eqn:Ef; [|discriminate].
    destruct (s_phase s0) eqn:Ep; try discriminate. destruct (s_buf s0); [discriminate|]. injection H as H.
    destruct (Nat.eq_dec id0 id) as [->|Hne]; [|eapply Hother; eauto].
    rewrite Ef in Hf. injection Hf as <-. destruct Hp; congruence.
  - destruct (find_sv (n_surveys st) id0) as [s0|] eqn:Ef; [|discriminate]. injection H as <-.
    destruct (Nat.eq_dec id0 id) as [->|Hne]; [|eapply Hother; eauto].
    rewrite Ef in Hf. injection Hf as <-. eexists. rewrite find_set, Nat.eqb_refl. split; [reflexivity|].
    split; [split; auto|reflexivity].
  - destruct (find_sv (n_surveys st) id0) as [s0|] eqn:Ef; [|discriminate].
    destruct (s_phase s0) eqn:Ep; try discriminate. destruct (s_cancelled s0); [|discriminate]. injection H as H.
    destruct (Nat.eq_dec id0 id) as [->|Hne]; [|eapply Hother; eauto].
    rewrite Ef in Hf. injection Hf as <-. destruct Hp; congruence.
  - destruct (find_sv (n_surveys st) id0) as [s0|] eqn:Ef; [|discriminate].
    destruct (s_phase s0) eqn:Ep; try discriminate. injection H as <-.
    destruct (Nat.eq_dec id0 id) as [->|Hne]; [|eapply Hother; eauto].
    rewrite Ef in Hf. injection Hf as <-. eexists. rewrite find_set, Nat.eqb_refl. split; [reflexivity|].
    split; [split; auto|reflexivity].
Qed.

Lemma stuck_forever sched : forall st st' id s, NInv st -> find_sv (n_surveys st) id = Some s -> stuck s ->
  srun st sched = Some st' -> sstep st' (LLocal id) = None.
Proof.
  induction sched as [|l sched IH]; intros st st' id s HN Hf Hs; cbn [srun].
  - intros [= <-]. cbn [sstep]. rewrite Hf. destruct (s_local s); auto. destruct Hs as (_ & Hl).
    replace (length (s_buf s) <? s_num s) with false by (symmetry; apply Nat.ltb_ge; lia). reflexivity.
  - destruct (sstep st l) as [st1|] eqn:E; [|discriminate]. intros H.
    destruct (stuck_step st l st1 id s E Hf Hs HN) as (s1 & Hf1 & Hs1 & _).
    apply (IH st1 st' id s1); auto. eapply sstep_inv; eauto.
Qed.
