(* C29 proofs, part C: the relaxed reference decoder (go_policy) against the strict one;
   conformance / rejection / limits for the model as corollaries; totality of the model. *)
From Coq Require Import String List NArith Bool Arith Lia ZifyN ZifyNat.
From Cfg Require Import Gen.WsConst Model.WsUtf8 Model.WsClose Model.WsCloseSpec Model.WsFrame Model.WsRead Model.WsReadSpec
     Proofs.WsLib Proofs.WsClose Proofs.WsReadHdr Proofs.WsReadA Proofs.WsReadB.
Import ListNotations.
Open Scope N_scope.

Section Policies.
  Variable close1 : bool.
  Variable ok : N -> bool.
  Let G := go_policy close1 ok.
  Let S := strict ok.

  (* the relaxed result x against the strict result y: equal, or the strict decoder stopped on a relaxed rule *)
  Definition prel (x y : fres) : Prop :=
    x = y \/ exists k, y = FEnd [SEnd (OViol k)] /\ go_lax close1 k = true.

  Lemma prel_refl : forall x, prel x x.
  Proof. intro x. left. reflexivity. Qed.

  Lemma enforced_strict : forall vs, enforced S vs = vs.
  Proof. induction vs as [|v vs IH]; [reflexivity|]. change (enforced S (v :: vs)) with (v :: enforced S vs). rewrite IH. reflexivity. Qed.

  Lemma check_prel : forall vs kG kS, prel kG kS -> prel (check G vs kG) (check S vs kS).
  Proof.
    intros vs kG kS H. unfold check. rewrite enforced_strict.
    destruct vs as [|v vs]; [exact H|].
    unfold enforced. simpl filter. change (lax G v) with (go_lax close1 v).
    destruct (go_lax close1 v) eqn:L; simpl negb; cbv iota.
    - right. exists v. split; [reflexivity|exact L].
    - left. reflexivity.
  Qed.

  Lemma need_prel : forall n bs kG kS,
      (forall p rest, prel (kG p rest) (kS p rest)) -> prel (need n bs kG) (need n bs kS).
  Proof.
    intros n bs kG kS H. unfold need. destruct (take_n n bs) as [[p rest]|]; [apply H|apply prel_refl].
  Qed.

  Lemma close_prel : forall payload, prel (close_frame G payload) (close_frame S payload).
  Proof.
    intros [|a [|b text]]; unfold close_frame.
    - apply prel_refl.
    - apply check_prel. apply prel_refl.
    - change (close_ok G) with ok. change (close_ok S) with ok.
      apply check_prel. apply check_prel. apply prel_refl.
  Qed.

  Lemma complete_prel : forall c infl typ comp data rest,
      prel (complete G c infl typ comp data rest) (complete S c infl typ comp data rest).
  Proof.
    intros c infl typ comp data rest. unfold complete.
    destruct (dtrip c comp data); [apply prel_refl|].
    destruct comp.
    - destruct (infl data) as [out|]; [|apply prel_refl].
      destruct ((0 <? s_dlimit c) && (s_dlimit c <? N.of_nat (length out))); [apply prel_refl|].
      apply check_prel. apply prel_refl.
    - apply check_prel. apply prel_refl.
  Qed.

  Lemma len_prel : forall len7 bs1 kG kS,
      (forall len bs2, prel (kG len bs2) (kS len bs2)) -> prel (spec_len G len7 bs1 kG) (spec_len S len7 bs1 kS).
  Proof.
    intros len7 bs1 kG kS H. unfold spec_len.
    destruct (len7 =? 126).
    - apply need_prel. intros q bs2. apply check_prel. apply H.
    - destruct (len7 =? 127); [|apply H].
      apply need_prel. intros q bs2.
      destruct (two63 <=? be q).
      + change (lax G VLenMsb) with true. change (lax S VLenMsb) with false. cbv iota.
        right. exists VLenMsb. split; reflexivity.
      + apply check_prel. apply H.
  Qed.

  Lemma key_prel : forall masked bs2 kG kS,
      (forall key bs3, prel (kG key bs3) (kS key bs3)) -> prel (spec_key masked bs2 kG) (spec_key masked bs2 kS).
  Proof.
    intros masked bs2 kG kS H. unfold spec_key. destruct masked; [apply need_prel; exact H|apply H].
  Qed.

  Lemma control_prel : forall c frag op len key bs3,
      prel (spec_control G c frag op len key bs3) (spec_control S c frag op len key bs3).
  Proof.
    intros. unfold spec_control. apply need_prel. intros pl bs4.
    destruct (op =? 9); [apply prel_refl|]. destruct (op =? 10); [apply prel_refl|]. apply close_prel.
  Qed.

  Lemma data_prel : forall c infl frag fin rsv1 op len key bs3,
      prel (spec_data G c infl frag fin rsv1 op len key bs3) (spec_data S c infl frag fin rsv1 op len key bs3).
  Proof.
    intros. unfold spec_data.
    destruct (match frag with Some f => f | None => (op, rsv1 && s_compress c, [], 0) end) as [[[typ comp] acc] total0].
    destruct (two63 <=? total0 + len).
    - change (lax G VMsgLen63) with true. change (lax S VMsgLen63) with false. cbv iota.
      right. exists VMsgLen63. split; reflexivity.
    - destruct ((0 <? s_limit c) && (s_limit c <? total0 + len)); [apply prel_refl|].
      destruct (take_n len bs3) as [[pl bs4]|]; [|apply prel_refl].
      destruct fin; [apply complete_prel|apply prel_refl].
  Qed.

  Lemma frame_prel : forall c infl frag bs, prel (spec_frame G c infl frag bs) (spec_frame S c infl frag bs).
  Proof.
    intros. unfold spec_frame. apply need_prel. intros p bs1.
    destruct p as [|b0 [|b1 r]]; try apply prel_refl.
    apply check_prel. apply len_prel. intros len bs2. apply key_prel. intros key bs3.
    destruct (is_control (b_opcode b0)); [apply control_prel|apply data_prel].
  Qed.

  (* events of a continuing frame are never terminal *)
  Definition no_end (evs : list sevent) : Prop := forall o, ~ In (SEnd o) evs.

  Lemma end_of_app : forall a b, no_end a -> end_of (a ++ b) = end_of b.
  Proof.
    induction a as [|e a IH]; intros b H; [reflexivity|].
    simpl. destruct e as [t d|p|o].
    - apply IH. intros o Hi. apply (H o). right. exact Hi.
    - apply IH. intros o Hi. apply (H o). right. exact Hi.
    - exfalso. apply (H o). left. reflexivity.
  Qed.

  Lemma check_cont : forall P vs k evs frag rest,
      check P vs k = FCont evs frag rest -> k = FCont evs frag rest.
  Proof. intros P vs k evs frag rest H. unfold check in H. destruct (enforced P vs); [exact H|discriminate]. Qed.

  Lemma need_cont : forall n bs k evs frag rest,
      need n bs k = FCont evs frag rest -> exists p r, take_n n bs = Some (p, r) /\ k p r = FCont evs frag rest.
  Proof.
    intros n bs k evs frag rest H. unfold need in H. destruct (take_n n bs) as [[p r]|]; [|discriminate]. eauto.
  Qed.

  Lemma frame_cont_facts : forall P c infl frag bs evs frag' rest,
      spec_frame P c infl frag bs = FCont evs frag' rest ->
      no_end evs /\ (length rest < length bs)%nat.
  Proof.
    intros P c infl frag bs evs frag' rest H. unfold spec_frame in H.
    apply need_cont in H as [p [bs1 [T2 H]]].
    pose proof (take_n_rest_length _ _ _ _ T2) as L2. change (N.to_nat 2) with 2%nat in L2.
    destruct p as [|b0 [|b1 r]]; try discriminate.
    apply check_cont in H.
    assert (Hlen : forall k, spec_len P (b_len7 b1) bs1 k = FCont evs frag' rest ->
                             exists len bs2, (length bs2 <= length bs1)%nat /\ k len bs2 = FCont evs frag' rest).
    { intros k Hk. unfold spec_len in Hk.
      destruct (b_len7 b1 =? 126).
      - apply need_cont in Hk as [q [bs2 [T Hk]]]. apply check_cont in Hk.
        pose proof (take_n_rest_length _ _ _ _ T). exists (be q), bs2. split; [lia|exact Hk].
      - destruct (b_len7 b1 =? 127).
        + apply need_cont in Hk as [q [bs2 [T Hk]]].
          destruct (two63 <=? be q); [destruct (lax P VLenMsb); discriminate|].
          apply check_cont in Hk. pose proof (take_n_rest_length _ _ _ _ T). exists (be q), bs2. split; [lia|exact Hk].
        + exists (b_len7 b1), bs1. split; [lia|exact Hk]. }
    apply Hlen in H as [len [bs2 [L3 H]]].
    assert (Hkey : exists key bs3, (length bs3 <= length bs2)%nat /\
                     (if is_control (b_opcode b0) then spec_control P c frag (b_opcode b0) len key bs3
                      else spec_data P c infl frag (b_fin b0) (b_rsv1 b0) (b_opcode b0) len key bs3) = FCont evs frag' rest).
    { unfold spec_key in H. destruct (b_masked b1).
      - apply need_cont in H as [key [bs3 [T H]]]. pose proof (take_n_rest_length _ _ _ _ T).
        exists key, bs3. split; [lia|exact H].
      - exists [], bs2. split; [lia|exact H]. }
    destruct Hkey as [key [bs3 [L4 H']]]. clear H.
    assert (Hfinal : no_end evs /\ (length rest <= length bs3)%nat).
    { destruct (is_control (b_opcode b0)).
      - unfold spec_control in H'. apply need_cont in H' as [pl [bs4 [T H']]].
        pose proof (take_n_rest_length _ _ _ _ T).
        destruct (b_opcode b0 =? 9).
        + inversion H'; subst. split; [|lia]. intros o [Hi|[]]. discriminate.
        + destruct (b_opcode b0 =? 10).
          * inversion H'; subst. split; [|lia]. intros o [].
          * exfalso. destruct (unmask c key pl) as [|a [|b text]]; unfold close_frame in H'.
            -- discriminate.
            -- unfold check in H'. destruct (enforced P [VCloseLen1]); discriminate.
            -- unfold check in H'.
               destruct (enforced P (if close_ok P (a * 256 + b) then [] else [VCloseCode])); [|discriminate].
               destruct (enforced P (if utf8_valid text then [] else [VCloseUtf8])); discriminate.
      - unfold spec_data in H'.
        destruct (match frag with Some f => f | None => (b_opcode b0, b_rsv1 b0 && s_compress c, [], 0) end) as [[[typ comp] acc] total0].
        destruct (two63 <=? total0 + len); [destruct (lax P VMsgLen63); discriminate|].
        destruct ((0 <? s_limit c) && (s_limit c <? total0 + len)); [discriminate|].
        destruct (take_n len bs3) as [[pl bs4]|] eqn:T; [|destruct (dtrip c comp (at_eof (acc ++ unmask c key bs3))); discriminate].
        pose proof (take_n_rest_length _ _ _ _ T).
        destruct (b_fin b0).
        + unfold complete in H'. destruct (dtrip c comp (acc ++ unmask c key pl)); [discriminate|].
          assert (Hfin : forall out, check P (if (typ =? 1) && negb (utf8_valid out) then [VTextUtf8] else [])
                                           (FCont [SMsg typ out] None bs4) = FCont evs frag' rest ->
                                     no_end evs /\ (length rest <= length bs3)%nat).
          { intros out Hc. apply check_cont in Hc. inversion Hc; subst. split; [|lia]. intros o [Hi|[]]. discriminate. }
          destruct comp.
          * destruct (infl (acc ++ unmask c key pl)) as [out|]; [|discriminate].
            destruct ((0 <? s_dlimit c) && (s_dlimit c <? N.of_nat (length out))); [discriminate|].
            apply (Hfin out H').
          * apply (Hfin _ H').
        + destruct (dtrip c comp (acc ++ unmask c key pl)); [discriminate|].
          inversion H'; subst. split; [|lia]. intros o []. }
    destruct Hfinal as [F1 F2]. split; [exact F1|lia].
  Qed.

  (* the relaxed decoder coincides with the strict one on every stream on which the strict decoder
     does not stop at a relaxed rule *)
  Lemma loop_policy : forall fuel c infl frag bs,
      (forall k, end_of (spec_loop fuel S c infl frag bs) = Some (OViol k) -> go_lax close1 k = false) ->
      spec_loop fuel G c infl frag bs = spec_loop fuel S c infl frag bs.
  Proof.
    induction fuel as [|f IH]; intros c infl frag bs H; [reflexivity|].
    simpl in *. destruct (frame_prel c infl frag bs) as [E|[k [E L]]].
    - rewrite E. destruct (spec_frame S c infl frag bs) as [evs|evs frag' rest] eqn:ES; [reflexivity|].
      f_equal. apply IH. intros k Hk. apply H.
      destruct (frame_cont_facts _ _ _ _ _ _ _ _ ES) as [NE _]. rewrite end_of_app by exact NE. exact Hk.
    - rewrite E in H. specialize (H k eq_refl). congruence.
  Qed.

  Theorem policy_agree : forall c infl bs,
      (forall k, end_of (spec_read S c infl bs) = Some (OViol k) -> go_lax close1 k = false) ->
      spec_read G c infl bs = spec_read S c infl bs.
  Proof. intros c infl bs H. unfold spec_read in *. apply loop_policy. exact H. Qed.

  (* the reference decoder always terminates within its fuel *)
  Lemma loop_fuel : forall fuel P c infl frag bs, (length bs < fuel)%nat ->
      ~ In (SEnd OFuel) (spec_loop fuel P c infl frag bs).
  Proof.
    induction fuel as [|f IH]; intros P c infl frag bs Hl; [lia|].
    simpl. destruct (spec_frame P c infl frag bs) as [evs|evs frag' rest] eqn:ES.
    - (* a terminal frame never says OFuel *)
      clear IH. unfold spec_frame, need in ES. intro Hin.
      assert (Hno : forall (r : fres), r = FEnd evs -> In (SEnd OFuel) evs ->
                 (exists o, o <> OFuel /\ evs = [SEnd o]) -> False).
      { intros r _ Hi [o [Ho ->]]. destruct Hi as [Hi|[]]. inversion Hi. congruence. }
      (* every FEnd produced by spec_frame is a singleton with an outcome other than OFuel *)
      assert (Hsingle : exists o, o <> OFuel /\ evs = [SEnd o]).
      { destruct (take_n 2 bs) as [[p bs1]|]; [|inversion ES; eexists; split; [|reflexivity]; discriminate].
        destruct p as [|b0 [|b1 r]]; try (inversion ES; eexists; split; [|reflexivity]; discriminate).
        unfold check in ES. destruct (enforced P _) as [|v vs]; [|inversion ES; eexists; split; [|reflexivity]; discriminate].
        unfold spec_len, need in ES.
        assert (Hrest : forall len bs2,
                   spec_key (b_masked b1) bs2 (fun key bs3 =>
                      if is_control (b_opcode b0) then spec_control P c frag (b_opcode b0) len key bs3
                      else spec_data P c infl frag (b_fin b0) (b_rsv1 b0) (b_opcode b0) len key bs3) = FEnd evs ->
                   exists o, o <> OFuel /\ evs = [SEnd o]).
        { intros len bs2 Hk. unfold spec_key, need in Hk.
          assert (Hbody : forall key bs3,
                     (if is_control (b_opcode b0) then spec_control P c frag (b_opcode b0) len key bs3
                      else spec_data P c infl frag (b_fin b0) (b_rsv1 b0) (b_opcode b0) len key bs3) = FEnd evs ->
                     exists o, o <> OFuel /\ evs = [SEnd o]).
          { intros key bs3 Hb. destruct (is_control (b_opcode b0)).
            - unfold spec_control, need in Hb. destruct (take_n len bs3) as [[pl bs4]|]; [|inversion Hb; eexists; split; [|reflexivity]; discriminate].
              destruct (b_opcode b0 =? 9); [discriminate|]. destruct (b_opcode b0 =? 10); [discriminate|].
              unfold close_frame, check in Hb.
              destruct (unmask c key pl) as [|a [|b text]].
              + inversion Hb; eexists; split; [|reflexivity]; discriminate.
              + destruct (enforced P [VCloseLen1]); inversion Hb; eexists; (split; [|reflexivity]); discriminate.
              + destruct (enforced P (if close_ok P (a * 256 + b) then [] else [VCloseCode]));
                  [|inversion Hb; eexists; split; [|reflexivity]; discriminate].
                destruct (enforced P (if utf8_valid text then [] else [VCloseUtf8]));
                  inversion Hb; eexists; (split; [|reflexivity]); discriminate.
            - unfold spec_data, need in Hb.
              destruct (match frag with Some f => f | None => (b_opcode b0, b_rsv1 b0 && s_compress c, [], 0) end) as [[[typ comp] acc] total0].
              destruct (two63 <=? total0 + len); [destruct (lax P VMsgLen63); inversion Hb; eexists; (split; [|reflexivity]); discriminate|].
              destruct ((0 <? s_limit c) && (s_limit c <? total0 + len)); [inversion Hb; eexists; split; [|reflexivity]; discriminate|].
              destruct (take_n len bs3) as [[pl bs4]|];
                [|destruct (dtrip c comp (at_eof (acc ++ unmask c key bs3))); inversion Hb; eexists; (split; [|reflexivity]); discriminate].
              destruct (b_fin b0);
                [|destruct (dtrip c comp (acc ++ unmask c key pl)); [inversion Hb; eexists; split; [|reflexivity]; discriminate|discriminate]].
              unfold complete, check in Hb.
              destruct (dtrip c comp (acc ++ unmask c key pl)); [inversion Hb; eexists; split; [|reflexivity]; discriminate|].
              destruct comp.
              + destruct (infl (acc ++ unmask c key pl)) as [out|]; [|inversion Hb; eexists; split; [|reflexivity]; discriminate].
                destruct ((0 <? s_dlimit c) && (s_dlimit c <? N.of_nat (length out))); [inversion Hb; eexists; split; [|reflexivity]; discriminate|].
                destruct (enforced P _); [discriminate|inversion Hb; eexists; split; [|reflexivity]; discriminate].
              + destruct (enforced P _); [discriminate|inversion Hb; eexists; split; [|reflexivity]; discriminate]. }
          destruct (b_masked b1).
          - destruct (take_n 4 bs2) as [[key bs3]|]; [apply (Hbody _ _ Hk)|inversion Hk; eexists; split; [|reflexivity]; discriminate].
          - apply (Hbody _ _ Hk). }
        destruct (b_len7 b1 =? 126).
        - destruct (take_n 2 bs1) as [[q bs2]|]; [|inversion ES; eexists; split; [|reflexivity]; discriminate].
          unfold check in ES. destruct (enforced P _); [apply (Hrest _ _ ES)|inversion ES; eexists; split; [|reflexivity]; discriminate].
        - destruct (b_len7 b1 =? 127).
          + destruct (take_n 8 bs1) as [[q bs2]|]; [|inversion ES; eexists; split; [|reflexivity]; discriminate].
            destruct (two63 <=? be q); [destruct (lax P VLenMsb); inversion ES; eexists; (split; [|reflexivity]); discriminate|].
            unfold check in ES. destruct (enforced P _); [apply (Hrest _ _ ES)|inversion ES; eexists; split; [|reflexivity]; discriminate].
          + apply (Hrest _ _ ES). }
      exact (Hno _ eq_refl Hin Hsingle).
    - destruct (frame_cont_facts _ _ _ _ _ _ _ _ ES) as [NE L]. intro Hin.
      apply in_app_or in Hin as [Hi|Hi]; [exact (NE _ Hi)|].
      apply (IH P c infl frag' rest ltac:(lia) Hi).
  Qed.
End Policies.

(* ---------------------------------------------------------------- the source's table is the oracle's table *)

Lemma spec_close_ok_eq : forall c,
    (if rfc_close_defined c then true else if rfc_close_forbidden c then false else is_valid_received_close_code c)
    = is_valid_received_close_code c.
Proof.
  intro c. destruct (N.ltb_spec c 65536) as [H|H].
  - destruct (rfc_close_defined c) eqn:D; [symmetry; apply close_code_defined_accepted; assumption|].
    destruct (rfc_close_forbidden c) eqn:F; [symmetry; apply close_code_forbidden_rejected; assumption|reflexivity].
  - assert (D : rfc_close_defined c = false).
    { unfold rfc_close_defined. repeat (apply orb_false_iff; split); apply andb_false_iff; right; apply N.leb_gt; lia. }
    assert (F : rfc_close_forbidden c = true).
    { unfold rfc_close_forbidden, iana_close_registered. rewrite D. simpl.
      apply negb_true_iff. apply andb_false_iff. right. apply N.leb_gt. lia. }
    rewrite D, F. symmetry.
    unfold is_valid_received_close_code, close_code_range_lo, close_code_range_hi.
    apply orb_false_iff. split.
    + unfold valid_received_close_codes. cbn [table_lookup].
      repeat match goal with |- context [?k =? c] => replace (k =? c) with false by (symmetry; apply N.eqb_neq; lia) end.
      reflexivity.
    + apply andb_false_iff. right. apply N.leb_gt. lia.
Qed.

(* ---------------------------------------------------------------- corollaries for the model *)

Definition strict_go : spolicy := strict is_valid_received_close_code.

(* Main corollary: whenever the strict reference decoder does not stop at a relaxed rule, the model
   shows exactly what the strict decoder dictates. *)
Theorem model_meets_strict : forall cfg infl bs,
    125 <= rc_rbuf cfg ->
    (forall k, end_of (spec_read strict_go (c_of cfg) (infl_of infl) bs) = Some (OViol k) ->
               go_lax (rc_close1_strict cfg) k = false) ->
    map norm_event (read_all cfg infl bs) = expected (spec_read strict_go (c_of cfg) (infl_of infl) bs).
Proof.
  intros cfg infl bs Hb H. rewrite read_all_eq_ref by exact Hb. f_equal.
  apply policy_agree. exact H.
Qed.

(* ---------------------------------------------------------------- totality of the model *)

Definition bad_event (e : event) : bool :=
  match e with Err EPanic | Err EFuel | Err EUnreachable => true | _ => false end.

Definition cur_inv (st : gst) (cur : option (N * bool * bytes)) : Prop :=
  match cur with None => g_final st = true | Some _ => g_final st = false end.

Lemma existsb_app_false : forall (f : event -> bool) a b,
    existsb f a = false -> existsb f b = false -> existsb f (a ++ b) = false.
Proof. intros. rewrite existsb_app, H, H0. reflexivity. Qed.

Lemma rd_err_clean : forall r, existsb bad_event (rd_err r) = false.
Proof. intros [| |]; reflexivity. Qed.

Lemma proto_clean : forall m, existsb bad_event (proto_error m) = false.
Proof. reflexivity. Qed.

Lemma handle_close_clean : forall cfg p, existsb bad_event (handle_close cfg p) = false.
Proof.
  intros cfg [|a [|b t]]; unfold handle_close.
  - reflexivity.
  - destruct (rc_close1_strict cfg); reflexivity.
  - destruct (negb (is_valid_received_close_code (be16 a b))); [reflexivity|].
    destruct (negb (utf8_valid t)); reflexivity.
Qed.

Lemma conn_read_ok : forall cfg n bs p rest, conn_read cfg n bs = RdOk p rest ->
    take_n n bs = Some (p, rest).
Proof.
  intros cfg n bs p rest H. unfold conn_read in H. destruct (rc_rbuf cfg <? n); [discriminate|].
  destruct (take_n n bs) as [[p' r']|]; [inversion H; reflexivity|discriminate].
Qed.

Lemma read_len_safe : forall cfg len7 bs1,
    match read_len cfg len7 bs1 with
    | inl evs => existsb bad_event evs = false
    | inr (_, bs2) => (length bs2 <= length bs1)%nat
    end.
Proof.
  intros cfg len7 bs1. unfold read_len.
  destruct (len7 =? 126).
  - destruct (conn_read cfg 2 bs1) as [q bs2| |] eqn:E; try reflexivity.
    apply conn_read_ok in E. destruct (take2 _ _ _ E) as [a [b ->]].
    pose proof (take_n_rest_length _ _ _ _ E). simpl. lia.
  - destruct (len7 =? 127); [|simpl; lia].
    destruct (conn_read cfg 8 bs1) as [q bs2| |] eqn:E; try reflexivity.
    apply conn_read_ok in E. destruct (take8 _ _ _ E) as [a [b [c [d [e [f [g [h ->]]]]]]]].
    pose proof (take_n_rest_length _ _ _ _ E).
    destruct (int63 <=? be [a; b; c; d; e; f; g; h]); [reflexivity|simpl; lia].
Qed.

Lemma read_key_safe : forall cfg mask bs2,
    match read_key cfg mask bs2 with
    | inl evs => existsb bad_event evs = false
    | inr (_, bs3) => (length bs3 <= length bs2)%nat
    end.
Proof.
  intros cfg mask bs2. unfold read_key. destruct mask; [|simpl; lia].
  destruct (conn_read cfg 4 bs2) as [q bs3| |] eqn:E; try reflexivity.
  apply conn_read_ok in E. pose proof (take_n_rest_length _ _ _ _ E). simpl. lia.
Qed.

Lemma deliver_clean : forall cfg infl typ dc data, existsb bad_event (fst (deliver cfg infl typ dc data)) = false.
Proof.
  intros. unfold deliver. destruct (gtrip cfg dc data); [reflexivity|]. destruct dc; [|reflexivity].
  destruct (infl (data ++ flate_tail)) as [out|]; [|reflexivity].
  destruct ((0 <? rc_dlimit cfg) && (rc_dlimit cfg <? N.of_nat (length out))); reflexivity.
Qed.

Lemma go_step_safe : forall cfg infl st cur bs,
    cur_inv st cur ->
    match go_step cfg infl st cur bs with
    | GEnd evs => existsb bad_event evs = false
    | GCont evs st' cur' rest =>
        existsb bad_event evs = false /\ cur_inv st' cur' /\ (length rest < length bs)%nat
    end.
Proof.
  intros cfg infl st cur bs Hinv. unfold go_step, advance_frame.
  destruct (conn_read cfg 2 bs) as [p bs1| |] eqn:E2; try reflexivity.
  apply conn_read_ok in E2. destruct (take2 _ _ _ E2) as [b0 [b1 ->]].
  pose proof (take_n_rest_length _ _ _ _ E2) as L2. change (N.to_nat 2) with 2%nat in L2.
  pose proof (hdr_check_ok false (rc_compress cfg) (rc_server cfg) (g_final st)
                           (b_fin b0) (b_rsv1 b0) (b_rsv2 b0) (b_rsv3 b0) (b_masked b1) (b_opcode b0) (b_len7 b1)
                           (opcode_lt b0) (len7_lt b1)) as HC.
  unfold hdr_check in HC. unfold header_errs.
  destruct (header_errs_f (rc_compress cfg) (rc_server cfg) (g_final st) (b_fin b0) (b_rsv1 b0) (b_rsv2 b0) (b_rsv3 b0)
                          (b_masked b1) (b_opcode b0) (b_len7 b1)) as [errs fin'].
  destruct errs as [|e es]; [|reflexivity].
  destruct (filter _ _) as [|v vs]; [|discriminate].
  apply andb_true_iff in HC as [_ HC].
  pose proof (read_len_safe cfg (b_len7 b1) bs1) as SL.
  destruct (read_len cfg (b_len7 b1) bs1) as [evs|[len bs2]]; [exact SL|].
  pose proof (read_key_safe cfg (b_masked b1) bs2) as SK.
  destruct (read_key cfg (b_masked b1) bs2) as [evs|[key bs3]]; [exact SK|].
  unfold c_continuationFrame, c_TextMessage, c_BinaryMessage.
  destruct (is_control (b_opcode b0)).
  - repeat (apply andb_true_iff in HC as [HC ?Hf]).
    unfold is_data_op in Hf2. apply negb_true_iff in Hf2. rewrite Hf2.
    apply eqb_prop in Hf. subst fin'.
    unfold control_frame.
    assert (Hpay : match (if 0 <? len
                          then match conn_read cfg len bs3 with
                               | RdOk pl bs4 => inr ((if rc_server cfg then xor_mask key 0 pl else pl), bs4)
                               | r => inl (rd_err r)
                               end
                          else inr ([], bs3)) with
                   | inl evs => existsb bad_event evs = false
                   | inr (_, bs4) => (length bs4 <= length bs3)%nat
                   end).
    { destruct (0 <? len); [|simpl; lia].
      destruct (conn_read cfg len bs3) as [pl bs4| |] eqn:E; try reflexivity.
      apply conn_read_ok in E. pose proof (take_n_rest_length _ _ _ _ E). simpl. lia. }
    destruct (if 0 <? len then _ else _) as [evs|[payload bs4]]; [exact Hpay|].
    destruct (b_opcode b0 =? c_PongMessage).
    + simpl. split; [reflexivity|]. split; [|lia]. unfold cur_inv in *. destruct cur; exact Hinv.
    + destruct (b_opcode b0 =? c_PingMessage).
      * simpl. split; [reflexivity|]. split; [|lia]. unfold cur_inv in *. destruct cur; exact Hinv.
      * apply handle_close_clean.
  - repeat (apply andb_true_iff in HC as [HC ?Hf]).
    pose proof HC as Hdata. unfold is_data_op in HC. rewrite HC.
    apply eqb_prop in Hf0. subst fin'.
    unfold data_frame.
    destruct (int63 <=? g_len st + len); [reflexivity|].
    destruct ((0 <? rc_limit cfg) && (rc_limit cfg <? g_len st + len)); [reflexivity|].
    unfold data_step. unfold c_TextMessage, c_BinaryMessage, c_continuationFrame.
    assert (Hstart : exists typ dc acc,
               (match cur with
                | None => if (b_opcode b0 =? 1) || (b_opcode b0 =? 2) then inr (b_opcode b0, b_rsv1 b0 && rc_compress cfg, [])
                          else inl [Err EUnreachable]
                | Some (typ, dc, acc) => if b_opcode b0 =? 0 then inr (typ, dc, acc) else inl [Err EUnreachable]
                end) = inr (typ, dc, acc)).
    { unfold cur_inv in Hinv. unfold is_data_op in Hdata.
      destruct cur as [[[t dc] acc]|].
      - rewrite Hinv in Hf. destruct (b_opcode b0 =? 0); [eauto|discriminate].
      - rewrite Hinv in Hf. destruct (b_opcode b0 =? 0); [discriminate|]. simpl in Hdata. rewrite Hdata. eauto. }
    destruct Hstart as [typ [dc [acc ->]]].
    destruct (take_n len bs3) as [[pl bs4]|] eqn:TP;
      [|destruct (gtrip cfg dc (at_eof (acc ++ (if rc_server cfg then xor_mask key 0 bs3 else bs3)))); reflexivity].
    pose proof (take_n_rest_length _ _ _ _ TP).
    simpl g_final. destruct (b_fin b0).
    + pose proof (deliver_clean cfg infl typ dc (acc ++ (if rc_server cfg then xor_mask key 0 pl else pl))) as DC.
      destruct (deliver cfg infl typ dc _) as [evs [|]]; simpl in DC; [|exact DC].
      split; [exact DC|]. split; [reflexivity|lia].
    + destruct (gtrip cfg dc (acc ++ (if rc_server cfg then xor_mask key 0 pl else pl))); [reflexivity|].
      split; [reflexivity|]. split; [reflexivity|lia].
Qed.

Lemma read_loop_safe : forall fuel cfg infl st cur bs,
    (length bs < fuel)%nat -> cur_inv st cur ->
    existsb bad_event (read_loop fuel cfg infl st cur bs) = false.
Proof.
  induction fuel as [|f IH]; intros cfg infl st cur bs Hl Hinv; [lia|].
  simpl. pose proof (go_step_safe cfg infl st cur bs Hinv) as HS.
  destruct (go_step cfg infl st cur bs) as [evs|evs st' cur' rest]; [exact HS|].
  destruct HS as [H1 [H2 H3]]. apply existsb_app_false; [exact H1|]. apply IH; [lia|exact H2].
Qed.

(* The model never reaches a Go index/slice panic, an unmodelled code path or the end of its fuel:
   for every configuration (any buffer size) and every byte stream. *)
Theorem read_all_total : forall cfg infl bs, existsb bad_event (read_all cfg infl bs) = false.
Proof. intros. unfold read_all. apply read_loop_safe; [lia|reflexivity]. Qed.
