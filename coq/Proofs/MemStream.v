(* Refinement of the bounded-stream specification (Model/StreamSpec.v) by the
   model of the memory stream broker (Model/MemStream.v), for ALL operation
   sequences, by a simulation relation. *)
From Coq Require Import List NArith ZArith Bool Lia ZifyN ZifyNat ZifyBool.
From Cfg Require Import Model.MemStream Model.StreamSpec Proofs.MemStreamLib.
Import ListNotations.
Open Scope N_scope.

(* ------------------------------------------------------------ one stream *)

Definition srel (s : stream) (c : achan) : Prop :=
  s_top s = a_top c /\ s_epoch s = a_epoch c /\ s_ver s = a_ver c /\ s_vep s = a_vep c /\
  N.of_nat (length (a_ret c)) <= a_top c /\ s_items s = aitems c.

Lemma srel_new : forall e x m, srel (s_new e) (mkAchan e 0 [] x m 0 0).
Proof. intros. unfold srel, s_new, aitems, a_lo. cbn. repeat split; auto. lia. Qed.

Lemma srel_clear : forall s c, srel s c -> srel (s_clear s) (with_ret c []).
Proof.
  intros s c (H1 & H2 & H3 & H4 & H5 & H6).
  unfold srel, s_clear, with_ret, aitems, a_lo. cbn. repeat split; auto. lia.
Qed.

Lemma srel_meta : forall s c m, srel s c -> srel s (with_meta c m).
Proof. intros s c m H. exact H. Qed.

Lemma srel_add : forall s c id size ver vep e m,
  srel s c ->
  srel (s_add s id size ver vep)
       (mkAchan (a_epoch c) (a_top c + 1) (lastn size (a_ret c ++ [id])) e m
                (if 0 <? ver then ver else a_ver c) (if 0 <? ver then vep else a_vep c)).
Proof.
  intros s c id size ver vep e m (H1 & H2 & H3 & H4 & H5 & H6).
  unfold srel, s_add. cbn [s_top s_epoch s_ver s_vep s_items a_top a_epoch a_ver a_vep a_ret].
  rewrite H1, H2, H3, H4, H6.
  repeat split; auto.
  - pose proof (lastn_length_le (a_ret c ++ [id]) size) as L.
    rewrite app_length in L. cbn [length] in L. lia.
  - unfold aitems, a_lo. cbn [a_top a_ret].
    replace [mkItem (a_top c + 1) id]
      with (number (a_top c - N.of_nat (length (a_ret c)) + N.of_nat (length (a_ret c))) [id]).
    2:{ cbn [number]. f_equal. f_equal. lia. }
    rewrite <- number_app. rewrite trim_number. f_equal.
    pose proof (lastn_length_le (a_ret c ++ [id]) size) as L.
    rewrite app_length in *. cbn [length] in *. lia.
Qed.

Lemma take_nil : forall l, take l [] = [].
Proof. intros. unfold take. destruct (l <? 0)%Z; auto. cbn [length]. destruct (Z.of_nat 0 <=? l)%Z; auto. apply firstn_nil. Qed.

(* the items computed by getLocked/Get = the arithmetic filter of the spec *)
Definition get_items (s : stream) (f : hfilter) : list item :=
  match f_since f with
  | None => if (f_limit f =? 0)%Z then [] else sget s 0 false (f_limit f) (f_rev f)
  | Some (so, se) =>
      if negb (f_rev f) && (s_top s =? so) && (se =? s_epoch s) then []
      else sget s (if f_rev f then wsub1 so else wadd1 so) true (f_limit f) (f_rev f)
  end.

Lemma srel_get : forall s c f,
  srel s c -> filter_ok f = true -> get_items s f = spec_filter (a_top c) (aitems c) f.
Proof.
  intros s c f (H1 & H2 & H3 & H4 & H5 & H6) Hok.
  unfold get_items, spec_filter, filter_ok in *.
  destruct f as [since limit rv]. cbn [f_since f_limit f_rev] in *.
  destruct since as [[o e]|].
  2:{ destruct (limit =? 0)%Z eqn:EL; auto.
      unfold sget. cbn [andb]. rewrite EL, H6. reflexivity. }
  set (lo := a_lo c). assert (Htop : a_top c = lo + N.of_nat (length (a_ret c))) by (unfold lo, a_lo; lia).
  unfold aitems in *. fold lo in H6 |- *.
  destruct rv; cbn [negb andb].
  - (* reverse *)
    assert (Ho : 1 <= o) by lia.
    unfold wsub1. replace (o =? 0) with false by lia.
    unfold sget. cbn [andb]. rewrite H1, H6.
    destruct (limit =? 0)%Z eqn:EL.
    { destruct (a_top c + 1 <=? o - 1); auto. }
    destruct (a_top c + 1 <=? o - 1) eqn:E1.
    { replace (a_top c + 1 <? o) with true by lia. reflexivity. }
    replace (a_top c + 1 <? o) with false by lia.
    rewrite find_prefix_rev_spec.
    destruct ((lo <? o - 1) && (o - 1 <=? lo + N.of_nat (length (a_ret c)))) eqn:E2.
    + rewrite app_nil_r. f_equal. f_equal. apply filter_ext_in_item. intros. lia.
    + rewrite filter_lt_none by lia. reflexivity.
  - (* forward *)
    assert (Ho : o < U64 - 1) by lia.
    unfold wadd1. replace (o =? U64 - 1) with false by lia.
    rewrite H1, H2.
    destruct ((a_top c =? o) && (e =? a_epoch c)) eqn:E0.
    { rewrite filter_gt_none by lia. rewrite take_nil. destruct (limit =? 0)%Z; auto. }
    unfold sget. cbn [andb]. rewrite H1, H6.
    destruct (a_top c + 1 <=? o + 1) eqn:E1.
    { rewrite filter_gt_none by lia. rewrite take_nil. destruct (limit =? 0)%Z; auto. }
    destruct (limit =? 0)%Z eqn:EL; auto.
    destruct (o <? lo) eqn:E2.
    + rewrite find_suffix_trimmed by lia. rewrite filter_gt_all by lia. reflexivity.
    + rewrite find_suffix_found by lia. reflexivity.
Qed.

(* ------------------------------------------------------------- whole hub *)

(* queued priority <= current deadline *)
Definition qle (e : option (N * N)) : Prop :=
  match e with Some (d, q) => q <= d | None => True end.

Definition crel (h : hub) (a : aspec) (ch : N) : Prop :=
  qle (h_exp h ch) /\ qle (h_rem h ch) /\
  match h_streams h ch, sp_chan a ch with
  | None, None => h_rem h ch = None
  | Some s, Some c =>
      srel s c /\ h_removes h ch = a_meta c /\
      (a_ret c <> [] -> h_expires h ch = Some (a_exp c))
  | _, _ => False
  end.

Definition cache_rel (h : hub) (a : aspec) : Prop :=
  forall ch k,
    h_cache h ch k = sp_cache a ch k \/
    (h_cache h ch k = None /\
     exists off ep exp, sp_cache a ch k = Some (off, ep, exp) /\ exp <= sp_now a).

Definition R (h : hub) (a : aspec) : Prop :=
  (forall ch, crel h a ch) /\ cache_rel h a /\
  h_now h = sp_now a /\ h_fresh h = sp_fresh a /\ h_meta h = sp_meta a.

Lemma R_init : forall now meta, R (hub_init now meta) (spec_init now meta).
Proof.
  intros. unfold R, hub_init, spec_init, crel, cache_rel. cbn. repeat split; auto.
Qed.

Lemma cache_get_rel : forall h a ch k,
  cache_rel h a -> h_now h = sp_now a -> cache_get h ch k = sp_cache_get a ch k.
Proof.
  intros h a ch k HC HN. unfold cache_get, sp_cache_get.
  destruct (HC ch k) as [E | (E & off & ep & ex & E2 & L)].
  - rewrite E, HN. reflexivity.
  - rewrite E, E2. replace (ex <=? sp_now a) with true by lia. reflexivity.
Qed.

Lemma set_deadline_at : forall m ch v,
  set_deadline m ch v ch = Some (v, match m ch with Some (_, q) => q | None => v end).
Proof. intros. unfold set_deadline, upd. rewrite N.eqb_refl. reflexivity. Qed.

Lemma set_deadline_other : forall m ch v x, x <> ch -> set_deadline m ch v x = m x.
Proof. intros. unfold set_deadline, upd. replace (x =? ch) with false by lia. reflexivity. Qed.

Lemma qle_set : forall m ch v,
  qle (m ch) -> dl_ok (option_map fst (m ch)) v = true -> qle (set_deadline m ch v ch).
Proof.
  intros m ch v Hq Hd. rewrite set_deadline_at. destruct (m ch) as [[d q]|]; cbn in *; lia.
Qed.

Lemma touch_meta_other : forall h ch m x, x <> ch -> touch_meta h ch m x = h_rem h x.
Proof.
  intros. unfold touch_meta. destruct (0 <? eff_meta h m); auto.
  apply set_deadline_other; auto.
Qed.

Lemma touch_meta_at : forall h a ch m c,
  h_now h = sp_now a -> h_meta h = sp_meta a -> h_removes h ch = a_meta c ->
  option_map fst (touch_meta h ch m ch) = sp_touch a c m.
Proof.
  intros h a ch m c HN HM HR. unfold touch_meta, sp_touch, eff_meta, now_s, sp_now_s, secs.
  rewrite HM, HN. destruct (0 <? (if m =? 0 then sp_meta a else m)).
  - rewrite set_deadline_at. reflexivity.
  - exact HR.
Qed.

Lemma touch_meta_qle : forall h ch m,
  qle (h_rem h ch) -> meta_ok h ch m = true -> qle (touch_meta h ch m ch).
Proof.
  intros h ch m Hq Hm. unfold touch_meta, meta_ok in *.
  destruct (0 <? eff_meta h m); auto.
  apply qle_set; auto.
Qed.

Lemma save_rel : forall h a ch o pos,
  R h a -> R (save_if_keyed h ch o pos) (sp_save a ch o pos).
Proof.
  intros h a ch o pos (HC & HK & HN & HF & HM).
  unfold save_if_keyed, sp_save. destruct (po_key o =? 0).
  - split; [exact HC|split; [exact HK|repeat split; auto]].
  - unfold R, cache_save. cbn [h_cache h_now h_fresh h_meta sp_cache sp_now sp_fresh sp_meta sp_chan].
    split; [|split; [|auto]].
    + intros x. exact (HC x).
    + intros c k. cbn [h_cache sp_cache]. destruct ((c =? ch) && (k =? po_key o)).
      * left. rewrite HN. reflexivity.
      * apply HK.
Qed.

Lemma sweep1_qle : forall now e, qle e -> qle (snd (sweep1 now e)).
Proof.
  intros now [[d q]|] H; cbn [sweep1]; auto.
  destruct (q <=? now); [destruct (d <=? now)|]; cbn [snd qle]; auto. lia.
Qed.

Lemma sweep1_fires : forall now e, qle e ->
  fst (sweep1 now e) = match e with Some (d, _) => d <=? now | None => false end.
Proof.
  intros now [[d q]|] H; cbn [sweep1 fst]; auto. cbn [qle] in H.
  destruct (q <=? now) eqn:E1; [destruct (d <=? now) eqn:E2|]; cbn [fst]; auto. lia.
Qed.

Lemma sweep1_keeps : forall now e,
  fst (sweep1 now e) = false -> option_map fst (snd (sweep1 now e)) = option_map fst e.
Proof.
  intros now [[d q]|]; cbn [sweep1]; auto.
  destruct (q <=? now); [destruct (d <=? now)|]; cbn [fst snd option_map]; auto. discriminate.
Qed.

Lemma sweep1_fired : forall now e, fst (sweep1 now e) = true -> snd (sweep1 now e) = None.
Proof.
  intros now [[d q]|]; cbn [sweep1]; auto.
  destruct (q <=? now); [destruct (d <=? now)|]; cbn [fst snd]; auto; discriminate.
Qed.

Lemma srel_clear_empty : forall s c, srel s c -> a_ret c = [] -> srel (s_clear s) c.
Proof.
  intros s c (Q1 & Q2 & Q3 & Q4 & Q5 & Q6) ER.
  unfold srel, s_clear, aitems, a_lo. cbn [s_top s_items s_epoch s_ver s_vep].
  rewrite ER. cbn [number]. repeat split; auto. rewrite ER in Q5. exact Q5.
Qed.

Lemma step_sim : forall h a o,
  R h a -> mono_ok h o = true ->
  R (fst (step h o)) (fst (sp_step a o)) /\
  (op_ok o = true -> snd (step h o) = snd (sp_step a o)).
Proof.
  intros h a o HR Hmono.
  destruct o as [ch id po | ch f meta | ch | d | | | ]; cbn [step step_with sp_step op_ok].
  - (* Publish *)
    unfold publish, publish_with, sp_publish.
    pose proof HR as (HC & HK & HN & HF & HM).
    rewrite (cache_get_rel h a ch (po_key po) HK HN).
    destruct (if po_key po =? 0 then None else sp_cache_get a ch (po_key po)) as [[off ep]|].
    { cbn [fst snd]. split; auto. }
    cbn [mono_ok] in Hmono.
    destruct (history_on po).
    2:{ cbn [fst snd]. split; auto. apply save_rel; auto. }
    cbn [negb orb] in Hmono. apply andb_true_iff in Hmono. destruct Hmono as [Hm1 Hm2].
    unfold hub_add. pose proof (HC ch) as Hch. unfold crel in Hch.
    destruct Hch as (Hq1 & Hq2 & Hch).
    assert (BOOK : forall s' c' fresh,
      srel s' c' -> a_meta c' = sp_touch a
         (match sp_chan a ch with Some c => c | None => mkAchan (sp_fresh a) 0 [] 0 None 0 0 end)
         (po_meta po) ->
      a_exp c' = sp_now_s a + po_ttl po / 1000 ->
      h_removes h ch = a_meta (match sp_chan a ch with Some c => c | None => mkAchan (sp_fresh a) 0 [] 0 None 0 0 end) ->
      R (book h ch po (upd (h_streams h) ch (Some s')) fresh)
        (sp_set a ch (Some c') fresh)).
    { intros s' c' fresh Hs' Hmeta Hexp Hrm0.
      unfold R, book, sp_set.
      cbn [h_streams h_exp h_rem h_cache h_now h_fresh h_meta sp_chan sp_cache sp_now sp_fresh sp_meta].
      split; [|split; [exact HK|repeat split; auto]].
      intros x. unfold crel, h_removes, h_expires.
      cbn [h_streams h_exp h_rem sp_chan]. unfold upd at 1.
      destruct (x =? ch) eqn:Ex.
      - assert (x = ch) by lia. subst x.
        split; [apply qle_set; auto|]. split; [apply touch_meta_qle; auto|].
        split; [exact Hs'|]. split.
        + rewrite Hmeta. apply touch_meta_at; auto.
        + intros _. rewrite set_deadline_at. cbn [option_map fst].
          rewrite Hexp. unfold now_s, sp_now_s, secs. rewrite HN. reflexivity.
      - assert (x <> ch) by lia.
        rewrite set_deadline_other, touch_meta_other by auto. apply (HC x). }
    destruct (h_streams h ch) as [s|] eqn:ES; destruct (sp_chan a ch) as [c|] eqn:EC; try tauto.
    + destruct Hch as (Hs & Hrm & Hex).
      assert (Hsk : ver_skip s po = holds_version c po).
      { unfold ver_skip, holds_version. destruct Hs as (_ & _ & -> & -> & _). reflexivity. }
      rewrite Hsk. destruct (holds_version c po).
      * cbn [fst snd]. destruct Hs as (-> & -> & _). split; auto.
      * cbn [fst snd].
        pose proof (srel_add s c id (Z.to_nat (po_size po)) (po_ver po) (po_vep po)
                     (sp_now_s a + po_ttl po / 1000) (sp_touch a c (po_meta po)) Hs) as Hadd.
        assert (T12 := Hadd). unfold srel in T12. destruct T12 as (T1 & T2 & _).
        cbn [a_top a_epoch] in T1, T2.
        split.
        2:{ intros _. rewrite T1, T2. reflexivity. }
        rewrite T1, T2, HF.
        apply save_rel. apply BOOK; auto.
    + cbn [fst snd].
      pose proof (srel_add (s_new (h_fresh h)) (mkAchan (sp_fresh a) 0 [] 0 None 0 0) id
                   (Z.to_nat (po_size po)) (po_ver po) (po_vep po)
                   (sp_now_s a + po_ttl po / 1000)
                   (sp_touch a (mkAchan (sp_fresh a) 0 [] 0 None 0 0) (po_meta po))) as Hadd.
      rewrite HF in Hadd. specialize (Hadd (srel_new _ _ _)).
      unfold holds_version. cbn [a_ver a_vep a_top a_epoch a_ret] in *.
      replace ((0 <? po_ver po) && ((po_vep po =? 0) || (po_vep po =? 0)) && (po_ver po <=? 0))
        with false by lia.
      cbn [fst snd]. rewrite HF.
      assert (T12 := Hadd). unfold srel in T12. destruct T12 as (T1 & T2 & _).
      cbn [a_top a_epoch] in T1, T2.
      split.
      2:{ intros _. rewrite T1, T2. reflexivity. }
      rewrite T1, T2.
      apply save_rel. apply BOOK; auto.
      cbn [a_meta]. unfold h_removes. rewrite Hch. reflexivity.
  - (* History *)
    unfold hub_get, sp_history.
    pose proof HR as (HC & HK & HN & HF & HM).
    cbn [mono_ok] in Hmono.
    pose proof (HC ch) as Hch. unfold crel in Hch. destruct Hch as (Hq1 & Hq2 & Hch).
    assert (GET : forall s' c' fresh,
      srel s' c' -> a_meta c' = sp_touch a
         (match sp_chan a ch with Some c => c | None => mkAchan (sp_fresh a) 0 [] 0 None 0 0 end) meta ->
      h_removes h ch = a_meta (match sp_chan a ch with Some c => c | None => mkAchan (sp_fresh a) 0 [] 0 None 0 0 end) ->
      (a_ret c' <> [] -> h_expires h ch = Some (a_exp c')) ->
      forall streams', streams' ch = Some s' -> (forall x, x <> ch -> streams' x = h_streams h x) ->
      R (mkHub streams' (h_exp h) (touch_meta h ch meta) (h_cache h) (h_now h) fresh (h_meta h))
        (sp_set a ch (Some c') fresh)).
    { intros s' c' fresh Hs' Hmeta Hrm0 Hex' streams' Hst1 Hst2.
      unfold R, sp_set.
      cbn [h_streams h_exp h_rem h_cache h_now h_fresh h_meta sp_chan sp_cache sp_now sp_fresh sp_meta].
      split; [|split; [exact HK|repeat split; auto]].
      intros x. unfold crel, h_removes, h_expires.
      cbn [h_streams h_exp h_rem sp_chan].
      destruct (x =? ch) eqn:Ex.
      - assert (x = ch) by lia. subst x. rewrite Hst1.
        split; [exact Hq1|]. split; [apply touch_meta_qle; auto|].
        split; [exact Hs'|]. split.
        + rewrite Hmeta. apply touch_meta_at; auto.
        + exact Hex'.
      - assert (x <> ch) by lia.
        rewrite touch_meta_other, Hst2 by auto. apply (HC x). }
    destruct (h_streams h ch) as [s|] eqn:ES; destruct (sp_chan a ch) as [c|] eqn:EC; try tauto.
    + destruct Hch as (Hs & Hrm & Hex). cbn [fst snd]. split.
      * rewrite HF. apply (GET s); auto.
      * intros Hok. pose proof (srel_get s c f Hs Hok) as G. unfold get_items in G.
        rewrite G. destruct Hs as (-> & -> & _). reflexivity.
    + cbn [fst snd]. rewrite HF. split; auto.
      apply (GET (s_new (sp_fresh a))); auto.
      * apply srel_new.
      * cbn [a_meta]. unfold h_removes. rewrite Hch. reflexivity.
      * cbn [with_meta a_ret]. tauto.
      * unfold upd. rewrite N.eqb_refl. reflexivity.
      * intros x Hx. unfold upd. replace (x =? ch) with false by lia. reflexivity.
  - (* Remove *)
    cbn [fst snd]. split; auto.
    unfold hub_remove.
    pose proof HR as (HC & HK & HN & HF & HM).
    pose proof (HC ch) as Hch. unfold crel in Hch. destruct Hch as (Hq1 & Hq2 & Hch).
    destruct (h_streams h ch) as [s|] eqn:ES; destruct (sp_chan a ch) as [c|] eqn:EC; try tauto.
    destruct Hch as (Hs & Hrm & Hex).
    unfold R, sp_set.
    cbn [h_streams h_exp h_rem h_cache h_now h_fresh h_meta sp_chan sp_cache sp_now sp_fresh sp_meta].
    split; [|split; [exact HK|repeat split; auto]].
    intros x. unfold crel, h_removes, h_expires. cbn [h_streams h_exp h_rem sp_chan]. unfold upd.
    destruct (x =? ch) eqn:Ex.
    + assert (x = ch) by lia. subst x.
      split; [exact Hq1|]. split; [exact Hq2|].
      split; [apply srel_clear; exact Hs|]. cbn [with_ret a_meta a_ret]. split; [exact Hrm|].
      intros X; congruence.
    + apply (HC x).
  - (* Advance *)
    cbn [fst snd]. split; auto.
    destruct HR as (HC & HK & HN & HF & HM).
    unfold R, advance. cbn [h_streams h_exp h_rem h_cache h_now h_fresh h_meta
                            sp_chan sp_cache sp_now sp_fresh sp_meta].
    split; [|split; [|repeat split; auto; lia]].
    + intros x. exact (HC x).
    + intros c k. cbn [h_cache sp_cache sp_now].
      destruct (HK c k) as [E | (E & off & ep & ex & E2 & L)]; [left; exact E|].
      right. split; auto. exists off, ep, ex. split; auto. lia.
  - (* SweepExpire *)
    cbn [fst snd]. split; auto.
    destruct HR as (HC & HK & HN & HF & HM).
    unfold R, sweep_expire. cbn [h_streams h_exp h_rem h_cache h_now h_fresh h_meta
                                 sp_chan sp_cache sp_now sp_fresh sp_meta].
    split; [|split; [exact HK|repeat split; auto]].
    intros x. pose proof (HC x) as Hx. unfold crel in *. destruct Hx as (Hq1 & Hq2 & Hx).
    unfold h_removes, h_expires in *. cbn [h_streams h_exp h_rem sp_chan].
    split; [apply sweep1_qle; auto|]. split; [exact Hq2|].
    rewrite (sweep1_fires _ _ Hq1).
    pose proof (sweep1_keeps (now_s h) (h_exp h x)) as KEEP.
    pose proof (sweep1_fired (now_s h) (h_exp h x)) as FIRED.
    rewrite (sweep1_fires _ _ Hq1) in KEEP, FIRED.
    destruct (h_streams h x) as [s|] eqn:ES; destruct (sp_chan a x) as [c|] eqn:EC; try tauto.
    + destruct Hx as (Hs & Hrm & Hex).
      destruct (a_ret c) as [|r0 rs] eqn:ER.
      * destruct (match h_exp h x with Some (d, _) => d <=? now_s h | None => false end).
        -- split; [apply srel_clear_empty; auto|]. split; [exact Hrm|]. intros X; congruence.
        -- split; [exact Hs|]. split; [exact Hrm|]. intros X; congruence.
      * assert (Hex' : option_map fst (h_exp h x) = Some (a_exp c)) by (apply Hex; congruence).
        destruct (h_exp h x) as [[d q]|]; cbn [option_map fst] in Hex'; [|discriminate].
        inversion Hex'; subst d. unfold sp_due, now_s, sp_now_s in *. rewrite HN in *.
        destruct (a_exp c <=? sp_now a / 1000).
        -- split; [apply srel_clear; exact Hs|]. cbn [with_ret a_meta a_ret]. split; [exact Hrm|].
           intros X; congruence.
        -- split; [exact Hs|]. split; [exact Hrm|]. intros _. rewrite KEEP by reflexivity. reflexivity.
    + destruct (match h_exp h x with Some (d, _) => d <=? now_s h | None => false end); exact Hx.
  - (* SweepRemove *)
    cbn [fst snd]. split; auto.
    destruct HR as (HC & HK & HN & HF & HM).
    unfold R, sweep_remove. cbn [h_streams h_exp h_rem h_cache h_now h_fresh h_meta
                                 sp_chan sp_cache sp_now sp_fresh sp_meta].
    split; [|split; [exact HK|repeat split; auto]].
    intros x. pose proof (HC x) as Hx. unfold crel in *. destruct Hx as (Hq1 & Hq2 & Hx).
    unfold h_removes, h_expires in *. cbn [h_streams h_exp h_rem sp_chan].
    split; [exact Hq1|]. split; [apply sweep1_qle; auto|].
    rewrite (sweep1_fires _ _ Hq2).
    pose proof (sweep1_keeps (now_s h) (h_rem h x)) as KEEP.
    pose proof (sweep1_fired (now_s h) (h_rem h x)) as FIRED.
    rewrite (sweep1_fires _ _ Hq2) in KEEP, FIRED.
    destruct (h_streams h x) as [s|] eqn:ES; destruct (sp_chan a x) as [c|] eqn:EC; try tauto.
    + destruct Hx as (Hs & Hrm & Hex).
      destruct (h_rem h x) as [[d q]|] eqn:ERM; cbn [option_map fst] in Hrm.
      * rewrite <- Hrm. unfold sp_due, now_s, sp_now_s in *. rewrite HN in *.
        destruct (d <=? sp_now a / 1000).
        -- apply FIRED. reflexivity.
        -- split; [exact Hs|]. split; [|exact Hex]. rewrite KEEP by reflexivity. exact Hrm.
      * rewrite <- Hrm. split; [exact Hs|]. split; [|exact Hex]. cbn. exact Hrm.
    + rewrite Hx. cbn [sweep1 snd]. reflexivity.
  - (* SweepCache *)
    cbn [fst snd]. split; auto.
    destruct HR as (HC & HK & HN & HF & HM).
    unfold R, sweep_cache. cbn [h_streams h_exp h_rem h_cache h_now h_fresh h_meta].
    split; [|split; [|repeat split; auto]].
    + intros x. exact (HC x).
    + intros c k. cbn [h_cache].
      destruct (HK c k) as [E | (E & off & ep & ex & E2 & L)].
      * rewrite E. destruct (sp_cache a c k) as [[[off ep] ex]|]; auto.
        destruct (ex <=? h_now h) eqn:EX; auto.
        right. split; auto. exists off, ep, ex. split; auto. lia.
      * rewrite E. right. split; auto. exists off, ep, ex. auto.
Qed.

Definition ops_ok (ops : list op) : bool := forallb op_ok ops.

Lemma run_sim : forall ops h a,
  R h a -> run_mono h ops = true -> ops_ok ops = true ->
  R (fst (run h ops)) (fst (sp_run a ops)) /\ snd (run h ops) = snd (sp_run a ops).
Proof.
  unfold run.
  induction ops as [|o r IH]; intros h a HR Hm Hok; cbn [run_with sp_run].
  - cbn [fst snd]. auto.
  - cbn [ops_ok forallb] in Hok. apply andb_true_iff in Hok. destruct Hok as [Ho Hr].
    cbn [run_mono] in Hm. apply andb_true_iff in Hm. destruct Hm as [Hm1 Hm2].
    pose proof (step_sim h a o HR Hm1) as (HR1 & Hout). specialize (Hout Ho).
    destruct (step h o) as [h1 x]. destruct (sp_step a o) as [a1 y]. cbn [fst snd] in *.
    specialize (IH h1 a1 HR1 Hm2 Hr).
    destruct (run_with step h1 r) as [h2 xs]. destruct (sp_run a1 r) as [a2 ys].
    cbn [fst snd] in *. destruct IH as (IH1 & IH2). split; auto. congruence.
Qed.

(* MAIN: for every operation sequence inside the stated domain the model of
   the memory broker produces exactly the outputs of the bounded-stream
   specification. *)
Theorem refines : forall now meta ops,
  run_mono (hub_init now meta) ops = true -> ops_ok ops = true ->
  snd (run (hub_init now meta) ops) = snd (sp_run (spec_init now meta) ops).
Proof.
  intros. apply run_sim; auto. apply R_init.
Qed.

(* ------------------------------------------------- named corollaries (C17) *)

Definition reachable (h : hub) : Prop :=
  exists now meta ops, h = fst (run (hub_init now meta) ops).

(* the retained items of every reachable stream are consecutively numbered
   and end at the top offset: a suffix of the append-only log *)
Definition wf_stream (s : stream) : Prop :=
  N.of_nat (length (s_items s)) <= s_top s /\
  s_items s = number (s_top s - N.of_nat (length (s_items s))) (map i_id (s_items s)).

Definition achan_of (s : stream) : achan :=
  mkAchan (s_epoch s) (s_top s) (map i_id (s_items s)) 0 None (s_ver s) (s_vep s).

Lemma srel_wf : forall s c, srel s c -> wf_stream s.
Proof.
  intros s c (H1 & _ & _ & _ & H5 & H6). unfold wf_stream.
  rewrite H6, H1. unfold aitems. rewrite number_length, number_ids.
  split; [exact H5|]. unfold a_lo. reflexivity.
Qed.

Lemma wf_srel : forall s, wf_stream s -> srel s (achan_of s).
Proof.
  intros s (H1 & H2). unfold srel, achan_of, aitems, a_lo.
  cbn [a_top a_epoch a_ver a_vep a_ret]. rewrite map_length. repeat split; auto.
Qed.

Definition wf_hub (h : hub) : Prop := forall ch s, h_streams h ch = Some s -> wf_stream s.

Lemma save_streams : forall h c po pos,
  h_streams (save_if_keyed h c po pos) = h_streams h /\
  h_fresh (save_if_keyed h c po pos) = h_fresh h.
Proof. intros. unfold save_if_keyed, cache_save. destruct (po_key po =? 0); split; reflexivity. Qed.

Lemma wf_new : forall e, wf_stream (s_new e).
Proof. intros. eapply srel_wf. apply (srel_new e 0 None). Qed.

Lemma wf_add : forall s id size ver vep, wf_stream s -> wf_stream (s_add s id size ver vep).
Proof.
  intros. eapply srel_wf. apply (srel_add s (achan_of s) id size ver vep 0 None). apply wf_srel; auto.
Qed.

Lemma wf_clear : forall s, wf_stream s -> wf_stream (s_clear s).
Proof. intros. eapply srel_wf. apply srel_clear. apply wf_srel; eauto. Qed.

Lemma wf_step : forall h o, wf_hub h -> wf_hub (fst (step h o)).
Proof.
  intros h o HB ch s.
  destruct o as [c id po | c f meta | c | d | | | ]; cbn [step step_with fst].
  - unfold publish, publish_with.
    destruct (if po_key po =? 0 then None else cache_get h c (po_key po)) as [[? ?]|].
    { cbn [fst]. apply HB. }
    destruct (history_on po).
    2:{ cbn [fst]. destruct (save_streams h c po (0, 0)) as (-> & _). apply HB. }
    unfold hub_add.
    destruct (h_streams h c) as [s0|] eqn:E0.
    + destruct (ver_skip s0 po); cbn [fst]; [apply HB|].
      match goal with |- context [save_if_keyed ?H c po ?P] => destruct (save_streams H c po P) as (-> & _) end.
      cbn [book h_streams]. unfold upd. destruct (ch =? c) eqn:E.
      * assert (ch = c) by lia. subst c. intros X; inversion X; subst s.
        apply wf_add. eapply HB; eauto.
      * apply HB.
    + cbn [fst].
      match goal with |- context [save_if_keyed ?H c po ?P] => destruct (save_streams H c po P) as (-> & _) end.
      cbn [book h_streams]. unfold upd. destruct (ch =? c) eqn:E.
      * intros X; inversion X; subst s. apply wf_add. apply wf_new.
      * apply HB.
  - unfold hub_get. destruct (h_streams h c) as [s0|] eqn:E0; cbn [fst h_streams].
    + apply HB.
    + unfold upd. destruct (ch =? c) eqn:E.
      * intros X; inversion X; subst s. apply wf_new.
      * apply HB.
  - unfold hub_remove. destruct (h_streams h c) as [s0|] eqn:E0; cbn [h_streams]; [|apply HB].
    unfold upd. destruct (ch =? c) eqn:E.
    + assert (ch = c) by lia. subst c. intros X; inversion X; subst s.
      apply wf_clear. eapply HB; eauto.
    + apply HB.
  - cbn [advance h_streams]. apply HB.
  - cbn [sweep_expire h_streams].
    destruct (fst (sweep1 (now_s h) (h_exp h ch))); [|apply HB].
    destruct (h_streams h ch) as [s0|] eqn:E0; [|discriminate].
    intros X; inversion X; subst s. apply wf_clear. eapply HB; eauto.
  - cbn [sweep_remove h_streams].
    destruct (fst (sweep1 (now_s h) (h_rem h ch))); [discriminate|apply HB].
  - cbn [sweep_cache h_streams]. apply HB.
Qed.

Lemma run_inv : forall (P : hub -> Prop),
  (forall h o, P h -> P (fst (step h o))) ->
  forall ops h, P h -> P (fst (run h ops)).
Proof.
  intros P HP. unfold run. induction ops as [|o r IH]; intros h H0; cbn [run_with].
  - exact H0.
  - pose proof (HP h o H0) as H1.
    destruct (step h o) as [h1 x]. cbn [fst] in H1. specialize (IH h1 H1).
    destruct (run_with step h1 r) as [h2 xs]. exact IH.
Qed.

Lemma reachable_wf : forall h, reachable h -> wf_hub h.
Proof.
  intros h (now & meta & ops & ->). apply (run_inv wf_hub wf_step).
  intros ch s X. cbn in X. discriminate.
Qed.

Definition top_of (h : hub) (ch : N) : N :=
  match h_streams h ch with Some s => s_top s | None => 0 end.
Definition epoch_of (h : hub) (ch : N) : option N :=
  match h_streams h ch with Some s => Some (s_epoch s) | None => None end.
Definition items_of (h : hub) (ch : N) : list item :=
  match h_streams h ch with Some s => s_items s | None => [] end.

(* offsets start at 1 and increase by one per stored publication *)
Theorem publish_offset : forall h ch id o h' off ep dl,
  publish h ch id o = (h', OPub off ep 0 dl) -> history_on o = true ->
  off = top_of h ch + 1 /\ top_of h' ch = off /\
  dl = [mkDeliv ch id off off ep] /\
  epoch_of h' ch = Some ep /\
  (forall e, epoch_of h ch = Some e -> ep = e) /\
  (epoch_of h ch = None -> ep = h_fresh h) /\
  exists rest, items_of h' ch = rest ++ [mkItem off id].
Proof.
  intros h ch id o h' off ep dl HP Hon.
  unfold publish, publish_with in HP. rewrite Hon in HP.
  destruct (if po_key o =? 0 then None else cache_get h ch (po_key o)) as [[? ?]|]; [discriminate|].
  unfold hub_add, top_of, epoch_of, items_of in *.
  assert (TRIM : forall l n it, (0 < n)%nat -> exists rest, trim n (l ++ [it]) = rest ++ [it]).
  { intros l n it Hn. unfold trim. rewrite skipn_app.
    match goal with |- context [skipn ?k [_]] => replace k with 0%nat by (rewrite app_length; cbn [length]; lia) end.
    cbn [skipn]. eexists; reflexivity. }
  assert (Hsz : (0 < Z.to_nat (po_size o))%nat) by (unfold history_on in Hon; lia).
  destruct (h_streams h ch) as [s|] eqn:ES.
  - destruct (ver_skip s o); [discriminate|].
    inversion HP; subst; clear HP.
    match goal with |- context [save_if_keyed ?H ch o ?P] => destruct (save_streams H ch o P) as (-> & _) end.
    cbn [book h_streams]. unfold upd. rewrite N.eqb_refl.
    cbn [s_add s_top s_epoch s_items].
    repeat split; auto; try (intros; discriminate);
      try (intros e He; inversion He; auto); try (apply TRIM; auto).
  - inversion HP; subst; clear HP.
    match goal with |- context [save_if_keyed ?H ch o ?P] => destruct (save_streams H ch o P) as (-> & _) end.
    cbn [book h_streams]. unfold upd. rewrite N.eqb_refl.
    cbn [s_add s_new s_top s_epoch s_items].
    repeat split; auto; try (intros; discriminate); try (apply (TRIM []); auto).
Qed.

(* history = the retained suffix filtered by since, limit and direction *)
Theorem history_exact : forall h ch s f m,
  reachable h -> h_streams h ch = Some s -> filter_ok f = true ->
  snd (hub_get h ch f m) = OHist (spec_filter (s_top s) (s_items s) f) (s_top s) (s_epoch s) /\
  wf_stream s.
Proof.
  intros h ch s f m Hr Hs Hok.
  pose proof (reachable_wf h Hr ch s Hs) as Hwf.
  split; [|exact Hwf].
  unfold hub_get. rewrite Hs. cbn [snd].
  pose proof (srel_get s (achan_of s) f (wf_srel s Hwf) Hok) as G. unfold get_items in G. rewrite G.
  destruct (wf_srel s Hwf) as (_ & _ & _ & _ & _ & E). rewrite <- E. reflexivity.
Qed.

(* a history read of an unknown channel creates its metadata: empty, top 0, fresh epoch *)
Theorem history_unknown : forall h ch f m,
  h_streams h ch = None ->
  snd (hub_get h ch f m) = OHist [] 0 (h_fresh h) /\
  h_streams (fst (hub_get h ch f m)) ch = Some (s_new (h_fresh h)).
Proof.
  intros h ch f m Hs. unfold hub_get. rewrite Hs. cbn [fst snd h_streams].
  split; auto. unfold upd. rewrite N.eqb_refl. reflexivity.
Qed.

Lemma sweep1_fires_due : forall now e,
  fst (sweep1 now e) = true -> exists d q, e = Some (d, q) /\ d <= now /\ q <= now.
Proof.
  intros now [[d q]|]; cbn [sweep1 fst]; [|discriminate].
  destruct (q <=? now) eqn:E1; [destruct (d <=? now) eqn:E2|]; cbn [fst]; try discriminate.
  intros _. exists d, q. repeat split; auto; lia.
Qed.

(* the epoch of a channel changes only when its metadata is discarded:
   no step changes the epoch of a stream that survives it, and the only step
   that drops a stream is SweepRemove of a channel whose metadata deadline
   (and queued sweep instant) has passed *)
Theorem epoch_stable : forall h o ch s,
  h_streams h ch = Some s ->
  match h_streams (fst (step h o)) ch with
  | Some s' => s_epoch s' = s_epoch s /\ s_top s <= s_top s'
  | None => o = SweepRemove /\
            exists d q, h_rem h ch = Some (d, q) /\ d <= now_s h /\ q <= now_s h
  end.
Proof.
  intros h o ch s Hs.
  destruct o as [c id po | c f meta | c | d | | | ]; cbn [step step_with fst].
  - unfold publish, publish_with.
    destruct (if po_key po =? 0 then None else cache_get h c (po_key po)) as [[? ?]|].
    { cbn [fst]. rewrite Hs. split; auto. lia. }
    destruct (history_on po).
    2:{ cbn [fst]. destruct (save_streams h c po (0, 0)) as (-> & _). rewrite Hs. split; auto. lia. }
    unfold hub_add.
    destruct (h_streams h c) as [s0|] eqn:E0.
    + destruct (ver_skip s0 po); cbn [fst].
      * rewrite Hs. split; auto. lia.
      * match goal with |- context [save_if_keyed ?H c po ?P] => destruct (save_streams H c po P) as (-> & _) end.
        cbn [book h_streams]. unfold upd. destruct (ch =? c) eqn:E.
        -- assert (ch = c) by lia. subst c. rewrite Hs in E0. inversion E0; subst s0.
           cbn [s_add s_epoch s_top]. split; auto. lia.
        -- rewrite Hs. split; auto. lia.
    + cbn [fst].
      match goal with |- context [save_if_keyed ?H c po ?P] => destruct (save_streams H c po P) as (-> & _) end.
      cbn [book h_streams]. unfold upd. destruct (ch =? c) eqn:E.
      * assert (ch = c) by lia. subst c. congruence.
      * rewrite Hs. split; auto. lia.
  - unfold hub_get. destruct (h_streams h c) as [s0|] eqn:E0; cbn [fst h_streams].
    + rewrite Hs. split; auto. lia.
    + unfold upd. destruct (ch =? c) eqn:E.
      * assert (ch = c) by lia. subst c. congruence.
      * rewrite Hs. split; auto. lia.
  - unfold hub_remove. destruct (h_streams h c) as [s0|] eqn:E0; cbn [h_streams].
    + unfold upd. destruct (ch =? c) eqn:E.
      * assert (ch = c) by lia. subst c. rewrite Hs in E0. inversion E0; subst s0.
        cbn [s_clear s_epoch s_top]. split; auto. lia.
      * rewrite Hs. split; auto. lia.
    + rewrite Hs. split; auto. lia.
  - cbn [advance h_streams]. rewrite Hs. split; auto. lia.
  - cbn [sweep_expire h_streams]. rewrite Hs.
    destruct (fst (sweep1 (now_s h) (h_exp h ch))); cbn [s_clear s_epoch s_top]; split; auto; lia.
  - cbn [sweep_remove h_streams]. rewrite Hs.
    destruct (fst (sweep1 (now_s h) (h_rem h ch))) eqn:E.
    + split; auto. apply sweep1_fires_due; auto.
    + split; auto. lia.
  - cbn [sweep_cache h_streams]. rewrite Hs. split; auto. lia.
Qed.

(* removing or expiring a stream keeps its top offset, its epoch and its
   held version; only the retained items go away *)
Theorem clear_keeps_position : forall h o ch s,
  (exists c, o = Remove c) \/ o = SweepExpire ->
  h_streams h ch = Some s ->
  exists s', h_streams (fst (step h o)) ch = Some s' /\
             s_top s' = s_top s /\ s_epoch s' = s_epoch s /\
             s_ver s' = s_ver s /\ s_vep s' = s_vep s /\
             (s_items s' = [] \/ s_items s' = s_items s).
Proof.
  intros h o ch s [[c ->] | ->] Hs; cbn [step step_with fst].
  - unfold hub_remove. destruct (h_streams h c) as [s0|] eqn:E0; cbn [h_streams].
    + unfold upd. destruct (ch =? c) eqn:E.
      * assert (ch = c) by lia. subst c. rewrite Hs in E0. inversion E0; subst s0.
        eexists; split; [reflexivity|]. cbn. repeat split; auto.
      * exists s. repeat split; auto.
    + exists s. repeat split; auto.
  - cbn [sweep_expire h_streams]. rewrite Hs.
    destruct (fst (sweep1 (now_s h) (h_exp h ch))).
    + eexists; split; [reflexivity|]. cbn. repeat split; auto.
    + exists s. repeat split; auto.
Qed.

(* stream epochs are never reused: every live epoch is below the fresh counter *)
Definition epochs_below (h : hub) : Prop :=
  forall ch s, h_streams h ch = Some s -> s_epoch s < h_fresh h.

Lemma epochs_below_step : forall h o, epochs_below h -> epochs_below (fst (step h o)).
Proof.
  intros h o HB ch s.
  destruct o as [c id po | c f meta | c | d | | | ]; cbn [step step_with fst].
  - unfold publish, publish_with.
    destruct (if po_key po =? 0 then None else cache_get h c (po_key po)) as [[? ?]|].
    { cbn [fst]. apply HB. }
    destruct (history_on po).
    2:{ cbn [fst]. destruct (save_streams h c po (0, 0)) as (-> & ->). apply HB. }
    unfold hub_add.
    destruct (h_streams h c) as [s0|] eqn:E0.
    + destruct (ver_skip s0 po); cbn [fst]; [apply HB|].
      match goal with |- context [save_if_keyed ?H c po ?P] => destruct (save_streams H c po P) as (-> & ->) end.
      cbn [book h_streams h_fresh]. unfold upd. destruct (ch =? c) eqn:E.
      * assert (ch = c) by lia. subst c. intros X; inversion X; subst s.
        cbn [s_add s_epoch]. eapply HB; eauto.
      * apply HB.
    + cbn [fst].
      match goal with |- context [save_if_keyed ?H c po ?P] => destruct (save_streams H c po P) as (-> & ->) end.
      cbn [book h_streams h_fresh]. unfold upd. destruct (ch =? c) eqn:E.
      * intros X; inversion X; subst s. cbn [s_add s_new s_epoch]. lia.
      * intros X. apply HB in X. lia.
  - unfold hub_get. destruct (h_streams h c) as [s0|] eqn:E0; cbn [fst h_streams h_fresh].
    + apply HB.
    + unfold upd. destruct (ch =? c) eqn:E.
      * intros X; inversion X; subst s. cbn [s_new s_epoch]. lia.
      * intros X. apply HB in X. lia.
  - unfold hub_remove. destruct (h_streams h c) as [s0|] eqn:E0; cbn [h_streams h_fresh]; [|apply HB].
    unfold upd. destruct (ch =? c) eqn:E.
    + assert (ch = c) by lia. subst c. intros X; inversion X; subst s.
      cbn [s_clear s_epoch]. eapply HB; eauto.
    + apply HB.
  - cbn [advance h_streams h_fresh]. apply HB.
  - cbn [sweep_expire h_streams h_fresh].
    destruct (fst (sweep1 (now_s h) (h_exp h ch))); [|apply HB].
    destruct (h_streams h ch) as [s0|] eqn:E0; [|discriminate].
    intros X; inversion X; subst s. cbn [s_clear s_epoch]. eapply HB; eauto.
  - cbn [sweep_remove h_streams h_fresh].
    destruct (fst (sweep1 (now_s h) (h_rem h ch))); [discriminate|apply HB].
  - cbn [sweep_cache h_streams h_fresh]. apply HB.
Qed.

Theorem reachable_epochs_below : forall h, reachable h -> epochs_below h.
Proof.
  intros h (now & meta & ops & ->). apply (run_inv epochs_below epochs_below_step).
  intros ch s X. cbn in X. discriminate.
Qed.

(* -------------------------------------- publishing after expiry / removal *)

Lemma publish_plain : forall h ch id o s,
  po_key o = 0 -> po_ver o = 0 -> history_on o = true -> h_streams h ch = Some s ->
  snd (publish h ch id o) =
  OPub (s_top s + 1) (s_epoch s) 0 [mkDeliv ch id (s_top s + 1) (s_top s + 1) (s_epoch s)].
Proof.
  intros h ch id o s Hk Hv Hon Hs.
  unfold publish, publish_with, hub_add. rewrite Hk, Hon, Hs. cbn [N.eqb].
  unfold ver_skip. rewrite Hv. cbn [N.ltb N.compare andb snd s_add s_top s_epoch]. reflexivity.
Qed.

Theorem publish_after_clear_continues : forall h o ch s id po,
  (exists c, o = Remove c) \/ o = SweepExpire ->
  h_streams h ch = Some s ->
  po_key po = 0 -> po_ver po = 0 -> history_on po = true ->
  snd (publish (fst (step h o)) ch id po) =
  OPub (s_top s + 1) (s_epoch s) 0 [mkDeliv ch id (s_top s + 1) (s_top s + 1) (s_epoch s)].
Proof.
  intros h o ch s id po Ho Hs Hk Hv Hon.
  destruct (clear_keeps_position h o ch s Ho Hs) as (s' & Hs' & T & E & _).
  rewrite (publish_plain _ ch id po s' Hk Hv Hon Hs'). rewrite T, E. reflexivity.
Qed.

(* after the metadata has been discarded the channel starts afresh:
   offset 1 in a new epoch *)
Theorem publish_after_discard_restarts : forall h ch id po,
  h_streams h ch = None -> po_key po = 0 -> history_on po = true ->
  snd (publish h ch id po) = OPub 1 (h_fresh h) 0 [mkDeliv ch id 1 1 (h_fresh h)].
Proof.
  intros h ch id po Hs Hk Hon.
  unfold publish, publish_with, hub_add. rewrite Hk, Hon, Hs. cbn [N.eqb]. reflexivity.
Qed.

(* ------------------------------------------- decidable equality of outputs *)

Lemma list_eqb_eq : forall {A} (e : A -> A -> bool),
  (forall x y, e x y = true <-> x = y) ->
  forall a b, list_eqb e a b = true <-> a = b.
Proof.
  intros A e He. induction a as [|x a IH]; destruct b as [|y b]; cbn [list_eqb];
    try (split; [discriminate|discriminate]); try tauto.
  rewrite andb_true_iff, He, IH. split.
  - intros [-> ->]. reflexivity.
  - intros X; inversion X; auto.
Qed.

Lemma item_eqb_eq : forall x y, item_eqb x y = true <-> x = y.
Proof.
  intros [a b] [c d]. unfold item_eqb. cbn [i_off i_id]. split.
  - intros H. f_equal; lia.
  - intros X; inversion X; subst. lia.
Qed.

Lemma deliv_eqb_eq : forall x y, deliv_eqb x y = true <-> x = y.
Proof.
  intros [a b c d e] [a' b' c' d' e']. unfold deliv_eqb. cbn [d_ch d_id d_poff d_off d_ep]. split.
  - intros H. f_equal; lia.
  - intros X; inversion X; subst. lia.
Qed.

Lemma out_eqb_eq : forall x y, out_eqb x y = true <-> x = y.
Proof.
  intros x y. destruct x, y; cbn [out_eqb]; try (split; [discriminate|discriminate]).
  - rewrite !andb_true_iff, (list_eqb_eq deliv_eqb deliv_eqb_eq). split.
    + intros [[[A B] C] ->]. f_equal; lia.
    + intros X; inversion X; subst. repeat split; lia.
  - rewrite !andb_true_iff, (list_eqb_eq item_eqb item_eqb_eq). split.
    + intros [[-> B] C]. f_equal; lia.
    + intros X; inversion X; subst. repeat split; lia.
  - tauto.
  - split.
    + intros H. f_equal. lia.
    + intros X; inversion X; subst. lia.
Qed.

Definition outs_eqb : list out -> list out -> bool := list_eqb out_eqb.

Lemma outs_eqb_eq : forall a b, outs_eqb a b = true <-> a = b.
Proof. apply list_eqb_eq. apply out_eqb_eq. Qed.
