(* C22: the knowledge invariant of the protocol client and convergence. *)
From Coq Require Import List Arith Bool NArith Lia.
From Cfg Require Import Model.Merge Model.MapSub Proofs.MapSubLib Proofs.MapSub Proofs.MapSubPages.
Import ListNotations.
Close Scope N_scope.
Open Scope nat_scope.

Section Inv.
  Variable K : nat.
  Variable vis : key -> bool.
  Variable tlimit : nat.

  Notation Pend := (Pend vis).
  Notation Sync := (Sync vis).
  Notation Invis := (Invis vis).
  Notation vis_entries := (vis_entries vis).
  Notation vis_pubs := (vis_pubs vis).

  (* ---------------------------------------------------------- apply_entries *)
  Lemma apply_entries_other : forall l m k,
    (forall e, In e l -> ekey e <> k) -> apply_entries m l k = m k.
  Proof.
    induction l as [|e t IH]; intros m k H; [reflexivity|].
    cbn [apply_entries fold_left]. change (apply_entries (cset m (fst (fst e)) (Some (snd e))) t k = m k).
    rewrite IH by (intros e' He'; apply H; right; auto).
    unfold cset. destruct (Nat.eqb k (fst (fst e))) eqn:E; auto.
    apply Nat.eqb_eq in E. exfalso. apply (H e (or_introl eq_refl)). unfold ekey. auto.
  Qed.

  Lemma apply_entries_some : forall l m k v,
    (forall e, In e l -> ekey e = k -> snd e = v) ->
    (exists e, In e l /\ ekey e = k) ->
    apply_entries m l k = Some v.
  Proof.
    induction l as [|e t IH]; intros m k v Hv [e0 [Hin Hk]]; [destruct Hin|].
    cbn [apply_entries fold_left]. change (apply_entries (cset m (fst (fst e)) (Some (snd e))) t k = Some v).
    destruct (existsb (fun e' => Nat.eqb (ekey e') k) t) eqn:Ex.
    - apply existsb_exists in Ex. destruct Ex as [e1 [H1 H2]]. apply Nat.eqb_eq in H2.
      apply IH; [intros e' He' Hk'; apply Hv; [right; auto|auto]|]. exists e1; auto.
    - rewrite apply_entries_other.
      + destruct Hin as [->|Hin].
        * unfold cset. unfold ekey in Hk. rewrite Hk, Nat.eqb_refl. f_equal. apply Hv; [left; auto|exact Hk].
        * exfalso. assert (existsb (fun e' => Nat.eqb (ekey e') k) t = true).
          { apply existsb_exists. exists e0. split; auto. apply Nat.eqb_eq; auto. }
          congruence.
      + intros e' He' Hk'. assert (existsb (fun e' => Nat.eqb (ekey e') k) t = true).
        { apply existsb_exists. exists e'. split; auto. apply Nat.eqb_eq; auto. }
        congruence.
  Qed.

  (* ---------------------------------------------------------- state pages *)
  (* keys below [cb] are covered by the pages read so far *)
  Definition PendUpTo (b : broker) (m : key -> option val) (F cb : nat) : Prop :=
    forall k, (vis k = false -> m k = None) /\
              (vis k = true -> (k < cb -> m k = vof (state_at b F) k \/ pending b F k) /\
                               (cb <= k -> m k = None)).

  Definition keys_lt (b : broker) : Prop := forall c, In c (b_log b) -> ck c < K.

  Lemma state_key_lt : forall b q k e, keys_lt b -> q <= top b -> state_at b q k = Some e -> k < K.
  Proof.
    intros b q k [o v] HK Hq H. destruct (state_at_entry b q k o v Hq H) as [Ho [Hn _]].
    apply nth_error_In in Hn. apply HK in Hn. exact Hn.
  Qed.

  Lemma page_step : forall b m F cb page next limit cursor,
    1 <= limit -> F <= top b -> keys_lt b ->
    cb = match cursor with Some c => S c | None => 0 end ->
    read_state K b cursor limit = (page, next) ->
    PendUpTo b m F cb ->
    let m' := apply_entries m (vis_entries (filter (fun e => Nat.leb (snd (fst e)) F) page)) in
    match next with
    | Some c => PendUpTo b m' F (S c)
    | None => Pend b m' F
    end.
  Proof.
    intros b m F cb page next limit cursor Hl HF HK Hcb Hr HP m'.
    pose proof (read_state_spec K b cursor limit page next Hl Hr) as S0. cbv zeta in S0.
    destruct S0 as [S1 [S2 S3]]. subst cb.
    set (cb := match cursor with Some c => S c | None => 0 end) in *.
    set (hi := match next with Some c => S c | None => K end) in *.
    (* pointwise description of m' *)
    assert (Hm' : forall k, vis k = true ->
                  (cb <= k < hi -> forall o v, state b k = Some (o, v) -> o <= F -> m' k = Some v) /\
                  (cb <= k < hi -> (state b k = None \/ exists o v, state b k = Some (o, v) /\ F < o) -> m' k = m k) /\
                  (~ (cb <= k < hi) -> m' k = m k)).
    { intros k Hv. split; [|split].
      - intros Hk o v Hs Ho. unfold m'. apply apply_entries_some.
        + intros e He Hke. unfold MapSub.vis_entries in He. apply filter_In in He. destruct He as [He _].
          apply filter_In in He. destruct He as [He _]. destruct e as [[k' o'] v']. unfold ekey in Hke; cbn in Hke. subst k'.
          destruct (S1 _ _ _ He) as [_ [_ Hs']]. rewrite Hs in Hs'. inversion Hs'; reflexivity.
        + exists (k, o, v). split; [|reflexivity]. unfold MapSub.vis_entries. apply filter_In. split; [|cbn; exact Hv].
          apply filter_In. split; [|cbn; apply Nat.leb_le; exact Ho].
          apply S2; auto. apply (state_key_lt b (top b) k (o, v) HK (le_n _)). exact Hs.
      - intros Hk Hs. unfold m'. apply apply_entries_other. intros e He Hke.
        unfold MapSub.vis_entries in He. apply filter_In in He. destruct He as [He _].
        apply filter_In in He. destruct He as [He Hle]. destruct e as [[k' o'] v']. unfold ekey in Hke; cbn in Hke, Hle. subst k'.
        apply Nat.leb_le in Hle. destruct (S1 _ _ _ He) as [_ [_ Hs']].
        destruct Hs as [Hs|[o [v [Hs Ho]]]]; rewrite Hs in Hs'; [discriminate|]. inversion Hs'; subst. lia.
      - intros Hk. unfold m'. apply apply_entries_other. intros e He Hke.
        unfold MapSub.vis_entries in He. apply filter_In in He. destruct He as [He _].
        apply filter_In in He. destruct He as [He _]. destruct e as [[k' o'] v']. unfold ekey in Hke; cbn in Hke. subst k'.
        destruct (S1 _ _ _ He) as [A _]. apply Hk. exact A. }
    (* invisible keys never enter the map *)
    assert (Hinv : forall k, vis k = false -> m' k = None).
    { intros k Hv. destruct (HP k) as [HI _]. unfold m'. rewrite apply_entries_other; [auto|].
      intros e He Hke. unfold MapSub.vis_entries in He. apply filter_In in He. destruct He as [_ He].
      unfold ekey in Hke. rewrite Hke in He. congruence. }
    (* a covered key of this page agrees with the state at F or has a pending change *)
    assert (Hcov : forall k, vis k = true -> cb <= k < hi -> m' k = vof (state_at b F) k \/ pending b F k).
    { intros k Hv Hk. destruct (Hm' k Hv) as [M1 [M2 _]]. destruct (HP k) as [_ HV].
      destruct (HV Hv) as [_ Hnone]. specialize (Hnone ltac:(lia)).
      destruct (state b k) as [[o v]|] eqn:Es.
      - destruct (le_lt_dec o F) as [Ho|Ho].
        + left. rewrite (M1 Hk o v eq_refl Ho).
          (* the entry is older than F: it is the state at F *)
          unfold state in Es. destruct (state_at_entry b (top b) k o v (le_n _) Es) as [Ho1 [Hn Hno]].
          destruct (smap_val_dec (state_at b F k) (state_at b (top b) k)) as [E|N].
          * unfold vof. rewrite E, Es. reflexivity.
          * exfalso. destruct (state_at_diff b (top b) F k HF (le_n _) N) as [o' [c [Ho' [Hn' Hk']]]].
            apply (Hno o' c); [lia|exact Hn'|exact Hk'].
        + right. exists o. unfold state in Es.
          destruct (state_at_entry b (top b) k o v (le_n _) Es) as [Ho1 [Hn _]].
          split; [lia|]. unfold chg. rewrite (nth_error_nth _ _ _ Hn). reflexivity.
      - rewrite (M2 Hk (or_introl eq_refl)), Hnone.
        destruct (state_at b F k) as [e|] eqn:EF; [|left; unfold vof; rewrite EF; reflexivity].
        right. assert (N : state_at b F k <> state_at b (top b) k) by (unfold state in Es; rewrite EF, Es; discriminate).
        destruct (state_at_diff b (top b) F k HF (le_n _) N) as [o' [c [Ho' [Hn' Hk']]]].
        exists o'. split; [lia|]. unfold chg. rewrite (nth_error_nth _ _ _ Hn'). exact Hk'. }
    destruct next as [c|].
    - intros k. split; [apply Hinv|]. intros Hv. destruct (HP k) as [_ HV]. destruct (HV Hv) as [Hlow Hhigh].
      destruct (Hm' k Hv) as [_ [_ M3]]. split.
      + intros Hk. destruct (le_lt_dec cb k) as [Hge|Hlt].
        * apply Hcov; auto; subst hi; lia.
        * rewrite M3 by lia. apply Hlow. exact Hlt.
      + intros Hk. rewrite M3 by (subst hi; lia). apply Hhigh. specialize (S3 c eq_refl). destruct S3 as [S3a S3b]. apply (Nat.le_trans _ c); [exact S3a|lia].
    - intros k. split; [apply Hinv|]. intros Hv. destruct (HP k) as [_ HV]. destruct (HV Hv) as [Hlow Hhigh].
      destruct (Hm' k Hv) as [_ [_ M3]].
      destruct (le_lt_dec cb k) as [Hge|Hlt].
      + destruct (le_lt_dec K k) as [HKk|HKk].
        * (* keys >= K never exist *)
          rewrite M3 by (subst hi; lia). rewrite (Hhigh Hge). left.
          destruct (state_at b F k) as [e|] eqn:EF; [|unfold vof; rewrite EF; reflexivity].
          exfalso. pose proof (state_key_lt b F k e HK HF EF). lia.
        * apply Hcov; auto; subst hi; lia.
      + rewrite M3 by lia. apply Hlow. exact Hlt.
  Qed.

  (* ---------------------------------------------------------- monotonicity *)
  Lemma pendupto_ext : forall b b' m F cb, same_epoch_ext b b' -> F <= top b ->
    PendUpTo b m F cb -> PendUpTo b' m F cb.
  Proof.
    intros b b' m F cb E HF HP k. destruct (HP k) as [HI HV]. split; [exact HI|].
    intros Hv. destruct (HV Hv) as [A B]. split; [|exact B].
    intros Hk. destruct (A Hk) as [A1|[o [Ho Hk']]].
    - left. rewrite A1. unfold vof. rewrite (ext_state_at _ _ _ E HF). reflexivity.
    - right. exists o. pose proof (ext_top _ _ E). split; [lia|]. rewrite (ext_chg _ _ _ E); [exact Hk'|lia].
  Qed.

  Definition wok (w : wop) : Prop :=
    match w with WPub k _ => k < K | WRem k => k < K | _ => True end.

  Lemma keys_lt_apply_w : forall b w, keys_lt b -> wok w -> keys_lt (apply_w b w).
  Proof.
    intros b w HK Hw c Hc. destruct w as [k v|k| |]; cbn in *.
    - apply in_app_or in Hc. destruct Hc as [Hc|[<-|[]]]; [apply HK; auto|exact Hw].
    - destruct (state b k); cbn in Hc; [|apply HK; auto].
      apply in_app_or in Hc. destruct Hc as [Hc|[<-|[]]]; [apply HK; auto|exact Hw].
    - apply HK; auto.
    - destruct Hc.
  Qed.

  Lemma keys_lt_apply_ws : forall ws b, keys_lt b -> Forall wok ws -> keys_lt (apply_ws b ws).
  Proof.
    induction ws as [|w t IH]; intros b HK HF; cbn; auto. inversion HF; subst.
    apply IH; auto. apply keys_lt_apply_w; auto.
  Qed.

  (* ---------------------------------------------------------- the invariant *)
  Definition Know (y : sys) : Prop :=
    let b := y_b y in let c := y_c y in let l := y_l y in let s := y_s y in
    WF b /\ keys_lt b /\ 1 <= c_limit c /\
    (forall x, c_ep c = Some x -> x <= b_epoch b) /\
    (forall k, vis k = false -> c_map c k = None) /\
    (l_sub l = true -> c_phase c = CLive) /\
    match c_phase c with
    | CLive =>
        l_sub l = true /\ c_ep c = Some (l_epoch l) /\
        (l_epoch l = b_epoch b ->
           c_off c <= l_pos l /\ l_pos l <= top b /\ Sync b (c_map c) (l_pos l) /\ Invis b (c_off c) (l_pos l))
    | CTold EInsufficient =>
        c_ep c <> None /\
        (c_ep c = Some (b_epoch b) -> c_off c <= top b /\ Pend b (c_map c) (c_off c))
    | CStreaming =>
        c_ep c <> None /\
        (c_ep c = Some (b_epoch b) -> c_off c <= top b /\ Pend b (c_map c) (c_off c))
    | CStatePages cur =>
        c_ep c <> None /\
        (s_has s = true -> s_cap s = true /\ s_off s = c_off c /\ s_epoch s = c_ep c /\
         (c_ep c = Some (b_epoch b) -> c_off c <= top b /\ PendUpTo b (c_map c) (c_off c) (S cur)))
    | _ => True
    end.

  Definition evok (ev : sev) : Prop :=
    match ev with
    | EvW w | EvLose w => wok w
    | EvReq g0 g1 g2 => Forall wok g0 /\ Forall wok g1 /\ Forall wok g2
    | _ => True
    end.

  Definition quiescent (y : sys) : Prop :=
    l_sub (y_l y) = true /\ check_position (y_b y) (y_l y) = true.

  (* convergence from the invariant *)
  Lemma know_converged : forall y, Know y -> quiescent y ->
    forall k, c_map (y_c y) k = if vis k then vof (state (y_b y)) k else None.
  Proof.
    intros y HK [Hl Hc] k. destruct HK as [_ [_ [_ [_ [_ [Hlive Hph]]]]]].
    rewrite (Hlive Hl) in Hph. destruct Hph as [_ [_ Hs]].
    unfold check_position in Hc. apply andb_prop in Hc. destruct Hc as [He Hp].
    apply Nat.eqb_eq in He, Hp. destruct (Hs He) as [_ [_ [HS _]]].
    rewrite (HS k). rewrite Hp. reflexivity.
  Qed.


  Notation step := (step true K vis tlimit).

  Lemma skipn_snoc : forall (A : Type) (l : list A) c, skipn (length l) (l ++ [c]) = [c].
  Proof. intros A l c. induction l; cbn; auto. Qed.

  (* what a writer op broadcasts *)
  Lemma pubs_between_apply_w : forall b w,
    pubs_between b (apply_w b w) = [] \/
    (b_epoch (apply_w b w) = b_epoch b /\ top (apply_w b w) = S (top b) /\
     pubs_between b (apply_w b w) = [(S (top b), chg (apply_w b w) (S (top b)))]).
  Proof.
    intros b w.
    assert (G : forall c, let b' := mkB (b_epoch b) (b_log b ++ [c]) (trim_lo b (length (b_log b ++ [c]))) (b_size b) in
                pubs_between b b' = [(S (top b), chg b' (S (top b)))]).
    { intros c b'. unfold pubs_between, b'. cbn [b_epoch b_log]. rewrite Nat.eqb_refl. unfold top. cbn [b_log].
      rewrite app_length. cbn [length]. replace (length (b_log b) + 1 - length (b_log b)) with 1 by lia.
      rewrite skipn_snoc. cbn [seq combine]. unfold chg. cbn [b_log].
      replace (S (length (b_log b)) - 1) with (length (b_log b)) by lia.
      rewrite app_nth2 by lia. rewrite Nat.sub_diag. reflexivity. }
    destruct w as [k v|k| |]; cbn [apply_w].
    - right. split; [reflexivity|]. split; [unfold top; cbn; rewrite app_length; cbn; lia|apply G].
    - destruct (state b k).
      + right. split; [reflexivity|]. split; [unfold top; cbn; rewrite app_length; cbn; lia|apply G].
      + left. unfold pubs_between. rewrite Nat.eqb_refl, Nat.sub_diag. reflexivity.
    - left. unfold pubs_between. cbn. rewrite Nat.eqb_refl. unfold top; cbn. rewrite Nat.sub_diag. reflexivity.
    - left. unfold pubs_between. cbn [b_epoch]. destruct (Nat.eqb (b_epoch b) (S (b_epoch b))) eqn:E; [|reflexivity].
      apply Nat.eqb_eq in E. lia.
  Qed.

  Lemma know_step_w : forall y w, Know y -> wok w -> Know (step y (EvW w)).
  Proof.
    intros y w HK Hw. destruct y as [b s l c].
    destruct HK as [HWF [HKL [Hlim [Hep [Hcm [Hlive Hph]]]]]]. cbn [y_b y_c y_l y_s] in *.
    set (b' := apply_w b w).
    assert (WF' : WF b') by (apply WF_apply_w; auto).
    assert (KL' : keys_lt b') by (apply keys_lt_apply_w; auto).
    assert (Emono : b_epoch b <= b_epoch b') by apply apply_w_epoch_mono.
    assert (Hep' : forall x, c_ep c = Some x -> x <= b_epoch b') by (intros x Hx; specialize (Hep x Hx); lia).
    assert (Hext : b_epoch b' = b_epoch b -> same_epoch_ext b b') by (apply apply_w_ext).
    (* the subscription-independent part when the client is untouched *)
    assert (Hstay : l_sub l = false -> Know (mkSys b' s l c)).
    { intros Hl. unfold Know; cbn [y_b y_c y_l y_s].
      split; [exact WF'|]. split; [exact KL'|]. split; [exact Hlim|]. split; [exact Hep'|]. split; [exact Hcm|].
      split; [intros A; congruence|].
      destruct (c_phase c) as [|cur| | |e] eqn:Eph.
      - exact I.
      - destruct Hph as [Hne Hph]. split; [exact Hne|].
        intros Hs. destruct (Hph Hs) as [A1 [A2 [A3 A4]]]. split; [exact A1|]. split; [exact A2|]. split; [exact A3|].
        intros Hce. assert (Ee : b_epoch b' = b_epoch b) by (specialize (Hep _ Hce); lia).
        rewrite Ee in Hce. destruct (A4 Hce) as [B1 B2]. pose proof (ext_top _ _ (Hext Ee)).
        split; [lia|]. eapply pendupto_ext; eauto.
      - destruct Hph as [Hne Hph]. split; [exact Hne|].
        intros Hce. assert (Ee : b_epoch b' = b_epoch b) by (specialize (Hep _ Hce); lia).
        rewrite Ee in Hce. destruct (Hph Hce) as [B1 B2]. pose proof (ext_top _ _ (Hext Ee)).
        split; [lia|]. eapply pend_ext; eauto.
      - destruct Hph as [A _]. congruence.
      - destruct e; auto. destruct Hph as [Hne Hph]. split; [exact Hne|].
        intros Hce. assert (Ee : b_epoch b' = b_epoch b) by (specialize (Hep _ Hce); lia).
        rewrite Ee in Hce. destruct (Hph Hce) as [B1 B2]. pose proof (ext_top _ _ (Hext Ee)).
        split; [lia|]. eapply pend_ext; eauto. }
    unfold MapSub.step, step_out. cbn [y_b y_c y_l y_s fst]. fold b'.
    destruct (l_sub l) eqn:El; [|cbn [fst]; apply Hstay; reflexivity].
    (* live subscription *)
    pose proof (Hlive eq_refl) as Eph. rewrite Eph in Hph. destruct Hph as [_ [Hcep Hs]].
    assert (Hle : l_epoch l <= b_epoch b) by (apply Hep; exact Hcep).
    (* nothing broadcast: clear / stream expiry / suppressed removal *)
    assert (Hquiet : pubs_between b b' = [] -> Know (mkSys b' s l c)).
    { intros _. unfold Know; cbn [y_b y_c y_l y_s].
      split; [exact WF'|]. split; [exact KL'|]. split; [exact Hlim|]. split; [exact Hep'|]. split; [exact Hcm|].
      split; [intros _; exact Eph|]. rewrite Eph. split; [exact El|]. split; [exact Hcep|].
      intros He. assert (Ee : b_epoch b' = b_epoch b) by lia. rewrite Ee in He.
      destruct (Hs He) as [B1 [B2 [B3 B4]]]. pose proof (Hext Ee) as X. pose proof (ext_top _ _ X).
      split; [exact B1|]. split; [lia|]. split; [eapply sync_ext; eauto|].
      intros o Ho. rewrite (ext_chg _ _ _ X) by lia. apply B4. exact Ho. }
    assert (Hdeliver : forall r, deliver vis l c (b_epoch b') (pubs_between b b') = r ->
              Know (mkSys b' s (fst (fst (fst r))) (snd (fst (fst r))))).
    { intros r Hr. destruct (pubs_between_apply_w b w) as [Hnil|[Ee [Ht Hone]]]; fold b' in Hnil || fold b' in Ee, Ht, Hone.
      - rewrite Hnil in Hr. cbn in Hr. subst r. cbn. apply Hquiet. exact Hnil.
      - rewrite Hone in Hr. cbn [deliver] in Hr. unfold push in Hr. rewrite El in Hr. cbn [negb] in Hr.
        pose proof (Hext Ee) as X.
        destruct (Nat.eqb (b_epoch b') (l_epoch l)) eqn:Eep; cbn [negb] in Hr.
        2:{ (* another epoch: insufficient state *)
            subst r. cbn. apply Nat.eqb_neq in Eep.
            unfold Know; cbn [y_b y_c y_l y_s on_unsub c_phase c_ep c_off c_map c_limit l_sub].
            split; [exact WF'|]. split; [exact KL'|]. split; [exact Hlim|]. split; [exact Hep'|]. split; [exact Hcm|].
            split; [intros A; discriminate|]. split; [congruence|]. intros Hce. rewrite Hcep in Hce. inversion Hce. congruence. }
        apply Nat.eqb_eq in Eep. assert (Hle2 : l_epoch l = b_epoch b) by congruence.
        destruct (Hs Hle2) as [B1 [B2 [B3 B4]]].
        cbn [fst] in Hr.
        destruct (Nat.ltb (S (l_pos l)) (S (top b))) eqn:Egap.
        { (* offset gap: insufficient state; the client recovers later from its position *)
          subst r. cbn.
          unfold Know; cbn [y_b y_c y_l y_s on_unsub c_phase c_ep c_off c_map c_limit l_sub].
          split; [exact WF'|]. split; [exact KL'|]. split; [exact Hlim|]. split; [exact Hep'|]. split; [exact Hcm|].
          split; [intros A; discriminate|]. split; [congruence|]. intros _. pose proof (ext_top _ _ X).
          split; [lia|]. eapply pend_ext; eauto; [lia|]. eapply sync_pend; eauto. }
        apply Nat.ltb_ge in Egap.
        destruct (Nat.ltb (S (top b)) (S (l_pos l))) eqn:Est; [apply Nat.ltb_lt in Est; lia|].
        assert (Hpos : l_pos l = top b) by lia.
        pose proof (nth_chg vis b' (S (top b)) ltac:(lia)) as Hn. replace (S (top b) - 1) with (top b) in Hn by lia.
        assert (HS' : forall k, state_at b' (S (top b)) k = upd (state_at b (top b)) (S (top b)) (chg b' (S (top b))) k).
        { intros k. rewrite (state_at_S b' (top b) _ Hn). unfold upd.
          destruct (Nat.eqb k (ck (chg b' (S (top b))))); auto. apply (ext_state_at _ _ _ X). lia. }
        cbn [snd] in Hr.
        destruct (vis (ck (chg b' (S (top b))))) eqn:Ev.
        + subst r. cbn.
          unfold Know; cbn [y_b y_c y_l y_s on_push c_phase c_ep c_off c_map c_limit l_sub l_pos l_epoch fst snd].
          split; [exact WF'|]. split; [exact KL'|]. split; [exact Hlim|]. split; [exact Hep'|].
          split.
          { intros k Hk. unfold cset. destruct (Nat.eqb k (ck (chg b' (S (top b))))) eqn:E; [|apply Hcm; auto].
            apply Nat.eqb_eq in E. congruence. }
          split; [intros _; exact Eph|]. rewrite Eph. split; [reflexivity|]. split; [exact Hcep|].
          intros _. split; [lia|]. split; [lia|]. split.
          * intros k. unfold cset. destruct (Nat.eqb k (ck (chg b' (S (top b))))) eqn:E.
            -- apply Nat.eqb_eq in E. subst k. rewrite Ev. unfold vof. rewrite HS'. unfold upd. rewrite Nat.eqb_refl.
               destruct (cv (chg b' (S (top b)))); reflexivity.
            -- rewrite (B3 k). destruct (vis k); auto. unfold vof. rewrite HS'. unfold upd. rewrite E.
               rewrite Hpos. reflexivity.
          * intros o Ho. lia.
        + subst r. cbn.
          unfold Know; cbn [y_b y_c y_l y_s c_phase c_ep c_off c_map c_limit l_sub l_pos l_epoch fst snd].
          split; [exact WF'|]. split; [exact KL'|]. split; [exact Hlim|]. split; [exact Hep'|]. split; [exact Hcm|].
          split; [intros _; exact Eph|]. rewrite Eph. split; [reflexivity|]. split; [exact Hcep|].
          intros _. split; [lia|]. split; [lia|]. split.
          * intros k. rewrite (B3 k). destruct (vis k) eqn:Evk; auto. unfold vof. rewrite HS'. unfold upd.
            destruct (Nat.eqb k (ck (chg b' (S (top b))))) eqn:E; [apply Nat.eqb_eq in E; congruence|].
            rewrite Hpos. reflexivity.
          * intros o Ho. destruct (Nat.eq_dec o (S (top b))) as [->|Hne]; [exact Ev|].
            rewrite (ext_chg _ _ _ X) by lia. apply B4. lia. }
    destruct w as [k v|k| |].
    - destruct (deliver vis l c (b_epoch b') (pubs_between b b')) as [[[l' c'] ds] u] eqn:Ed.
      cbn [fst]. exact (Hdeliver _ eq_refl).
    - destruct (deliver vis l c (b_epoch b') (pubs_between b b')) as [[[l' c'] ds] u] eqn:Ed.
      cbn [fst]. exact (Hdeliver _ eq_refl).
    - cbn [fst]. apply Hquiet. destruct (pubs_between_apply_w b WExpireStream) as [A|[_ [A _]]]; [exact A|].
      unfold top in A; cbn in A. lia.
    - cbn [fst]. apply Hquiet. destruct (pubs_between_apply_w b WClear) as [A|[A _]]; [exact A|]. cbn in A. lia.
  Qed.


  (* a writer op whose broadcast never reaches the node: the client keeps the state of its position *)
  Lemma know_lose : forall b s l c w, Know (mkSys b s l c) -> wok w -> Know (mkSys (apply_w b w) s l c).
  Proof.
    intros b s l c w HK Hw.
    destruct HK as [HWF [HKL [Hlim [Hep [Hcm [Hlive Hph]]]]]]. cbn [y_b y_c y_l y_s] in *.
    set (b' := apply_w b w).
    assert (WF' : WF b') by (apply WF_apply_w; auto).
    assert (KL' : keys_lt b') by (apply keys_lt_apply_w; auto).
    assert (Emono : b_epoch b <= b_epoch b') by apply apply_w_epoch_mono.
    assert (Hep' : forall x, c_ep c = Some x -> x <= b_epoch b') by (intros x Hx; specialize (Hep x Hx); lia).
    assert (Hext : b_epoch b' = b_epoch b -> same_epoch_ext b b') by (apply apply_w_ext).
    destruct (l_sub l) eqn:El.
    - pose proof (Hlive eq_refl) as Eph. rewrite Eph in Hph. destruct Hph as [_ [Hcep Hs]].
      assert (Hle : l_epoch l <= b_epoch b) by (apply Hep; exact Hcep).
      unfold Know; cbn [y_b y_c y_l y_s].
      split; [exact WF'|]. split; [exact KL'|]. split; [exact Hlim|]. split; [exact Hep'|]. split; [exact Hcm|].
      split; [intros _; exact Eph|]. rewrite Eph. split; [exact El|]. split; [exact Hcep|].
      intros He. assert (Ee : b_epoch b' = b_epoch b) by lia. rewrite Ee in He.
      destruct (Hs He) as [B1 [B2 [B3 B4]]]. pose proof (Hext Ee) as X. pose proof (ext_top _ _ X).
      split; [exact B1|]. split; [lia|]. split; [eapply sync_ext; eauto|].
      intros o Ho. rewrite (ext_chg _ _ _ X) by lia. apply B4. exact Ho.
    - unfold Know; cbn [y_b y_c y_l y_s].
      split; [exact WF'|]. split; [exact KL'|]. split; [exact Hlim|]. split; [exact Hep'|]. split; [exact Hcm|].
      split; [intros A; congruence|].
      destruct (c_phase c) as [|cur| | |e] eqn:Eph.
      + exact I.
      + destruct Hph as [Hne Hph]. split; [exact Hne|].
        intros Hs. destruct (Hph Hs) as [A1 [A2 [A3 A4]]]. split; [exact A1|]. split; [exact A2|]. split; [exact A3|].
        intros Hce. assert (Ee : b_epoch b' = b_epoch b) by (specialize (Hep _ Hce); lia).
        rewrite Ee in Hce. destruct (A4 Hce) as [B1 B2]. pose proof (ext_top _ _ (Hext Ee)).
        split; [lia|]. eapply pendupto_ext; eauto.
      + destruct Hph as [Hne Hph]. split; [exact Hne|].
        intros Hce. assert (Ee : b_epoch b' = b_epoch b) by (specialize (Hep _ Hce); lia).
        rewrite Ee in Hce. destruct (Hph Hce) as [B1 B2]. pose proof (ext_top _ _ (Hext Ee)).
        split; [lia|]. eapply pend_ext; eauto.
      + destruct Hph as [A _]. congruence.
      + destruct e; auto. destruct Hph as [Hne Hph]. split; [exact Hne|].
        intros Hce. assert (Ee : b_epoch b' = b_epoch b) by (specialize (Hep _ Hce); lia).
        rewrite Ee in Hce. destruct (Hph Hce) as [B1 B2]. pose proof (ext_top _ _ (Hext Ee)).
        split; [lia|]. eapply pend_ext; eauto.
  Qed.

  (* ---------------------------------------------------------- unsubscribe / drop *)
  Lemma know_unsub : forall b s s' l c,
    Know (mkSys b s l c) -> l_sub l = true -> Know (mkSys b s' (mkL false 0 0) (on_unsub c)).
  Proof.
    intros b s s' l c HK Hl. destruct HK as [HWF [HKL [Hlim [Hep [Hcm [Hlive Hph]]]]]]. cbn [y_b y_c y_l y_s] in *.
    pose proof (Hlive Hl) as Eph. rewrite Eph in Hph. destruct Hph as [_ [Hcep Hs]].
    unfold Know; cbn [y_b y_c y_l y_s on_unsub c_phase c_ep c_off c_map c_limit l_sub].
    split; [exact HWF|]. split; [exact HKL|]. split; [exact Hlim|]. split; [exact Hep|]. split; [exact Hcm|].
    split; [intros A; discriminate|]. split; [congruence|].
    intros Hce. rewrite Hcep in Hce. inversion Hce as [He]. destruct (Hs He) as [B1 [B2 [B3 B4]]].
    split; [lia|]. eapply sync_pend; eauto.
  Qed.

  (* ---------------------------------------------------------- after a live transition *)
  Lemma apply_pubs_invis : forall l m k, vis k = false -> apply_pubs m (vis_pubs l) k = m k.
  Proof.
    induction l as [|p t IH]; intros m k Hk; [reflexivity|]. cbn [MapSub.vis_pubs filter].
    destruct (vis (ck (snd p))) eqn:E; [|apply IH; auto].
    cbn [apply_pubs fold_left]. change (apply_pubs (cset m (ck (snd p)) (cv (snd p))) (vis_pubs t) k = m k).
    rewrite IH by auto. unfold cset. destruct (Nat.eqb k (ck (snd p))) eqn:E2; auto.
    apply Nat.eqb_eq in E2. congruence.
  Qed.

  Lemma apply_entries_invis : forall l m k, vis k = false -> apply_entries m (vis_entries l) k = m k.
  Proof.
    intros l m k Hk. apply apply_entries_other. intros e He Hke.
    unfold MapSub.vis_entries in He. apply filter_In in He. destruct He as [_ He].
    unfold ekey in Hke. rewrite Hke in He. congruence.
  Qed.

  Notation transition := (transition true vis tlimit).

  Lemma live_know : forall bt since x isrec rf entries g1 g2 b' s' l' pubs latest mE lim recs,
    WF bt -> keys_lt bt -> Forall wok g1 -> Forall wok g2 -> 1 <= lim -> x <= b_epoch bt ->
    (x = b_epoch bt -> since <= top bt /\ Pend bt mE since) ->
    (forall k, vis k = false -> mE k = None) ->
    transition bt since (Some x) isrec rf entries g1 g2 = (b', s', l', PLive entries pubs latest x rf) ->
    Know (mkSys b' s' l' (mkCl (apply_pubs mE pubs) CLive latest (Some x) lim recs)) /\
    (x = b_epoch b' -> latest = top b' /\ pubs = vis_pubs (changes b' since (top b'))).
  Proof.
    intros bt since x isrec rf entries g1 g2 b' s' l' pubs latest mE lim recs HWF HKL Hg1 Hg2 Hlim Hx HP Hinv H.
    destruct (transition_spec vis tlimit bt since x isrec rf entries g1 g2 b' s' l' _ HWF
                ltac:(intros E; apply HP; exact E) H) as [Hb' [Hs' [[er [Her _]]|[pubs' [latest' [Hrep [[l0 Hl0] [Hl' [Hx1 Hsame]]]]]]]]];
      [discriminate|].
    assert (Hpp : pubs' = pubs /\ latest' = latest) by (inversion Hrep; auto). destruct Hpp as [Hp1 Hp2]. clear Hrep.
    rewrite Hp1 in Hl0, Hsame. rewrite Hp2 in Hl', Hsame. clear Hp1 Hp2.
    set (b1 := apply_ws bt g1) in *.
    assert (M1 : b_epoch bt <= b_epoch b1) by apply apply_ws_epoch_mono.
    assert (M2 : b_epoch b1 <= b_epoch b') by (rewrite Hb'; apply apply_ws_epoch_mono).
    assert (Ebt : x = b_epoch bt) by lia.
    destruct (HP Ebt) as [Hsince HPend].
    assert (WF' : WF b') by (rewrite Hb'; apply WF_apply_ws; apply WF_apply_ws; auto).
    assert (KL' : keys_lt b') by (rewrite Hb'; apply keys_lt_apply_ws; auto; apply keys_lt_apply_ws; auto).
    assert (Hclaim : x = b_epoch b' -> latest = top b' /\ pubs = vis_pubs (changes b' since (top b'))).
    { intros E. apply Hsame. lia. }
    split; [|exact Hclaim].
    unfold Know; cbn [y_b y_c y_l y_s c_phase c_ep c_off c_map c_limit].
    split; [exact WF'|]. split; [exact KL'|]. split; [exact Hlim|].
    split; [intros x0 Hx0; inversion Hx0; subst; lia|].
    split; [intros k Hk; rewrite Hl0, apply_pubs_invis by auto; apply Hinv; auto|].
    rewrite Hl'. cbn [l_sub l_pos l_epoch].
    split; [reflexivity|]. split; [reflexivity|]. split; [reflexivity|].
    intros E. destruct (Hclaim E) as [Hlat Hpubs].
    assert (Esame : b_epoch b' = b_epoch bt) by lia.
    assert (X : same_epoch_ext bt b').
    { rewrite Hb'. eapply same_epoch_ext_trans; [apply (apply_ws_ext g1 bt); fold b1; lia|].
      apply apply_ws_ext. rewrite <- Hb'. fold b1. lia. }
    pose proof (ext_top _ _ X) as T.
    split; [lia|]. split; [lia|]. split.
    - rewrite Hlat. apply pend_top. rewrite Hpubs. apply pend_apply'; [lia|lia|].
      eapply pend_ext; eauto.
    - intros o Ho. lia.
  Qed.


  (* ---------------------------------------------------------- broker extension by writer ops *)
  Definition wext (b b' : broker) : Prop := exists ws, Forall wok ws /\ b' = apply_ws b ws.

  Lemma wext_refl : forall b, wext b b.
  Proof. intros b. exists []. split; [constructor|reflexivity]. Qed.

  Lemma wext_ws : forall b ws, Forall wok ws -> wext b (apply_ws b ws).
  Proof. intros b ws H. exists ws. auto. Qed.

  Lemma wext_trans : forall a b c, wext a b -> wext b c -> wext a c.
  Proof.
    intros a b c [w1 [F1 E1]] [w2 [F2 E2]]. exists (w1 ++ w2). split; [apply Forall_app; auto|].
    subst. unfold apply_ws. rewrite fold_left_app. reflexivity.
  Qed.

  Lemma wext_facts : forall b b', wext b b' -> WF b -> keys_lt b ->
    WF b' /\ keys_lt b' /\ b_epoch b <= b_epoch b' /\ (b_epoch b' = b_epoch b -> same_epoch_ext b b').
  Proof.
    intros b b' [ws [F ->]] HW HK. split; [apply WF_apply_ws; auto|]. split; [apply keys_lt_apply_ws; auto|].
    split; [apply apply_ws_epoch_mono|apply apply_ws_ext].
  Qed.

  (* an error reply: the client is told *)
  Lemma know_err : forall b s l c b' s' l' e,
    Know (mkSys b s l c) -> l_sub l = false -> wext b b' -> l_sub l' = false ->
    Know (mkSys b' s' l' (on_reply c (PErr e))).
  Proof.
    intros b s l c b' s' l' e HK Hl HX Hl'. destruct HK as [HWF [HKL [Hlim [Hep [Hcm [Hlive Hph]]]]]]. cbn [y_b y_c y_l y_s] in *.
    destruct (wext_facts _ _ HX HWF HKL) as [WF' [KL' [Emono Hext]]].
    unfold Know; cbn [y_b y_c y_l y_s on_reply c_phase c_ep c_off c_map c_limit l_sub].
    split; [exact WF'|]. split; [exact KL'|]. split; [exact Hlim|].
    split; [intros x Hx; specialize (Hep x Hx); lia|]. split; [exact Hcm|]. split; [intros A; congruence|].
    destruct e; auto. destruct (c_phase c) as [| | | |e0] eqn:Eph; auto. destruct e0; auto.
    destruct Hph as [Hne Hp]. split; [exact Hne|]. intros Hce.
    assert (Ee : b_epoch b' = b_epoch b) by (specialize (Hep _ Hce); lia).
    rewrite Ee in Hce. destruct (Hp Hce) as [B1 B2]. pose proof (ext_top _ _ (Hext Ee)).
    split; [lia|]. eapply pend_ext; eauto.
  Qed.

  (* ---------------------------------------------------------- stream pages *)
  Lemma firstn_seq' : forall n s m, firstn n (seq s m) = seq s (Nat.min n m).
  Proof.
    induction n as [|n IH]; intros s m; [reflexivity|]. destruct m as [|m]; [reflexivity|].
    cbn [seq firstn Nat.min]. f_equal. apply IH.
  Qed.

  Lemma firstn_changes : forall b p n, p <= top b ->
    firstn n (changes b p (top b)) = changes b p (Nat.min (p + n) (top b)).
  Proof.
    intros b p n Hp. rewrite !changes_map by lia. rewrite firstn_map, firstn_seq'.
    f_equal. f_equal. lia.
  Qed.

  Lemma changes_last : forall b p q, p < q -> q <= top b ->
    exists r, rev (changes b p q) = (q, chg b q) :: r.
  Proof.
    intros b p q H1 H2. rewrite changes_map by lia.
    replace (q - p) with (S (q - p - 1)) by lia. rewrite seq_S, map_app, rev_app_distr. cbn [map rev app].
    replace (S p + (q - p - 1)) with q by lia. eauto.
  Qed.

  Lemma stream_page_know : forall b m p x limit pubs t e,
    WF b -> 1 <= limit -> x = b_epoch b -> p <= top b -> Pend b m p ->
    node_read_stream true b p (Some x) limit = SOk pubs t e ->
    let roff := match rev pubs with (o, _) :: _ => o | [] => p end in
    e = b_epoch b /\ p <= roff <= top b /\ Pend b (apply_pubs m (vis_pubs pubs)) roff.
  Proof.
    intros b m p x limit pubs t e HWF Hl Hx Hp HP H roff.
    destruct (node_read_fixed b p (Some x) limit pubs t e HWF Hp Hl ltac:(unfold known; apply orb_true_r) H)
      as [Ht [He [Hpubs _]]].
    rewrite firstn_changes in Hpubs by lia.
    set (q := Nat.min (p + limit) (top b)) in *.
    assert (Hq : p <= q <= top b) by (unfold q; lia).
    assert (Hroff : roff = q).
    { unfold roff. destruct (Nat.eq_dec p q) as [E|N].
      - rewrite Hpubs, <- E, changes_nil. reflexivity.
      - destruct (changes_last b p q ltac:(lia) ltac:(lia)) as [r Hr]. rewrite Hpubs, Hr. reflexivity. }
    split; [exact He|]. rewrite Hroff. split; [exact Hq|].
    rewrite Hpubs. apply pend_apply'; [lia|lia|exact HP].
  Qed.


  (* ---------------------------------------------------------- requests *)
  Notation handle := (handle true K vis tlimit).

  Lemma filter_all : forall (A : Type) (f : A -> bool) l, (forall x, In x l -> f x = true) -> filter f l = l.
  Proof.
    intros A f l. induction l as [|a t IH]; intros H; [reflexivity|]. cbn.
    rewrite (H a (or_introl eq_refl)). f_equal. apply IH. intros x Hx. apply H. right; auto.
  Qed.

  Lemma page_offsets_le : forall b cursor limit page next, 1 <= limit ->
    read_state K b cursor limit = (page, next) ->
    filter (fun e : key * nat * val => Nat.leb (snd (fst e)) (top b)) page = page.
  Proof.
    intros b cursor limit page next Hl Hr. apply filter_all. intros [[k o] v] Hin. cbn.
    pose proof (read_state_spec K b cursor limit page next Hl Hr) as S0. cbv zeta in S0.
    destruct S0 as [S1 _]. destruct (S1 _ _ _ Hin) as [_ [_ Hs]]. unfold state in Hs.
    destruct (state_at_entry b (top b) k o v (le_n _) Hs) as [Ho _]. apply Nat.leb_le. lia.
  Qed.

  Lemma pendupto_empty : forall b F, PendUpTo b (fun _ => None) F 0.
  Proof. intros b F k. split; [auto|]. intros _. split; [lia|auto]. Qed.

  Definition fresh_phase (c : client) : Prop :=
    c_phase c = CFresh \/ c_phase c = CTold EUnrecoverable \/ c_phase c = CTold EPermission.

  (* the part of Know that does not depend on the phase *)
  Definition Base (b : broker) (c : client) : Prop :=
    WF b /\ keys_lt b /\ 1 <= c_limit c /\ (forall x, c_ep c = Some x -> x <= b_epoch b) /\
    (forall k, vis k = false -> c_map c k = None).

  Lemma know_base : forall b s l c, Know (mkSys b s l c) -> Base b c.
  Proof. intros b s l c [A [B [C [D [E _]]]]]. unfold Base. cbn [y_b y_c] in *. tauto. Qed.

  (* go live (or fail) from a position with pending knowledge *)
  Lemma transition_know : forall bt b s l c since x isrec rf entries g1 g2 b' s' l' rep mE,
    Know (mkSys b s l c) -> l_sub l = false -> wext b bt ->
    Forall wok g1 -> Forall wok g2 -> x <= b_epoch b ->
    (x = b_epoch bt -> since <= top bt /\ Pend bt mE since) ->
    (forall k, vis k = false -> mE k = None) ->
    (forall pubs latest, on_reply c (PLive entries pubs latest x rf) =
       mkCl (apply_pubs mE pubs) CLive latest (Some x) (c_limit c) (c_recovered c ++ [rf])) ->
    transition bt since (Some x) isrec rf entries g1 g2 = (b', s', l', rep) ->
    Know (mkSys b' s' l' (on_reply c rep)).
  Proof.
    intros bt b s l c since x isrec rf entries g1 g2 b' s' l' rep mE HK Hl HX Hg1 Hg2 Hx HP Hinv Hrep H.
    pose proof (know_base _ _ _ _ HK) as [HWF [HKL [Hlim [Hep Hcm]]]].
    destruct (wext_facts _ _ HX HWF HKL) as [WFt [KLt [Emono Hext]]].
    destruct (transition_spec vis tlimit bt since x isrec rf entries g1 g2 b' s' l' rep WFt
                ltac:(intros E; apply HP; exact E) H) as [Hb' [Hs' [[er [Her Hld]]|[pubs [latest [Hr _]]]]]].
    - subst rep. eapply know_err; eauto.
      eapply wext_trans; [exact HX|]. rewrite Hb'. eapply wext_trans; apply wext_ws; auto.
    - subst rep. rewrite Hrep.
      destruct (live_know bt since x isrec rf entries g1 g2 b' s' l' pubs latest mE (c_limit c) (c_recovered c ++ [rf])
                  WFt KLt Hg1 Hg2 Hlim ltac:(lia) HP Hinv H) as [HK' _].
      exact HK'.
  Qed.


  (* first state request of a client that starts from scratch *)
  Lemma req_first_know : forall b s l c g0 g1 g2 b' s' l' rep,
    Know (mkSys b s l c) -> l_sub l = false -> fresh_phase c ->
    Forall wok g0 -> Forall wok g1 -> Forall wok g2 ->
    handle b s (RState None (c_limit c) 0 None) g0 g1 g2 = (b', s', l', rep) ->
    Know (mkSys b' s' l' (on_reply c rep)).
  Proof.
    intros b s l c g0 g1 g2 b' s' l' rep HK Hl Hf H0 H1 H2 H.
    pose proof (know_base _ _ _ _ HK) as [HWF [HKL [Hlim [Hep Hcm]]]].
    unfold MapSub.handle in H. cbn [s_has negb Nat.eqb orb andb] in H.
    destruct (read_state K b None (c_limit c)) as [page next] eqn:Er.
    cbn [s_cap andb s_off s_epoch s_start s_startcap] in H.
    set (mE := apply_entries (fun _ => None) (vis_entries page)).
    assert (HmE_inv : forall k, vis k = false -> mE k = None)
      by (intros k Hk; unfold mE; rewrite apply_entries_invis; auto).
    assert (Hfresh_state : forall es cur off ep, on_reply c (PState es cur off ep) =
              mkCl (apply_entries (fun _ => None) es) (match cur with Some k => CStatePages k | None => CStreaming end)
                   off (Some ep) (c_limit c) (c_recovered c)).
    { intros. unfold on_reply. destruct Hf as [E|[E|E]]; rewrite E; reflexivity. }
    assert (Hfresh_live : forall es pubs latest x rf, on_reply c (PLive es pubs latest x rf) =
              mkCl (apply_pubs (apply_entries (fun _ => None) es) pubs) CLive latest (Some x) (c_limit c) (c_recovered c ++ [rf])).
    { intros. unfold on_reply. destruct Hf as [E|[E|E]]; rewrite E; reflexivity. }
    pose proof (page_offsets_le b None (c_limit c) page next Hlim Er) as Hfilt.
    pose proof (page_step b (fun _ => None) (top b) 0 page next (c_limit c) None Hlim (le_n _) HKL eq_refl Er
                  (pendupto_empty b (top b))) as HPS.
    cbv zeta in HPS. rewrite Hfilt in HPS. fold mE in HPS.
    destruct next as [c0|].
    - inversion H; subst b' s' l' rep; clear H. rewrite Hfresh_state. fold mE.
      unfold Know; cbn [y_b y_c y_l y_s c_phase c_ep c_off c_map c_limit l_sub s_has s_cap s_off s_epoch].
      split; [exact HWF|]. split; [exact HKL|]. split; [exact Hlim|].
      split; [intros x Hx; inversion Hx; lia|]. split; [exact HmE_inv|]. split; [intros A; discriminate|].
      split; [discriminate|]. intros _. split; [reflexivity|]. split; [reflexivity|]. split; [reflexivity|].
      intros _. split; [lia|exact HPS].
    - set (b0 := apply_ws b g0) in *.
      assert (HX0 : wext b b0) by (apply wext_ws; auto).
      destruct (wext_facts _ _ HX0 HWF HKL) as [WF0 [KL0 [Em0 Hext0]]].
      assert (HP0 : b_epoch b = b_epoch b0 -> top b <= top b0 /\ Pend b0 mE (top b)).
      { intros E. pose proof (Hext0 (eq_sym E)) as X. split; [apply (ext_top _ _ X)|]. eapply pend_ext; eauto. }
      destruct (Nat.leb (top b0) (top b + c_limit c)).
      + apply (transition_know b0 b s l c (top b) (b_epoch b) false false (vis_entries page) g1 g2 b' s' l' rep mE
                 HK Hl HX0 H1 H2 (le_n _)).
        * exact HP0.
        * exact HmE_inv.
        * intros pubs latest. rewrite Hfresh_live. reflexivity.
        * exact H.
      + inversion H; subst b' s' l' rep; clear H. rewrite Hfresh_state. fold mE.
        unfold Know; cbn [y_b y_c y_l y_s c_phase c_ep c_off c_map c_limit l_sub].
        split; [exact WF0|]. split; [exact KL0|]. split; [exact Hlim|].
        split; [intros x Hx; inversion Hx; lia|]. split; [exact HmE_inv|]. split; [intros A; discriminate|].
        split; [discriminate|]. intros E. inversion E as [E']. apply HP0. exact E'.
  Qed.


  (* a later state page *)
  Lemma req_page_know : forall b s l c cur g0 g1 g2 b' s' l' rep,
    Know (mkSys b s l c) -> l_sub l = false -> c_phase c = CStatePages cur ->
    Forall wok g0 -> Forall wok g1 -> Forall wok g2 ->
    handle b s (RState (Some cur) (c_limit c) (c_off c) (c_ep c)) g0 g1 g2 = (b', s', l', rep) ->
    Know (mkSys b' s' l' (on_reply c rep)).
  Proof.
    intros b s l c cur g0 g1 g2 b' s' l' rep HK Hl Hph H0 H1 H2 H.
    pose proof (know_base _ _ _ _ HK) as [HWF [HKL [Hlim [Hep Hcm]]]].
    assert (HKc := HK). destruct HKc as [_ [_ [_ [_ [_ [_ Hp]]]]]]. cbn [y_b y_c y_l y_s] in Hp.
    rewrite Hph in Hp. destruct Hp as [Hne Hp].
    unfold MapSub.handle in H.
    destruct (s_has s) eqn:Ehas; cbn [negb] in H.
    2:{ inversion H; subst. eapply know_err; eauto. apply wext_refl. }
    destruct (Hp eq_refl) as [Hcap [Hoff [Hsep Hpend]]].
    destruct (c_ep c) as [x|] eqn:Ecep; [|congruence].
    rewrite orb_true_r in H. cbn [andb] in H.
    destruct (Nat.eqb x (b_epoch b)) eqn:Ex; cbn [negb] in H.
    2:{ inversion H; subst. eapply know_err; eauto. apply wext_refl. }
    apply Nat.eqb_eq in Ex. subst x.
    destruct (Hpend eq_refl) as [Hoffle HPU].
    destruct (read_state K b (Some cur) (c_limit c)) as [page next] eqn:Er.
    rewrite Hcap in H. cbn [andb] in H. rewrite Hoff, Hsep in H.
    set (mE := apply_entries (c_map c) (vis_entries (filter (fun e : key * nat * val => Nat.leb (snd (fst e)) (c_off c)) page))) in *.
    assert (HmE_inv : forall k, vis k = false -> mE k = None)
      by (intros k Hk; unfold mE; rewrite apply_entries_invis; auto).
    assert (Hrs : forall es cu off ep, on_reply c (PState es cu off ep) =
              mkCl (apply_entries (c_map c) es) (match cu with Some k => CStatePages k | None => CStreaming end)
                   (c_off c) (c_ep c) (c_limit c) (c_recovered c)).
    { intros. unfold on_reply. rewrite Hph. reflexivity. }
    assert (Hrl : forall es pubs latest x rf, on_reply c (PLive es pubs latest x rf) =
              mkCl (apply_pubs (apply_entries (c_map c) es) pubs) CLive latest (Some x) (c_limit c) (c_recovered c ++ [rf])).
    { intros. unfold on_reply. rewrite Hph. reflexivity. }
    pose proof (page_step b (c_map c) (c_off c) (S cur) page next (c_limit c) (Some cur) Hlim Hoffle HKL eq_refl Er HPU) as HPS.
    cbv zeta in HPS. fold mE in HPS.
    destruct next as [c0|].
    - inversion H; subst b' s' l' rep; clear H. rewrite Hrs, Ecep. fold mE.
      unfold Know; cbn [y_b y_c y_l y_s c_phase c_ep c_off c_map c_limit l_sub].
      split; [exact HWF|]. split; [exact HKL|]. split; [exact Hlim|].
      split; [exact Hep|]. split; [exact HmE_inv|]. split; [intros A; congruence|].
      split; [congruence|]. intros _. split; [exact Hcap|]. split; [exact Hoff|]. split; [rewrite Hsep; auto|].
      intros _. split; [exact Hoffle|exact HPS].
    - set (b0 := apply_ws b g0) in *.
      assert (HX0 : wext b b0) by (apply wext_ws; auto).
      destruct (wext_facts _ _ HX0 HWF HKL) as [WF0 [KL0 [Em0 Hext0]]].
      assert (HP0 : b_epoch b = b_epoch b0 -> c_off c <= top b0 /\ Pend b0 mE (c_off c)).
      { intros E. pose proof (Hext0 (eq_sym E)) as X. pose proof (ext_top _ _ X). split; [lia|]. eapply pend_ext; eauto. }
      destruct (Nat.leb (top b0) (c_off c + c_limit c)).
      + apply (transition_know b0 b s l c (c_off c) (b_epoch b) false false
                 (vis_entries (filter (fun e : key * nat * val => Nat.leb (snd (fst e)) (c_off c)) page))
                 g1 g2 b' s' l' rep mE HK Hl HX0 H1 H2 (le_n _)).
        * exact HP0.
        * exact HmE_inv.
        * intros pubs latest. rewrite Hrl. reflexivity.
        * exact H.
      + inversion H; subst b' s' l' rep; clear H. rewrite Hrs, Ecep. fold mE.
        unfold Know; cbn [y_b y_c y_l y_s c_phase c_ep c_off c_map c_limit l_sub].
        split; [exact WF0|]. split; [exact KL0|]. split; [exact Hlim|].
        split; [intros x Hx; specialize (Hep x Hx); lia|]. split; [exact HmE_inv|]. split; [intros A; congruence|].
        split; [congruence|]. intros E. inversion E as [E']. apply HP0. exact E'.
  Qed.


  Lemma node_read_epoch : forall fx b since x limit pubs t e,
    node_read_stream fx b since (Some x) limit = SOk pubs t e -> x = b_epoch b.
  Proof.
    intros fx b since x limit pubs t e H. unfold node_read_stream in H.
    destruct (broker_read_stream b since (Some x) limit) as [|ps t0 e0] eqn:Eb; [discriminate|].
    destruct (broker_read_spec _ _ _ _ _ _ _ Eb) as [_ [_ [Hx _]]]. apply Hx; reflexivity.
  Qed.

  (* stream phase request *)
  Lemma req_stream_know : forall b s l c g0 g1 g2 b' s' l' rep,
    Know (mkSys b s l c) -> l_sub l = false -> c_phase c = CStreaming ->
    Forall wok g0 -> Forall wok g1 -> Forall wok g2 ->
    handle b s (RStream (c_off c) (c_ep c) (c_limit c)) g0 g1 g2 = (b', s', l', rep) ->
    Know (mkSys b' s' l' (on_reply c rep)).
  Proof.
    intros b s l c g0 g1 g2 b' s' l' rep HK Hl Hph H0 H1 H2 H.
    pose proof (know_base _ _ _ _ HK) as [HWF [HKL [Hlim [Hep Hcm]]]].
    assert (HKc := HK). destruct HKc as [_ [_ [_ [_ [_ [_ Hp]]]]]]. cbn [y_b y_c y_l y_s] in Hp.
    rewrite Hph in Hp. destruct Hp as [Hne Hp].
    unfold MapSub.handle in H.
    destruct (s_has s) eqn:Ehas; cbn [negb] in H.
    2:{ inversion H; subst. eapply know_err; eauto. apply wext_refl. }
    destruct (c_ep c) as [x|] eqn:Ecep; [|congruence].
    assert (Hrl : forall pubs latest x0 rf, on_reply c (PLive [] pubs latest x0 rf) =
              mkCl (apply_pubs (c_map c) pubs) CLive latest (Some x0) (c_limit c) (c_recovered c ++ [rf])).
    { intros. unfold on_reply. rewrite Hph. reflexivity. }
    assert (Hxle : x <= b_epoch b) by (apply Hep; reflexivity).
    assert (HPx : x = b_epoch b -> c_off c <= top b /\ Pend b (c_map c) (c_off c)).
    { intros E. apply Hp. congruence. }
    destruct (match s_epoch s with Some c0 => negb (Nat.eqb x c0) | None => false end).
    { inversion H; subst. eapply know_err; eauto. apply wext_refl. }
    match type of H with (if ?cond then _ else _) = _ => destruct cond end.
    - apply (transition_know b b s l c (c_off c) x true false [] g1 g2 b' s' l' rep (c_map c)
               HK Hl (wext_refl b) H1 H2 Hxle HPx Hcm).
      + intros pubs latest. rewrite Hrl. reflexivity.
      + exact H.
    - destruct (node_read_stream true b (c_off c) (Some x) (c_limit c)) as [|pubs t e] eqn:Er.
      { inversion H; subst. eapply know_err; eauto. apply wext_refl. }
      pose proof (node_read_epoch _ _ _ _ _ _ _ _ Er) as Ex.
      destruct (HPx Ex) as [Hoffle HP].
      destruct (stream_page_know b (c_map c) (c_off c) x (c_limit c) pubs t e HWF Hlim Ex Hoffle HP Er) as [He [Hroff HP']].
      inversion H; subst b' s' l' rep; clear H.
      unfold on_reply. cbn [c_map c_limit c_recovered].
      unfold Know; cbn [y_b y_c y_l y_s c_phase c_ep c_off c_map c_limit l_sub].
      split; [exact HWF|]. split; [exact HKL|]. split; [exact Hlim|].
      split; [intros x0 Hx0; inversion Hx0; lia|].
      split; [intros k Hk; rewrite apply_pubs_invis by auto; apply Hcm; auto|]. split; [intros A; congruence|].
      split; [discriminate|]. intros _. split; [lia|exact HP'].
  Qed.

  (* recovery join *)
  Lemma req_live_know : forall b s l c g0 g1 g2 b' s' l' rep,
    Know (mkSys b s l c) -> l_sub l = false -> c_phase c = CTold EInsufficient ->
    Forall wok g0 -> Forall wok g1 -> Forall wok g2 ->
    handle b s (RLive (c_off c) (c_ep c)) g0 g1 g2 = (b', s', l', rep) ->
    Know (mkSys b' s' l' (on_reply c rep)).
  Proof.
    intros b s l c g0 g1 g2 b' s' l' rep HK Hl Hph H0 H1 H2 H.
    pose proof (know_base _ _ _ _ HK) as [HWF [HKL [Hlim [Hep Hcm]]]].
    assert (HKc := HK). destruct HKc as [_ [_ [_ [_ [_ [_ Hp]]]]]]. cbn [y_b y_c y_l y_s] in Hp.
    rewrite Hph in Hp. destruct Hp as [Hne Hp].
    unfold MapSub.handle in H.
    destruct (c_ep c) as [x|] eqn:Ecep; [|congruence].
    assert (Hrl : forall pubs latest x0 rf, on_reply c (PLive [] pubs latest x0 rf) =
              mkCl (apply_pubs (c_map c) pubs) CLive latest (Some x0) (c_limit c) (c_recovered c ++ [rf])).
    { intros. unfold on_reply. rewrite Hph. reflexivity. }
    assert (Hxle : x <= b_epoch b) by (apply Hep; reflexivity).
    assert (HPx : x = b_epoch b -> c_off c <= top b /\ Pend b (c_map c) (c_off c)).
    { intros E. apply Hp. congruence. }
    destruct (match s_epoch s with Some c0 => s_has s && negb (Nat.eqb x c0) | None => false end).
    { inversion H; subst. eapply know_err; eauto. apply wext_refl. }
    apply (transition_know b b s l c (c_off c) x true true [] g1 g2 b' s' l' rep (c_map c)
             HK Hl (wext_refl b) H1 H2 Hxle HPx Hcm).
    - intros pubs latest. rewrite Hrl. reflexivity.
    - exact H.
  Qed.

  (* ---------------------------------------------------------- every step *)
  Lemma know_step : forall y ev, Know y -> evok ev -> Know (step y ev).
  Proof.
    intros y ev HK Hev. destruct ev as [w|g0 g1 g2| | |w].
    5:{ destruct y as [b s l c]. unfold MapSub.step, step_out. cbn [y_b y_c y_l y_s fst]. apply know_lose; auto. }
    - apply know_step_w; auto.
    - destruct Hev as [H0 [H1 H2]]. destruct y as [b s l c].
      unfold MapSub.step, step_out. cbn [y_b y_c y_l y_s].
      destruct (next_request c) as [r|] eqn:Er; [|exact HK].
      assert (Hl : l_sub l = false).
      { destruct (l_sub l) eqn:El; auto. destruct HK as [_ [_ [_ [_ [_ [Hlive _]]]]]]. cbn in Hlive.
        unfold next_request in Er. rewrite (Hlive El) in Er. discriminate. }
      destruct (handle b s r g0 g1 g2) as [[[b' s'] l'] rep] eqn:Eh. cbn [fst].
      unfold next_request in Er.
      destruct (c_phase c) as [|cur| | |e] eqn:Eph.
      + inversion Er; subst r. apply (req_first_know b s l c g0 g1 g2 b' s' l' rep HK Hl (or_introl Eph) H0 H1 H2 Eh).
      + inversion Er; subst r. apply (req_page_know b s l c cur g0 g1 g2 b' s' l' rep HK Hl Eph H0 H1 H2 Eh).
      + inversion Er; subst r. apply (req_stream_know b s l c g0 g1 g2 b' s' l' rep HK Hl Eph H0 H1 H2 Eh).
      + discriminate.
      + destruct e; inversion Er; subst r.
        * apply (req_first_know b s l c g0 g1 g2 b' s' l' rep HK Hl (or_intror (or_introl Eph)) H0 H1 H2 Eh).
        * apply (req_live_know b s l c g0 g1 g2 b' s' l' rep HK Hl Eph H0 H1 H2 Eh).
        * apply (req_first_know b s l c g0 g1 g2 b' s' l' rep HK Hl (or_intror (or_intror Eph)) H0 H1 H2 Eh).
    - destruct y as [b s l c]. unfold MapSub.step, step_out. cbn [y_b y_c y_l y_s].
      destruct (l_sub l && negb (check_position b l)) eqn:E; [|exact HK].
      apply andb_prop in E. destruct E as [El _]. cbn [fst]. eapply know_unsub; eauto.
    - destruct y as [b s l c]. unfold MapSub.step, step_out. cbn [y_b y_c y_l y_s].
      destruct (l_sub l) eqn:El; [|exact HK]. cbn [fst]. eapply know_unsub; eauto.
  Qed.

  Notation run := (run true K vis tlimit).

  Lemma know_run : forall evs y, Know y -> Forall evok evs -> Know (run y evs).
  Proof.
    induction evs as [|ev t IH]; intros y HK HF; [exact HK|]. inversion HF; subst.
    cbn. apply IH; auto. apply know_step; auto.
  Qed.

  Lemma know_init : forall size limit, 1 <= limit -> Know (init size limit).
  Proof.
    intros size limit Hl. unfold Know, init; cbn.
    split; [unfold WF, top; cbn; lia|]. split; [intros c []|]. split; [exact Hl|].
    split; [intros x Hx; discriminate|]. split; [auto|]. split; [intros A; discriminate|exact I].
  Qed.

End Inv.
