(* C22: the knowledge invariant of the protocol client and convergence. *)
From Coq Require Import List Arith Bool NArith Lia.
From Cfg Require Import Model.Merge Model.MapSub Proofs.MapSubLib Proofs.MapSub Proofs.MapSubPages.
Import ListNotations.
Close Scope N_scope.
Open Scope nat_scope.

Section Inv.
  Variable K : nat.
  Variable vis : key -> bool.
  Variable tlimit : nat.

  Notation Pend := (Pend vis).
  Notation Sync := (Sync vis).
  Notation Invis := (Invis vis).
  Notation vis_entries := (vis_entries vis).
  Notation vis_pubs := (vis_pubs vis).

  (* ---------------------------------------------------------- apply_entries *)
  Lemma apply_entries_other : forall l m k,
    (forall e, In e l -> ekey e <> k) -> apply_entries m l k = m k.
  Proof.
    induction l as [|e t IH]; intros m k H; [reflexivity|].
    cbn [apply_entries fold_left]. change (apply_entries (cset m (fst (fst e)) (Some (snd e))) t k = m k).
    rewrite IH by (intros e' He'; apply H; right; auto).
    unfold cset. destruct (Nat.eqb k (fst (fst e))) eqn:E; auto.
    apply Nat.eqb_eq in E. exfalso. apply (H e (or_introl eq_refl)). unfold ekey. auto.
  Qed.

  Lemma apply_entries_some : forall l m k v,
    (forall e, In e l -> ekey e = k -> snd e = v) ->
    (exists e, In e l /\ ekey e = k) ->
    apply_entries m l k = Some v.
  Proof.
    induction l as [|e t IH]; intros m k v Hv [e0 [Hin Hk]]; [destruct Hin|].
    cbn [apply_entries fold_left]. change (apply_entries (cset m (fst (fst e)) (Some (snd e))) t k = Some v).
    destruct (existsb (fun e' => Nat.eqb (ekey e') k) t) eqn:Ex.
    - apply existsb_exists in Ex. destruct Ex as [e1 [H1 H2]]. apply Nat.eqb_eq in H2.
      apply IH; [intros e' He' Hk'; apply Hv; [right; auto|auto]|]. exists e1; auto.
    - rewrite apply_entries_other.
      + destruct Hin as [->|Hin].
        * unfold cset. unfold ekey in Hk. rewrite Hk, Nat.eqb_refl. f_equal. apply Hv; [left; auto|exact Hk].
        * exfalso. assert (existsb (fun e' => Nat.eqb (ekey e') k) t = true).
          { apply existsb_exists. exists e0. split; auto. apply Nat.eqb_eq; auto. }
          congruence.
      + intros e' He' Hk'. assert (existsb (fun e' => Nat.eqb (ekey e') k) t = true).
        { apply existsb_exists. exists e'. split; auto. apply Nat.eqb_eq; auto. }
        congruence.
  Qed.

  (* ---------------------------------------------------------- state pages *)
  (* keys below [cb] are covered by the pages read so far *)
  Definition PendUpTo (b : broker) (m : key -> option val) (F cb : nat) : Prop :=
    forall k, (vis k = false -> m k = None) /\
              (vis k = true -> (k < cb -> m k = vof (state_at b F) k \/ pending b F k) /\
                               (cb <= k -> m k = None)).

  Definition keys_lt (b : broker) : Prop := forall c, In c (b_log b) -> ck c < K.

  Lemma state_key_lt : forall b q k e, keys_lt b -> q <= top b -> state_at b q k = Some e -> k < K.
  Proof.
    intros b q k [o v] HK Hq H. destruct (state_at_entry b q k o v Hq H) as [Ho [Hn _]].
    apply nth_error_In in Hn. apply HK in Hn. exact Hn.
  Qed.

  Lemma page_step : forall b m F cb page next limit cursor,
    1 <= limit -> F <= top b -> keys_lt b ->
    cb = match cursor with Some c => S c | None => 0 end ->
    read_state K b cursor limit = (page, next) ->
    PendUpTo b m F cb ->
    let m' := apply_entries m (vis_entries (filter (fun e => Nat.leb (snd (fst e)) F) page)) in
    match next with
    | Some c => PendUpTo b m' F (S c)
    | None => Pend b m' F
    end.
  Proof.
    intros b m F cb page next limit cursor Hl HF HK Hcb Hr HP m'.
    pose proof (read_state_spec K b cursor limit page next Hl Hr) as S0. cbv zeta in S0.
    destruct S0 as [S1 [S2 S3]]. subst cb.
    set (cb := match cursor with Some c => S c | None => 0 end) in *.
    set (hi := match next with Some c => S c | None => K end) in *.
    (* pointwise description of m' *)
    assert (Hm' : forall k, vis k = true ->
                  (cb <= k < hi -> forall o v, state b k = Some (o, v) -> o <= F -> m' k = Some v) /\
                  (cb <= k < hi -> (state b k = None \/ exists o v, state b k = Some (o, v) /\ F < o) -> m' k = m k) /\
                  (~ (cb <= k < hi) -> m' k = m k)).
    { intros k Hv. split; [|split].
      - intros Hk o v Hs Ho. unfold m'. apply apply_entries_some.
        + intros e He Hke. unfold MapSub.vis_entries in He. apply filter_In in He. destruct He as [He _].
          apply filter_In in He. destruct He as [He _]. destruct e as [[k' o'] v']. unfold ekey in Hke; cbn in Hke. subst k'.
          destruct (S1 _ _ _ He) as [_ [_ Hs']]. rewrite Hs in Hs'. inversion Hs'; reflexivity.
        + exists (k, o, v). split; [|reflexivity]. unfold MapSub.vis_entries. apply filter_In. split; [|cbn; exact Hv].
          apply filter_In. split; [|cbn; apply Nat.leb_le; exact Ho].
          apply S2; auto. apply (state_key_lt b (top b) k (o, v) HK (le_n _)). exact Hs.
      - intros Hk Hs. unfold m'. apply apply_entries_other. intros e He Hke.
        unfold MapSub.vis_entries in He. apply filter_In in He. destruct He as [He _].
        apply filter_In in He. destruct He as [He Hle]. destruct e as [[k' o'] v']. unfold ekey in Hke; cbn in Hke, Hle. subst k'.
        apply Nat.leb_le in Hle. destruct (S1 _ _ _ He) as [_ [_ Hs']].
        destruct Hs as [Hs|[o [v [Hs Ho]]]]; rewrite Hs in Hs'; [discriminate|]. inversion Hs'; subst. lia.
      - intros Hk. unfold m'. apply apply_entries_other. intros e He Hke.
        unfold MapSub.vis_entries in He. apply filter_In in He. destruct He as [He _].
        apply filter_In in He. destruct He as [He _]. destruct e as [[k' o'] v']. unfold ekey in Hke; cbn in Hke. subst k'.
        destruct (S1 _ _ _ He) as [A _]. apply Hk. exact A. }
    (* invisible keys never enter the map *)
    assert (Hinv : forall k, vis k = false -> m' k = None).
    { intros k Hv. destruct (HP k) as [HI _]. unfold m'. rewrite apply_entries_other; [auto|].
      intros e He Hke. unfold MapSub.vis_entries in He. apply filter_In in He. destruct He as [_ He].
      unfold ekey in Hke. rewrite Hke in He. congruence. }
    (* a covered key of this page agrees with the state at F or has a pending change *)
    assert (Hcov : forall k, vis k = true -> cb <= k < hi -> m' k = vof (state_at b F) k \/ pending b F k).
    { intros k Hv Hk. destruct (Hm' k Hv) as [M1 [M2 _]]. destruct (HP k) as [_ HV].
      destruct (HV Hv) as [_ Hnone]. specialize (Hnone ltac:(lia)).
      destruct (state b k) as [[o v]|] eqn:Es.
      - destruct (le_lt_dec o F) as [Ho|Ho].
        + left. rewrite (M1 Hk o v eq_refl Ho).
          (* the entry is older than F: it is the state at F *)
          unfold state in Es. destruct (state_at_entry b (top b) k o v (le_n _) Es) as [Ho1 [Hn Hno]].
          destruct (smap_val_dec (state_at b F k) (state_at b (top b) k)) as [E|N].
          * unfold vof. rewrite E, Es. reflexivity.
          * exfalso. destruct (state_at_diff b (top b) F k HF (le_n _) N) as [o' [c [Ho' [Hn' Hk']]]].
            apply (Hno o' c); [lia|exact Hn'|exact Hk'].
        + right. exists o. unfold state in Es.
          destruct (state_at_entry b (top b) k o v (le_n _) Es) as [Ho1 [Hn _]].
          split; [lia|]. unfold chg. rewrite (nth_error_nth _ _ _ Hn). reflexivity.
      - rewrite (M2 Hk (or_introl eq_refl)), Hnone.
        destruct (state_at b F k) as [e|] eqn:EF; [|left; unfold vof; rewrite EF; reflexivity].
        right. assert (N : state_at b F k <> state_at b (top b) k) by (unfold state in Es; rewrite EF, Es; discriminate).
        destruct (state_at_diff b (top b) F k HF (le_n _) N) as [o' [c [Ho' [Hn' Hk']]]].
        exists o'. split; [lia|]. unfold chg. rewrite (nth_error_nth _ _ _ Hn'). exact Hk'. }
    destruct next as [c|].
    - intros k. split; [apply Hinv|]. intros Hv. destruct (HP k) as [_ HV]. destruct (HV Hv) as [Hlow Hhigh].
      destruct (Hm' k Hv) as [_ [_ M3]]. split.
      + intros Hk. destruct (le_lt_dec cb k) as [Hge|Hlt].
        * apply Hcov; auto; subst hi; lia.
        * rewrite M3 by lia. apply Hlow. exact Hlt.
      + intros Hk. rewrite M3 by (subst hi; lia). apply Hhigh. specialize (S3 c eq_refl). destruct S3 as [S3a S3b]. apply (Nat.le_trans _ c); [exact S3a|lia].
    - intros k. split; [apply Hinv|]. intros Hv. destruct (HP k) as [_ HV]. destruct (HV Hv) as [Hlow Hhigh].
      destruct (Hm' k Hv) as [_ [_ M3]].
      destruct (le_lt_dec cb k) as [Hge|Hlt].
      + destruct (le_lt_dec K k) as [HKk|HKk].
        * (* keys >= K never exist *)
          rewrite M3 by (subst hi; lia). rewrite (Hhigh Hge). left.
          destruct (state_at b F k) as [e|] eqn:EF; [|unfold vof; rewrite EF; reflexivity].
          exfalso. pose proof (state_key_lt b F k e HK HF EF). lia.
        * apply Hcov; auto; subst hi; lia.
      + rewrite M3 by lia. apply Hlow. exact Hlt.
  Qed.
End Inv.
