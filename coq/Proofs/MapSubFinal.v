(* C22: final statements. *)
From Coq Require Import List Arith Bool NArith Lia.
From Cfg Require Import Model.Merge Model.MapSub Proofs.MapSubLib Proofs.MapSub Proofs.MapSubPages Proofs.MapSubInv.
Import ListNotations.
Close Scope N_scope.
Open Scope nat_scope.

Definition converged (vis : key -> bool) (y : sys) : Prop :=
  forall k, c_map (y_c y) k = if vis k then vof (state (y_b y)) k else None.

(* convergence with the corrected trim detection: every schedule *)
Lemma converge_fixed : forall K vis tlimit size limit evs,
  1 <= limit -> Forall (evok K) evs ->
  let y := run true K vis tlimit (init size limit) evs in
  quiescent y -> converged vis y.
Proof.
  intros K vis tlimit size limit evs Hl Hev y Hq k.
  apply (know_converged K vis y); [|exact Hq].
  apply know_run; auto. apply know_init; auto.
Qed.

(* a position check leaves a live subscription only when it is at the broker's top *)
Lemma check_quiesces : forall fx K vis tlimit y,
  l_sub (y_l (step fx K vis tlimit y EvCheck)) = true -> quiescent (step fx K vis tlimit y EvCheck).
Proof.
  intros fx K vis tlimit [b s l c]. unfold step, step_out; cbn [y_b y_c y_l y_s].
  destruct (l_sub l) eqn:El; cbn [andb].
  - destruct (check_position b l) eqn:Ec; cbn [negb fst y_l l_sub].
    + intros _. split; cbn; auto.
    + discriminate.
  - cbn [fst y_l]. congruence.
Qed.

(* a lost PUB/SUB delivery does not stay unnoticed: when the writer op really added a change (the top
   moved) and its delivery to a quiescent live subscription is lost, the position no longer matches
   and the next position check ends the subscription ... *)
Lemma lost_delivery_detected : forall fx K vis tlimit y w,
  quiescent y -> top (apply_w (y_b y) w) = S (top (y_b y)) ->
  let y1 := step fx K vis tlimit y (EvLose w) in
  check_position (y_b y1) (y_l y1) = false /\
  l_sub (y_l (step fx K vis tlimit y1 EvCheck)) = false.
Proof.
  intros fx K vis tlimit [b s l c] w [Hl Hc] Ht. cbn [y_b y_l] in *.
  unfold step, step_out; cbn [y_b y_c y_l y_s fst].
  unfold check_position in Hc. apply andb_prop in Hc. destruct Hc as [_ Hp]. apply Nat.eqb_eq in Hp.
  assert (Hf : check_position (apply_w b w) l = false).
  { unfold check_position. apply andb_false_iff. right. apply Nat.eqb_neq. lia. }
  split; [exact Hf|]. rewrite Hl, Hf. reflexivity.
Qed.

(* ... and so does the next publication that IS delivered: an offset gap is insufficient state *)
Lemma gap_push_insufficient : forall vis l e p,
  l_sub l = true -> l_epoch l = e -> S (l_pos l) < fst p ->
  push vis l e p = (mkL false 0 0, None, true).
Proof.
  intros vis l e p Hl He Hg. unfold push. rewrite Hl. cbn [negb]. rewrite <- He, Nat.eqb_refl. cbn [negb].
  apply Nat.ltb_lt in Hg. rewrite Hg. reflexivity.
Qed.

(* a reply saying "recovered" carries every visible change after the client's position *)
Lemma recovered_sound : forall K vis tlimit y g0 g1 g2 y' es pubs off ep,
  Know K vis y -> Forall (wok K) g0 -> Forall (wok K) g1 -> Forall (wok K) g2 ->
  step_out true K vis tlimit y (EvReq g0 g1 g2) = (y', OReply (PLive es pubs off ep true)) ->
  c_ep (y_c y) = Some ep /\
  (ep = b_epoch (y_b y') ->
     off = top (y_b y') /\ pubs = vis_pubs vis (changes (y_b y') (c_off (y_c y)) off)).
Proof.
  intros K vis tlimit [b s l c] g0 g1 g2 y' es pubs off ep HK H0 H1 H2 H.
  unfold step_out in H. cbn [y_b y_c y_l y_s] in H.
  destruct (next_request c) as [r|] eqn:Er; [|discriminate].
  destruct (handle true K vis tlimit b s r g0 g1 g2) as [[[b' s'] l'] rep] eqn:Eh.
  inversion H; subst y' rep; clear H. cbn [y_b y_c].
  pose proof (know_base K vis _ _ _ _ HK) as [HWF [HKL [Hlim [Hep Hcm]]]].
  (* only a recovery join sets the flag *)
  assert (Hflag : forall bt since sep isrec entries b1 s1 l1 es' pubs' off' ep',
            transition true vis tlimit bt since sep isrec false entries g1 g2 = (b1, s1, l1, PLive es' pubs' off' ep' true) -> False).
  { intros bt since sep isrec entries b1 s1 l1 es' pubs' off' ep' Ht. unfold transition in Ht.
    destruct (node_read_stream _ _ _ _ _); [discriminate|].
    destruct (_ && _); [discriminate|]. destruct (Nat.ltb _ _); [discriminate|].
    destruct (merge _ _) as [[o1 m1] ok1]. destruct (negb ok1); inversion Ht. }
  unfold next_request in Er.
  assert (HKc := HK). destruct HKc as [_ [_ [_ [_ [_ [_ Hp]]]]]]. cbn [y_b y_c y_l y_s] in Hp.
  destruct (c_phase c) as [|cur| | |e] eqn:Eph.
  - inversion Er; subst r. exfalso. unfold handle in Eh. cbn [s_has negb Nat.eqb orb andb] in Eh.
    destruct (read_state K b None (c_limit c)) as [page next]. cbn [s_cap andb] in Eh.
    destruct next; [discriminate|]. destruct (Nat.leb _ _); [eapply Hflag; eauto|discriminate].
  - inversion Er; subst r. exfalso. unfold handle in Eh.
    destruct (negb (s_has s)); [discriminate|]. destruct (_ && _); [discriminate|].
    destruct (read_state K b (Some cur) (c_limit c)) as [page next].
    destruct next; [discriminate|]. destruct (Nat.leb _ _); [eapply Hflag; eauto|discriminate].
  - inversion Er; subst r. exfalso. unfold handle in Eh.
    destruct (negb (s_has s)); [discriminate|].
    match type of Eh with (if ?cnd then _ else _) = _ => destruct cnd end; [discriminate|].
    match type of Eh with (if ?cnd then _ else _) = _ => destruct cnd end; [eapply Hflag; eauto|].
    destruct (node_read_stream _ _ _ _ _); discriminate.
  - discriminate.
  - destruct e; inversion Er; subst r.
    + exfalso. unfold handle in Eh. cbn [s_has negb Nat.eqb orb andb] in Eh.
      destruct (read_state K b None (c_limit c)) as [page next]. cbn [s_cap andb] in Eh.
      destruct next; [discriminate|]. destruct (Nat.leb _ _); [eapply Hflag; eauto|discriminate].
    + (* the recovery join *)
      destruct Hp as [Hne Hp]. unfold handle in Eh.
      destruct (c_ep c) as [x|] eqn:Ecep; [|congruence].
      match type of Eh with (if ?cnd then _ else _) = _ => destruct cnd end; [discriminate|].
      assert (Hxle : x <= b_epoch b) by (apply Hep; reflexivity).
      assert (HPx : x = b_epoch b -> c_off c <= top b /\ Pend vis b (c_map c) (c_off c)) by (intros E; apply Hp; congruence).
      assert (Hl : l_sub l = false).
      { destruct (l_sub l) eqn:El; auto. destruct HK as [_ [_ [_ [_ [_ [Hlive _]]]]]]. cbn in Hlive.
        rewrite (Hlive El) in Eph. discriminate. }
      assert (Eepx : ep = x).
      { destruct (transition_spec vis tlimit b (c_off c) x true true [] g1 g2 b' s' l' _ HWF
                    ltac:(intros E; apply HPx; exact E) Eh) as [_ [_ [[er [Her _]]|[p1 [l1 [Hr _]]]]]]; [discriminate|].
        inversion Hr; reflexivity. }
      subst ep. split; [reflexivity|].
      assert (Ees : es = []).
      { destruct (transition_spec vis tlimit b (c_off c) x true true [] g1 g2 b' s' l' _ HWF
                    ltac:(intros E; apply HPx; exact E) Eh) as [_ [_ [[er [Her _]]|[p1 [l1 [Hr _]]]]]]; [discriminate|].
        inversion Hr; reflexivity. }
      subst es.
      destruct (live_know K vis tlimit b (c_off c) x true true [] g1 g2 b' s' l' pubs off (c_map c) (c_limit c) []
                  HWF HKL H1 H2 Hlim Hxle HPx Hcm Eh) as [_ Hclaim].
      intros E. destruct (Hclaim E) as [A B]. split; [exact A|]. rewrite B, A. reflexivity.
    + exfalso. unfold handle in Eh. cbn [s_has negb Nat.eqb orb andb] in Eh.
      destruct (read_state K b None (c_limit c)) as [page next]. cbn [s_cap andb] in Eh.
      destruct next; [discriminate|]. destruct (Nat.leb _ _); [eapply Hflag; eauto|discriminate].
Qed.

(* ------------------------------------------------------------ the code before the fix *)
Definition all_vis : key -> bool := fun _ => true.

(* saved position 0 (subscribed to the empty channel), the beginning of the stream trimmed meanwhile *)
Definition w_trim0 : list sev :=
  [EvReq [] [] []; EvDrop; EvW (WPub 0 1%N); EvW (WPub 1 2%N); EvW (WPub 2 3%N); EvW (WPub 3 4%N);
   EvReq [] [] []; EvCheck].

(* the retained stream expired while the client was away *)
Definition w_expired : list sev :=
  [EvW (WPub 0 1%N); EvReq [] [] []; EvDrop; EvW (WPub 1 2%N); EvW (WPub 0 3%N); EvW WExpireStream;
   EvReq [] [] []; EvCheck].

Definition qb (y : sys) : bool := l_sub (y_l y) && check_position (y_b y) (y_l y).

Lemma refute_trim0 :
  let y := run false 6 all_vis 1000 (init 2 3) w_trim0 in
  qb y = true /\ c_recovered (y_c y) = [false; true] /\
  c_map (y_c y) 0 = None /\ vof (state (y_b y)) 0 = Some 1%N.
Proof. vm_compute. repeat split; reflexivity. Qed.

Lemma refute_expired :
  let y := run false 6 all_vis 1000 (init 100 3) w_expired in
  qb y = true /\ c_recovered (y_c y) = [false; true] /\
  c_map (y_c y) 0 = Some 1%N /\ vof (state (y_b y)) 0 = Some 3%N /\
  c_map (y_c y) 1 = None /\ vof (state (y_b y)) 1 = Some 2%N.
Proof. vm_compute. repeat split; reflexivity. Qed.

(* with the fix the same schedules end with the client told *)
Lemma fixed_trim0 : qb (run true 6 all_vis 1000 (init 2 3) w_trim0) = false.
Proof. vm_compute. reflexivity. Qed.
Lemma fixed_expired : qb (run true 6 all_vis 1000 (init 100 3) w_expired) = false.
Proof. vm_compute. reflexivity. Qed.

Lemma w_ok : Forall (evok 6) w_trim0 /\ Forall (evok 6) w_expired.
Proof. split; repeat constructor; cbn; lia. Qed.
