(* Proofs for C14: every delivered push reconstructs the published payload on the
   reference client, for all schedules of the modelled channels. *)
From Coq Require Import List Bool Arith Lia.
From Cfg Require Import Model.Delta.
Import ListNotations.

Section DeltaProofs.
  Variable bytes : Type.
  Variable blen : bytes -> nat.
  Variable create : bytes -> bytes -> bytes.
  Variable apply : bytes -> bytes -> option bytes.
  Variable esc unesc : bytes -> bytes.
  Variable json : bool.
  (* library contracts *)
  Hypothesis apply_create : forall b t, apply b (create b t) = Some t.
  Hypothesis unesc_esc : forall x, unesc (esc x) = x.

  Notation wire := (wire bytes).
  Notation event := (event bytes).
  Notation get_delta_pub := (get_delta_pub bytes blen create esc json).
  Notation full_pub := (full_pub bytes esc json).
  Notation client_step := (client_step bytes apply unesc json).
  Notation client_feed := (client_feed bytes apply unesc json).
  Notation event_result := (event_result bytes apply unesc json).
  Notation make_recovered := (make_recovered bytes blen create esc json).
  Notation recovered_chain := (recovered_chain bytes blen create esc json).
  Notation enc := (enc bytes esc json).
  Notation dec := (dec bytes unesc json).

  Lemma nil_dec : forall (A : Type) (l : list A), {l = []} + {l <> []}.
  Proof. intros A [|x t]; [left; reflexivity | right; discriminate]. Qed.

  Lemma last_cons_default : forall (A : Type) (t : list A) (d prev : A), last (d :: t) prev = last t d.
  Proof.
    intros A t. induction t as [|x t IH]; intros d prev; [reflexivity|].
    change (last (d :: x :: t) prev) with (last (x :: t) prev).
    rewrite (IH x prev). rewrite (IH x d). reflexivity.
  Qed.

  Definition good (e : event) : Prop := event_result e = Some (e_expect bytes e).

  Lemma dec_enc : forall d, dec (enc d) = d.
  Proof. intros d; unfold Delta.dec, Delta.enc; destruct json; auto. Qed.

  (* a delta (or its full fallback) computed against the payload the client holds *)
  Lemma step_delta_same_base : forall b t, client_step (Some b) (get_delta_pub (Some b) t) = Some t.
  Proof.
    intros b t. unfold Delta.get_delta_pub, Delta.client_step.
    destruct (Nat.leb (blen t) (blen (create b t))); cbn; rewrite dec_enc; auto.
  Qed.

  Lemma step_full : forall h t, client_step h (full_pub t) = Some t.
  Proof. intros h t. unfold Delta.full_pub, Delta.client_step; cbn. rewrite dec_enc; auto. Qed.

  Lemma step_delta_no_base : forall h t, client_step h (get_delta_pub None t) = Some t.
  Proof. intros h t. apply step_full. Qed.

  (* ------------------------------------------------------ recovered chain *)
  Lemma client_feed_events : forall l h hf ev,
    client_feed h l = (hf, ev) -> length ev = length l.
  Proof.
    induction l as [|[w x] t IH]; cbn; intros h hf ev H.
    - inversion H; reflexivity.
    - destruct (client_feed (client_step h w) t) as [hf' ev'] eqn:E.
      inversion H; subst. cbn. f_equal. eapply IH; eauto.
  Qed.

  Lemma chain_good : forall l prev hf ev,
    client_feed (Some prev) (combine (recovered_chain prev l) l) = (hf, ev) ->
    Forall good ev /\ hf = Some (last l prev).
  Proof.
    induction l as [|d t IH]; intros prev hf ev H.
    - cbn in H. inversion H; subst. split; [constructor | reflexivity].
    - cbn [Delta.recovered_chain combine Delta.client_feed] in H.
      rewrite step_delta_same_base in H.
      destruct (client_feed (Some d) (combine (recovered_chain d t) t)) as [hf' ev'] eqn:E.
      inversion H; subst. destruct (IH d _ _ E) as [G L].
      split.
      + constructor; [|exact G]. unfold good, Delta.event_result; cbn [e_held e_wire e_expect]. apply step_delta_same_base.
      + rewrite L. symmetry. f_equal. apply last_cons_default.
  Qed.

  Lemma recovered_good : forall l h hf ev,
    client_feed h (combine (make_recovered l) l) = (hf, ev) ->
    Forall good ev /\ hf = match l with [] => h | d :: t => Some (last t d) end.
  Proof.
    intros [|d t] h hf ev H.
    - cbn in H. inversion H; subst. split; [constructor | reflexivity].
    - cbn [Delta.make_recovered combine Delta.client_feed] in H.
      rewrite step_full in H.
      destruct (client_feed (Some d) (combine (recovered_chain d t) t)) as [hf' ev'] eqn:E.
      inversion H; subst. destruct (chain_good _ _ _ _ E) as [G L].
      split; [|exact L].
      constructor; [|exact G]. unfold good, Delta.event_result; cbn [e_held e_wire e_expect]. apply step_full.
  Qed.

  (* ------------------------------------------------------ positioned stream *)
  Notation spub := (spub bytes).
  Notation pst := (pst bytes).
  Notation p_step := (p_step bytes blen create apply esc unesc json).
  Notation p_run := (p_run bytes blen create apply esc unesc json).
  Notation p_deliver := (p_deliver bytes blen create apply esc unesc json).
  Notation p_subscribe := (p_subscribe bytes blen create apply esc unesc json).
  Notation nth_pub := (nth_pub bytes).

  Definition data_at (s : list spub) (off : nat) : option bytes := option_map (sd bytes) (nth_pub s off).

  Definition PInv (st : pst) : Prop :=
    p_cpos bytes st <= length (p_stream bytes st) /\
    p_pos bytes st <= length (p_stream bytes st) /\
    (p_sub bytes st = true -> p_allowed bytes st = true ->
       p_pos bytes st = 0 \/ p_held bytes st = data_at (p_stream bytes st) (p_pos bytes st)).

  (* the side conditions under which the code AS FOUND (fx = false) is correct *)
  Definition legal_act (st : pst) (a : pact bytes) : Prop :=
    match a with
    | PPub _ p _ => svis bytes p = true
    | PSubscribe _ true _ =>
        p_cpos bytes st = 0 \/ p_held bytes st = data_at (p_stream bytes st) (p_cpos bytes st)
    | _ => True
    end.

  Definition step_ok (fx : bool) (st : pst) (a : pact bytes) : Prop := fx = true \/ legal_act st a.

  (* all publications in the stream are visible (needed only for fx = false) *)
  Definition all_vis (st : pst) : Prop := Forall (fun p => svis bytes p = true) (p_stream bytes st).

  Lemma nth_pub_app_old : forall (s : list spub) p off, off <= length s -> nth_pub (s ++ [p]) off = nth_pub s off.
  Proof.
    intros s p [|i] H; cbn; auto. apply nth_error_app1. lia.
  Qed.

  Lemma nth_pub_app_new : forall (s : list spub) p, nth_pub (s ++ [p]) (S (length s)) = Some p.
  Proof. intros s p; cbn. rewrite nth_error_app2 by lia. rewrite Nat.sub_diag. reflexivity. Qed.

  Lemma data_at_app_old : forall s p off, off <= length s -> data_at (s ++ [p]) off = data_at s off.
  Proof. intros; unfold data_at; rewrite nth_pub_app_old; auto. Qed.

  Lemma nth_pub_none_zero : forall s : list spub, nth_pub s 0 = None.
  Proof. reflexivity. Qed.

  Lemma nth_pub_some_le : forall (s : list spub) off p, nth_pub s off = Some p -> 1 <= off <= length s.
  Proof.
    intros s [|i] p H; cbn in H; [discriminate|].
    assert (i < length s) by (apply nth_error_Some; congruence). lia.
  Qed.

  (* delivery of offset [off] preserves the invariant and is reconstructed *)
  Lemma p_deliver_ok : forall st off st' ev,
    PInv st -> p_deliver st off = (st', ev) ->
    PInv st' /\ Forall good ev /\ p_stream bytes st' = p_stream bytes st.
  Proof.
    intros st off st' ev [Hc [Hp Hh]] H. unfold Delta.p_deliver in H.
    destruct (p_sub bytes st) eqn:Esub; cbn [negb] in H.
    2:{ inversion H; subst. repeat split; auto; try (intros E; rewrite Esub in E; discriminate). }
    destruct (nth_pub (p_stream bytes st) off) as [pub|] eqn:En.
    2:{ inversion H; subst. repeat split; auto. }
    destruct (Nat.ltb (S (p_pos bytes st)) off) eqn:E1.
    { inversion H; subst; cbn. repeat split; cbn; auto; try (intros; discriminate). }
    destruct (Nat.ltb off (S (p_pos bytes st))) eqn:E2.
    { inversion H; subst. repeat split; auto. }
    apply Nat.ltb_ge in E1, E2. assert (Eo : off = S (p_pos bytes st)) by lia.
    destruct (nth_pub_some_le _ _ _ En) as [Ho1 Ho2].
    (* the wire is reconstructed to the payload *)
    assert (G : client_step (p_held bytes st)
                  (if p_allowed bytes st
                   then get_delta_pub (if sud bytes pub then option_map (sd bytes) (nth_pub (p_stream bytes st) (off - 1)) else None) (sd bytes pub)
                   else full_pub (sd bytes pub)) = Some (sd bytes pub)).
    { destruct (p_allowed bytes st) eqn:Ea; [|apply step_full].
      destruct (sud bytes pub); [|apply step_delta_no_base].
      replace (off - 1) with (p_pos bytes st) by lia.
      destruct (Hh eq_refl eq_refl) as [Hz|Hd].
      - rewrite Hz. cbn [Delta.nth_pub option_map]. apply step_delta_no_base.
      - fold (data_at (p_stream bytes st) (p_pos bytes st)). rewrite <- Hd.
        destruct (p_held bytes st) as [b|]; [apply step_delta_same_base | apply step_delta_no_base]. }
    inversion H; subst st' ev; clear H.
    split; [|split].
    - unfold PInv; cbn. split; [lia|]. split; [lia|].
      intros _ _. right. rewrite G. unfold data_at. rewrite En. reflexivity.
    - constructor; [|constructor]. unfold good, Delta.event_result; cbn [e_held e_wire e_expect]. exact G.
    - reflexivity.
  Qed.

  (* offsets attached by with_offsets *)
  Lemma with_offsets_spec : forall (l : list spub) from o p,
    In (o, p) (with_offsets bytes from l) -> from < o <= from + length l /\ nth_error l (o - from - 1) = Some p.
  Proof.
    induction l as [|q t IH]; cbn; intros from o p H; [destruct H|].
    destruct H as [H|H].
    - inversion H; subst. split; [lia|]. replace (S from - from - 1) with 0 by lia. reflexivity.
    - destruct (IH _ _ _ H) as [A B]. split; [lia|].
      replace (o - from - 1) with (S (o - S from - 1)) by lia. exact B.
  Qed.

  Lemma nth_error_skipn' : forall (A : Type) n (l : list A) i, nth_error (skipn n l) i = nth_error l (n + i).
  Proof.
    intros A n. induction n as [|n IH]; intros l i; [reflexivity|].
    destruct l as [|x t]; cbn; [destruct i; reflexivity | apply IH].
  Qed.

  Lemma hist_spec : forall (s : list spub) cmd o p, cmd <= length s ->
    In (o, p) (with_offsets bytes cmd (skipn cmd s)) -> cmd < o <= length s /\ nth_pub s o = Some p.
  Proof.
    intros s cmd o p Hc H. destruct (with_offsets_spec _ _ _ _ H) as [A B].
    rewrite skipn_length in A. split; [lia|].
    destruct o as [|i]; [lia|]. cbn.
    rewrite nth_error_skipn' in B. rewrite <- B. f_equal. lia.
  Qed.

  Lemma last_off_snoc : forall d (l : list (nat * spub)) o p, last_off bytes d (l ++ [(o, p)]) = o.
  Proof. intros. unfold Delta.last_off. rewrite rev_app_distr. reflexivity. Qed.

  Lemma last_off_nil : forall d, last_off bytes d [] = d.
  Proof. reflexivity. Qed.

  Lemma some_last_snoc : forall (A : Type) (m : list A) (y : A) (h : option A),
    match m ++ [y] with [] => h | d :: t => Some (last t d) end = Some y.
  Proof.
    intros A [|d m] y h; cbn; [reflexivity|]. f_equal. apply last_last.
  Qed.

  Lemma all_vis_filter : forall (l : list (nat * spub)),
    Forall (fun op => svis bytes (snd op) = true) l -> filter (fun op => svis bytes (snd op)) l = l.
  Proof.
    induction l as [|x t IH]; cbn; intros H; auto. inversion H; subst. rewrite H2. f_equal; auto.
  Qed.

  Lemma with_offsets_snoc : forall (l : list spub) from p,
    with_offsets bytes from (l ++ [p]) = with_offsets bytes from l ++ [(S (from + length l), p)].
  Proof.
    induction l as [|q t IH]; intros from p; cbn.
    - rewrite Nat.add_0_r. reflexivity.
    - rewrite IH. cbn. repeat f_equal. lia.
  Qed.

  (* (re)subscribe *)
  Lemma p_subscribe_ok : forall fx st recover avail st' ev,
    PInv st -> (fx = true \/ (all_vis st /\ legal_act st (PSubscribe bytes recover avail))) ->
    p_subscribe fx st recover avail = (st', ev) ->
    PInv st' /\ Forall good ev /\ p_stream bytes st' = p_stream bytes st.
  Proof.
    intros fx st recover avail st' ev [Hc [Hp Hh]] Hok H. unfold Delta.p_subscribe in H.
    destruct (p_sub bytes st) eqn:Esub.
    { inversion H; subst. repeat split; auto. }
    destruct (recover && avail) eqn:Era.
    - apply andb_prop in Era. destruct Era as [Er Ea]. subst recover.
      set (s := p_stream bytes st) in *. set (cmd := p_cpos bytes st) in *.
      set (hist := with_offsets bytes cmd (skipn cmd s)) in *.
      set (vis := filter (fun op => svis bytes (snd op)) hist) in *.
      destruct (client_feed (p_held bytes st)
                  (combine (make_recovered (map (fun op => sd bytes (snd op)) vis))
                           (map (fun op => sd bytes (snd op)) vis))) as [h' ev'] eqn:Ef.
      destruct (recovered_good _ _ _ _ Ef) as [G Hh'].
      inversion H; subst st' ev; clear H. cbn.
      assert (Hvis_in : forall o p, In (o, p) vis -> cmd < o <= length s /\ nth_pub s o = Some p).
      { intros o p Hin. unfold vis in Hin. apply filter_In in Hin. destruct Hin as [Hin _].
        eapply hist_spec; eauto. }
      assert (Hbase : last_off bytes cmd vis <= length s).
      { destruct (nil_dec _ vis) as [E|E].
        - rewrite E. cbn. exact Hc.
        - destruct (exists_last E) as [l' [[o p] El]]. rewrite El. rewrite last_off_snoc.
          assert (In (o, p) vis) by (rewrite El; apply in_or_app; right; left; reflexivity).
          destruct (Hvis_in _ _ H) as [A _]. lia. }
      repeat split; cbn; auto.
      intros _ Hal.
      destruct (nil_dec _ vis) as [E|E].
      + (* nothing recovered *)
        rewrite E in *. cbn in Hal, Hh'. subst h'.
        destruct fx; [discriminate|].
        destruct Hok as [Hfx|[Hav Hl]]; [discriminate|]. cbn in Hl.
        (* all visible and vis = [] means hist = [] , i.e. cmd = top *)
        assert (Hhist : hist = []).
        { unfold vis in E. rewrite all_vis_filter in E; auto.
          apply Forall_forall. intros [o p] Hin. cbn.
          destruct (hist_spec _ _ _ _ Hc Hin) as [_ Hn]. unfold all_vis in Hav. fold s in Hav.
          rewrite Forall_forall in Hav. apply Hav.
          destruct o; [discriminate|]. cbn in Hn. eapply nth_error_In; eauto. }
        assert (Hlen : length s <= cmd).
        { unfold hist in Hhist. destruct (skipn cmd s) eqn:Es; [|discriminate].
          assert (length (skipn cmd s) = 0) by (rewrite Es; reflexivity).
          rewrite skipn_length in H. lia. }
        assert (cmd = length s) by lia.
        destruct Hl as [Hz|Hd]; [left; lia | right; rewrite <- H; exact Hd].
      + destruct (exists_last E) as [l' [[o p] El]].
        assert (Hin : In (o, p) vis) by (rewrite El; apply in_or_app; right; left; reflexivity).
        destruct (Hvis_in _ _ Hin) as [Ho Hn].
        assert (Hh2 : h' = Some (sd bytes p)).
        { rewrite Hh'. rewrite El. rewrite map_app. cbn [map]. apply some_last_snoc. }
        assert (Hbo : last_off bytes cmd vis = o) by (rewrite El; apply last_off_snoc).
        right. rewrite Hh2. unfold data_at.
        assert (Hot : o = length s).
        { destruct fx.
          - rewrite Hbo in Hal. destruct vis; [congruence|]. apply Nat.eqb_eq in Hal. exact Hal.
          - destruct Hok as [Hfx|[Hav _]]; [discriminate|].
            (* all visible: vis = hist, whose last offset is top *)
            assert (Ev : vis = hist).
            { unfold vis. apply all_vis_filter. apply Forall_forall. intros [o' p'] Hin'. cbn.
              destruct (hist_spec _ _ _ _ Hc Hin') as [_ Hn']. unfold all_vis in Hav. fold s in Hav.
              rewrite Forall_forall in Hav. apply Hav.
              destruct o'; [discriminate|]. cbn in Hn'. eapply nth_error_In; eauto. }
            assert (Hne : skipn cmd s <> []).
            { intros Es. unfold hist in Ev. rewrite Es in Ev. cbn in Ev. congruence. }
            destruct (exists_last Hne) as [m [q Em]].
            unfold hist in Ev. rewrite Em in Ev. rewrite with_offsets_snoc in Ev.
            rewrite El in Ev. apply app_inj_tail in Ev. destruct Ev as [_ Ev]. inversion Ev; subst o.
            assert (length (skipn cmd s) = length m + 1) by (rewrite Em; rewrite app_length; reflexivity).
            rewrite skipn_length in H. lia. }
        rewrite Hot in Hn. unfold s in *. cbn [p_stream p_pos]. rewrite Hn. reflexivity.
    - destruct recover.
      + inversion H; subst st' ev; cbn. repeat split; cbn; auto; try (intros; discriminate).
      + inversion H; subst st' ev; cbn. repeat split; cbn; auto; try (intros; discriminate).
  Qed.

  Lemma PInv_extend : forall st p,
    PInv st ->
    PInv (mkPS bytes (p_stream bytes st ++ [p]) (p_sub bytes st) (p_pos bytes st) (p_allowed bytes st)
               (p_held bytes st) (p_cpos bytes st)).
  Proof.
    intros st p [Hc [Hp Hh]]. unfold PInv; cbn. rewrite app_length; cbn.
    split; [lia|]. split; [lia|]. intros A B. destruct (Hh A B) as [Z|D]; [left; exact Z|right].
    rewrite data_at_app_old; auto.
  Qed.

  Lemma p_step_ok : forall fx st a st' ev,
    PInv st -> (fx = true \/ (all_vis st /\ legal_act st a)) ->
    p_step fx st a = (st', ev) ->
    PInv st' /\ Forall good ev /\ (all_vis st -> legal_act st a -> all_vis st').
  Proof.
    intros fx st a st' ev Hinv Hok H. destruct a as [p deliver|k|recover avail|]; cbn in H.
    - pose proof (PInv_extend st p Hinv) as Hx.
      assert (Hav : all_vis st -> legal_act st (PPub bytes p deliver) ->
                    Forall (fun q => svis bytes q = true) (p_stream bytes st ++ [p])).
      { intros A L. apply Forall_app. split; [exact A|]. constructor; [exact L|constructor]. }
      destruct deliver.
      + destruct (p_deliver_ok _ _ _ _ Hx H) as [I [G S]]. split; [exact I|]. split; [exact G|].
        intros A L. unfold all_vis. rewrite S. cbn. apply Hav; assumption.
      + inversion H; subst. split; [exact Hx|]. split; [constructor|]. intros A L. apply Hav; assumption.
    - destruct (p_deliver_ok _ _ _ _ Hinv H) as [I [G S]]. split; [exact I|]. split; [exact G|].
      intros A _. unfold all_vis. rewrite S. exact A.
    - destruct (p_subscribe_ok _ _ _ _ _ _ Hinv Hok H) as [I [G S]]. split; [exact I|]. split; [exact G|].
      intros A _. unfold all_vis. rewrite S. exact A.
    - inversion H; subst. destruct Hinv as [Hc [Hp Hh]].
      split; [|split; [constructor|intros A _; exact A]].
      unfold PInv; cbn. repeat split; auto; try (intros; discriminate).
  Qed.

  Fixpoint legal_run (st : pst) (l : list (pact bytes)) : Prop :=
    match l with
    | [] => True
    | a :: t => legal_act st a /\ legal_run (fst (p_step false st a)) t
    end.

  Lemma PInv_init : PInv (p_init bytes).
  Proof. unfold PInv, Delta.p_init; cbn. repeat split; auto; try (intros; discriminate). Qed.

  (* with the guard (fx = true): every schedule *)
  Lemma p_run_fixed : forall l st, PInv st -> Forall good (snd (p_run true st l)).
  Proof.
    induction l as [|a t IH]; intros st Hinv; cbn; [constructor|].
    destruct (p_step true st a) as [st1 e1] eqn:E1.
    destruct (p_run true st1 t) as [st2 e2] eqn:E2. cbn.
    destruct (p_step_ok true st a st1 e1 Hinv (or_introl eq_refl) E1) as [I [G _]].
    apply Forall_app. split; [exact G|]. specialize (IH st1 I). rewrite E2 in IH. exact IH.
  Qed.

  (* the code as found (fx = false): schedules without filtered publications in
     which the client only asks for recovery while it holds the payload of its position *)
  Lemma p_run_asfound : forall l st, PInv st -> all_vis st -> legal_run st l ->
    Forall good (snd (p_run false st l)).
  Proof.
    induction l as [|a t IH]; intros st Hinv Hav Hl; cbn; [constructor|].
    destruct Hl as [La Lt].
    destruct (p_step false st a) as [st1 e1] eqn:E1.
    destruct (p_run false st1 t) as [st2 e2] eqn:E2. cbn.
    destruct (p_step_ok false st a st1 e1 Hinv (or_intror (conj Hav La)) E1) as [I [G A]].
    apply Forall_app. split; [exact G|]. cbn in Lt.
    specialize (IH st1 I (A Hav La) Lt). rewrite E2 in IH. exact IH.
  Qed.

  (* ------------------------------------------------- unpositioned stream *)
  Notation ust := (ust bytes).
  Notation u_step := (u_step bytes blen create apply esc unesc json).
  Notation u_run := (u_run bytes blen create apply esc unesc json).

  Definition UInv (st : ust) : Prop :=
    u_sub bytes st = true -> u_allowed bytes st = true -> u_keep bytes st = true ->
    forall b, u_latest bytes st = Some b -> u_held bytes st = Some b.

  Lemma u_step_ok : forall st a st' ev,
    UInv st -> u_step st a = (st', ev) -> UInv st' /\ Forall good ev.
  Proof.
    intros st a st' ev Hinv H. destruct a as [d ud deliver| |gone]; cbn in H.
    - destruct deliver; cbn [negb] in H.
      2:{ inversion H; subst. split; [exact Hinv|constructor]. }
      destruct (u_sub bytes st) eqn:Es.
      2:{ inversion H; subst. split; [|constructor]. unfold UInv; cbn. intros E; discriminate. }
      assert (G : client_step (u_held bytes st)
                    (if u_allowed bytes st
                     then get_delta_pub (if u_keep bytes st && ud then u_latest bytes st else None) d
                     else full_pub d) = Some d).
      { destruct (u_allowed bytes st) eqn:Ea; [|apply step_full].
        destruct (u_keep bytes st) eqn:Ek; cbn [andb]; [|apply step_delta_no_base].
        destruct ud; [|apply step_delta_no_base].
        destruct (u_latest bytes st) as [b|] eqn:El; [|apply step_delta_no_base].
        rewrite (Hinv Es Ea Ek b El). apply step_delta_same_base. }
      inversion H; subst st' ev; clear H. split.
      + unfold UInv; cbn. intros _ _ Ek b Eb. rewrite Ek in Eb. inversion Eb; subst. exact G.
      + constructor; [|constructor]. unfold good, Delta.event_result; cbn [e_held e_wire e_expect]. exact G.
    - destruct (u_sub bytes st) eqn:Es.
      + inversion H; subst. split; [exact Hinv|constructor].
      + inversion H; subst. split; [|constructor]. unfold UInv; cbn. intros _ E; discriminate.
    - inversion H; subst. split; [|constructor]. unfold UInv; cbn. intros E; discriminate.
  Qed.

  Lemma u_run_good : forall l st, UInv st -> Forall good (snd (u_run st l)).
  Proof.
    induction l as [|a t IH]; intros st Hinv; cbn; [constructor|].
    destruct (u_step st a) as [st1 e1] eqn:E1.
    destruct (u_run st1 t) as [st2 e2] eqn:E2. cbn.
    destruct (u_step_ok _ _ _ _ Hinv E1) as [I G].
    apply Forall_app. split; [exact G|]. specialize (IH st1 I). rewrite E2 in IH. exact IH.
  Qed.

  Lemma UInv_init : forall keep, UInv (u_init bytes keep).
  Proof. intros keep. unfold UInv, Delta.u_init; cbn. intros E; discriminate. Qed.


  (* ------------------------------------------------------------ map channel *)
  Notation kmap := (kmap bytes).
  Notation kset := (kset bytes).
  Notation mpub := (mpub bytes).
  Notation mst := (mst bytes).
  Notation mevent := (mevent bytes).
  Notation mclient_feed := (mclient_feed bytes apply unesc json).
  Notation mclient_step := (mclient_step bytes apply unesc json).
  Notation make_recovered_map := (make_recovered_map bytes blen create esc json).
  Notation m_step := (m_step bytes blen create apply esc unesc json).
  Notation m_run := (m_run bytes blen create apply esc unesc json).
  Notation replay := (replay bytes).

  Definition mgood (e : mevent) : Prop :=
    mevent_result bytes apply unesc json e = Some (me_expect bytes e).

  Lemma kset_same : forall (m : kmap) k v, kset m k v k = v.
  Proof. intros; unfold Delta.kset. rewrite Nat.eqb_refl. reflexivity. Qed.

  Lemma kset_other : forall (m : kmap) k v k', k' <> k -> kset m k v k' = m k'.
  Proof. intros m k v k' H; unfold Delta.kset. apply Nat.eqb_neq in H. rewrite H. reflexivity. Qed.

  Lemma kset_ext : forall (m1 m2 : kmap) k v, (forall x, m1 x = m2 x) -> forall x, kset m1 k v x = kset m2 k v x.
  Proof. intros m1 m2 k v H x; unfold Delta.kset. destruct (Nat.eqb x k); auto. Qed.

  Lemma replay_ext : forall l (h1 h2 : kmap), (forall k, h1 k = h2 k) -> forall k, replay h1 l k = replay h2 l k.
  Proof.
    induction l as [|p t IH]; intros h1 h2 H k; cbn; auto.
    apply IH. apply kset_ext. exact H.
  Qed.

  Lemma replay_app : forall l1 l2 (h : kmap), replay h (l1 ++ l2) = replay (replay h l1) l2.
  Proof. induction l1 as [|p t IH]; intros l2 h; cbn; auto. Qed.

  (* per-key recovered chain: [prev] only records what the client provably holds *)
  Lemma recovered_map_good : forall log (prev held hf : kmap) ev,
    (forall k b, prev k = Some b -> held k = Some b) ->
    mclient_feed held (combine (make_recovered_map prev log) (map (mdata bytes) log)) = (hf, ev) ->
    Forall mgood ev /\ (forall k, hf k = replay held log k).
  Proof.
    induction log as [|p t IH]; intros prev held hf ev Hrel H.
    - cbn in H. inversion H; subst. split; [constructor|reflexivity].
    - cbn [Delta.make_recovered_map map] in H. destruct (mdata bytes p) as [d|] eqn:Ed.
      + cbn [combine Delta.mclient_feed Delta.mclient_step] in H.
        set (w := match prev (mk bytes p) with
                  | Some b => get_delta_pub (Some b) d
                  | None => full_pub d end) in *.
        assert (G : client_step (held (mk bytes p)) w = Some d).
        { unfold w. destruct (prev (mk bytes p)) as [b|] eqn:Ep.
          - rewrite (Hrel _ _ Ep). apply step_delta_same_base.
          - apply step_full. }
        rewrite G in H.
        destruct (mclient_feed (kset held (mk bytes p) (Some d))
                    (combine (make_recovered_map (kset prev (mk bytes p) (Some d)) t) (map (mdata bytes) t)))
          as [hf' ev'] eqn:E.
        inversion H; subst hf ev; clear H.
        assert (Hrel' : forall k b, kset prev (mk bytes p) (Some d) k = Some b ->
                                    kset held (mk bytes p) (Some d) k = Some b).
        { intros k b. unfold Delta.kset. destruct (Nat.eqb k (mk bytes p)); auto. }
        destruct (IH _ _ _ _ Hrel' E) as [Gt Ht]. split.
        * constructor; [|exact Gt]. unfold mgood, Delta.mevent_result; cbn [me_held me_wire me_expect]. exact G.
        * intros k. cbn [Delta.replay]. rewrite Ed. apply Ht.
      + cbn [combine Delta.mclient_feed Delta.mclient_step] in H.
        destruct (mclient_feed (kset held (mk bytes p) None)
                    (combine (make_recovered_map (kset prev (mk bytes p) None) t) (map (mdata bytes) t)))
          as [hf' ev'] eqn:E.
        inversion H; subst hf ev; clear H.
        assert (Hrel' : forall k b, kset prev (mk bytes p) None k = Some b ->
                                    kset held (mk bytes p) None k = Some b).
        { intros k b. unfold Delta.kset. destruct (Nat.eqb k (mk bytes p)); auto. }
        destruct (IH _ _ _ _ Hrel' E) as [Gt Ht]. split; [exact Gt|].
        intros k. cbn [Delta.replay]. rewrite Ed. apply Ht.
  Qed.

  (* state snapshot without filter *)
  Lemma snapshot_good : forall (state : kmap) (vis : nat -> bool) ks (h0 hf : kmap) ev,
    mclient_feed h0
      (flat_map (fun k => match state k with
                          | Some d => if negb false || vis k then [(k, Some (full_pub d), Some d)] else []
                          | None => [] end) ks) = (hf, ev) ->
    Forall mgood ev /\
    (forall k, hf k = match state k with
                      | Some d => if existsb (Nat.eqb k) ks then Some d else h0 k
                      | None => h0 k end).
  Proof.
    intros state vis. induction ks as [|k0 t IH]; intros h0 hf ev H.
    - cbn in H. inversion H; subst. split; [constructor|]. intros k. destruct (state k); reflexivity.
    - cbn [flat_map] in H. destruct (state k0) as [d|] eqn:Ek.
      + cbn [negb orb app Delta.mclient_feed Delta.mclient_step] in H.
        rewrite step_full in H.
        destruct (mclient_feed (kset h0 k0 (Some d)) _) as [hf' ev'] eqn:E.
        inversion H; subst hf ev; clear H.
        destruct (IH _ _ _ E) as [Gt Ht]. split.
        * constructor; [|exact Gt]. unfold mgood, Delta.mevent_result; cbn [me_held me_wire me_expect]. apply step_full.
        * intros k. rewrite Ht. cbn [existsb]. destruct (state k) as [dk|] eqn:Esk.
          -- destruct (Nat.eqb k k0) eqn:Ekk; cbn [orb].
             ++ apply Nat.eqb_eq in Ekk. subst k0. rewrite Ek in Esk. inversion Esk; subst.
                destruct (existsb (Nat.eqb k) t); [reflexivity|]. apply kset_same.
             ++ destruct (existsb (Nat.eqb k) t); [reflexivity|].
                apply kset_other. apply Nat.eqb_neq. exact Ekk.
          -- destruct (Nat.eq_dec k k0) as [->|N]; [congruence|]. apply kset_other. exact N.
      + cbn [app] in H. destruct (IH _ _ _ H) as [Gt Ht]. split; [exact Gt|].
        intros k. rewrite Ht. cbn [existsb]. destruct (state k) as [dk|] eqn:Esk; [|reflexivity].
        destruct (Nat.eqb k k0) eqn:Ekk; [|reflexivity].
        apply Nat.eqb_eq in Ekk. subst k0. congruence.
  Qed.

  Definition MInv (st : mst) : Prop :=
    (forall k, replay (m_held bytes st) (m_log bytes st) k = m_state bytes st k) /\
    (m_sub bytes st = true -> m_pos bytes st = m_top bytes st -> m_log bytes st = []) /\
    m_pos bytes st <= m_top bytes st /\
    (forall k d, m_state bytes st k = Some d -> existsb (Nat.eqb k) (m_keys bytes st) = true).

  Lemma add_key_in : forall k ks x, existsb (Nat.eqb x) (add_key k ks) = (Nat.eqb x k) || existsb (Nat.eqb x) ks.
  Proof.
    intros k ks x. unfold add_key. destruct (existsb (Nat.eqb k) ks) eqn:E; [|reflexivity].
    destruct (Nat.eqb x k) eqn:Ex; [|reflexivity]. apply Nat.eqb_eq in Ex. subst. cbn. exact E.
  Qed.

  Lemma m_step_ok : forall st a st' ev,
    MInv st -> m_step false st a = (st', ev) -> MInv st' /\ Forall mgood ev.
  Proof.
    intros st a st' ev [Hr [Hl [Hpt Hk]]] H. destruct a as [p deliver| | |]; cbn [Delta.m_step] in H.
    - assert (Hk' : forall k d, kset (m_state bytes st) (mk bytes p) (mdata bytes p) k = Some d ->
                      existsb (Nat.eqb k) (add_key (mk bytes p) (m_keys bytes st)) = true).
      { intros k d. rewrite add_key_in. unfold Delta.kset. destruct (Nat.eqb k (mk bytes p)); cbn; eauto. }
      assert (Hlog : forall k, replay (m_held bytes st) (m_log bytes st ++ [p]) k =
                               kset (m_state bytes st) (mk bytes p) (mdata bytes p) k).
      { intros k. rewrite replay_app. cbn. apply kset_ext. exact Hr. }
      destruct (m_sub bytes st && deliver) eqn:Esd.
      + apply andb_prop in Esd. destruct Esd as [Es Ed'].
        destruct (Nat.eqb (S (m_pos bytes st)) (S (m_top bytes st))) eqn:Epos.
        * apply Nat.eqb_eq in Epos. assert (Hpe : m_pos bytes st = m_top bytes st) by lia.
          pose proof (Hl Es Hpe) as Hnil. rewrite Hnil in Hr. cbn in Hr.
          destruct (mdata bytes p) as [d|] eqn:Ed.
          -- assert (G : client_step (m_held bytes st (mk bytes p))
                           (get_delta_pub (if mud bytes p then m_state bytes st (mk bytes p) else None) d) = Some d).
             { destruct (mud bytes p); [|apply step_delta_no_base].
               rewrite <- Hr. destruct (m_held bytes st (mk bytes p)); [apply step_delta_same_base|apply step_delta_no_base]. }
             inversion H; subst st' ev; clear H. split.
             ++ unfold MInv; cbn. split; [|split; [reflexivity|split; [lia|exact Hk']]].
                intros k. rewrite G. apply kset_ext. exact Hr.
             ++ constructor; [|constructor]. unfold mgood, Delta.mevent_result; cbn [me_held me_wire me_expect]. exact G.
          -- inversion H; subst st' ev; clear H. split; [|constructor].
             unfold MInv; cbn. split; [|split; [reflexivity|split; [lia|exact Hk']]].
             intros k. apply kset_ext. exact Hr.
        * inversion H; subst st' ev; clear H. split; [|constructor].
          unfold MInv; cbn. split; [exact Hlog|]. split; [intros E; discriminate|]. split; [lia|exact Hk'].
      + inversion H; subst st' ev; clear H. split; [|constructor].
        unfold MInv; cbn. split; [exact Hlog|]. split; [intros _ E; lia|]. split; [lia|exact Hk'].
    - destruct (m_sub bytes st) eqn:Es.
      { inversion H; subst. split; [|constructor]. unfold MInv. rewrite Es. auto. }
      unfold Delta.m_snapshot in H.
      destruct (mclient_feed (Delta.kempty bytes) _) as [h' ev'] eqn:E.
      inversion H; subst st' ev; clear H.
      destruct (snapshot_good (m_state bytes st) (m_vis bytes st) _ _ _ _ E) as [G Hh]. split; [|exact G].
      unfold MInv; cbn. split; [|split; [reflexivity|split; [lia|exact Hk]]].
      intros k. rewrite Hh. destruct (m_state bytes st k) as [d|] eqn:Esk; [|reflexivity].
      rewrite (Hk _ _ Esk). reflexivity.
    - destruct (m_sub bytes st) eqn:Es.
      { inversion H; subst. split; [|constructor]. unfold MInv. rewrite Es. auto. }
      cbn [negb] in H.
      destruct (mclient_feed (m_held bytes st) _) as [h' ev'] eqn:E.
      inversion H; subst st' ev; clear H.
      assert (Hrel : forall k b, Delta.kempty bytes k = Some b -> m_held bytes st k = Some b)
        by (intros k b A; discriminate).
      destruct (recovered_map_good _ _ _ _ _ Hrel E) as [G Hh]. split; [|exact G].
      unfold MInv; cbn. split; [|split; [reflexivity|split; [lia|exact Hk]]].
      intros k. rewrite Hh. apply Hr.
    - inversion H; subst st' ev; clear H. split; [|constructor].
      unfold MInv; cbn. split; [exact Hr|]. split; [intros E; discriminate|]. split; [exact Hpt|exact Hk].
  Qed.

  Lemma MInv_init : MInv (m_init bytes).
  Proof. unfold MInv, Delta.m_init; cbn. repeat split; auto; try (intros; discriminate). Qed.

  Lemma m_run_good : forall l st, MInv st -> Forall mgood (snd (m_run false st l)).
  Proof.
    induction l as [|a t IH]; intros st Hinv; cbn; [constructor|].
    destruct (m_step false st a) as [st1 e1] eqn:E1.
    destruct (m_run false st1 t) as [st2 e2] eqn:E2. cbn.
    destruct (m_step_ok _ _ _ _ Hinv E1) as [I G].
    apply Forall_app. split; [exact G|]. specialize (IH st1 I). rewrite E2 in IH. exact IH.
  Qed.

End DeltaProofs.
