(* C20 refinement, part 2: publish and remove simulate the reference map. *)
From Coq Require Import List NArith ZArith Bool Lia Permutation.
From Cfg Require Import Model.MapHub Model.MapSpec Proofs.MapBase Proofs.MapRefine.
Import ListNotations.
Open Scope N_scope.

Lemma resolve_size_pos : forall cfgs ch cf,
  cfg_of cfgs ch = CfgOk cf -> has_stream (cf_mode cf) = true -> 0 < cf_size cf.
Proof.
  intros cfgs ch cf. unfold cfg_of, resolve.
  set (r := nth (N.to_nat ch) cfgs unset_cfg).
  repeat match goal with
         | |- (if ?b then _ else _) = _ -> _ => destruct b eqn:?; try discriminate
         end; intro H; inversion H; subst; simpl in *; intros; try congruence.
  destruct (rc_size r =? 0)%Z eqn:E0; lia.
Qed.

Lemma size_of_stream : forall cfgs ch cf,
  cfg_of cfgs ch = CfgOk cf -> size_of cfgs ch = if has_stream (cf_mode cf) then cf_size cf else 0.
Proof. intros. unfold size_of. rewrite H. reflexivity. Qed.

Lemma ordered_of_cfg : forall cfgs ch cf, cfg_of cfgs ch = CfgOk cf -> ordered_of cfgs ch = cf_ordered cf.
Proof. intros. unfold ordered_of. rewrite H. reflexivity. Qed.

(* get-or-create on both sides *)
Lemma ensure_sim : forall cfgs h s ch cf h1 c s1 sc,
  hubR cfgs h s -> cfg_of cfgs ch = CfgOk cf ->
  add_ensure cf h ch = (h1, c) -> s_ensure s ch = (s1, sc) ->
  hubR cfgs h1 s1 /\ chanR cfgs ch c sc /\ aget N.eqb (ss_chans s1) ch = Some sc /\
  c_ordered c = cf_ordered cf /\ h_now h1 = h_now h /\ ss_now s1 = ss_now s /\
  c_state c = match get_chan h ch with Some c0 => c_state c0 | None => [] end.
Proof.
  intros cfgs h s ch cf h1 c s1 sc HR CF H1 H2.
  pose proof HR as (HC & HI & HN & HE & HB).
  pose proof (ordered_of_cfg _ _ _ CF) as OC.
  unfold add_ensure, s_ensure, s_get in *.
  destruct (get_chan h ch) as [c0|] eqn:G; unfold get_chan in G.
  - destruct (arel_get_some _ _ _ _ _ HC G) as (sc0 & G' & HCR). rewrite G' in H2. inversion H2; subst s1 sc0; clear H2.
    pose proof HCR as (ES & EM & EL & (EO1 & EO2) & EK).
    destruct (cf_ordered cf && negb (c_ordered c0)) eqn:FL; inversion H1; subst; clear H1.
    + apply andb_true_iff in FL as [F1 F2].
      assert (chanR cfgs ch (mkChan (c_stream c0) (c_state c0) true (c_sorted c0) true (c_lastord c0) (c_lastasc c0)) sc).
      { unfold chanR, ord_ok, cache_ok; simpl. rewrite OC, F1. repeat split; auto; try congruence; try discriminate. }
      splits; auto. eapply hubR_set_chan; eauto.
    + splits; auto.
      destruct (cf_ordered cf) eqn:O; simpl in FL.
      * destruct (c_ordered c); auto.
      * destruct (c_ordered c) eqn:O0; auto. rewrite EO1 in OC; auto.
  - rewrite (arel_get_none _ _ _ _ HC G) in H2. inversion H1; inversion H2; subst; clear H1 H2.
    assert (chanR cfgs ch (new_chan (h_nep h) (cf_ordered cf)) (mkSC (ss_nep s) [] [] 0 0 0)).
    { rewrite <- HE. apply chanR_new. congruence. }
    splits; auto.
    + unfold hubR; hub_simpl. splits; auto; try congruence. apply arel_set; auto.
    + simpl. apply (aget_aset_same N.eqb N_eqb_eq').
Qed.

Lemma stale_spec : forall cf k o cur,
  add_stale cf k o cur = match chk_version cf k (po_ver o) (po_vep o) cur with Some _ => true | None => false end.
Proof.
  intros. unfold add_stale, chk_version.
  destruct (has_stream (cf_mode cf) && negb (is_empty k) && (0 <? po_ver o)); simpl; auto.
  destruct cur; auto. destruct (((po_vep o =? 0) || (po_vep o =? e_vep e)) && (po_ver o <=? e_ver e)); auto.
Qed.
Lemma chk_version_reason : forall cf k v ve cur r, chk_version cf k v ve cur = Some r -> r = RVersion.
Proof.
  intros cf k v ve cur r. unfold chk_version.
  destruct (has_stream (cf_mode cf) && negb (is_empty k) && (0 <? v)); try discriminate.
  destruct cur; try discriminate. destruct (((ve =? 0) || (ve =? e_vep e)) && (v <=? e_ver e)); congruence.
Qed.

Lemma cas_spec : forall epoch k exp cur,
  (if is_empty k then None else cas_check epoch exp cur) =
  match chk_cas epoch k exp cur with
  | None => None
  | Some _ => Some (match cur with Some e => Some (e_pub e) | None => None end)
  end.
Proof.
  intros. unfold cas_check, chk_cas. destruct (is_empty k); auto.
  destruct exp as [[eo ee]|]; auto. destruct cur; auto.
  destruct (p_off (e_pub e) =? eo); simpl; auto. destruct (epoch =? ee); auto.
Qed.
Lemma chk_cas_reason : forall epoch k exp cur r, chk_cas epoch k exp cur = Some r -> r = RMismatch.
Proof.
  intros epoch k exp cur r. unfold chk_cas. destruct (is_empty k); try discriminate.
  destruct exp as [[eo ee]|]; try discriminate. destruct cur; try congruence.
  destruct ((p_off (e_pub e) =? eo) && (epoch =? ee)); congruence.
Qed.

Lemma hubR_set_ret : forall cfgs h s r, hubR cfgs h s -> hubR cfgs (set_ret h r) s.
Proof. intros cfgs h s r (HC & HI & HN & HE & HB). unfold hubR; simpl. auto. Qed.
Lemma hubR_touch_stream : forall cfgs h s ch t, hubR cfgs h s -> hubR cfgs (touch_stream h ch t) s.
Proof. intros. unfold touch_stream. destruct (ttl_touch _ _ _ _ _) as [[m q] nx]. apply hubR_set_ret. assumption. Qed.
Lemma hubR_touch_meta : forall cfgs h s ch t, hubR cfgs h s -> hubR cfgs (touch_meta h ch t) s.
Proof.
  intros. unfold touch_meta. destruct (0 <? t); auto.
Qed.
Lemma hubR_ret_touch : forall cfgs h s cf ch, hubR cfgs h s -> hubR cfgs (ret_touch cf h ch) s.
Proof. intros. unfold ret_touch. destruct (has_stream (cf_mode cf)); auto. apply hubR_touch_meta, hubR_touch_stream. assumption. Qed.

Lemma hubR_track : forall cfgs h s k d, hubR cfgs h s -> hubR cfgs (track h k d) s.
Proof. intros cfgs h s k d (HC & HI & HN & HE & HB). unfold hubR; hub_simpl. auto. Qed.

Lemma hubR_set_both : forall cfgs h s ch c' sc',
  hubR cfgs h s -> chanR cfgs ch c' sc' -> hubR cfgs (set_chan h ch c') (s_set s ch sc').
Proof.
  intros cfgs h s ch c' sc' (HC & HI & HN & HE & HB) HCR. unfold hubR, s_set; hub_simpl. splits; auto.
  apply arel_set; auto.
Qed.

Lemma hubR_bcast : forall cfgs h s b, hubR cfgs h s -> hubR cfgs (add_bcast h b) (s_bcast s b).
Proof. intros cfgs h s b (HC & HI & HN & HE & HB). unfold hubR, s_bcast; hub_simpl. splits; auto. congruence. Qed.

Lemma idem_get_sim : forall cfgs h s ch ik, hubR cfgs h s ->
  (if ik =? 0 then None else idem_get h ch ik) = s_idem_get s ch ik.
Proof.
  intros cfgs h s ch ik (HC & HI & HN & HE & HB). unfold idem_get, s_idem_get. rewrite HI, HN. reflexivity.
Qed.

Lemma idem_save_sim : forall cfgs h s ch ik p ttl, hubR cfgs h s ->
  hubR cfgs (if ik =? 0 then h else idem_save h ch ik p ttl) (s_idem_save s ch ik p ttl).
Proof.
  intros cfgs h s ch ik p ttl HR. pose proof HR as (HC & HI & HN & HE & HB).
  unfold idem_save, s_idem_save. destruct (ik =? 0); auto.
  unfold hubR; hub_simpl. splits; auto. try (rewrite HI, HN; reflexivity).
Qed.

Definition pub_finish (ch : N) (delta : bool) (idem idemttl : N) (x : hub * pos * option pub * reason * option pub) : hub * ures :=
  let '(h1, p, pp, r, thepub) := x in
  match r, thepub with
  | RNone, Some q =>
      let h2 := if idem =? 0 then h1 else idem_save h1 ch idem p idemttl in
      (add_bcast h2 (mkBc ch q p delta pp), URes p false RNone None)
  | _, _ => (h1, URes p true r (cur_of r pp))
  end.

Lemma pub_finish_supp : forall ch d i it hA p pp r,
  pub_finish ch d i it (hA, p, pp, r, None) = (hA, URes p true r (cur_of r pp)).
Proof. intros. destruct r; reflexivity. Qed.

Lemma chk_keymode_cases : forall k m cur r, chk_keymode k m cur = Some r ->
  (r = RKeyExists /\ exists e, cur = Some e) \/ (r = RKeyNotFound /\ cur = None).
Proof.
  intros k m cur r. unfold chk_keymode. destruct (is_empty k); try discriminate.
  destruct m, cur; try discriminate; intro H; inversion H; subst; eauto.
Qed.

Lemma keymode_spec : forall cf h1 ch c k o cur,
  add_keymode cf h1 ch c k o cur =
  match chk_keymode k (po_mode o) cur with
  | None => None
  | Some r =>
      Some (match r, cur with
            | RKeyExists, Some e =>
                if po_refresh o && (0 <? cf_keyttl cf)
                then touch_meta (track (set_chan h1 ch (set_entry_nodirty c (aset key_eqb (c_state c) k
                              (mkEntry (e_pub e) (h_now h1 + cf_keyttl cf) (e_ver e) (e_vep e)))))
                           (ch, k) (h_now h1 + cf_keyttl cf)) ch (cf_mttl cf)
                else h1
            | _, _ => h1
            end, r)
  end.
Proof.
  intros. unfold add_keymode, chk_keymode. destruct (is_empty k); auto.
  destruct (po_mode o), cur; auto. destruct (po_refresh o && (0 <? cf_keyttl cf)); auto.
Qed.

Lemma add_prev_eq : forall h ch k o c,
  c_state c = match get_chan h ch with Some c0 => c_state c0 | None => [] end ->
  add_prev h ch k o = if po_delta o && negb (is_empty k)
                      then match aget key_eqb (c_state c) k with Some e => Some (e_pub e) | None => None end
                      else None.
Proof.
  intros h ch k o c ST. unfold add_prev. rewrite ST. destruct (get_chan h ch); auto.
Qed.

Lemma chanR_touch_mdead : forall cfgs i c sc m n, chanR cfgs i c sc -> chanR cfgs i c (touch_mdead m n sc).
Proof. intros. unfold touch_mdead. destruct (0 <? m); auto. Qed.
Lemma s_pos_touch : forall m n sc, s_pos (touch_mdead m n sc) = s_pos sc.
Proof. intros. unfold touch_mdead. destruct (0 <? m); reflexivity. Qed.
Lemma touch_mdead_fields : forall m n sc,
  sc_epoch (touch_mdead m n sc) = sc_epoch sc /\ sc_map (touch_mdead m n sc) = sc_map sc /\
  sc_log (touch_mdead m n sc) = sc_log sc /\ sc_keep (touch_mdead m n sc) = sc_keep sc.
Proof. intros. unfold touch_mdead. destruct (0 <? m); auto. Qed.

Lemma stream_add_R : forall (st : stream) (log : list pub) ep size keep mk,
  st = mkStream (N.of_nat (length log)) ep (window size (lastk keep log)) ->
  stream_add st mk size =
  (mkStream (N.of_nat (length (log ++ [mk (N.of_nat (length log) + 1)]))) ep
            (window size (lastk (S keep) (log ++ [mk (N.of_nat (length log) + 1)]))),
   N.of_nat (length log) + 1).
Proof.
  intros st log ep size keep mk ->. unfold stream_add. simpl.
  rewrite window_app, <- lastk_app. f_equal. f_equal. rewrite app_length. simpl. lia.
Qed.

Lemma publish_sim : forall cfgs h s ch k o h' u s' u',
  hubR cfgs h s -> publish cfgs h ch k o = (h', u) -> spec_publish cfgs s ch k o = (s', u') ->
  u = u' /\ hubR cfgs h' s'.
Proof.
  intros cfgs h s ch k o h' u s' u' HR H1 H2. unfold publish, spec_publish in *.
  destruct (cfg_of cfgs ch) as [cf|e] eqn:CF; [| inversion H1; inversion H2; subst; auto].
  destruct (is_ephemeral (cf_mode cf) && match po_exp o with Some _ => true | None => false end);
    [inversion H1; inversion H2; subst; auto|].
  destruct (is_ephemeral (cf_mode cf) && (0 <? po_ver o)); [inversion H1; inversion H2; subst; auto|].
  rewrite (idem_get_sim _ _ _ ch (po_idem o) HR) in H1.
  destruct (s_idem_get s ch (po_idem o)); [inversion H1; inversion H2; subst; auto|].
  change (pub_finish ch (po_delta o) (po_idem o) (po_idemttl o) (add cf h ch k o) = (h', u)) in H1.
  unfold add in H1.
  destruct (add_ensure cf h ch) as [h1 c] eqn:EN.
  destruct (s_ensure s ch) as [s1 sc] eqn:SEN.
  destruct (ensure_sim _ _ _ _ _ _ _ _ _ HR CF EN SEN) as (HR1 & HCR & G1 & OC & N1 & N1' & ST).
  pose proof HCR as (ES & EM & EL & EO & EK).
  pose proof (chanR_pos _ _ _ _ HCR) as EP.
  pose proof HR as (_ & _ & HN & _ & _).
  rewrite (add_prev_eq _ _ _ _ _ ST) in H1.
  rewrite stale_spec, keymode_spec, cas_spec in H1. rewrite EM, EP in H1.
  unfold decide_publish, first_some in H2.
  assert (EPO : snd (s_pos sc) = sc_epoch sc) by reflexivity. rewrite EPO in H1.
  destruct (chk_version cf k (po_ver o) (po_vep o) (aget key_eqb (sc_map sc) k)) as [r|] eqn:CV.
  { apply chk_version_reason in CV; subst r. rewrite pub_finish_supp in H1.
    inversion H1; inversion H2; subst. auto. }
  destruct (chk_keymode k (po_mode o) (aget key_eqb (sc_map sc) k)) as [r|] eqn:CKM.
  { rewrite pub_finish_supp in H1.
    destruct (chk_keymode_cases _ _ _ _ CKM) as [[-> [e Ecur]]|[-> Ecur]]; rewrite Ecur in *.
    - simpl in H1, H2. inversion H1; inversion H2; subst; clear H1 H2. split; auto.
      destruct (po_refresh o && (0 <? cf_keyttl cf)); auto.
      apply hubR_touch_meta. apply hubR_track. apply hubR_set_both; auto.
      rewrite N1, HN. apply chanR_touch_mdead.
      unfold chanR, retained, ord_ok, cache_ok, set_entry_nodirty in *; simpl. rewrite EM in *.
      splits; auto; try tauto.
      + intros _. rewrite OC. symmetry. apply ordered_of_cfg; auto.
      + intro D. rewrite (sorted_keys_refresh _ _ _ _ e); auto.
    - simpl in H1, H2. inversion H1; inversion H2; subst; auto. }
  destruct (chk_cas (sc_epoch sc) k (po_exp o) (aget key_eqb (sc_map sc) k)) as [r|] eqn:CC.
  { apply chk_cas_reason in CC; subst r. rewrite pub_finish_supp in H1.
    inversion H1; inversion H2; subst; clear H1 H2. split; auto.
    destruct (aget key_eqb (sc_map sc) k); reflexivity. }
  (* accepted *)
  unfold add_commit in H1.
  pose proof (size_of_stream _ _ _ CF) as SZ.
  pose proof (ordered_of_cfg _ _ _ CF) as OO.
  set (cur := aget key_eqb (sc_map sc) k) in *.
  destruct (if po_ver o =? 0 then match cur with Some e => (e_ver e, e_vep e) | None => (0, po_vep o) end
            else (po_ver o, po_vep o)) as [ver vep] eqn:VV.
  destruct (has_stream (cf_mode cf)) eqn:HS.
  - (* stream-backed *)
    pose proof (resolve_size_pos _ _ _ CF HS) as SP.
    unfold retained in ES. rewrite <- SZ in H1.
    rewrite (stream_add_R _ _ _ _ _ _ ES) in H1.
    set (p := mkPub k (N.of_nat (length (sc_log sc)) + 1) (po_data o) (po_tags o) false (po_score o)) in *.
    assert (EL' : N.of_nat (length (sc_log sc ++ [p])) = N.of_nat (length (sc_log sc)) + 1) by (rewrite app_length; simpl; lia).
    assert (CRS : forall st' sd md, (st' <> [] -> c_ordered c = ordered_of cfgs ch) ->
               chanR cfgs ch (set_state (set_stream c {| s_top := N.of_nat (length (sc_log sc)) + 1; s_epoch := sc_epoch sc;
                                                        s_items := window (size_of cfgs ch) (lastk (S (sc_keep sc)) (sc_log sc ++ [p])) |}) st')
                     (mkSC (sc_epoch sc) st' (sc_log sc ++ [p]) (S (sc_keep sc)) sd md)).
    { intros st' sd md OR. unfold chanR, retained, set_stream, set_state, ord_ok, cache_ok in *; simpl. rewrite ?EL'.
      splits; auto; try tauto; try discriminate; try (intro Z0; rewrite SZ in Z0; lia). }
    destruct (is_empty k) eqn:EK0.
    + simpl in H1, H2. inversion H1; inversion H2; subst; clear H1 H2.
      rewrite s_pos_touch. unfold s_pos; simpl. rewrite EL'. split; auto.
      apply hubR_bcast. apply idem_save_sim. apply hubR_ret_touch. apply hubR_set_both; auto.
      apply chanR_touch_mdead.
      unfold chanR, retained, set_stream, ord_ok, cache_ok in *; simpl. rewrite ?EL'.
      splits; auto; try tauto; try (intro Z0; rewrite SZ in Z0; lia).
    + simpl in H1, H2.
      assert (HD : (if 0 <? cf_keyttl cf then h_now h1 + cf_keyttl cf else 0) = deadline cf (ss_now s)).
      { unfold deadline. rewrite N1, HN. reflexivity. }
      rewrite HD in H1. rewrite EM in H1.
      destruct (0 <? cf_keyttl cf) eqn:TT; inversion H1; inversion H2; subst; clear H1 H2;
        rewrite s_pos_touch; unfold s_pos; simpl; rewrite EL'; (split; [reflexivity|]);
        apply hubR_bcast; apply idem_save_sim; apply hubR_ret_touch; try apply hubR_track; apply hubR_set_both; auto;
        apply chanR_touch_mdead; apply CRS; intros _; rewrite OC; auto.
  - (* no stream *)
    assert (LG : sc_log sc = []) by (apply EL; rewrite SZ; reflexivity).
    rewrite orb_false_l in H1. rewrite EP in H1.
    destruct (is_empty k) eqn:EK0.
    + simpl in H1, H2. inversion H1; inversion H2; subst; clear H1 H2.
      unfold s_pos; simpl. split; auto.
      apply hubR_bcast. apply idem_save_sim. apply hubR_ret_touch. apply hubR_set_both; auto.
    + simpl in H1, H2.
      assert (HD : (if 0 <? cf_keyttl cf then h_now h1 + cf_keyttl cf else 0) = deadline cf (ss_now s)).
      { unfold deadline. rewrite N1, HN. reflexivity. }
      rewrite HD in H1. rewrite EM in H1.
      assert (CR : forall e, chanR cfgs ch (set_state c (aset key_eqb (sc_map sc) k e))
                                   (mkSC (sc_epoch sc) (aset key_eqb (sc_map sc) k e) (sc_log sc) (sc_keep sc) (sc_sdead sc) (sc_mdead sc))).
      { intro e. unfold chanR, retained, set_state, ord_ok, cache_ok in *; simpl. splits; auto; try tauto.
        - intros _. rewrite OC; auto.
        - discriminate. }
      destruct (0 <? cf_keyttl cf) eqn:TT; inversion H1; inversion H2; subst; clear H1 H2;
        unfold s_pos; simpl; (split; [reflexivity|]);
        apply hubR_bcast; apply idem_save_sim; apply hubR_ret_touch; try apply hubR_track; apply hubR_set_both; auto.
Qed.

Lemma hubR_set_exp : forall cfgs h s a b c, hubR cfgs h s -> hubR cfgs (set_exp h a b c) s.
Proof. intros cfgs h s a b c (HC & HI & HN & HE & HB). unfold hubR; hub_simpl. auto. Qed.

Definition rcas (epoch : N) (exp : option pos) (cur : option entry) : option reason :=
  match exp with
  | None => None
  | Some (eo, ee) =>
      match cur with
      | None => Some RMismatch
      | Some e => if (p_off (e_pub e) =? eo) && (epoch =? ee) then None else Some RMismatch
      end
  end.

Lemma cas_spec_r : forall epoch exp cur,
  cas_check epoch exp cur =
  match rcas epoch exp cur with
  | None => None
  | Some _ => Some (match cur with Some e => Some (e_pub e) | None => None end)
  end.
Proof.
  intros. unfold cas_check, rcas. destruct exp as [[eo ee]|]; auto. destruct cur; auto.
  destruct (p_off (e_pub e) =? eo); simpl; auto. destruct (epoch =? ee); auto.
Qed.
Lemma rcas_reason : forall epoch exp cur r, rcas epoch exp cur = Some r -> r = RMismatch.
Proof.
  intros epoch exp cur r. unfold rcas. destruct exp as [[eo ee]|]; try discriminate.
  destruct cur; try congruence. destruct ((p_off (e_pub e) =? eo) && (epoch =? ee)); congruence.
Qed.

Lemma aget_some_nonnil : forall {V} (m : list (key * V)) k v, aget key_eqb m k = Some v -> m <> [].
Proof. intros V m k v H. destruct m; simpl in *; congruence. Qed.

Lemma remove_sim : forall cfgs h s ch k o h' u s' u',
  hubR cfgs h s -> remove cfgs h ch k o = (h', u) -> spec_remove cfgs s ch k o = (s', u') ->
  u = u' /\ hubR cfgs h' s'.
Proof.
  intros cfgs h s ch k o h' u s' u' HR H1 H2. unfold remove, spec_remove in *.
  destruct (cfg_of cfgs ch) as [cf|e] eqn:CF; [| inversion H1; inversion H2; subst; auto].
  destruct (is_ephemeral (cf_mode cf) && match ro_exp o with Some _ => true | None => false end);
    [inversion H1; inversion H2; subst; auto|].
  rewrite (idem_get_sim _ _ _ ch (ro_idem o) HR) in H1.
  destruct (s_idem_get s ch (ro_idem o)); [inversion H1; inversion H2; subst; auto|].
  pose proof HR as (HC & HI & HN & HE & HB).
  unfold hremove, s_get in *.
  destruct (get_chan h ch) as [c|] eqn:G; unfold get_chan in G.
  2:{ rewrite (arel_get_none _ _ _ _ HC G) in H2.
      destruct (ro_exp o); inversion H1; inversion H2; subst; auto. }
  destruct (arel_get_some _ _ _ _ _ HC G) as (sc & G' & HCR). rewrite G' in H2.
  pose proof HCR as (ES & EM & EL & EO & EK).
  pose proof (chanR_pos _ _ _ _ HCR) as EP.
  rewrite EM, EP in H1.
  change (decide_remove (sc_epoch sc) o (aget key_eqb (sc_map sc) k))
    with (first_some [rcas (sc_epoch sc) (ro_exp o) (aget key_eqb (sc_map sc) k);
                      match aget key_eqb (sc_map sc) k with None => Some RKeyNotFound | Some _ => None end]) in H2.
  unfold first_some in H2.
  assert (EPO : snd (s_pos sc) = sc_epoch sc) by reflexivity. rewrite EPO in H1.
  rewrite cas_spec_r in H1.
  destruct (rcas (sc_epoch sc) (ro_exp o) (aget key_eqb (sc_map sc) k)) as [r|] eqn:RC.
  { apply rcas_reason in RC; subst r. inversion H1; inversion H2; subst. split; auto.
    destruct (aget key_eqb (sc_map sc) k); reflexivity. }
  destruct (aget key_eqb (sc_map sc) k) as [e|] eqn:CUR.
  2:{ inversion H1; inversion H2; subst. auto. }
  pose proof (size_of_stream _ _ _ CF) as SZ.
  assert (NN : c_state c <> []) by (rewrite EM; eapply aget_some_nonnil; eauto).
  destruct EO as (EO1 & EO2). specialize (EO2 NN).
  destruct (has_stream (cf_mode cf)) eqn:HS.
  - pose proof (resolve_size_pos _ _ _ CF HS) as SP.
    unfold retained in ES. rewrite <- SZ in H1.
    assert (ES' : c_stream (set_state c (adel key_eqb (sc_map sc) k)) =
                  mkStream (N.of_nat (length (sc_log sc))) (sc_epoch sc) (window (size_of cfgs ch) (lastk (sc_keep sc) (sc_log sc)))) by exact ES.
    rewrite (stream_add_R _ _ _ _ _ _ ES') in H1.
    match type of H1 with context [stream_add_R] => idtac | _ => idtac end.
    inversion H1; inversion H2; subst; clear H1 H2.
    rewrite s_pos_touch. unfold s_pos; simpl; rewrite app_length; simpl.
    replace (N.of_nat (length (sc_log sc) + 1)) with (N.of_nat (length (sc_log sc)) + 1) by lia.
    split; [reflexivity|].
    apply hubR_bcast; apply idem_save_sim; try apply hubR_ret_touch; apply hubR_set_both; [apply hubR_set_exp; assumption|].
    apply chanR_touch_mdead.
    unfold chanR, retained, set_stream, set_state, ord_ok, cache_ok in *; simpl.
    rewrite app_length; simpl.
    replace (N.of_nat (length (sc_log sc) + 1)) with (N.of_nat (length (sc_log sc)) + 1) by lia.
    splits; auto; try tauto; try discriminate; try (intro Z0; rewrite SZ in Z0; lia).
  - inversion H1; inversion H2; subst; clear H1 H2.
    unfold s_pos; simpl. split; [reflexivity|].
    apply hubR_bcast; apply idem_save_sim; try apply hubR_ret_touch; apply hubR_set_both; [apply hubR_set_exp; assumption|].
    unfold chanR, retained, set_stream, set_state, ord_ok, cache_ok in *; simpl.
    splits; auto; try tauto; try discriminate.
Qed.
