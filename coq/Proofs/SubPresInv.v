(* C06 / C05: who answers for a presence entry.  For every channel whose presence set contains
   the connection there is an owner: the committed context with presence, the attempt that
   added it and has not committed yet, or a thread that is certain to remove it (a rollback,
   the unsubscribe that deleted the context, a tick that will compensate).  Preserved by every
   non-timeout action of a state satisfying the routing invariant [Inv]. *)
From Coq Require Import List NArith ZArith Bool Lia.
From Cfg Require Import Model.SubLifecycle Proofs.SubLifecycleLib Proofs.SubRoute Proofs.SubRouteStep.
Import ListNotations.
Open Scope N_scope.

Definition has_gen (s : st) (c : ch) (g : gen) : Prop :=
  exists x, lookup c (chans s) = Some x /\ c_gen x = g.
Definition live_pres (s : st) (c : ch) : Prop :=
  exists x, lookup c (chans s) = Some x /\ c_sub x = true /\ o_pres (c_opts x) = true.

Definition urem (u : urec) (c : ch) : Prop :=
  u_ch u = c /\ u_pc u = UPres /\ c_sub (u_ctx u) = true /\ o_pres (c_opts (u_ctx u)) = true.

Definition pown (s : st) (th : thread) (c : ch) : Prop :=
  match th with
  | TAtt a =>
      a_ch a = c /\
      match a_pc a with
      | PCommit => a_padded a = true
      | PFailPres => True
      | PClosedHubRem | PClosedPresRem | PLostHubRem | PLostPresRem => o_pres (a_opts a) = true
      | _ => False
      end
  | TUns u => urem u c
  | TCls k => k_pc k = CLoop /\ exists u, k_cur k = Some u /\ urem u c
  | TTck k =>
      match t_pc k with
      | TCheck | TAdd | TComp => exists g, In (c, g) (t_added k) /\ ~ has_gen s c g
      | TCompRem => In c (t_rem k)
      | _ => False
      end
  | _ => False
  end.

Definition powned (s : st) (c : ch) : Prop :=
  live_pres s c \/ exists t th, thr s t = Some th /\ pown s th c.

(* the unsubscribe record about to delete: it looks at the context it will delete *)
Definition u_sees (s : st) (u : urec) : Prop :=
  u_pc u = UDelete ->
  u_tgt u <= genctr s /\
  forall x, lookup (u_ch u) (chans s) = Some x -> c_gen x = u_tgt u -> c_sub x = true /\ u_ctx u = x.

Definition item_ok (s : st) (p : ch * gen) : Prop :=
  snd p <= genctr s /\
  forall x, lookup (fst p) (chans s) = Some x -> c_gen x = snd p -> c_sub x = true /\ o_pres (c_opts x) = true.

Definition pthread_ok (s : st) (th : thread) : Prop :=
  match th with
  | TAtt a => a_padded a = true -> o_pres (a_opts a) = true
  | TUns u => u_sees s u
  | TCls k => match k_cur k with Some u => u_sees s u | None => True end
  | TTck k => forall p, In p (t_todo k) \/ In p (t_added k) -> item_ok s p
  | _ => True
  end.

Record PInv (s : st) : Prop := {
  p_own : forall c, pres s c = true -> powned s c;
  p_thr : forall t th, thr s t = Some th -> pthread_ok s th;
  p_nd : NoDup (keys (chans s))
}.

Lemma PInv_init : PInv init.
Proof. constructor; cbn; intros; try discriminate. constructor. Qed.

Lemma keys_remove_sub {V} k k' (m : amap V) : In k (keys (remove k' m)) -> In k (keys m) /\ k <> k'.
Proof.
  unfold keys. induction m as [|[a v] m IH]; cbn; [tauto|].
  destruct (N.eqb_spec k' a); cbn.
  - intros H. destruct (IH H). auto.
  - intros [->|H]; [auto|]. destruct (IH H). auto.
Qed.
Lemma nd_remove {V} k (m : amap V) : NoDup (keys m) -> NoDup (keys (remove k m)).
Proof.
  unfold keys. induction m as [|[a v] m IH]; cbn; auto. intros ND. inversion ND; subst.
  destruct (N.eqb_spec k a); auto. cbn. constructor; auto.
  intros H. apply (keys_remove_sub a k m) in H. tauto.
Qed.
Lemma nd_insert {V} k (v : V) m : NoDup (keys m) -> NoDup (keys (insert k v m)).
Proof.
  intros ND. unfold insert. cbn. constructor; [|apply nd_remove; auto].
  intros H. apply keys_remove_sub in H. tauto.
Qed.
Lemma in_lookup {V} k (v : V) m : NoDup (keys m) -> In (k, v) m -> lookup k m = Some v.
Proof.
  unfold keys. induction m as [|[a w] m IH]; cbn; [tauto|]. intros ND. inversion ND; subst.
  intros [E|I].
  - inv E. rewrite N.eqb_refl. auto.
  - destruct (N.eqb_spec k a); [|auto]. subst. exfalso. apply H1. apply in_map_iff. exists (a, v). auto.
Qed.

(* how c.channels may change in one action *)
Definition chans_step (s s' : st) : Prop :=
  forall c x', lookup c (chans s') = Some x' ->
    lookup c (chans s) = Some x' \/
    (c_gen x' = genctr s + 1 /\ c_sub x' = false) \/
    (exists r, lookup c (chans s) = Some r /\ c_gen r = c_gen x' /\ c_sub r = false).

Lemma has_gen_step s s' c g :
  chans_step s s' -> has_gen s' c g -> has_gen s c g \/ g = genctr s + 1.
Proof.
  intros CS (x & L & G). destruct (CS _ _ L) as [E|[(E & _)|(r & E & G' & _)]].
  - left. exists x. auto.
  - right. congruence.
  - left. exists r. split; auto. congruence.
Qed.

Lemma item_ok_step s s' p : chans_step s s' -> genctr s <= genctr s' -> item_ok s p -> item_ok s' p.
Proof.
  intros CS GE [B H]. split; [lia|]. intros x L G. destruct (CS _ _ L) as [E|[(E & _)|(r & E & G' & S')]].
  - apply H; auto.
  - lia.
  - destruct (H r E) as [S _]; congruence.
Qed.

Lemma u_sees_step s s' u : chans_step s s' -> genctr s <= genctr s' -> u_sees s u -> u_sees s' u.
Proof.
  intros CS GE H P. destruct (H P) as [B X]. split; [lia|]. intros x L G.
  destruct (CS _ _ L) as [E|[(E & _)|(r & E & G' & S')]].
  - apply X; auto.
  - lia.
  - destruct (X r E) as [S _]; congruence.
Qed.

Lemma pthread_ok_step s s' th :
  chans_step s s' -> genctr s <= genctr s' -> pthread_ok s th -> pthread_ok s' th.
Proof.
  intros CS GE. destruct th as [a|u|k|k| |]; cbn; auto.
  - apply u_sees_step; auto.
  - destruct (k_cur k); auto. apply u_sees_step; auto.
  - intros H p I. eapply item_ok_step; eauto.
Qed.

(* an owner thread that does not move keeps owning *)
Lemma pown_step s s' th c :
  chans_step s s' -> pthread_ok s th -> pown s th c -> pown s' th c.
Proof.
  intros CS OK. destruct th as [a|u|k|k| |]; cbn; auto.
  destruct (t_pc k); auto; intros (g & I & N); exists g; split; auto; intros HG;
    destruct (has_gen_step _ _ _ _ CS HG) as [X|X]; auto;
    destruct (OK (c, g) (or_intror I)) as [B _]; cbn in B; lia.
Qed.

Lemma P_step s s' t th o' nt x :
  PInv s -> thr s t = Some th ->
  (thr s' = upd (thr s) t o' \/
   (thr s' = upd (upd (thr s) nt (Some x)) t o' /\ thr s nt = None /\ pthread_ok s' x)) ->
  chans_step s s' -> NoDup (keys (chans s')) -> genctr s <= genctr s' ->
  (forall th', o' = Some th' -> pthread_ok s' th') ->
  (forall c, pres s' c = true ->
     pres s c = true \/ live_pres s' c \/ (exists th', o' = Some th' /\ pown s' th' c)) ->
  (forall c, live_pres s c -> pres s' c = true ->
     live_pres s' c \/ (exists th', o' = Some th' /\ pown s' th' c)) ->
  (forall c, pown s th c -> pres s' c = true ->
     live_pres s' c \/ (exists th', o' = Some th' /\ pown s' th' c)) ->
  PInv s'.
Proof.
  intros [P1 P2 P3] ET TH CS ND GE OK NEW LIVE OWN.
  assert (THT : thr s' t = o') by (destruct TH as [-> |(-> & _)]; apply upd_same).
  assert (OTH : forall t0 th0, t0 <> t -> thr s t0 = Some th0 -> thr s' t0 = Some th0).
  { intros t0 th0 NE E. destruct TH as [-> |(-> & FR & _)]; rewrite upd_other; auto.
    rewrite upd_other; auto. intros ->. congruence. }
  assert (FIN : forall c, live_pres s' c \/ (exists th', o' = Some th' /\ pown s' th' c) -> powned s' c).
  { intros c [L|(th' & E & O)]; [left; auto|right; exists t, th'; rewrite THT; auto]. }
  constructor.
  - intros c PC. destruct (NEW c PC) as [OLD|X]; [|apply FIN; auto].
    destruct (P1 c OLD) as [L|(t0 & th0 & E0 & O0)].
    + apply FIN. apply LIVE; auto.
    + destruct (N.eqb_spec t0 t).
      * subst t0. rewrite ET in E0. inv E0. apply FIN. apply OWN; auto.
      * right. exists t0, th0. split; [apply OTH; auto|]. eapply pown_step; eauto.
  - intros t0 th0 E0. destruct (N.eqb_spec t0 t).
    + subst t0. rewrite THT in E0. apply OK. auto.
    + destruct TH as [E|(E & FR & XO)]; rewrite E in E0; rewrite upd_other in E0; auto.
      * eapply pthread_ok_step; eauto.
      * unfold upd in E0. destruct (N.eqb_spec t0 nt); [inv E0; auto|eapply pthread_ok_step; eauto].
  - auto.
Qed.

(* shapes of the change of c.channels *)
Lemma cs_same s s' : chans s' = chans s -> chans_step s s'.
Proof. intros E c x L. left. rewrite <- E. auto. Qed.
Lemma cs_remove s s' c0 : chans s' = remove c0 (chans s) -> chans_step s s'.
Proof.
  intros E c x L. left. rewrite E, lookup_remove in L. destruct (N.eqb_spec c c0); [discriminate|auto].
Qed.
Lemma cs_reserve s s' c0 x0 :
  chans s' = insert c0 x0 (chans s) -> c_gen x0 = genctr s + 1 -> c_sub x0 = false -> chans_step s s'.
Proof.
  intros E G S c x L. rewrite E, lookup_insert in L.
  destruct (N.eqb_spec c c0); [inv L; right; left; auto|left; auto].
Qed.
Lemma cs_install s s' c0 x0 r :
  chans s' = insert c0 x0 (chans s) -> lookup c0 (chans s) = Some r -> c_gen r = c_gen x0 -> c_sub r = false ->
  chans_step s s'.
Proof.
  intros E L0 G S c x L. rewrite E, lookup_insert in L.
  destruct (N.eqb_spec c c0); [inv L; right; right; exists r; auto|left; auto].
Qed.

Lemma live_same s s' c : chans s' = chans s -> live_pres s c -> live_pres s' c.
Proof. intros E (x & L & S & P). exists x. rewrite E. auto. Qed.
Lemma live_other s s' c c0 :
  (forall c1, c1 <> c0 -> lookup c1 (chans s') = lookup c1 (chans s)) -> c <> c0 -> live_pres s c -> live_pres s' c.
Proof. intros E NE (x & L & S & P). exists x. rewrite E; auto. Qed.

(* c.channels unchanged, presence only shrinks *)
Lemma P_plain s s' t th o' nt x :
  PInv s -> thr s t = Some th ->
  (thr s' = upd (thr s) t o' \/
   (thr s' = upd (upd (thr s) nt (Some x)) t o' /\ thr s nt = None /\ pthread_ok s' x)) ->
  chans s' = chans s -> genctr s <= genctr s' ->
  (forall c, pres s' c = true -> pres s c = true) ->
  (forall th', o' = Some th' -> pthread_ok s' th') ->
  (forall c, pown s th c -> pres s' c = true -> exists th', o' = Some th' /\ pown s' th' c) ->
  PInv s'.
Proof.
  intros PI ET TH EC GE PR OK OWN.
  eapply P_step; eauto.
  - apply cs_same; auto.
  - rewrite EC. apply PI.
  - intros c L _. left. eapply live_same; eauto.
Qed.

Ltac corep :=
  unfold spawn_int, submit_job, thr_set, thr_del, log, set_gst1 in *;
  cbn [chans thr pres genctr next_int next_ext
       set_status set_authed set_closing set_chans set_genctr set_gclosed set_cmu set_pmu set_pinfl
       set_kstarted set_slock set_hub set_others set_reg set_pres set_bsub set_jobs set_gconn set_gsub
       set_trace set_thr set_next_ext set_next_int set_panicked set_wclosed set_hreg set_shut set_gst] in *.

Lemma cgp g s : chans (close_gate g s) = chans s /\ thr (close_gate g s) = thr s /\
  pres (close_gate g s) = pres s /\ genctr (close_gate g s) = genctr s /\ next_int (close_gate g s) = next_int s.
Proof. unfold close_gate. destruct (gclosed s g); cbn; auto. Qed.
Lemma cgp1 g s : chans (close_gate g s) = chans s. Proof. apply cgp. Qed.
Lemma cgp2 g s : thr (close_gate g s) = thr s. Proof. apply cgp. Qed.
Lemma cgp3 g s : pres (close_gate g s) = pres s. Proof. apply cgp. Qed.
Lemma cgp4 g s : genctr (close_gate g s) = genctr s. Proof. apply cgp. Qed.
Lemma cgp5 g s : next_int (close_gate g s) = next_int s. Proof. apply cgp. Qed.
Lemma ccp1 c s : chans (close_cap c s) = chans s. Proof. destruct c; cbn; auto. apply cgp1. Qed.
Lemma ccp2 c s : thr (close_cap c s) = thr s. Proof. destruct c; cbn; auto. apply cgp2. Qed.
Lemma ccp3 c s : pres (close_cap c s) = pres s. Proof. destruct c; cbn; auto. apply cgp3. Qed.
Lemma ccp4 c s : genctr (close_cap c s) = genctr s. Proof. destruct c; cbn; auto. apply cgp4. Qed.
Lemma ccp5 c s : next_int (close_cap c s) = next_int s. Proof. destruct c; cbn; auto. apply cgp5. Qed.
Lemma hrp c g s : chans (hubrem c g s) = chans s /\ thr (hubrem c g s) = thr s /\
  pres (hubrem c g s) = pres s /\ genctr (hubrem c g s) = genctr s /\ next_int (hubrem c g s) = next_int s.
Proof. unfold hubrem. destruct (hub s c); [destruct (_ =? g); [destruct (others s c =? 0)|]|]; cbn; auto. Qed.
Lemma hrp1 c g s : chans (hubrem c g s) = chans s. Proof. apply hrp. Qed.
Lemma hrp2 c g s : thr (hubrem c g s) = thr s. Proof. apply hrp. Qed.
Lemma hrp3 c g s : pres (hubrem c g s) = pres s. Proof. apply hrp. Qed.
Lemma hrp4 c g s : genctr (hubrem c g s) = genctr s. Proof. apply hrp. Qed.
Lemma hrp5 c g s : next_int (hubrem c g s) = next_int s. Proof. apply hrp. Qed.
Ltac prw := rewrite ?cgp1, ?cgp2, ?cgp3, ?cgp4, ?cgp5, ?ccp1, ?ccp2, ?ccp3, ?ccp4, ?ccp5, ?hrp1, ?hrp2, ?hrp3, ?hrp4, ?hrp5.

(* presence is unchanged or switched off at one channel *)
Ltac pres_shrinks :=
  let c0 := fresh "c0" in
  intros c0; corep; prw; unfold upd;
  repeat match goal with |- context [N.eqb ?a ?b] => destruct (N.eqb_spec a b); subst end;
  first [ tauto | discriminate | auto ].

Ltac pplain PI ET FR s0 :=
  eapply P_plain with (nt := 2 * next_int s0 + 1) (x := new_close);
  [ exact PI | exact ET
  | first [ left; corep; prw; reflexivity
          | right; split; [corep; prw; reflexivity|split; [exact FR|exact Logic.I]] ]
  | corep; prw; reflexivity
  | corep; prw; lia
  | pres_shrinks
  | idtac | idtac ].

Lemma pthread_ok_eq s s' th :
  chans s' = chans s -> genctr s' = genctr s -> pthread_ok s th -> pthread_ok s' th.
Proof. intros E G. apply pthread_ok_step; [apply cs_same; auto|lia]. Qed.

Ltac att_ok OKA := let th' := fresh in let E := fresh in
  intros th' E; first [discriminate E | inv E; cbn; first [exact OKA | solve [auto] | intuition congruence]].

(* the attempt was not an owner *)
Ltac own_none EPC := let c := fresh in let X := fresh in
  intros c X; cbn in X; rewrite EPC in X; exfalso; tauto.

Ltac own_keep EPC OKA := let c := fresh in let X := fresh in
  intros c X _; cbn in X; rewrite EPC in X; eexists; split; [reflexivity|cbn; intuition].
Ltac own_off EPC := let c := fresh in let X := fresh in let PR := fresh in let O := fresh in
  intros c X PR; exfalso; cbn in X; rewrite EPC in X; destruct X as [<- O]; corep; prw;
  first [ congruence | rewrite upd_same in PR; discriminate PR ].
Ltac att_cases H :=
  repeat match type of H with
    | (if ?c then _ else _) = _ => destruct c eqn:?
    | match ?o with Some _ => _ | None => _ end = _ => destruct o eqn:?
    | match ?k with Cli => _ | Srv => _ end = _ => destruct k eqn:?
    end; try discriminate; inv H; cbv zeta;
  repeat (match goal with |- context [if ?x then _ else _] => destruct x eqn:? end);
  repeat (match goal with |- context [match hub ?s0 ?c with Some _ => _ | None => _ end] => destruct (hub s0 c) eqn:? end);
  repeat (match goal with |- context [if ?x then _ else _] => destruct x eqn:? end).
Ltac att_plain PI ET FR s OKA EPC :=
  pplain PI ET FR s; [att_ok OKA | first [solve [own_none EPC] | solve [own_off EPC] | solve [own_keep EPC OKA]]].

(* c.channels changes at one channel, presence unchanged *)
Lemma P_chan s s' t th o' c0 :
  PInv s -> thr s t = Some th -> thr s' = upd (thr s) t o' ->
  chans_step s s' -> NoDup (keys (chans s')) ->
  (forall c1, c1 <> c0 -> lookup c1 (chans s') = lookup c1 (chans s)) ->
  (live_pres s c0 -> live_pres s' c0 \/ exists th', o' = Some th' /\ pown s' th' c0) ->
  genctr s <= genctr s' -> pres s' = pres s ->
  (forall th', o' = Some th' -> pthread_ok s' th') ->
  (forall c, pown s th c -> live_pres s' c \/ exists th', o' = Some th' /\ pown s' th' c) ->
  PInv s'.
Proof.
  intros PI ET TH CS ND OTH L0 GE PR OK OWN.
  eapply P_step with (nt := 0) (x := new_close); eauto.
  - intros c X. left. rewrite <- PR. auto.
  - intros c L _. destruct (N.eqb_spec c c0); [subst; auto|]. left. eapply live_other; eauto.
Qed.

Lemma lookup_insert_other {V} c1 c0 (x : V) m : c1 <> c0 -> lookup c1 (insert c0 x m) = lookup c1 m.
Proof. intros NE. rewrite lookup_insert. destruct (N.eqb_spec c1 c0); tauto. Qed.
Lemma lookup_remove_other {V} c1 c0 (m : amap V) : c1 <> c0 -> lookup c1 (remove c0 m) = lookup c1 m.
Proof. intros NE. rewrite lookup_remove. destruct (N.eqb_spec c1 c0); tauto. Qed.

(* what the routing invariant says at the commit point / at the rollback delete *)
Lemma commit_entry s t a r :
  Inv s -> thr s t = Some (TAtt a) -> a_pc a = PCommit ->
  lookup (a_ch a) (chans s) = Some r -> c_sub r = false.
Proof.
  intros I ET EPC EL.
  pose proof (i_thr _ _ _ _ _ _ _ _ I t) as TO. rewrite ET in TO. cbn in TO. rewrite EPC in TO.
  destruct (i_res _ _ _ _ _ _ _ _ I _ _ _ TO) as ((x & L & _ & S) & _). congruence.
Qed.
Lemma errdel_entry s t a r :
  Inv s -> thr s t = Some (TAtt a) -> a_pc a = PErrDelete ->
  lookup (a_ch a) (chans s) = Some r -> c_gen r = a_own a -> c_sub r = false.
Proof.
  intros I ET EPC EL G.
  pose proof (i_thr _ _ _ _ _ _ _ _ I t) as TO. rewrite ET in TO. cbn in TO. rewrite EPC in TO.
  pose proof (i_chans _ _ _ _ _ _ _ _ I _ _ EL) as C. destruct (c_sub r); auto.
  destruct C as [C _]. rewrite G in C. destruct TO; congruence.
Qed.

Lemma att_step_P s t a b s' :
  Inv s -> PInv s -> thr s t = Some (TAtt a) -> att_step s t a b = Some s' -> PInv s'.
Proof.
  intros I PI ET H. unfold att_step in H.
  assert (FR : thr s (2 * next_int s + 1) = None) by (eapply fresh_int; eauto).
  pose proof (p_thr _ PI _ _ ET) as OKA. cbn in OKA.
  destruct (a_pc a) eqn:EPC.
  - (* PReserve *)
    destruct (is_srv (a_kind a) && is_closed (status s)) eqn:?; [inv H; att_plain PI ET FR s OKA EPC|].
    destruct (lookup (a_ch a) (chans s)) eqn:EL; [inv H; att_plain PI ET FR s OKA EPC|].
    assert (NL : ~ live_pres s (a_ch a)) by (intros (x & L & _); congruence).
    destruct (a_kind a) eqn:EK; inv H;
    (eapply P_chan with (t := t) (c0 := a_ch a);
     [ exact PI | exact ET | corep; reflexivity
     | eapply cs_reserve with (c0 := a_ch a); corep; reflexivity
     | corep; apply nd_insert; apply PI
     | intros c1 NE; corep; apply lookup_insert_other; auto
     | intros L; exfalso; auto
     | corep; lia | corep; reflexivity
     | att_ok OKA
     | own_none EPC ]).
  - (* PHandler *) att_cases H; att_plain PI ET FR s OKA EPC.
  - (* PGenStamp *) att_cases H; att_plain PI ET FR s OKA EPC.
  - (* PPreAdd *) att_cases H; att_plain PI ET FR s OKA EPC.
  - (* PHubAdd1 *) att_cases H; att_plain PI ET FR s OKA EPC.
  - (* PHubAdd2 *) att_cases H; att_plain PI ET FR s OKA EPC.
  - (* PPostAdd *) att_cases H; att_plain PI ET FR s OKA EPC.
  - (* PPresAdd *)
    destruct (o_pres (a_opts a)) eqn:EO; [destruct b|]; inv H.
    + eapply P_step with (t := t) (nt := 0) (x := new_close);
      [ exact PI | exact ET | left; corep; reflexivity | apply cs_same; corep; reflexivity
      | corep; apply PI | corep; lia | att_ok OKA | | | own_none EPC ].
      * intros c PR. corep. unfold upd in PR.
        destruct (N.eqb_spec c (a_ch a)); [|left; exact PR].
        right. right. eexists. split; [reflexivity|]. cbn. auto.
      * intros c L _. left. eapply live_same; [|exact L]. corep. reflexivity.
    + att_plain PI ET FR s OKA EPC.
    + att_plain PI ET FR s OKA EPC.
  - (* PCommit *)
    destruct (lookup (a_ch a) (chans s)) as [r|] eqn:EL; [destruct (c_gen r =? a_use a) eqn:EG|];
      [|inv H; att_plain PI ET FR s OKA EPC|inv H; att_plain PI ET FR s OKA EPC].
    pose proof (commit_entry _ _ _ _ I ET EPC EL) as SR. apply N.eqb_eq in EG.
    assert (NL : ~ live_pres s (a_ch a)) by (intros (x & L & S & _); congruence).
    destruct (is_closed (status s)); inv H.
    + eapply P_chan with (t := t) (c0 := a_ch a);
      [ exact PI | exact ET | corep; reflexivity
      | eapply cs_remove with (c0 := a_ch a); corep; reflexivity
      | corep; apply nd_remove; apply PI
      | intros c1 NE; corep; apply lookup_remove_other; auto
      | intros L; exfalso; auto
      | corep; lia | corep; reflexivity | att_ok OKA | ].
      intros c X. cbn in X. rewrite EPC in X. right. eexists. split; [reflexivity|]. cbn. intuition.
    + eapply P_chan with (t := t) (c0 := a_ch a);
      [ exact PI | exact ET | corep; reflexivity
      | eapply cs_install with (c0 := a_ch a) (r := r); [corep; reflexivity|exact EL|cbn; auto|exact SR]
      | corep; apply nd_insert; apply PI
      | intros c1 NE; corep; apply lookup_insert_other; auto
      | intros L; exfalso; auto
      | corep; lia | corep; reflexivity | att_ok OKA | ].
      intros c X. cbn in X. rewrite EPC in X. destruct X as [<- PD]. left.
      eexists. corep. rewrite lookup_insert, N.eqb_refl. split; [reflexivity|]. cbn. auto.
  - (* PLostHubRem *) att_cases H; att_plain PI ET FR s OKA EPC.
  - (* PLostPresRem *) att_cases H; att_plain PI ET FR s OKA EPC.
  - (* PClosedHubRem *) att_cases H; att_plain PI ET FR s OKA EPC.
  - (* PClosedPresRem *) att_cases H; att_plain PI ET FR s OKA EPC.
  - (* PClosedGate *) att_cases H; att_plain PI ET FR s OKA EPC.
  - (* PRelease *) att_cases H; att_plain PI ET FR s OKA EPC.
  - (* PPush *) att_cases H; att_plain PI ET FR s OKA EPC.
  - (* PJoin *) att_cases H; att_plain PI ET FR s OKA EPC.
  - (* PFailPres *) att_cases H; att_plain PI ET FR s OKA EPC.
  - (* PErrDelete *)
    destruct (lookup (a_ch a) (chans s)) as [r|] eqn:EL; [destruct (c_gen r =? a_own a) eqn:EG|];
      [|inv H; att_plain PI ET FR s OKA EPC|inv H; att_plain PI ET FR s OKA EPC].
    apply N.eqb_eq in EG. pose proof (errdel_entry _ _ _ _ I ET EPC EL EG) as SR.
    assert (NL : ~ live_pres s (a_ch a)) by (intros (x & L & S & _); congruence).
    inv H.
    eapply P_chan with (t := t) (c0 := a_ch a);
      [ exact PI | exact ET | corep; reflexivity
      | eapply cs_remove with (c0 := a_ch a); corep; reflexivity
      | corep; apply nd_remove; apply PI
      | intros c1 NE; corep; apply lookup_remove_other; auto
      | intros L; exfalso; auto
      | corep; lia | corep; reflexivity | att_ok OKA | own_none EPC ].
  - (* PErrHubRem *) att_cases H; att_plain PI ET FR s OKA EPC.
  - (* PErrGate *) att_cases H; att_plain PI ET FR s OKA EPC.
  - (* PErrOut *) att_cases H; att_plain PI ET FR s OKA EPC.
Qed.

(* ---- unsubscribe, run by its own thread or inline by the winning close ---- *)
Record pemb (emb : option urec -> option thread) : Prop := {
  pe_some : forall u, exists th, emb (Some u) = Some th /\
              (forall s, pthread_ok s th <-> u_sees s u) /\ (forall s c, pown s th c <-> urem u c);
  pe_none : forall th, emb None = Some th -> (forall s, pthread_ok s th) /\ (forall s c, ~ pown s th c)
}.
Lemma pemb_uns : pemb (fun o => match o with Some u => Some (TUns u) | None => None end).
Proof. constructor; [intros u; eexists; split; [reflexivity|cbn; tauto]|discriminate]. Qed.
Lemma pemb_cls prev rest : pemb (fun o => Some (TCls (mkC CLoop prev rest o))).
Proof.
  constructor.
  - intros u. eexists. split; [reflexivity|]. cbn. split; [tauto|]. intros s c. split.
    + intros (_ & u0 & E & U). inv E. auto.
    + intros U. split; auto. eauto.
  - intros th E. inv E. cbn. split; auto. intros s c (_ & u0 & E & _). discriminate.
Qed.

Lemma P_u emb s s' t u ou :
  pemb emb -> PInv s -> thr s t = emb (Some u) -> thr s' = upd (thr s) t (emb ou) ->
  chans_step s s' -> NoDup (keys (chans s')) -> genctr s <= genctr s' ->
  match ou with Some u' => u_sees s' u' | None => True end ->
  (forall c, pres s' c = true -> pres s c = true) ->
  (forall c, live_pres s c -> pres s' c = true -> live_pres s' c \/ exists u', ou = Some u' /\ urem u' c) ->
  (forall c, urem u c -> pres s' c = true -> exists u', ou = Some u' /\ urem u' c) ->
  PInv s'.
Proof.
  intros PE PI ET TH CS ND GE OK PR LIVE OWN.
  destruct (pe_some _ PE u) as (th & ETH & OKE & OWE). rewrite ETH in ET.
  assert (CONV : forall c, (exists u', ou = Some u' /\ urem u' c) ->
                           exists th', emb ou = Some th' /\ pown s' th' c).
  { intros c (u' & -> & U). destruct (pe_some _ PE u') as (th' & E' & _ & OW'). exists th'. split; auto.
    apply OW'. auto. }
  eapply P_step with (t := t) (nt := 0) (x := new_close) (o' := emb ou);
    [exact PI|exact ET|left; exact TH|exact CS|exact ND|exact GE| | | | ].
  - intros th' E'. destruct ou as [u'|].
    + destruct (pe_some _ PE u') as (th2 & E2 & OK2 & _). rewrite E2 in E'. inv E'. apply OK2. auto.
    + apply (pe_none _ PE _ E').
  - intros c X. left. auto.
  - intros c L X. destruct (LIVE c L X); auto.
  - intros c O X. right. apply CONV. apply OWN; auto. apply (OWE s c). auto.
Qed.

Ltac u_ifs :=
  repeat match goal with H : context [if ?x then _ else _] |- _ => destruct x eqn:? end.
Ltac u_plain PE PI ET TH EC EG EP EPC t u emb :=
  eapply P_u with (t := t) (u := u) (emb := emb);
  [ exact PE | exact PI | exact ET
  | rewrite TH; corep; prw; reflexivity
  | apply cs_same; rewrite EC; corep; prw; reflexivity
  | rewrite EC; corep; prw; apply PI
  | rewrite EG; corep; prw; lia
  | first [exact Logic.I | let X := fresh in cbn; intros X; discriminate X | idtac]
  | rewrite EP; pres_shrinks
  | let c := fresh in let L := fresh in
    intros c L _; left; eapply live_same; [|exact L]; rewrite EC; corep; prw; reflexivity
  | first [ let c := fresh in let X := fresh in
            intros c (_ & X & _); rewrite EPC in X; discriminate X
          | idtac ] ].

Lemma u_step_P emb s t u b s1 ou :
  pemb emb -> emb_ok emb -> Inv s -> PInv s -> thr s t = emb (Some u) -> u_step s t u b = Some (s1, ou) ->
  forall s', chans s' = chans s1 -> genctr s' = genctr s1 -> pres s' = pres s1 ->
             thr s' = upd (thr s1) t (emb ou) -> PInv s'.
Proof.
  intros PE E I PI ET H s' EC EG EP TH. unfold u_step in H.
  pose proof (u_okk emb s t u E I ET) as OK. unfold u_ok in OK.
  assert (SEES : u_sees s u).
  { destruct (pe_some _ PE u) as (th & ETH & OKE & _). apply OKE. apply (p_thr _ PI t). congruence. }
  destruct (u_pc u) eqn:EPC.
  - (* UStart *)
    destruct (is_closed (status s)); inv H; u_plain PE PI ET TH EC EG EP EPC t u emb.
  - (* USnap *)
    destruct (lookup (u_ch u) (chans s)) as [x|] eqn:L.
    + pose proof (i_chans _ _ _ _ _ _ _ _ I _ _ L) as CX.
      destruct (negb (c_srv x) && negb (c_sub x) && c_gate x) eqn:EW; inv H;
        u_plain PE PI ET TH EC EG EP EPC t u emb.
      intros _. cbn. rewrite EC, EG. split.
      * apply (i_bound _ _ _ _ _ _ _ _ I). destruct (c_sub x); [destruct CX as [-> _]|destruct CX as (_ & _ & t1 & ->)]; discriminate.
      * intros x' L' _. rewrite L in L'. inv L'. split; auto.
        destruct (c_sub x'); auto. destruct CX as (G1 & G2 & _). rewrite G1, G2 in EW. discriminate.
    + inv H. u_plain PE PI ET TH EC EG EP EPC t u emb.
  - (* UWait *)
    destruct (gclosed s (u_wg u)) eqn:GC; [|discriminate].
    pose proof (i_gcl _ _ _ _ _ _ _ _ I _ GC) as PC. rewrite OK in PC.
    destruct (lookup (u_ch u) (chans s)) as [x|] eqn:L; inv H; u_plain PE PI ET TH EC EG EP EPC t u emb.
    intros _. cbn. rewrite EC, EG. split.
    + apply (i_bound _ _ _ _ _ _ _ _ I). intros Z. rewrite Z in PC. exact PC.
    + intros x' L' G'. rewrite L in L'. inv L'. split; auto.
      pose proof (i_chans _ _ _ _ _ _ _ _ I _ _ L) as CX.
      destruct (c_sub x'); auto. destruct CX as (_ & _ & t1 & E1). rewrite <- G', E1 in PC. destruct PC.
  - (* UDelete *)
    destruct (SEES EPC) as [B SX].
    destruct (lookup (u_ch u) (chans s)) as [x|] eqn:L; [destruct (N.eqb_spec (c_gen x) (u_tgt u)) as [EGX|NG]|];
      [|inv H; u_plain PE PI ET TH EC EG EP EPC t u emb|inv H; u_plain PE PI ET TH EC EG EP EPC t u emb].
    destruct (SX _ eq_refl EGX) as [SB CTX]. injection H as E1 E2. subst s1 ou. u_ifs.
    all: eapply P_u with (t := t) (u := u) (emb := emb);
      [ exact PE | exact PI | exact ET
      | rewrite TH; corep; prw; reflexivity
      | eapply cs_remove with (c0 := u_ch u); rewrite EC; corep; prw; reflexivity
      | rewrite EC; corep; prw; apply nd_remove; apply PI
      | rewrite EG; corep; prw; lia
      | let X := fresh in cbn; intros X; discriminate X
      | rewrite EP; pres_shrinks
      |
      | let c := fresh in let X := fresh in intros c (_ & X & _); rewrite EPC in X; discriminate X ].
    all: intros c LV _; destruct (N.eqb_spec c (u_ch u));
      [ subst c; right; eexists; split; [reflexivity|]; destruct LV as (x' & L' & S' & P'); rewrite L in L'; injection L' as <-;
        unfold urem; cbn; rewrite CTX; auto
      | left; eapply live_other with (c0 := u_ch u); [|exact n|exact LV];
        intros c1 NE; rewrite EC; corep; prw; apply lookup_remove_other; auto ].
  - (* UPres *)
    inv H. u_ifs; u_plain PE PI ET TH EC EG EP EPC t u emb.
    + intros c (<- & _ & S & P) X. exfalso. rewrite EP in X. corep. rewrite upd_same in X. discriminate X.
    + intros c (<- & _ & S & P) X. exfalso. rewrite S, P in *. discriminate.
  - (* ULeave *) inv H. u_ifs; u_plain PE PI ET TH EC EG EP EPC t u emb.
  - (* UHubRem *) destruct (slock s (u_ch u)); inv H. u_plain PE PI ET TH EC EG EP EPC t u emb.
  - (* UHandler *) inv H. u_ifs; u_plain PE PI ET TH EC EG EP EPC t u emb.
Qed.

(* ---- presence tick ---- *)
Lemma raced_in s l c g : In (c, g) l -> ~ has_gen s c g -> In c (raced_items s l).
Proof.
  unfold raced_items. intros IN NG. apply in_map_iff. exists (c, g). split; auto.
  apply filter_In. split; auto. cbn. destruct (lookup c (chans s)) as [x|] eqn:L; auto.
  apply negb_true_iff. apply N.eqb_neq. intros E. apply NG. exists x. auto.
Qed.

Lemma pres_items_ok s p : Inv s -> NoDup (keys (chans s)) -> In p (pres_items (chans s)) -> item_ok s p.
Proof.
  unfold pres_items. intros I ND IN. apply in_map_iff in IN. destruct IN as ([c y] & <- & F).
  apply filter_In in F. destruct F as [IN F]. cbn in *. apply andb_true_iff in F. destruct F as [SY PY].
  pose proof (in_lookup _ _ _ ND IN) as L. split; cbn.
  - apply (i_bound _ _ _ _ _ _ _ _ I). pose proof (i_chans _ _ _ _ _ _ _ _ I _ _ L) as CX.
    rewrite SY in CX. destruct CX as [-> _]. discriminate.
  - intros x L' _. rewrite L in L'. inv L'. auto.
Qed.

Lemma tck_ok_sub s s' k k' :
  chans s' = chans s -> genctr s' = genctr s -> pthread_ok s (TTck k) ->
  (forall p, In p (t_todo k') \/ In p (t_added k') -> In p (t_todo k) \/ In p (t_added k)) ->
  pthread_ok s' (TTck k').
Proof.
  intros EC EG OK SUB. cbn. intros p X. eapply item_ok_step; [apply cs_same; eauto|lia|]. apply OK. auto.
Qed.

Lemma has_gen_eq s s' c g : chans s' = chans s -> has_gen s' c g <-> has_gen s c g.
Proof. intros E. unfold has_gen. rewrite E. tauto. Qed.

Ltac tck_ok OKK k := let th' := fresh in let E := fresh in
  intros th' E; first [ discriminate E
  | inv E; refine (tck_ok_sub _ _ k _ _ _ OKK _);
    [ corep; prw; reflexivity | corep; prw; reflexivity
    | cbn; intros ?p; repeat match goal with H : t_todo k = _ |- _ => rewrite H end; cbn; intuition ] ].
Ltac tck_keep EPC := let c := fresh in let X := fresh in let g := fresh in let IN := fresh in let NG := fresh in
  intros c X _; cbn in X; rewrite EPC in X; destruct X as (g & IN & NG);
  eexists; split; [reflexivity|]; cbn; exists g; split; [cbn; auto|];
  let Y := fresh in intros Y; apply NG; eapply has_gen_eq; [|exact Y]; corep; prw; reflexivity.

Lemma tck_step_P s t k b s' :
  Inv s -> PInv s -> thr s t = Some (TTck k) -> tck_step s t k b = Some s' -> PInv s'.
Proof.
  intros I PI ET H. unfold tck_step in H.
  assert (FR : thr s (2 * next_int s + 1) = None) by (eapply fresh_int; eauto).
  pose proof (p_thr _ PI _ _ ET) as OKK.
  destruct (t_pc k) eqn:EPC.
  - (* TCas *) destruct (pinfl s); inv H; (pplain PI ET FR s; [tck_ok OKK k|own_none EPC]).
  - (* TLock *) destruct (pmu s); [discriminate|]. inv H. pplain PI ET FR s; [tck_ok OKK k|own_none EPC].
  - (* TSnap *)
    destruct (is_closed (status s)); inv H; (pplain PI ET FR s; [|own_none EPC]).
    + tck_ok OKK k.
    + intros th' E. inv E. cbn. intros p [X|[]]. unfold item_ok. corep.
      apply pres_items_ok; auto. apply PI.
  - (* TAlive *) destruct (hreg s); inv H; (pplain PI ET FR s; [tck_ok OKK k|own_none EPC]).
  - (* TCheck *)
    destruct (t_todo k) as [|c r] eqn:ET0; [|destruct (closing s); [|destruct (lookup (fst c) (chans s))]];
      inv H; (pplain PI ET FR s; [tck_ok OKK k|tck_keep EPC]).
  - (* TAdd *)
    destruct (t_todo k) as [|c r] eqn:ET0; [inv H; pplain PI ET FR s; [tck_ok OKK k|tck_keep EPC]|].
    destruct b; inv H; [|pplain PI ET FR s; [tck_ok OKK k|tck_keep EPC]].
    assert (IC : item_ok s c) by (apply OKK; left; rewrite ET0; left; auto).
    eapply P_step with (t := t) (nt := 0) (x := new_close);
      [ exact PI | exact ET | left; corep; reflexivity | apply cs_same; corep; reflexivity
      | corep; apply PI | corep; lia | tck_ok OKK k | | | ].
    + intros c0 PR. corep. unfold upd in PR. destruct (N.eqb_spec c0 (fst c)) as [EQ|NE]; [subst c0|left; exact PR].
      right. destruct IC as [_ IC].
      destruct (lookup (fst c) (chans s)) as [x|] eqn:L; [destruct (N.eqb_spec (c_gen x) (snd c)) as [EGX|NG]|].
      * left. exists x. corep. destruct (IC x eq_refl EGX). auto.
      * right. eexists. split; [reflexivity|]. cbn. exists (snd c). split; [left; destruct c; reflexivity|].
        intros (x' & L' & G'). corep. congruence.
      * right. eexists. split; [reflexivity|]. cbn. exists (snd c). split; [left; destruct c; reflexivity|].
        intros (x' & L' & G'). corep. congruence.
    + intros c0 LV _. left. eapply live_same; [|exact LV]. corep. reflexivity.
    + intros c0 X PR. right. revert c0 X PR. tck_keep EPC.
  - (* TComp *)
    inv H. pplain PI ET FR s; [tck_ok OKK k|].
    intros c X _. cbn in X. rewrite EPC in X. destruct X as (g & IN & NG).
    eexists. split; [reflexivity|]. cbn. eapply raced_in; eauto.
  - (* TCompRem *)
    destruct (t_rem k) as [|c r] eqn:ET0; inv H; (pplain PI ET FR s; [tck_ok OKK k|]).
    + intros c X _. cbn in X. rewrite EPC, ET0 in X. destruct X.
    + intros c0 X PR. cbn in X. rewrite EPC, ET0 in X. destruct X as [<-|X].
      * exfalso. corep. rewrite upd_same in PR. discriminate PR.
      * eexists. split; [reflexivity|]. cbn. auto.
  - (* TEnd *) inv H. pplain PI ET FR s; [tck_ok OKK k|own_none EPC].
Qed.

(* ---- the other threads ---- *)
Lemma cls_ok_keep s s' k k' :
  chans s' = chans s -> genctr s' = genctr s -> pthread_ok s (TCls k) ->
  (k_cur k' = k_cur k \/ k_cur k' = None \/ exists c, k_cur k' = Some (new_u c USnap)) ->
  pthread_ok s' (TCls k').
Proof.
  intros EC EG OK [E|[E|(c & E)]]; cbn; rewrite E; auto.
  - apply (pthread_ok_eq s s' (TCls k)); auto.
  - intros X. discriminate X.
Qed.

Ltac cls_ok OKK k := let th' := fresh in let E := fresh in
  intros th' E; first [ discriminate E
  | inv E; refine (cls_ok_keep _ _ k _ _ _ OKK _);
    [ corep; prw; reflexivity | corep; prw; reflexivity
    | cbn; first [left; reflexivity | right; left; reflexivity | right; right; eexists; reflexivity] ] ].
Ltac cls_none EPC := let c := fresh in let X := fresh in
  intros c X; cbn in X; rewrite EPC in X; exfalso; destruct X as [X _]; discriminate X.

Lemma cls_step_P s t k b s' :
  Inv s -> PInv s -> thr s t = Some (TCls k) -> cls_step s t k b = Some s' -> PInv s'.
Proof.
  intros I PI ET H. unfold cls_step in H.
  assert (FR : thr s (2 * next_int s + 1) = None) by (eapply fresh_int; eauto).
  pose proof (p_thr _ PI _ _ ET) as OKK.
  destruct (k_pc k) eqn:EPC.
  8:{ (* CLoop *)
    destruct (k_cur k) as [u|] eqn:EC.
    - destruct (u_step s t u b) as [[s1 ou]|] eqn:EU; [|discriminate]. inv H.
      eapply (u_step_P _ s t u b s1 ou (pemb_cls (k_prev k) (k_rest k)) (emb_cls (k_prev k) (k_rest k)) I PI);
        [|exact EU|corep; reflexivity..].
      rewrite ET. f_equal. f_equal. destruct k; cbn in *. congruence.
    - destruct (k_rest k); [|destruct b]; inv H;
        (pplain PI ET FR s; [cls_ok OKK k|]);
        intros c0 X; cbn in X; rewrite EC in X; destruct X as (_ & u0 & X & _); discriminate X. }
  all: repeat match type of H with
       | (if ?c then _ else _) = _ => destruct c eqn:?
       end; try discriminate; inv H;
       repeat (match goal with |- context [if ?x then _ else _] => destruct x eqn:? end);
       (pplain PI ET FR s; [cls_ok OKK k|cls_none EPC]).
Qed.

Ltac triv_ok := let th' := fresh in let E := fresh in
  intros th' E; first [discriminate E | inv E; exact Logic.I].
Ltac triv_none := let c := fresh in let X := fresh in intros c X; cbn in X; exfalso; exact X.

Lemma con_step_P s t pc b s' :
  Inv s -> PInv s -> thr s t = Some (TCon pc) -> con_step s t pc b = Some s' -> PInv s'.
Proof.
  intros I PI ET H. unfold con_step in H.
  assert (FR : thr s (2 * next_int s + 1) = None) by (eapply fresh_int; eauto).
  destruct pc;
    repeat match type of H with
    | (if ?c then _ else _) = _ => destruct c eqn:?
    end; try discriminate; inv H;
    repeat (match goal with |- context [if ?x then _ else _] => destruct x eqn:? end);
    (pplain PI ET FR s; [triv_ok|triv_none]).
Qed.

Lemma job_step_P s t c b s' :
  Inv s -> PInv s -> thr s t = Some (TJob c) -> job_step s t c b = Some s' -> PInv s'.
Proof.
  intros I PI ET H. unfold job_step in H.
  assert (FR : thr s (2 * next_int s + 1) = None) by (eapply fresh_int; eauto).
  destruct b; inv H; (pplain PI ET FR s; [triv_ok|triv_none]).
Qed.

Lemma step_thread_P s t b s' : Inv s -> PInv s -> step_thread s t b = Some s' -> PInv s'.
Proof.
  intros I PI H. unfold step_thread in H. destruct (thr s t) as [[a|u|k|k|pc|c]|] eqn:ET; try discriminate.
  - eapply att_step_P; eauto.
  - destruct (u_step s t u b) as [[s1 [u'|]]|] eqn:EU; inv H;
      (eapply (u_step_P _ s t u b _ _ pemb_uns emb_uns I PI ET EU); corep; reflexivity).
  - eapply cls_step_P; eauto.
  - eapply tck_step_P; eauto.
  - eapply con_step_P; eauto.
  - eapply job_step_P; eauto.
Qed.

(* an action of no running thread: at most a new thread appears *)
Lemma P_frame s s' :
  PInv s -> chans s' = chans s -> genctr s <= genctr s' -> pres s' = pres s ->
  (thr s' = thr s \/ exists nt x, thr s' = upd (thr s) nt (Some x) /\ thr s nt = None /\ pthread_ok s' x) ->
  PInv s'.
Proof.
  intros [P1 P2 P3] EC GE EP TH.
  assert (CS : chans_step s s') by (apply cs_same; auto).
  assert (OTH : forall t0 th0, thr s t0 = Some th0 -> thr s' t0 = Some th0).
  { intros t0 th0 E0. destruct TH as [-> |(nt & x & -> & FR & _)]; auto.
    rewrite upd_other; auto. intros ->. congruence. }
  constructor.
  - intros c X. rewrite EP in X. destruct (P1 c X) as [L|(t0 & th0 & E0 & O0)].
    + left. eapply live_same; eauto.
    + right. exists t0, th0. split; auto. eapply pown_step; eauto.
  - intros t0 th0 E0. destruct TH as [E|(nt & x & E & FR & OKX)]; rewrite E in E0.
    + eapply pthread_ok_step; eauto.
    + unfold upd in E0. destruct (N.eqb_spec t0 nt); [inv E0; auto|eapply pthread_ok_step; eauto].
  - rewrite EC. auto.
Qed.

Lemma spawn_P s o s' : Inv s -> PInv s -> spawn s o = Some s' -> PInv s'.
Proof.
  intros I PI H. unfold spawn in H.
  assert (FRE : thr s (2 * next_ext s) = None) by (eapply fresh_ext; eauto).
  assert (FR : thr s (2 * next_int s + 1) = None) by (eapply fresh_int; eauto).
  destruct o;
    repeat match type of H with
    | (if ?c then _ else _) = _ => destruct c eqn:?
    end; try discriminate; inv H;
    repeat (match goal with |- context [if ?x then _ else _] => destruct x eqn:? end);
    (eapply P_frame; [exact PI|corep; reflexivity|corep; lia|corep; reflexivity|]);
    first [ left; corep; reflexivity
          | right; eexists; eexists; split; [corep; reflexivity|split; [first [exact FRE|exact FR]|]];
            cbn; try (intros X; discriminate X); try (intros p [[]|[]]); auto ].
Qed.

Lemma astep_P s l s' : Inv s -> PInv s -> is_timeout l = false -> astep s l = Some s' -> PInv s'.
Proof.
  intros I PI NT H. destruct l; cbn in *; try discriminate.
  - eapply spawn_P; eauto.
  - eapply step_thread_P; eauto.
  - unfold job_start in H. destruct (mem c (jobs s) && negb (slock s c)); [|discriminate].
    destruct (subscribers s c); inv H;
      (eapply P_frame; [exact PI|corep; reflexivity|corep; lia|corep; reflexivity|]).
    + left. corep. reflexivity.
    + right. eexists. eexists. split; [corep; reflexivity|split; [eapply fresh_int; eauto|exact Logic.I]].
  - unfold other_add in H. destruct (slock s c); [discriminate|].
    destruct (subscribers s c); [|destruct b]; inv H;
      (eapply P_frame; [exact PI|corep; reflexivity|corep; lia|corep; reflexivity|left; corep; reflexivity]).
  - unfold other_rem in H. destruct (slock s c || (others s c =? 0)); [discriminate|].
    destruct ((others s c =? 1) && match hub s c with None => true | Some _ => false end); inv H;
      (eapply P_frame; [exact PI|corep; reflexivity|corep; lia|corep; reflexivity|left; corep; reflexivity]).
Qed.

Theorem exec_P l : forall s s', Inv s -> PInv s -> no_timeout l = true -> exec l s = Some s' -> PInv s'.
Proof.
  induction l as [|x l IH]; intros s s' I PI NT H; cbn in *.
  - inv H. auto.
  - apply andb_true_iff in NT. destruct NT as [NX NT]. apply negb_true_iff in NX.
    destruct (astep s x) as [s1|] eqn:E; [|discriminate].
    eapply IH; [eapply astep_inv; eauto|eapply astep_P; eauto|auto|eauto].
Qed.

(* the presence set at rest: only what a subscription with presence accounts for *)
Theorem presence_settled sched s c :
  no_timeout sched = true -> exec sched init = Some s -> settled s ->
  pres s c = true -> live_pres s c.
Proof.
  intros NT EX ST PR.
  pose proof (exec_P _ _ _ Inv_init PInv_init NT EX) as PI.
  destruct (p_own _ PI c PR) as [L|(t & th & E & _)]; auto. rewrite ST in E. discriminate.
Qed.
