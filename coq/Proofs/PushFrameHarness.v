(* C33: the model meets the oracle's expectation for every in-domain builder input,
   and the decidable oracle is sound. *)
From Coq Require Import List NArith ZArith Bool Lia ZifyBool.
From Cfg Require Import Model.Decimal Model.PushFrame Gen.C33Lua Proofs.Decimal Proofs.PushFrame Harness.C33.
Import ListNotations.
Open Scope N_scope.

Lemma beqb_eq : forall a b, bytes_eqb a b = true -> a = b.
Proof.
  induction a as [|x a IH]; destruct b as [|y b]; cbn [bytes_eqb]; intros H;
    try reflexivity; try discriminate.
  apply andb_true_iff in H. destruct H as [H1 H2].
  apply N.eqb_eq in H1. apply IH in H2. congruence.
Qed.

Lemma push_eqb_eq : forall a b, push_eqb a b = true -> a = b.
Proof.
  intros [d1 t1 o1 e1 dl1 p1 k1] [d2 t2 o2 e2 dl2 p2 k2] H. unfold push_eqb in H.
  cbn [p_data p_type p_off p_epoch p_delta p_prev p_ok] in H.
  repeat (apply andb_true_iff in H; destruct H as [H ?]).
  apply beqb_eq in H. apply beqb_eq in H3. apply beqb_eq in H1.
  apply N.eqb_eq in H4. apply Bool.eqb_prop in H0. apply Bool.eqb_prop in H2.
  assert (t1 = t2) by (destruct t1, t2; cbn in H5; congruence).
  congruence.
Qed.

Lemma outcome_eqb_eq : forall a b, outcome_eqb a b = true -> a = b.
Proof.
  intros [x|] [y|] H; cbn in H; try discriminate; try reflexivity.
  f_equal. now apply push_eqb_eq.
Qed.

(* every builder, every in-domain input: the receiving node decodes what was sent *)
Theorem model_roundtrip : forall k off epoch prev payload,
  in_domain k off epoch prev payload = true ->
  exists b, model_build k off epoch prev payload = Some b /\
            extract true b = Ret (expected k off epoch prev payload).
Proof.
  intros k off epoch prev payload H. destruct k; cbn [in_domain model_build expected] in *.
  - exists (build_plain payload). split; [reflexivity|].
    apply roundtrip_plain. now apply negb_true_iff in H.
  - exists (build_join payload). split; [reflexivity|apply roundtrip_join].
  - exists (build_leave payload). split; [reflexivity|apply roundtrip_leave].
  - apply andb_true_iff in H. destruct H as [H1 H2].
    apply lua_plain_roundtrip; auto. lia.
  - repeat (apply andb_true_iff in H; destruct H as [H ?]).
    apply lua_delta_roundtrip; auto; lia.
  - apply andb_true_iff in H. destruct H as [H1 H2].
    apply lua_plain_roundtrip; auto. lia.
  - repeat (apply andb_true_iff in H; destruct H as [H ?]).
    apply lua_delta_roundtrip; auto; lia.
Qed.

Theorem oracle_sound : forall c, oracle c = true ->
  match c with
  | CParse _ obs => obs <> Panic
  | CBuild k off epoch prev payload _ obs =>
      obs <> Panic /\
      (in_domain k off epoch prev payload = true ->
       obs = Ret (expected k off epoch prev payload))
  | CEpoch e => hdr_ok e = true /\ colon_free e = true
  end.
Proof.
  intros [data obs | k off epoch prev payload built obs | e] H; cbn [oracle] in H.
  - destruct obs; [discriminate|discriminate].
  - apply andb_true_iff in H. destruct H as [H1 H2]. split.
    + destruct obs; discriminate.
    + intros D. rewrite D in H2. now apply outcome_eqb_eq.
  - now apply andb_true_iff in H.
Qed.
