(* Basic facts used by the C20 / C21 / C24 proofs: key equality and order,
   (channel,key) and queue-item orders, association lists. *)
From Coq Require Import List NArith ZArith Bool Lia Permutation.
From Cfg Require Import Model.MapHub.
Import ListNotations.
Open Scope N_scope.

(* split syntactic conjunctions only (never unfolds definitions) *)
Ltac splits := repeat match goal with |- _ /\ _ => split end.

Lemma skipn_skipn' : forall {A} (x y : nat) (l : list A), skipn x (skipn y l) = skipn (y + x) l.
Proof.
  intros A x y. revert x. induction y; intros x l; simpl; auto.
  destruct l; simpl; auto. apply skipn_nil.
Qed.

(* ------------------------------------------------------------------ keys *)
Lemma key_eqb_eq : forall a b, key_eqb a b = true <-> a = b.
Proof.
  induction a as [|x a IH]; destruct b as [|y b]; simpl; split; intro H; try congruence; try discriminate.
  - apply andb_true_iff in H as [H1 H2]. apply N.eqb_eq in H1. apply IH in H2. congruence.
  - inversion H; subst. rewrite N.eqb_refl. simpl. apply IH. reflexivity.
Qed.
Lemma key_eqb_refl : forall a, key_eqb a a = true.
Proof. intro; apply key_eqb_eq; reflexivity. Qed.
Lemma key_eqb_neq : forall a b, key_eqb a b = false <-> a <> b.
Proof.
  intros. split; intro H.
  - intro E. apply key_eqb_eq in E. congruence.
  - destruct (key_eqb a b) eqn:E; auto. apply key_eqb_eq in E. contradiction.
Qed.
Lemma key_eqb_sym : forall a b, key_eqb a b = key_eqb b a.
Proof.
  intros. destruct (key_eqb a b) eqn:E.
  - apply key_eqb_eq in E; subst. symmetry; apply key_eqb_refl.
  - symmetry. apply key_eqb_neq. apply key_eqb_neq in E. congruence.
Qed.

Lemma key_ltb_irrefl : forall a, key_ltb a a = false.
Proof. induction a; simpl; auto. rewrite N.ltb_irrefl. auto. Qed.

Lemma key_ltb_trans : forall a b c, key_ltb a b = true -> key_ltb b c = true -> key_ltb a c = true.
Proof.
  induction a as [|x a IH]; destruct b as [|y b]; destruct c as [|z c]; simpl; intros H1 H2; try discriminate; auto.
  destruct (x <? y) eqn:Exy.
  - apply N.ltb_lt in Exy.
    destruct (y <? z) eqn:Eyz.
    + apply N.ltb_lt in Eyz. assert (x <? z = true) as -> by (apply N.ltb_lt; lia). reflexivity.
    + destruct (z <? y) eqn:Ezy; try discriminate.
      apply N.ltb_ge in Eyz. apply N.ltb_ge in Ezy. assert (y = z) by lia. subst.
      assert (x <? z = true) as -> by (apply N.ltb_lt; lia). reflexivity.
  - destruct (y <? x) eqn:Eyx; try discriminate.
    apply N.ltb_ge in Exy. apply N.ltb_ge in Eyx. assert (x = y) by lia. subst.
    destruct (y <? z) eqn:Eyz; auto.
    destruct (z <? y) eqn:Ezy; try discriminate. eauto.
Qed.

Lemma key_ltb_total : forall a b, a = b \/ key_ltb a b = true \/ key_ltb b a = true.
Proof.
  induction a as [|x a IH]; destruct b as [|y b]; simpl; auto.
  destruct (x <? y) eqn:Exy; auto.
  destruct (y <? x) eqn:Eyx; auto.
  apply N.ltb_ge in Exy. apply N.ltb_ge in Eyx. assert (x = y) by lia. subst.
  destruct (IH b) as [->|[H|H]]; auto.
Qed.

Lemma key_ltb_asym : forall a b, key_ltb a b = true -> key_ltb b a = false.
Proof.
  intros a b H. destruct (key_ltb b a) eqn:E; auto.
  pose proof (key_ltb_trans _ _ _ H E) as T. rewrite key_ltb_irrefl in T. discriminate.
Qed.

Lemma is_empty_true : forall k, is_empty k = true <-> k = [].
Proof. destruct k; simpl; split; congruence. Qed.

(* -------------------------------------------------------- (channel,key) *)
Lemma ck_eqb_eq : forall a b, ck_eqb a b = true <-> a = b.
Proof.
  intros [a1 a2] [b1 b2]. unfold ck_eqb. simpl. rewrite andb_true_iff, N.eqb_eq, key_eqb_eq.
  split; [intros [-> ->]; auto | intro H; inversion H; auto].
Qed.
Lemma ck_eqb_refl : forall a, ck_eqb a a = true.
Proof. intro; apply ck_eqb_eq; reflexivity. Qed.
Lemma N_eqb_eq' : forall a b : N, N.eqb a b = true <-> a = b.
Proof. intros; apply N.eqb_eq. Qed.

Lemma ck_ltb_irrefl : forall a, ck_ltb a a = false.
Proof. intros [a k]. unfold ck_ltb. simpl. rewrite N.ltb_irrefl. apply key_ltb_irrefl. Qed.
Lemma ck_ltb_trans : forall a b c, ck_ltb a b = true -> ck_ltb b c = true -> ck_ltb a c = true.
Proof.
  intros [a ka] [b kb] [c kc]. unfold ck_ltb. simpl.
  destruct (a <? b) eqn:Eab; destruct (b <? c) eqn:Ebc; intros H1 H2;
    repeat match goal with
           | H : (_ <? _) = true |- _ => apply N.ltb_lt in H
           | H : (_ <? _) = false |- _ => apply N.ltb_ge in H
           end.
  - assert (a <? c = true) as -> by (apply N.ltb_lt; lia). reflexivity.
  - destruct (c <? b) eqn:Ecb; try discriminate. apply N.ltb_ge in Ecb. assert (b = c) by lia; subst.
    assert (a <? c = true) as -> by (apply N.ltb_lt; lia). reflexivity.
  - destruct (b <? a) eqn:Eba; try discriminate. apply N.ltb_ge in Eba. assert (a = b) by lia; subst.
    assert (b <? c = true) as -> by (apply N.ltb_lt; lia). reflexivity.
  - destruct (b <? a) eqn:Eba; try discriminate. destruct (c <? b) eqn:Ecb; try discriminate.
    apply N.ltb_ge in Eba. apply N.ltb_ge in Ecb. assert (a = b) by lia. assert (b = c) by lia. subst.
    rewrite N.ltb_irrefl. eapply key_ltb_trans; eauto.
Qed.
Lemma ck_ltb_total : forall a b, a = b \/ ck_ltb a b = true \/ ck_ltb b a = true.
Proof.
  intros [a ka] [b kb]. unfold ck_ltb. simpl.
  destruct (a <? b) eqn:Eab; auto. destruct (b <? a) eqn:Eba; auto.
  apply N.ltb_ge in Eab. apply N.ltb_ge in Eba. assert (a = b) by lia. subst.
  destruct (key_ltb_total ka kb) as [->|[H|H]]; auto.
Qed.

(* queue items ordered by (deadline, channel, key) *)
Lemma item_ltb_irrefl : forall a, item_ltb a a = false.
Proof. intros [k d]. unfold item_ltb. simpl. rewrite N.ltb_irrefl. apply ck_ltb_irrefl. Qed.
Lemma item_ltb_trans : forall a b c, item_ltb a b = true -> item_ltb b c = true -> item_ltb a c = true.
Proof.
  intros [ka a] [kb b] [kc c]. unfold item_ltb. simpl.
  destruct (a <? b) eqn:Eab; destruct (b <? c) eqn:Ebc; intros H1 H2;
    repeat match goal with
           | H : (_ <? _) = true |- _ => apply N.ltb_lt in H
           | H : (_ <? _) = false |- _ => apply N.ltb_ge in H
           end.
  - assert (a <? c = true) as -> by (apply N.ltb_lt; lia). reflexivity.
  - destruct (c <? b) eqn:Ecb; try discriminate. apply N.ltb_ge in Ecb. assert (b = c) by lia; subst.
    assert (a <? c = true) as -> by (apply N.ltb_lt; lia). reflexivity.
  - destruct (b <? a) eqn:Eba; try discriminate. apply N.ltb_ge in Eba. assert (a = b) by lia; subst.
    assert (b <? c = true) as -> by (apply N.ltb_lt; lia). reflexivity.
  - destruct (b <? a) eqn:Eba; try discriminate. destruct (c <? b) eqn:Ecb; try discriminate.
    apply N.ltb_ge in Eba. apply N.ltb_ge in Ecb. assert (a = b) by lia. assert (b = c) by lia. subst.
    rewrite N.ltb_irrefl. eapply ck_ltb_trans; eauto.
Qed.
Lemma item_ltb_total : forall a b, a = b \/ item_ltb a b = true \/ item_ltb b a = true.
Proof.
  intros [ka a] [kb b]. unfold item_ltb. simpl.
  destruct (a <? b) eqn:Eab; auto. destruct (b <? a) eqn:Eba; auto.
  apply N.ltb_ge in Eab. apply N.ltb_ge in Eba. assert (a = b) by lia. subst.
  destruct (ck_ltb_total ka kb) as [->|[H|H]]; auto.
Qed.
Lemma item_ltb_asym : forall a b, item_ltb a b = true -> item_ltb b a = false.
Proof.
  intros a b H. destruct (item_ltb b a) eqn:E; auto.
  pose proof (item_ltb_trans _ _ _ H E) as T. rewrite item_ltb_irrefl in T. discriminate.
Qed.
(* a <= b as "not b < a" *)
Definition item_le (a b : ck * N) : Prop := item_ltb b a = false.
Lemma item_le_refl : forall a, item_le a a.
Proof. intro. apply item_ltb_irrefl. Qed.
Lemma item_le_trans : forall a b c, item_le a b -> item_le b c -> item_le a c.
Proof.
  unfold item_le. intros a b c H1 H2. destruct (item_ltb c a) eqn:E; auto.
  destruct (item_ltb_total a b) as [->|[H|H]]; try congruence.
  destruct (item_ltb_total b c) as [->|[H'|H']]; try congruence.
  pose proof (item_ltb_trans _ _ _ H H'). pose proof (item_ltb_asym _ _ H0). congruence.
Qed.
Lemma item_le_antisym : forall a b, item_le a b -> item_le b a -> a = b.
Proof. unfold item_le. intros a b H1 H2. destruct (item_ltb_total a b) as [->|[H|H]]; congruence. Qed.
Lemma item_lt_le : forall a b, item_ltb a b = true -> item_le a b.
Proof. intros. apply item_ltb_asym. assumption. Qed.
Lemma item_le_total : forall a b, item_le a b \/ item_le b a.
Proof.
  intros. unfold item_le. destruct (item_ltb b a) eqn:E; auto. right. apply item_ltb_asym; auto.
Qed.
Lemma item_le_deadline : forall a b, item_le a b -> snd a <= snd b.
Proof.
  intros [ka a] [kb b]. unfold item_le, item_ltb. simpl.
  destruct (b <? a) eqn:E; try discriminate. intros _. apply N.ltb_ge in E. lia.
Qed.
Lemma deadline_lt_item_le : forall a b, snd a < snd b -> item_le a b.
Proof.
  intros [ka a] [kb b]. unfold item_le, item_ltb. simpl. intro H.
  assert (b <? a = false) as -> by (apply N.ltb_ge; lia).
  assert (a <? b = true) as -> by (apply N.ltb_lt; lia). reflexivity.
Qed.

(* ------------------------------------------------------ association lists *)
Section Assoc.
  Context {K V : Type} (eqb : K -> K -> bool).
  Hypothesis eqb_eq : forall a b, eqb a b = true <-> a = b.

  Lemma eqb_refl' : forall a, eqb a a = true.
  Proof. intro. apply eqb_eq. reflexivity. Qed.
  Lemma eqb_neq' : forall a b, a <> b -> eqb a b = false.
  Proof. intros a b H. destruct (eqb a b) eqn:E; auto. apply eqb_eq in E. contradiction. Qed.

  Lemma aget_aset_same : forall (m : list (K * V)) k v, aget eqb (aset eqb m k v) k = Some v.
  Proof.
    induction m as [|[k' v'] m IH]; intros; simpl.
    - rewrite eqb_refl'. reflexivity.
    - destruct (eqb k k') eqn:E; simpl.
      + rewrite eqb_refl'. reflexivity.
      + rewrite E. apply IH.
  Qed.
  Lemma aget_aset_other : forall (m : list (K * V)) k k' v, k' <> k -> aget eqb (aset eqb m k v) k' = aget eqb m k'.
  Proof.
    induction m as [|[k0 v0] m IH]; intros k k' v N; simpl.
    - rewrite eqb_neq'; auto.
    - destruct (eqb k k0) eqn:E; simpl.
      + apply eqb_eq in E; subst. rewrite !eqb_neq'; auto.
      + destruct (eqb k' k0); auto.
  Qed.
  Lemma aget_adel_same : forall (m : list (K * V)) k, aget eqb (adel eqb m k) k = None.
  Proof.
    induction m as [|[k0 v0] m IH]; intros; simpl; auto.
    destruct (eqb k k0) eqn:E; simpl; auto. rewrite E. apply IH.
  Qed.
  Lemma aget_adel_other : forall (m : list (K * V)) k k', k' <> k -> aget eqb (adel eqb m k) k' = aget eqb m k'.
  Proof.
    induction m as [|[k0 v0] m IH]; intros k k' N; simpl; auto.
    destruct (eqb k k0) eqn:E; simpl.
    - apply eqb_eq in E; subst. rewrite eqb_neq'; auto.
    - destruct (eqb k' k0); auto.
  Qed.
  Lemma aset_same : forall (m : list (K * V)) k v, aget eqb m k = Some v -> aset eqb m k v = m.
  Proof.
    induction m as [|[k0 v0] m IH]; intros k v H; simpl in *; try discriminate.
    destruct (eqb k k0) eqn:E.
    - apply eqb_eq in E; subst. inversion H; subst. reflexivity.
    - f_equal. auto.
  Qed.
  Lemma aset_aset : forall (m : list (K * V)) k v v', aset eqb (aset eqb m k v) k v' = aset eqb m k v'.
  Proof.
    induction m as [|[k0 v0] m IH]; intros k v v'; simpl.
    - rewrite eqb_refl'. reflexivity.
    - destruct (eqb k k0) eqn:E; simpl.
      + rewrite eqb_refl'. reflexivity.
      + rewrite E. f_equal. apply IH.
  Qed.
  Lemma aget_In :forall (m : list (K * V)) k v, aget eqb m k = Some v -> In (k, v) m.
  Proof.
    induction m as [|[k0 v0] m IH]; intros k v H; simpl in *; try discriminate.
    destruct (eqb k k0) eqn:E.
    - apply eqb_eq in E; subst. inversion H; subst. auto.
    - right. auto.
  Qed.
  Lemma aget_None_notin : forall (m : list (K * V)) k, aget eqb m k = None -> ~ In k (map fst m).
  Proof.
    induction m as [|[k0 v0] m IH]; intros k H; simpl in *; auto.
    destruct (eqb k k0) eqn:E; try discriminate.
    intros [->|HI]; [rewrite eqb_refl' in E; discriminate | eapply IH; eauto].
  Qed.
  Lemma In_aget_nodup : forall (m : list (K * V)) k v, NoDup (map fst m) -> In (k, v) m -> aget eqb m k = Some v.
  Proof.
    induction m as [|[k0 v0] m IH]; intros k v ND HI; simpl in *; [contradiction|].
    inversion ND; subst. destruct HI as [E|HI].
    - inversion E; subst. rewrite eqb_refl'. reflexivity.
    - destruct (eqb k k0) eqn:E.
      + apply eqb_eq in E; subst. exfalso. apply H1. change k0 with (fst (k0, v)). apply in_map. assumption.
      + auto.
  Qed.
  Lemma aset_keys_present : forall (m : list (K * V)) k v v0, aget eqb m k = Some v0 -> map fst (aset eqb m k v) = map fst m.
  Proof.
    induction m as [|[k0 v1] m IH]; intros k v v0 H; simpl in *; try discriminate.
    destruct (eqb k k0) eqn:E; simpl.
    - apply eqb_eq in E; subst; reflexivity.
    - f_equal. eauto.
  Qed.
  Lemma aset_keys_absent : forall (m : list (K * V)) k v, aget eqb m k = None -> map fst (aset eqb m k v) = map fst m ++ [k].
  Proof.
    induction m as [|[k0 v1] m IH]; intros k v H; simpl in *; auto.
    destruct (eqb k k0) eqn:E; try discriminate. simpl. f_equal. auto.
  Qed.
  Lemma aset_nodup : forall (m : list (K * V)) k v, NoDup (map fst m) -> NoDup (map fst (aset eqb m k v)).
  Proof.
    intros m k v ND. destruct (aget eqb m k) eqn:E.
    - erewrite aset_keys_present; eauto.
    - rewrite aset_keys_absent; auto.
      apply Permutation_NoDup with (k :: map fst m); [apply Permutation_cons_append|].
      constructor; auto. apply aget_None_notin; auto.
  Qed.
  Lemma adel_keys : forall (m : list (K * V)) k, map fst (adel eqb m k) = filter (fun x => negb (eqb k x)) (map fst m).
  Proof.
    induction m as [|[k0 v1] m IH]; intros; simpl; auto.
    destruct (eqb k k0); simpl; auto. f_equal; auto.
  Qed.
  Lemma adel_nodup : forall (m : list (K * V)) k, NoDup (map fst m) -> NoDup (map fst (adel eqb m k)).
  Proof. intros. rewrite adel_keys. apply NoDup_filter. assumption. Qed.
  Lemma adel_In : forall (m : list (K * V)) k x, In x (adel eqb m k) -> In x m /\ fst x <> k.
  Proof.
    induction m as [|[k0 v1] m IH]; intros k x H; simpl in *; [contradiction|].
    destruct (eqb k k0) eqn:E.
    - apply IH in H as [H1 H2]. auto.
    - destruct H as [<-|H].
      + split; auto. simpl. intro; subst. rewrite eqb_refl' in E. discriminate.
      + apply IH in H as [H1 H2]. auto.
  Qed.
  Lemma In_adel : forall (m : list (K * V)) k x, In x m -> fst x <> k -> In x (adel eqb m k).
  Proof.
    induction m as [|[k0 v1] m IH]; intros k x H N; simpl in *; [contradiction|].
    destruct (eqb k k0) eqn:E.
    - destruct H as [<-|H]; auto. apply eqb_eq in E. simpl in N. congruence.
    - destruct H as [<-|H]; [left; auto | right; auto].
  Qed.
  Lemma adel_absent : forall (m : list (K * V)) k, aget eqb m k = None -> adel eqb m k = m.
  Proof.
    induction m as [|[k0 v1] m IH]; intros k H; simpl in *; auto.
    destruct (eqb k k0) eqn:E; try discriminate. f_equal; auto.
  Qed.
End Assoc.
