(* C11: proofs over Model/Connect.v, all schedules. *)
From Coq Require Import List NArith Bool Lia.
From Cfg Require Import Model.Connect.
Import ListNotations.

Ltac cbreak H :=
  repeat (match type of H with
          | context [match ?x with _ => _ end] =>
              match x with
              | context [match _ with _ => _ end] => fail 1
              | _ => destruct x eqn:?
              end
          end; try discriminate H).
Ltac inv H := inversion H; subst; clear H.

Lemma crun_inv : forall (P : cst -> Prop) c,
  P cinit -> (forall s l s', P s -> cstep c s l = Some s' -> P s') ->
  forall ls s, crun c cinit ls = Some s -> P s.
Proof.
  intros P c H0 Hs ls.
  assert (G : forall s0, P s0 -> forall s, crun c s0 ls = Some s -> P s).
  { induction ls as [|l ls IH]; intros s0 Hp s H; cbn [crun] in H.
    - inv H. exact Hp.
    - destruct (cstep c s0 l) as [s1|] eqn:E; [|discriminate]. eapply IH; [|exact H]. eapply Hs; eauto. }
  intros s H. eapply G; eauto.
Qed.

(* ------------------------------------------------------------------ *)
(* 1. the first frame on the wire is never encoded                      *)

Definition busy_raw (b : option (item * bool)) : bool :=
  match b with Some (_, false) => true | _ => false end.
Definition busy_enc (b : option (item * bool)) : bool :=
  match b with Some (_, true) => true | _ => false end.
Definition head_raw (wl : list wire) : Prop :=
  match wl with [] => True | WRaw _ :: _ => True | WEnc _ :: _ => False end.

Record RawInv (s : cst) : Prop := {
  r_head : head_raw (wlog s);
  r_one : wbusy s = None \/ dbusy s = None;
  r_act : enc s = EActive -> wlog s = [] ->
          busy_raw (wbusy s) = true \/ busy_raw (dbusy s) = true \/ kl s = KDone;
  r_enc : busy_enc (wbusy s) = true \/ busy_enc (dbusy s) = true -> wlog s <> [] \/ kl s = KDone
}.

Lemma head_raw_app : forall wl w, wl <> [] -> head_raw wl -> head_raw (wl ++ [w]).
Proof. intros [|a wl] w H1 H2; [congruence|exact H2]. Qed.

Lemma flush_head : forall q e wl el e' wl' el',
  flush e q wl el = (e', wl', el') -> head_raw wl -> (e = EActive -> wl <> []) ->
  head_raw wl' /\ (e' = EActive -> q <> [] \/ e = EActive) /\ (wl = [] -> q = [] -> wl' = []) /\ (q <> [] -> wl' <> []) /\ (wl <> [] -> wl' <> []).
Proof.
  induction q as [|i q IH]; intros e wl el e' wl' el' H Hh Ha; cbn [flush] in H.
  - inv H. repeat split; auto; try congruence.
  - assert (Hne : forall w, wl ++ [w] <> []) by (intros w; destruct wl; discriminate).
    destruct e.
    + apply IH in H; [|destruct wl; cbn; auto|discriminate].
      destruct H as (A & B & C & D & E). repeat split; auto; try (intros; left; discriminate); try (intros; apply E; apply Hne).
      intros; discriminate.
    + apply IH in H; [|destruct wl; cbn; auto|intros _; apply Hne].
      destruct H as (A & B & C & D & E). repeat split; auto; try (intros; left; discriminate); try (intros; apply E; apply Hne).
      intros; discriminate.
    + apply IH in H; [|apply head_raw_app; auto|intros _; apply Hne].
      destruct H as (A & B & C & D & E). repeat split; auto; try (intros; apply E; apply Hne).
      intros; discriminate.
    + apply IH in H; [|destruct wl; cbn; auto|discriminate].
      destruct H as (A & B & C & D & E). repeat split; auto; try (intros; left; discriminate); try (intros; apply E; apply Hne).
      intros; discriminate.
Qed.

Lemma transport_open_done : forall k, transport_open k = true -> k <> KDone.
Proof. intros k H E. subst. discriminate. Qed.
Lemma transport_closed_done : forall k, transport_open k = false -> k = KDone.
Proof. destruct k; cbn; intros; congruence. Qed.

Lemma raw_step : forall c s l s', RawInv s -> cstep c s l = Some s' -> RawInv s'.
Proof.
  intros c s l s' I H.
  destruct l; unfold cstep, write_begin, write_end in H; cbreak H; inv H.
  all: destruct I as [Hh Ho Ha He].
  all: repeat match goal with E : transport_open _ = true |- _ => apply transport_open_done in E
                         | E : transport_open _ = false |- _ => apply transport_closed_done in E end.
  all: constructor; cbn [wlog wbusy dbusy enc kl busy_raw busy_enc] in *; auto.
  all: try (intros; discriminate).
  all: try (intros [X|X]; discriminate).
  all: try tauto.
  all: repeat match goal with E : wbusy _ = _ |- _ => rewrite E in *; clear E
                         | E : dbusy _ = _ |- _ => rewrite E in * ; clear E end;
       cbn [busy_raw busy_enc] in *.
  all: try tauto.
  all: try (destruct Ho; congruence).
  all: repeat match goal with p : (item * bool)%type |- _ => destruct p end; cbn [busy_raw busy_enc] in *.
  all: try tauto.
  all: try (intros X; destruct (He X) as [Y|Y]; [left; exact Y | first [right; exact Y | congruence]]; fail).
  all: try (intros A B; destruct (Ha A B) as [Y|[Y|Y]]; try discriminate; auto; try congruence; fail).
  all: try (intros _; destruct (wlog s) eqn:Ew; [|left; discriminate];
            match goal with E : enc _ = EActive |- _ => destruct (Ha E eq_refl) as [Y|[Y|Y]]; try discriminate; auto end; fail).
  all: try (apply head_raw_app; [|exact Hh];
            destruct He as [Y|Y]; [left; reflexivity|exact Y|congruence]; fail).
  all: try (apply head_raw_app; [|exact Hh];
            destruct He as [Y|Y]; [right; reflexivity|exact Y|congruence]; fail).
  all: try (destruct (wlog s) eqn:Ew; cbn; try exact I; try exact Hh; fail).
  all: try (intros; destruct (wlog s); cbn in *; try discriminate; auto; fail).
  all: try (intros _; left; destruct (wlog s); discriminate).
  (* writer close with a remaining queue *)
  all: match goal with E : flush _ _ _ _ = _ |- _ =>
         apply flush_head in E; [|exact Hh|];
         [ destruct E as (F1 & F2 & F3 & F4 & F5) | ] end.
  all: try exact F1.
  all: try (intros _ X; exfalso; apply F4; [discriminate|exact X]).
  all: try (intros E; destruct (wlog s) eqn:Ew; [|discriminate];
            destruct (Ha E eq_refl) as [Y|[Y|Y]]; try discriminate; congruence).
Qed.

Lemma raw_init : RawInv cinit.
Proof. constructor; cbn; auto; try discriminate. intros [X|X]; discriminate. Qed.

Theorem c11_first_frame_raw : forall c ls s, crun c cinit ls = Some s -> head_raw (wlog s).
Proof.
  intros c ls s H. apply (r_head s). revert ls s H. apply crun_inv; [apply raw_init|].
  intros; eapply raw_step; eauto.
Qed.

(* ------------------------------------------------------------------ *)
(* 2. the connect reply is the first message when nothing can address   *)
(*    the connection inside the window (queue mode)                     *)

Definition busy_items (b : option (item * bool)) : list item :=
  match b with Some (i, _) => [i] | None => [] end.
Definition wire_item (w : wire) : item := match w with WRaw i | WEnc i => i end.
(* everything accepted for this connection, in the order it is / will be on the wire *)
Definition allitems (s : cst) : list item := map wire_item (wlog s) ++ busy_items (wbusy s) ++ queue s.

Record WInv (s : cst) : Prop := {
  w_d : dbusy s = None;
  w_w : wbusy s <> None -> writer_open (kl s) = true;
  w_q : writer_open (kl s) = false -> queue s = []
}.

Lemma flush_items : forall q e wl el e' wl' el',
  flush e q wl el = (e', wl', el') -> map wire_item wl' = map wire_item wl ++ q.
Proof.
  induction q as [|i q IH]; intros e wl el e' wl' el' H; cbn [flush] in H.
  - inv H. rewrite app_nil_r. reflexivity.
  - destruct e; apply IH in H; rewrite H, map_app, <- app_assoc; reflexivity.
Qed.

Lemma writer_open_transport : forall k, writer_open k = true -> transport_open k = true.
Proof. destruct k; cbn; auto. Qed.

Lemma winv_step : forall c s l s', cc_rwq c = false -> WInv s -> cstep c s l = Some s' -> WInv s'.
Proof.
  intros c s l s' Hq I H.
  destruct l; unfold cstep, write_begin, write_end in H; rewrite ?Hq in H; cbreak H; inv H.
  all: destruct I as [Hd Hw Hqc].
  all: try (rewrite Hd in *; discriminate).
  all: constructor; cbn [wlog wbusy dbusy queue pcC kl] in *; auto.
  all: try (intros; congruence).
  all: try (intros; discriminate).
  all: try (intros X; exfalso; apply X; reflexivity).
  all: try (intros _; assumption).
  all: try (intros X; rewrite X in *; discriminate).
  all: try (intros _; apply Hw; congruence).
  all: try (intros X; match goal with E : kl _ = _ |- _ => rewrite E in * end; cbn in *; first [discriminate | apply Hqc; reflexivity | auto]).
  all: try (apply Hw; congruence).
Qed.

(* a step leaves the accepted sequence alone or appends one message to it *)
Lemma allitems_step : forall c s l s', cc_rwq c = false -> cc_fix_hub c = true -> WInv s ->
  cstep c s l = Some s' ->
  allitems s' = allitems s \/
  (allitems s' = allitems s ++ [IConn] /\ pcC s = CAdded /\ pcC s' = CReplied /\ writer_open (kl s) = true) \/
  (allitems s' = allitems s ++ [IPush] /\ pcC s = CReplied /\ pcC s' = CReplied /\ writer_open (kl s) = true).
Proof.
  intros c s l s' Hq Hfix [Hd Hw Hqc] H.
  destruct l; unfold cstep, write_begin, write_end in H; rewrite ?Hq, ?Hfix in H; cbreak H; inv H.
  all: try (rewrite Hd in *; discriminate).
  all: unfold allitems; cbn [wlog wbusy dbusy queue pcC kl busy_items].
  all: repeat match goal with E : wbusy _ = _ |- _ => rewrite E end;
       repeat match goal with E : queue _ = _ |- _ => rewrite E end; cbn [busy_items app].
  all: try (left; rewrite ?map_app, <- ?app_assoc; reflexivity).
  all: try (right; left; rewrite !app_assoc; auto; fail).
  all: try (right; right; rewrite !app_assoc; auto; fail).
  all: try (exfalso; assert (X : transport_open (kl s) = true) by (apply writer_open_transport; apply Hw; congruence); congruence).
  all: try (left; match goal with E : flush _ _ _ _ = _ |- _ => apply flush_items in E; rewrite E end;
            rewrite ?app_nil_r; reflexivity).
Qed.

Definition hd_ok (l : list item) : bool := match l with [] => true | IConn :: _ => true | _ => false end.

Record FirstInv (s : cst) : Prop := {
  f_w : WInv s;
  f_hd : hd_ok (allitems s) = true;
  f_pre : pcC s <> CReplied -> allitems s = [];
  f_post : pcC s = CReplied -> allitems s = [] -> writer_open (kl s) = false
}.

Lemma hd_ok_app : forall l x, l <> [] -> hd_ok (l ++ [x]) = hd_ok l.
Proof. intros [|a l] x H; [congruence|reflexivity]. Qed.

Lemma kl_step_writer : forall c s l s', cstep c s l = Some s' -> writer_open (kl s) = false -> writer_open (kl s') = false.
Proof.
  intros c s l s' H Hc.
  destruct l; unfold cstep, write_begin, write_end in H; cbreak H; inv H; cbn [kl] in *; auto.
  all: repeat match goal with E : kl _ = _ |- _ => rewrite E in *; clear E end; cbn in *; auto; discriminate.
Qed.

Lemma first_step : forall c s l s', cc_rwq c = false -> cc_fix_hub c = true ->
  FirstInv s -> cstep c s l = Some s' -> FirstInv s'.
Proof.
  intros c s l s' Hq Hfix [Iw Ihd Ipre Ipost] H.
  pose proof (winv_step c s l s' Hq Iw H) as Iw'.
  pose proof (kl_step_writer c s l s' H) as Hkl.
  destruct (allitems_step c s l s' Hq Hfix Iw H) as [E|[(E & P1 & P2 & P3)|(E & P1 & P2 & P3)]].
  - constructor; auto; rewrite E; auto.
    + intros Hn. apply Ipre. intros Hc. apply Hn.
      (* pcC only moves forward; if s is replied so is s' *)
      clear - H Hc. destruct l; unfold cstep, write_begin, write_end in H; cbreak H; inv H; cbn [pcC]; congruence.
    + intros Hc Hnil.
      destruct (pcC s) eqn:Ep.
      * exfalso. clear - H Ep Hc. destruct l; unfold cstep, write_begin, write_end in H; cbreak H; inv H; cbn [pcC] in *; congruence.
      * (* CAdded -> CReplied without enqueue: the writer was closed *)
        clear - H Ep Hc Hq E. destruct l; unfold cstep, write_begin, write_end in H; rewrite ?Hq in H; cbreak H; inv H; cbn [pcC kl] in *; try congruence.
        exfalso. unfold allitems in E; cbn [wlog wbusy queue] in E.
        revert E. generalize (map wire_item (wlog s)) (busy_items (wbusy s)) (queue s). intros a b q E.
        assert (X : length (a ++ b ++ q ++ [IConn]) = length (a ++ b ++ q)) by (rewrite E; reflexivity).
        rewrite !app_length in X. cbn in X. lia.
      * apply Hkl. apply Ipost; [reflexivity|exact Hnil].
  - constructor; auto.
    + rewrite E. rewrite (Ipre ltac:(congruence)). reflexivity.
    + intros Hn. congruence.
    + intros _ Hnil. rewrite E in Hnil. destruct (allitems s); discriminate.
  - constructor; auto.
    + rewrite E. destruct (allitems s) eqn:Ea.
      * exfalso. specialize (Ipost P1 eq_refl). congruence.
      * rewrite hd_ok_app; [exact Ihd|discriminate].
    + intros Hn. congruence.
    + intros _ Hnil. rewrite E in Hnil. destruct (allitems s); discriminate.
Qed.

Lemma first_init : FirstInv cinit.
Proof. constructor; [constructor; cbn; auto; congruence|reflexivity|reflexivity|cbn; discriminate]. Qed.

Lemma hd_ok_conn_first : forall s, hd_ok (allitems s) = true -> conn_first (wlog s) = true.
Proof.
  intros s H. unfold allitems in H. destruct (wlog s) as [|w wl]; [reflexivity|].
  destruct w as [[|]|[|]]; cbn in *; auto.
Qed.

Theorem c11_connect_first : forall c ls s,
  cc_rwq c = false -> cc_fix_hub c = true -> crun c cinit ls = Some s -> conn_first (wlog s) = true.
Proof.
  intros c ls s Hq Hf H. apply hd_ok_conn_first. apply (f_hd s).
  revert ls s H. apply crun_inv; [apply first_init|]. intros; eapply first_step; eauto.
Qed.

(* ------------------------------------------------------------------ *)
(* 3. the encoder's call log                                            *)

Definition estep (st : option (nat * bool)) (e : eev) : option (nat * bool) :=
  match st with
  | None => None
  | Some (a, cl) =>
      match e with
      | EBegin => if cl then None else Some (S a, cl)
      | EEnd => match a with O => None | S a' => Some (a', cl) end
      | EClose => if cl || negb (Nat.eqb a 0) then None else Some (a, true)
      end
  end.
Definition efold (l : list eev) : option (nat * bool) := fold_left estep l (Some (0%nat, false)).

Lemma fold_none : forall l, fold_left estep l None = None.
Proof. induction l; cbn; auto. Qed.

Lemma elog_ok_fold : forall l a cl, elog_ok a cl l = true <-> fold_left estep l (Some (a, cl)) <> None.
Proof.
  induction l as [|e l IH]; intros a cl; cbn [elog_ok fold_left estep].
  - split; [discriminate|reflexivity].
  - destruct e.
    + destruct cl; cbn [negb andb]; [rewrite fold_none; split; [discriminate|congruence]|apply IH].
    + destruct a; [rewrite fold_none; split; [discriminate|congruence]|apply IH].
    + destruct cl; cbn [negb andb orb]; [rewrite fold_none; split; [discriminate|congruence]|].
      destruct (Nat.eqb a 0); cbn [negb andb]; [apply IH|rewrite fold_none; split; [discriminate|congruence]].
Qed.

Lemma efold_app : forall l l', efold (l ++ l') = fold_left estep l' (efold l).
Proof. intros. unfold efold. apply fold_left_app. Qed.

Definition b2n (b : bool) : nat := if b then 1%nat else 0%nat.
Definition nenc (s : cst) : nat := (b2n (busy_enc (wbusy s)) + b2n (busy_enc (dbusy s)))%nat.
Definition egone (s : cst) : bool := match enc s with EGone => true | _ => false end.

Definition lifecycle_ok (c : ccfg) : Prop := cc_rwq c = false \/ cc_fix_lock c = true.

Record EncInv (c : ccfg) (s : cst) : Prop := {
  n_fold : efold (elog s) = Some (nenc s, egone s);
  n_w : wbusy s <> None -> writer_open (kl s) = true;
  n_d : cc_rwq c = false -> dbusy s = None;
  n_one : wbusy s = None \/ dbusy s = None;
  n_gone : enc s = EGone -> writer_open (kl s) = false
}.

Lemma flush_fold : forall q e wl el e' wl' el',
  flush e q wl el = (e', wl', el') -> e <> EGone ->
  efold el = Some (0%nat, false) -> efold el' = Some (0%nat, false) /\ e' <> EGone.
Proof.
  induction q as [|i q IH]; intros e wl el e' wl' el' H Hne Hf; cbn [flush] in H.
  - inv H. auto.
  - destruct e; try congruence.
    + eapply IH in H; eauto.
    + eapply IH in H; eauto. discriminate.
    + eapply IH in H; eauto. rewrite efold_app, Hf. reflexivity.
Qed.

Lemma flush_gone : forall q wl el e' wl' el',
  flush EGone q wl el = (e', wl', el') -> el' = el /\ e' = EGone.
Proof.
  induction q as [|i q IH]; intros wl el e' wl' el' H; cbn [flush] in H.
  - inv H. auto.
  - apply IH in H. exact H.
Qed.

Lemma enc_step : forall c s l s', lifecycle_ok c -> EncInv c s -> cstep c s l = Some s' -> EncInv c s'.
Proof.
  intros c s l s' Hok I H.
  destruct l; unfold cstep, write_begin, write_end in H; cbreak H; inv H.
  all: destruct I as [Hf Hw Hd Ho Hg].
  all: repeat match goal with p : (item * bool)%type |- _ => destruct p end.
  all: constructor; unfold nenc, egone in *; cbn [wlog elog wbusy dbusy queue pcC kl enc busy_enc b2n] in *; auto.
  all: try (intros; congruence).
  all: try (intros; discriminate).
  all: try (intros X; exfalso; apply X; reflexivity).
  all: try tauto.
  (* facts about who is busy *)
  all: try (intros X; specialize (Hw X); repeat match goal with E : kl _ = _ |- _ => rewrite E in * end; cbn in *; first [discriminate|assumption]).
  all: try (intros X; specialize (Hg X); repeat match goal with E : kl _ = _ |- _ => rewrite E in * end; cbn in *; first [discriminate|assumption|reflexivity]).
  all: try (exfalso; match goal with E : wbusy ?s0 = Some _ |- _ =>
              assert (X : writer_open (kl s0) = true) by (apply Hw; rewrite E; discriminate) end;
            repeat match goal with E : kl _ = _ |- _ => rewrite E in * end; cbn in *; discriminate).
  all: repeat match goal with E : wbusy _ = _ |- _ => rewrite E in *; clear E
                         | E : dbusy _ = _ |- _ => rewrite E in *; clear E end;
       cbn [busy_enc b2n Nat.add] in *.
  all: try (destruct (enc s) eqn:Ee; try discriminate;
            rewrite ?efold_app, ?Hf; cbn; rewrite ?PeanoNat.Nat.add_0_r, ?PeanoNat.Nat.add_1_r; cbn; rewrite ?PeanoNat.Nat.add_0_r; reflexivity).
  all: try exact Hd.
  all: try (exfalso; destruct Hok as [Hk|Hk];
            [specialize (Hd Hk); discriminate
            |rewrite Hk in *; cbn in *; discriminate]).
  all: try (destruct (enc s) eqn:Ee; try exact Hf; exfalso; specialize (Hg eq_refl);
            repeat match goal with E : kl _ = _ |- _ => rewrite E in * end; cbn in *; discriminate).
  (* writer close with a remaining queue *)
  destruct (enc s) eqn:Ee.
  - apply flush_fold in Heqp; [|discriminate|exact Hf]. destruct Heqp as [X1 X2]. rewrite X1. destruct e; congruence.
  - apply flush_fold in Heqp; [|discriminate|exact Hf]. destruct Heqp as [X1 X2]. rewrite X1. destruct e; congruence.
  - apply flush_fold in Heqp; [|discriminate|exact Hf]. destruct Heqp as [X1 X2]. rewrite X1. destruct e; congruence.
  - apply flush_gone in Heqp. destruct Heqp as [-> ->]. exact Hf.
Qed.

Lemma enc_init : forall c, EncInv c cinit.
Proof. intros c. constructor; cbn; auto; try discriminate; try (intros X; exfalso; apply X; reflexivity). Qed.

Theorem c11_encoder_lifecycle : forall c ls s,
  lifecycle_ok c -> crun c cinit ls = Some s -> elog_ok 0 false (elog s) = true.
Proof.
  intros c ls s Hok H. apply elog_ok_fold.
  assert (I : EncInv c s).
  { revert ls s H. apply crun_inv; [apply enc_init|]. intros; eapply enc_step; eauto. }
  change (fold_left estep (elog s) (Some (0%nat, false))) with (efold (elog s)).
  rewrite (n_fold c s I). discriminate.
Qed.

(* ------------------------------------------------------------------ *)
(* 4. refutations for the code as it stands                             *)

(* a push inside the connect window is the first frame; with a negotiated codec the connect
   reply then goes out ENCODED *)
Definition sched_window : list clabel := [AConnAdd; APush; AWBegin; AWEnd; AConnReply; AWBegin; AWEnd].
Example c11_window_log :
  option_map wlog (crun (mkCC false true false false) cinit sched_window) = Some [WRaw IPush; WEnc IConn].
Proof. vm_compute. reflexivity. Qed.
Theorem c11_connect_first_refuted :
  exists s, crun (mkCC false true false false) cinit sched_window = Some s /\
            conn_first (wlog s) = false /\ conn_raw (wlog s) = false.
Proof. eexists. split; [vm_compute; reflexivity|]. split; reflexivity. Qed.

(* ReplyWithoutQueue: CloseDictionaryCompression runs while a direct write sits in Encode *)
Definition sched_close_encode : list clabel :=
  [AConnAdd; AConnReply; ADEnd; ADirect; AKFlag; AKWriter; AKDict; AKDone; ADEnd].
Example c11_close_encode_log :
  option_map elog (crun (mkCC true true false false) cinit sched_close_encode) = Some [EBegin; EClose; EEnd].
Proof. vm_compute. reflexivity. Qed.
Theorem c11_encoder_refuted :
  exists s, crun (mkCC true true false false) cinit sched_close_encode = Some s /\
            elog_ok 0 false (elog s) = false.
Proof. eexists. split; [vm_compute; reflexivity|reflexivity]. Qed.


(* ------------------------------------------------------------------ *)
(* 5. queue mode with a negotiated codec: every frame after the first   *)
(*    is encoded                                                        *)

Lemma rest_encoded_snoc_enc : forall wl i, rest_encoded wl = true -> rest_encoded (wl ++ [WEnc i]) = true.
Proof.
  intros [|w wl] i H; [reflexivity|]. cbn [rest_encoded app] in *.
  rewrite forallb_app, H. reflexivity.
Qed.

Lemma flush_rest : forall q e wl el e' wl' el',
  flush e q wl el = (e', wl', el') -> rest_encoded wl = true ->
  (e = EActive \/ (e = EPending /\ wl = [])) ->
  rest_encoded wl' = true /\ (e' = EActive \/ (e' = EPending /\ wl' = [])).
Proof.
  induction q as [|i q IH]; intros e wl el e' wl' el' H Hr He; cbn [flush] in H.
  - inv H. auto.
  - destruct He as [->|[-> ->]].
    + eapply IH in H; [exact H|apply rest_encoded_snoc_enc; exact Hr|left; reflexivity].
    + eapply IH in H; [exact H|reflexivity|left; reflexivity].
Qed.

Record RestInv (s : cst) : Prop := {
  p_start : pcC s = CStart -> enc s = ENone /\ wlog s = [] /\ wbusy s = None /\ queue s = [];
  p_enc : pcC s <> CStart -> enc s <> ENone;
  p_pend : enc s = EPending -> wlog s = [] /\ wbusy s = None;
  p_raw : forall i, wbusy s = Some (i, false) -> wlog s = [];
  p_rest : rest_encoded (wlog s) = true;
  p_d : dbusy s = None;
  p_gone : enc s = EGone -> writer_open (kl s) = false;
  p_w : wbusy s <> None -> writer_open (kl s) = true
}.

Lemma rest_step : forall c s l s', cc_rwq c = false -> cc_dict c = true ->
  RestInv s -> cstep c s l = Some s' -> RestInv s'.
Proof.
  intros c s l s' Hq Hdict I H.
  destruct l; unfold cstep, write_begin, write_end in H; rewrite ?Hq, ?Hdict in H; cbreak H; inv H.
  all: destruct I as [Ps Pe Pp Pr Prest Pd Pg Pw].
  all: try (rewrite Pd in *; discriminate).
  all: repeat match goal with p : (item * bool)%type |- _ => destruct p end.
  all: constructor; cbn [wlog wbusy dbusy queue pcC kl enc] in *; auto.
  all: try (intros; congruence).
  all: try (intros; discriminate).
  all: try (intros X; exfalso; apply X; reflexivity).
  all: try (apply rest_encoded_snoc_enc; exact Prest).
  all: try (match goal with E : wbusy _ = Some (?i, false) |- rest_encoded _ = true => rewrite (Pr i E); reflexivity end).
  all: try (match goal with E : flush _ _ _ _ = _ |- _ =>
              apply flush_rest in E; [|exact Prest|];
              [ destruct E as [F1 [F2|[F2 F3]]] | ] end).
  all: try (intros;
            try (match goal with X : pcC _ = CStart |- _ => destruct (Ps X) as (?A & ?B & ?C & ?D) end);
            try (match goal with X : enc _ = EPending |- _ => destruct (Pp X) as (?A & ?B) end);
            try (match goal with X : enc _ = EGone |- _ => pose proof (Pg X) end);
            try (match goal with X : wbusy _ = Some (?i, false) |- _ => pose proof (Pr i X) end);
            try (assert (enc s <> ENone) by (apply Pe; congruence));
            try (assert (writer_open (kl s) = true) by (apply Pw; congruence));
            repeat match goal with E : kl _ = _ |- _ => rewrite E in * end; cbn [writer_open] in *;
            repeat split; try congruence; try discriminate; auto; fail).
  all: assert (Hne : enc s <> ENone) by
         (apply Pe; intros X; destruct (Ps X) as (_ & _ & _ & D); congruence).
  all: try (exfalso; apply Hne; assumption).
  all: destruct (enc s) eqn:Ee; try congruence;
       [ right; split; [reflexivity|apply Pp; reflexivity]
       | left; reflexivity
       | exfalso; specialize (Pg eq_refl); rewrite Heqc0 in Pg; discriminate ].
Qed.

Lemma rest_init : RestInv cinit.
Proof. constructor; cbn; auto; try discriminate; try congruence; try (intros X; exfalso; apply X; reflexivity). Qed.

Theorem c11_rest_encoded : forall c ls s,
  cc_rwq c = false -> cc_dict c = true -> crun c cinit ls = Some s -> rest_encoded (wlog s) = true.
Proof.
  intros c ls s Hq Hd H. apply (p_rest s). revert ls s H. apply crun_inv; [apply rest_init|].
  intros; eapply rest_step; eauto.
Qed.

(* ------------------------------------------------------------------ *)
(* 6. Close is called exactly once for a negotiated codec               *)

Lemma count_close_app : forall a b, count_close (a ++ b) = (count_close a + count_close b)%nat.
Proof. intros. unfold count_close. rewrite filter_app, app_length. reflexivity. Qed.

Lemma flush_close : forall q e wl el e' wl' el',
  flush e q wl el = (e', wl', el') ->
  count_close el' = count_close el /\ (e = EGone <-> e' = EGone) /\ (e = ENone <-> e' = ENone).
Proof.
  induction q as [|i q IH]; intros e wl el e' wl' el' H; cbn [flush] in H.
  - inv H. repeat split; auto.
  - destruct e; apply IH in H; destruct H as (A & B & C).
    + split; [exact A|]. split; [exact B|exact C].
    + split; [exact A|]. split; split; intros X; try discriminate.
      * apply B in X. discriminate.
      * apply C in X. discriminate.
    + rewrite A, count_close_app. cbn. rewrite PeanoNat.Nat.add_0_r. split; [reflexivity|]. split; [exact B|exact C].
    + split; [exact A|]. split; [exact B|exact C].
Qed.

Definition closing (k : clo) : bool := match k with KDict | KDone => true | _ => false end.

Record CloseInv (c : ccfg) (s : cst) : Prop := {
  k_cnt : count_close (elog s) = (if egone s then 1 else 0)%nat;
  k_gone : enc s = EGone -> closing (kl s) = true;
  k_neg : cc_dict c = true -> pcC s <> CStart -> enc s <> ENone;
  k_done : closing (kl s) = true -> enc s = ENone \/ enc s = EGone
}.

Lemma close_step : forall c s l s', CloseInv c s -> cstep c s l = Some s' -> CloseInv c s'.
Proof.
  intros c s l s' I H.
  destruct l; unfold cstep, write_begin, write_end in H; cbreak H; inv H.
  all: destruct I as [Kc Kg Kn Kd].
  all: repeat match goal with p : (item * bool)%type |- _ => destruct p end.
  all: try match goal with E : flush _ _ _ _ = _ |- _ => apply flush_close in E; destruct E as (F1 & F2 & F3) end.
  all: constructor; unfold egone in *; cbn [wlog elog wbusy dbusy queue pcC kl enc] in *; auto.
  all: repeat match goal with E : kl _ = _ |- _ => rewrite E in * end; cbn [closing] in *.
  all: repeat match goal with E : enc _ = _ |- _ => rewrite E in * end.
  all: rewrite ?count_close_app; cbn [count_close filter length]; rewrite ?PeanoNat.Nat.add_0_r.
  all: try assumption.
  all: try (intros; congruence).
  all: try (intros; discriminate).
  all: try (intros; auto; fail).
  all: try (rewrite Kc; reflexivity).
  all: try tauto.
  all: try (intros X; destruct (Kd X); discriminate).
  all: try (intros D _; apply Kn; [exact D|congruence]).
  all: try (destruct (enc s) eqn:Ee; try exact Kc; exfalso; specialize (Kg eq_refl); discriminate).
  (* writer close with a remaining queue *)
  rewrite F1, Kc. destruct (enc s) eqn:Ee; destruct e; try reflexivity;
    try (destruct F2 as [F2a F2b]; first [specialize (F2a eq_refl)|specialize (F2b eq_refl)]; discriminate).
Qed.

Lemma close_init : forall c, CloseInv c cinit.
Proof. intros c. constructor; cbn; auto; try discriminate; try congruence. Qed.

(* exactly once: never more than one Close, and one whenever a codec was installed and the
   connection has got as far as CloseDictionaryCompression *)
Theorem c11_close_once : forall c ls s, crun c cinit ls = Some s ->
  (count_close (elog s) <= 1)%nat /\
  (cc_dict c = true -> pcC s <> CStart -> closing (kl s) = true -> count_close (elog s) = 1%nat) /\
  (closing (kl s) = false -> count_close (elog s) = 0%nat).
Proof.
  intros c ls s H.
  assert (I : CloseInv c s).
  { revert ls s H. apply crun_inv; [apply close_init|]. intros; eapply close_step; eauto. }
  destruct I as [Kc Kg Kn Kd]. unfold egone in Kc. split; [|split].
  - rewrite Kc. destruct (enc s); auto.
  - intros D P K. destruct (Kd K) as [X|X]; [exfalso; exact (Kn D P X)|]. rewrite Kc, X. reflexivity.
  - intros K. rewrite Kc. destruct (enc s) eqn:E; try reflexivity. specialize (Kg eq_refl). congruence.
Qed.
