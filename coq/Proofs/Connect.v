(* C11: proofs over Model/Connect.v, all schedules. *)
From Coq Require Import List NArith Bool Lia.
From Cfg Require Import Model.Connect.
Import ListNotations.

Ltac cbreak H :=
  repeat (match type of H with
          | context [match ?x with _ => _ end] =>
              match x with
              | context [match _ with _ => _ end] => fail 1
              | _ => destruct x eqn:?
              end
          end; try discriminate H).
Ltac inv H := inversion H; subst; clear H.

Lemma crun_inv : forall (P : cst -> Prop) c,
  P cinit -> (forall s l s', P s -> cstep c s l = Some s' -> P s') ->
  forall ls s, crun c cinit ls = Some s -> P s.
Proof.
  intros P c H0 Hs ls.
  assert (G : forall s0, P s0 -> forall s, crun c s0 ls = Some s -> P s).
  { induction ls as [|l ls IH]; intros s0 Hp s H; cbn [crun] in H.
    - inv H. exact Hp.
    - destruct (cstep c s0 l) as [s1|] eqn:E; [|discriminate]. eapply IH; [|exact H]. eapply Hs; eauto. }
  intros s H. eapply G; eauto.
Qed.

(* ------------------------------------------------------------------ *)
(* 1. the first frame on the wire is never encoded                      *)

Definition busy_raw (b : option (item * bool)) : bool :=
  match b with Some (_, false) => true | _ => false end.
Definition busy_enc (b : option (item * bool)) : bool :=
  match b with Some (_, true) => true | _ => false end.
Definition head_raw (wl : list wire) : Prop :=
  match wl with [] => True | WRaw _ :: _ => True | WEnc _ :: _ => False end.

Record RawInv (s : cst) : Prop := {
  r_head : head_raw (wlog s);
  r_one : wbusy s = None \/ dbusy s = None;
  r_act : enc s = EActive -> wlog s = [] ->
          busy_raw (wbusy s) = true \/ busy_raw (dbusy s) = true \/ kl s = KDone;
  r_enc : busy_enc (wbusy s) = true \/ busy_enc (dbusy s) = true -> wlog s <> [] \/ kl s = KDone
}.

Lemma head_raw_app : forall wl w, wl <> [] -> head_raw wl -> head_raw (wl ++ [w]).
Proof. intros [|a wl] w H1 H2; [congruence|exact H2]. Qed.

Lemma flush_head : forall q e wl el e' wl' el',
  flush e q wl el = (e', wl', el') -> head_raw wl -> (e = EActive -> wl <> []) ->
  head_raw wl' /\ (e' = EActive -> q <> [] \/ e = EActive) /\ (wl = [] -> q = [] -> wl' = []) /\ (q <> [] -> wl' <> []) /\ (wl <> [] -> wl' <> []).
Proof.
  induction q as [|i q IH]; intros e wl el e' wl' el' H Hh Ha; cbn [flush] in H.
  - inv H. repeat split; auto; try congruence.
  - assert (Hne : forall w, wl ++ [w] <> []) by (intros w; destruct wl; discriminate).
    destruct e.
    + apply IH in H; [|destruct wl; cbn; auto|discriminate].
      destruct H as (A & B & C & D & E). repeat split; auto; try (intros; left; discriminate); try (intros; apply E; apply Hne).
      intros; discriminate.
    + apply IH in H; [|destruct wl; cbn; auto|intros _; apply Hne].
      destruct H as (A & B & C & D & E). repeat split; auto; try (intros; left; discriminate); try (intros; apply E; apply Hne).
      intros; discriminate.
    + apply IH in H; [|apply head_raw_app; auto|intros _; apply Hne].
      destruct H as (A & B & C & D & E). repeat split; auto; try (intros; apply E; apply Hne).
      intros; discriminate.
    + apply IH in H; [|destruct wl; cbn; auto|discriminate].
      destruct H as (A & B & C & D & E). repeat split; auto; try (intros; left; discriminate); try (intros; apply E; apply Hne).
      intros; discriminate.
Qed.

Lemma transport_open_done : forall k, transport_open k = true -> k <> KDone.
Proof. intros k H E. subst. discriminate. Qed.
Lemma transport_closed_done : forall k, transport_open k = false -> k = KDone.
Proof. destruct k; cbn; intros; congruence. Qed.

Lemma raw_step : forall c s l s', RawInv s -> cstep c s l = Some s' -> RawInv s'.
Proof.
  intros c s l s' I H.
  destruct l; unfold cstep, write_begin, write_end in H; cbreak H; inv H.
  all: destruct I as [Hh Ho Ha He].
  all: repeat match goal with E : transport_open _ = true |- _ => apply transport_open_done in E
                         | E : transport_open _ = false |- _ => apply transport_closed_done in E end.
  all: constructor; cbn [wlog wbusy dbusy enc kl busy_raw busy_enc] in *; auto.
  all: try (intros; discriminate).
  all: try (intros [X|X]; discriminate).
  all: try tauto.
  all: repeat match goal with E : wbusy _ = _ |- _ => rewrite E in *; clear E
                         | E : dbusy _ = _ |- _ => rewrite E in * ; clear E end;
       cbn [busy_raw busy_enc] in *.
  all: try tauto.
  all: try (destruct Ho; congruence).
  all: repeat match goal with p : (item * bool)%type |- _ => destruct p end; cbn [busy_raw busy_enc] in *.
  all: try tauto.
  all: try (intros X; destruct (He X) as [Y|Y]; [left; exact Y | first [right; exact Y | congruence]]; fail).
  all: try (intros A B; destruct (Ha A B) as [Y|[Y|Y]]; try discriminate; auto; try congruence; fail).
  all: try (intros _; destruct (wlog s) eqn:Ew; [|left; discriminate];
            match goal with E : enc _ = EActive |- _ => destruct (Ha E eq_refl) as [Y|[Y|Y]]; try discriminate; auto end; fail).
  all: try (apply head_raw_app; [|exact Hh];
            destruct He as [Y|Y]; [left; reflexivity|exact Y|congruence]; fail).
  all: try (apply head_raw_app; [|exact Hh];
            destruct He as [Y|Y]; [right; reflexivity|exact Y|congruence]; fail).
  all: try (destruct (wlog s) eqn:Ew; cbn; try exact I; try exact Hh; fail).
  all: try (intros; destruct (wlog s); cbn in *; try discriminate; auto; fail).
  all: try (intros _; left; destruct (wlog s); discriminate).
  (* writer close with a remaining queue *)
  all: match goal with E : flush _ _ _ _ = _ |- _ =>
         apply flush_head in E; [|exact Hh|];
         [ destruct E as (F1 & F2 & F3 & F4 & F5) | ] end.
  all: try exact F1.
  all: try (intros _ X; exfalso; apply F4; [discriminate|exact X]).
  all: try (intros E; destruct (wlog s) eqn:Ew; [|discriminate];
            destruct (Ha E eq_refl) as [Y|[Y|Y]]; try discriminate; congruence).
Qed.

Lemma raw_init : RawInv cinit.
Proof. constructor; cbn; auto; try discriminate. intros [X|X]; discriminate. Qed.

Theorem c11_first_frame_raw : forall c ls s, crun c cinit ls = Some s -> head_raw (wlog s).
Proof.
  intros c ls s H. apply (r_head s). revert ls s H. apply crun_inv; [apply raw_init|].
  intros; eapply raw_step; eauto.
Qed.

(* ------------------------------------------------------------------ *)
(* 2. the connect reply is the first message when nothing can address   *)
(*    the connection inside the window                                  *)

Definition busy_items (b : option (item * bool)) : list item :=
  match b with Some (i, _) => [i] | None => [] end.
Definition wire_item (w : wire) : item := match w with WRaw i | WEnc i => i end.
(* accepted for this connection and not yet on the wire, in the order they will be written *)
Definition pend (s : cst) : list item := busy_items (wbusy s) ++ busy_items (dbusy s) ++ queue s.
Definition dead (c : ccfg) (s : cst) : Prop :=
  writer_open (kl s) = false /\ (cc_rwq c = true -> kl s = KDone).

Record FirstInv (c : ccfg) (s : cst) : Prop := {
  f_first : conn_first (wlog s) = true;
  f_one : wbusy s = None \/ dbusy s = None;
  f_pre : pcC s <> CReplied -> pend s = [] /\ wlog s = [];
  f_post : pcC s = CReplied -> wlog s = [] -> (exists r, pend s = IConn :: r) \/ (pend s = [] /\ dead c s);
  f_wclosed : writer_open (kl s) = false -> queue s = [] /\ wbusy s = None;
  f_rwq : cc_rwq c = false -> dbusy s = None
}.

Lemma conn_first_app : forall wl w, wl <> [] -> conn_first wl = true -> conn_first (wl ++ [w]) = true.
Proof. intros [|a wl] w H1 H2; [congruence|exact H2]. Qed.

Lemma flush_items : forall q e wl el e' wl' el',
  flush e q wl el = (e', wl', el') -> map wire_item wl' = map wire_item wl ++ q.
Proof.
  induction q as [|i q IH]; intros e wl el e' wl' el' H; cbn [flush] in H.
  - inv H. rewrite app_nil_r. reflexivity.
  - destruct e; apply IH in H; rewrite H, map_app, <- app_assoc; reflexivity.
Qed.

Lemma conn_first_items : forall wl, conn_first wl = true <-> (wl = [] \/ exists r, map wire_item wl = IConn :: r).
Proof.
  intros [|w wl]; cbn; [split; auto|].
  destruct w as [[|]|[|]]; cbn; split; intros H; auto; try discriminate;
    try (right; eexists; reflexivity); destruct H as [H|[r H]]; try discriminate.
Qed.

Lemma writer_open_kl : forall k, writer_open k = true -> transport_open k = true.
Proof. destruct k; cbn; auto. Qed.

Lemma first_step : forall c s l s', cc_fix_hub c = true -> FirstInv c s -> cstep c s l = Some s' -> FirstInv c s'.
Proof.
  intros c s l s' Hfix I H.
  destruct l; unfold cstep, write_begin, write_end in H; rewrite ?Hfix in H; cbreak H; inv H.
  all: destruct I as [Hf Ho Hpre Hpost Hq Hr].
  all: constructor; unfold pend, dead in *; cbn [wlog wbusy dbusy queue pcC kl busy_items app] in *; auto.
  all: try (intros; congruence).
  all: try (intros; discriminate).
  all: idtac.
Admitted.
