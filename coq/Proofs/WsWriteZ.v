(* C30 proofs, extension: truncWriter holds back exactly the last four bytes of the flate stream. *)
From Coq Require Import List NArith Bool Arith Lia.
From Cfg Require Import Model.WsFrame Model.WsWrite.
Import ListNotations.

Lemma tw_full : forall (held1 p1 : bytes),
    length held1 = 4%nat -> (1 <= length p1)%nat ->
    let m := Nat.min (length p1) 4 in
    (firstn m held1 ++ firstn (length p1 - m) p1) ++ skipn m held1 ++ skipn (length p1 - m) p1 = held1 ++ p1
    /\ length (skipn m held1 ++ skipn (length p1 - m) p1) = 4%nat.
Proof.
  intros held1 p1 H4 H1 m. split.
  - destruct (Nat.le_gt_cases 4 (length p1)) as [Hbig|Hsmall].
    + assert (Hm : m = 4%nat) by (unfold m; lia). rewrite Hm.
      rewrite (firstn_all2 held1) by lia. rewrite (skipn_all2 held1) by lia.
      rewrite app_nil_l. rewrite <- app_assoc. rewrite firstn_skipn. reflexivity.
    + assert (Hm : m = length p1) by (unfold m; lia). rewrite Hm, Nat.sub_diag.
      cbn [firstn skipn]. rewrite app_nil_r. rewrite app_assoc. rewrite firstn_skipn. reflexivity.
  - rewrite app_length, !skipn_length. unfold m. lia.
Qed.

Lemma trunc_write_spec : forall held p d h,
    (length held <= 4)%nat -> trunc_write held p = (d, h) ->
    concat d ++ h = held ++ p /\ length h = Nat.min 4 (length held + length p).
Proof.
  intros held p d h Hh E. unfold trunc_write in E.
  set (n := Nat.min (4 - length held) (length p)) in *.
  assert (Hn : (n <= length p)%nat) by (unfold n; lia).
  pose proof (firstn_skipn n p) as FS.
  assert (L1 : length (firstn n p) = n) by (apply firstn_length_le; exact Hn).
  assert (L2 : length (skipn n p) = (length p - n)%nat) by apply skipn_length.
  remember (skipn n p) as p1 eqn:Ep. destruct p1 as [|x r].
  - inversion E; subst. cbn [concat app]. rewrite <- FS at 2. rewrite app_nil_r. split; [reflexivity|].
    rewrite app_length, L1. cbn [length] in L2. unfold n in *. lia.
  - remember (x :: r) as q eqn:Eq.
    assert (Hq : (1 <= length q)%nat) by (rewrite Eq; simpl; lia).
    assert (Hfull : length (held ++ firstn n p) = 4%nat).
    { rewrite app_length, L1. unfold n in *. lia. }
    destruct (tw_full (held ++ firstn n p) q Hfull Hq) as [T1 T2].
    inversion E; subst d h. clear E. cbn [concat]. rewrite app_nil_r. split.
    + rewrite T1. rewrite <- app_assoc. rewrite FS. reflexivity.
    + rewrite T2. rewrite app_length, L1 in Hfull. lia.
Qed.

Lemma trunc_write_held : forall held p d h, (length held <= 4)%nat -> trunc_write held p = (d, h) -> (length h <= 4)%nat.
Proof. intros held p d h Hh E. destruct (trunc_write_spec held p d h Hh E) as [_ L]. lia. Qed.

(* For every sequence of writes of the flate.Writer: downstream gets the stream without its last
   four bytes (in order), which stay in the truncWriter. *)
Theorem trunc_all_spec : forall zs held ds h,
    (length held <= 4)%nat -> trunc_all held zs = (ds, h) ->
    concat ds ++ h = held ++ concat zs /\ length h = Nat.min 4 (length held + length (concat zs)).
Proof.
  induction zs as [|z zs IH]; intros held ds h Hh E; simpl in E.
  - inversion E; subst. cbn [concat length]. rewrite app_nil_r. split; [reflexivity|lia].
  - destruct (trunc_write held z) as [d held1] eqn:E1.
    destruct (trunc_all held1 zs) as [ds' held2] eqn:E2. inversion E; subst ds h. clear E.
    destruct (trunc_write_spec held z d held1 Hh E1) as [C1 L1].
    destruct (IH held1 ds' held2 ltac:(lia) E2) as [C2 L2].
    cbn [concat]. split.
    + rewrite concat_app, <- app_assoc, C2, app_assoc, C1, <- app_assoc. reflexivity.
    + rewrite L2, L1, app_length. lia.
Qed.

Lemma app_inv_len : forall (a b c d : bytes), a ++ b = c ++ d -> length b = length d -> a = c /\ b = d.
Proof.
  induction a as [|x a IH]; intros b c d E L; destruct c as [|y c]; simpl in *.
  - auto.
  - subst b. simpl in L. rewrite app_length in L. lia.
  - subst d. simpl in L. rewrite app_length in L. lia.
  - inversion E; subst. destruct (IH b c d H1 L) as [-> ->]. auto.
Qed.

(* A flate stream ended by a sync flush (... 00 00 ff ff): the frames carry the stream without that
   tail (RFC 7692 7.2.1) and flateWriteWrapper.Close finds the tail in the truncWriter. *)
Corollary trunc_sync_flush : forall zs body ds h,
    concat zs = body ++ flate_sync_tail -> trunc_all [] zs = (ds, h) ->
    concat ds = body /\ h = flate_sync_tail.
Proof.
  intros zs body ds h Hz E. destruct (trunc_all_spec zs [] ds h (Nat.le_0_l 4) E) as [C L].
  cbn [app length] in C, L. rewrite Hz in C, L. rewrite app_length in L.
  assert (L4 : length h = 4%nat).
  { change (length flate_sync_tail) with 4%nat in L. rewrite L. apply Nat.min_l. lia. }
  apply app_inv_len in C; [exact C|]. rewrite L4. reflexivity.
Qed.
