(* C15 extension: the byte string that filter.Hash feeds to SHA-256 ([marshal], the
   deterministic vtproto encoding of the tree) determines the tree.  So structurally
   different trees are hashed from different bytes: the converse of "equal trees have
   equal hashes" at the pre-image level (the rest is SHA-256 collision resistance). *)
From Coq Require Import List PeanoNat NArith Bool Lia ZifyBool.
From Cfg Require Import Model.Decimal Model.Filter Model.FilterSpec Proofs.Filter.
Import ListNotations.
Open Scope N_scope.

(* ---------- varints are uniquely decodable ---------- *)

Fixpoint rd_varint (fuel : nat) (s : bytes) (shift acc : N) : option (N * bytes) :=
  match fuel with
  | O => None
  | S k =>
      match s with
      | [] => None
      | c :: s' =>
          if c <? 128 then Some (acc + c * 2 ^ shift, s')
          else rd_varint k s' (shift + 7) (acc + (c - 128) * 2 ^ shift)
      end
  end.

Lemma rd_varint_varint : forall fuel n rest shift acc,
  n < 2 ^ (7 * N.of_nat fuel) -> (fuel > 0)%nat ->
  rd_varint fuel (varint fuel n ++ rest) shift acc = Some (acc + n * 2 ^ shift, rest).
Proof.
  induction fuel as [|k IH]; intros n rest shift acc Hn Hf; [lia|].
  cbn [varint rd_varint].
  destruct (n <? 128) eqn:E.
  - cbn [app]. rewrite E. reflexivity.
  - cbn [app].
    pose proof (N.div_mod n 128 ltac:(discriminate)) as DM.
    assert (Hm : n mod 128 < 128) by (apply N.mod_lt; discriminate).
    assert (Hk : (k > 0)%nat).
    { destruct k; [|lia]. cbn in Hn. lia. }
    assert (Hn' : n / 128 < 2 ^ (7 * N.of_nat k)).
    { apply N.div_lt_upper_bound; [discriminate|].
      replace (7 * N.of_nat (S k)) with (7 + 7 * N.of_nat k) in Hn by lia.
      rewrite N.pow_add_r in Hn. exact Hn. }
    set (q := n / 128) in *. set (r := n mod 128) in *.
    replace (r + 128 <? 128) with false by lia.
    rewrite (IH q rest (shift + 7) _ Hn' Hk). f_equal. f_equal.
    replace (r + 128 - 128) with r by lia.
    rewrite N.pow_add_r. set (P := 2 ^ shift).
    rewrite DM. change (2 ^ 7) with 128. ring.
Qed.

Definition small (s : bytes) : Prop := N.of_nat (length s) < 2 ^ 64.

Lemma app_eq_len : forall (a b r1 r2 : bytes),
  length a = length b -> a ++ r1 = b ++ r2 -> a = b /\ r1 = r2.
Proof.
  induction a as [|x a IH]; destruct b as [|y b]; cbn [length app]; intros r1 r2 L H;
    try discriminate; [auto|].
  inversion H; subst. destruct (IH b r1 r2) as [-> ->]; auto.
Qed.

Lemma tagged_app : forall k a r,
  tagged k a ++ r = (k * 8 + 2) :: (varint 10 (N.of_nat (length a)) ++ (a ++ r)).
Proof. intros. unfold tagged. rewrite <- app_comm_cons, <- app_assoc. reflexivity. Qed.

Lemma tagged_inj : forall k j a b r1 r2,
  small a -> small b -> tagged k a ++ r1 = tagged j b ++ r2 -> k = j /\ a = b /\ r1 = r2.
Proof.
  intros k j a b r1 r2 Sa Sb H. rewrite !tagged_app in H.
  remember (varint 10 (N.of_nat (length a)) ++ (a ++ r1)) as u eqn:Hu.
  remember (varint 10 (N.of_nat (length b)) ++ (b ++ r2)) as v eqn:Hv.
  injection H as Hk Ht. split; [lia|]. subst u v.
  apply (f_equal (fun s => rd_varint 10 s 0 0)) in Ht. cbv beta in Ht.
  unfold small in *.
  rewrite !rd_varint_varint in Ht by (cbn; lia).
  inversion Ht as [[Hl Hr]]. apply app_eq_len in Hr; [exact Hr|lia].
Qed.

(* ---------- the encoding as a list of (field number, payload) records ---------- *)

Definition rec := (N * bytes)%type.
Definition optrec (k : N) (s : bytes) : list rec := match s with [] => [] | _ => [(k, s)] end.

Definition recs (f : node) : list rec :=
  match f with
  | Node op key cmp val vals nodes =>
      optrec 1 op ++ optrec 2 key ++ optrec 3 cmp ++ optrec 4 val ++
      map (fun v => (5, v)) vals ++ map (fun c => (6, marshal c)) nodes
  end.

Definition ser (l : list rec) : bytes := flat_map (fun r => tagged (fst r) (snd r)) l.

Lemma ser_app : forall a b, ser (a ++ b) = ser a ++ ser b.
Proof. intros. apply flat_map_app. Qed.

Lemma field_ser : forall k s, field k s = ser (optrec k s).
Proof. intros k [|x s]; cbn; [reflexivity | now rewrite app_nil_r]. Qed.

Lemma marshal_ser : forall f, marshal f = ser (recs f).
Proof.
  intros [op key cmp val vals nodes]. cbn [marshal recs].
  rewrite !ser_app, <- !field_ser. do 4 f_equal. f_equal.
  - induction vals as [|v vals IH]; [reflexivity|]. cbn [flat_map map ser]. now rewrite IH.
  - induction nodes as [|c nodes IH]; [reflexivity|].
    cbn [map ser flat_map fst snd]. now rewrite IH.
Qed.

Lemma tagged_len : forall k a, (length a <= length (tagged k a))%nat.
Proof. intros. unfold tagged. cbn [length]. rewrite app_length. lia. Qed.

Lemma ser_payload_len : forall l r, In r l -> (length (snd r) <= length (ser l))%nat.
Proof.
  induction l as [|x l IH]; intros r Hin; [destruct Hin|].
  destruct Hin as [<-|Hin]; cbn [ser flat_map]; rewrite app_length.
  - eapply Nat.le_trans; [apply (tagged_len (fst x) (snd x)) | apply Nat.le_add_r].
  - eapply Nat.le_trans; [apply (IH r Hin) | rewrite Nat.add_comm; apply Nat.le_add_r].
Qed.

Lemma ser_small : forall l, small (ser l) -> Forall (fun r => small (snd r)) l.
Proof.
  intros l H. apply Forall_forall. intros r Hin. pose proof (ser_payload_len l r Hin).
  unfold small, rec, bytes in *. lia.
Qed.

Lemma ser_inj : forall l1 l2,
  Forall (fun r => small (snd r)) l1 -> Forall (fun r => small (snd r)) l2 ->
  ser l1 = ser l2 -> l1 = l2.
Proof.
  induction l1 as [|[k a] l1 IH]; intros [|[j b] l2] H1 H2 H; cbn [ser flat_map fst snd] in H.
  - reflexivity.
  - unfold tagged in H. discriminate.
  - unfold tagged in H. discriminate.
  - inversion H1; inversion H2; subst. cbn [snd] in *.
    apply tagged_inj in H; auto. destruct H as (-> & -> & H). f_equal. now apply IH.
Qed.

(* ---------- reading the fields back from the records ---------- *)

Definition sel (k : N) (l : list rec) : list bytes := map snd (filter (fun r => fst r =? k) l).
Definition optl (s : bytes) : list bytes := match s with [] => [] | _ => [s] end.

Lemma sel_app : forall k a b, sel k (a ++ b) = sel k a ++ sel k b.
Proof. intros. unfold sel. now rewrite filter_app, map_app. Qed.

Lemma sel_optrec : forall k j s, sel k (optrec j s) = if j =? k then optl s else [].
Proof. intros k j [|x s]; cbn; destruct (j =? k); reflexivity. Qed.

Lemma sel_map : forall (A : Type) k j (g : A -> bytes) (l : list A),
  sel k (map (fun x => (j, g x)) l) = if j =? k then map g l else [].
Proof.
  intros A k j g l. unfold sel. induction l as [|x l IH]; cbn [map filter fst].
  - now destruct (j =? k).
  - destruct (j =? k) eqn:E; cbn [map snd]; [now rewrite IH | exact IH].
Qed.

Lemma optl_inj : forall a b, optl a = optl b -> a = b.
Proof. intros [|x a] [|y b] H; cbn in H; congruence. Qed.

Lemma sel_recs : forall op key cmp val vals nodes,
  let l := recs (Node op key cmp val vals nodes) in
  sel 1 l = optl op /\ sel 2 l = optl key /\ sel 3 l = optl cmp /\ sel 4 l = optl val /\
  sel 5 l = vals /\ sel 6 l = map marshal nodes.
Proof.
  intros. subst l. unfold recs.
  repeat split; rewrite !sel_app, !sel_optrec,
    (sel_map bytes _ 5 (fun v => v)), (sel_map node _ 6 marshal);
    cbn [N.eqb Pos.eqb app]; rewrite ?app_nil_r, ?map_id; reflexivity.
Qed.

(* ---------- injectivity ---------- *)

Lemma marshal_child_small : forall op key cmp val vals nodes c,
  small (marshal (Node op key cmp val vals nodes)) -> In c nodes -> small (marshal c).
Proof.
  intros op key cmp val vals nodes c H Hin. rewrite marshal_ser in H.
  assert (Hr : In (6, marshal c) (recs (Node op key cmp val vals nodes))).
  { unfold recs. rewrite !in_app_iff. do 5 right. apply in_map_iff. eauto. }
  pose proof (ser_payload_len _ _ Hr) as L. cbn [snd] in L. unfold small in *. lia.
Qed.

Theorem marshal_inj : forall f g,
  small (marshal f) -> small (marshal g) -> marshal f = marshal g -> f = g.
Proof.
  apply (node_ind' (fun f => forall g, small (marshal f) -> small (marshal g) ->
                                       marshal f = marshal g -> f = g)).
  intros op key cmp val vals nodes IH [op2 key2 cmp2 val2 vals2 nodes2] Sf Sg H.
  assert (R : recs (Node op key cmp val vals nodes) = recs (Node op2 key2 cmp2 val2 vals2 nodes2)).
  { rewrite !marshal_ser in H. apply ser_inj; auto; apply ser_small; now rewrite <- marshal_ser. }
  destruct (sel_recs op key cmp val vals nodes) as (A1 & A2 & A3 & A4 & A5 & A6).
  destruct (sel_recs op2 key2 cmp2 val2 vals2 nodes2) as (B1 & B2 & B3 & B4 & B5 & B6).
  cbv zeta in *. rewrite R in A1, A2, A3, A4, A5, A6.
  assert (op = op2) by (apply optl_inj; congruence).
  assert (key = key2) by (apply optl_inj; congruence).
  assert (cmp = cmp2) by (apply optl_inj; congruence).
  assert (val = val2) by (apply optl_inj; congruence).
  assert (vals = vals2) by congruence.
  assert (Hn : map marshal nodes = map marshal nodes2) by congruence.
  assert (nodes = nodes2).
  { clear - IH Hn Sf Sg.
    assert (S1 : forall c, In c nodes -> small (marshal c))
      by (intros c0 Hc0; exact (marshal_child_small _ _ _ _ _ _ _ Sf Hc0)).
    assert (S2 : forall c, In c nodes2 -> small (marshal c))
      by (intros c0 Hc0; exact (marshal_child_small _ _ _ _ _ _ _ Sg Hc0)).
    clear Sf Sg. revert nodes2 Hn S2.
    induction IH as [|c l Hc _ IHl]; intros [|c2 l2] Hn S2; cbn [map] in Hn; try discriminate; [reflexivity|].
    inversion Hn as [[Hm Hl]]. f_equal.
    - apply Hc; auto; [apply S1 | apply S2]; now left.
    - apply IHl; auto; intros; [apply S1 | apply S2]; now right. }
  congruence.
Qed.

(* different trees are hashed from different bytes *)
Corollary marshal_distinct : forall f g,
  small (marshal f) -> small (marshal g) -> f <> g -> marshal f <> marshal g.
Proof. intros f g Sf Sg Hne H. apply Hne. now apply marshal_inj. Qed.
