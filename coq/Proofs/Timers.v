(* C36 — proofs over the timer model (Model/Timers.v) for ALL configurations, states and
   label sequences (time steps, timer firings, pongs, client- and server-side refreshes). *)
From Coq Require Import List NArith Bool Lia.
From Cfg Require Import Model.Timers Model.TimersSpec.
Import ListNotations.
Open Scope N_scope.

Ltac nb :=
  repeat match goal with
         | H : (_ <? _) = true |- _ => apply N.ltb_lt in H
         | H : (_ <? _) = false |- _ => apply N.ltb_ge in H
         | H : (_ <=? _) = true |- _ => apply N.leb_le in H
         | H : (_ <=? _) = false |- _ => apply N.leb_gt in H
         | H : (_ =? _) = true |- _ => apply N.eqb_eq in H
         | H : (_ =? _) = false |- _ => apply N.eqb_neq in H
         end.

Ltac use_fst H :=
  match type of H with ?t = (?a, ?b) => replace a with (fst t) by (rewrite H; reflexivity) end.

(* ---------- the multiplexer picks the earliest pending deadline ---------- *)

Lemma pick_covers : forall s,
  covers (pick s) (nExpire s) = true /\ covers (pick s) (nPresence s) = true /\
  covers (pick s) (nPing s) = true /\ covers (pick s) (nPong s) = true.
Proof.
  intro s. unfold pick, covers.
  destruct (0 <? nExpire s) eqn:E0; cbn [andb];
    destruct (0 <? nPresence s) eqn:E1; cbn [andb];
    try destruct (nPresence s <? nExpire s) eqn:C1; cbn [andb];
    destruct (0 <? nPing s) eqn:E2; cbn [andb];
    try destruct (nPing s <? nExpire s) eqn:C2; try destruct (nPing s <? nPresence s) eqn:C3; cbn [andb];
    destruct (0 <? nPong s) eqn:E3; cbn [andb];
    try destruct (nPong s <? nExpire s) eqn:C4; try destruct (nPong s <? nPresence s) eqn:C5;
    try destruct (nPong s <? nPing s) eqn:C6; cbn [andb];
    nb; repeat split; apply orb_true_iff;
    try (left; apply N.eqb_eq; lia); try (right; apply N.leb_le; lia).
Qed.

Lemma pick_not_stale : forall s d, pick s <> Some (OpStale, d).
Proof.
  intros s d. unfold pick.
  destruct (0 <? nExpire s); cbn [andb];
    destruct (0 <? nPresence s); cbn [andb]; try destruct (nPresence s <? nExpire s);
    destruct (0 <? nPing s); cbn [andb]; try destruct (nPing s <? nExpire s); try destruct (nPing s <? nPresence s);
    destruct (0 <? nPong s); cbn [andb]; try destruct (nPong s <? nExpire s); try destruct (nPong s <? nPresence s);
    try destruct (nPong s <? nPing s); discriminate.
Qed.

Lemma pick_expire : forall s d, pick s = Some (OpExpire, d) -> d = nExpire s /\ 0 < nExpire s.
Proof.
  intros s d. unfold pick.
  destruct (0 <? nExpire s) eqn:E0; cbn [andb];
    destruct (0 <? nPresence s); cbn [andb]; try destruct (nPresence s <? nExpire s);
    destruct (0 <? nPing s); cbn [andb]; try destruct (nPing s <? nExpire s); try destruct (nPing s <? nPresence s);
    destruct (0 <? nPong s); cbn [andb]; try destruct (nPong s <? nExpire s); try destruct (nPong s <? nPresence s);
    try destruct (nPong s <? nPing s); intro H; inversion H; nb; auto.
Qed.

(* ---------- invariant of the timer bookkeeping ---------- *)

Definition J (s : st) : Prop := nExpire s = 0 \/ (0 < exp s /\ exp s <= nExpire s).

Definition inv (s : st) : Prop :=
  closed s = false ->
  (auth s = false ->
     nExpire s = 0 /\ nPresence s = 0 /\ nPing s = 0 /\ nPong s = 0 /\
     match armed s with Some (OpStale, _) | None => True | _ => False end) /\
  (auth s = true -> armed s = pick s /\ J s).

Lemma inv_closed : forall s, closed s = true -> inv s.
Proof. intros s H H'; congruence. Qed.

Lemma close_inv : forall s code, inv (fst (close s code)).
Proof.
  intros s code. unfold close. destruct (closed s) eqn:C; cbn [fst].
  - apply inv_closed; assumption.
  - apply inv_closed; reflexivity.
Qed.

Lemma schedule_armed : forall s, closed s = false -> armed (schedule s) = pick (schedule s).
Proof. intros s H; unfold schedule; rewrite H. reflexivity. Qed.

(* tick_subs only touches subscriptions, or closes *)
Lemma tick_subs_keeps : forall g l s s' o,
  tick_subs g s l = (s', o) ->
  closed s' = true \/
  (closed s' = closed s /\ auth s' = auth s /\ armed s' = armed s /\ nExpire s' = nExpire s /\
   nPresence s' = nPresence s /\ nPing s' = nPing s /\ nPong s' = nPong s /\ exp s' = exp s /\ now s' = now s).
Proof.
  induction l as [|b r IH]; intros s s' o H; cbn [tick_subs] in H.
  - inversion H; subst. right. repeat split.
  - destruct (closed s) eqn:C. { inversion H; subst. left; assumption. }
    destruct (sub_expired g s b).
    + destruct (sub_refreshed g s b) as [e|].
      { destruct (tick_subs g (set_subs s _) r) as [s2 o2] eqn:E. inversion H; subst.
        destruct (IH _ _ _ E) as [X|X]; [left; exact X|right; cbn in X; rewrite C in X; exact X]. }
      destruct (sb_server b).
      * unfold close in H. rewrite C in H. inversion H; subst. left; reflexivity.
      * destruct (tick_subs g (set_subs s _) r) as [s2 o2] eqn:E. inversion H; subst.
        destruct (IH _ _ _ E) as [Hc|Hk]; [left; assumption|right]. cbn in Hk. rewrite C in Hk. exact Hk.
    + destruct (IH _ _ _ H) as [X|X]; [left; exact X|right; rewrite C in X; exact X].
Qed.

Lemma tick_pos_keeps : forall l s s' o,
  tick_pos s l = (s', o) ->
  closed s' = true \/
  (closed s' = closed s /\ auth s' = auth s /\ armed s' = armed s /\ nExpire s' = nExpire s /\
   nPresence s' = nPresence s /\ nPing s' = nPing s /\ nPong s' = nPong s /\ exp s' = exp s /\ now s' = now s).
Proof.
  induction l as [|b r IH]; intros s s' o H; cbn [tick_pos] in H.
  - inversion H; subst. right. repeat split.
  - destruct (closed s) eqn:C. { inversion H; subst. left; assumption. }
    destruct (sb_server b).
    + unfold close in H. rewrite C in H. inversion H; subst. left; reflexivity.
    + destruct (tick_pos (set_subs s _) r) as [s2 o2] eqn:E. inversion H; subst.
      destruct (IH _ _ _ E) as [Hc|Hk]; [left; assumption|right]. cbn in Hk. rewrite C in Hk. exact Hk.
Qed.

Lemma tick_keeps : forall g s s' o,
  tick g s = (s', o) ->
  closed s' = true \/
  (closed s' = closed s /\ auth s' = auth s /\ armed s' = armed s /\ nExpire s' = nExpire s /\
   nPresence s' = nPresence s /\ nPing s' = nPing s /\ nPong s' = nPong s /\ exp s' = exp s /\ now s' = now s).
Proof.
  intros g s s' o H. unfold tick in H.
  destruct (tick_subs g (set_subs s (stamp g s (subs s))) _) as [s1 o1] eqn:E1.
  destruct (tick_pos s1 _) as [s2 o2] eqn:E2. inversion H; subst s' o. clear H.
  apply tick_subs_keeps in E1. apply tick_pos_keeps in E2.
  destruct E2 as [X|X]; [left; exact X|].
  destruct E1 as [Y|Y].
  - left. destruct X as [X1 _]. rewrite X1. exact Y.
  - right. cbn in Y.
    destruct X as [X1 [X2 [X3 [X4 [X5 [X6 [X7 [X8 X9]]]]]]]].
    destruct Y as [Y1 [Y2 [Y3 [Y4 [Y5 [Y6 [Y7 [Y8 Y9]]]]]]]].
    repeat split; congruence.
Qed.

(* ---------- slow connect: the stale timer inside the connect window ---------- *)

(* the stale timer firing on the authenticated, still connecting connection changes nothing:
   the whole label is a connect d seconds later (unless the connection is unusable) *)
Lemma connect_slow_eq : forall g s e c fp fi d,
  unusable s = false ->
  connect_slow g s e c fp fi d = (connect g (advance s d) e c fp fi, []).
Proof.
  intros g s e c fp fi d U. unfold connect_slow, connect, stale_due, advance. cbn.
  destruct (closed s || auth s) eqn:CA; [reflexivity|].
  apply orb_false_iff in CA. destruct CA as [C A].
  destruct (armed s) as [[[] due]|] eqn:Ar; cbn; rewrite ?C; try reflexivity.
  destruct (due <=? now s + d); cbn; rewrite ?U, ?C; cbn; unfold schedule; cbn; rewrite ?C; reflexivity.
Qed.

Lemma connect_slow_closed_or_eq : forall g s e c fp fi d,
  closed (fst (connect_slow g s e c fp fi d)) = true \/
  connect_slow g s e c fp fi d = (connect g (advance s d) e c fp fi, []).
Proof.
  intros g s e c fp fi d. destruct (unusable s) eqn:U; [|right; apply connect_slow_eq; assumption].
  unfold connect_slow, connect, stale_due, advance. cbn.
  destruct (closed s || auth s) eqn:CA; [right; reflexivity|].
  apply orb_false_iff in CA. destruct CA as [C A].
  destruct (armed s) as [[[] due]|] eqn:Ar; cbn; rewrite ?C; try (right; reflexivity).
  destruct (due <=? now s + d); cbn; rewrite ?U, ?C; cbn.
  - left. reflexivity.
  - right. unfold schedule; cbn; rewrite ?C; reflexivity.
Qed.

Lemma advance_inv : forall s d, inv s -> inv (advance s d).
Proof.
  intros s d I C'. cbn [closed advance] in C'. specialize (I C'). destruct I as [Iu Ia].
  split; intro Ax; cbn in *; auto.
Qed.

Lemma connect_inv : forall g s e c fp fi, inv s -> inv (connect g s e c fp fi).
Proof.
  intros g s e c fp fi I. unfold connect.
  destruct (closed s) eqn:C; cbn [orb]; [assumption|].
  destruct (auth s) eqn:Au; [assumption|].
  destruct (I C) as [Iu Ia]. destruct (Iu Au) as [Z1 [Z2 [Z3 [Z4 _]]]].
  intro C'. split; intro Ax.
  + unfold schedule in Ax. cbn in Ax. rewrite ?C in Ax. cbn in Ax. discriminate.
  + unfold schedule. cbn. rewrite ?C. cbn. split; [reflexivity|].
    unfold J. cbn. destruct (0 <? e) eqn:E.
    * right. nb. lia.
    * left. assumption.
Qed.

Lemma connect_slow_inv : forall g s e c fp fi d, inv s -> inv (fst (connect_slow g s e c fp fi d)).
Proof.
  intros g s e c fp fi d I.
  destruct (connect_slow_closed_or_eq g s e c fp fi d) as [X|X]; [apply inv_closed; exact X|].
  rewrite X. cbn [fst]. apply connect_inv, advance_inv, I.
Qed.

(* the property: an authenticated connection is not closed by the stale timer, also while its
   connect is still inside the OnConnect handler *)
Lemma stale_spares_connecting : forall g s e c fp fi d,
  unusable s = false -> snd (connect_slow g s e c fp fi d) = [].
Proof. intros. rewrite connect_slow_eq by assumption. reflexivity. Qed.

Lemma step_inv : forall g s l s' o, step g s l = Some (s', o) -> inv s -> inv s'.
Proof.
  intros g s l s' o H I.
  destruct (match l with LConnectSlow _ _ _ _ _ => true | _ => false end) eqn:SLOW.
  { destruct l; try discriminate. cbn [step step_gen] in H. inversion H as [H'].
    use_fst H'. apply connect_slow_inv, I. }
  destruct (closed s) eqn:C.
  { (* a closed connection stays closed *)
    apply inv_closed. destruct l; cbn [step step_gen] in H.
    - inversion H; subst; assumption.
    - unfold fire in H; rewrite C in H; discriminate.
    - inversion H; subst. unfold connect. rewrite C. assumption.
    - destruct (auth s); inversion H; subst. unfold add_sub. rewrite C. assumption.
    - inversion H as [H']. unfold pong_cmd in H'. rewrite C in H'. inversion H'; subst; assumption.
    - inversion H as [H']. destruct (auth s); [unfold refresh_cmd in H'|unfold close in H']; rewrite C in H';
        inversion H'; subst; assumption.
    - destruct (auth s); [|discriminate]. inversion H as [H'].
      use_fst H'. unfold srv_refresh, srv_refresh_gen, close, schedule.
      destruct expired; [rewrite C; cbn; assumption|].
      destruct (e =? 0); [cbn; rewrite C; cbn; assumption|].
      destruct (now s <? e); cbn; rewrite C; cbn; assumption.
    - inversion H as [H']. destruct (auth s); [unfold sub_refresh_cmd in H'|unfold close in H']; rewrite C in H';
        inversion H'; subst; assumption.
    - inversion H; subst. cbn. assumption.
    - discriminate SLOW. }
  specialize (I C). destruct I as [Iu Ia].
  destruct l; cbn [step step_gen] in H.
  - (* advance *) inversion H; subst. intro C'. cbn in *. auto.
  - (* fire *)
    unfold fire in H. rewrite C in H.
    destruct (armed s) as [[k due]|] eqn:A; [|discriminate].
    destruct (due <=? now s) eqn:D; [|discriminate]. inversion H as [H']. clear H.
    destruct (auth s) eqn:Au.
    + destruct (Ia eq_refl) as [Ap Jx]. try rewrite A in Ap.
      destruct k; cbn [run_op] in H'.
      * exfalso. apply (pick_not_stale s due). symmetry; assumption.
      * (* presence *)
        cbn [unusable upd_armed] in H'.
        destruct (unusable s). { use_fst H'. apply close_inv. }
        unfold schedule in H'. cbn [closed set_times upd_armed] in H'. rewrite C in H'.
        apply tick_keeps in H'. destruct H' as [Hc|Hk]; [apply inv_closed; assumption|].
        cbn in Hk. destruct Hk as [K1 [K2 [K3 [K4 [K5 [K6 [K7 [K8 K9]]]]]]]].
        intro C'. split; intro Ax; [congruence|]. split.
        -- rewrite K3. unfold pick. rewrite K4, K5, K6, K7. reflexivity.
        -- unfold J in *. rewrite K4, K8. exact Jx.
      * (* expire *)
        symmetry in Ap. destruct (pick_expire _ _ Ap) as [Ed Epos].
        destruct Jx as [Jz|[Jp Jl]]; [lia|]. nb.
        assert (Hle : exp s <= now s) by lia.
        unfold expire, check_expired in H'. cbn [closed exp csr now upd_armed] in H'. rewrite C in H'.
        cbn [orb] in H'.
        assert (E0 : (exp s =? 0) = false) by (apply N.eqb_neq; lia). rewrite E0 in H'.
        assert (Lt : (now s <? exp s) = false) by (apply N.ltb_ge; lia).
        destruct (csr s) eqn:Cs; cbn [negb andb] in H'.
        { rewrite ?E0, ?Lt in H'. cbn in H'. use_fst H'. apply close_inv. }
        destruct (g_refresh g) eqn:G.
        -- rewrite ?E0, ?Lt in H'. cbn in H'. use_fst H'. apply close_inv.
        -- (* extend *)
           destruct (0 <? now s + d) eqn:Z.
           ++ cbn [closed exp csr now set_exp upd_armed] in H'. rewrite ?C in H'. cbn [orb] in H'.
              assert (E1 : (now s + d =? 0) = false) by (nb; apply N.eqb_neq; lia). rewrite E1 in H'.
              rewrite Cs in H'. cbn [negb andb] in H'.
              destruct (now s <? now s + d) eqn:L2.
              ** inversion H'; subst. intro C'. split; intro Ax; [unfold schedule in Ax; cbn in Ax; rewrite ?C in Ax; cbn in Ax; congruence|].
                 unfold schedule. cbn. rewrite ?C. cbn. split; [reflexivity|].
                 unfold J. cbn. right. nb. lia.
              ** use_fst H'. apply close_inv.
           ++ cbn [closed exp csr now upd_armed] in H'. rewrite ?C, ?E0, ?Cs, ?Lt in H'. cbn in H'.
              use_fst H'. apply close_inv.
        -- use_fst H'. apply close_inv.
        -- use_fst H'. apply close_inv.
      * (* ping *)
        inversion H'; subst. intro C'. split; intro Ax; [unfold schedule in Ax; cbn in Ax; rewrite ?C in Ax; cbn in Ax; congruence|].
        unfold schedule. cbn. rewrite ?C. cbn. split; [reflexivity|]. exact Jx.
      * (* pong check *)
        cbn [lastSeen lastPing upd_armed] in H'. destruct (lastSeen s <? lastPing s).
        { use_fst H'. apply close_inv. }
        inversion H'; subst. intro C'. split; intro Ax; [unfold schedule in Ax; cbn in Ax; rewrite ?C in Ax; cbn in Ax; congruence|].
        unfold schedule. cbn. rewrite ?C. cbn. split; [reflexivity|]. exact Jx.
    + (* not authenticated: only the stale timer can be armed *)
      destruct (Iu eq_refl) as [_ [_ [_ [_ Ast]]]]. try rewrite A in Ast.
      destruct k; try contradiction. cbn [run_op auth upd_armed] in H'. rewrite Au in H'. cbn in H'.
      use_fst H'. apply close_inv.
  - (* connect *)
    inversion H; subst. unfold connect. rewrite C. cbn [orb].
    destruct (auth s) eqn:Au. { intro; split; intro; [congruence|auto]. }
    destruct (Iu eq_refl) as [Z1 [Z2 [Z3 [Z4 _]]]].
    intro C'. split; intro Ax.
    + unfold schedule in Ax. cbn in Ax. rewrite ?C in Ax. cbn in Ax. discriminate.
    + unfold schedule. cbn. rewrite ?C. cbn. split; [reflexivity|].
      unfold J. cbn. destruct (0 <? e) eqn:E.
      * right. nb. lia.
      * left. assumption.
  - (* subscribe *)
    destruct (auth s) eqn:Au; [|discriminate]. inversion H; subst. unfold add_sub. rewrite C.
    intro C'. split; intro Ax; [unfold schedule in Ax; cbn in Ax; rewrite ?C in Ax; cbn in Ax; congruence|]. cbn. apply Ia; reflexivity.
  - (* pong *)
    inversion H as [H']. unfold pong_cmd in H'. rewrite C in H'.
    destruct (auth s) eqn:Au; cbn [negb] in H'.
    + destruct ((lastPing s =? 0) || ponged s).
      * use_fst H'. apply close_inv.
      * inversion H'; subst. intro C'. split; intro Ax; [unfold schedule in Ax; cbn in Ax; rewrite ?C in Ax; cbn in Ax; congruence|]. cbn. apply Ia; reflexivity.
    + use_fst H'. apply close_inv.
  - (* refresh command *)
    inversion H as [H']. destruct (auth s) eqn:Au.
    2: { use_fst H'. apply close_inv. }
    unfold refresh_cmd in H'. rewrite C in H'.
    destruct (csr s); cbn [negb] in H'.
    + destruct (e =? 0). { inversion H'; subst. intro; split; intro; [congruence|auto]. }
      destruct (now s <? e) eqn:L.
      * inversion H'; subst. intro C'. split; intro Ax; [unfold schedule in Ax; cbn in Ax; rewrite ?C in Ax; cbn in Ax; congruence|].
        unfold schedule. cbn. rewrite ?C. cbn. split; [reflexivity|]. unfold J. cbn. right. nb. lia.
      * inversion H'; subst. intro; split; intro; [congruence|auto].
    + destruct (g_refresh g).
      * inversion H'; subst. intro; split; intro; [congruence|auto].
      * use_fst H'. apply close_inv.
      * use_fst H'. apply close_inv.
      * use_fst H'. apply close_inv.
  - (* server refresh *)
    destruct (auth s) eqn:Au; [|discriminate]. inversion H as [H']. unfold srv_refresh, srv_refresh_gen in H'.
    destruct expired. { use_fst H'. apply close_inv. }
    destruct (e =? 0) eqn:E0.
    + inversion H'; subst. intro C'. split; intro Ax; [cbn in Ax; unfold schedule in Ax; cbn in Ax; rewrite C in Ax; cbn in Ax; congruence|].
      unfold schedule. cbn. rewrite ?C. cbn. split; [reflexivity|]. unfold J. cbn. left. reflexivity.
    + destruct (now s <? e) eqn:L.
      * inversion H'; subst. intro C'. split; intro Ax; [cbn in Ax; unfold schedule in Ax; cbn in Ax; rewrite C in Ax; cbn in Ax; congruence|].
        unfold schedule. cbn. rewrite ?C. cbn. split; [reflexivity|]. unfold J. cbn. right. nb. lia.
      * use_fst H'. apply close_inv.
  - (* sub refresh command *)
    inversion H as [H']. destruct (auth s) eqn:Au.
    2: { use_fst H'. apply close_inv. }
    unfold sub_refresh_cmd in H'. rewrite C in H'.
    destruct (find (fun b => sb_name b =? n) (subs s)) as [b|].
    + destruct (sb_csr b); cbn [negb] in H'.
      * destruct ((0 <? e) && (e <? now s)); inversion H'; subst.
        -- intro; split; intro; [congruence|auto].
        -- intro C'. split; intro Ax; [unfold schedule in Ax; cbn in Ax; rewrite ?C in Ax; cbn in Ax; congruence|]. cbn. apply Ia; reflexivity.
      * use_fst H'. apply close_inv.
    + inversion H'; subst. intro; split; intro; [congruence|auto].
  - (* stream moves *)
    inversion H; subst. intro C'. split; intro Ax; cbn in Ax; [apply Iu in Ax|apply Ia in Ax]; exact Ax.
  - discriminate SLOW.
Qed.

Lemma init_inv : forall g, inv (init g).
Proof.
  intros g _. split; intro H; [|discriminate]. cbn. repeat split; try reflexivity.
  destruct (g_stale g =? 0); exact I.
Qed.

Lemma exec_inv : forall g ls s s' os, exec g s ls = Some (s', os) -> inv s -> inv s'.
Proof.
  unfold exec. induction ls as [|l r IH]; intros s s' os H I; cbn [exec_gen] in H.
  - inversion H; subst; assumption.
  - destruct (step_gen srv_refresh g s l) as [[s1 o1]|] eqn:E; [|discriminate].
    destruct (exec_gen srv_refresh g s1 r) as [[s2 os2]|] eqn:E2; [|discriminate].
    inversion H; subst. eapply IH; [eassumption|]. eapply step_inv; eassumption.
Qed.

(* no due check is starved: in every reachable state of an open connection the armed timer
   is not later than any pending deadline *)
Theorem no_starvation : forall g ls s os,
  exec g (init g) ls = Some (s, os) -> cover_ok (snap_of s) = true.
Proof.
  intros g ls s os H. pose proof (exec_inv _ _ _ _ _ H (init_inv g)) as I.
  unfold cover_ok, snap_of. cbn. destruct (closed s) eqn:C; [reflexivity|]. cbn [orb].
  destruct (I C) as [Iu Ia]. destruct (auth s) eqn:Au.
  - destruct (Ia eq_refl) as [Ap _]. rewrite Ap.
    destruct (pick_covers s) as [A [B [D E]]]. rewrite A, B, D, E. reflexivity.
  - destruct (Iu eq_refl) as [-> [-> [-> [-> _]]]]. reflexivity.
Qed.

(* the code before the fix: after Refresh() without expiry the old expiry check fires, finds
   nothing to do and leaves the connection without any timer although a ping is pending *)
Theorem prefix_starves :
  exists g ls s os,
    exec_prefix g (init g) ls = Some (s, os) /\ closed s = false /\ cover_ok (snap_of s) = false.
Proof.
  exists (mkCfg 20 10 23 20 10 10 false RNone SFail 0),
         [LAdvance 5; LConnect 20 true 13 10; LSrvRefresh false 0; LAdvance 10; LFire; LPong;
          LAdvance 10; LFire; LAdvance 10; LFire; LFire].
  eexists. eexists. vm_compute. repeat split; reflexivity.
Qed.

(* ---------- what each check does when it fires (for ALL states) ---------- *)

Lemma fire_runs : forall g s k due,
  closed s = false -> armed s = Some (k, due) -> due <= now s ->
  fire g s = Some (run_op g (upd_armed s None) k).
Proof.
  intros g s k due C A D. unfold fire. rewrite C, A.
  apply N.leb_le in D. rewrite D. reflexivity.
Qed.

Lemma fire_not_before : forall g s k due,
  armed s = Some (k, due) -> now s < due -> fire g s = None.
Proof.
  intros g s k due A D. unfold fire. destruct (closed s); [reflexivity|]. rewrite A.
  apply N.leb_gt in D. rewrite D. reflexivity.
Qed.

(* pong check: closes with 3012 exactly when no pong was seen after the last ping *)
Theorem pong_check : forall g s due,
  closed s = false -> armed s = Some (OpPong, due) -> due <= now s ->
  (lastSeen s < lastPing s ->
     exists s', fire g s = Some (s', [OClose 3012]) /\ closed s' = true) /\
  (lastPing s <= lastSeen s ->
     exists s', fire g s = Some (s', []) /\ closed s' = false /\ nPong s' = 0).
Proof.
  intros g s due C A D. rewrite (fire_runs g s OpPong due C A D). cbn [run_op lastSeen lastPing upd_armed].
  split; intro H.
  - apply N.ltb_lt in H. rewrite H. unfold close. cbn. rewrite C. eexists; split; reflexivity.
  - apply N.ltb_ge in H. rewrite H. eexists. split; [reflexivity|]. unfold schedule. cbn. rewrite C. cbn. auto.
Qed.

(* stale check: an unauthenticated connection is closed with 3502 *)
Theorem stale_check : forall g s due,
  closed s = false -> armed s = Some (OpStale, due) -> due <= now s -> auth s = false ->
  exists s', fire g s = Some (s', [OClose 3502]) /\ closed s' = true.
Proof.
  intros g s due C A D Au. rewrite (fire_runs g s OpStale due C A D). cbn [run_op auth upd_armed].
  rewrite Au. cbn. unfold close. cbn. rewrite C. eexists; split; reflexivity.
Qed.

(* expiry check: past the expiry and nobody extends it => closed with 3005 *)
Theorem expire_check : forall g s due,
  closed s = false -> armed s = Some (OpExpire, due) -> due <= now s ->
  0 < exp s -> exp s <= now s -> (csr s = true \/ g_refresh g = RNone) ->
  exists s', fire g s = Some (s', [OClose 3005]) /\ closed s' = true.
Proof.
  intros g s due C A D E0 E1 Hr. rewrite (fire_runs g s OpExpire due C A D). cbn [run_op].
  unfold expire, check_expired. cbn [closed exp csr now upd_armed]. rewrite C. cbn [orb].
  assert (Z : (exp s =? 0) = false) by (apply N.eqb_neq; lia).
  assert (L : (now s <? exp s) = false) by (apply N.ltb_ge; lia).
  rewrite Z.
  destruct Hr as [Hr|Hr]; rewrite Hr; cbn [negb andb];
    try (destruct (csr s); cbn [negb andb]); rewrite ?Z, ?L; cbn;
    unfold close; cbn; rewrite ?C; eexists; split; reflexivity.
Qed.

(* ... and the expiry check is never armed before the current expiry: a refresh moves it *)
Theorem expire_not_early : forall g ls s os due,
  exec g (init g) ls = Some (s, os) -> closed s = false ->
  armed s = Some (OpExpire, due) -> 0 < exp s /\ exp s <= due.
Proof.
  intros g ls s os due H C A.
  pose proof (exec_inv _ _ _ _ _ H (init_inv g)) as I. destruct (I C) as [Iu Ia].
  destruct (auth s) eqn:Au.
  - destruct (Ia eq_refl) as [Ap Jx]. rewrite A in Ap. symmetry in Ap.
    destruct (pick_expire _ _ Ap) as [-> P]. destruct Jx as [Z|Jx]; [lia|exact Jx].
  - destruct (Iu eq_refl) as [_ [_ [_ [_ St]]]]. rewrite A in St. contradiction.
Qed.

Lemma refresh_moves_deadline : forall g s e,
  closed s = false -> csr s = true -> now s < e ->
  let s' := fst (refresh_cmd g s e) in exp s' = e /\ nExpire s' = e + g_exp_delay g /\ closed s' = false.
Proof.
  intros g s e C Cs L. unfold refresh_cmd. rewrite C, Cs. cbn [negb].
  assert (Z : (e =? 0) = false) by (apply N.eqb_neq; lia). rewrite Z.
  pose proof L as L'. apply N.ltb_lt in L. rewrite L. cbn [fst]. unfold schedule. cbn. rewrite C. cbn.
  repeat split; try reflexivity; try assumption. lia.
Qed.

(* subscription expiry at the presence tick: exactly the expired client-side subscriptions that
   the application does not extend are unsubscribed with 2501 *)
Definition sub_gone (g : cfg) (s : st) (b : sub) : bool :=
  sub_expired g s b && match sub_refreshed g s b with None => true | Some _ => false end.

Definition tick_out (g : cfg) (s : st) (b : sub) : list out :=
  if sub_expired g s b
  then sub_ask b ++ (if sub_gone g s b then [OUnsub (sb_name b) 2501] else [])
  else [].

Lemma tick_subs_spec : forall g l s,
  closed s = false ->
  (forall b, In b l -> sub_gone g s b = true -> sb_server b = false) ->
  snd (tick_subs g s l) = flat_map (tick_out g s) l /\
  closed (fst (tick_subs g s l)) = false.
Proof.
  induction l as [|b r IH]; intros s C Hs; cbn [tick_subs flat_map].
  - auto.
  - rewrite C. unfold tick_out at 1, sub_gone at 1. destruct (sub_expired g s b) eqn:E; cbn [andb].
    + destruct (sub_refreshed g s b) as [e|] eqn:R.
      * set (s1 := set_subs s (set_sub_exp (subs s) (sb_name b) e)).
        assert (X : forall x, sub_gone g s1 x = sub_gone g s x) by reflexivity.
        destruct (IH s1 C) as [I1 I2].
        { intros x Hx Ex. rewrite X in Ex. apply Hs; [right; assumption|assumption]. }
        destruct (tick_subs g s1 r) as [s2 o2]. cbn [fst snd] in *. split; [|assumption].
        rewrite I1, app_nil_r. reflexivity.
      * assert (G : sub_gone g s b = true) by (unfold sub_gone; rewrite E, R; reflexivity).
        rewrite (Hs b (or_introl eq_refl) G).
        set (s1 := set_subs s (filter (fun x => negb (sb_name x =? sb_name b)) (subs s))).
        assert (X : forall x, sub_gone g s1 x = sub_gone g s x) by reflexivity.
        destruct (IH s1 C) as [I1 I2].
        { intros x Hx Ex. rewrite X in Ex. apply Hs; [right; assumption|assumption]. }
        destruct (tick_subs g s1 r) as [s2 o2]. cbn [fst snd] in *. split; [|assumption].
        rewrite I1, <- app_assoc. reflexivity.
    + apply IH; [assumption|]. intros x Hx. apply Hs. right; assumption.
Qed.

(* an expired subscription without client-side refresh that the SubRefreshHandler extends stays,
   with the new expiry, and nothing is written for it *)
Lemma tick_sub_extended : forall g s b e,
  closed s = false -> sub_expired g s b = true -> sub_refreshed g s b = Some e ->
  tick_subs g s [b] = (set_subs s (set_sub_exp (subs s) (sb_name b) e), [OAsk (sb_name b)]).
Proof.
  intros g s b e C E R. cbn [tick_subs]. rewrite C, E, R. unfold sub_ask.
  unfold sub_refreshed in R. destruct (sb_csr b); [discriminate|]. reflexivity.
Qed.

(* ---------- pong bookkeeping over runs: lastSeen < lastPing iff no pong since the last ping ---------- *)

Definition K (s : st) : Prop :=
  lastPing s <= seq s /\ lastSeen s <= seq s /\
  (ponged s = true -> lastPing s <= lastSeen s) /\
  (ponged s = false -> 0 < lastPing s -> lastSeen s < lastPing s).

Lemma K_ext : forall s s',
  lastPing s' = lastPing s -> lastSeen s' = lastSeen s -> ponged s' = ponged s -> seq s' = seq s -> K s -> K s'.
Proof. intros s s' A B C D [K1 [K2 [K3 K4]]]. unfold K. rewrite A, B, C, D. auto. Qed.

Lemma close_K : forall s code, K s -> K (fst (close s code)).
Proof. intros s code H. unfold close. destruct (closed s); cbn [fst]; [assumption|]. eapply K_ext; eauto. Qed.

Lemma tick_subs_K : forall g l s, K s -> K (fst (tick_subs g s l)).
Proof.
  induction l as [|b r IH]; intros s H; cbn [tick_subs]; [assumption|].
  destruct (closed s); [assumption|]. destruct (sub_expired g s b).
  - destruct (sub_refreshed g s b) as [e|].
    { specialize (IH (set_subs s (set_sub_exp (subs s) (sb_name b) e))).
      destruct (tick_subs g _ r) as [s2 o2]. cbn [fst] in *. apply IH. eapply K_ext; eauto. }
    destruct (sb_server b).
    { pose proof (close_K s 3006 H) as X. destruct (close s 3006) as [s2 o2]. exact X. }
    specialize (IH (set_subs s (filter (fun x => negb (sb_name x =? sb_name b)) (subs s)))).
    destruct (tick_subs g _ r) as [s2 o2]. cbn [fst] in *. apply IH. eapply K_ext; eauto.
  - apply IH; assumption.
Qed.

Lemma tick_pos_K : forall l s, K s -> K (fst (tick_pos s l)).
Proof.
  induction l as [|b r IH]; intros s H; cbn [tick_pos]; [assumption|].
  destruct (closed s); [assumption|].
  destruct (sb_server b); [apply close_K; assumption|].
  specialize (IH (set_subs s (filter (fun x => negb (sb_name x =? sb_name b)) (subs s)))).
  destruct (tick_pos _ r) as [s2 o2]. cbn [fst] in *. apply IH. eapply K_ext; eauto.
Qed.

Lemma tick_K : forall g s, K s -> K (fst (tick g s)).
Proof.
  intros g s H. unfold tick.
  pose proof (tick_subs_K g (subs (set_subs s (stamp g s (subs s)))) (set_subs s (stamp g s (subs s)))) as A.
  destruct (tick_subs g (set_subs s (stamp g s (subs s))) _) as [s1 o1]. cbn [fst] in A.
  assert (K1 : K s1) by (apply A; eapply K_ext; eauto).
  pose proof (tick_pos_K (filter (fun b => existsb (fun x => sb_name x =? sb_name b) (subs s1)) (filter (pos_invalid g s) (subs s))) s1 K1) as B.
  destruct (tick_pos s1 _) as [s2 o2]. exact B.
Qed.

Lemma schedule_K : forall s, K s -> K (schedule s).
Proof. intros s H. unfold schedule. destruct (closed s); [assumption|]. eapply K_ext; eauto. Qed.

Lemma connect_slow_K : forall g s e c fp fi d, K s -> K (fst (connect_slow g s e c fp fi d)).
Proof.
  intros g s e c fp fi d H.
  unfold connect_slow, stale_due, advance, schedule, close. cbn.
  repeat match goal with
         | |- context [match armed s with _ => _ end] => destruct (armed s) as [[[] ?]|]
         | |- context [if ?b then _ else _] => destruct b; cbn
         end; cbn; (eapply K_ext; [| | | |exact H]; reflexivity).
Qed.

Lemma step_K : forall g s l s' o, step g s l = Some (s', o) -> K s -> K s'.
Proof.
  intros g s l s' o H Ks. destruct l; cbn [step step_gen] in H.
  - inversion H; subst. eapply K_ext; eauto.
  - unfold fire in H. destruct (closed s); [discriminate|].
    destruct (armed s) as [[k due]|]; [|discriminate]. destruct (due <=? now s); [|discriminate].
    inversion H as [H']. clear H. assert (K0 : K (upd_armed s None)) by (eapply K_ext; eauto).
    destruct k; cbn [run_op] in H'.
    + destruct (negb (auth (upd_armed s None)) || unusable (upd_armed s None)); [use_fst H'; apply close_K; assumption|].
      inversion H'; subst; assumption.
    + destruct (unusable (upd_armed s None)).
      * use_fst H'. apply close_K. apply schedule_K. eapply K_ext; eauto.
      * use_fst H'. apply tick_K. apply schedule_K. eapply K_ext; eauto.
    + assert (X : forall t, K t -> K (fst (check_expired g t))).
      { intros t Kt. unfold check_expired. destruct (closed t || (exp t =? 0)); [assumption|].
        destruct (now t <? exp t); cbn [fst];
          destruct (negb (csr t) && match g_refresh g with RNone => false | _ => true end); cbn [andb];
          try apply close_K; try apply schedule_K; try (eapply K_ext; eauto); assumption. }
      unfold expire in H'.
      destruct (closed (upd_armed s None) || (exp (upd_armed s None) =? 0)); [inversion H'; subst; assumption|].
      destruct (negb (csr (upd_armed s None))).
      * destruct (g_refresh g); use_fst H'; try (apply close_K; assumption); apply X; try assumption.
        destruct (0 <? now (upd_armed s None) + d); [eapply K_ext; eauto|assumption].
      * use_fst H'. apply X; assumption.
    + (* ping: a new event number, later than everything seen *)
      inversion H'; subst. apply schedule_K. destruct K0 as [K1 [K2 [K3 K4]]].
      unfold K. cbn in *. repeat split; try lia; try discriminate; try (intros; lia).
    + destruct (lastSeen (upd_armed s None) <? lastPing (upd_armed s None)); [use_fst H'; apply close_K; assumption|].
      inversion H'; subst. apply schedule_K. eapply K_ext; eauto.
  - inversion H; subst. unfold connect. destruct (closed s || auth s); [assumption|]. apply schedule_K. eapply K_ext; eauto.
  - destruct (auth s); [|discriminate]. inversion H; subst. unfold add_sub. destruct (closed s); [assumption|]. eapply K_ext; eauto.
  - inversion H as [H']. unfold pong_cmd in H'. destruct (closed s); [inversion H'; subst; assumption|].
    destruct (negb (auth s)); [use_fst H'; apply close_K; assumption|].
    destruct (lastPing s =? 0) eqn:Z; cbn [orb] in H'; [use_fst H'; apply close_K; assumption|].
    destruct (ponged s) eqn:P; [use_fst H'; apply close_K; assumption|].
    inversion H'; subst. destruct Ks as [K1 [K2 [K3 K4]]]. unfold K. cbn. nb. repeat split; try lia; try discriminate; try (intros; lia).
  - inversion H as [H']. destruct (auth s); [|use_fst H'; apply close_K; assumption].
    unfold refresh_cmd in H'. destruct (closed s); [inversion H'; subst; assumption|].
    destruct (negb (csr s)).
    + destruct (g_refresh g); try (use_fst H'; apply close_K; assumption). inversion H'; subst; assumption.
    + destruct (e =? 0); [inversion H'; subst; assumption|].
      destruct (now s <? e); inversion H'; subst; [apply schedule_K; eapply K_ext; eauto|assumption].
  - destruct (auth s); [|discriminate]. inversion H as [H']. unfold srv_refresh, srv_refresh_gen in H'.
    destruct expired; [use_fst H'; apply close_K; assumption|].
    destruct (e =? 0); [inversion H'; subst; apply schedule_K; eapply K_ext; eauto|].
    destruct (now s <? e); [inversion H'; subst; apply schedule_K; eapply K_ext; eauto|use_fst H'; apply close_K; assumption].
  - inversion H as [H']. destruct (auth s); [|use_fst H'; apply close_K; assumption].
    unfold sub_refresh_cmd in H'. destruct (closed s); [inversion H'; subst; assumption|].
    destruct (find (fun b => sb_name b =? n) (subs s)) as [b|]; [|inversion H'; subst; assumption].
    destruct (negb (sb_csr b)); [use_fst H'; apply close_K; assumption|].
    destruct ((0 <? e) && (e <? now s)); inversion H'; subst; [assumption|eapply K_ext; eauto].
  - inversion H; subst. eapply K_ext; eauto.
  - inversion H as [H']. use_fst H'. apply connect_slow_K. assumption.
Qed.

Theorem exec_K : forall g ls s os, exec g (init g) ls = Some (s, os) -> K s.
Proof.
  intros g ls. unfold exec.
  assert (G : forall s0 s os, exec_gen srv_refresh g s0 ls = Some (s, os) -> K s0 -> K s).
  { induction ls as [|l r IH]; intros s0 s os H K0; cbn [exec_gen] in H.
    - inversion H; subst; assumption.
    - destruct (step_gen srv_refresh g s0 l) as [[s1 o1]|] eqn:E; [|discriminate].
      destruct (exec_gen srv_refresh g s1 r) as [[s2 os2]|] eqn:E2; [|discriminate].
      inversion H; subst. eapply IH; [eassumption|]. eapply step_K; eassumption. }
  intros s os H. eapply G; [eassumption|]. unfold K, init. cbn. repeat split; try lia; discriminate.
Qed.

(* ---------- periodic position check ---------- *)

(* every invalid position of a client-side subscription costs exactly that subscription *)
Lemma tick_pos_spec : forall l s,
  closed s = false -> (forall b, In b l -> sb_server b = false) ->
  snd (tick_pos s l) = map (fun b => OUnsub (sb_name b) 2500) l /\
  closed (fst (tick_pos s l)) = false.
Proof.
  induction l as [|b r IH]; intros s C Hs; cbn [tick_pos map].
  - auto.
  - rewrite C, (Hs b (or_introl eq_refl)).
    set (s1 := set_subs s (filter (fun x => negb (sb_name x =? sb_name b)) (subs s))).
    destruct (IH s1 C) as [I1 I2]. { intros x Hx. apply Hs. right; assumption. }
    destruct (tick_pos s1 r) as [s2 o2]. cbn [fst snd] in *. split; [|assumption]. rewrite I1. reflexivity.
Qed.

(* a server-side subscription at an invalid position closes the connection (insufficient state) *)
Lemma tick_pos_server : forall s b r,
  closed s = false -> sb_server b = true -> tick_pos s (b :: r) = close s 3010.
Proof. intros s b r C S. cbn [tick_pos]. rewrite C, S. reflexivity. Qed.

(* the check is not repeated before the delay has passed: right after a valid check, and as long
   as no more than the delay went by since the last one, the subscription is not examined *)
Lemma pos_not_due : forall g s b, now s - sb_check b <= g_pos_delay g -> pos_invalid g s b = false.
Proof.
  intros g s b H. unfold pos_invalid, pos_due.
  assert (X : (g_pos_delay g <? now s - sb_check b) = false) by (apply N.ltb_ge; exact H).
  rewrite X, !andb_false_r. reflexivity.
Qed.

Lemma stamp_checked : forall g s b,
  pos_due g s b = true -> sb_bad b = false ->
  In (mkSub (sb_name b) (sb_exp b) (sb_csr b) (sb_server b) (sb_pos b) (now s) (sb_bad b)) (stamp g s [b]).
Proof. intros g s b D B. cbn [stamp map]. rewrite D, B. cbn. left; reflexivity. Qed.
