(* C05 / C08 witnesses on Model/SubLifecycle.v around the 5 s wait-gate timeout, and the
   shutdown witness. *)
From Coq Require Import List NArith ZArith Bool Lia.
From Cfg Require Import Model.SubLifecycle.
Import ListNotations.
Open Scope N_scope.

Fixpoint rep (n : nat) (l : label) : list label := match n with O => [] | S m => l :: rep m l end.
Definition op_ := mkOpts true false.
Definition o0 := mkOpts false false.

Definition alloc_tids (s : st) : list tid :=
  map (fun k => 2 * N.of_nat k) (seq 0 (N.to_nat (next_ext s))) ++
  map (fun k => 2 * N.of_nat k + 1) (seq 0 (N.to_nat (next_int s))).
Definition all_finished (s : st) : bool :=
  forallb (fun t => match thr s t with None => true | Some _ => false end) (alloc_tids s).

(* The stalled attempt A loses its reservation after the gate timeout; the close() the timeout
   path spawns is blocked on connectMu (the OnConnect handler is still running); a fresh attempt B
   reserves the channel; A resumes, subscribeCmd reads B's generation from c.channels and A
   commits B's reservation (adding presence); B is rejected and its gen-matched rollback deletes
   A's committed context without any teardown.  Only natural gates are used. *)
Definition genstamp_leak : list label :=
  [LSpawn OConnect] ++ rep 7 (LStep 0 true) ++             (* parked in the OnConnect handler, connectMu held *)
  [LSpawn (OSubCli 0 op_); LStep 2 true] ++                (* A: generation 1 reserved, handler pending *)
  [LSpawn (OUnsubSrv 0); LStep 4 true; LStep 4 true] ++    (* U1 waits at A's gate *)
  [LTimeout 4; LStep 1 true] ++                            (* 5 s: gate nil-ed; close spawned, blocked on connectMu *)
  [LSpawn (OUnsubSrv 0)] ++ rep 7 (LStep 6 true) ++        (* U2 deletes A's reservation *)
  [LSpawn (OSubCli 0 o0); LStep 8 true] ++                 (* B: generation 2 reserved *)
  rep 10 (LStep 2 true) ++                                 (* A: ok, reads generation 2, ..., commits, done *)
  [LStep 8 false] ++ rep 4 (LStep 8 true) ++               (* B: rejected; rollback deletes the committed context *)
  rep 2 (LStep 0 true) ++                                  (* the connect handler returns *)
  rep 9 (LStep 1 true).                                    (* the close runs *)

Definition is_unsubcb (e : ev) := match e with EvUnsubCb _ _ => true | _ => false end.

Lemma genstamp_leak_witness :
  exists s, exec genstamp_leak init = Some s /\
            all_finished s = true /\ status s = Closed /\
            lookup 0 (chans s) = None /\ hub s 0 = None /\ reg s = false /\
            pres s 0 = true /\                                        (* presence entry left behind *)
            In (EvCommit 2 0 2 false) (trace s) /\                    (* A's subscription was established *)
            filter is_unsubcb (trace s) = [].                         (* and ended without OnUnsubscribe *)
Proof.
  destruct (exec genstamp_leak init) as [s|] eqn:E; [|vm_compute in E; discriminate].
  exists s. split; auto. vm_compute in E. inversion E; subst. vm_compute. repeat split; auto 10.
Qed.

(* Node.Shutdown completed, then the connect command of a connection accepted earlier is
   processed.  Since 778bc3f1 connectCmd checks the shutdown state right after registering and
   returns DisconnectShutdown; the dispatcher closes the connection. *)
Definition shutdown_then_connect : list label :=
  [LSpawn OShutdown; LSpawn OConnect] ++ rep 3 (LStep 2 true) ++   (* KCheck, KAuth (registered), KShut: refused *)
  rep 10 (LStep 1 true).                                           (* the dispatcher's close() *)

Lemma shutdown_then_connect_witness :
  exists s, exec shutdown_then_connect init = Some s /\ all_finished s = true /\
            shut s = true /\ status s = Closed /\ reg s = false /\ hreg s = false /\ trace s = [].
Proof.
  destruct (exec shutdown_then_connect init) as [s|] eqn:E; [|vm_compute in E; discriminate].
  exists s. split; auto. vm_compute in E. inversion E; subst. vm_compute. repeat split; reflexivity.
Qed.

(* the pre-fix connectCmd had no such check: from the same state (registered, shutdown flag set,
   connect thread about to look at it) it went on to the OnConnect handler and "connected" *)
Definition con_step_nocheck (s : st) (t : tid) (pc : kpc) (b : bool) : option st :=
  match pc with
  | KShut => Some (thr_set t (TCon KFinal) s)
  | _ => con_step s t pc b
  end.
Fixpoint run_con_nocheck (n : nat) (s : st) (t : tid) : option st :=
  match n with
  | O => Some s
  | S m => match thr s t with
           | Some (TCon pc) => match con_step_nocheck s t pc true with
                               | Some s' => run_con_nocheck m s' t
                               | None => None
                               end
           | _ => Some s
           end
  end.
Definition before_check : list label := [LSpawn OShutdown; LSpawn OConnect] ++ rep 2 (LStep 2 true).

Lemma nocheck_connects :
  exists s s', exec before_check init = Some s /\ shut s = true /\ reg s = true /\ thr s 2 = Some (TCon KShut) /\
               run_con_nocheck 10 s 2 = Some s' /\ all_finished s' = true /\ status s' = Connected /\ shut s' = true.
Proof.
  destruct (exec before_check init) as [s|] eqn:E; [|vm_compute in E; discriminate].
  destruct (run_con_nocheck 10 s 2) as [s'|] eqn:E'.
  2:{ vm_compute in E. inversion E; subst. vm_compute in E'. discriminate. }
  exists s, s'. vm_compute in E. inversion E; subst. vm_compute in E'. inversion E'; subst.
  vm_compute. repeat split; reflexivity.
Qed.

Theorem genstamp_leak_refuted :
  exists sched s, exec sched init = Some s /\ all_finished s = true /\ status s = Closed /\
                  pres s 0 = true /\ In (EvCommit 2 0 2 false) (trace s) /\ filter is_unsubcb (trace s) = [].
Proof.
  destruct genstamp_leak_witness as (s & E & F & C & _ & _ & _ & P & I & U).
  exists genstamp_leak, s. repeat split; auto.
Qed.

Theorem shutdown_connect_refused :
  exists sched s, exec sched init = Some s /\ all_finished s = true /\ shut s = true /\
                  status s = Closed /\ reg s = false /\ trace s = [].
Proof.
  destruct shutdown_then_connect_witness as (s & E & F & S & C & R & _ & T).
  exists shutdown_then_connect, s. repeat split; auto.
Qed.

Theorem no_shutdown_check_refuted :
  exists sched s s', exec sched init = Some s /\ shut s = true /\ thr s 2 = Some (TCon KShut) /\
                     run_con_nocheck 10 s 2 = Some s' /\ all_finished s' = true /\ status s' = Connected.
Proof.
  destruct nocheck_connects as (s & s' & E & S & R & T & E' & F & C & _).
  exists before_check, s, s'. repeat split; auto.
Qed.
