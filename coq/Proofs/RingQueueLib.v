(* List/array lemmas for the ring queue refinement (C12, reused by C40). *)
From Coq Require Import List NArith ZArith Bool Arith Lia.
From Cfg Require Import Model.RingQueue.
Import ListNotations.

Lemma nth_firstn_lt {A} (l : list A) n j d : j < n -> nth j (firstn n l) d = nth j l d.
Proof.
  revert n j. induction l; intros n j H; destruct n, j; simpl; auto; try lia.
  apply IHl. lia.
Qed.

Lemma nth_skipn_add {A} (l : list A) n j d : nth j (skipn n l) d = nth (n + j) l d.
Proof.
  revert n j. induction l; intros n j; destruct n; simpl; auto.
  destruct j; reflexivity.
Qed.

Lemma nth_ext_len {A} (l1 l2 : list A) d :
  length l1 = length l2 -> (forall j, j < length l1 -> nth j l1 d = nth j l2 d) -> l1 = l2.
Proof. intros. apply nth_ext with d d; auto. Qed.

(* ---- wr / rd ---- *)
Lemma wr_some l i x : i < length l -> exists l', wr l i x = Some l'.
Proof. intros H. unfold wr. apply Nat.ltb_lt in H. rewrite H. eauto. Qed.

Lemma wr_length l i x l' : wr l i x = Some l' -> length l' = length l.
Proof.
  unfold wr. destruct (i <? length l) eqn:E; intros H; [|discriminate].
  assert (l' = firstn i l ++ x :: skipn (S i) l) by congruence. subst l'. clear H.
  apply Nat.ltb_lt in E. rewrite app_length. cbn [length]. rewrite firstn_length, skipn_length. lia.
Qed.

Lemma wr_nth l i x l' j :
  wr l i x = Some l' -> nth j l' zero_item = if j =? i then x else nth j l zero_item.
Proof.
  unfold wr. destruct (i <? length l) eqn:E; intros H; [|discriminate].
  assert (l' = firstn i l ++ x :: skipn (S i) l) by congruence. subst l'. clear H.
  apply Nat.ltb_lt in E.
  assert (Hl : length (firstn i l) = i) by (rewrite firstn_length; lia).
  destruct (j =? i) eqn:Eji.
  - apply Nat.eqb_eq in Eji. subst j. rewrite app_nth2 by lia. rewrite Hl, Nat.sub_diag. reflexivity.
  - apply Nat.eqb_neq in Eji. destruct (Nat.lt_ge_cases j i).
    + rewrite app_nth1 by lia. apply nth_firstn_lt. lia.
    + rewrite app_nth2 by lia. rewrite Hl. replace (j - i) with (S (j - i - 1)) by lia. cbn [nth].
      rewrite nth_skipn_add. f_equal. lia.
Qed.

Lemma rd_some l i : i < length l -> rd l i = Some (nth i l zero_item).
Proof. intros. unfold rd. apply nth_error_nth'. auto. Qed.

Lemma modn_some a b : 1 <= b -> modn a b = Some (a mod b).
Proof. intros. unfold modn. destruct (b =? 0) eqn:E; auto. apply Nat.eqb_eq in E. lia. Qed.

(* ---- slice / copy ---- *)
Lemma slice_some l a b : a <= b -> b <= length l ->
  exists s, slice l a b = Some s /\ length s = b - a /\
            forall j, j < b - a -> nth j s zero_item = nth (a + j) l zero_item.
Proof.
  intros Hab Hb. unfold slice.
  replace (a <=? b) with true by (symmetry; apply Nat.leb_le; auto).
  replace (b <=? length l) with true by (symmetry; apply Nat.leb_le; auto). simpl.
  eexists; split; [reflexivity|]. split.
  - rewrite firstn_length, skipn_length. lia.
  - intros j Hj. rewrite nth_firstn_lt by auto. apply nth_skipn_add.
Qed.

Lemma copy_at_some dst off src : off <= length dst ->
  exists r, copy_at dst off src = Some (r, Nat.min (length dst - off) (length src)) /\
            length r = length dst /\
            forall j, nth j r zero_item =
              if (off <=? j) && (j <? off + Nat.min (length dst - off) (length src))
              then nth (j - off) src zero_item else nth j dst zero_item.
Proof.
  intros Hoff. unfold copy_at.
  replace (off <=? length dst) with true by (symmetry; apply Nat.leb_le; auto).
  set (n := Nat.min (length dst - off) (length src)).
  eexists; split; [reflexivity|].
  assert (L1 : length (firstn off dst) = off) by (rewrite firstn_length; lia).
  assert (L2 : length (firstn n src) = n) by (rewrite firstn_length; lia).
  split.
  - rewrite !app_length, L1, L2, skipn_length. lia.
  - intros j. destruct (off <=? j) eqn:E1; simpl.
    + apply Nat.leb_le in E1. rewrite app_nth2 by lia. rewrite L1.
      destruct (j <? off + n) eqn:E2.
      * apply Nat.ltb_lt in E2. rewrite app_nth1 by lia. apply nth_firstn_lt. lia.
      * apply Nat.ltb_ge in E2. rewrite app_nth2 by lia. rewrite L2, nth_skipn_add. f_equal. lia.
    + apply Nat.leb_gt in E1. rewrite app_nth1 by lia. apply nth_firstn_lt. auto.
Qed.

(* ---- ring index arithmetic ---- *)
Definition idx (h k c : nat) : nat := (h + k) mod c.

Lemma idx_small h k c : h < c -> k <= c -> idx h k c = if h + k <? c then h + k else h + k - c.
Proof.
  intros Hh Hk. unfold idx. destruct (h + k <? c) eqn:E.
  - apply Nat.ltb_lt in E. apply Nat.mod_small. auto.
  - apply Nat.ltb_ge in E. pose proof (Nat.mod_add (h + k - c) 1 c) as H.
    replace (h + k - c + 1 * c) with (h + k) in H by lia.
    rewrite H by lia. apply Nat.mod_small. lia.
Qed.

Lemma idx_lt h k c : 1 <= c -> idx h k c < c.
Proof. intros. unfold idx. apply Nat.mod_upper_bound. lia. Qed.

Lemma succ_mod h c : h < c -> (h + 1) mod c = if h + 1 =? c then 0 else h + 1.
Proof.
  intros. destruct (h + 1 =? c) eqn:E.
  - apply Nat.eqb_eq in E. subst c. apply Nat.mod_same. lia.
  - apply Nat.eqb_neq in E. apply Nat.mod_small. lia.
Qed.
