(* C08: the connect callback runs at most once and before every other per-connection
   callback, for ALL schedules of Model/SubLifecycle.v. *)
From Coq Require Import List NArith ZArith Bool Lia.
From Cfg Require Import Model.SubLifecycle Proofs.SubLifecycleLib.
Import ListNotations.
Open Scope N_scope.

Definition is_cb (e : ev) : bool :=
  match e with
  | EvSubCb _ _ | EvUnsubCb _ _ | EvConnectCb | EvDisconnectCb | EvAliveCb => true
  | _ => false
  end.
Definition cbs (l : list ev) : list ev := filter is_cb l.

Definition pre_enter (pc : kpc) : bool :=
  match pc with KCheck | KAuth | KFinal | KTrigLock | KTrigCheck | KEnter => true | _ => false end.

Record CbInv (s : st) : Prop := {
  cb_none : hreg s = false -> cbs (trace s) = [];
  cb_first : hreg s = true -> exists l, cbs (trace s) = EvConnectCb :: l /\ ~ In EvConnectCb l;
  cb_cli : forall t a, thr s t = Some (TAtt a) -> a_kind a = Cli -> hreg s = true;
  cb_con : forall t pc, thr s t = Some (TCon pc) -> kstarted s = true /\ hreg s = negb (pre_enter pc);
  cb_hk : hreg s = true -> kstarted s = true;
  cb_one : forall t t' pc pc', thr s t = Some (TCon pc) -> thr s t' = Some (TCon pc') -> t = t';
  cb_conn : status s = Connected -> hreg s = true;
  cb_prev : forall t k, thr s t = Some (TCls k) -> k_prev k = Connected -> hreg s = true
}.

Lemma CbInv_init : CbInv init.
Proof. constructor; cbn; intros; try discriminate; auto. Qed.

Lemma cbs_app l e : cbs (l ++ [e]) = cbs l ++ (if is_cb e then [e] else []).
Proof. unfold cbs. rewrite filter_app. cbn. destruct (is_cb e); reflexivity. Qed.

(* appending an event that is not the connect callback while handlers are registered *)
Lemma first_app s e l0 :
  (hreg s = true -> exists l, cbs l0 = EvConnectCb :: l /\ ~ In EvConnectCb l) ->
  e <> EvConnectCb -> hreg s = true ->
  exists l, cbs (l0 ++ [e]) = EvConnectCb :: l /\ ~ In EvConnectCb l.
Proof.
  intros H NE HR. destruct (H HR) as (l & E & NI). rewrite cbs_app, E.
  destruct (is_cb e); [exists (l ++ [e])|exists l; rewrite app_nil_r]; split; auto.
  intros X. apply in_app_or in X. destruct X as [X|[X|[]]]; auto.
Qed.

Ltac corec :=
  unfold spawn_int, submit_job, thr_set, thr_del, log, set_gst1 in *;
  cbn [trace thr hreg kstarted status
       set_status set_authed set_closing set_chans set_genctr set_gclosed set_cmu set_pmu set_pinfl
       set_kstarted set_slock set_hub set_others set_reg set_pres set_bsub set_jobs set_gconn set_gsub
       set_trace set_thr set_next_ext set_next_int set_panicked set_wclosed set_hreg set_shut set_gst] in *.

(* A generic step: thread t becomes o' (None = ends), optionally one fresh thread x appears,
   events es are appended; hreg, kstarted and status change only as stated by the caller. *)
Lemma Cb_step s s' t o' es nt :
  CbInv s -> thr s t <> None ->
  trace s' = trace s ++ es ->
  hreg s' = hreg s -> kstarted s' = kstarted s ->
  (status s' = Connected -> status s = Connected) ->
  (forall e, In e es -> is_cb e = true -> e <> EvConnectCb /\ hreg s = true) ->
  (forall t0, t0 <> t -> thr s' t0 = thr s t0 \/
                          (t0 = nt /\ thr s t0 = None /\
                           match thr s' t0 with Some (TCls k) => k_prev k = Connecting | Some (TJob _) => True | _ => False end)) ->
  thr s' t = o' ->
  (* the stepping thread keeps its kind-specific obligations *)
  (forall a, o' = Some (TAtt a) -> a_kind a = Cli -> hreg s = true) ->
  (forall pc, o' = Some (TCon pc) -> exists pc0, thr s t = Some (TCon pc0) /\ pre_enter pc = pre_enter pc0) ->
  (forall k, o' = Some (TCls k) -> k_prev k = Connected -> hreg s = true) ->
  CbInv s'.
Proof.
  intros [C1 C2 C3 C4 C8 C5 C6 C7] NN TR HR KS ST EV OTH THT OA OC OK.
  assert (CBS : hreg s = false -> cbs (trace s') = []).
  { intros F. rewrite TR. unfold cbs. rewrite filter_app. fold (cbs (trace s)). rewrite (C1 F). cbn.
    clear TR. revert EV. induction es as [|e es IH]; intros EV; cbn; auto. destruct (is_cb e) eqn:Ee.
    - destruct (EV e (or_introl eq_refl) Ee) as [_ X]. congruence.
    - apply IH. intros e0 I0. apply EV. right. auto. }
  constructor.
  - rewrite HR. exact CBS.
  - rewrite HR. intros T. rewrite TR. clear CBS.
    revert EV. generalize (trace s) (C2 T). clear - T.
    induction es as [|e es IH]; intros l0 H EV; [rewrite app_nil_r; auto|].
    replace (l0 ++ e :: es) with ((l0 ++ [e]) ++ es) by (rewrite <- app_assoc; reflexivity).
    apply IH.
    + destruct H as (l & E & NI). rewrite cbs_app, E.
      destruct (is_cb e) eqn:Ee; [exists (l ++ [e])|exists l; rewrite app_nil_r]; split; auto.
      intros X. apply in_app_or in X. destruct X as [X|[X|[]]]; auto.
      destruct (EV e (or_introl eq_refl) Ee) as [NE _]. congruence.
    + intros e0 I0. apply EV. right. auto.
  - intros t0 a E K. rewrite HR. destruct (N.eqb_spec t0 t); [subst t0; rewrite THT in E; eauto|].
    destruct (OTH t0 n) as [X|(_ & _ & X)]; [rewrite X in E; eauto|rewrite E in X; destruct X].
  - intros t0 pc E. rewrite HR, KS. destruct (N.eqb_spec t0 t).
    + subst t0. rewrite THT in E. destruct (OC pc E) as (pc0 & E0 & P). destruct (C4 _ _ E0) as [A B].
      split; auto. rewrite P. auto.
    + destruct (OTH t0 n) as [X|(_ & _ & X)]; [rewrite X in E; eauto|rewrite E in X; destruct X].
  - rewrite HR, KS. exact C8.
  - intros t0 t1 pc pc' E0 E1.
    assert (F : forall tx pcx, thr s' tx = Some (TCon pcx) -> exists pcy, thr s tx = Some (TCon pcy)).
    { intros tx pcx Ex. destruct (N.eqb_spec tx t).
      - subst tx. rewrite THT in Ex. destruct (OC pcx Ex) as (pc0 & Ey & _). eauto.
      - destruct (OTH tx n) as [X|(_ & _ & X)]; [rewrite X in Ex; eauto|rewrite Ex in X; destruct X]. }
    destruct (F _ _ E0) as (p0 & F0). destruct (F _ _ E1) as (p1 & F1). eapply C5; eauto.
  - rewrite HR. intros X. apply C6. auto.
  - intros t0 k E P. rewrite HR. destruct (N.eqb_spec t0 t); [subst t0; rewrite THT in E; eauto|].
    destruct (OTH t0 n) as [X|(_ & _ & X)]; [rewrite X in E; eauto|].
    rewrite E in X. rewrite X in P. discriminate.
Qed.

From Cfg Require Import Proofs.SubBroker Proofs.SubBrokerStep.

Lemma Cb_step0 s s' t o' nt :
  CbInv s -> thr s t <> None ->
  trace s' = trace s -> hreg s' = hreg s -> kstarted s' = kstarted s ->
  (status s' = Connected -> status s = Connected) ->
  (forall t0, t0 <> t -> thr s' t0 = thr s t0 \/
                          (t0 = nt /\ thr s t0 = None /\
                           match thr s' t0 with Some (TCls k) => k_prev k = Connecting | Some (TJob _) => True | _ => False end)) ->
  thr s' t = o' ->
  (forall a, o' = Some (TAtt a) -> a_kind a = Cli -> hreg s = true) ->
  (forall pc, o' = Some (TCon pc) -> exists pc0, thr s t = Some (TCon pc0) /\ pre_enter pc = pre_enter pc0) ->
  (forall k, o' = Some (TCls k) -> k_prev k = Connected -> hreg s = true) ->
  CbInv s'.
Proof.
  intros. eapply Cb_step with (es := []); eauto; try (rewrite app_nil_r; auto; fail); try (intros e []; fail).
Qed.

Lemma Cb_step1 s s' t o' e nt :
  CbInv s -> thr s t <> None ->
  trace s' = trace s ++ [e] -> hreg s' = hreg s -> kstarted s' = kstarted s ->
  (status s' = Connected -> status s = Connected) ->
  (is_cb e = true -> e <> EvConnectCb /\ hreg s = true) ->
  (forall t0, t0 <> t -> thr s' t0 = thr s t0 \/
                          (t0 = nt /\ thr s t0 = None /\
                           match thr s' t0 with Some (TCls k) => k_prev k = Connecting | Some (TJob _) => True | _ => False end)) ->
  thr s' t = o' ->
  (forall a, o' = Some (TAtt a) -> a_kind a = Cli -> hreg s = true) ->
  (forall pc, o' = Some (TCon pc) -> exists pc0, thr s t = Some (TCon pc0) /\ pre_enter pc = pre_enter pc0) ->
  (forall k, o' = Some (TCls k) -> k_prev k = Connected -> hreg s = true) ->
  CbInv s'.
Proof.
  intros. eapply Cb_step with (es := [e]); eauto.
  intros e0 [<-|[]]. auto.
Qed.

(* threads elsewhere are untouched by a plain update / by an update plus one internal spawn *)
Lemma oth_plain (th : tid -> option thread) t o' nt :
  forall t0, t0 <> t -> upd th t o' t0 = th t0 \/
    (t0 = nt /\ th t0 = None /\ match upd th t o' t0 with Some (TCls k) => k_prev k = Connecting | Some (TJob _) => True | _ => False end).
Proof. intros t0 NE. left. apply upd_other. auto. Qed.

Lemma oth_spawn (th : tid -> option thread) t o' nt x :
  th nt = None -> t <> nt ->
  match x with TCls k => k_prev k = Connecting | TJob _ => True | _ => False end ->
  forall t0, t0 <> t -> upd (upd th nt (Some x)) t o' t0 = th t0 \/
    (t0 = nt /\ th t0 = None /\
     match upd (upd th nt (Some x)) t o' t0 with Some (TCls k) => k_prev k = Connecting | Some (TJob _) => True | _ => False end).
Proof.
  intros FR NT X t0 NE. rewrite upd_other; auto.
  destruct (N.eqb_spec t0 nt); [subst t0; right; rewrite upd_same; auto|left; apply upd_other; auto].
Qed.

Lemma cg_tr g s : trace (close_gate g s) = trace s /\ thr (close_gate g s) = thr s /\
  hreg (close_gate g s) = hreg s /\ kstarted (close_gate g s) = kstarted s /\ status (close_gate g s) = status s.
Proof. unfold close_gate. destruct (gclosed s g); cbn; auto. Qed.
Lemma cc_tr c s : trace (close_cap c s) = trace s /\ thr (close_cap c s) = thr s /\
  hreg (close_cap c s) = hreg s /\ kstarted (close_cap c s) = kstarted s /\ status (close_cap c s) = status s.
Proof. destruct c; cbn; auto. apply cg_tr. Qed.
Lemma hr_tr c g s : trace (hubrem c g s) = trace s /\ thr (hubrem c g s) = thr s /\
  hreg (hubrem c g s) = hreg s /\ kstarted (hubrem c g s) = kstarted s /\ status (hubrem c g s) = status s.
Proof.
  unfold hubrem. destruct (hub s c); [destruct (_ =? g); [destruct (others s c =? 0)|]|]; cbn; auto.
Qed.

Ltac cb_side ET :=
  first [ intros ? X; inversion X; subst; cbn in *; eauto; fail
        | intros ? X; discriminate X
        | intros ? X; rewrite ET; inversion X; subst; cbn; eauto ].

Lemma att_step_Cb s t a b s' :
  CbInv s -> InvBS s -> thr s t = Some (TAtt a) -> att_step s t a b = Some s' -> CbInv s'.
Proof.
  intros CI I ET H. unfold att_step in H.
  assert (NN : thr s t <> None) by congruence.
  assert (CLI : a_kind a = Cli -> hreg s = true) by (intros K; eapply (cb_cli _ CI); eauto).
  assert (FR : thr s (2 * next_int s + 1) = None) by (eapply fresh_int_b; eauto).
  assert (NT : t <> 2 * next_int s + 1) by (intros E; rewrite <- E in FR; congruence).
  destruct (cc_tr (a_cap a) s) as (C1 & C2 & C3 & C4 & C5).
  destruct (hr_tr (a_ch a) (a_use a) s) as (H1 & H2 & H3 & H4 & H5).
  destruct (hr_tr (a_ch a) (a_own a) s) as (G1 & G2 & G3 & G4 & G5).
  destruct (a_pc a) eqn:EPC;
    repeat match type of H with
    | (if ?c then _ else _) = _ => destruct c eqn:?
    | match ?o with Some _ => _ | None => _ end = _ => destruct o eqn:?
    | match ?k with Cli => _ | Srv => _ end = _ => destruct k eqn:?
    end; try discriminate; inv H; cbv zeta;
    repeat (match goal with |- context [if ?x then _ else _] => destruct x eqn:? end);
    repeat (match goal with |- context [match hub ?s0 ?c with Some _ => _ | None => _ end] => destruct (hub s0 c) eqn:? end);
    repeat (match goal with |- context [if ?x then _ else _] => destruct x eqn:? end).
  all: try (eapply Cb_step0 with (t := t) (nt := 2 * next_int s + 1); [exact CI|exact NN
       |corec; rewrite ?C1, ?H1, ?G1; reflexivity|corec; rewrite ?C3, ?H3, ?G3; reflexivity
       |corec; rewrite ?C4, ?H4, ?G4; reflexivity|corec; rewrite ?C5, ?H5, ?G5; auto
       |corec; rewrite ?C2, ?H2, ?G2; first [apply oth_plain | apply oth_spawn; [exact FR|exact NT|reflexivity]]
       |corec; rewrite ?C2, ?H2, ?G2; apply upd_same
       |intros ? X; inversion X; subst; cbn; intros; first [apply CLI; assumption | congruence | auto]
       |intros ? X; discriminate X|intros ? X; discriminate X]; fail).
  all: try (eapply Cb_step1 with (t := t) (nt := 2 * next_int s + 1); [exact CI|exact NN
       |corec; reflexivity|corec; reflexivity|corec; reflexivity|corec; auto
       |cbn; intros X; first [discriminate X | split; [discriminate|auto]]
       |corec; apply oth_plain|corec; apply upd_same
       |intros ? X; inversion X; subst; cbn; intros; first [apply CLI; assumption | congruence | auto]
       |intros ? X; discriminate X|intros ? X; discriminate X]; fail).
Qed.
